import HappyProofs.C12.PxFut
import HappyProofs.C12.PxPromise
import HappyProofs.C12.PxCurExact
import HappyProofs.C12.PxLiveFull
import HappyProofs.C12.PxJudge
import HappyProofs.C12.LockProof
import HappyProofs.C12.MPWitness
import HappyProofs.C12.MPCommit
import HappyProofs.C12.MPLeader
import HappyProofs.C12.MPDeposed
import HappyProofs.C12.MPJudge
import HappyProofs.C12.ElWitness
import HappyProofs.C12.ElStale
import HappyProofs.C12.ElStaticRun
import HappyModel.C12.Spec
/-!
# C12 — property theorems (single-decree Paxos, Flexible quorums)

All theorems quantify over *every* action sequence of the message-passing model
`HappyModel.C12.Px` (any cluster size, any proposers, values and ballots, any interleaving of
deliveries, any retry timing, any loss — a dropped or partitioned message is one that is never
delivered).  The model with `step` is the repaired code (fixes/C12-paxos-phase2-once.diff); for the
pinned tree (`stepCur`) the negations are proved with concrete schedules that are replayed on the
real implementation from `corpus/C12/`.
-/
namespace HappyModel.C12
open Px

/-- decisions reported by the nodes of a model state, as the Spec sees them -/
def Px.decisionsOf (s : St) : List Nat := (List.range s.cfg.n).filterMap s.decided

theorem allEq_of_forall {l : List Nat} (h : ∀ x ∈ l, ∀ y ∈ l, x = y) : Spec.allEq l = true := by
  cases l with
  | nil => rfl
  | cons a t =>
    simp only [Spec.allEq, List.all_eq_true, beq_iff_eq]
    intro y hy
    exact h y (List.mem_cons_of_mem _ hy) a List.mem_cons_self

/-- AGREEMENT, Flexible Paxos form: with phase-1 quorums of size q1 and phase-2 quorums of size q2
    that intersect (`n < q1 + q2`, `0 < q2`), any two nodes that have learned a value learned the
    same value — along every action sequence. -/
theorem flexible_paxos_agreement (n q1 q2 : Nat) (hq : n < q1 + q2) (hq2 : 0 < q2) (as : List Act)
    (d1 d2 : Nat) (v1 v2 : Val)
    (h1 : (runActs (init n q1 q2) as).decided d1 = some v1)
    (h2 : (runActs (init n q1 q2) as).decided d2 = some v2) : v1 = v2 := by
  have inv := run_inv (init n q1 q2) as (init_inv n q1 q2)
  have hc := run_cfg (init n q1 q2) as
  refine agreement_of_inv inv ?_ ?_ h1 h2
  · rw [hc]; exact hq
  · rw [hc]; exact hq2

/-- AGREEMENT for `PaxosNode` (majority quorums `n // 2 + 1` in both phases) -/
theorem paxos_agreement (n : Nat) (as : List Act) (d1 d2 : Nat) (v1 v2 : Val)
    (h1 : (runActs (init n (majority n) (majority n)) as).decided d1 = some v1)
    (h2 : (runActs (init n (majority n) (majority n)) as).decided d2 = some v2) : v1 = v2 :=
  flexible_paxos_agreement n (majority n) (majority n) (by unfold majority; omega) (by unfold majority; omega)
    as d1 d2 v1 v2 h1 h2

/-- the same statement through the Spec predicate the judge evaluates on implementation traces -/
theorem paxos_agreement_spec (n : Nat) (as : List Act) :
    Spec.allEq (decisionsOf (runActs (init n (majority n) (majority n)) as)) = true := by
  apply allEq_of_forall
  intro x hx y hy
  simp only [decisionsOf, List.mem_filterMap] at hx hy
  obtain ⟨d1, _, h1⟩ := hx
  obtain ⟨d2, _, h2⟩ := hy
  exact paxos_agreement n as d1 d2 x y h1 h2

/-- VALIDITY: a learned value was handed to `propose()` by some client (flexible quorums) -/
theorem paxos_validity (n q1 q2 : Nat) (hq2 : 0 < q2) (as : List Act) (d : Nat) (v : Val)
    (h : (runActs (init n q1 q2) as).decided d = some v) :
    v ∈ (runActs (init n q1 q2) as).proposedVals := by
  have inv := run_inv (init n q1 q2) as (init_inv n q1 q2)
  have val := run_valid (init n q1 q2) as (init_inv n q1 q2) (init_valid n q1 q2)
  have hc := run_cfg (init n q1 q2) as
  obtain ⟨b, Q, _, hQ, hlen⟩ := inv.learn.node d v h
  have hq2' : 0 < (runActs (init n q1 q2) as).cfg.q2 := by rw [hc]; exact hq2
  obtain ⟨a, ha⟩ := quorum_nonempty hq2' hlen
  exact val.st b v (inv.sem.one a b v (hQ a ha).2)

/-- STABILITY: a reported decision never changes, whatever happens afterwards -/
theorem decision_stable (s : St) (as : List Act) (d : Nat) (v : Val) (h : s.decided d = some v) :
    (runActs s as).decided d = some v :=
  decided_stable_run s as d v h

/-- FUTURES: a future returned by `propose()` resolves only with the value its node decided
    (hence, by agreement, with *the* decided value) -/
theorem future_resolves_decided (n q1 q2 : Nat) (as : List Act) (f : Nat) (v : Val)
    (h : (runActs (init n q1 q2) as).futRes f = some v) :
    (runActs (init n q1 q2) as).decided ((runActs (init n q1 q2) as).futOwner f) = some v :=
  (run_fut (init n q1 q2) as (init_fut n q1 q2)).res f v h

/-! ### non-vacuity -/

/-- three nodes, two competing proposers; node 0's first ballot is pre-empted by node 1 (nack,
    retry with a new ballot), node 1's value is chosen, everybody learns it, both futures resolve
    with it -/
def demo : List Act :=
  [ .propose 0 3 70, .propose 1 4 71,
    .recvPrepare 4 0, .recvPrepare 4 2, .recvPromise 4 0, .recvAccept 4 0, .recvAccept 4 2,
    .recvPrepare 3 2,                     -- nack: 2 already promised ballot 4
    .nack 3 1, .retry 0 3 6,              -- node 0 abandons ballot 3 for ballot 6
    .recvAccepted 4 0, .recvDecided 1 0, .recvDecided 1 2,
    .propose 0 9 72 ]                     -- proposing after the decision: resolved at once

example :
    let s := runActs (init 3 (majority 3) (majority 3)) demo
    s.decided 0 = some 71 ∧ s.decided 1 = some 71 ∧ s.decided 2 = some 71 ∧
    s.futRes 1 = some 71 ∧ s.futRes 2 = some 71 ∧ s.futRes 0 = none ∧ s.live 3 = false ∧ s.live 6 = true ∧
    71 ∈ s.proposedVals := by decide

/-- Flexible quorums that satisfy the hypothesis on 4 nodes: q1 = 2, q2 = 3 -/
example : (4 < 2 + 3) ∧ (0 < 3) := by decide

/-! ### the pinned tree (`stepCur`): agreement and validity are false -/

/-- nodes P=0 Q=1 A=2 B=3 C=4; ballots (1,Q)=6, (2,P)=10, (3,A)=17; the schedule of
    `corpus/C12/paxos-late-promise-restarts-phase2.json` -/
def witnessAgreement : List Act :=
  [ .propose 1 6 71, .recvPrepare 6 3, .recvPrepare 6 4, .recvPrepare 6 0,
    .recvPromise 6 3, .recvPromise 6 4,                 -- Q reaches quorum, sends Accept((1,Q), 71)
    .recvAccept 6 4,                                    -- only C accepts it
    .propose 0 10 70, .recvPrepare 10 2, .recvPrepare 10 3,
    .recvPromise 10 2, .recvPromise 10 3,               -- P reaches quorum {P, A, B}: nothing accepted → 70
    .recvAccept 10 2, .recvAccept 10 3,                 -- A and B accept ((2,P), 70); their acks are in flight
    .recvPrepare 10 4, .recvPromise 10 4,               -- C's late promise reports ((1,Q), 71): phase 2 restarts with 71
    .recvAccepted 10 2, .recvAccepted 10 3,             -- acks for 70 are counted for 71: P decides 71
    .propose 2 17 72, .recvPrepare 17 3, .recvPrepare 17 4,
    .recvPromise 17 3, .recvPromise 17 4,               -- A sees ((2,P), 70) as highest accepted → 70
    .recvAccept 17 3, .recvAccept 17 4, .recvAccepted 17 3, .recvAccepted 17 4 ]

/-- agreement is false of the pinned tree: P learns 71, A learns 70 (only message delays, no loss) -/
theorem paxos_agreement_current_false :
    (runCur (init 5 (majority 5) (majority 5)) witnessAgreement).decided 0 = some 71 ∧
    (runCur (init 5 (majority 5) (majority 5)) witnessAgreement).decided 2 = some 70 := by
  decide

/-- the same schedule under the repaired rule: both learn 70 -/
example :
    (runActs (init 5 (majority 5) (majority 5)) witnessAgreement).decided 0 = some 70 ∧
    (runActs (init 5 (majority 5) (majority 5)) witnessAgreement).decided 2 = some 70 := by
  decide

/-- the schedule of `corpus/C12/paxos-retry-decides-none.json`: ballots (1,P)=5, (1,Q)=6, (2,P)=10 -/
def witnessNone : List Act :=
  [ .propose 1 6 71, .recvPrepare 6 4,                  -- node 4 promises (1,Q)
    .propose 0 5 70, .recvPrepare 5 2, .recvPrepare 5 3,
    .recvPromise 5 2, .recvPromise 5 3,                 -- P starts phase 2 of (1,P) with 70
    .recvAccept 5 2, .recvAccept 5 3,                   -- acks in flight
    .recvPrepare 5 4, .nack 5 1, .retry 0 5 10,         -- node 4 nacks; P moves value and future to (2,P)
    .recvAccepted 5 2, .recvAccepted 5 3 ]              -- acks for the abandoned ballot reach quorum

/-- validity is false of the pinned tree: P decides `None` (= 0), which nobody proposed, and the
    proposer's future stays unresolved -/
theorem retry_decides_none :
    (runCur (init 5 (majority 5) (majority 5)) witnessNone).decided 0 = some 0 ∧
    0 ∉ (runCur (init 5 (majority 5) (majority 5)) witnessNone).proposedVals ∧
    (runCur (init 5 (majority 5) (majority 5)) witnessNone).futRes 1 = none := by
  decide

/-- under the repaired rule the acks for the abandoned ballot are ignored -/
example : (runActs (init 5 (majority 5) (majority 5)) witnessNone).decided 0 = none := by decide

/-- both witnesses lie in the fragment where `stepCur` mirrors the pinned tree exactly (`PxCurExact.lean`): the late
    promise of `witnessAgreement` does overwrite the undelivered `Accept((2,P))` to Q and C (situation A), but neither
    is ever delivered -/
theorem witnessAgreement_exact : curExact (init 5 (majority 5) (majority 5)) {} witnessAgreement = true := by decide
theorem witnessNone_exact : curExact (init 5 (majority 5) (majority 5)) {} witnessNone = true := by decide

/-- a schedule outside the fragment: after the restart, the overwritten `Accept((2,P))` to C is delivered -/
example : curExact (init 5 (majority 5) (majority 5)) {}
    (witnessAgreement.take 16 ++ [.recvAccept 10 4]) = false := by decide

/-! ## Flexible quorums: phase 1 uses `q1`, a decision needs `q2` distinct acceptors -/

/-- QUORUM INTERSECTION (Flexible Paxos): on `n` nodes, any phase-1 quorum (`≥ q1` distinct nodes)
    meets any phase-2 quorum (`≥ q2` distinct nodes) as soon as `q1 + q2 > n`. -/
theorem flexible_quorums_intersect (n q1 q2 : Nat) (Q1 Q2 : List Nat) (h1 : Q1.Nodup) (h2 : Q2.Nodup)
    (b1 : ∀ f ∈ Q1, f < n) (b2 : ∀ f ∈ Q2, f < n) (l1 : q1 ≤ Q1.length) (l2 : q2 ≤ Q2.length)
    (hq : n < q1 + q2) : ∃ f, f ∈ Q1 ∧ f ∈ Q2 :=
  quorum_lists_meet n q1 q2 Q1 Q2 h1 h2 b1 b2 l1 l2 hq

/-- non-vacuity: 4 nodes, q1 = 2 < q2 = 3 (the asymmetric case), quorums {0,1} and {1,2,3} … -/
example : [0, 1].Nodup ∧ [1, 2, 3].Nodup ∧ (∀ f ∈ [0, 1], f < 4) ∧ (∀ f ∈ [1, 2, 3], f < 4) ∧
    2 ≤ [0, 1].length ∧ 3 ≤ [1, 2, 3].length ∧ 4 < 2 + 3 := by decide

/-- … and the hypothesis `n < q1 + q2` is needed: with q1 = q2 = 2 on 4 nodes {0,1} and {2,3} are disjoint -/
example : ¬ ∃ f, f ∈ [0, 1] ∧ f ∈ [2, 3] := by decide

/-- A DECISION NEEDS A PHASE-2 QUORUM: along every action sequence of the (single-decree, flexible)
    Paxos model, a node reports `v` as decided only if, for some ballot `b`, at least `q2` *distinct*
    acceptors voted for `(b, v)`.  (`q1` plays no role here; phase 1 is where `q1` is used.) -/
theorem paxos_decision_has_phase2_quorum (n q1 q2 : Nat) (as : List Act) (d : Nat) (v : Val)
    (h : (runActs (init n q1 q2) as).decided d = some v) :
    ∃ (b : Nat) (Q : List Nat), Q.Nodup ∧
      (∀ a ∈ Q, a < n ∧ (a, b, v) ∈ (runActs (init n q1 q2) as).votes) ∧ q2 ≤ Q.length := by
  have inv := run_inv (init n q1 q2) as (init_inv n q1 q2)
  have hc := run_cfg (init n q1 q2) as
  obtain ⟨b, Q, hnd, hQ, hlen⟩ := inv.learn.node d v h
  refine ⟨b, Q, hnd, ?_, ?_⟩
  · intro a ha
    have := hQ a ha
    rw [hc] at this
    exact this
  · rw [hc] at hlen; exact hlen

/-- non-vacuity: in `demo` node 0 does report a decision -/
example : (runActs (init 3 (majority 3) (majority 3)) demo).decided 0 = some 71 := by decide

/-! ## Multi-Paxos / Flexible Paxos log: the leader's commit rule -/

/-- COMMIT NEEDS A PHASE-2 QUORUM OF ACKNOWLEDGEMENTS: for every cluster size, every `(q1, q2)`,
    Multi- or Flexible Paxos, and **every** action list (any interleaving, loss, duplication, leader
    changes), the observations of the model run satisfy the Spec clause the judge evaluates on
    implementation transcripts: whenever the delivery of an `Accepted` raises the receiver's commit
    index, at least `q2` acknowledgements for that slot exist (its own entry + the `Accepted`
    messages delivered to it).  The model's phase 1 compares with `q1`, its commit with `q2`. -/
theorem MP.commit_needs_phase2_quorum (n q1 q2 : Nat) (flex : Bool) (as : List MP.Act) :
    Spec.commitQuorum q2 [] (MP.obsRun (MP.init n q1 q2 flex) as) = true :=
  MP.run_commitQuorum as (MP.init n q1 q2 flex) [] (MP.init_inv n q1 q2 flex)

/-- the same through the judge's entry point: no commit-rule signature on any model run -/
theorem MP.commit_judge_silent (pfx : String) (n q1 q2 : Nat) (flex : Bool) (as : List MP.Act) :
    Spec.judgeCommit pfx q2 false (MP.obsRun (MP.init n q1 q2 flex) as) = none := by
  simp [Spec.judgeCommit, MP.commit_needs_phase2_quorum]

/-- 4 nodes, q1 = 2, q2 = 3, nodes {0,1} cut off from {2,3}: node 0 has a pending command, starts,
    gets the promise of node 1 (phase-1 quorum of exactly q1 = 2), proposes slot 1, node 1 accepts and
    acknowledges: 2 acknowledgements < q2 -/
def MP.minorityLeader : List MP.Act :=
  [ .submit 0 1, .start 0, .prepare 1 4, .promise 0 1, .accept 1 0 4 1 1 0, .accepted 0 1 ]

/-- non-vacuity of `commit_needs_phase2_quorum`: when node 2 accepts as well, node 0 commits slot 1
    (the observation list contains a real commit, `ci 0 → 1`, with 3 acknowledgements) … -/
example :
    MP.decidedAt (MP.run (MP.init 4 2 3 true) (MP.minorityLeader ++ [.accept 2 0 4 1 1 0, .accepted 0 1])) 0 1 = some 1 ∧
    Spec.LogObs.ack 0 1 0 1 4 1 ∈ MP.obsRun (MP.init 4 2 3 true) (MP.minorityLeader ++ [.accept 2 0 4 1 1 0, .accepted 0 1]) := by
  decide

/-- … and with q1 = 2 acknowledgements only, the model (which compares with q2 = 3) reports nothing -/
example : MP.decidedAt (MP.run (MP.init 4 2 3 true) MP.minorityLeader) 0 1 = none := by decide

/-- THE SPEC SEPARATES q1 FROM q2: a node that commits on a *phase-1* quorum of acknowledgements
    (the model run with its commit threshold set to q1 = 2) violates the clause for q2 = 3 on the
    minority-leader schedule — this is the class of defect `fpaxos/commit/without-phase2-quorum`. -/
theorem MP.commit_on_phase1_quorum_violates_spec :
    (4 < 2 + 3) ∧
    MP.decidedAt (MP.run (MP.init 4 2 2 true) MP.minorityLeader) 0 1 = some 1 ∧
    Spec.commitQuorum 3 [] (MP.obsRun (MP.init 4 2 2 true) MP.minorityLeader) = false := by
  decide

/-- LEADERSHIP NEEDS A PHASE-1 QUORUM OF PROMISES: for every cluster size, every `(q1, q2)` and
    **every** action list, whenever `start()` or a delivered `Promise` turns a node's `is_leader` from
    false to true, at least `q1` phase-1 responses for that ballot number (its own `start()` + the
    promises delivered to it) have reached it. -/
theorem MP.leader_needs_phase1_quorum (n q1 q2 : Nat) (flex : Bool) (as : List MP.Act) :
    Spec.leaderQuorum q1 [] (MP.obsRun (MP.init n q1 q2 flex) as) = true :=
  MP.run_leaderQuorum as (MP.init n q1 q2 flex) [] (MP.init_invL n q1 q2 flex)

theorem MP.leader_judge_silent (pfx : String) (n q1 q2 : Nat) (flex : Bool) (as : List MP.Act) :
    Spec.judgeLeader pfx q1 (MP.obsRun (MP.init n q1 q2 flex) as) = none := by
  simp [Spec.judgeLeader, MP.leader_needs_phase1_quorum]

/-- 4 nodes, q1 = 3 > q2 = 2: node 0 starts and receives the promise of node 1 -/
def MP.onePromise : List MP.Act := [ .start 0, .prepare 1 4, .promise 0 1 ]

/-- non-vacuity: the second promise (3 responses = q1) makes node 0 leader — a real `false → true`
    observation; one promise does not -/
example :
    Spec.LogObs.prom 0 1 false true ∈ MP.obsRun (MP.init 4 3 2 true) (MP.onePromise ++ [.prepare 2 4, .promise 0 1]) ∧
    (MP.getNode (MP.run (MP.init 4 3 2 true) MP.onePromise) 0).isLeader = false := by
  decide

/-- the mirror image of `commit_on_phase1_quorum_violates_spec`: a node whose phase 1 compares with
    q2 = 2 (the model run with its phase-1 threshold set to 2) leads after one promise and violates the
    clause for q1 = 3 — the class `fpaxos/leader/without-phase1-quorum`. -/
theorem MP.leader_on_phase2_quorum_violates_spec :
    (4 < 3 + 2) ∧
    (MP.getNode (MP.run (MP.init 4 2 2 true) MP.onePromise) 0).isLeader = true ∧
    Spec.leaderQuorum 3 [] (MP.obsRun (MP.init 4 2 2 true) MP.onePromise) = false := by
  decide

/-- 3 nodes, q1 = 1, q2 = 3: node 0 leads at once, the late promise of node 1 makes `_become_leader`
    replicate slot 1 a second time, node 1 acknowledges twice -/
def MP.duplicateAcks : List MP.Act :=
  [ .submit 0 1, .start 0, .prepare 1 3, .promise 0 1,
    .accept 1 0 3 1 1 0, .accept 1 0 3 1 1 0, .accepted 0 1, .accepted 0 1 ]

/-- THE PINNED TREE COUNTS ACKNOWLEDGEMENTS, NOT ACCEPTORS: on `duplicateAcks` node 0 commits slot 1
    although only nodes {0, 1} ever accepted it (q2 = 3): the distinct-acceptor form
    `Spec.commitQuorumStrict` is false of the code as written, the acknowledgement form holds. -/
theorem MP.commit_distinct_quorum_current_false :
    (3 < 1 + 3) ∧
    MP.decidedAt (MP.run (MP.init 3 1 3 true) MP.duplicateAcks) 0 1 = some 1 ∧
    Spec.commitQuorumStrict 3 [] (MP.obsRun (MP.init 3 1 3 true) MP.duplicateAcks) = false ∧
    Spec.commitQuorum 3 [] (MP.obsRun (MP.init 3 1 3 true) MP.duplicateAcks) = true := by
  decide

/-! ## Multi-Paxos / Flexible Paxos: a node that promised another node's ballot does not lead -/

/-- A PROMISE ENDS LEADERSHIP: for every cluster size, every `(q1, q2)`, Multi- or Flexible Paxos and
    **every** action list, right after a node answered a `Prepare` with a `Promise` (it adopted the ballot
    of another node) its `is_leader` is false. -/
theorem MP.promise_clears_leadership (n q1 q2 : Nat) (flex : Bool) (as : List MP.Act) :
    Spec.promiseClears [] (MP.obsRun (MP.init n q1 q2 flex) as) = true :=
  MP.run_promiseClears as (MP.init n q1 q2 flex) []

/-- A DEPOSED LEADER ASSIGNS NO SLOT: along every action list over the nodes `0 … n-1`, a node that has
    answered a `Prepare` with a `Promise` neither assigns a slot to a command handed to `submit()` nor
    sends an `Accept` until a phase-1 response (its own `start()` or a delivered `Promise`) leaves it leader
    again — with `is_leader` turning from false to true (judged by `leader_needs_phase1_quorum`) or with
    `q1` responses for that ballot number. -/
theorem MP.deposed_leader_never_assigns (n q1 q2 : Nat) (flex : Bool) (as : List MP.Act)
    (hr : ∀ a ∈ as, MP.actor a < n) :
    Spec.deposedSilent q1 [] (MP.obsRun (MP.init n q1 q2 flex) as) = true := by
  refine MP.run_deposedSilent as (MP.init n q1 q2 flex) [] (fun p hd => by simp [Spec.deposed] at hd) ?_
  intro a ha
  have : (MP.init n q1 q2 flex).nodes.length = n := by simp [MP.init]
  rw [this]; exact hr a ha

/-- the same through the judge's entry point: neither deposed-leader signature on any model run -/
theorem MP.deposed_judge_silent (pfx : String) (n q1 q2 : Nat) (flex : Bool) (as : List MP.Act)
    (hr : ∀ a ∈ as, MP.actor a < n) :
    Spec.judgeDeposed pfx q1 (MP.obsRun (MP.init n q1 q2 flex) as) = none := by
  simp [Spec.judgeDeposed, MP.deposed_leader_never_assigns n q1 q2 flex as hr, MP.promise_clears_leadership]

/-- 3 nodes: node 0 leads with ballot (1,0) = 3; node 1 starts (1,1) = 4 and leads on the promise of
    node 2; its `Prepare` reaches node 0 late; a command is then submitted to node 0 -/
def MP.slowPrepare : List MP.Act :=
  [ .start 0, .prepare 1 3, .promise 0 1, .submit 0 8,
    .start 1, .prepare 2 4, .promise 1 1,
    .prepare 0 4, .submit 0 9 ]

/-- non-vacuity: the run contains a real promise by a sitting leader (`pled 0 4 false`: node 0 was leader and
    assigned slot 1 to command 8 before), afterwards node 0 is not leader and parks command 9 instead of
    assigning slot 2 -/
example :
    Spec.LogObs.asg 0 1 ∈ MP.obsRun (MP.init 3 2 2 false) MP.slowPrepare ∧
    Spec.LogObs.pled 0 4 false ∈ MP.obsRun (MP.init 3 2 2 false) MP.slowPrepare ∧
    Spec.LogObs.asg 0 2 ∉ MP.obsRun (MP.init 3 2 2 false) MP.slowPrepare ∧
    (MP.getNode (MP.run (MP.init 3 2 2 false) MP.slowPrepare) 0).pending = [(9, 1)] ∧
    (∀ a ∈ MP.slowPrepare, MP.actor a < 3) := by
  decide

/-- THE SPEC REJECTS A DEPOSED LEADER THAT KEEPS ASSIGNING: the observations of the same schedule on a node
    whose `Prepare` handler leaves `is_leader` set (it promises (1,1) and then assigns slot 2 to command 9
    itself) violate both clauses — the class `mpaxos/leader/deposed-leader-assigns-slot`; a node that was
    re-elected in between (`prom 0 2 false true` with a phase-1 quorum) may assign. -/
theorem MP.deposed_leader_violates_spec :
    Spec.deposedSilent 2 []
      [.prom 0 1 false false, .prom 0 1 false true, .asg 0 1, .pled 0 4 true, .asg 0 2] = false ∧
    Spec.promiseClears []
      [.prom 0 1 false false, .prom 0 1 false true, .asg 0 1, .pled 0 4 true, .asg 0 2] = false ∧
    Spec.deposedSilent 2 []
      [.prom 0 1 false false, .prom 0 1 false true, .asg 0 1, .pled 0 4 false,
       .prom 0 2 false false, .prom 0 2 false true, .asg 0 2] = true := by
  decide

/-! ## Distributed lock -/

/-- FENCING: for every operation list (acquire / try_acquire / release / lease expiry, any locks,
    any requesters, any `max_waiters`), the grants a client observes satisfy the Spec: each grant's
    token is above every token seen before, or it is the re-entrant repeat of that lock's latest
    grant to the same holder. -/
theorem fencing_strictly_increasing (maxW : Nat) (ops : List Lock.Op) :
    Spec.fencing [] (Lock.runGrants (Lock.init maxW) ops) = true :=
  Lock.run_ok (Lock.init maxW) [] (Lock.init_linv maxW) ops

/-- non-vacuity: two locks, a queue, a re-entrant acquire, a stale release, a lease expiry that wakes
    a waiter: tokens 1, 2, (1 again, re-entrant), 3 (woken waiter), 4 (woken by expiry) -/
example :
    Lock.runGrants (Lock.init 0)
      [ .acquire 0 7, .acquire 1 8, .acquire 0 7, .acquire 0 9, .acquire 0 5, .release 0 99, .release 0 1,
        .expire 0 3 ]
      = [(0, 7, 1), (1, 8, 2), (0, 7, 1), (0, 9, 3), (0, 5, 4)] := by decide

/-- the Spec rejects a repeated token for a different holder and a decreasing token -/
example : Spec.fencing [] [(0, 7, 1), (0, 9, 1)] = false ∧ Spec.fencing [] [(0, 7, 2), (1, 9, 1)] = false := by
  decide

/-! ## Leader election: the leader a node reports for a term -/

/-- A STALE HEARTBEAT CHANGES NOTHING: in every state, a `LeaderHeartbeat` stamped with a term older than
    the receiver's current term leaves the receiver's state — hence the `(term, leader)` it reports —
    untouched, and sends nothing. -/
theorem El.stale_heartbeat_does_not_change_leader (s : El.St) (draw d l t : Nat)
    (h : t < (El.getNode s d).term) :
    (El.step s draw (.lhb d l t)).1 = s ∧ El.report (El.step s draw (.lhb d l t)).1 d = El.report s d := by
  rw [El.stale_heartbeat_ignored s draw d l t h]
  exact ⟨rfl, rfl⟩

/-- WITHIN A TERM THE LEADER MOVES ONLY ON A HEARTBEAT OF THAT TERM: for every start state, every list of
    actions and random draws, the per-node observations of the model run raise neither
    `election/leader/changed-within-term-by-stale-heartbeat` nor `…/changed-within-term-without-heartbeat`. -/
theorem El.election_steps_judge_silent (s : El.St) (as : List (Nat × El.Act)) :
    Spec.judgeElSteps (El.obsRun s as) = none :=
  El.run_judgeElSteps as s

/-- node 0 follows node 2 in term 2 -/
def El.followsTwo : El.St :=
  { strat := .bully, nodes := [{ leader := some 2, term := 2, members := [0, 1, 2] }, { members := [0, 1] }, { members := [0, 1, 2] }] }

/-- non-vacuity: a heartbeat of node 1 stamped term 1 < 2 is a real stale heartbeat and is ignored, one
    stamped term 3 is adopted … -/
example :
    El.report (El.step El.followsTwo 1 (.lhb 0 1 1)).1 0 = some (2, 2) ∧
    El.report (El.step El.followsTwo 1 (.lhb 0 1 3)).1 0 = some (3, 1) := by decide

/-- … and the Spec rejects a node that adopts the sender of the stale heartbeat without moving its term
    (the class `election/leader/changed-within-term-by-stale-heartbeat`), and one that swaps the leader inside
    a term on a `Victory`; it accepts what the model does. -/
theorem El.stale_heartbeat_adopted_violates_spec :
    Spec.staleHbOk { node := 0, isHb := true, hterm := 1, t0 := 2, l0 := some 2, t1 := 2, l1 := some 1 } = false ∧
    Spec.withinTermOk { node := 0, isHb := false, hterm := 0, t0 := 2, l0 := some 2, t1 := 2, l1 := some 1 } = false ∧
    Spec.staleHbOk (El.obsStep El.followsTwo 1 (.lhb 0 1 1)) = true ∧
    Spec.withinTermOk (El.obsStep El.followsTwo 1 (.victory 0 1)) = true := by
  decide

end HappyModel.C12
