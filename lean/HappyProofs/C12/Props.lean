import HappyProofs.C12.PxFut
import HappyProofs.C12.LockProof
import HappyProofs.C12.MPWitness
import HappyProofs.C12.ElWitness
import HappyModel.C12.Spec
/-!
# C12 — property theorems (single-decree Paxos, Flexible quorums)

All theorems quantify over *every* action sequence of the message-passing model
`HappyModel.C12.Px` (any cluster size, any proposers, values and ballots, any interleaving of
deliveries, any retry timing, any loss — a dropped or partitioned message is one that is never
delivered).  The model with `step` is the repaired code (fixes/C12-paxos-phase2-once.diff); for the
pinned tree (`stepCur`) the negations are proved with concrete schedules that are replayed on the
real implementation from `corpus/C12/`.
-/
namespace HappyModel.C12
open Px

/-- decisions reported by the nodes of a model state, as the Spec sees them -/
def Px.decisionsOf (s : St) : List Nat := (List.range s.cfg.n).filterMap s.decided

theorem allEq_of_forall {l : List Nat} (h : ∀ x ∈ l, ∀ y ∈ l, x = y) : Spec.allEq l = true := by
  cases l with
  | nil => rfl
  | cons a t =>
    simp only [Spec.allEq, List.all_eq_true, beq_iff_eq]
    intro y hy
    exact h y (List.mem_cons_of_mem _ hy) a List.mem_cons_self

/-- AGREEMENT, Flexible Paxos form: with phase-1 quorums of size q1 and phase-2 quorums of size q2
    that intersect (`n < q1 + q2`, `0 < q2`), any two nodes that have learned a value learned the
    same value — along every action sequence. -/
theorem flexible_paxos_agreement (n q1 q2 : Nat) (hq : n < q1 + q2) (hq2 : 0 < q2) (as : List Act)
    (d1 d2 : Nat) (v1 v2 : Val)
    (h1 : (runActs (init n q1 q2) as).decided d1 = some v1)
    (h2 : (runActs (init n q1 q2) as).decided d2 = some v2) : v1 = v2 := by
  have inv := run_inv (init n q1 q2) as (init_inv n q1 q2)
  have hc := run_cfg (init n q1 q2) as
  refine agreement_of_inv inv ?_ ?_ h1 h2
  · rw [hc]; exact hq
  · rw [hc]; exact hq2

/-- AGREEMENT for `PaxosNode` (majority quorums `n // 2 + 1` in both phases) -/
theorem paxos_agreement (n : Nat) (as : List Act) (d1 d2 : Nat) (v1 v2 : Val)
    (h1 : (runActs (init n (majority n) (majority n)) as).decided d1 = some v1)
    (h2 : (runActs (init n (majority n) (majority n)) as).decided d2 = some v2) : v1 = v2 :=
  flexible_paxos_agreement n (majority n) (majority n) (by unfold majority; omega) (by unfold majority; omega)
    as d1 d2 v1 v2 h1 h2

/-- the same statement through the Spec predicate the judge evaluates on implementation traces -/
theorem paxos_agreement_spec (n : Nat) (as : List Act) :
    Spec.allEq (decisionsOf (runActs (init n (majority n) (majority n)) as)) = true := by
  apply allEq_of_forall
  intro x hx y hy
  simp only [decisionsOf, List.mem_filterMap] at hx hy
  obtain ⟨d1, _, h1⟩ := hx
  obtain ⟨d2, _, h2⟩ := hy
  exact paxos_agreement n as d1 d2 x y h1 h2

/-- VALIDITY: a learned value was handed to `propose()` by some client (flexible quorums) -/
theorem paxos_validity (n q1 q2 : Nat) (hq2 : 0 < q2) (as : List Act) (d : Nat) (v : Val)
    (h : (runActs (init n q1 q2) as).decided d = some v) :
    v ∈ (runActs (init n q1 q2) as).proposedVals := by
  have inv := run_inv (init n q1 q2) as (init_inv n q1 q2)
  have val := run_valid (init n q1 q2) as (init_inv n q1 q2) (init_valid n q1 q2)
  have hc := run_cfg (init n q1 q2) as
  obtain ⟨b, Q, _, hQ, hlen⟩ := inv.learn.node d v h
  have hq2' : 0 < (runActs (init n q1 q2) as).cfg.q2 := by rw [hc]; exact hq2
  obtain ⟨a, ha⟩ := quorum_nonempty hq2' hlen
  exact val.st b v (inv.sem.one a b v (hQ a ha).2)

/-- STABILITY: a reported decision never changes, whatever happens afterwards -/
theorem decision_stable (s : St) (as : List Act) (d : Nat) (v : Val) (h : s.decided d = some v) :
    (runActs s as).decided d = some v :=
  decided_stable_run s as d v h

/-- FUTURES: a future returned by `propose()` resolves only with the value its node decided
    (hence, by agreement, with *the* decided value) -/
theorem future_resolves_decided (n q1 q2 : Nat) (as : List Act) (f : Nat) (v : Val)
    (h : (runActs (init n q1 q2) as).futRes f = some v) :
    (runActs (init n q1 q2) as).decided ((runActs (init n q1 q2) as).futOwner f) = some v :=
  (run_fut (init n q1 q2) as (init_fut n q1 q2)).res f v h

/-! ### non-vacuity -/

/-- three nodes, two competing proposers; node 0's first ballot is pre-empted by node 1 (nack,
    retry with a new ballot), node 1's value is chosen, everybody learns it, both futures resolve
    with it -/
def demo : List Act :=
  [ .propose 0 3 70, .propose 1 4 71,
    .recvPrepare 4 0, .recvPrepare 4 2, .recvPromise 4 0, .recvAccept 4 0, .recvAccept 4 2,
    .recvPrepare 3 2,                     -- nack: 2 already promised ballot 4
    .nack 3 1, .retry 0 3 6,              -- node 0 abandons ballot 3 for ballot 6
    .recvAccepted 4 0, .recvDecided 1 0, .recvDecided 1 2,
    .propose 0 9 72 ]                     -- proposing after the decision: resolved at once

example :
    let s := runActs (init 3 (majority 3) (majority 3)) demo
    s.decided 0 = some 71 ∧ s.decided 1 = some 71 ∧ s.decided 2 = some 71 ∧
    s.futRes 1 = some 71 ∧ s.futRes 2 = some 71 ∧ s.futRes 0 = none ∧ s.live 3 = false ∧ s.live 6 = true ∧
    71 ∈ s.proposedVals := by decide

/-- Flexible quorums that satisfy the hypothesis on 4 nodes: q1 = 2, q2 = 3 -/
example : (4 < 2 + 3) ∧ (0 < 3) := by decide

/-! ### the pinned tree (`stepCur`): agreement and validity are false -/

/-- nodes P=0 Q=1 A=2 B=3 C=4; ballots (1,Q)=6, (2,P)=10, (3,A)=17; the schedule of
    `corpus/C12/paxos-late-promise-restarts-phase2.json` -/
def witnessAgreement : List Act :=
  [ .propose 1 6 71, .recvPrepare 6 3, .recvPrepare 6 4, .recvPrepare 6 0,
    .recvPromise 6 3, .recvPromise 6 4,                 -- Q reaches quorum, sends Accept((1,Q), 71)
    .recvAccept 6 4,                                    -- only C accepts it
    .propose 0 10 70, .recvPrepare 10 2, .recvPrepare 10 3,
    .recvPromise 10 2, .recvPromise 10 3,               -- P reaches quorum {P, A, B}: nothing accepted → 70
    .recvAccept 10 2, .recvAccept 10 3,                 -- A and B accept ((2,P), 70); their acks are in flight
    .recvPrepare 10 4, .recvPromise 10 4,               -- C's late promise reports ((1,Q), 71): phase 2 restarts with 71
    .recvAccepted 10 2, .recvAccepted 10 3,             -- acks for 70 are counted for 71: P decides 71
    .propose 2 17 72, .recvPrepare 17 3, .recvPrepare 17 4,
    .recvPromise 17 3, .recvPromise 17 4,               -- A sees ((2,P), 70) as highest accepted → 70
    .recvAccept 17 3, .recvAccept 17 4, .recvAccepted 17 3, .recvAccepted 17 4 ]

/-- agreement is false of the pinned tree: P learns 71, A learns 70 (only message delays, no loss) -/
theorem paxos_agreement_current_false :
    (runCur (init 5 (majority 5) (majority 5)) witnessAgreement).decided 0 = some 71 ∧
    (runCur (init 5 (majority 5) (majority 5)) witnessAgreement).decided 2 = some 70 := by
  decide

/-- the same schedule under the repaired rule: both learn 70 -/
example :
    (runActs (init 5 (majority 5) (majority 5)) witnessAgreement).decided 0 = some 70 ∧
    (runActs (init 5 (majority 5) (majority 5)) witnessAgreement).decided 2 = some 70 := by
  decide

/-- the schedule of `corpus/C12/paxos-retry-decides-none.json`: ballots (1,P)=5, (1,Q)=6, (2,P)=10 -/
def witnessNone : List Act :=
  [ .propose 1 6 71, .recvPrepare 6 4,                  -- node 4 promises (1,Q)
    .propose 0 5 70, .recvPrepare 5 2, .recvPrepare 5 3,
    .recvPromise 5 2, .recvPromise 5 3,                 -- P starts phase 2 of (1,P) with 70
    .recvAccept 5 2, .recvAccept 5 3,                   -- acks in flight
    .recvPrepare 5 4, .nack 5 1, .retry 0 5 10,         -- node 4 nacks; P moves value and future to (2,P)
    .recvAccepted 5 2, .recvAccepted 5 3 ]              -- acks for the abandoned ballot reach quorum

/-- validity is false of the pinned tree: P decides `None` (= 0), which nobody proposed, and the
    proposer's future stays unresolved -/
theorem retry_decides_none :
    (runCur (init 5 (majority 5) (majority 5)) witnessNone).decided 0 = some 0 ∧
    0 ∉ (runCur (init 5 (majority 5) (majority 5)) witnessNone).proposedVals ∧
    (runCur (init 5 (majority 5) (majority 5)) witnessNone).futRes 1 = none := by
  decide

/-- under the repaired rule the acks for the abandoned ballot are ignored -/
example : (runActs (init 5 (majority 5) (majority 5)) witnessNone).decided 0 = none := by decide

/-! ## Distributed lock -/

/-- FENCING: for every operation list (acquire / try_acquire / release / lease expiry, any locks,
    any requesters, any `max_waiters`), the grants a client observes satisfy the Spec: each grant's
    token is above every token seen before, or it is the re-entrant repeat of that lock's latest
    grant to the same holder. -/
theorem fencing_strictly_increasing (maxW : Nat) (ops : List Lock.Op) :
    Spec.fencing [] (Lock.runGrants (Lock.init maxW) ops) = true :=
  Lock.run_ok (Lock.init maxW) [] (Lock.init_linv maxW) ops

/-- non-vacuity: two locks, a queue, a re-entrant acquire, a stale release, a lease expiry that wakes
    a waiter: tokens 1, 2, (1 again, re-entrant), 3 (woken waiter), 4 (woken by expiry) -/
example :
    Lock.runGrants (Lock.init 0)
      [ .acquire 0 7, .acquire 1 8, .acquire 0 7, .acquire 0 9, .acquire 0 5, .release 0 99, .release 0 1,
        .expire 0 3 ]
      = [(0, 7, 1), (1, 8, 2), (0, 7, 1), (0, 9, 3), (0, 5, 4)] := by decide

/-- the Spec rejects a repeated token for a different holder and a decreasing token -/
example : Spec.fencing [] [(0, 7, 1), (0, 9, 1)] = false ∧ Spec.fencing [] [(0, 7, 2), (1, 9, 1)] = false := by
  decide

end HappyModel.C12
