import HappyModel.C12.ElObs
/-!
# C12 — `LeaderElection`: what changes the leader a node reports for a term

For **every** state, every action and every random draw of the model `El.step`:
* a `LeaderHeartbeat` stamped with a term older than the receiver's current term leaves the
  receiver's state untouched (`stale_heartbeat_ignored`), hence `Spec.staleHbOk`;
* whenever the reported leader changes although the term does not, the step is the delivery of a
  heartbeat carrying at least the node's term (`Spec.withinTermOk`): every other path that sets the leader
  (a strategy result naming a leader, winning one's own election) increments the term.
-/
namespace HappyModel.C12.El
open HappyModel.C12.Spec

/-- the guard `term >= self._current_term` of `_handle_leader_heartbeat` -/
theorem stale_heartbeat_ignored (s : St) (draw d l t : Nat) (h : t < (getNode s d).term) :
    step s draw (.lhb d l t) = (s, []) := by
  simp only [step]
  have : ¬ (t ≥ (getNode s d).term) := by omega
  simp [this]

theorem getNode_setNode_self (s : St) (p : Nat) (x : Node) :
    getNode (setNode s p x) p = x ∨ getNode (setNode s p x) p = getNode s p := by
  by_cases h : p < s.nodes.length
  · left
    simp [getNode, setNode, List.getD_eq_getElem?_getD, h]
  · right
    have : s.nodes.set p x = s.nodes := List.set_eq_of_length_le (by omega)
    simp [getNode, setNode, this]

/-- the record moved to a later term, or kept term and leader -/
def Keeps (nd x : Node) : Prop := nd.term < x.term ∨ (x.term = nd.term ∧ x.leader = nd.leader)

theorem keeps_refl (nd : Node) : Keeps nd nd := Or.inr ⟨rfl, rfl⟩

theorem startElection_term (st : Strat) (p : Nat) (nd : Node) (draw : Nat) :
    (startElection st p nd draw).1.term = nd.term + 1 := by
  simp only [startElection]
  split <;> split <;> rfl

theorem finish_keeps (st : Strat) (d : Nat) (nd : Node) (resp : List Msg) (leader : Option Nat)
    (startOwn suppress : Bool) (draw : Nat) : Keeps nd (finish st d nd resp leader startOwn suppress draw).1 := by
  cases leader with
  | none =>
    simp only [finish]
    by_cases hc : (startOwn && !nd.inProg) = true
    · left
      simp only [hc, if_true]
      split
      · show nd.term < (startElection st d nd draw).1.term
        rw [startElection_term]; omega
      · rw [startElection_term]; omega
    · right
      simp only [hc]
      split <;> exact ⟨rfl, rfl⟩
  | some l =>
    left
    simp only [finish]
    by_cases hc : (startOwn && !false) = true
    · simp only [hc, if_true]
      split
      · show nd.term < (startElection st d _ draw).1.term
        rw [startElection_term]; simp; omega
      · rw [startElection_term]; simp; omega
    · simp only [hc]
      split <;> simp

/-- the handler's node after any non-heartbeat step keeps `(term, leader)` or moves to a later term -/
theorem step_keeps (s : St) (draw : Nat) (a : Act) (hn : hbTerm a = none) :
    Keeps (getNode s (actor a)) (getNode (step s draw a).1 (actor a)) := by
  have hset : ∀ (p : Nat) (x : Node), Keeps (getNode s p) x → Keeps (getNode s p) (getNode (setNode s p x) p) := by
    intro p x hx
    rcases getNode_setNode_self s p x with e | e
    · rw [e]; exact hx
    · rw [e]; exact keeps_refl _
  cases a with
  | lhb d l t => simp [hbTerm] at hn
  | addMember p m =>
    simp only [step, actor]
    exact hset p _ (Or.inr ⟨rfl, rfl⟩)
  | timeout p expired =>
    simp only [step, actor]
    split
    · exact keeps_refl _
    · split
      · refine hset p _ (Or.inl ?_)
        rw [startElection_term]; omega
      · exact keeps_refl _
  | challenge d c =>
    simp only [step, actor]
    split
    · split
      · exact hset d _ (finish_keeps _ _ _ _ _ _ _ _)
      · exact keeps_refl _
    · exact keeps_refl _
  | suppress d =>
    simp only [step, actor]
    split
    · exact hset d _ (Or.inr ⟨rfl, rfl⟩)
    · exact keeps_refl _
  | victory d leader =>
    simp only [step, actor]
    exact hset d _ (finish_keeps _ _ _ _ _ _ _ _)
  | token d init term cands =>
    simp only [step, actor]
    split
    · split
      · exact hset d _ (finish_keeps _ _ _ _ _ _ _ _)
      · exact hset d _ (finish_keeps _ _ _ _ _ _ _ _)
    · exact keeps_refl _
  | ballot d frm term my =>
    simp only [step, actor]
    split
    · exact hset d _ (finish_keeps _ _ _ _ _ _ _ _)
    · exact keeps_refl _
  | ballotResp d =>
    simp only [step, actor]
    exact keeps_refl _

theorem step_staleHbOk (s : St) (draw : Nat) (a : Act) : staleHbOk (obsStep s draw a) = true := by
  cases a with
  | lhb d l t =>
    by_cases h : t < (getNode s d).term
    · simp [staleHbOk, obsStep, actor, hbTerm, stale_heartbeat_ignored s draw d l t h]
    · simp [staleHbOk, obsStep, actor, hbTerm, h]
  | _ => simp [staleHbOk, obsStep, hbTerm]

theorem step_withinTermOk (s : St) (draw : Nat) (a : Act) : withinTermOk (obsStep s draw a) = true := by
  cases h : hbTerm a with
  | some t =>
    cases a with
    | lhb d l t' =>
      by_cases hs : t' < (getNode s d).term
      · simp [withinTermOk, leaderSwapped, obsStep, actor, stale_heartbeat_ignored s draw d l t' hs]
      · have : (getNode s d).term ≤ t' := by omega
        simp [withinTermOk, obsStep, actor, hbTerm, this]
    | _ => simp [hbTerm] at h
  | none =>
    have hk := step_keeps s draw a h
    simp only [withinTermOk, leaderSwapped, obsStep, h, Option.isSome_none, Bool.false_and, Bool.or_false,
      Bool.not_eq_true', Bool.and_eq_false_iff]
    rcases hk with hk | ⟨_, hk⟩
    · left; left
      simp only [beq_eq_false_iff_ne, ne_eq]; omega
    · right
      simp [hk]

/-- no per-node signature on any model run, whatever the draws -/
theorem run_judgeElSteps : ∀ (as : List (Nat × Act)) (s : St), judgeElSteps (obsRun s as) = none := by
  have hall : ∀ (as : List (Nat × Act)) (s : St),
      (obsRun s as).all staleHbOk = true ∧ (obsRun s as).all withinTermOk = true := by
    intro as
    induction as with
    | nil => intro s; exact ⟨rfl, rfl⟩
    | cons x xs ih =>
      intro s
      obtain ⟨draw, a⟩ := x
      simp only [obsRun, List.all_cons, Bool.and_eq_true]
      exact ⟨⟨step_staleHbOk s draw a, (ih _).1⟩, ⟨step_withinTermOk s draw a, (ih _).2⟩⟩
  intro as s
  simp [judgeElSteps, (hall as s).1, (hall as s).2]

end HappyModel.C12.El
