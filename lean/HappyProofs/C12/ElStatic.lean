import HappyModel.C12.ElSoup
import HappyProofs.C12.ElRing
/-!
# C12 — identical static member views: every strategy only ever announces the highest node

Invariant of the message-soup system `El.Sys` started from identical views of `n` nodes: every `Victory`
and every `LeaderHeartbeat` in the soup names node `n - 1`, every ring `Token` has collected the nodes of the
ring segment it has travelled, and every node's `current_leader` is `n - 1` or unset.
-/
namespace HappyModel.C12.El

/-! ### arithmetic on the ring -/

theorem mod_wrap {a n : Nat} (h1 : n ≤ a) (h2 : a < 2 * n) : a % n = a - n := by
  rw [Nat.mod_eq_sub_mod h1, Nat.mod_eq_of_lt (by omega)]

theorem succ_mod_mod (a n : Nat) : (a % n + 1) % n = (a + 1) % n := by
  rw [Nat.add_mod, Nat.mod_mod, ← Nat.add_mod]

theorem maxOf_le {l : List Nat} {m : Nat} (hle : ∀ c ∈ l, c ≤ m) : maxOf l ≤ m := by
  induction l with
  | nil => simp [maxOf]
  | cons x xs ih =>
    simp only [maxOf]
    have hx : x ≤ m := hle x List.mem_cons_self
    have := ih (fun c hc => hle c (List.mem_cons_of_mem _ hc))
    omega

theorem le_maxOf {l : List Nat} {m : Nat} (hm : m ∈ l) : m ≤ maxOf l := by
  induction l with
  | nil => cases hm
  | cons x xs ih =>
    simp only [maxOf]
    rcases List.mem_cons.1 hm with rfl | hm'
    · omega
    · have := ih hm'; omega

theorem maxOf_eq {l : List Nat} {m : Nat} (hm : m ∈ l) (hle : ∀ c ∈ l, c ≤ m) : maxOf l = m :=
  Nat.le_antisymm (maxOf_le hle) (le_maxOf hm)

/-! ### nodes -/

theorem getNode_setNode (s : St) (i j : Nat) (x : Node) :
    getNode (setNode s i x) j = if j = i ∧ i < s.nodes.length then x else getNode s j := by
  unfold getNode setNode
  simp only [List.getD_eq_getElem?_getD, List.getElem?_set]
  by_cases h : i = j
  · subst h
    by_cases h2 : i < s.nodes.length
    · simp [h2]
    · simp [h2]
  · have : ¬ j = i := fun e => h e.symm
    simp [h, this]

theorem length_setNode (s : St) (i : Nat) (x : Node) : (setNode s i x).nodes.length = s.nodes.length := by
  simp [setNode]

/-! ### the invariant -/

def goodMsg (n : Nat) : Msg → Prop
  | .victory _ l _ => l = n - 1
  | .lhb _ l _ => l = n - 1
  | .token d init cands _ =>
    init < n ∧ (∀ c ∈ cands, c < n) ∧
      ∃ k, 1 ≤ k ∧ k ≤ n ∧ d = (init + k) % n ∧ ∀ j, j < k → (init + j) % n ∈ cands
  | _ => True

/-- the node's leader is unset or the highest node -/
def LOK (n : Nat) (nd : Node) : Prop := ∀ l, nd.leader = some l → l = n - 1

/-- the node knows exactly `0 … n-1` -/
def MOK (n : Nat) (nd : Node) : Prop := nd.members.Nodup ∧ ∀ x, x ∈ nd.members ↔ x < n

structure SInv (n : Nat) (y : Sys) : Prop where
  len : y.st.nodes.length = n
  mem : ∀ i, i < n → MOK n (getNode y.st i)
  ldr : ∀ i, i < n → LOK n (getNode y.st i)
  soup : ∀ m ∈ y.soup, goodMsg n m

theorem SInv.update {n : Nat} {y : Sys} (h : SInv n y) (p : Nat) (nd' : Node) (msgs : List Msg)
    (hm : nd'.members = (getNode y.st p).members) (hl : LOK n nd') (hg : ∀ m ∈ msgs, goodMsg n m) :
    SInv n { st := setNode y.st p nd', soup := msgs ++ y.soup } := by
  refine ⟨by simp [length_setNode, h.len], ?_, ?_, ?_⟩
  · intro i hi
    simp only [getNode_setNode]
    split
    · rename_i hc; obtain ⟨rfl, _⟩ := hc
      unfold MOK; rw [hm]; exact h.mem i hi
    · exact h.mem i hi
  · intro i hi
    simp only [getNode_setNode]
    split
    · exact hl
    · exact h.ldr i hi
  · intro m hm'
    rcases List.mem_append.1 hm' with h1 | h1
    · exact hg m h1
    · exact h.soup m h1

theorem SInv.send {n : Nat} {y : Sys} (h : SInv n y) (msgs : List Msg) (hg : ∀ m ∈ msgs, goodMsg n m) :
    SInv n { st := y.st, soup := msgs ++ y.soup } := by
  refine ⟨h.len, h.mem, h.ldr, ?_⟩
  intro m hm'
  rcases List.mem_append.1 hm' with h1 | h1
  · exact hg m h1
  · exact h.soup m h1

/-! ### starting an election -/

theorem highest_of_none_higher {n p : Nat} {nd : Node} (hm : MOK n nd) (hp : p < n)
    (h : (nd.members.filter (· > p)) = []) : p = n - 1 := by
  by_cases hc : p = n - 1
  · exact hc
  · have h1 : n - 1 ∈ nd.members := (hm.2 (n - 1)).2 (by omega)
    have h2 : n - 1 ∈ nd.members.filter (· > p) := by
      simp only [List.mem_filter, decide_eq_true_eq]; exact ⟨h1, by omega⟩
    rw [h] at h2; cases h2

theorem highest_of_no_other {n p : Nat} {nd : Node} (hm : MOK n nd) (hp : p < n)
    (h : (nd.members.filter (· != p)) = []) : p = n - 1 := by
  by_cases hc : p = n - 1
  · exact hc
  · have h1 : n - 1 ∈ nd.members := (hm.2 (n - 1)).2 (by omega)
    have h2 : n - 1 ∈ nd.members.filter (· != p) := by
      simp only [List.mem_filter, bne_iff_ne, ne_eq]; exact ⟨h1, fun e => hc e.symm⟩
    rw [h] at h2; cases h2

/-- the messages of a new election name a leader only if the node is the highest one -/
theorem electionMsgs_good (n : Nat) (st : Strat) (p term draw : Nat) (nd : Node) (hp : p < n) (hm : MOK n nd) :
    ∀ m ∈ electionMsgs st p nd.members term draw, goodMsg n m := by
  intro m hmem
  cases st with
  | bully =>
    simp only [electionMsgs] at hmem
    split at hmem
    · rename_i hh
      have : p = n - 1 := highest_of_none_higher hm hp (by simpa using hh)
      simp only [List.mem_map] at hmem
      obtain ⟨x, _, rfl⟩ := hmem
      exact this
    · simp only [List.mem_map] at hmem
      obtain ⟨x, _, rfl⟩ := hmem
      trivial
  | ring =>
    simp only [electionMsgs, List.mem_singleton] at hmem
    subst hmem
    refine ⟨hp, by simp [hp], 1, by omega, by omega, ringNext_eq _ n p hm.1 hm.2 hp, ?_⟩
    intro j hj
    have : j = 0 := by omega
    subst this
    simp [Nat.mod_eq_of_lt hp]
  | rand =>
    simp only [electionMsgs, List.mem_map] at hmem
    obtain ⟨x, _, rfl⟩ := hmem
    trivial

/-- no message at all, or victory messages only: the node is the highest one -/
theorem electionMsgs_self_elect (n : Nat) (st : Strat) (p term draw : Nat) (nd : Node) (hp : p < n) (hm : MOK n nd)
    (h : (electionMsgs st p nd.members term draw).isEmpty = true ∨
         (electionMsgs st p nd.members term draw).all Msg.isVictory = true) : p = n - 1 := by
  cases st with
  | bully =>
    simp only [electionMsgs] at h
    split at h
    · rename_i hh
      exact highest_of_none_higher hm hp (by simpa using hh)
    · rename_i hh
      exfalso
      cases hf : nd.members.filter (· > p) with
      | nil => simp [hf] at hh
      | cons a t => simp [hf, Msg.isVictory] at h
  | ring =>
    simp [electionMsgs, Msg.isVictory] at h
  | rand =>
    simp only [electionMsgs] at h
    cases hf : nd.members.filter (· != p) with
    | nil => exact highest_of_no_other hm hp hf
    | cons a t => simp [hf, Msg.isVictory] at h

theorem startElection_members (st : Strat) (p : Nat) (nd : Node) (draw : Nat) :
    (startElection st p nd draw).1.members = nd.members := by
  simp only [startElection]
  split <;> split <;> rfl

theorem startElection_leader (st : Strat) (p : Nat) (nd : Node) (draw : Nat) :
    (startElection st p nd draw).1.leader = nd.leader ∨
    ((startElection st p nd draw).1.leader = some p ∧
      ((electionMsgs st p nd.members (nd.term + 1) draw).isEmpty = true ∨
       (electionMsgs st p nd.members (nd.term + 1) draw).all Msg.isVictory = true)) := by
  simp only [startElection]
  split
  · rename_i h1
    simp only [Bool.and_eq_true] at h1
    right; exact ⟨rfl, Or.inr h1.2⟩
  · split
    · rename_i h2
      right; exact ⟨rfl, Or.inl h2⟩
    · left; rfl

theorem startElection_ok (n : Nat) (st : Strat) (p : Nat) (nd : Node) (draw : Nat) (hp : p < n)
    (hm : MOK n nd) (hl : LOK n nd) :
    (startElection st p nd draw).1.members = nd.members ∧ LOK n (startElection st p nd draw).1 ∧
    ∀ m ∈ (startElection st p nd draw).2, goodMsg n m := by
  refine ⟨startElection_members st p nd draw, ?_, ?_⟩
  · intro l hl'
    rcases startElection_leader st p nd draw with h | ⟨h, hs⟩
    · rw [h] at hl'; exact hl l hl'
    · rw [h] at hl'
      have := electionMsgs_self_elect n st p (nd.term + 1) draw nd hp hm hs
      cases hl'; exact this
  · intro m hmem
    simp only [startElection, List.mem_filter] at hmem
    exact electionMsgs_good n st p (nd.term + 1) draw nd hp hm m hmem.1

/-! ### the tail of every message handler -/

/-- `nd1` of `finish` -/
def adopt (nd : Node) : Option Nat → Node
  | some l => { nd with leader := some l, term := nd.term + 1, inProg := false }
  | none => nd

theorem finish_eq (st : Strat) (d : Nat) (nd : Node) (resp : List Msg) (leader : Option Nat)
    (startOwn suppress : Bool) (draw : Nat) :
    finish st d nd resp leader startOwn suppress draw =
      (let r := if startOwn && !(adopt nd leader).inProg then startElection st d (adopt nd leader) draw
                else (adopt nd leader, [])
       (if suppress then { r.1 with inProg := false } else r.1,
        resp.filter (fun m => nd.members.contains m.dst) ++ r.2)) := by
  cases leader <;> rfl

theorem finish_ok (n : Nat) (st : Strat) (d : Nat) (nd : Node) (resp : List Msg) (leader : Option Nat)
    (startOwn suppress : Bool) (draw : Nat) (hd : d < n) (hm : MOK n nd) (hl : LOK n nd)
    (hr : ∀ m ∈ resp, goodMsg n m) (hL : ∀ l, leader = some l → l = n - 1) :
    (finish st d nd resp leader startOwn suppress draw).1.members = nd.members ∧
    LOK n (finish st d nd resp leader startOwn suppress draw).1 ∧
    ∀ m ∈ (finish st d nd resp leader startOwn suppress draw).2, goodMsg n m := by
  have ham : (adopt nd leader).members = nd.members := by cases leader <;> rfl
  have hal : LOK n (adopt nd leader) := by
    cases leader with
    | none => exact hl
    | some l => intro l' h'; simp only [adopt, Option.some.injEq] at h'; subst h'; exact hL l rfl
  have hamk : MOK n (adopt nd leader) := by unfold MOK; rw [ham]; exact hm
  rw [finish_eq]
  by_cases hc : (startOwn && !(adopt nd leader).inProg) = true
  · obtain ⟨h1, h2, h3⟩ := startElection_ok n st d (adopt nd leader) draw hd hamk hal
    simp only [hc, if_true]
    refine ⟨?_, ?_, ?_⟩
    · split
      · exact h1.trans ham
      · exact h1.trans ham
    · split
      · exact h2
      · exact h2
    · intro m hmem
      rcases List.mem_append.1 hmem with h | h
      · exact hr m (List.mem_filter.1 h).1
      · exact h3 m h
  · simp only [hc]
    refine ⟨?_, ?_, ?_⟩
    · split
      · exact ham
      · exact ham
    · split
      · exact hal
      · exact hal
    · intro m hmem
      simp only [Bool.false_eq_true, if_false, List.append_nil] at hmem
      exact hr m (List.mem_filter.1 hmem).1

end HappyModel.C12.El
