import HappyModel.C12.Paxos
/-!
# C12 — single proposer, fault-free quorum: concrete runs (non-vacuity and counter-example)
-/
namespace HappyModel.C12.Px

/-- 3 nodes, majority quorums, proposer 0 with ballot (1, 0) = 3 and value 7; node 1 is the quorum partner -/
def liveRun : List Act :=
  [.propose 0 3 7, .recvPrepare 3 1, .recvPromise 3 1, .recvAccept 3 1, .recvAccepted 3 1,
   .recvDecided 0 1, .recvDecided 0 2]

/-- the proposer decides its value, its future resolves with it, every node that receives Decided decides it -/
theorem single_proposer_example :
    (runActs (init 3 2 2) liveRun).decided 0 = some 7 ∧ (runActs (init 3 2 2) liveRun).futRes 0 = some 7 ∧
    (runActs (init 3 2 2) liveRun).decided 1 = some 7 ∧ (runActs (init 3 2 2) liveRun).decided 2 = some 7 := by
  decide

/-- duplicates and another interleaving (node 2's Prepare delivered in between, deliveries repeated) change nothing -/
example :
    (runActs (init 3 2 2) [.propose 0 3 7, .recvPrepare 3 2, .recvPrepare 3 1, .recvPrepare 3 1, .recvPromise 3 1,
      .recvPromise 3 1, .recvAccept 3 2, .recvAccept 3 1, .recvAccepted 3 1, .recvAccepted 3 1]).decided 0 = some 7 := by
  decide

/-- COUNTER-EXAMPLE: one link of the quorum is never delivered (node 1's Promise never reaches the proposer, node 2
    hears nothing but the Prepare): whatever else is delivered, nobody decides and the future stays pending -/
theorem single_proposer_lost_link_undecided :
    (runActs (init 3 2 2) [.propose 0 3 7, .recvPrepare 3 1, .recvPrepare 3 2, .recvAccept 3 1, .recvAccepted 3 1,
      .recvAccept 3 2, .recvAccepted 3 2, .recvDecided 0 1, .recvDecided 0 2]).decided 0 = none ∧
    (runActs (init 3 2 2) [.propose 0 3 7, .recvPrepare 3 1, .recvPrepare 3 2, .recvAccept 3 1, .recvAccepted 3 1,
      .recvAccept 3 2, .recvAccepted 3 2, .recvDecided 0 1, .recvDecided 0 2]).futRes 0 = none := by
  decide

end HappyModel.C12.Px
