import HappyProofs.C12.PxSafe
namespace HappyModel.C12.Px

theorem startPhase2_inv {s : St} (inv : Inv s) (b : Nat)
    (hnone : s.started2 b = none) (hq : s.cfg.q1 ≤ (s.p1 b).length)
    (hown : s.ownVal b ≠ none) (hp : b % s.cfg.n < s.cfg.n) : Inv (startPhase2 s b) := by
  have noVoteAtB : ∀ a v', ¬ Voted s a b v' := by
    intro a v' hv; have := inv.sem.one a b v' hv; rw [hnone] at this; cases this
  obtain ⟨hacks0, hslots0⟩ := inv.n2.none_ b hnone
  have hsafe0 := safe_from_quorum inv.n1 inv.sem b hnone hq
  unfold startPhase2
  simp only []
  generalize phase2Val s b = v at hsafe0 ⊢
  by_cases hself : (s.acc (b % s.cfg.n)).promised = some b
  · -- the proposer also accepts its own proposal
    have hd : decide ((s.acc (b % s.cfg.n)).promised = some b) = true := by simp [hself]
    simp only [hd, if_true]
    have hvsub : ∀ x, x ∈ s.votes → x ∈ (b % s.cfg.n, b, v) :: s.votes := fun x hx => List.mem_cons_of_mem _ hx
    have inv1 : Inv { s with
        started2 := upd s.started2 b (some v),
        acc := upd s.acc (b % s.cfg.n) { (s.acc (b % s.cfg.n)) with accepted := some (b, v) },
        acks := upd s.acks b [b % s.cfg.n],
        votes := (b % s.cfg.n, b, v) :: s.votes,
        mAcpt := fun b' d => if b' = b ∧ d ≠ b % s.cfg.n ∧ d < s.cfg.n then some v else s.mAcpt b' d } := by
      refine ⟨inv.n1.frame rfl rfl rfl rfl rfl (fun _ h => h), ⟨?_, ?_, ?_, ?_, ?_⟩,
              ⟨?_, ?_, ?_, ?_, ?_, ?_⟩, inv.learn.frame rfl rfl rfl hvsub⟩
      · intro b' hb'
        by_cases hbb : b' = b
        · subst hbb; simp [upd] at hb'
        · simp [upd_other _ _ _ _ hbb] at hb'
          obtain ⟨a1, a2⟩ := inv.n2.none_ b' hb'
          refine ⟨by simp [upd_other _ _ _ _ hbb]; exact a1, fun d => ⟨?_, (a2 d).2⟩⟩
          simp only []; split
          · rename_i h; exact absurd h.1 hbb
          · exact (a2 d).1
      · intro b' d v' hb'
        simp only [] at hb'
        split at hb'
        · rename_i h; obtain ⟨rfl, hdp, hdn⟩ := h
          cases hb'
          refine ⟨by simp, (hslots0 d).2, by simp; exact hdp, ?_⟩
          intro v'' hv''
          unfold Voted at hv''; simp only [List.mem_cons] at hv''
          rcases hv'' with h | h
          · simp at h; exact hdp h.1
          · exact noVoteAtB d v'' h
        · rename_i hne
          have hbb : b' ≠ b := by
            intro h; subst h; rw [(hslots0 d).1] at hb'; cases hb'
          obtain ⟨a1, a2, a3, a4⟩ := inv.n2.acpt b' d v' hb'
          refine ⟨by simp [upd_other _ _ _ _ hbb]; exact a1, a2, by simp [upd_other _ _ _ _ hbb]; exact a3, ?_⟩
          intro v'' hv''
          unfold Voted at hv''; simp only [List.mem_cons] at hv''
          rcases hv'' with h | h
          · simp at h; exact hbb h.2.1
          · exact a4 v'' h
      · intro b' f hb'
        have hbb : b' ≠ b := by
          intro h; subst h; simp only [] at hb'; rw [(hslots0 f).2] at hb'; cases hb'
        obtain ⟨a1, a2, v', a3, a4⟩ := inv.n2.acptd b' f hb'
        exact ⟨a1, by simp [upd_other _ _ _ _ hbb]; exact a2, v', by simp [upd_other _ _ _ _ hbb]; exact a3, hvsub _ a4⟩
      · intro b'
        by_cases hbb : b' = b
        · subst hbb; simp
          exact ⟨hp, List.mem_cons_self⟩
        · obtain ⟨a1, a2⟩ := inv.n2.acks b'
          refine ⟨by simp [upd_other _ _ _ _ hbb]; exact a1, fun f hf => ?_⟩
          simp [upd_other _ _ _ _ hbb] at hf
          obtain ⟨c1, v', c2, c3⟩ := a2 f hf
          exact ⟨c1, v', by simp [upd_other _ _ _ _ hbb]; exact c2, hvsub _ c3⟩
      · intro b' hb'
        have hbb : b' ≠ b := by intro h; subst h; exact hown hb'
        simp [upd_other _ _ _ _ hbb]; exact inv.n2.fresh b' hb'
      · -- one
        intro a b' v' hv'
        unfold Voted at hv'; simp only [List.mem_cons] at hv'
        rcases hv' with h | h
        · simp at h; obtain ⟨rfl, rfl, rfl⟩ := h; simp
        · have hbb : b' ≠ b := by intro hb; subst hb; exact noVoteAtB a v' h
          simp [upd_other _ _ _ _ hbb]; exact inv.sem.one a b' v' h
      · -- vprom
        intro a b' v' hv'
        unfold Voted at hv'; simp only [List.mem_cons] at hv'
        have keep : ∀ a c, PromGe s a c → PromGe { s with
            started2 := upd s.started2 b (some v),
            acc := upd s.acc (b % s.cfg.n) { (s.acc (b % s.cfg.n)) with accepted := some (b, v) },
            acks := upd s.acks b [b % s.cfg.n],
            votes := (b % s.cfg.n, b, v) :: s.votes,
            mAcpt := fun b' d => if b' = b ∧ d ≠ b % s.cfg.n ∧ d < s.cfg.n then some v else s.mAcpt b' d } a c := by
          intro a c ⟨q, hq1, hq2⟩
          by_cases hap : a = b % s.cfg.n
          · subst hap; exact ⟨q, by simp; exact hq1, hq2⟩
          · exact ⟨q, by simp [upd_other _ _ _ _ hap]; exact hq1, hq2⟩
        rcases hv' with h | h
        · simp at h; obtain ⟨rfl, rfl, rfl⟩ := h
          exact ⟨hp, keep _ _ ⟨b', hself, Nat.le_refl _⟩⟩
        · obtain ⟨c1, c2⟩ := inv.sem.vprom a b' v' h
          exact ⟨c1, keep a b' c2⟩
      · -- vacc
        intro a b' v' hacc
        by_cases hap : a = b % s.cfg.n
        · subst hap; simp at hacc; obtain ⟨rfl, rfl⟩ := hacc; exact List.mem_cons_self
        · simp [upd_other _ _ _ _ hap] at hacc; exact hvsub _ (inv.sem.vacc a b' v' hacc)
      · -- vmax
        intro a b' v' hv'
        unfold Voted at hv'; simp only [List.mem_cons] at hv'
        by_cases hap : a = b % s.cfg.n
        · subst hap
          refine ⟨b, v, by simp, ?_⟩
          rcases hv' with h | h
          · simp at h; omega
          · obtain ⟨_, q, hq1, hq2⟩ := inv.sem.vprom _ b' v' h
            rw [hself] at hq1; cases hq1; exact hq2
        · rcases hv' with h | h
          · simp at h; exact absurd h.1 hap
          · obtain ⟨b2, v2, c1, c2⟩ := inv.sem.vmax a b' v' h
            exact ⟨b2, v2, by simp [upd_other _ _ _ _ hap]; exact c1, c2⟩
      · -- pr
        intro f b0 r hpr
        obtain ⟨a1, ⟨q, hq1, hq2⟩, a3, a4⟩ := inv.sem.pr f b0 r hpr
        refine ⟨a1, ?_, ?_, ?_⟩
        · by_cases hfp : f = b % s.cfg.n
          · subst hfp; exact ⟨q, by simp; exact hq1, hq2⟩
          · exact ⟨q, by simp [upd_other _ _ _ _ hfp]; exact hq1, hq2⟩
        · intro b' v' hv' hlt
          unfold Voted at hv'; simp only [List.mem_cons] at hv'
          rcases hv' with h | h
          · simp at h; obtain ⟨rfl, rfl, rfl⟩ := h
            rw [hself] at hq1; cases hq1; omega
          · exact a3 b' v' h hlt
        · intro bm vm hr
          obtain ⟨c1, c2⟩ := a4 bm vm hr
          exact ⟨hvsub _ c1, c2⟩
      · -- safe
        intro b' v' hs'
        have mono : ∀ b'' v'', SafeAt s b'' v'' → SafeAt { s with
            started2 := upd s.started2 b (some v),
            acc := upd s.acc (b % s.cfg.n) { (s.acc (b % s.cfg.n)) with accepted := some (b, v) },
            acks := upd s.acks b [b % s.cfg.n],
            votes := (b % s.cfg.n, b, v) :: s.votes,
            mAcpt := fun b' d => if b' = b ∧ d ≠ b % s.cfg.n ∧ d < s.cfg.n then some v else s.mAcpt b' d } b'' v'' := by
          intro b'' v'' hsafe
          refine safeAt_mono (s := s) ?_ ?_ ?_ ?_ hsafe
          · rfl
          · exact hvsub
          · intro a q hq1
            by_cases hap : a = b % s.cfg.n
            · subst hap; exact ⟨q, by simp; exact hq1, Nat.le_refl _⟩
            · exact ⟨q, by simp [upd_other _ _ _ _ hap]; exact hq1, Nat.le_refl _⟩
          · intro a c v'' hx
            simp only [List.mem_cons] at hx
            rcases hx with h | h
            · simp at h; obtain ⟨rfl, rfl, rfl⟩ := h
              right; intro ⟨q, hq1, hlt⟩
              rw [hself] at hq1; cases hq1; omega
            · exact Or.inl h
        by_cases hbb : b' = b
        · subst hbb; simp at hs'; subst hs'; exact mono _ _ hsafe0
        · simp [upd_other _ _ _ _ hbb] at hs'; exact mono _ _ (inv.sem.safe b' v' hs')
    by_cases hq0 : s.cfg.q2 ≤ (upd s.acks b [b % s.cfg.n] b).length
    · rw [if_pos hq0]
      apply decide_inv inv1
      refine ⟨b, [b % s.cfg.n], by simp, ?_, by simpa using hq0⟩
      intro a ha; simp at ha; subst ha
      exact ⟨hp, List.mem_cons_self⟩
    · rw [if_neg hq0]; exact inv1
  · -- the proposer has meanwhile promised a higher ballot: no self-accept
    have hd : decide ((s.acc (b % s.cfg.n)).promised = some b) = false := by simp [hself]
    simp only [hd, Bool.false_eq_true, if_false]
    have inv1 : Inv { s with
        started2 := upd s.started2 b (some v),
        acks := upd s.acks b [],
        mAcpt := fun b' d => if b' = b ∧ d ≠ b % s.cfg.n ∧ d < s.cfg.n then some v else s.mAcpt b' d } := by
      refine ⟨inv.n1.frame rfl rfl rfl rfl rfl (fun _ h => h), ⟨?_, ?_, ?_, ?_, ?_⟩,
              ⟨?_, inv.sem.vprom, inv.sem.vacc, inv.sem.vmax, inv.sem.pr, ?_⟩,
              inv.learn.frame rfl rfl rfl (fun _ h => h)⟩
      · intro b' hb'
        by_cases hbb : b' = b
        · subst hbb; simp [upd] at hb'
        · simp [upd_other _ _ _ _ hbb] at hb'
          obtain ⟨a1, a2⟩ := inv.n2.none_ b' hb'
          refine ⟨by simp [upd_other _ _ _ _ hbb]; exact a1, fun d => ⟨?_, (a2 d).2⟩⟩
          simp only []; split
          · rename_i h; exact absurd h.1 hbb
          · exact (a2 d).1
      · intro b' d v' hb'
        simp only [] at hb'
        split at hb'
        · rename_i h; obtain ⟨rfl, hdp, hdn⟩ := h
          cases hb'
          exact ⟨by simp, (hslots0 d).2, by simp, noVoteAtB d⟩
        · have hbb : b' ≠ b := by
            intro h; subst h; rw [(hslots0 d).1] at hb'; cases hb'
          obtain ⟨a1, a2, a3, a4⟩ := inv.n2.acpt b' d v' hb'
          exact ⟨by simp [upd_other _ _ _ _ hbb]; exact a1, a2, by simp [upd_other _ _ _ _ hbb]; exact a3, a4⟩
      · intro b' f hb'
        have hbb : b' ≠ b := by
          intro h; subst h; simp only [] at hb'; rw [(hslots0 f).2] at hb'; cases hb'
        obtain ⟨a1, a2, v', a3, a4⟩ := inv.n2.acptd b' f hb'
        exact ⟨a1, by simp [upd_other _ _ _ _ hbb]; exact a2, v', by simp [upd_other _ _ _ _ hbb]; exact a3, a4⟩
      · intro b'
        by_cases hbb : b' = b
        · subst hbb; simp
        · obtain ⟨a1, a2⟩ := inv.n2.acks b'
          refine ⟨by simp [upd_other _ _ _ _ hbb]; exact a1, fun f hf => ?_⟩
          simp [upd_other _ _ _ _ hbb] at hf
          obtain ⟨c1, v', c2, c3⟩ := a2 f hf
          exact ⟨c1, v', by simp [upd_other _ _ _ _ hbb]; exact c2, c3⟩
      · intro b' hb'
        have hbb : b' ≠ b := by intro h; subst h; exact hown hb'
        simp [upd_other _ _ _ _ hbb]; exact inv.n2.fresh b' hb'
      · intro a b' v' hv'
        have hbb : b' ≠ b := by intro hb; subst hb; exact noVoteAtB a v' hv'
        simp [upd_other _ _ _ _ hbb]; exact inv.sem.one a b' v' hv'
      · intro b' v' hs'
        have mono : ∀ b'' v'', SafeAt s b'' v'' → SafeAt { s with
            started2 := upd s.started2 b (some v),
            acks := upd s.acks b [],
            mAcpt := fun b' d => if b' = b ∧ d ≠ b % s.cfg.n ∧ d < s.cfg.n then some v else s.mAcpt b' d } b'' v'' := by
          intro b'' v'' hsafe
          refine safeAt_mono (s := s) ?_ ?_ ?_ ?_ hsafe
          · rfl
          · exact fun _ h => h
          · intro a q hq1; exact ⟨q, hq1, Nat.le_refl _⟩
          · intro a c v'' hx; exact Or.inl hx
        by_cases hbb : b' = b
        · subst hbb; simp at hs'; subst hs'; exact mono _ _ hsafe0
        · simp [upd_other _ _ _ _ hbb] at hs'; exact mono _ _ (inv.sem.safe b' v' hs')
    by_cases hq0 : s.cfg.q2 ≤ (upd s.acks b [] b).length
    · rw [if_pos hq0]
      apply decide_inv inv1
      exact ⟨b, [], List.nodup_nil, (by intro a ha; cases ha), (by simpa using hq0)⟩
    · rw [if_neg hq0]; exact inv1

end HappyModel.C12.Px
