import HappyProofs.C12.PxFut
import HappyModel.C12.Spec
/-!
# C12 — the single-decree judge accepts the model's own transcript (repaired variant)
-/
namespace HappyModel.C12.Px

/-! ### futures belong to nodes of the cluster -/

theorem decide_fo (s : St) (b : Nat) (v : Val) :
    (decide_ s b v).futOwner = s.futOwner ∧ (decide_ s b v).nfut = s.nfut ∧ (decide_ s b v).cfg = s.cfg := by
  unfold decide_; split <;> exact ⟨rfl, rfl, rfl⟩

theorem startPhase2_fo (s : St) (b : Nat) :
    (startPhase2 s b).futOwner = s.futOwner ∧ (startPhase2 s b).nfut = s.nfut ∧ (startPhase2 s b).cfg = s.cfg := by
  unfold startPhase2
  simp only []
  (repeat' split) <;> first | exact ⟨rfl, rfl, rfl⟩ | exact decide_fo _ _ _

def FO (s : St) : Prop := ∀ k, k < s.nfut → s.futOwner k < s.cfg.n

theorem step_fo (s : St) (a : Act) (h : FO s) : FO (step s a) := by
  have keep : ∀ s' : St, s'.futOwner = s.futOwner ∧ s'.nfut = s.nfut ∧ s'.cfg = s.cfg → FO s' := by
    intro s' ⟨e1, e2, e3⟩ k hk; rw [e1, e3]; rw [e2] at hk; exact h k hk
  cases a with
  | propose p b v =>
    simp only [step]
    split
    · rename_i hp
      have grow : ∀ s' : St, s'.futOwner = upd s.futOwner s.nfut p ∧ s'.nfut = s.nfut + 1 ∧ s'.cfg = s.cfg → FO s' := by
        intro s' ⟨e1, e2, e3⟩ k hk
        rw [e1, e3]; rw [e2] at hk
        simp only [upd]
        split
        · exact hp
        · exact h k (by omega)
      split
      · exact grow _ ⟨rfl, rfl, rfl⟩
      · split
        · exact grow _ ⟨rfl, rfl, rfl⟩
        · exact grow _ ⟨rfl, rfl, rfl⟩
    · exact h
  | retry p bo bn =>
    simp only [step]
    split
    · split
      · exact keep _ ⟨rfl, rfl, rfl⟩
      · exact h
    · exact h
  | nack b hi => exact keep _ ⟨rfl, rfl, rfl⟩
  | recvPrepare b d =>
    simp only [step]
    split
    · split
      · exact keep _ ⟨rfl, rfl, rfl⟩
      · exact keep _ ⟨rfl, rfl, rfl⟩
    · exact h
  | recvPromise b f =>
    simp only [step]
    split
    · split
      · split
        · exact keep _ (startPhase2_fo _ _)
        · exact keep _ ⟨rfl, rfl, rfl⟩
      · exact keep _ ⟨rfl, rfl, rfl⟩
    · exact h
  | recvAccept b d =>
    simp only [step]
    split
    · split
      · split
        · exact keep _ ⟨rfl, rfl, rfl⟩
        · exact keep _ ⟨rfl, rfl, rfl⟩
      · exact h
    · exact h
  | recvAccepted b f =>
    simp only [step]
    split
    · split
      · split
        · split
          · exact keep _ (decide_fo _ _ _)
          · exact keep _ ⟨rfl, rfl, rfl⟩
        · exact keep _ ⟨rfl, rfl, rfl⟩
      · exact keep _ ⟨rfl, rfl, rfl⟩
    · exact h
  | recvDecided f d =>
    simp only [step]
    split
    · split
      · exact keep _ ⟨rfl, rfl, rfl⟩
      · exact keep _ ⟨rfl, rfl, rfl⟩
    · exact h
  | dropPrep _ _ => exact keep _ ⟨rfl, rfl, rfl⟩
  | dropProm _ _ => exact keep _ ⟨rfl, rfl, rfl⟩
  | dropAcpt _ _ => exact keep _ ⟨rfl, rfl, rfl⟩
  | dropAcptd _ _ => exact keep _ ⟨rfl, rfl, rfl⟩
  | dropDec _ _ => exact keep _ ⟨rfl, rfl, rfl⟩

theorem run_fo (s : St) (as : List Act) (h : FO s) : FO (runActs s as) := by
  induction as generalizing s with
  | nil => exact h
  | cons a as ih => exact ih _ (step_fo s a h)

theorem init_fo (n q1 q2 : Nat) : FO (init n q1 q2) := by
  intro k hk; simp [init] at hk

/-! ### the model's transcript, as the judge reads an implementation transcript -/

/-- `rep node v|-` lines: after every step the report of one node (`who a`: any choice; the harness prints the node
    whose handler ran), and at the end the report of every node -/
def repRun (who : Act → Nat) (n : Nat) (s : St) : List Act → List (Nat × Option Nat)
  | [] => (List.range n).map fun i => (i, s.decided i)
  | a :: as => (who a, (step s a).decided (who a)) :: repRun who n (step s a) as

/-- `fut id v` lines: every resolved future -/
def futsOf (s : St) : List (Nat × Nat) := (List.range s.nfut).filterMap fun k => (s.futRes k).map fun v => (k, v)

/-- the observed instance of a run -/
def instOf (who : Act → Nat) (n : Nat) (s : St) (as : List Act) : Spec.Inst :=
  { proposed := (runActs s as).proposedVals, reports := repRun who n s as, futs := futsOf (runActs s as) }

theorem rep_final (who : Act → Nat) (n : Nat) : ∀ (as : List Act) (s : St) (i w : Nat),
    (i, some w) ∈ repRun who n s as → (runActs s as).decided i = some w := by
  intro as
  induction as with
  | nil =>
    intro s i w h
    simp only [repRun, List.mem_map] at h
    obtain ⟨j, _, hj⟩ := h
    simp only [Prod.mk.injEq] at hj
    obtain ⟨rfl, h2⟩ := hj
    exact h2
  | cons a rest ih =>
    intro s i w h
    simp only [repRun, List.mem_cons] at h
    rcases h with h | h
    · simp only [Prod.mk.injEq] at h
      obtain ⟨rfl, h2⟩ := h
      exact decided_stable_run (step s a) rest (who a) w h2.symm
    · exact ih _ i w h

theorem final_mem (who : Act → Nat) (n : Nat) : ∀ (as : List Act) (s : St) (i : Nat), i < n →
    (i, (runActs s as).decided i) ∈ repRun who n s as := by
  intro as
  induction as with
  | nil => intro s i hi; simp only [repRun, List.mem_map]; exact ⟨i, List.mem_range.2 hi, rfl⟩
  | cons a rest ih => intro s i hi; exact List.mem_cons_of_mem _ (ih _ i hi)

theorem mem_decisions {o : Spec.Inst} {w : Nat} : w ∈ o.decisions ↔ ∃ i, (i, some w) ∈ o.reports := by
  simp only [Spec.Inst.decisions, List.mem_filterMap]
  constructor
  · rintro ⟨r, hr, h⟩; obtain ⟨i, x⟩ := r; simp only at h; subst h; exact ⟨i, hr⟩
  · rintro ⟨i, h⟩; exact ⟨(i, some w), h, rfl⟩

theorem allEq_of_forall' {l : List Nat} (h : ∀ x ∈ l, ∀ y ∈ l, x = y) : Spec.allEq l = true := by
  cases l with
  | nil => rfl
  | cons a t =>
    simp only [Spec.allEq, List.all_eq_true, beq_iff_eq]
    intro y hy
    exact h y (List.mem_cons_of_mem _ hy) a List.mem_cons_self

/-! ### stability along the run -/

theorem stableFrom_const (d : Option Nat) : ∀ (xs : List (Option Nat)) (cur : Option Nat),
    (∀ x ∈ xs, x = d) → (∀ v, cur = some v → d = some v) → Spec.stableFrom cur xs = true := by
  intro xs
  induction xs with
  | nil => intro cur _ _; cases cur <;> rfl
  | cons x xs ih =>
    intro cur hall hc
    have hx : x = d := hall x List.mem_cons_self
    have hall' : ∀ y ∈ xs, y = d := fun y hy => hall y (List.mem_cons_of_mem _ hy)
    cases cur with
    | none => simp only [Spec.stableFrom]; exact ih x hall' (fun v hv => by rw [← hx]; exact hv)
    | some v =>
      have hd := hc v rfl
      simp only [Spec.stableFrom, Bool.and_eq_true, beq_iff_eq]
      exact ⟨by rw [hx, hd], ih (some v) hall' (fun v' hv' => by cases hv'; exact hd)⟩

theorem stable_run (who : Act → Nat) (n nd : Nat) : ∀ (as : List Act) (s : St) (cur : Option Nat),
    (∀ v, cur = some v → s.decided nd = some v) →
    Spec.stableFrom cur (((repRun who n s as).filter (·.1 == nd)).map (·.2)) = true := by
  intro as
  induction as with
  | nil =>
    intro s cur hc
    apply stableFrom_const (s.decided nd) _ cur _ hc
    intro x hx
    simp only [repRun, List.mem_map, List.mem_filter, beq_iff_eq] at hx
    obtain ⟨r, ⟨⟨j, _, rfl⟩, hj⟩, rfl⟩ := hx
    simp only at hj; subst hj; rfl
  | cons a rest ih =>
    intro s cur hc
    have hstep : ∀ v, s.decided nd = some v → (step s a).decided nd = some v :=
      fun v h => decided_stable_run s [a] nd v h
    simp only [repRun, List.filter_cons]
    split
    · rename_i hw
      simp only [beq_iff_eq] at hw
      simp only [List.map_cons]
      cases cur with
      | none =>
        simp only [Spec.stableFrom]
        exact ih _ _ (fun v hv => by rw [← hw]; exact hv)
      | some v =>
        have h1 := hstep v (hc v rfl)
        simp only [Spec.stableFrom, Bool.and_eq_true, beq_iff_eq]
        exact ⟨by rw [hw]; exact h1, ih _ _ (fun v' hv' => by cases hv'; exact h1)⟩
    · exact ih _ cur (fun v hv => hstep v (hc v hv))

/-! ### the four clauses and their composition -/

section
variable (who : Act → Nat) (n q1 q2 : Nat) (as : List Act)

theorem stability_on_model : Spec.stability (instOf who n (init n q1 q2) as) = true := by
  simp only [Spec.stability, List.all_eq_true]
  intro nd _
  exact stable_run who n nd as (init n q1 q2) none (by intro v h; cases h)

theorem agreement_on_model (hq : n < q1 + q2) (hq2 : 0 < q2) :
    Spec.agreement (instOf who n (init n q1 q2) as) = true := by
  have inv := run_inv (init n q1 q2) as (init_inv n q1 q2)
  have hc := run_cfg (init n q1 q2) as
  apply allEq_of_forall'
  intro x hx y hy
  obtain ⟨i, hi⟩ := mem_decisions.1 hx
  obtain ⟨j, hj⟩ := mem_decisions.1 hy
  exact agreement_of_inv inv (by rw [hc]; exact hq) (by rw [hc]; exact hq2)
    (rep_final who n as _ i x hi) (rep_final who n as _ j y hj)

theorem validity_on_model (hq2 : 0 < q2) : Spec.validity (instOf who n (init n q1 q2) as) = true := by
  have inv := run_inv (init n q1 q2) as (init_inv n q1 q2)
  have val := run_valid (init n q1 q2) as (init_inv n q1 q2) (init_valid n q1 q2)
  have hc := run_cfg (init n q1 q2) as
  simp only [Spec.validity, List.all_eq_true, List.contains_iff_mem]
  intro w hw
  obtain ⟨i, hi⟩ := mem_decisions.1 hw
  have hd := rep_final who n as _ i w hi
  obtain ⟨b', Q, _, hQ, hlen⟩ := inv.learn.node i w hd
  obtain ⟨a, ha⟩ := quorum_nonempty (by rw [hc]; exact hq2) hlen
  exact val.st b' w (inv.sem.one a b' w (hQ a ha).2)

theorem futures_on_model (hq : n < q1 + q2) (hq2 : 0 < q2) :
    Spec.futures (instOf who n (init n q1 q2) as) = true := by
  have inv := run_inv (init n q1 q2) as (init_inv n q1 q2)
  have fut := run_fut (init n q1 q2) as (init_fut n q1 q2)
  have fo := run_fo (init n q1 q2) as (init_fo n q1 q2)
  have hc := run_cfg (init n q1 q2) as
  simp only [Spec.futures, List.all_eq_true, Bool.and_eq_true, List.contains_iff_mem, beq_iff_eq]
  intro f hf
  simp only [instOf, futsOf, List.mem_filterMap, List.mem_range] at hf
  obtain ⟨k, hk, hkv⟩ := hf
  cases hres : (runActs (init n q1 q2) as).futRes k with
  | none => rw [hres] at hkv; cases hkv
  | some v =>
    rw [hres] at hkv
    simp only [Option.map_some, Option.some.injEq] at hkv
    subst hkv
    have hown := fut.res k v hres
    have hlt : (runActs (init n q1 q2) as).futOwner k < n := by
      have := fo k hk; rw [hc] at this; exact this
    refine ⟨mem_decisions.2 ⟨(runActs (init n q1 q2) as).futOwner k, ?_⟩, ?_⟩
    · have := final_mem who n as (init n q1 q2) _ hlt
      rw [hown] at this; exact this
    · intro w hw
      obtain ⟨i, hi⟩ := mem_decisions.1 hw
      exact agreement_of_inv inv (by rw [hc]; exact hq) (by rw [hc]; exact hq2)
        (rep_final who n as _ i w hi) hown

/-- THE SINGLE-DECREE JUDGE ACCEPTS THE MODEL: for every action sequence of the repaired variant (any proposers,
    values, ballots, interleavings, retries, losses), with intersecting quorums, `judgeInst` evaluated on the run's
    own transcript — values proposed, the report of a node after every step and of every node at the end, the
    resolved futures — finds no violated clause. -/
theorem paxos_judge_silent_on_model (pfx : String) (hq : n < q1 + q2) (hq2 : 0 < q2) :
    Spec.judgeInst pfx (instOf who n (init n q1 q2) as) = none := by
  simp [Spec.judgeInst, stability_on_model who n q1 q2 as, agreement_on_model who n q1 q2 as hq hq2,
    validity_on_model who n q1 q2 as hq2, futures_on_model who n q1 q2 as hq hq2]

end

/-- non-vacuity: a run with two competing proposers, a retry, three learners and three futures — the transcript has
    reports, decisions and resolved futures, and the judge is silent on it -/
example :
    let o := instOf (fun _ => 0) 3 (init 3 2 2)
      [.propose 0 3 70, .propose 1 4 71, .recvPrepare 4 0, .recvPrepare 4 2, .recvPromise 4 0, .recvAccept 4 0,
       .recvAccept 4 2, .recvAccepted 4 0, .recvDecided 1 0, .recvDecided 1 2, .propose 0 9 72]
    o.decisions.length = 6 ∧ o.futs = [(1, 71), (2, 71)] ∧ Spec.judgeInst "paxos" o = none := by decide

end HappyModel.C12.Px
