import HappyProofs.C14.TxnLink
/-!
# Transactions, link machine → judge: the extra hypothesis `EB` holds for every run

`txnFacts_of_mach` needs, besides `MachFacts`, that a frame with a last segment has a first segment
(`EB`).  Here: `stepFrames` preserves it (the segment that sets `e` also sets `b`), so it holds for
`runFrames` from the initial frames of any program, under any schedule.
-/
namespace HappyModel.C14.SM
open HappyModel.C14 HappyModel.C14.BT HappyModel.C14.TxSpec

/-- `EB` for any kind of frame -/
def EBg {π : Type} (fs : List (Frame π)) : Prop := ∀ f ∈ fs, ∀ e, f.e = some e → ∃ b, f.b = some b

theorem stepFrames_eb {σ π : Type} (step : σ → π → σ × π) (isDone : π → Bool) (st : σ) (n id : Nat)
    (fs : List (Frame π)) (h : EBg fs) : EBg (stepFrames step isDone st n id fs).2 := by
  induction fs with
  | nil => exact h
  | cons f fs ih =>
    have hf := h f (by simp)
    have hr : EBg fs := fun g hg => h g (by simp [hg])
    unfold stepFrames
    split
    · split
      · exact h
      · intro g hg e he
        rcases List.mem_cons.mp hg with rfl | hg
        · cases hb : f.b <;> simp [Option.orElse]
        · exact hr g hg e he
    · intro g hg e he
      rcases List.mem_cons.mp hg with rfl | hg
      · exact hf e he
      · exact ih hr g hg e he

theorem runFrames_eb {σ π : Type} (step : σ → π → σ × π) (isDone : π → Bool) (sched : List Nat) :
    ∀ (st : σ) (fs : List (Frame π)) (n : Nat), EBg fs → EBg (runFrames step isDone st fs n sched).2 := by
  induction sched with
  | nil => intro st fs n h; exact h
  | cons id ids ih =>
    intro st fs n h
    simp only [runFrames]
    exact ih _ _ _ (stepFrames_eb step isDone st n id fs h)

/-- the final frames of every run of a program satisfy `EB` -/
theorem eb_of_run (ops : List (Nat × TOp)) (tm0 : TM) (n : Nat) (sched : List Nat) :
    EB (runFrames stepT TPc.isDone tm0 (framesOfT ops) n sched).2 := by
  apply runFrames_eb stepT TPc.isDone sched tm0 (framesOfT ops) n
  intro f hf e he
  obtain ⟨o, _, rfl⟩ := List.mem_map.mp hf
  cases he

/-- `txnFacts_of_mach` for the frames of a run: no extra hypothesis -/
theorem txnFacts_of_run (ok : Store → Prop) (ops : List (Nat × TOp)) (tm0 tm : TM) (sched : List Nat)
    (tlog : List (Nat × Ev)) (hwf : WFProg ops)
    (hm : MachFacts ok ops tm0 tm (runFrames stepT TPc.isDone tm0 (framesOfT ops) 0 sched).2 tlog) :
    TxnFacts tm0.store.getSync tm.store.getSync
      (tobsOf ops (runFrames stepT TPc.isDone tm0 (framesOfT ops) 0 sched).2) (histOf tlog) :=
  txnFacts_of_mach ok ops tm0 tm _ tlog hwf hm (eb_of_run ops tm0 0 sched)

end HappyModel.C14.SM
