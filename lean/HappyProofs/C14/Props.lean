import HappyProofs.C14.Flush
import HappyProofs.C14.LsmProps
import HappyProofs.C14.LsmObs
import HappyProofs.C14.LsmFinal
import HappyModel.C14.Driver
import HappyProofs.C14.BTreeMain
import HappyProofs.C14.TxnMain
import HappyProofs.C14.TxnLsm
import HappyProofs.C14.StoreTrace
import HappyProofs.C14.TxnTrace
import HappyProofs.C14.TxnTraceSide
import HappyProofs.C14.TxnLsmTrace
/-!
# C14 — property theorems (LSM tree as a map)

"For any sequence and any overlap in simulated time of put, get, delete and scan operations on the
LSM tree (under every compaction strategy) … every read returns the value of the latest write to that
key that completed before the read began, or of a write concurrent with it; deleted keys stay deleted
and scans return exactly the live keys of the range in sorted order."

Refinement to the abstract map `St.abs : Key → Option Nat` (this is `get_sync`): each segment of the
write path either performs exactly one abstract update (`abs_put`, `abs_delete`: the memtable insert)
or leaves the abstract map unchanged (`abs_flush_start`, `abs_flush_install`, and for the compaction
merge `abs_compact_partial`).  The statements hold for *every* state, so for every interleaving.
-/
namespace HappyModel.C14

/-- the memtable-insert segment of `put k v` is the abstract update `m[k] := v` -/
theorem abs_put (s : St) (k k' : Key) (v : Nat) :
    (memInsert s k (some v)).1.abs k' = if k' = k then some v else s.abs k' := by
  unfold St.abs
  rw [read_memInsert]
  by_cases h : k' = k <;> simp [h]

/-- the memtable-insert segment of `delete k` (a tombstone) is the abstract update `m.erase k` -/
theorem abs_delete (s : St) (k k' : Key) :
    (memInsert s k none).1.abs k' = if k' = k then none else s.abs k' := by
  unfold St.abs
  rw [read_memInsert]
  by_cases h : k' = k <;> simp [h]

/-- starting a flush (freeze the memtable, keep it readable) does not change the abstract map -/
theorem abs_flush_start (cfg : Cfg) (s : St) (k : Key) : (flushStart cfg s).1.abs k = s.abs k := by
  unfold St.abs; rw [read_flushStart]

/-- installing the SSTable of the *oldest* frozen memtable (hypothesis `flushes_install_in_start_order`:
    `s.imms = t :: r`), truncating the WAL and possibly starting a compaction does not change the
    abstract map -/
theorem abs_flush_install (cfg : Cfg) (s : St) (t : Tab) (b : Nat) (r : List Tab) (k : Key)
    (flushes_install_in_start_order : s.imms = t :: r) (hid : ∀ i ∈ r, i.id ≠ t.id)
    (hlv : s.levels ≠ []) :
    (flushInstall cfg s t b).1.abs k = s.abs k := by
  unfold St.abs; rw [read_flushInstall cfg s t b r k flushes_install_in_start_order hid hlv]

/-- compaction merge contract: the merged payload answers every key exactly like a newest-first read
    through the source SSTables `S` followed by the selected target-level SSTables `O` -/
theorem abs_compact_partial (S O : List Tab) (k : Key) (hu : ∀ t ∈ S, Uniq t.data) :
    (mergeOverlap (mergeSources S) O).lookup k = match lookTabs k S.reverse with
      | some c => some c
      | none => lookTabs k O := by
  rw [lookup_mergeOverlap]
  unfold mergeSources
  rw [lookup_mergeSources_acc k S [] hu]
  cases lookTabs k S.reverse <;> rfl

/-! ### compaction install and the interleaving statement

Proved in `LsmProps.lean` / `LsmFinal.lean` (imported above) and audited by name:
`abs_compact` (installing a compaction does not change the abstract map, under `CompactPre`),
`compactPre_run` / `abs_compact_run` / `compactions_exclusive` (run invariants: SSTables sorted, levels ≥ 1
key-disjoint, one compaction in flight, tombstones dropped only at the deepest level),
`abs_refines_log`, `read_regular_sem`, `read_regular` (the former `read_regular_full`, now a theorem: over every
schedule with `InOrder` — flushes install in start order — the model's observations satisfy `judgeOps`). -/

/-! ### non-vacuity -/

/-- a state with a frozen memtable in flight, an L0 table and an L1 table, as the hypotheses require -/
def exSt : St :=
  { mem := [(1, some 7)], memId := 5, imms := [⟨3, [(0, none)]⟩, ⟨4, [(2, some 9)]⟩],
    levels := [[⟨1, [(0, some 1), (1, some 2)]⟩], [⟨0, [(2, some 3)]⟩]], nextId := 6 }

example : exSt.imms = ⟨3, [(0, none)]⟩ :: [⟨4, [(2, some 9)]⟩] ∧ (∀ i ∈ [(⟨4, [(2, some 9)]⟩ : Tab)], i.id ≠ 3) ∧
    exSt.levels ≠ [] ∧ (List.range 3).map exSt.abs = [none, some 7, some 9] ∧
    (List.range 3).map (flushInstall {} exSt ⟨3, [(0, none)]⟩ 0).1.abs = [none, some 7, some 9] := by
  decide

example : (∀ t ∈ [(⟨1, [(0, some 1), (1, none)]⟩ : Tab), ⟨2, [(1, some 5)]⟩], Uniq t.data) ∧
    (mergeOverlap (mergeSources [⟨1, [(0, some 1), (1, none)]⟩, ⟨2, [(1, some 5)]⟩]) [⟨0, [(2, some 3)]⟩]) =
      [(0, some 1), (1, some 5), (2, some 3)] := by
  decide

example : (memInsert exSt 0 (some 4)).1.abs 0 = some 4 ∧ (memInsert exSt 1 none).1.abs 1 = none := by decide

/-! ## B-tree, KVStore, transaction manager

The B-tree theorems (`BT.btree_refines_map`, `BT.btree_sorted`, `BT.map_lookup_upsert`, `BT.map_lookup_erase`)
are in `BTreeMain.lean`, the transaction theorems (`SM.serializable_commit_order`,
`SM.snapshot_reads_consistent`, `SM.kv_laws` and the `_kv` corollaries) in `TxnMain.lean`.  Here the two
meet: a B-tree satisfying its invariant obeys the map laws the transaction theorems ask of a store, so
both hold for a `TransactionManager` over a `BTree` of any order ≥ 3 and any initial contents. -/

namespace SM
open HappyModel.C14.BT

/-- a B-tree of order ≥ 3 satisfying the search-tree invariant -/
def btOk (s : Store) : Prop := ∃ t order, s = .bt t ∧ 3 ≤ order ∧ TreeInv order t

theorem bt_laws :
    (∀ s k v, btOk s → btOk (s.putSync k v)) ∧
    (∀ s k v k', btOk s → (s.putSync k v).getSync k' = if k' = k then some v else s.getSync k') := by
  constructor
  · rintro s k v ⟨t, order, rfl, ho, ht⟩
    exact ⟨t.put k v, order, rfl, ho, (put_spec order ho t ht k v).1⟩
  · rintro s k v k' ⟨t, order, rfl, ho, ht⟩
    have hp := put_spec order ho t ht k v
    show (t.put k v).get k' = if k' = k then some v else t.get k'
    rw [get_eq order _ hp.1, get_eq order t ht, hp.2,
      leafGet_eq_lookup k' _ (map_sorted_upsert k v _ (toList_sorted order t ht)),
      leafGet_eq_lookup k' _ (toList_sorted order t ht)]
    exact map_lookup_upsert _ (toList_sorted order t ht) k k' v

/-- every tree built by puts and deletes from the empty tree is such a store -/
theorem btOk_built (order : Nat) (h : 3 ≤ order) (ops : List BOp) :
    btOk (.bt (ops.foldl BTree.apply { order := order })) :=
  ⟨_, order, rfl, h, (fold_spec order h ops { order := order } [] (treeInv_empty order) rfl).1⟩

theorem serializable_commit_order_btree (s0 : Store) (h0 : btOk s0) (acts : List Act) :
    let r := runA { store := s0 } acts
    (∀ k, r.1.store.getSync k = replay s0.getSync r.2 k) ∧
    ∀ pre post slot wset tx, r.2 = pre ++ Ev.committed slot wset :: post →
      r.1.tx? slot = some tx → tx.level = .ser →
      ∀ k val, Ev.fetched slot k val ∈ pre → val = replay s0.getSync pre k :=
  serializable_commit_order btOk bt_laws.1 bt_laws.2 s0 h0 acts

theorem snapshot_reads_consistent_btree (s0 : Store) (h0 : btOk s0) (acts : List Act) :
    let r := runA { store := s0 } acts
    ∀ pre mid post slot k val tx, r.2 = pre ++ Ev.began slot :: mid ++ Ev.fetched slot k val :: post →
      r.1.tx? slot = some tx → tx.level ≠ .rc → val = replay s0.getSync pre k :=
  snapshot_reads_consistent btOk bt_laws.1 bt_laws.2 s0 h0 acts

/-- non-vacuity: an order-3 tree of depth 3 built from scrambled puts with an overwrite is `btOk` -/
example : btOk (.bt ([BOp.put 5 1, .put 2 2, .put 8 3, .put 1 4, .put 6 5, .put 5 6, .del 2].foldl BTree.apply { order := 3 })) :=
  btOk_built 3 (by decide) _

end SM

end HappyModel.C14
