import HappyProofs.C14.Flush
import HappyProofs.C14.Compact
import HappyModel.C14.Driver
/-!
# C14 — property theorems (LSM tree as a map)

"For any sequence and any overlap in simulated time of put, get, delete and scan operations on the
LSM tree (under every compaction strategy) … every read returns the value of the latest write to that
key that completed before the read began, or of a write concurrent with it; deleted keys stay deleted
and scans return exactly the live keys of the range in sorted order."

Refinement to the abstract map `St.abs : Key → Option Nat` (this is `get_sync`): each segment of the
write path either performs exactly one abstract update (`abs_put`, `abs_delete`: the memtable insert)
or leaves the abstract map unchanged (`abs_flush_start`, `abs_flush_install`, and for the compaction
merge `abs_compact_partial`).  The statements hold for *every* state, so for every interleaving.
-/
namespace HappyModel.C14

/-- the memtable-insert segment of `put k v` is the abstract update `m[k] := v` -/
theorem abs_put (s : St) (k k' : Key) (v : Nat) :
    (memInsert s k (some v)).1.abs k' = if k' = k then some v else s.abs k' := by
  unfold St.abs
  rw [read_memInsert]
  by_cases h : k' = k <;> simp [h]

/-- the memtable-insert segment of `delete k` (a tombstone) is the abstract update `m.erase k` -/
theorem abs_delete (s : St) (k k' : Key) :
    (memInsert s k none).1.abs k' = if k' = k then none else s.abs k' := by
  unfold St.abs
  rw [read_memInsert]
  by_cases h : k' = k <;> simp [h]

/-- starting a flush (freeze the memtable, keep it readable) does not change the abstract map -/
theorem abs_flush_start (cfg : Cfg) (s : St) (k : Key) : (flushStart cfg s).1.abs k = s.abs k := by
  unfold St.abs; rw [read_flushStart]

/-- installing the SSTable of the *oldest* frozen memtable (hypothesis `flushes_install_in_start_order`:
    `s.imms = t :: r`), truncating the WAL and possibly starting a compaction does not change the
    abstract map -/
theorem abs_flush_install (cfg : Cfg) (s : St) (t : Tab) (b : Nat) (r : List Tab) (k : Key)
    (flushes_install_in_start_order : s.imms = t :: r) (hid : ∀ i ∈ r, i.id ≠ t.id)
    (hlv : s.levels ≠ []) :
    (flushInstall cfg s t b).1.abs k = s.abs k := by
  unfold St.abs; rw [read_flushInstall cfg s t b r k flushes_install_in_start_order hid hlv]

/-- compaction merge contract: the merged payload answers every key exactly like a newest-first read
    through the source SSTables `S` followed by the selected target-level SSTables `O` -/
theorem abs_compact_partial (S O : List Tab) (k : Key) (hu : ∀ t ∈ S, Uniq t.data) :
    (mergeOverlap (mergeSources S) O).lookup k = match lookTabs k S.reverse with
      | some c => some c
      | none => lookTabs k O := by
  rw [lookup_mergeOverlap]
  unfold mergeSources
  rw [lookup_mergeSources_acc k S [] hu]
  cases lookTabs k S.reverse <;> rfl

/-! ### full statements that are not proved (gaps are named in `hv/props/c14.py`) -/

def Sorted (d : Data) : Prop := (d.map (·.1)).Pairwise (· < ·)

def LevelDisjoint (l : List Tab) : Prop :=
  l.Pairwise fun a b => ∀ k, a.data.lookup k = none ∨ b.data.lookup k = none

/-- what the exclusive compaction of the repaired tree guarantees between plan and install -/
structure CompactPre (cfg : Cfg) (s : St) (j : Job) : Prop where
  planned : ∃ lv0 extra, planCompaction cfg lv0 j.src = some j ∧ lv0.length = s.levels.length ∧
    lv0.getD j.tgt [] = s.levels.getD j.tgt [] ∧ s.levels.getD j.src [] = lv0.getD j.src [] ++ extra ∧
    (j.src ≠ 0 → extra = [])
  sorted : ∀ l ∈ s.levels, ∀ t ∈ l, Sorted t.data
  disjoint : ∀ i, 1 ≤ i → LevelDisjoint (s.levels.getD i [])
  ids : (s.levels.flatten.map (·.id)).Nodup
  levels : s.levels.length = cfg.maxLevels ∧ 2 ≤ cfg.maxLevels

/-- installing a compaction does not change the abstract map -/
def abs_compact_full : Prop :=
  ∀ (cfg : Cfg) (s : St) (j : Job) (k : Key), CompactPre cfg s j → (compactInstall s j).1.abs k = s.abs k

/-- observations of a model run, in the vocabulary of the Spec -/
def obsOf (ops : List (Nat × OKind)) (y : Sys) : List ORec :=
  y.frames.filterMap fun f =>
    match f.b, ops.lookup f.id with
    | some b, some kind =>
      some { id := f.id, kind := kind, b := b, e := f.e,
             got := match f.pc with | .done (.val c) => c | _ => none,
             rows := match f.pc with | .done (.rows d) => d | _ => [] }
    | _, _ => none

def DistinctPuts (ops : List (Nat × OKind)) : Prop :=
  (ops.map (·.1)).Nodup ∧
  (ops.filterMap fun o => match o.2 with | .put _ v => some v | _ => none).Nodup

/-- every frozen memtable is installed before any memtable frozen after it -/
def FlushesInstallInStartOrder (cfg : Cfg) (y : Sys) (sched : List Nat) : Prop :=
  ∀ n, let z := Sys.run cfg y (sched.take n)
    ∀ f ∈ z.frames, ∀ t b, f.pc = .pFlush t b → sched[n]? = some f.id → z.st.imms.head? = some t

/-- `read_regular`, `deleted_stay_deleted`, `scan_sorted_live` in one statement: the model's own
    observations satisfy the Spec predicate, for every workload and every interleaving of segments -/
def read_regular_full : Prop :=
  ∀ (cfg : Cfg) (nkeys : Nat) (ops : List (Nat × OKind)) (oracle : List Bool) (sched : List Nat),
    DistinctPuts ops → 2 ≤ cfg.maxLevels →
    let y0 : Sys := { st := St.init cfg oracle, frames := ops.map fun o => { id := o.1, pc := Driver.startPc o.2 } }
    FlushesInstallInStartOrder cfg y0 sched →
    judgeOps (obsOf ops (Sys.run cfg y0 sched)) nkeys = none

/-! ### non-vacuity -/

/-- a state with a frozen memtable in flight, an L0 table and an L1 table, as the hypotheses require -/
def exSt : St :=
  { mem := [(1, some 7)], memId := 5, imms := [⟨3, [(0, none)]⟩, ⟨4, [(2, some 9)]⟩],
    levels := [[⟨1, [(0, some 1), (1, some 2)]⟩], [⟨0, [(2, some 3)]⟩]], nextId := 6 }

example : exSt.imms = ⟨3, [(0, none)]⟩ :: [⟨4, [(2, some 9)]⟩] ∧ (∀ i ∈ [(⟨4, [(2, some 9)]⟩ : Tab)], i.id ≠ 3) ∧
    exSt.levels ≠ [] ∧ (List.range 3).map exSt.abs = [none, some 7, some 9] ∧
    (List.range 3).map (flushInstall {} exSt ⟨3, [(0, none)]⟩ 0).1.abs = [none, some 7, some 9] := by
  decide

example : (∀ t ∈ [(⟨1, [(0, some 1), (1, none)]⟩ : Tab), ⟨2, [(1, some 5)]⟩], Uniq t.data) ∧
    (mergeOverlap (mergeSources [⟨1, [(0, some 1), (1, none)]⟩, ⟨2, [(1, some 5)]⟩]) [⟨0, [(2, some 3)]⟩]) =
      [(0, some 1), (1, some 5), (2, some 3)] := by
  decide

example : (memInsert exSt 0 (some 4)).1.abs 0 = some 4 ∧ (memInsert exSt 1 none).1.abs 1 = none := by decide

end HappyModel.C14
