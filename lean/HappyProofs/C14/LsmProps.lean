import HappyProofs.C14.Flush
import HappyProofs.C14.LsmSys
/-!
# C14 — LSM run invariants and the compaction refinement step

`abs_compact`: installing a compaction does not change the abstract map, under `CompactPre`;
`compactPre_run`: every suspended compaction of every run satisfies `CompactPre`.
-/
namespace HappyModel.C14

/-- what the exclusive compaction of the repaired tree guarantees between plan and install: the job
    was planned on an earlier version `lv0` of the levels and since then only flush installs happened
    (`extra`, appended to level 0); SSTables are sorted, levels ≥ 1 are key-disjoint, identities are
    distinct within a level.  `compactPre_run` shows that every `pCompact j` frame of every run
    satisfies it. -/
structure CompactPre (cfg : Cfg) (s : St) (j : Job) : Prop where
  planned : ∃ lv0 extra, planCompaction cfg lv0 j.src = some j ∧ lv0.length = s.levels.length ∧
    lv0.getD j.tgt [] = s.levels.getD j.tgt [] ∧ s.levels.getD j.src [] = lv0.getD j.src [] ++ extra ∧
    (j.src ≠ 0 → extra = [])
  sorted : ∀ l ∈ s.levels, ∀ t ∈ l, Sorted t.data
  disjoint : ∀ i, 1 ≤ i → LevelDisjoint (s.levels.getD i [])
  ids : ∀ l ∈ s.levels, (l.map (·.id)).Nodup
  levels : s.levels.length = cfg.maxLevels ∧ 2 ≤ cfg.maxLevels

theorem CompactPre.lvInv {cfg : Cfg} {s : St} {j : Job} (h : CompactPre cfg s j) : LvInv cfg s.levels where
  len := h.levels.1
  two := h.levels.2
  sorted := fun i t ht => by
    rcases getD_mem_or_nil s.levels i with hm | hn
    · exact h.sorted _ hm t ht
    · rw [hn] at ht; cases ht
  disj := h.disjoint
  ids := fun i => by
    rcases getD_mem_or_nil s.levels i with hm | hn
    · exact h.ids _ hm
    · rw [hn]; exact List.nodup_nil

/-- installing a compaction (remove the sources and the selected targets by identity, append the merged
    SSTable, tombstones dropped at the deepest level) does not change the abstract map -/
theorem abs_compact (cfg : Cfg) (s : St) (j : Job) (k : Key) (h : CompactPre cfg s j) :
    (compactInstall s j).1.abs k = s.abs k := by
  unfold St.abs
  rw [read_eq, read_eq]
  apply or_join_congr
  apply or_join_congr
  have := lookLevels_install h.lvInv h.planned s.nextId k 0 (Nat.zero_le _)
  simp only [List.drop_zero] at this
  exact this

/-- run invariant: along every schedule of segments from a fresh tree, every suspended compaction
    (`pCompact j`) satisfies `CompactPre` — SSTables sorted, levels ≥ 1 key-disjoint, identities distinct,
    and (exclusivity, `SysInv.excl`) it is the only compaction in flight, so the levels it planned on
    changed only by flush installs into level 0 -/
theorem compactPre_run (cfg : Cfg) (y0 : Sys) (hinit : InitSys cfg y0) (h2 : 2 ≤ cfg.maxLevels) (sched : List Nat) :
    ∀ f ∈ (y0.run cfg sched).frames, ∀ j, f.pc = .pCompact j → CompactPre cfg (y0.run cfg sched).st j := by
  intro f hf j hj
  have hI := lsm_inv_run hinit h2 sched
  have hp := hI.pcs f hf
  rw [hj] at hp
  refine ⟨hp.1, ?_, hI.sinv.lv.disj, ?_, hI.sinv.lv.len, h2⟩
  · intro l hl t ht
    obtain ⟨i, hi⟩ := exists_getD_of_mem hl
    exact hI.sinv.lv.sorted i t (by rw [hi]; exact ht)
  · intro l hl
    obtain ⟨i, hi⟩ := exists_getD_of_mem hl
    rw [← hi]; exact hI.sinv.lv.ids i

/-- `abs_compact` along runs: whenever a compaction installs, in any interleaving, the abstract map of
    the whole tree is unchanged -/
theorem abs_compact_run (cfg : Cfg) (y0 : Sys) (hinit : InitSys cfg y0) (h2 : 2 ≤ cfg.maxLevels) (sched : List Nat)
    (f : Frame) (hf : f ∈ (y0.run cfg sched).frames) (j : Job) (hj : f.pc = .pCompact j) (k : Key) :
    (compactInstall (y0.run cfg sched).st j).1.abs k = (y0.run cfg sched).st.abs k :=
  abs_compact cfg _ j k (compactPre_run cfg y0 hinit h2 sched f hf j hj)

/-- at most one compaction is in flight, and the `_compacting` flag says so -/
theorem compactions_exclusive (cfg : Cfg) (y0 : Sys) (hinit : InitSys cfg y0) (h2 : 2 ≤ cfg.maxLevels) (sched : List Nat) :
    ((y0.run cfg sched).frames.countP fun f => f.pc.isCompact) = if (y0.run cfg sched).st.compacting then 1 else 0 :=
  (lsm_inv_run hinit h2 sched).excl

/-! ### non-vacuity: a run that reaches a suspended compaction (two flushed memtables in level 0) -/

def exCfg : Cfg := { memSize := 1, maxLevels := 2, strat := .sizeTiered 2 }
def exSys : Sys :=
  { st := St.init exCfg,
    frames := [⟨1, .pStart 0 (some 1), none, none, 0⟩, ⟨2, .pStart 1 none, none, none, 0⟩, ⟨3, .gStart 0, none, none, 0⟩] }

theorem exSys_init : InitSys exCfg exSys :=
  ⟨⟨[], rfl⟩, by decide, rfl⟩

example : ((exSys.run exCfg [1, 1, 1, 2, 2, 2]).frames.any fun f => f.pc.isCompact) = true ∧
    (exSys.run exCfg [1, 1, 1, 2, 2, 2]).st.compacting = true ∧ 2 ≤ exCfg.maxLevels := by decide

end HappyModel.C14
