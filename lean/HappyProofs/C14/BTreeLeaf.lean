import HappyModel.C14.BTree
/-!
# B-tree, part 1: sorted association lists

`upsert` / `eraseKey` / `leafGet` / `leafScan` on a strictly sorted association list are the map
operations insert / erase / lookup / range filter, and they distribute over `l₁ ++ l₂` when the key
falls on one side of the cut.
-/
namespace HappyModel.C14.BT
open HappyModel.C14

/-- `omega` does not look through the `Key := Nat` abbreviation -/
macro "komega" : tactic => `(tactic| ((try simp only [Key] at *); omega))

def SortedKV (m : KV) : Prop := (m.map (·.1)).Pairwise (· < ·)
def inRange (lo hi : Key) (m : KV) : KV := m.filter fun e => lo ≤ e.1 && e.1 < hi
/-- every key lies in `[lo, hi)` -/
def keysIn (lo hi : Key) (m : KV) : Prop := ∀ e ∈ m, lo ≤ e.1 ∧ e.1 < hi

theorem sorted_nil : SortedKV [] := by simp [SortedKV]

theorem sorted_cons {k : Key} {v : Nat} {r : KV} :
    SortedKV ((k, v) :: r) ↔ (∀ e ∈ r, k < e.1) ∧ SortedKV r := by
  simp [SortedKV, List.pairwise_cons]

theorem sorted_append {a b : KV} :
    SortedKV (a ++ b) ↔ SortedKV a ∧ SortedKV b ∧ ∀ x ∈ a, ∀ y ∈ b, x.1 < y.1 := by
  simp only [SortedKV, List.map_append, List.pairwise_append, List.mem_map]
  constructor
  · rintro ⟨h1, h2, h3⟩
    exact ⟨h1, h2, fun x hx y hy => h3 _ ⟨x, hx, rfl⟩ _ ⟨y, hy, rfl⟩⟩
  · rintro ⟨h1, h2, h3⟩
    refine ⟨h1, h2, ?_⟩
    rintro _ ⟨x, hx, rfl⟩ _ ⟨y, hy, rfl⟩
    exact h3 x hx y hy

theorem keysIn_nil {lo hi : Key} : keysIn lo hi [] := by simp [keysIn]

theorem keysIn_append {lo hi : Key} {a b : KV} :
    keysIn lo hi (a ++ b) ↔ keysIn lo hi a ∧ keysIn lo hi b := by
  simp only [keysIn, List.mem_append]
  constructor
  · intro h; exact ⟨fun e he => h e (Or.inl he), fun e he => h e (Or.inr he)⟩
  · rintro ⟨h1, h2⟩ e (he | he)
    · exact h1 e he
    · exact h2 e he

theorem keysIn_mono {lo hi lo' hi' : Key} {m : KV} (h : keysIn lo hi m) (h1 : lo' ≤ lo) (h2 : hi ≤ hi') :
    keysIn lo' hi' m := by
  intro e he
  have := h e he
  komega

/-! ### lookup -/

theorem lookup_cons' (a k : Key) (b : Nat) (m : KV) :
    List.lookup a ((k, b) :: m) = if a = k then some b else List.lookup a m := by
  rw [List.lookup_cons]
  by_cases h : a = k
  · simp [h]
  · have : (a == k) = false := by simp [h]
    simp [this, h]

theorem lookup_none_of_lt {k : Key} : ∀ {m : KV}, (∀ e ∈ m, k < e.1) → List.lookup k m = none
  | [], _ => rfl
  | (k', v') :: r, h => by
    have h1 := h (k', v') (by simp)
    have h2 : ∀ e ∈ r, k < e.1 := fun e he => h e (by simp [he])
    rw [lookup_cons', lookup_none_of_lt h2]
    have : k ≠ k' := by simp at h1; komega
    simp [this]

theorem leafGet_eq_lookup (k : Key) : ∀ (m : KV), SortedKV m → leafGet k m = List.lookup k m
  | [], _ => rfl
  | (k', v') :: r, hs => by
    obtain ⟨h1, h2⟩ := sorted_cons.1 hs
    rw [lookup_cons']
    simp only [leafGet]
    by_cases hlt : k' < k
    · have : k ≠ k' := by komega
      simp only [hlt, if_true, this, if_false]
      exact leafGet_eq_lookup k r h2
    · by_cases heq : k' = k
      · subst heq; simp
      · have : k ≠ k' := fun h => heq h.symm
        simp only [hlt, heq, this, if_false]
        exact (lookup_none_of_lt (fun e he => by have := h1 e he; komega)).symm

/-! ### membership -/

theorem mem_upsert {k : Key} {v : Nat} {e : Key × Nat} : ∀ {m : KV}, e ∈ upsert k v m → e = (k, v) ∨ e ∈ m
  | [], h => by simpa [upsert] using h
  | (k', v') :: r, h => by
    simp only [upsert] at h
    by_cases hlt : k' < k
    · simp only [hlt, if_true, List.mem_cons] at h
      rcases h with h | h
      · simp [h]
      · rcases mem_upsert h with h | h
        · exact Or.inl h
        · simp [h]
    · by_cases heq : k' = k
      · subst heq
        simp only [hlt, if_false, if_true, List.mem_cons] at h
        rcases h with h | h
        · exact Or.inl h
        · simp [h]
      · simp only [hlt, heq, if_false, List.mem_cons] at h
        rcases h with h | h | h
        · exact Or.inl h
        · simp [h]
        · simp [h]

theorem mem_eraseKey {k : Key} {e : Key × Nat} : ∀ {m : KV}, e ∈ eraseKey k m → e ∈ m
  | [], h => by simp [eraseKey] at h
  | (k', v') :: r, h => by
    simp only [eraseKey] at h
    by_cases hlt : k' < k
    · simp only [hlt, if_true, List.mem_cons] at h
      rcases h with h | h
      · simp [h]
      · simp [mem_eraseKey h]
    · by_cases heq : k' = k
      · subst heq
        simp only [hlt, if_false, if_true] at h
        simp [h]
      · simpa only [hlt, heq, if_false] using h

theorem keysIn_upsert {lo hi k : Key} {v : Nat} {m : KV} (h : keysIn lo hi m) (h1 : lo ≤ k) (h2 : k < hi) :
    keysIn lo hi (upsert k v m) := by
  intro e he
  rcases mem_upsert he with rfl | he
  · exact ⟨h1, h2⟩
  · exact h e he

theorem keysIn_eraseKey {lo hi k : Key} {m : KV} (h : keysIn lo hi m) : keysIn lo hi (eraseKey k m) :=
  fun e he => h e (mem_eraseKey he)

/-! ### sortedness is preserved -/

theorem map_sorted_upsert (k : Key) (v : Nat) : ∀ (m : KV), SortedKV m → SortedKV (upsert k v m)
  | [], _ => by simp [upsert, SortedKV]
  | (k', v') :: r, hs => by
    obtain ⟨h1, h2⟩ := sorted_cons.1 hs
    simp only [upsert]
    by_cases hlt : k' < k
    · simp only [hlt, if_true]
      refine sorted_cons.2 ⟨?_, map_sorted_upsert k v r h2⟩
      intro e he
      rcases mem_upsert he with rfl | he
      · exact hlt
      · exact h1 e he
    · by_cases heq : k' = k
      · subst heq
        simp only [hlt, if_false, if_true]
        exact sorted_cons.2 ⟨h1, h2⟩
      · simp only [hlt, heq, if_false]
        refine sorted_cons.2 ⟨?_, hs⟩
        intro e he
        rcases List.mem_cons.1 he with rfl | he
        · show k < k'; komega
        · have := h1 e he; komega

theorem map_sorted_erase (k : Key) : ∀ (m : KV), SortedKV m → SortedKV (eraseKey k m)
  | [], _ => by simp [eraseKey, SortedKV]
  | (k', v') :: r, hs => by
    obtain ⟨h1, h2⟩ := sorted_cons.1 hs
    simp only [eraseKey]
    by_cases hlt : k' < k
    · simp only [hlt, if_true]
      exact sorted_cons.2 ⟨fun e he => h1 e (mem_eraseKey he), map_sorted_erase k r h2⟩
    · by_cases heq : k' = k
      · subst heq
        simpa only [hlt, if_false, if_true] using h2
      · simpa only [hlt, heq, if_false] using hs

/-! ### the sorted association list is a map -/

theorem map_lookup_upsert (m : KV) (_hs : SortedKV m) (k k' : Key) (v : Nat) :
    (upsert k v m).lookup k' = if k' = k then some v else m.lookup k' := by
  induction m with
  | nil => simp [upsert]
  | cons p r ih =>
    obtain ⟨k1, v1⟩ := p
    have ih := ih (sorted_cons.1 _hs).2
    simp only [upsert]
    by_cases hlt : k1 < k
    · simp only [hlt, if_true, lookup_cons', ih]
      by_cases h1 : k' = k1
      · have : k' ≠ k := by komega
        simp [h1]
        komega
      · simp [h1]
    · by_cases heq : k1 = k
      · subst heq
        simp only [hlt, if_false, if_true, lookup_cons']
        by_cases h1 : k' = k1 <;> simp [h1]
      · simp only [hlt, heq, if_false, lookup_cons']

theorem map_lookup_erase (m : KV) (hs : SortedKV m) (k k' : Key) :
    (eraseKey k m).lookup k' = if k' = k then none else m.lookup k' := by
  induction m with
  | nil => simp [eraseKey]
  | cons p r ih =>
    obtain ⟨k1, v1⟩ := p
    obtain ⟨h1, h2⟩ := sorted_cons.1 hs
    have ih := ih h2
    simp only [eraseKey]
    by_cases hlt : k1 < k
    · simp only [hlt, if_true, lookup_cons', ih]
      by_cases h3 : k' = k1
      · have : k' ≠ k := by komega
        simp [h3]
        komega
      · simp [h3]
    · by_cases heq : k1 = k
      · subst heq
        simp only [hlt, if_false, if_true, lookup_cons']
        by_cases h3 : k' = k1
        · subst h3; simpa using lookup_none_of_lt h1
        · simp [h3]
      · simp only [hlt, heq, if_false, lookup_cons']
        by_cases h3 : k' = k
        · subst h3
          have : k' ≠ k1 := fun h => heq h.symm
          simp only [this, if_false, if_true]
          exact lookup_none_of_lt (fun e he => by have := h1 e he; komega)
        · simp [h3]

/-! ### distribution over a cut -/

theorem upsert_append_left {k : Key} {v : Nat} {b : KV} (hb : ∀ e ∈ b, k < e.1) :
    ∀ (a : KV), upsert k v (a ++ b) = upsert k v a ++ b
  | [] => by
    cases b with
    | nil => rfl
    | cons p r =>
      obtain ⟨k', v'⟩ := p
      have : k < k' := hb (k', v') (by simp)
      have h1 : ¬ k' < k := by komega
      have h2 : ¬ k' = k := by komega
      simp [upsert, h1, h2]
  | (k', v') :: r => by
    simp only [List.cons_append, upsert]
    by_cases hlt : k' < k
    · simp only [hlt, if_true, upsert_append_left hb r]; rfl
    · by_cases heq : k' = k <;> simp [hlt, heq]

theorem upsert_append_right {k : Key} {v : Nat} {b : KV} :
    ∀ (a : KV), (∀ e ∈ a, e.1 < k) → upsert k v (a ++ b) = a ++ upsert k v b
  | [], _ => rfl
  | (k', v') :: r, h => by
    have hlt : k' < k := h (k', v') (by simp)
    have h2 : ∀ e ∈ r, e.1 < k := fun e he => h e (by simp [he])
    simp only [List.cons_append, upsert, hlt, if_true, upsert_append_right r h2]

theorem eraseKey_append_left {k : Key} {b : KV} (hb : ∀ e ∈ b, k < e.1) :
    ∀ (a : KV), eraseKey k (a ++ b) = eraseKey k a ++ b
  | [] => by
    cases b with
    | nil => rfl
    | cons p r =>
      obtain ⟨k', v'⟩ := p
      have : k < k' := hb (k', v') (by simp)
      have h1 : ¬ k' < k := by komega
      have h2 : ¬ k' = k := by komega
      simp [eraseKey, h1, h2]
  | (k', v') :: r => by
    simp only [List.cons_append, eraseKey]
    by_cases hlt : k' < k
    · simp only [hlt, if_true, eraseKey_append_left hb r]; rfl
    · by_cases heq : k' = k <;> simp [hlt, heq]

theorem eraseKey_append_right {k : Key} {b : KV} :
    ∀ (a : KV), (∀ e ∈ a, e.1 < k) → eraseKey k (a ++ b) = a ++ eraseKey k b
  | [], _ => rfl
  | (k', v') :: r, h => by
    have hlt : k' < k := h (k', v') (by simp)
    have h2 : ∀ e ∈ r, e.1 < k := fun e he => h e (by simp [he])
    simp only [List.cons_append, eraseKey, hlt, if_true, eraseKey_append_right r h2]

theorem leafGet_append_left {k : Key} {b : KV} (hb : ∀ e ∈ b, k < e.1) :
    ∀ (a : KV), leafGet k (a ++ b) = leafGet k a
  | [] => by
    cases b with
    | nil => rfl
    | cons p r =>
      obtain ⟨k', v'⟩ := p
      have : k < k' := hb (k', v') (by simp)
      have h1 : ¬ k' < k := by komega
      have h2 : ¬ k' = k := by komega
      simp [leafGet, h1, h2]
  | (k', v') :: r => by
    simp only [List.cons_append, leafGet]
    by_cases hlt : k' < k
    · simp only [hlt, if_true, leafGet_append_left hb r]
    · by_cases heq : k' = k <;> simp [hlt, heq]

theorem leafGet_append_right {k : Key} {b : KV} :
    ∀ (a : KV), (∀ e ∈ a, e.1 < k) → leafGet k (a ++ b) = leafGet k b
  | [], _ => rfl
  | (k', v') :: r, h => by
    have hlt : k' < k := h (k', v') (by simp)
    have h2 : ∀ e ∈ r, e.1 < k := fun e he => h e (by simp [he])
    simp only [List.cons_append, leafGet, hlt, if_true, leafGet_append_right r h2]

/-! ### sizes -/

theorem length_upsert (k : Key) (v : Nat) :
    ∀ (m : KV), (upsert k v m).length = if (leafGet k m).isNone then m.length + 1 else m.length
  | [] => rfl
  | (k', v') :: r => by
    simp only [upsert, leafGet]
    by_cases hlt : k' < k
    · simp only [hlt, if_true, List.length_cons, length_upsert k v r]
      split <;> rfl
    · by_cases heq : k' = k <;> simp [hlt, heq]

theorem length_eraseKey (k : Key) :
    ∀ (m : KV), (eraseKey k m).length = if (leafGet k m).isSome then m.length - 1 else m.length
  | [] => rfl
  | (k', v') :: r => by
    simp only [eraseKey, leafGet]
    by_cases hlt : k' < k
    · simp only [hlt, if_true, List.length_cons, length_eraseKey k r]
      cases hg : leafGet k r with
      | none => simp
      | some x =>
        have : 0 < r.length := by
          cases r with
          | nil => simp [leafGet] at hg
          | cons _ _ => simp
        simp; komega
    · by_cases heq : k' = k <;> simp [hlt, heq]

theorem eraseKey_of_get_none (k : Key) : ∀ (m : KV), leafGet k m = none → eraseKey k m = m
  | [], _ => rfl
  | (k', v') :: r, h => by
    simp only [leafGet] at h
    simp only [eraseKey]
    by_cases hlt : k' < k
    · simp only [hlt, if_true] at h
      simp only [hlt, if_true, eraseKey_of_get_none k r h]
    · by_cases heq : k' = k
      · simp [heq] at h
      · simp [hlt, heq]

/-! ### range scans -/

theorem inRange_append (lo hi : Key) (a b : KV) : inRange lo hi (a ++ b) = inRange lo hi a ++ inRange lo hi b := by
  simp [inRange, List.filter_append]

theorem inRange_nil_of_ge {lo hi a b : Key} {m : KV} (h : keysIn a b m) (hge : hi ≤ a) : inRange lo hi m = [] := by
  simp only [inRange, List.filter_eq_nil_iff]
  intro e he
  have := h e he
  simp only [Bool.and_eq_true, decide_eq_true_eq]; komega

theorem inRange_nil_of_le {lo hi a b : Key} {m : KV} (h : keysIn a b m) (hle : b ≤ lo) : inRange lo hi m = [] := by
  simp only [inRange, List.filter_eq_nil_iff]
  intro e he
  have := h e he
  simp only [Bool.and_eq_true, decide_eq_true_eq]; komega

theorem leafScan_eq_inRange (lo hi : Key) : ∀ (m : KV), SortedKV m → leafScan lo hi m = inRange lo hi m
  | [], _ => rfl
  | (k', v') :: r, hs => by
    obtain ⟨h1, h2⟩ := sorted_cons.1 hs
    have ih := leafScan_eq_inRange lo hi r h2
    simp only [leafScan, inRange] at ih ⊢
    by_cases hlt : k' < hi
    · simp only [List.takeWhile_cons, hlt, decide_true, if_true, List.filter_cons, ih, Bool.and_true]
    · have hnil : List.filter (fun e : Key × Nat => decide (lo ≤ e.1) && decide (e.1 < hi)) r = [] := by
        rw [List.filter_eq_nil_iff]
        intro e he
        have := h1 e he
        simp only [Bool.and_eq_true, decide_eq_true_eq]; komega
      simp [hlt, hnil]

end HappyModel.C14.BT
