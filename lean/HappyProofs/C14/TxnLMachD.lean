import HappyProofs.C14.TxnLMachC
/-!
# Transactions at run level, part D: the first segment of an operation preserves `RInv`
-/
namespace HappyModel.C14.SM.LM
open HappyModel.C14 HappyModel.C14.BT

variable {ok : Store → Prop} {init : Key → Option Nat} {ops : List (Nat × TOp)} {tm tm' : TM}
  {fs fs' : List (Frame TPc)} {n : Nat} {tlog : List (Nat × Ev)}

theorem RInv.done_info (R : RInv ok init ops tm fs n tlog) {i : Nat} {g : Frame TPc} {x : TOp}
    (hg : frameOf fs i = some g) (hl : ops.lookup i = some x) (hd : g.pc.isDone = true) :
    ∃ b e, g.b = some b ∧ g.e = some e ∧ b ≤ e ∧ e < n := by
  have F := R.frames i g x hg hl
  cases hb : g.b with
  | none =>
    rw [F.fresh hb] at hd
    cases hd
  | some b =>
    obtain ⟨e, h1, h2, h3⟩ := F.fin b hb hd
    exact ⟨b, e, rfl, h1, h2, h3⟩

/-- what holds when operation `(id, op)` is about to run its first segment -/
structure FirstFacts (ops : List (Nat × TOp)) (tm : TM) (fs : List (Frame TPc)) (n : Nat)
    (pre post : List (Nat × TOp)) (id : Nat) (op : TOp) : Prop where
  before : ∀ a ∈ pre, a.2.slot = op.slot →
    ∃ g b e, frameOf fs a.1 = some g ∧ g.b = some b ∧ g.pc.isDone = true ∧ g.e = some e ∧ e < n
  after : ∀ a ∈ post, a.2.slot = op.slot → startedIn fs a.1 = false
  wset : curW tm op.slot = wsetBefore ops id op.slot
  active : op.isBegin = false → ∃ tx, tm.tx? op.slot = some tx ∧ tx.stat = .active
  fresh : op.isBegin = true → tm.tx? op.slot = none

theorem RInv.first_facts (R : RInv ok init ops tm fs n tlog) (hwf : WFProg ops)
    {pre post : List (Nat × TOp)} {id : Nat} {op : TOp} {f : Frame TPc}
    (hsp : ops = pre ++ (id, op) :: post) (hf : frameOf fs id = some f) (hb : f.b = none)
    (hdone : ∀ a ∈ pre, a.2.slot = op.slot → doneIn fs a.1 = true) :
    FirstFacts ops tm fs n pre post id op := by
  have hlk : ops.lookup id = some op := lookup_of_split hwf.ids hsp
  have hns : startedIn fs id = false := not_startedIn_of hf hb
  have hfp : f.pc = .start op := (R.frames id f op hf hlk).fresh hb
  have hord := hwf.order
  rw [hsp] at hord
  obtain ⟨ord1, ord2⟩ := pairwise_split hord
  have before : ∀ a ∈ pre, a.2.slot = op.slot →
      ∃ g b e, frameOf fs a.1 = some g ∧ g.b = some b ∧ g.pc.isDone = true ∧ g.e = some e ∧ e < n := by
    intro a ha hs
    obtain ⟨g, hg, hd⟩ := doneIn_frame (hdone a ha hs)
    have hla : ops.lookup a.1 = some a.2 := mem_lookup hwf.ids (by rw [hsp]; simp [ha])
    obtain ⟨b, e, h1, h2, _, h4⟩ := R.done_info hg hla hd
    exact ⟨g, b, e, hg, h1, hd, h2, h4⟩
  have after : ∀ a ∈ post, a.2.slot = op.slot → startedIn fs a.1 = false := by
    intro a ha hs
    cases hst : startedIn fs a.1 with
    | false => rfl
    | true =>
      exfalso
      obtain ⟨g, b, hg, hgb⟩ := startedIn_frame hst
      obtain ⟨q1, q2, hq⟩ := List.append_of_mem ha
      have hsp2 : ops = (pre ++ (id, op) :: q1) ++ a :: q2 := by rw [hsp, hq]; simp
      obtain ⟨g0, e, h1, h2, _⟩ := R.seq _ a _ g b hsp2 hg hgb (id, op) (by simp) hs.symm
      rw [hf] at h1
      cases h1
      rw [hfp] at h2
      cases h2
  have startedPre : ∀ a ∈ pre, a.2.slot = op.slot → startedIn fs a.1 = true := by
    intro a ha hs
    obtain ⟨g, b, _, hg, hgb, _⟩ := before a ha hs
    exact startedIn_of hg hgb
  have hmem : ∀ x ∈ ops, x ∈ pre ∨ x = (id, op) ∨ x ∈ post := by
    intro x hx
    rw [hsp] at hx
    simpa using hx
  refine ⟨before, after, R.front pre (id, op) post hsp hns startedPre, ?_, ?_⟩
  · intro hbg
    obtain ⟨bo, hbo, hb1, hb2⟩ := hwf.begun (id, op) (by rw [hsp]; simp) hbg
    have hbpre : bo ∈ pre := by
      rcases hmem bo hbo with h | h | h
      · exact h
      · rw [h] at hb1; simp only at hb1; rw [hbg] at hb1; cases hb1
      · have := (ord2 bo h hb2.symm).1
        rw [this] at hb1; cases hb1
    obtain ⟨g, b, _, hg, hgb, _⟩ := before bo hbpre hb2
    have hlb : ops.lookup bo.1 = some bo.2 := mem_lookup hwf.ids hbo
    have K := (R.frames bo.1 g bo.2 hg hlb).kind b hgb
    obtain ⟨tx, htx⟩ : ∃ tx, tm.tx? op.slot = some tx := by
      obtain ⟨bi, bop⟩ := bo
      cases bop with
      | begin s l =>
        obtain ⟨_, _, tx, h1, _⟩ := K
        exact ⟨tx, by rw [← hb2]; exact h1⟩
      | _ => cases hb1
    refine ⟨tx, htx, ?_⟩
    cases hst : tx.stat with
    | active => rfl
    | _ =>
      all_goals
        exfalso
        obtain ⟨eo, heo, he1, he2, he3⟩ := R.stat op.slot tx htx (by rw [hst]; intro h; cases h)
        rcases hmem eo heo with h | h | h
        · have := (ord1 eo h he1).2
          rw [this] at he2; cases he2
        · rw [h] at he3; simp only at he3; rw [hns] at he3; cases he3
        · rw [after eo h he1] at he3; cases he3
  · intro hbg
    cases htx : tm.tx? op.slot with
    | none => rfl
    | some tx =>
      exfalso
      obtain ⟨bo, hbo, hb1, hb2, hb3⟩ := R.hasB op.slot tx htx
      rcases hmem bo hbo with h | h | h
      · have := (ord1 bo h hb1).1
        simp only at this
        rw [this] at hbg; cases hbg
      · rw [h] at hb3; simp only at hb3; rw [hns] at hb3; cases hb3
      · rw [after bo h hb1] at hb3; cases hb3

theorem RInv.first (R : RInv ok init ops tm fs n tlog) (hwf : WFProg ops)
    {pre post : List (Nat × TOp)} {id : Nat} {op : TOp} {f : Frame TPc} {pc' : TPc} {evs : List Ev}
    (hsp : ops = pre ++ (id, op) :: post) (hf : frameOf fs id = some f) (hb : f.b = none)
    (FF : FirstFacts ops tm fs n pre post id op)
    (E : Eff1 ok init ops tm tlog n id op tm' pc' evs)
    (hfs : ∀ id', frameOf fs' id' = if id' = id then some (Frame.next TPc.isDone f n pc') else frameOf fs id')
    (hids : fs'.map (·.id) = fs.map (·.id)) :
    RInv ok init ops tm' fs' (n + 1) (tlog ++ evs.map fun e => (n, e)) := by
  have hlk : ops.lookup id = some op := lookup_of_split hwf.ids hsp
  have hfp : f.pc = .start op := (R.frames id f op hf hlk).fresh hb
  have hnd : ((pre ++ (id, op) :: post).map (·.1)).Nodup := hsp ▸ hwf.ids
  have hf'b : (Frame.next TPc.isDone f n pc').b = some n := by simp [Frame.next, hb]
  have hself : frameOf fs' id = some (Frame.next TPc.isDone f n pc') := by rw [hfs, if_pos rfl]
  have hoth : ∀ i, i ≠ id → frameOf fs' i = frameOf fs i := fun i hi => by rw [hfs, if_neg hi]
  have hst' : startedIn fs' id = true := startedIn_of hself hf'b
  have hsto : ∀ i, i ≠ id → startedIn fs' i = startedIn fs i := fun i hi => by
    simp only [startedIn, hoth i hi]
  have hmono : ∀ i, startedIn fs i = true → startedIn fs' i = true := fun i hi => by
    by_cases h : i = id
    · rw [h]; exact hst'
    · rw [hsto i h]; exact hi
  have hsub : ∀ x ∈ tlog, x ∈ tlog ++ evs.map fun e => (n, e) := fun x hx => List.mem_append_left _ hx
  have hidop : ∀ a ∈ ops, a.1 = id → a.2 = op := fun a ha hi => by
    have := mem_lookup hwf.ids ha
    rw [hi, hlk] at this
    exact (Option.some.inj this).symm
  obtain ⟨T1, T2⟩ := times_snoc R.times R.tlt E.one
  refine
    { inv := by rw [log_map_snd]; exact E.inv
      inv2 := by rw [log_map_snd]; exact E.inv2
      times := T1
      tlt := T2
      ids := by rw [hids]; exact R.ids
      frames := fun i g x hg hx => ?_
      seq := fun pre1 o1 post1 f1 b1 hsp1 hf1 hb1 a ha hs => ?_
      front := fun pre1 o1 post1 hsp1 hns1 hpre1 => ?_
      stat := fun s tx htx hna => ?_
      hasB := fun s tx htx => ?_
      cev := fun m s w hm => ?_ }
  · by_cases hi : i = id
    · subst hi
      rw [hself] at hg
      cases hg
      rw [hlk] at hx
      cases hx
      refine ⟨fun h => ?_, fun b h => ?_, fun b h hd => ?_, fun b h => ?_⟩
      · rw [hf'b] at h; cases h
      · rw [hf'b] at h; cases h; exact Nat.lt_succ_self _
      · rw [hf'b] at h; cases h
        have hd' : pc'.isDone = true := hd
        exact ⟨n, by simp [Frame.next, hd'], Nat.le_refl _, Nat.lt_succ_self _⟩
      · rw [hf'b] at h; cases h
        exact E.pc _ rfl rfl
    · rw [hoth i hi] at hg
      exact (R.frames i g x hg hx).mono E.upd.le hsub (Nat.le_succ n)
  · by_cases hi : o1.1 = id
    · obtain ⟨r1, r2, r3⟩ := split_unique hnd (hsp ▸ hsp1) hi.symm
      subst r1 r3
      rw [← r2] at hs
      rw [hi, hself] at hf1
      cases hf1
      rw [hf'b] at hb1
      cases hb1
      obtain ⟨g, b, e, hg, _, hd, he, hlt⟩ := FF.before a ha hs
      have hne : a.1 ≠ id := (split_notin hnd).1 a ha
      exact ⟨g, e, by rw [hoth _ hne]; exact hg, hd, he, hlt⟩
    · rw [hoth _ hi] at hf1
      obtain ⟨g, e, hg, hd, he, hlt⟩ := R.seq pre1 o1 post1 f1 b1 hsp1 hf1 hb1 a ha hs
      have hne : a.1 ≠ id := fun h => by
        rw [h, hf] at hg
        cases hg
        rw [hfp] at hd
        cases hd
      exact ⟨g, e, by rw [hoth _ hne]; exact hg, hd, he, hlt⟩
  · have hne : o1.1 ≠ id := fun h => by rw [h, hst'] at hns1; cases hns1
    rw [hsto _ hne] at hns1
    have ho1 : o1 ∈ ops := by rw [hsp1]; simp
    by_cases hs : o1.2.slot = op.slot
    · have hin : (id, op) ∈ pre1 ∨ (id, op) = o1 ∨ (id, op) ∈ post1 := by
        have : (id, op) ∈ ops := by rw [hsp]; simp
        rw [hsp1] at this
        simpa using this
      rcases hin with h | h | h
      · obtain ⟨p1, mid, hp⟩ := List.append_of_mem h
        have hsp2 : pre ++ (id, op) :: post = p1 ++ (id, op) :: (mid ++ o1 :: post1) := by
          rw [← hsp, hsp1, hp]; simp
        obtain ⟨r1, _, r3⟩ := split_unique hnd hsp2 rfl
        subst r1
        have hmid : ∀ a ∈ mid, a.2.slot ≠ op.slot := by
          intro a ha hsa
          have h1 := hpre1 a (by rw [hp]; simp [ha]) (by rw [hsa, hs])
          have hane : a.1 ≠ id := (split_notin hnd).2 a (by rw [r3]; simp [ha])
          rw [hsto _ hane, FF.after a (by rw [r3]; simp [ha]) hsa] at h1
          cases h1
        rw [hs, wsetBefore_split hwf.ids hsp1, hp, List.foldl_append, List.foldl_cons,
          foldl_wstep_none _ _ _ hmid, wstep_eq, if_pos rfl, ← wsetBefore_split hwf.ids hsp, ← FF.wset]
        exact E.upd.w
      · exact absurd (by rw [← h]) hne
      · obtain ⟨q1, q2, hq⟩ := List.append_of_mem h
        have hsp2 : pre ++ (id, op) :: post = (pre1 ++ o1 :: q1) ++ (id, op) :: q2 := by
          rw [← hsp, hsp1, hq]; simp
        obtain ⟨r1, _, _⟩ := split_unique hnd hsp2 rfl
        obtain ⟨g, b, _, hg, hgb, _⟩ := FF.before o1 (by rw [r1]; simp) hs
        rw [startedIn_of hg hgb] at hns1
        cases hns1
    · rw [E.upd.w_other hs]
      refine R.front pre1 o1 post1 hsp1 hns1 fun a ha hsa => ?_
      have hane : a.1 ≠ id := fun h => by
        have := hidop a (by rw [hsp1]; simp [ha]) h
        rw [this] at hsa
        exact hs hsa.symm
      rw [← hsto _ hane]
      exact hpre1 a ha hsa
  · by_cases hs : s = op.slot
    · subst hs
      cases he : op.isEnd with
      | true => exact ⟨(id, op), by rw [hsp]; simp, rfl, he, hst'⟩
      | false => exact absurd (E.upd.act tx htx he) hna
    · rw [E.upd.other hs] at htx
      obtain ⟨o, h1, h2, h3, h4⟩ := R.stat s tx htx hna
      exact ⟨o, h1, h2, h3, hmono _ h4⟩
  · by_cases hs : s = op.slot
    · subst hs
      cases hbg : op.isBegin with
      | true => exact ⟨(id, op), by rw [hsp]; simp, rfl, hbg, hst'⟩
      | false =>
        obtain ⟨tx0, h0, _⟩ := FF.active hbg
        obtain ⟨o, h1, h2, h3, h4⟩ := R.hasB _ tx0 h0
        exact ⟨o, h1, h2, h3, hmono _ h4⟩
    · rw [E.upd.other hs] at htx
      obtain ⟨o, h1, h2, h3, h4⟩ := R.hasB s tx htx
      exact ⟨o, h1, h2, h3, hmono _ h4⟩
  · rcases List.mem_append.1 hm with hm | hm
    · obtain ⟨i, g, h1, h2, h3, h4, h5⟩ := R.cev m s w hm
      have hne : i ≠ id := fun h => by
        rw [h, hf] at h1
        cases h1
        rw [hb] at h3
        cases h3
      exact ⟨i, g, by rw [hoth _ hne]; exact h1, h2, h3, h4, h5⟩
    · obtain ⟨rfl, hev⟩ := mem_tag hm
      obtain ⟨h1, h2, h3⟩ := E.cev s w hev
      exact ⟨id, _, hself, by rw [hlk, h1], hf'b, .inl (by simp [Frame.next, h2]), h3⟩

end HappyModel.C14.SM.LM
