import HappyProofs.C14.TxnMach
import HappyProofs.C14.TxnTraceA
/-!
# C14 — `txn_trace_satisfies_spec`: the Spec judge accepts the transcript of every run of the transaction manager

For every program of transactions (`WFProg`: distinct ids, each slot begins once and first, nothing after its
commit/abort), every initial contents, a KVStore or a B-tree of order ≥ 3 as the store, and every schedule of
generator segments in which the operations of one transaction run one after the other (`SlotSeq`: one client per
transaction; operations of DIFFERENT transactions interleave arbitrarily, in particular a read may be suspended
in the store's `get` while other transactions commit) and that runs every started operation to completion
(`Quiesced`), the judge `TxSpec.judgeTxn` accepts the model's own transcript: own writes are returned, the final
store is the serial replay of the committed write sets in commit order, the committed SERIALIZABLE transactions
read the serial state just before their commit, and every SNAPSHOT_ISOLATION transaction read one snapshot.
-/
namespace HappyModel.C14.SM
open HappyModel.C14 HappyModel.C14.BT HappyModel.C14.TxSpec

/-- generic form: any store obeying the map laws whose `get` generator acts in one segment -/
theorem txn_trace_satisfies_spec_gen (ok : Store → Prop) (ok_put : ∀ s k v, ok s → ok (s.putSync k v))
    (get_put : ∀ s k v k', ok s → (s.putSync k v).getSync k' = if k' = k then some v else s.getSync k')
    (nolsm : ∀ s, ok s → ∀ op, lsmStart s op = none)
    (s00 : Store) (h0 : ok s00) (he : ∀ k, s00.getSync k = none) (initKV : List (Key × Nat)) (nkeys : Nat)
    (ops : List (Nat × TOp)) (sched : List Nat) (hwf : WFProg ops)
    (hseq : SlotSeq ops { store := initKV.foldl (fun s e => s.putSync e.1 e.2) s00 } sched)
    (hq : Quiesced (runFrames stepT TPc.isDone { store := initKV.foldl (fun s e => s.putSync e.1 e.2) s00 }
      (framesOfT ops) 0 sched).2) :
    judgeTxn (initKV.foldl (fun s e => setKey e.1 e.2 s) []) nkeys
      ((List.range nkeys).map (runFrames stepT TPc.isDone { store := initKV.foldl (fun s e => s.putSync e.1 e.2) s00 }
        (framesOfT ops) 0 sched).1.store.getSync)
      (tobsOf ops (runFrames stepT TPc.isDone { store := initKV.foldl (fun s e => s.putSync e.1 e.2) s00 }
        (framesOfT ops) 0 sched).2) = none := by
  obtain ⟨hok, hl⟩ := init_lookup ok ok_put get_put initKV s00 [] h0 (fun k => by rw [he]; rfl)
  exact txn_trace_of_mach ok ops _ sched nkeys _ hwf hl
    (machFacts_run ok ok_put get_put nolsm _ hok ops sched hwf hseq hq)

/-- KVStore or B-tree of order ≥ 3 (`SOk`), initially empty -/
theorem txn_trace_satisfies_spec (s00 : Store) (h0 : SOk s00) (he : s00.contents = []) (initKV : List (Key × Nat))
    (nkeys : Nat) (ops : List (Nat × TOp)) (sched : List Nat) (hwf : WFProg ops)
    (hseq : SlotSeq ops { store := initKV.foldl (fun s e => s.putSync e.1 e.2) s00 } sched)
    (hq : Quiesced (runFrames stepT TPc.isDone { store := initKV.foldl (fun s e => s.putSync e.1 e.2) s00 }
      (framesOfT ops) 0 sched).2) :
    judgeTxn (initKV.foldl (fun s e => setKey e.1 e.2 s) []) nkeys
      ((List.range nkeys).map (runFrames stepT TPc.isDone { store := initKV.foldl (fun s e => s.putSync e.1 e.2) s00 }
        (framesOfT ops) 0 sched).1.store.getSync)
      (tobsOf ops (runFrames stepT TPc.isDone { store := initKV.foldl (fun s e => s.putSync e.1 e.2) s00 }
        (framesOfT ops) 0 sched).2) = none :=
  txn_trace_satisfies_spec_gen SOk sok_laws.1 sok_laws.2 (fun s h op => sok_nolsm h op) s00 h0
    (fun k => by rw [sok_get h0, he]; rfl) initKV nkeys ops sched hwf hseq hq

/-- transactions over a KVStore -/
theorem txn_trace_satisfies_spec_kv (initKV : List (Key × Nat)) (nkeys : Nat) (ops : List (Nat × TOp))
    (sched : List Nat) (hwf : WFProg ops)
    (hseq : SlotSeq ops { store := initKV.foldl (fun s e => s.putSync e.1 e.2) (.kv []) } sched)
    (hq : Quiesced (runFrames stepT TPc.isDone { store := initKV.foldl (fun s e => s.putSync e.1 e.2) (.kv []) }
      (framesOfT ops) 0 sched).2) :
    judgeTxn (initKV.foldl (fun s e => setKey e.1 e.2 s) []) nkeys
      ((List.range nkeys).map (runFrames stepT TPc.isDone { store := initKV.foldl (fun s e => s.putSync e.1 e.2) (.kv []) }
        (framesOfT ops) 0 sched).1.store.getSync)
      (tobsOf ops (runFrames stepT TPc.isDone { store := initKV.foldl (fun s e => s.putSync e.1 e.2) (.kv []) }
        (framesOfT ops) 0 sched).2) = none :=
  txn_trace_satisfies_spec _ sok_kv_nil rfl initKV nkeys ops sched hwf hseq hq

/-- transactions over a B-tree of order ≥ 3 (a read pays one page-read segment per level of the tree as it was
    when the read started, while other transactions commit and split nodes) -/
theorem txn_trace_satisfies_spec_btree (order : Nat) (ho : 3 ≤ order) (initKV : List (Key × Nat)) (nkeys : Nat)
    (ops : List (Nat × TOp)) (sched : List Nat) (hwf : WFProg ops)
    (hseq : SlotSeq ops { store := initKV.foldl (fun s e => s.putSync e.1 e.2) (.bt { order := order }) } sched)
    (hq : Quiesced (runFrames stepT TPc.isDone
      { store := initKV.foldl (fun s e => s.putSync e.1 e.2) (.bt { order := order }) } (framesOfT ops) 0 sched).2) :
    judgeTxn (initKV.foldl (fun s e => setKey e.1 e.2 s) []) nkeys
      ((List.range nkeys).map (runFrames stepT TPc.isDone
        { store := initKV.foldl (fun s e => s.putSync e.1 e.2) (.bt { order := order }) } (framesOfT ops) 0 sched).1.store.getSync)
      (tobsOf ops (runFrames stepT TPc.isDone
        { store := initKV.foldl (fun s e => s.putSync e.1 e.2) (.bt { order := order }) } (framesOfT ops) 0 sched).2) = none :=
  txn_trace_satisfies_spec _ (sok_bt order ho) rfl initKV nkeys ops sched hwf hseq hq

/-! ### non-vacuity: an order-3 B-tree; a SNAPSHOT_ISOLATION reader whose first read is suspended in the tree's
    page reads while a SERIALIZABLE writer commits an overwrite of that key and an insert -/

def trOps : List (Nat × TOp) :=
  [(1, .begin 0 .si), (2, .begin 1 .ser), (3, .read 0 0), (4, .write 1 0 99), (5, .write 1 3 77), (6, .commit 1),
   (7, .read 0 3), (8, .commit 0)]

def trSched : List Nat := [1, 1, 2, 2, 3, 4, 4, 5, 5, 6, 6, 3, 3, 7, 7, 7, 8, 8]

def trInit : List (Key × Nat) := [(0, 10), (1, 11), (2, 12)]

def trTm : TM := { store := trInit.foldl (fun s e => s.putSync e.1 e.2) (.bt { order := 3 }) }

example : WFProg trOps := ⟨by decide, by decide, by decide⟩

example : slotSeqB trOps trTm trSched = true := by decide

example : (runFrames stepT TPc.isDone trTm (framesOfT trOps) 0 trSched).2.all (fun f => f.pc.isDone) = true := by decide

/-- the reader's read of key 0 ran over segments 4–12, across the writer's commit at 9, and returned the snapshot
    value 10; key 3, inserted by that commit, is absent from the reader's snapshot; the tree grew to depth 2 -/
example :
    (tobsOf trOps (runFrames stepT TPc.isDone trTm (framesOfT trOps) 0 trSched).2).map
      (fun t => (t.slot, t.committed, t.commitPos)) = [(0, true, 16), (1, true, 9)] ∧
    (tobsOf trOps (runFrames stepT TPc.isDone trTm (framesOfT trOps) 0 trSched).2).map (·.ext) =
      [[(0, some 10, 12), (3, none, 15)], []] ∧
    (tobsOf trOps (runFrames stepT TPc.isDone trTm (framesOfT trOps) 0 trSched).2).map (·.wset) =
      [[], [(0, 99), (3, 77)]] ∧
    (List.range 4).map (runFrames stepT TPc.isDone trTm (framesOfT trOps) 0 trSched).1.store.getSync =
      [some 99, some 11, some 12, some 77] := by
  refine ⟨by decide, by decide, by decide, by decide⟩

end HappyModel.C14.SM
