import HappyProofs.C14.Basic
/-! The compaction merge answers every key like a read through the merged tables. -/
namespace HappyModel.C14

/-- keys of a payload are pairwise distinct (a Python dict / a sorted SSTable) -/
def Uniq (d : Data) : Prop := (d.map (·.1)).Nodup

instance (d : Data) : Decidable (Uniq d) := by unfold Uniq; infer_instance

theorem lookup_none_of_not_mem (k : Key) (d : Data) (h : k ∉ d.map (·.1)) : d.lookup k = none := by
  induction d with
  | nil => rfl
  | cons e r ih =>
    simp only [List.map_cons, List.mem_cons, not_or] at h
    have : (k == e.1) = false := by simp [h.1]
    simp [List.lookup, this, ih h.2]

theorem lookup_mergeNewer (k : Key) (base newer : Data) (hu : Uniq newer) :
    (mergeNewer base newer).lookup k = match newer.lookup k with
      | some c => some c
      | none => base.lookup k := by
  unfold mergeNewer
  induction newer generalizing base with
  | nil => rfl
  | cons e r ih =>
    have hu' : Uniq r := (List.nodup_cons.mp hu).2
    have hne : e.1 ∉ r.map (·.1) := (List.nodup_cons.mp hu).1
    simp only [List.foldl_cons]
    rw [ih _ hu', lookup_ins]
    by_cases h : k = e.1
    · subst h
      simp [List.lookup, lookup_none_of_not_mem _ r hne]
    · have : (k == e.1) = false := by simp [h]
      simp [List.lookup, this, h]

theorem lookup_mergeOlder (k : Key) (base older : Data) :
    (mergeOlder base older).lookup k = match base.lookup k with
      | some c => some c
      | none => older.lookup k := by
  unfold mergeOlder
  induction older generalizing base with
  | nil => simp; cases base.lookup k <;> rfl
  | cons e r ih =>
    simp only [List.foldl_cons]
    rw [ih]
    by_cases hb : (base.lookup e.1).isSome
    · simp only [hb, if_true]
      cases hk : base.lookup k with
      | some c => rfl
      | none =>
        have : (k == e.1) = false := by
          cases h : (k == e.1) with
          | false => rfl
          | true =>
            have : k = e.1 := by simpa using h
            subst this; simp [hk] at hb
        simp [List.lookup, this]
    · simp only [hb, Bool.false_eq_true, if_false]
      rw [lookup_ins]
      by_cases h : k = e.1
      · have hn : base.lookup e.1 = none := by
          cases hh : base.lookup e.1 with
          | none => rfl
          | some c => rw [hh] at hb; simp at hb
        simp only [h, if_true, hn]
        simp [List.lookup]
      · have : (k == e.1) = false := by simp [h]
        simp [h, List.lookup, this]

theorem lookup_mergeSources_acc (k : Key) (S : List Tab) (acc : Data) (hu : ∀ t ∈ S, Uniq t.data) :
    (S.foldl (fun acc t => mergeNewer acc t.data) acc).lookup k = match lookTabs k S.reverse with
      | some c => some c
      | none => acc.lookup k := by
  induction S generalizing acc with
  | nil => rfl
  | cons t r ih =>
    simp only [List.foldl_cons, List.reverse_cons, lookTabs_append, lookTabs]
    rw [ih _ (fun x hx => hu x (List.mem_cons_of_mem _ hx)), lookup_mergeNewer _ _ _ (hu t (List.mem_cons_self ..))]
    cases lookTabs k r.reverse with
    | some c => rfl
    | none => simp only; cases t.data.lookup k <;> rfl

theorem lookup_mergeOverlap (k : Key) (m : Data) (O : List Tab) :
    (mergeOverlap m O).lookup k = match m.lookup k with
      | some c => some c
      | none => lookTabs k O := by
  unfold mergeOverlap
  induction O generalizing m with
  | nil => simp [lookTabs]; cases m.lookup k <;> rfl
  | cons t r ih =>
    simp only [List.foldl_cons, lookTabs]
    rw [ih, lookup_mergeOlder]
    cases m.lookup k with
    | some c => rfl
    | none => simp only; cases t.data.lookup k <;> rfl

end HappyModel.C14
