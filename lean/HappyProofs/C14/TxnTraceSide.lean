import HappyProofs.C14.TxnLMach
import HappyProofs.C14.TxnTraceA
import HappyProofs.C14.TxnLsmGet
/-!
# `txn_trace_satisfies_spec` for any store whose suspended `get`s obey a side invariant

`txn_trace_satisfies_spec_side`: the run-level transaction theorem with the hypothesis "the store's `get` acts in
one segment" (`nolsm`) replaced by a side invariant `J` of the manager and the frames such that (1) a read that
completes in its first segment, (2) a suspended read that completes, returns `fetchVal` of the state at that
segment, (3) `J` is preserved by every segment of a run satisfying the run invariant, (4) `J` holds initially.
For `J := True`-like invariants of the KVStore / B-tree this is `txn_trace_satisfies_spec_gen`; for the LSM store
the ingredients of such a `J` (reader invariant `RB` with allowed cells `SV`) are `applyWrites_rb` and `sv_commit`
of `TxnLsmGet.lean`.
-/
namespace HappyModel.C14.SM.LM
open HappyModel.C14 HappyModel.C14.BT HappyModel.C14.TxSpec

theorem txn_trace_satisfies_spec_side (ok : Store → Prop) (ok_put : ∀ s k v, ok s → ok (s.putSync k v))
    (get_put : ∀ s k v k', ok s → (s.putSync k v).getSync k' = if k' = k then some v else s.getSync k')
    (s00 : Store) (h0 : ok s00) (he : ∀ k, s00.getSync k = none) (initKV : List (Key × Nat)) (nkeys : Nat)
    (ops : List (Nat × TOp)) (sched : List Nat) (hwf : WFProg ops)
    (hseq : SlotSeq ops { store := initKV.foldl (fun s e => s.putSync e.1 e.2) s00 } sched)
    (J : TM → List (Frame TPc) → Prop)
    (hJ1 : ∀ tm fs, J tm fs → ∀ s k r, (readAdvance (tm.readStart s k) s k (.start (.get k))).2 = .done r →
      r = .val (fetchVal (tm.readStart s k) s k))
    (hJ2 : ∀ tm fs, J tm fs → ∀ id f, frameOf fs id = some f → ∀ s k p, f.pc = .rd s k p →
      ∀ r, (readAdvance tm s k p).2 = .done r → r = .val (fetchVal tm s k))
    (hJs : ∀ tm fs n tlog id,
      RInv ok (initKV.foldl (fun s e => s.putSync e.1 e.2) s00).getSync ops tm fs n tlog → J tm fs →
      (∀ pre o post, o.1 = id → ops = pre ++ o :: post → ∀ a ∈ pre, a.2.slot = o.2.slot → doneIn fs a.1 = true) →
      J (stepFrames stepT TPc.isDone tm n id fs).1 (stepFrames stepT TPc.isDone tm n id fs).2)
    (hJ0 : J { store := initKV.foldl (fun s e => s.putSync e.1 e.2) s00 } (framesOfT ops))
    (hq : Quiesced (runFrames stepT TPc.isDone { store := initKV.foldl (fun s e => s.putSync e.1 e.2) s00 }
      (framesOfT ops) 0 sched).2) :
    judgeTxn (initKV.foldl (fun s e => setKey e.1 e.2 s) []) nkeys
      ((List.range nkeys).map (runFrames stepT TPc.isDone { store := initKV.foldl (fun s e => s.putSync e.1 e.2) s00 }
        (framesOfT ops) 0 sched).1.store.getSync)
      (tobsOf ops (runFrames stepT TPc.isDone { store := initKV.foldl (fun s e => s.putSync e.1 e.2) s00 }
        (framesOfT ops) 0 sched).2) = none := by
  obtain ⟨hok, hl⟩ := init_lookup ok ok_put get_put initKV s00 [] h0 (fun k => by rw [he]; rfl)
  exact txn_trace_of_mach ok ops _ sched nkeys _ hwf hl
    (machFacts_run ok ok_put get_put _ hok ops sched hwf hseq J hJ1 hJ2 hJs hJ0 hq)

/-- for a store whose `get` is `.wait (.get k) j` (KVStore, B-tree) obligation (2) holds outright -/
theorem fetch_of_wait (tm : TM) (s : Nat) (k : Key) (j : Nat) (r : SRes)
    (h : (readAdvance tm s k (.wait (.get k) j)).2 = .done r) : r = .val (fetchVal tm s k) := by
  cases j with
  | zero =>
    rw [readAdvance_fetch] at h
    injection h with h
    exact h.symm
  | succ j =>
    rw [readAdvance_wait_succ] at h
    cases h

end HappyModel.C14.SM.LM
