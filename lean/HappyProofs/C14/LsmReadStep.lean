import HappyProofs.C14.LsmReadOther
/-! One segment of another frame keeps a suspended reader within its (growing) set of allowed cells. -/
namespace HappyModel.C14

/-- reader for `k` at level `i` with remaining snapshot `snap`; `found` is what a scan already holds for `k` -/
def RInv (s : St) (k : Key) (i : Nat) (snap : List Tab) (found : Option Cell) (Al : Cell → Prop) : Prop :=
  match found with
  | some c => Al c
  | none => RB s.mem s.imms s.levels k i snap Al

theorem RInv.mono {s : St} {k : Key} {i : Nat} {snap : List Tab} {found : Option Cell} {Al Al' : Cell → Prop}
    (h : RInv s k i snap found Al) (hm : ∀ c, Al c → Al' c) : RInv s k i snap found Al' := by
  cases found with
  | some c => exact hm c h
  | none => exact RB.mono h hm

theorem RInv.congr {s s' : St} {k : Key} {i : Nat} {snap : List Tab} {found : Option Cell} {Al : Cell → Prop}
    (h : RInv s k i snap found Al) (e1 : s'.mem = s.mem) (e2 : s'.imms = s.imms) (e3 : s'.levels = s.levels) :
    RInv s' k i snap found Al := by
  cases found with
  | some c => exact h
  | none => unfold RInv at h ⊢; simp only at h ⊢; rw [e1, e2, e3]; exact h

theorem rinv_memInsert {s : St} {k : Key} {i : Nat} {snap : List Tab} {found : Option Cell} {Al : Cell → Prop}
    (h : RInv s k i snap found Al) (k' : Key) (c' : Cell) :
    RInv (memInsert s k' c').1 k i snap found (fun c => Al c ∨ (k' = k ∧ c = c')) := by
  cases found with
  | some c => exact Or.inl h
  | none => exact rb_ins h k' c'

theorem compactStart_triple (cfg : Cfg) (s : St) :
    (compactStart cfg s).1.mem = s.mem ∧ (compactStart cfg s).1.imms = s.imms ∧ (compactStart cfg s).1.levels = s.levels := by
  unfold compactStart
  split
  · exact ⟨rfl, rfl, rfl⟩
  · split
    · exact ⟨rfl, rfl, rfl⟩
    · split <;> exact ⟨rfl, rfl, rfl⟩

theorem rinv_other {cfg : Cfg} {s : St} {pc : Pc} (hs : SInv cfg s) (hp : POk cfg s pc) {k : Key} {i : Nat}
    {snap : List Tab} {found : Option Cell} {Al : Cell → Prop} (hR : RInv s k i snap found Al) :
    RInv (stepOp cfg s pc).1 k i snap found (fun c => Al c ∨ ∃ q, insOf cfg s pc = some (k, c, q)) := by
  have same : ∀ s' : St, s'.mem = s.mem → s'.imms = s.imms → s'.levels = s.levels →
      RInv s' k i snap found (fun c => Al c ∨ ∃ q, insOf cfg s pc = some (k, c, q)) :=
    fun s' e1 e2 e3 => (hR.mono fun c hc => Or.inl hc).congr e1 e2 e3
  cases pc with
  | pStart k' c' =>
    rcases hw : cfg.wal with _ | p
    · have e : (stepOp cfg s (.pStart k' c')).1 = (memInsert s k' c').1 := by simp [stepOp, putStart, hw]
      rw [e]
      refine (rinv_memInsert hR k' c').mono ?_
      rintro c (h | ⟨rfl, rfl⟩)
      · exact Or.inl h
      · exact Or.inr ⟨0, by simp [insOf, hw]⟩
    · exact same _ (by simp [stepOp, putStart, hw]) (by simp [stepOp, putStart, hw]) (by simp [stepOp, putStart, hw])
  | pWal k' c' q =>
    rcases hw : cfg.wal with _ | p
    · have e : (stepOp cfg s (.pWal k' c' q)).1 = (memInsert s k' c').1 := by simp [stepOp, walWritten, hw]
      rw [e]
      refine (rinv_memInsert hR k' c').mono ?_
      rintro c (h | ⟨rfl, rfl⟩)
      · exact Or.inl h
      · exact Or.inr ⟨q, by simp [insOf, hw]⟩
    · obtain ⟨e1, e2, e3⟩ := shouldSync_fields p s
      by_cases hb : (shouldSync p s).1 = true
      · have e : (stepOp cfg s (.pWal k' c' q)).1 = (shouldSync p s).2 := by simp [stepOp, walWritten, hw, hb]
        rw [e]; exact same _ e1 e2 e3
      · have e : (stepOp cfg s (.pWal k' c' q)).1 = (memInsert (unpend (shouldSync p s).2 q) k' c').1 := by
          simp [stepOp, walWritten, hw, hb]
        rw [e]
        have hR' : RInv (unpend (shouldSync p s).2 q) k i snap found Al := hR.congr e1 e2 e3
        refine (rinv_memInsert hR' k' c').mono ?_
        rintro c (h | ⟨rfl, rfl⟩)
        · exact Or.inl h
        · exact Or.inr ⟨q, by simp [insOf, hw, hb]⟩
  | pSync k' c' q =>
    have hR' : RInv (unpend { s with synced := q, wss := 0 } q) k i snap found Al := hR.congr rfl rfl rfl
    show RInv (memInsert (unpend { s with synced := q, wss := 0 } q) k' c').1 k i snap found _
    refine (rinv_memInsert hR' k' c').mono ?_
    rintro c (h | ⟨rfl, rfl⟩)
    · exact Or.inl h
    · exact Or.inr ⟨q, rfl⟩
  | pMem mid =>
    show RInv (afterMem cfg s mid).1 k i snap found _
    unfold afterMem
    split
    · unfold flushStart
      split
      · exact same s rfl rfl rfl
      · cases found with
        | some c => exact Or.inl hR
        | none =>
          have := rb_freeze (RB.mono hR (Al' := fun c => Al c ∨ ∃ q, insOf cfg s (.pMem mid) = some (k, c, q)) fun c hc => Or.inl hc) s.memId
          exact this
    · exact same s rfl rfl rfl
  | pFlush t b =>
    show RInv (flushInstall cfg s t b).1 k i snap found _
    rw [flushInstall_eq]
    have hlen : 0 < s.levels.length := by rw [hs.lv.len]; have := hs.lv.two; omega
    have h1 : RInv (flushS1 cfg s t b) k i snap found (fun c => Al c ∨ ∃ q, insOf cfg s (.pFlush t b) = some (k, c, q)) := by
      cases found with
      | some c => exact Or.inl hR
      | none => exact rb_install0 (RB.mono hR fun c hc => Or.inl hc) hp hlen _
    split
    · obtain ⟨e1, e2, e3⟩ := compactStart_triple cfg (flushS1 cfg s t b)
      exact h1.congr e1 e2 e3
    · exact h1
  | pCompact j =>
    show RInv (compactInstall s j).1 k i snap found _
    cases found with
    | some c => exact Or.inl hR
    | none => exact rb_compact (RB.mono hR fun c hc => Or.inl hc) hs.lv hp.1 s.nextId
  | gStart k' => show RInv (getStart cfg s k').1 _ _ _ _ _; rw [(getStart_plain cfg s k').1]; exact same s rfl rfl rfl
  | gAt k' i' t r => show RInv (getResume cfg s k' i' t r).1 _ _ _ _ _; rw [(getResume_plain cfg s k' i' t r).1]; exact same s rfl rfl rfl
  | sStart lo hi => show RInv (scanStart s lo hi).1 _ _ _ _ _; rw [(scanStart_plain s lo hi).1]; exact same s rfl rfl rfl
  | sAt lo hi i' t r acc =>
    show RInv (scanResume s lo hi i' t r acc).1 _ _ _ _ _
    rw [(scanResume_plain s lo hi i' t r acc).1]; exact same s rfl rfl rfl
  | done r => exact same s rfl rfl rfl

end HappyModel.C14
