import HappyModel.C14.Driver
import HappyProofs.C14.LsmSem
/-! Observations of a model run in the vocabulary of the Spec. -/
namespace HappyModel.C14

/-- observations of a model run, in the vocabulary of the Spec -/
def obsOf (ops : List (Nat × OKind)) (y : Sys) : List ORec :=
  y.frames.filterMap fun f =>
    match f.b, ops.lookup f.id with
    | some b, some kind =>
      some { id := f.id, kind := kind, b := b, e := f.e,
             got := match f.pc with | .done (.val c) => c | _ => none,
             rows := match f.pc with | .done (.rows d) => d | _ => [] }
    | _, _ => none

def DistinctPuts (ops : List (Nat × OKind)) : Prop :=
  (ops.map (·.1)).Nodup ∧
  (ops.filterMap fun o => match o.2 with | .put _ v => some v | _ => none).Nodup

/-- the start program counter of operation `id` of the workload -/
def startFor (ops : List (Nat × OKind)) (id : Nat) : Pc :=
  match ops.lookup id with
  | some kind => Driver.startPc kind
  | none => .done .ok

/-- the initial system of a workload -/
def sysOf (cfg : Cfg) (oracle : List Bool) (ops : List (Nat × OKind)) : Sys :=
  { st := St.init cfg oracle, frames := ops.map fun o => { id := o.1, pc := Driver.startPc o.2 } }

theorem lookup_of_mem_nodup {ops : List (Nat × OKind)} (hn : (ops.map (·.1)).Nodup) {o : Nat × OKind} (ho : o ∈ ops) :
    ops.lookup o.1 = some o.2 := by
  induction ops with
  | nil => cases ho
  | cons x r ih =>
    simp only [List.map_cons, List.nodup_cons] at hn
    rcases List.mem_cons.mp ho with rfl | ho'
    · simp [List.lookup]
    · have : (o.1 == x.1) = false := by
        simp only [beq_eq_false_iff_ne, ne_eq]
        intro e
        exact hn.1 (e ▸ List.mem_map_of_mem ho')
      obtain ⟨x1, x2⟩ := x
      simp only [List.lookup, this]
      exact ih hn.2 ho'

theorem startPc_isStart (k : OKind) : (Driver.startPc k).isStart = true := by cases k <;> rfl

/-- the initial system of a workload is initial, and `startFor` names its program counters -/
theorem sysOf_init (cfg : Cfg) (oracle : List Bool) (ops : List (Nat × OKind)) : InitSys cfg (sysOf cfg oracle ops) := by
  refine ⟨⟨oracle, rfl⟩, ?_, rfl⟩
  intro f hf
  obtain ⟨o, _, rfl⟩ := List.mem_map.mp hf
  exact ⟨startPc_isStart o.2, rfl, rfl⟩

theorem sysOf_ids (cfg : Cfg) (oracle : List Bool) (ops : List (Nat × OKind)) :
    (sysOf cfg oracle ops).frames.map (·.id) = ops.map (·.1) := by
  simp [sysOf, List.map_map, Function.comp_def]

theorem sysOf_start (cfg : Cfg) (oracle : List Bool) {ops : List (Nat × OKind)} (hn : (ops.map (·.1)).Nodup) :
    ∀ f ∈ (sysOf cfg oracle ops).frames, startFor ops f.id = f.pc := by
  intro f hf
  obtain ⟨o, ho, rfl⟩ := List.mem_map.mp hf
  simp only [startFor, lookup_of_mem_nodup hn ho]

theorem linv_sysOf (cfg : Cfg) (oracle : List Bool) {ops : List (Nat × OKind)} (hd : DistinctPuts ops) (h2 : 2 ≤ cfg.maxLevels) :
    LInv cfg (startFor ops) (sysOf cfg oracle ops) [] :=
  linv_init (sysOf_init cfg oracle ops) h2 (by rw [sysOf_ids]; exact hd.1) (startFor ops) (sysOf_start cfg oracle hd.1)

theorem inOrder_take {cfg : Cfg} {y : Sys} {sched : List Nat} (h : InOrder cfg y sched) (k : Nat) :
    InOrder cfg y (sched.take k) := by
  intro n f hf t b hpc hs
  by_cases hnk : n < k
  · have e1 : (sched.take k).take n = sched.take n := by rw [List.take_take]; congr 1; omega
    rw [e1] at hf ⊢
    refine h n f hf t b hpc ?_
    rw [List.getElem?_take] at hs
    simpa [hnk] using hs
  · rw [List.getElem?_take] at hs
    simp [hnk] at hs

end HappyModel.C14
