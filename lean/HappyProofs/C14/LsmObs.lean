import HappyModel.C14.Driver
import HappyProofs.C14.LsmSem
/-! Observations of a model run in the vocabulary of the Spec. -/
namespace HappyModel.C14

/-- observations of a model run, in the vocabulary of the Spec -/
def obsOf (ops : List (Nat × OKind)) (y : Sys) : List ORec :=
  y.frames.filterMap fun f =>
    match f.b, ops.lookup f.id with
    | some b, some kind =>
      some { id := f.id, kind := kind, b := b, e := f.e,
             got := match f.pc with | .done (.val c) => c | _ => none,
             rows := match f.pc with | .done (.rows d) => d | _ => [] }
    | _, _ => none

def DistinctPuts (ops : List (Nat × OKind)) : Prop :=
  (ops.map (·.1)).Nodup ∧
  (ops.filterMap fun o => match o.2 with | .put _ v => some v | _ => none).Nodup

/-- the start program counter of operation `id` of the workload -/
def startFor (ops : List (Nat × OKind)) (id : Nat) : Pc :=
  match ops.lookup id with
  | some kind => Driver.startPc kind
  | none => .done .ok

/-- the initial system of a workload -/
def sysOf (cfg : Cfg) (oracle : List Bool) (ops : List (Nat × OKind)) : Sys :=
  { st := St.init cfg oracle, frames := ops.map fun o => { id := o.1, pc := Driver.startPc o.2 } }

end HappyModel.C14
