import HappyProofs.C14.TxnJudgeA
/-!
# The transaction judge accepts observations that satisfy `TxnFacts` — part B: the commit order

Under `TxnFacts` the commit order the judge computes (`commitOrder`, a `mergeSort` of the committed
transactions by the position of their commit call) is the commit history `h`, entry by entry.
-/
namespace HappyModel.C14.SM
open HappyModel.C14 HappyModel.C14.BT HappyModel.C14.TxSpec

theorem mem_commitOrder (ts : List TObs) (t : TObs) :
    t ∈ commitOrder ts ↔ t ∈ ts ∧ t.committed = true := by
  simp only [commitOrder, List.mem_mergeSort, List.mem_filter]

theorem commitOrder_sorted (ts : List TObs) :
    (commitOrder ts).Pairwise (fun a b => a.commitPos ≤ b.commitPos) := by
  have := List.pairwise_mergeSort (le := fun a b : TObs => decide (a.commitPos ≤ b.commitPos))
    (by intro a b c hab hbc
        have h1 : a.commitPos ≤ b.commitPos := of_decide_eq_true hab
        have h2 : b.commitPos ≤ c.commitPos := of_decide_eq_true hbc
        exact decide_eq_true (Nat.le_trans h1 h2))
    (by intro a b
        rcases Nat.le_total a.commitPos b.commitPos with h | h
        · simp [h]
        · simp [h])
    (ts.filter (·.committed))
  exact this.imp (fun h => of_decide_eq_true h)

/-- entries of a strictly position-sorted history are determined by their position -/
theorem hist_inj (h : Hist) (hs : (h.map (·.1)).Pairwise (· < ·)) :
    ∀ a ∈ h, ∀ b ∈ h, a.1 = b.1 → a = b := by
  rw [List.pairwise_map] at hs
  have h2 : h.Pairwise (fun a b => a.1 = b.1 → a = b) :=
    hs.imp (fun {a b} hlt he => by omega)
  have h3 : h.Pairwise (flip fun a b : Nat × Nat × KV => a.1 = b.1 → a = b) :=
    hs.imp (fun {a b} hlt => show b.1 = a.1 → b = a from fun he => by omega)
  intro a ha b hb
  exact List.Pairwise.forall_of_forall_of_flip (fun x _ _ => rfl) h2 h3 ha hb

theorem hist_nodup (h : Hist) (hs : (h.map (·.1)).Pairwise (· < ·)) : h.Nodup := by
  rw [List.pairwise_map] at hs
  exact hs.imp (fun {a b} hlt he => by subst he; omega)

theorem committed_keys_nodup (ts : List TObs) (hn : (ts.map (·.slot)).Nodup) :
    ((ts.filter (·.committed)).map keyOf).Nodup := by
  have h1 : ((ts.filter (·.committed)).map (·.slot)).Nodup :=
    List.Nodup.sublist (List.filter_sublist.map _) hn
  unfold List.Nodup at h1 ⊢
  rw [List.pairwise_map] at h1 ⊢
  exact h1.imp (fun {a b} hne he => hne (by
    have := congrArg (fun c : Nat × Nat × KV => c.2.1) he
    simpa [keyOf] using this))

theorem commitOrder_map {init finalF : Key → Option Nat} {ts : List TObs} {h : Hist}
    (hf : TxnFacts init finalF ts h) : (commitOrder ts).map keyOf = h := by
  have hperm1 : List.Perm ((commitOrder ts).map keyOf) ((ts.filter (·.committed)).map keyOf) :=
    (List.mergeSort_perm _ _).map keyOf
  have hperm2 : List.Perm ((ts.filter (·.committed)).map keyOf) h := by
    rw [List.perm_ext_iff_of_nodup (committed_keys_nodup ts hf.slots) (hist_nodup h hf.sorted)]
    intro a
    constructor
    · intro ha
      obtain ⟨t, ht, rfl⟩ := List.mem_map.1 ha
      rw [List.mem_filter] at ht
      exact hf.comm_hist t ht.1 ht.2
    · intro ha
      obtain ⟨t, ht, hc, h1, h2, h3⟩ := hf.hist_comm a ha
      refine List.mem_map.2 ⟨t, List.mem_filter.2 ⟨ht, hc⟩, ?_⟩
      obtain ⟨a1, a2, a3⟩ := a
      simp only at h1 h2 h3
      simp only [keyOf, h1, h2, h3]
  have hperm : List.Perm ((commitOrder ts).map keyOf) h := hperm1.trans hperm2
  refine List.Perm.eq_of_pairwise (le := fun a b : Nat × Nat × KV => a.1 ≤ b.1) ?_ ?_ ?_ hperm
  · intro a b ha hb hab hba
    exact hist_inj h hf.sorted a (hperm.mem_iff.1 ha) b hb (Nat.le_antisymm hab hba)
  · rw [List.pairwise_map]
    exact (commitOrder_sorted ts).imp (fun {a b} hle => by simpa [keyOf] using hle)
  · have := hf.sorted
    rw [List.pairwise_map] at this
    exact this.imp (fun {a b} hlt => Nat.le_of_lt hlt)

theorem commitOrder_key_mem {init finalF : Key → Option Nat} {ts : List TObs} {h : Hist}
    (hf : TxnFacts init finalF ts h) (t : TObs) (ht : t ∈ commitOrder ts) : keyOf t ∈ h := by
  rw [← commitOrder_map hf]
  exact List.mem_map_of_mem ht

end HappyModel.C14.SM
