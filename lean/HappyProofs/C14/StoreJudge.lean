import HappyProofs.C14.StoreObs
/-! The Spec clauses for single observations (reads, delete flags, sizes) from the ghost-log facts. -/
namespace HappyModel.C14.SM.SR
open HappyModel.C14 HappyModel.C14.SM HappyModel.C14.BT

/-- a value read at segment `a`, in terms of single events -/
theorem valAt_cases {log : List Ev} (hs : (log.map (·.n)).Pairwise (· > ·)) (k : Key) (a : Nat) :
    (valAt log k a = none ∧ ∀ ev ∈ log, ev.key = k → ¬ ev.n < a) ∨
    ∃ ev ∈ log, ev.key = k ∧ ev.cell = valAt log k a ∧ ev.n < a ∧ ∀ ev' ∈ log, ev'.key = k → ev'.n < a → ev'.n ≤ ev.n := by
  have hs1 : log.Pairwise (fun a b => a.n > b.n) := List.pairwise_map.mp hs
  have hs2 := hs1.filter (fun ev => decide (ev.n < a))
  unfold valAt
  cases hf : firstOn k (log.filter fun ev => decide (ev.n < a)) with
  | none =>
    left
    refine ⟨rfl, ?_⟩
    intro ev hev hk hlt
    exact firstOn_none hf ev (List.mem_filter.mpr ⟨hev, by simpa using hlt⟩) hk
  | some c =>
    right
    obtain ⟨ev, hev, h1, h2, h3⟩ := firstOn_some hs2 hf
    obtain ⟨hev1, hev2⟩ := List.mem_filter.mp hev
    have hlt : ev.n < a := by simpa using hev2
    refine ⟨ev, hev1, h1, h2, hlt, ?_⟩
    intro ev' hev' hk' hlt'
    exact h3 ev' (List.mem_filter.mpr ⟨hev', by simpa using hlt'⟩) hk'

/-- `judgeRead_ok` of `LsmJudge.lean` with the case split as hypothesis -/
theorem judgeRead_ok' {log : List Ev} {ws : List ORec} (h : WsOk log ws) {k : Key} {rb re : Nat} {x : Cell}
    (hr : (x = none ∧ ∀ ev ∈ log, ev.key = k → ¬ ev.n < rb) ∨
      ∃ ev ∈ log, ev.key = k ∧ ev.cell = x ∧ ev.n < re ∧ ∀ ev' ∈ log, ev'.key = k → ev'.n < rb → ev'.n ≤ ev.n) :
    judgeRead ws k rb re x = none := by
  rcases hr with ⟨rfl, hno⟩ | ⟨ev, hev, hk, hc, hlt, hfresh⟩
  · have hi : (ws.any fun w' => w'.writesKey k && endedBefore w' rb) = false := by
      apply List.any_eq_false.mpr
      intro w' hw' hp
      simp only [Bool.and_eq_true] at hp
      obtain ⟨h1, h4⟩ := hp
      unfold endedBefore at h4
      cases hw'e : w'.e with
      | none => rw [hw'e] at h4; cases h4
      | some e' =>
        rw [hw'e] at h4
        have h4' : e' < rb := by simpa using h4
        obtain ⟨ev', hev', hk', _, he'⟩ := h.recEv w' hw' k h1 e' hw'e
        exact hno ev' hev' hk' (by omega)
    simp only [judgeRead, hi]
    simp
  · obtain ⟨w, hw, hwk, hwb, hwe⟩ := h.evRec ev hev
    rw [hk, hc] at hwk
    have hov : overwrittenBy ws k w rb = none := not_overwritten h hwe hfresh
    have hwlt : w.b < re := by omega
    cases x with
    | none =>
      have hd : (ws.any fun d => d.isDel && d.writesKey k && decide (d.b < re) && (overwrittenBy ws k d rb).isNone) = true := by
        apply List.any_eq_true.mpr
        refine ⟨w, hw, ?_⟩
        rw [hov]
        simp only [ORec.isDel, ORec.writesKey, hwk, cellKind]
        simp [hwlt]
      simp only [judgeRead, hd]
      simp
    | some v =>
      simp only [cellKind] at hwk
      unfold judgeRead
      simp only []
      split
      · rename_i hf
        have := List.find?_eq_none.mp hf w hw
        rw [hwk] at this
        simp at this
      · rename_i w0 hf
        have hp := List.find?_some hf
        have hm := List.mem_of_find?_eq_some hf
        have hk0 : ∃ k', w0.kind = .put k' v := by
          cases hk0 : w0.kind with
          | put k' v' =>
            rw [hk0] at hp
            simp only [Bool.and_eq_true, beq_iff_eq] at hp
            exact ⟨k', by rw [hp.2]⟩
          | _ => rw [hk0] at hp; cases hp
        obtain ⟨k', hk0⟩ := hk0
        have : w = w0 := h.putUniq w hw w0 hm k k' v hwk hk0
        subst this
        rw [hov]
        simp [hwlt]

/-- a value read at a segment inside `[rb, re]` passes the read clause -/
theorem judgeRead_valAt {log : List Ev} {ws : List ORec} (h : WsOk log ws) (hs : (log.map (·.n)).Pairwise (· > ·))
    {k : Key} {rb re a : Nat} (hra : rb ≤ a) (hae : a ≤ re) : judgeRead ws k rb re (valAt log k a) = none := by
  apply judgeRead_ok' h
  rcases valAt_cases hs k a with ⟨h1, h2⟩ | ⟨ev, hev, h1, h2, h3, h4⟩
  · exact Or.inl ⟨h1, fun ev hev hk hlt => h2 ev hev hk (by omega)⟩
  · exact Or.inr ⟨ev, hev, h1, h2, by omega, fun ev' hev' hk' hlt' => h4 ev' hev' hk' (by omega)⟩

/-! ### presence / absence at a segment (`delete` flags and `size`) -/

theorem not_flipped {log : List Ev} {ws os : List ORec} (h : WsOkS log ws) (hsub : ∀ w ∈ os, w ∈ ws) {k : Key} {rb : Nat}
    {ev : Ev} {w : ORec} (hwe : ∀ e, w.e = some e → ev.n ≤ e)
    (hfresh : ∀ ev' ∈ log, ev'.key = k → ev'.n < rb → ev'.n ≤ ev.n) : flippedBefore os k w rb = false := by
  unfold flippedBefore
  apply List.any_eq_false.mpr
  intro w' hw' hp
  simp only [Bool.and_eq_true] at hp
  obtain ⟨⟨⟨⟨h1, _⟩, _⟩, h3⟩, h4⟩ := hp
  cases hwe' : w.e with
  | none => rw [hwe'] at h3; cases h3
  | some e =>
    rw [hwe'] at h3
    have h3' : e < w'.b := by simpa using h3
    unfold endedBefore at h4
    cases hw'e : w'.e with
    | none => rw [hw'e] at h4; cases h4
    | some e' =>
      rw [hw'e] at h4
      have h4' : e' < rb := by simpa using h4
      obtain ⟨ev', hev', _, hk', hb', he'⟩ := h.recEv w' (hsub w' hw') k h1 e' hw'e
      have := hfresh ev' hev' hk' (by omega)
      have := hwe e hwe'
      omega

theorem live_dead_of {log : List Ev} {ws os : List ORec} (h : WsOkS log ws) (hs : (log.map (·.n)).Pairwise (· > ·))
    (hsub : ∀ w ∈ os, w ∈ ws) {k : Key} {rb re a : Nat}
    (hin : ∀ w ∈ ws, ∀ ev ∈ log, w.id = ev.id → ev.n < a → w ∈ os) (hra : rb ≤ a) (hae : a ≤ re) :
    ((valAt log k a).isSome = true → canBeLive os k rb re = true) ∧
    ((valAt log k a).isSome = false → canBeDead os k rb re = true) := by
  rcases valAt_cases hs k a with ⟨h1, h2⟩ | ⟨ev, hev, h1, h2, h3, h4⟩
  · refine ⟨fun hv => (by rw [h1] at hv; cases hv), fun _ => ?_⟩
    unfold canBeDead
    have : (os.any fun w => w.isPut && w.writesKey k && endedBefore w rb) = false := by
      apply List.any_eq_false.mpr
      intro w hw hp
      simp only [Bool.and_eq_true] at hp
      obtain ⟨⟨_, hp1⟩, hp2⟩ := hp
      unfold endedBefore at hp2
      cases hwe : w.e with
      | none => rw [hwe] at hp2; cases hp2
      | some e =>
        rw [hwe] at hp2
        have : e < rb := by simpa using hp2
        obtain ⟨ev, hev, _, hk, _, he⟩ := h.recEv w (hsub w hw) k hp1 e hwe
        exact h2 ev hev hk (by omega)
    rw [this]; rfl
  · obtain ⟨w, hw, hwid, hwk, hwb, hwe⟩ := h.evRec ev hev
    have hwo : w ∈ os := hin w hw ev hev hwid h3
    have hnf : flippedBefore os k w rb = false :=
      not_flipped h hsub hwe (fun ev' hev' hk' hlt' => h4 ev' hev' hk' (by omega))
    have hwlt : w.b < re := by omega
    rw [h1] at hwk
    constructor
    · intro hv
      cases hc : valAt log k a with
      | none => rw [hc] at hv; cases hv
      | some v =>
        rw [h2, hc] at hwk
        unfold canBeLive
        apply List.any_eq_true.mpr
        refine ⟨w, hwo, ?_⟩
        rw [hnf]
        simp only [ORec.isPut, ORec.writesKey, hwk, cellKind]
        simp [hwlt]
    · intro hv
      cases hc : valAt log k a with
      | some v => rw [hc] at hv; cases hv
      | none =>
        rw [h2, hc] at hwk
        unfold canBeDead
        have : (os.any fun d => d.isDel && d.writesKey k && decide (d.b < re) && !flippedBefore os k d rb) = true := by
          apply List.any_eq_true.mpr
          refine ⟨w, hwo, ?_⟩
          rw [hnf]
          simp only [ORec.isDel, ORec.writesKey, hwk, cellKind]
          simp [hwlt]
        rw [this]; simp

/-! ### counting live keys -/

theorem filter_length_le {α : Type} (p q : α → Bool) : ∀ (l : List α), (∀ x ∈ l, p x = true → q x = true) →
    (l.filter p).length ≤ (l.filter q).length
  | [], _ => Nat.le_refl _
  | x :: r, h => by
    have ih := filter_length_le p q r (fun y hy => h y (List.mem_cons_of_mem _ hy))
    have hx := h x (List.mem_cons_self ..)
    rw [List.filter_cons, List.filter_cons]
    cases hp : p x with
    | true => simp only [hx hp, if_true, List.length_cons]; omega
    | false =>
      cases hq : q x with
      | true => simp only [Bool.false_eq_true, if_false, if_true, List.length_cons]; omega
      | false => simpa using ih

theorem lookup_isSome_iff (k : Key) : ∀ (m : KV), (m.lookup k).isSome = true ↔ k ∈ m.map (·.1)
  | [] => by simp
  | (k1, v1) :: r => by
    rw [lookup_cons']
    by_cases hk : k = k1
    · subst hk; simp
    · have ih := lookup_isSome_iff k r
      simp only [hk, if_false, List.map_cons, List.mem_cons, false_or]
      exact ih

theorem length_eq_live (m : KV) (nkeys : Nat) (hs : SortedKV m) (hlt : ∀ e ∈ m, e.1 < nkeys) :
    m.length = ((List.range nkeys).filter fun k => (m.lookup k).isSome).length := by
  have hn1 : (m.map (·.1)).Nodup := by
    unfold SortedKV at hs
    exact hs.imp (fun h => Nat.ne_of_lt h)
  have hn2 : ((List.range nkeys).filter fun k => (m.lookup k).isSome).Nodup :=
    List.Nodup.sublist List.filter_sublist List.nodup_range
  have hp : (m.map (·.1)).Perm ((List.range nkeys).filter fun k => (m.lookup k).isSome) := by
    rw [List.perm_ext_iff_of_nodup hn1 hn2]
    intro k
    rw [List.mem_filter, List.mem_range, lookup_isSome_iff]
    constructor
    · intro hk
      obtain ⟨e, he, rfl⟩ := List.mem_map.mp hk
      exact ⟨hlt e he, hk⟩
    · exact fun h => h.2
  rw [← hp.length_eq, List.length_map]

end HappyModel.C14.SM.SR
