import HappyModel.C14.Spec
import HappyProofs.C14.LsmBookRun
/-! Semantic statement of read regularity in terms of the ghost log of memtable inserts. -/
namespace HappyModel.C14

/-- a read of `k` that ran over segments `[b, e]` returned the cell of the newest insert before it began,
    or the cell of an insert that happened while it ran -/
def ReadOk (log : List Ev) (k : Key) (b e : Nat) (c : Cell) : Prop :=
  c = (firstOn k (log.filter fun ev => ev.n < b)).join ∨
  ∃ ev ∈ log, ev.key = k ∧ ev.cell = c ∧ b < ev.n ∧ ev.n < e

structure ReadFacts (start : Nat → Pc) (y : Sys) (log : List Ev) : Prop where
  getRes : ∀ f ∈ y.frames, ∀ k c, start f.id = .gStart k → f.pc = .done (.val c) →
    ∀ b e, f.b = some b → f.e = some e → ReadOk log k b e c
  scanRes : ∀ f ∈ y.frames, ∀ lo hi d, start f.id = .sStart lo hi → f.pc = .done (.rows d) →
    ∀ b e, f.b = some b → f.e = some e →
      sortedStrict d = true ∧ (∀ r ∈ d, lo ≤ r.1 ∧ r.1 < hi) ∧ ∀ k, lo ≤ k → k < hi → ReadOk log k b e (d.lookup k)

end HappyModel.C14
