import HappyProofs.C14.LsmLog
import HappyProofs.C14.LsmReadOwn
import HappyProofs.C14.LsmGhost
import HappyModel.C14.LsmSync
/-!
# `put_sync` of the LSM tree, and its `get` against an unchanging tree

`St.putSync` is the segments of `put` run back to back (`runPc`).  Starting from a *quiescent* tree
(nothing frozen, no compaction suspended) and without a WAL it

* keeps the structural invariant `SInv`,
* ends quiescent again (the flush it starts it also installs, the compaction it starts it also installs),
* changes the abstract map `St.abs` (= `get_sync`) exactly by `m[k] := c` (`putSync_spec`).

The `get` generator (`gStart` / `gAt`) against a tree that does not change between its segments returns
`St.abs k` whenever it finishes: `GetOk` is kept by every segment (`getOk_step`); the statements about the
store machine (`SM.lsm_get_first_segment`, `SM.lsm_get_quiescent`) are in `TxnLsm.lean`.
-/
namespace HappyModel.C14

/-- segments of `put_sync` still to run (5 = a frame `put_sync` never reaches) -/
def putSyncRank : Pc → Nat
  | .pStart _ _ => 4
  | .pMem _ => 3
  | .pFlush _ _ => 2
  | .pCompact _ => 1
  | .done _ => 0
  | _ => 5

/-- what holds between the segments of a `put_sync` after the memtable insert: the only frozen memtable
    is the one this call is flushing, the only compaction the one this call is about to install -/
def PutSyncOk (s : St) : Pc → Prop
  | .pMem _ => s.imms = [] ∧ s.compacting = false
  | .pFlush t _ => s.imms = [t] ∧ s.compacting = false
  | .pCompact _ => s.imms = []
  | .done _ => s.imms = [] ∧ s.compacting = false
  | _ => False

theorem compactStart_sync (cfg : Cfg) (s : St) (hi : s.imms = []) (hc : s.compacting = false) :
    PutSyncOk (compactStart cfg s).1 (compactStart cfg s).2 ∧ putSyncRank (compactStart cfg s).2 ≤ 1 := by
  unfold compactStart
  split
  · exact ⟨⟨hi, hc⟩, Nat.zero_le _⟩
  · split
    · exact ⟨⟨hi, hc⟩, Nat.zero_le _⟩
    · split
      · exact ⟨⟨hi, hc⟩, Nat.zero_le _⟩
      · exact ⟨hi, Nat.le_refl _⟩

theorem flushStart_sync (cfg : Cfg) (s : St) (hi : s.imms = []) (hc : s.compacting = false) :
    PutSyncOk (flushStart cfg s).1 (flushStart cfg s).2 ∧ putSyncRank (flushStart cfg s).2 ≤ 2 := by
  unfold flushStart
  split
  · exact ⟨⟨hi, hc⟩, Nat.zero_le _⟩
  · refine ⟨⟨?_, hc⟩, Nat.le_refl _⟩
    show s.imms ++ [_] = [_]
    rw [hi]; rfl

theorem flushInstall_sync (cfg : Cfg) (s : St) (t : Tab) (b : Nat) (hi : s.imms = [t]) (hc : s.compacting = false) :
    PutSyncOk (flushInstall cfg s t b).1 (flushInstall cfg s t b).2 ∧ putSyncRank (flushInstall cfg s t b).2 ≤ 1 := by
  rw [flushInstall_eq]
  have h1 : (flushS1 cfg s t b).imms = [] := by
    show s.imms.filter (fun i => i.id != t.id) = []
    rw [hi]; simp
  have h2 : (flushS1 cfg s t b).compacting = false := hc
  split
  · exact compactStart_sync cfg _ h1 h2
  · exact ⟨⟨h1, h2⟩, Nat.zero_le _⟩

/-- one segment of a `put_sync` past the memtable insert keeps `PutSyncOk` and gets closer to the end -/
theorem sync_step (cfg : Cfg) (s : St) (pc : Pc) (h : PutSyncOk s pc) (hd : pc.isDone = false) :
    PutSyncOk (stepOp cfg s pc).1 (stepOp cfg s pc).2 ∧ putSyncRank (stepOp cfg s pc).2 < putSyncRank pc := by
  cases pc with
  | pMem mid =>
    show PutSyncOk (afterMem cfg s mid).1 (afterMem cfg s mid).2 ∧ putSyncRank (afterMem cfg s mid).2 < 3
    unfold afterMem
    split
    · have := flushStart_sync cfg s h.1 h.2
      exact ⟨this.1, Nat.lt_succ_of_le this.2⟩
    · exact ⟨h, (by show 0 < 3; decide)⟩
  | pFlush t b =>
    have := flushInstall_sync cfg s t b h.1 h.2
    exact ⟨this.1, Nat.lt_succ_of_le this.2⟩
  | pCompact j => exact ⟨⟨h, rfl⟩, (by show 0 < 1; decide)⟩
  | done r => cases hd
  | pStart k c => cases h
  | pWal k c q => cases h
  | pSync k c q => cases h
  | gStart k => cases h
  | gAt k i t r => cases h
  | sStart lo hi => cases h
  | sAt lo hi i t r acc => cases h

theorem sync_flushHead {s : St} {pc : Pc} (h : PutSyncOk s pc) : FlushHead s pc := by
  cases pc <;> simp only [FlushHead] <;> try trivial
  rw [h.1]; rfl

theorem sync_insOf (cfg : Cfg) {s : St} {pc : Pc} (h : PutSyncOk s pc) : insOf cfg s pc = none := by
  cases pc <;> first | rfl | cases h

theorem sync_done {s : St} {pc : Pc} (h : PutSyncOk s pc) (hd : pc.isDone = true) :
    s.imms = [] ∧ s.compacting = false := by
  cases pc <;> first | exact h | cases hd

theorem rank_zero_done {pc : Pc} (h : putSyncRank pc ≤ 0) : pc.isDone = true := by
  cases pc <;> first | rfl | (simp only [putSyncRank] at h; omega)

/-- the rest of a `put_sync` after the memtable insert: invariant kept, quiescent at the end, abstract
    map untouched -/
theorem runPc_sync (cfg : Cfg) : ∀ (n : Nat) (s : St) (pc : Pc), putSyncRank pc ≤ n → SInv cfg s → POk cfg s pc →
    PutSyncOk s pc →
    SInv cfg (runPc cfg n s pc) ∧ (runPc cfg n s pc).imms = [] ∧ (runPc cfg n s pc).compacting = false ∧
    ∀ k', (runPc cfg n s pc).abs k' = s.abs k'
  | 0, s, pc, hr, hs, _, hy => by
    obtain ⟨a, b⟩ := sync_done hy (rank_zero_done hr)
    exact ⟨hs, a, b, fun _ => rfl⟩
  | n + 1, s, pc, hr, hs, hp, hy => by
    show SInv cfg (if pc.isDone then s else runPc cfg n (stepOp cfg s pc).1 (stepOp cfg s pc).2) ∧
      (if pc.isDone then s else runPc cfg n (stepOp cfg s pc).1 (stepOp cfg s pc).2).imms = [] ∧
      (if pc.isDone then s else runPc cfg n (stepOp cfg s pc).1 (stepOp cfg s pc).2).compacting = false ∧
      ∀ k', (if pc.isDone then s else runPc cfg n (stepOp cfg s pc).1 (stepOp cfg s pc).2).abs k' = s.abs k'
    by_cases hd : pc.isDone = true
    · simp only [hd, if_true]
      obtain ⟨a, b⟩ := sync_done hy hd
      exact ⟨hs, a, b, fun _ => trivial⟩
    · have hd' : pc.isDone = false := by simpa using hd
      simp only [hd', Bool.false_eq_true, if_false]
      have ho := stepOp_ok hs hp
      obtain ⟨hy', hlt⟩ := sync_step cfg s pc hy hd'
      obtain ⟨a, b, c, d⟩ := runPc_sync cfg n _ _ (by omega) ho.sinv ho.pok hy'
      refine ⟨a, b, c, fun k' => ?_⟩
      rw [d k', abs_step hs hp (sync_flushHead hy) k', sync_insOf cfg hy]

/-- **`put_sync` on a quiescent tree without a WAL**: the invariant is kept, the tree is quiescent again,
    and `get_sync` afterwards is the map update `m[k] := c` -/
theorem putSync_spec (cfg : Cfg) (s : St) (k : Key) (c : Cell) (hw : cfg.wal = none) (hs : SInv cfg s)
    (hi : s.imms = []) (hc : s.compacting = false) :
    SInv cfg (s.putSync cfg k c) ∧ (s.putSync cfg k c).imms = [] ∧ (s.putSync cfg k c).compacting = false ∧
    ∀ k', (s.putSync cfg k c).abs k' = if k' = k then c else s.abs k' := by
  have hstep : stepOp cfg s (.pStart k c) = memInsert s k c := by
    simp only [stepOp, putStart, hw]
  have hrun : s.putSync cfg k c = runPc cfg 4 (memInsert s k c).1 (memInsert s k c).2 := by
    show runPc cfg 4 (stepOp cfg s (.pStart k c)).1 (stepOp cfg s (.pStart k c)).2 = _
    rw [hstep]
  have ho := stepOp_ok hs (pc := .pStart k c) trivial
  rw [hstep] at ho
  rw [hrun]
  obtain ⟨a, b, d, e⟩ := runPc_sync cfg 4 (memInsert s k c).1 (memInsert s k c).2 (by show 3 ≤ 4; decide) ho.sinv ho.pok
    ⟨hi, hc⟩
  exact ⟨a, b, d, fun k' => by rw [e k', abs_memInsert]⟩

/-! ### the `get` generator against an unchanging tree -/

/-- a `get k` frame whose remaining work can only return `St.abs k` -/
def GetOk (s : St) (k : Key) : Pc → Prop
  | .gStart k' => k' = k
  | .gAt k' i t r => k' = k ∧ RB s.mem s.imms s.levels k i (t :: r) (fun c => c = s.abs k)
  | .done (.val c) => c = s.abs k
  | _ => False

theorem getOk_step {cfg : Cfg} {s : St} (hs : SInv cfg s) {k : Key} {pc : Pc} (h : GetOk s k pc) :
    GetOk s k (stepOp cfg s pc).2 := by
  cases pc with
  | gStart k' =>
    have hk : k' = k := h
    subst hk
    show GetOk s k' (getStart cfg s k').2
    obtain ⟨h1, h2⟩ := getStart_ok (cfg := cfg) hs k' (Al := fun c => c = s.abs k') rfl
    rcases getStart_shape cfg s k' with ⟨i, t, r, e⟩ | ⟨c, e⟩
    · rw [e]; exact ⟨rfl, h1 i t r e⟩
    · rw [e]; exact h2 c e
  | gAt k' i t r =>
    obtain ⟨hk, hr⟩ : k' = k ∧ _ := h
    subst hk
    show GetOk s k' (getResume cfg s k' i t r).2
    obtain ⟨h1, h2⟩ := getResume_ok (cfg := cfg) hs k' i t r hr
    rcases getResume_shape cfg s k' i t r with ⟨i', t', r', e⟩ | ⟨c, e⟩
    · rw [e]; exact ⟨rfl, h1 i' t' r' e⟩
    · rw [e]; exact h2 c e
  | done r => exact h
  | pStart k c => cases h
  | pWal k c q => cases h
  | pSync k c q => cases h
  | pMem m => cases h
  | pFlush t b => cases h
  | pCompact j => cases h
  | sStart lo hi => cases h
  | sAt lo hi i t r acc => cases h

end HappyModel.C14
