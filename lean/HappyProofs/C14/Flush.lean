import HappyProofs.C14.Basic
/-! Refinement steps of the write path: memtable insert, flush start, flush install. -/
namespace HappyModel.C14

theorem read_memInsert (s : St) (k k' : Key) (c : Cell) :
    (memInsert s k c).1.read k' = if k' = k then some c else s.read k' := by
  simp only [memInsert, St.read, lookup_ins]
  by_cases h : k' = k <;> simp [h]

theorem read_compactStart (cfg : Cfg) (s : St) (k : Key) :
    (compactStart cfg s).1.read k = s.read k := by
  unfold compactStart
  split
  · rfl
  · split
    · rfl
    · split <;> rfl

theorem read_flushStart (cfg : Cfg) (s : St) (k : Key) :
    (flushStart cfg s).1.read k = s.read k := by
  unfold flushStart
  split
  · rfl
  · simp only [St.read, List.reverse_append, List.reverse_cons, List.reverse_nil, List.nil_append,
      List.singleton_append, lookTabs, List.lookup]
    cases s.mem.lookup k <;> rfl

theorem read_flushInstall (cfg : Cfg) (s : St) (t : Tab) (b : Nat) (r : List Tab) (k : Key)
    (himm : s.imms = t :: r) (hid : ∀ i ∈ r, i.id ≠ t.id) (hlv : s.levels ≠ []) :
    (flushInstall cfg s t b).1.read k = s.read k := by
  have key : ({ s with levels := modAt s.levels 0 (· ++ [t]),
                       imms := s.imms.filter (fun i => i.id != t.id),
                       wal := if cfg.wal.isSome then s.wal.filter (fun e => e.seq > b) else s.wal } : St).read k
      = s.read k := by
    obtain ⟨l0, ls, hl⟩ : ∃ l0 ls, s.levels = l0 :: ls := by
      cases h : s.levels with
      | nil => exact absurd h hlv
      | cons a b => exact ⟨a, b, rfl⟩
    have hf : (t :: r).filter (fun i => i.id != t.id) = r := by
      simp [List.filter_cons, lookTabs_filter_ne 0 t.id r hid]
    simp only [St.read, himm, hf, hl, modAt, lookLevels, List.reverse_append, List.reverse_cons,
      List.reverse_nil, List.nil_append, List.singleton_append, lookTabs_append, lookTabs]
    cases s.mem.lookup k with
    | some c => rfl
    | none =>
      cases lookTabs k r.reverse with
      | some c => rfl
      | none =>
        simp only
        cases t.data.lookup k <;> rfl
  unfold flushInstall
  simp only
  split
  · rw [read_compactStart]; exact key
  · exact key

end HappyModel.C14
