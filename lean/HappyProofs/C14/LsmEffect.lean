import HappyProofs.C14.LsmLvInv
/-! What installing a compaction does to the tables a suspended reader may still meet. -/
namespace HappyModel.C14

theorem merged_value_origin (S O : List Tab) (bottom : Bool) (k : Key) (c : Cell) (hS : ∀ t ∈ S, Sorted t.data)
    (h : (if bottom then dropTombs (mergeOverlap (mergeSources S) O) else mergeOverlap (mergeSources S) O).lookup k = some c) :
    (∃ s ∈ S, s.data.lookup k = some c) ∨ (∃ o ∈ O, o.data.lookup k = some c) := by
  have h0 : (mergeOverlap (mergeSources S) O).lookup k = some c := by
    cases bottom with
    | false => simpa using h
    | true =>
      simp only [if_true] at h
      rw [lookup_dropTombs _ (sorted_mergeOverlap _ _ (sorted_mergeSources S)).uniq] at h
      cases hm : (mergeOverlap (mergeSources S) O).lookup k with
      | none => rw [hm] at h; cases h
      | some c' =>
        rw [hm] at h
        cases c' with
        | none => cases h
        | some v => simpa using h
  rw [lookup_merge S O k (fun t ht => (hS t ht).uniq)] at h0
  cases ha : lookTabs k S.reverse with
  | some c' =>
    rw [ha] at h0
    have : c' = c := by simpa using h0
    subst this
    obtain ⟨s, hs, hc⟩ := lookTabs_some_mem ha
    exact Or.inl ⟨s, List.mem_reverse.mp hs, hc⟩
  | none =>
    rw [ha, Option.none_or] at h0
    obtain ⟨o, ho1, hc⟩ := lookTabs_some_mem h0
    exact Or.inr ⟨o, ho1, hc⟩

theorem drop_two (A : List (List Tab)) (X Y X' Y' : List Tab) (C : List (List Tab)) (i : Nat) (h : A.length + 1 ≤ i) :
    (A ++ X' :: Y' :: C).drop (i + 1) = (A ++ X :: Y :: C).drop (i + 1) := by
  induction A generalizing i with
  | nil =>
    cases i with
    | zero => simp at h
    | succ i => simp
  | cons a A ih =>
    cases i with
    | zero => simp at h
    | succ i =>
      simp only [List.cons_append, List.drop_succ_cons]
      exact ih i (by simpa using h)

theorem drop_one (A : List (List Tab)) (X X' : List Tab) (i : Nat) (h : A.length ≤ i) :
    (A ++ [X']).drop (i + 1) = (A ++ [X]).drop (i + 1) := by
  rw [List.drop_of_length_le (by simp; omega), List.drop_of_length_le (by simp; omega)]

theorem install_effect {cfg : Cfg} {lv : List (List Tab)} {j : Job} (hI : LvInv cfg lv) (hP : Planned cfg lv j)
    (newId : Nat) (k : Key) :
    (j.src ≤ j.tgt ∧ j.tgt ≤ j.src + 1) ∧
    (∀ x, ∀ T ∈ (installCompaction lv j newId).getD x [], ∀ c, T.data.lookup k = some c →
      T ∈ lv.getD x [] ∨ (x = j.tgt ∧ ∃ T', T'.data.lookup k = some c ∧ (T' ∈ lv.getD j.src [] ∨ T' ∈ lv.getD j.tgt []))) ∧
    (∀ i, j.tgt ≤ i → (installCompaction lv j newId).drop (i + 1) = lv.drop (i + 1)) ∧
    (j.src < j.tgt → ∃ S : List Tab, (∀ T ∈ S, T ∈ lv.getD j.src []) ∧
      (lookLevels k ((installCompaction lv j newId).drop (j.src + 1))).join =
        ((lookTabs k S.reverse).or (lookLevels k (lv.drop (j.src + 1)))).join) := by
  cases planned_shape hI hP with
  | two A S extra Lt C bottom hlv hj hb hS hex =>
    subst hlv; subst hj
    have h1 : ∀ t ∈ S ++ extra, Sorted t.data := by
      have := hI.sorted A.length; rwa [getD_append_len] at this
    have h2 : ∀ t ∈ Lt, Sorted t.data := by
      have := hI.sorted (A.length + 1); rwa [getD_append_len_succ] at this
    have h3 : LevelDisjoint Lt := by
      have := hI.disj (A.length + 1) (by omega); rwa [getD_append_len_succ] at this
    have h4 : ((S ++ extra).map (·.id)).Nodup := by
      have := hI.ids A.length; rwa [getD_append_len] at this
    have h5 : (Lt.map (·.id)).Nodup := by
      have := hI.ids (A.length + 1); rwa [getD_append_len_succ] at this
    have hS' : ∀ t ∈ S, Sorted t.data := fun t ht => h1 t (List.mem_append_left _ ht)
    have h4' : ((S ++ ([] : List Tab)).map (·.id)).Nodup := by
      rw [List.map_append] at h4
      simpa using (List.nodup_append.mp h4).1
    simp only
    rw [install_two, removeIds_self_append h4, removeIds_filter h5, getD_append_len, getD_append_len_succ]
    refine ⟨⟨by omega, by omega⟩, ?_, ?_, ?_⟩
    · intro x T hT c hc
      rw [getD_two A (S ++ extra) Lt] at hT
      split at hT
      · rename_i hx; subst hx
        left; rw [getD_append_len]; exact List.mem_append_right _ hT
      · split at hT
        · rename_i _ hx; subst hx
          rcases List.mem_append.mp hT with h | h
          · left; rw [getD_append_len_succ]; exact (List.mem_filter.mp h).1
          · rw [List.mem_singleton] at h
            subst h
            right
            refine ⟨rfl, ?_⟩
            rcases merged_value_origin S _ bottom k c hS' hc with ⟨s, hs, hsc⟩ | ⟨o, ho, hoc⟩
            · exact ⟨s, hsc, Or.inl (List.mem_append_left _ hs)⟩
            · exact ⟨o, hoc, Or.inr (List.mem_filter.mp ho).1⟩
        · exact Or.inl hT
    · intro i hi
      exact drop_two A (S ++ extra) Lt _ _ C i hi
    · intro _
      refine ⟨S, fun T hT => List.mem_append_left _ hT, ?_⟩
      have e1 : ∀ (X Y : List Tab), (A ++ X :: Y :: C).drop (A.length + 1) = Y :: C := by
        intro X Y
        have : A.length + 1 = A.length + 1 := rfl
        rw [List.drop_append]
        simp
      rw [e1, e1]
      have := pair_install k S [] Lt C newId bottom hS' h2 h3 h4' h5 hb
      rw [removeIds_self_append h4', removeIds_filter h5] at this
      simp only [List.append_nil] at this
      rw [lookLevels_cons, lookLevels_cons k S] at this
      simp only [List.reverse_nil, lookTabs_nil, Option.none_or] at this
      exact this
  | one A S hlv hj hS hA =>
    subst hlv; subst hj
    have h1 : ∀ t ∈ S, Sorted t.data := by
      have := hI.sorted A.length; rwa [getD_append_len] at this
    have h4 : (S.map (·.id)).Nodup := by
      have := hI.ids A.length; rwa [getD_append_len] at this
    have h0 : removeIds (S.map (·.id)) S = [] := by
      have := removeIds_self_append (S := S) (extra := []) (by simpa using h4)
      simpa using this
    simp only
    rw [install_one, h0, getD_append_len]
    simp only [removeIds, List.filter_nil, List.nil_append]
    refine ⟨⟨Nat.le_refl _, Nat.le_succ _⟩, ?_, ?_, fun h => absurd h (Nat.lt_irrefl _)⟩
    · intro x T hT c hc
      rw [getD_one A S] at hT
      split at hT
      · rename_i hx; subst hx
        rw [List.mem_singleton] at hT
        subst hT
        right
        refine ⟨rfl, ?_⟩
        have := merged_value_origin S [] true k c h1 (by simpa [mergeOverlap] using hc)
        rcases this with ⟨s, hs, hsc⟩ | ⟨o, ho, _⟩
        · exact ⟨s, hsc, Or.inl hs⟩
        · cases ho
      · exact Or.inl hT
    · intro i hi
      exact drop_one A S _ i hi

end HappyModel.C14
