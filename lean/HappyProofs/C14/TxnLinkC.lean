import HappyProofs.C14.TxnLinkB
/-!
# Transactions, link machine → judge, part C: program order and the machine facts

What `WFProg` and `MachFacts` say in the vocabulary of part B (`frameRes`, `stepF`, `wsetC`): completed
operations of a slot are a prefix of its program, the judge's write buffer is the machine's
(`wsetC_eq_before`), and a completed external read has its `fetched` event inside its interval
(`read_ok`).

`EB fs` is the one fact about frames that `MachFacts` does not state and that is needed: a frame with a
last segment has a first segment (with `done_e` it is then completed).
-/
namespace HappyModel.C14.SM
open HappyModel.C14 HappyModel.C14.BT HappyModel.C14.TxSpec

/-- a frame that has a last segment has a first one (true of every `runFrames` from `framesOfT`) -/
def EB (fs : List (Frame TPc)) : Prop := ∀ f ∈ fs, ∀ e, f.e = some e → ∃ b, f.b = some b

/-! ### program order -/

theorem order_split {pre post : List (Nat × TOp)} {o : Nat × TOp} (hwf : WFProg (pre ++ o :: post)) :
    (∀ a ∈ pre, a.2.slot = o.2.slot → o.2.isBegin = false ∧ a.2.isEnd = false) ∧
    (∀ c ∈ post, o.2.slot = c.2.slot → c.2.isBegin = false ∧ o.2.isEnd = false) := by
  have h := hwf.order
  rw [List.pairwise_append] at h
  exact ⟨fun a ha => h.2.2 a ha o (by simp), fun c hc => (List.pairwise_cons.mp h.2.1).1 c hc⟩

theorem mem_split {α : Type} {pre post : List α} {o a : α} (h : a ∈ pre ++ o :: post) : a ∈ pre ∨ a = o ∨ a ∈ post := by
  rcases List.mem_append.mp h with h | h
  · exact .inl h
  · rcases List.mem_cons.mp h with h | h
    · exact .inr (.inl h)
    · exact .inr (.inr h)

/-- of two operations of one slot, only the later can be an end and only the earlier a begin -/
theorem begin_unique {ops : List (Nat × TOp)} (hwf : WFProg ops) {a o : Nat × TOp} (ha : a ∈ ops) (ho : o ∈ ops)
    (hs : a.2.slot = o.2.slot) (hba : a.2.isBegin = true) (hbo : o.2.isBegin = true) : a = o := by
  obtain ⟨pre, post, rfl⟩ := List.append_of_mem ho
  have h := order_split hwf
  rcases mem_split ha with h1 | h1 | h1
  · have := (h.1 a h1 hs).1; simp [hbo] at this
  · exact h1
  · have := (h.2 a h1 hs.symm).1; simp [hba] at this

theorem end_unique {ops : List (Nat × TOp)} (hwf : WFProg ops) {a o : Nat × TOp} (ha : a ∈ ops) (ho : o ∈ ops)
    (hs : a.2.slot = o.2.slot) (hba : a.2.isEnd = true) (hbo : o.2.isEnd = true) : a = o := by
  obtain ⟨pre, post, rfl⟩ := List.append_of_mem ho
  have h := order_split hwf
  rcases mem_split ha with h1 | h1 | h1
  · have := (h.1 a h1 hs).2; simp [hba] at this
  · exact h1
  · have := (h.2 a h1 hs.symm).2; simp [hbo] at this

/-- every operation that is not a `begin` has the `begin` of its slot before it -/
theorem begin_before {pre post : List (Nat × TOp)} {o : Nat × TOp} (hwf : WFProg (pre ++ o :: post))
    (hb : o.2.isBegin = false) : ∃ a ∈ pre, ∃ l, a.2 = .begin o.2.slot l := by
  obtain ⟨a, ha, hab, hs⟩ := hwf.begun o (by simp) hb
  have h := order_split hwf
  have hl : ∃ l, a.2 = .begin o.2.slot l := by
    obtain ⟨i, op⟩ := a
    cases op with
    | begin s' l =>
      have e : s' = o.2.slot := hs
      exact ⟨l, by rw [← e]⟩
    | _ => simp [TOp.isBegin] at hab
  rcases mem_split ha with h1 | h1 | h1
  · exact ⟨a, h1, hl⟩
  · subst h1; simp [hab] at hb
  · have := (h.2 a h1 hs.symm).1; simp [hab] at this

/-- an operation of the slot that is not an end comes before the end of the slot -/
theorem before_end {pre post : List (Nat × TOp)} {o a : Nat × TOp} (hwf : WFProg (pre ++ o :: post))
    (ha : a ∈ pre ++ o :: post) (hs : a.2.slot = o.2.slot) (he : o.2.isEnd = true) (hna : a.2.isEnd = false) :
    a ∈ pre := by
  have h := order_split hwf
  rcases mem_split ha with h1 | h1 | h1
  · exact h1
  · subst h1; simp [he] at hna
  · have := (h.2 a h1 hs.symm).2; simp [he] at this

/-! ### frames of a run -/

section
variable {ok : Store → Prop} {ops : List (Nat × TOp)} {tm0 tm : TM} {fs : List (Frame TPc)} {tlog : List (Nat × Ev)}

theorem fs_nodup (hwf : WFProg ops) (hm : MachFacts ok ops tm0 tm fs tlog) : (fs.map (·.id)).Nodup :=
  hm.ids ▸ hwf.ids

/-- the frame behind a completed operation -/
theorem res_frame (hwf : WFProg ops) (hm : MachFacts ok ops tm0 tm fs tlog) {o : Nat × TOp} (ho : o ∈ ops)
    {b e : Nat} {r : SRes} (h : frameRes fs o.1 = some (b, e, r)) :
    ∃ f ∈ fs, f.id = o.1 ∧ f.b = some b ∧ f.e = some e ∧ f.pc = .done r ∧ ops.lookup f.id = some o.2 ∧ b ≤ e := by
  obtain ⟨f, hf, hid, hb, he, hp⟩ := frameRes_some h
  obtain ⟨e', r', he', _, hle⟩ := hm.done_e f hf b hb
  rw [he] at he'
  cases he'
  exact ⟨f, hf, hid, hb, he, hp, hid ▸ lookup_of_mem_nd hwf.ids ho, hle⟩

/-- a started frame is completed -/
theorem started_res (hwf : WFProg ops) (hm : MachFacts ok ops tm0 tm fs tlog) {f : Frame TPc} (hf : f ∈ fs)
    {b : Nat} (hb : f.b = some b) : ∃ e r, frameRes fs f.id = some (b, e, r) ∧ f.pc = .done r ∧ b ≤ e := by
  obtain ⟨e, r, he, hp, hle⟩ := hm.done_e f hf b hb
  exact ⟨e, r, frameRes_of (fs_nodup hwf hm) hf hb he hp, hp, hle⟩

/-- operations of the slot declared before a completed one completed before it started -/
theorem before_done (hwf : WFProg ops) (hm : MachFacts ok ops tm0 tm fs tlog) (heb : EB fs)
    {pre post : List (Nat × TOp)} {o : Nat × TOp} (hops : ops = pre ++ o :: post)
    {b e : Nat} {r : SRes} (h : frameRes fs o.1 = some (b, e, r)) {a : Nat × TOp} (ha : a ∈ pre)
    (hs : a.2.slot = o.2.slot) : ∃ b' e' r', frameRes fs a.1 = some (b', e', r') ∧ b' ≤ e' ∧ e' < b := by
  obtain ⟨f, hf, hid, hb, _, _⟩ := frameRes_some h
  obtain ⟨g, hg, hgid, e', hge, hlt⟩ := hm.seq pre o post hops f hf hid b hb a ha hs
  obtain ⟨b', hgb⟩ := heb g hg e' hge
  obtain ⟨e'', r', hres, _, hle⟩ := started_res hwf hm hg hgb
  obtain ⟨g', hg', hgid', _, hge', _⟩ := frameRes_some hres
  have : g' = g := frame_unique (fs_nodup hwf hm) hg' hg hgid'
  subst this
  rw [hge] at hge'
  cases hge'
  exact ⟨b', e', r', hgid ▸ hres, hle, hlt⟩

/-! ### the write buffer -/

/-- one step of `wsetBefore` -/
def wfold (s : Nat) (w : KV) (o : Nat × TOp) : KV :=
  match o.2 with
  | .write s' k v => if s' == s then dictSet k v w else w
  | _ => w

theorem wsetBefore_eq (ops : List (Nat × TOp)) (id s : Nat) :
    wsetBefore ops id s = (ops.takeWhile fun o => o.1 != id).foldl (wfold s) [] := rfl

theorem wstep_of_not_write (fs : List (Frame TPc)) (s : Nat) (w : KV) (o : Nat × TOp)
    (h : ∀ k v, o.2 ≠ .write s k v) : wstep fs s w o = w := by
  obtain ⟨i, op⟩ := o
  unfold wstep stepF
  cases frameRes fs i with
  | none => rfl
  | some x =>
    cases op with
    | write s' k v =>
      by_cases e : s' = s
      · subst e; exact absurd rfl (h k v)
      · simp [stepOp, e]
    | read s' k => by_cases e : s' = s <;> simp [stepOp, e]
    | begin s' l => simp [stepOp]
    | commit s' => simp [stepOp]
    | abort s' => simp [stepOp]

theorem wstep_of_slot (fs : List (Frame TPc)) (s : Nat) (w : KV) (o : Nat × TOp) (h : o.2.slot ≠ s) :
    wstep fs s w o = w := by
  apply wstep_of_not_write
  intro k v e
  rw [e] at h
  exact h rfl

theorem wstep_eq_wfold (fs : List (Frame TPc)) (s : Nat) (w : KV) (o : Nat × TOp)
    (h : o.2.slot = s → (frameRes fs o.1).isSome) : wstep fs s w o = wfold s w o := by
  obtain ⟨i, op⟩ := o
  cases op with
  | write s' k v =>
    by_cases e : s' = s
    · subst e
      obtain ⟨x, hx⟩ := Option.isSome_iff_exists.mp (h rfl)
      simp only at hx
      simp [wstep, stepF, stepOp, hx, wfold]
    · rw [wstep_of_slot fs s w _ (by simpa [TOp.slot] using e)]
      simp [wfold, e]
  | read s' k => exact wstep_of_not_write fs s w _ (by simp)
  | begin s' l => exact wstep_of_not_write fs s w _ (by simp)
  | commit s' => exact wstep_of_not_write fs s w _ (by simp)
  | abort s' => exact wstep_of_not_write fs s w _ (by simp)

theorem foldl_wstep_eq (fs : List (Frame TPc)) (s : Nat) (l : List (Nat × TOp)) (w : KV)
    (h : ∀ a ∈ l, a.2.slot = s → (frameRes fs a.1).isSome) : l.foldl (wstep fs s) w = l.foldl (wfold s) w := by
  induction l generalizing w with
  | nil => rfl
  | cons a l ih =>
    simp only [List.foldl_cons]
    rw [wstep_eq_wfold fs s w a (h a (by simp))]
    exact ih _ fun a' ha' => h a' (by simp [ha'])

theorem foldl_wstep_id (fs : List (Frame TPc)) (s : Nat) (l : List (Nat × TOp)) (w : KV)
    (h : ∀ a ∈ l, a.2.slot ≠ s) : l.foldl (wstep fs s) w = w := by
  induction l generalizing w with
  | nil => rfl
  | cons a l ih =>
    simp only [List.foldl_cons]
    rw [wstep_of_slot fs s w a (h a (by simp))]
    exact ih _ fun a' ha' => h a' (by simp [ha'])

/-- the judge's buffer before a completed operation of the slot is the machine's -/
theorem wsetC_eq_before (hwf : WFProg ops) (hm : MachFacts ok ops tm0 tm fs tlog) (heb : EB fs)
    {pre post : List (Nat × TOp)} {o : Nat × TOp} (hops : ops = pre ++ o :: post)
    {b e : Nat} {r : SRes} (h : frameRes fs o.1 = some (b, e, r)) :
    wsetC fs o.2.slot pre = wsetBefore ops o.1 o.2.slot := by
  have hne := (pre_ne_of_nodup (hops ▸ hwf.ids)).1
  rw [wsetBefore_eq, hops, takeWhile_split pre o post hne, wsetC]
  apply foldl_wstep_eq
  intro a ha hs
  obtain ⟨b', e', r', hres, _⟩ := before_done hwf hm heb hops h ha hs
  simp [hres]

/-- after the end of the slot the buffer does not change -/
theorem wsetC_at_end (hwf : WFProg ops) {pre post : List (Nat × TOp)} {o : Nat × TOp} (hops : ops = pre ++ o :: post)
    (he : o.2.isEnd = true) : wsetC fs o.2.slot ops = wsetC fs o.2.slot pre := by
  subst hops
  have h := order_split hwf
  simp only [wsetC, List.foldl_append, List.foldl_cons]
  rw [wstep_of_not_write fs _ _ o (by intro k v e; rw [e] at he; simp [TOp.isEnd] at he)]
  apply foldl_wstep_id
  intro c hc hs
  have := (h.2 c hc hs.symm).2
  simp [he] at this

/-! ### reads -/

theorem stepF_read {s : Nat} {o : Nat × TOp} {k : Key} {val : Option Nat} {b e : Nat}
    (h : stepF fs s o = some (.read k val b e)) : ∃ r, o.2 = .read s k ∧ frameRes fs o.1 = some (b, e, r) ∧ val = resVal r := by
  obtain ⟨i, op⟩ := o
  unfold stepF at h
  cases hx : frameRes fs i with
  | none => simp [hx] at h
  | some x =>
    obtain ⟨b', e', r'⟩ := x
    simp only [hx, Option.bind_some] at h
    cases op with
    | read s' k' =>
      by_cases e1 : s' = s
      · simp only [stepOp, e1, if_true, Option.some.injEq, TStep.read.injEq] at h
        obtain ⟨rfl, rfl, rfl, rfl⟩ := h
        exact ⟨r', by rw [e1], rfl, rfl⟩
      · simp [stepOp, e1] at h
    | write s' k' v => by_cases e1 : s' = s <;> simp [stepOp, e1] at h
    | begin s' l => simp [stepOp] at h
    | commit s' => simp [stepOp] at h
    | abort s' => simp [stepOp] at h

/-- an external read of slot `s`: a completed `read` whose `fetched` event lies in its interval -/
def ExtQ (ops : List (Nat × TOp)) (fs : List (Frame TPc)) (tlog : List (Nat × Ev)) (s : Nat)
    (r : Key × Option Nat × Nat) : Prop :=
  ∃ o ∈ ops, ∃ b n r', o.2 = .read s r.1 ∧ frameRes fs o.1 = some (b, r.2.2, r') ∧ b ≤ n ∧ n ≤ r.2.2 ∧
    (n, Ev.fetched s r.1 r.2.1) ∈ tlog

theorem read_ok (hwf : WFProg ops) (hm : MachFacts ok ops tm0 tm fs tlog) (heb : EB fs) (s : Nat)
    (pre : List (Nat × TOp)) (o : Nat × TOp) (post : List (Nat × TOp)) (hops : ops = pre ++ o :: post)
    (k : Key) (val : Option Nat) (b e : Nat) (h : stepF fs s o = some (.read k val b e)) :
    readOk (ExtQ ops fs tlog s) (wsetC fs s pre) k val e := by
  obtain ⟨r, ho2, hres, hval⟩ := stepF_read h
  have ho : o ∈ ops := by simp [hops]
  obtain ⟨f, hf, hid, hb, he, hp, hlk, _⟩ := res_frame hwf hm ho hres
  rw [ho2] at hlk
  obtain ⟨c, hc, hmatch⟩ := hm.read_res f hf s k b e r hlk hb he hp
  have hw := wsetC_eq_before hwf hm heb hops hres
  simp only [ho2, TOp.slot] at hw
  rw [hid, ← hw] at hmatch
  subst hc
  simp only [resVal] at hval
  subst hval
  unfold readOk
  cases hl : (wsetC fs s pre).lookup k with
  | some v => simpa [hl] using hmatch
  | none =>
    simp only [hl] at hmatch ⊢
    obtain ⟨n, h1, h2, h3⟩ := hmatch
    exact ⟨o, ho, b, n, _, ho2, hres, h1, h2, h3⟩

end

end HappyModel.C14.SM
