import HappyProofs.C14.TxnLinkC
/-!
# Transactions, link machine → judge: `MachFacts` gives `TxnFacts`

`txnFacts_of_mach`: what the machine guarantees about the final frames and the timed ghost log of a run
(`MachFacts`, `TxnObs.lean`) implies what the judge needs about the observation `tobsOf ops fs` and the
commit history `histOf tlog` (`TxnFacts`).  Besides `MachFacts` the theorem uses `EB fs` (`TxnLinkC.lean`):
a frame with a last segment has a first segment.
-/
namespace HappyModel.C14.SM
open HappyModel.C14 HappyModel.C14.BT HappyModel.C14.TxSpec

section
variable {ok : Store → Prop} {ops : List (Nat × TOp)} {tm0 tm : TM} {fs : List (Frame TPc)} {tlog : List (Nat × Ev)}

theorem beginF_some {o : Nat × TOp} {sl : Nat × ILevel} (h : beginF fs o = some sl) :
    ∃ l b e r, o.2 = .begin sl.1 l ∧ sl.2 = lvlOf l ∧ frameRes fs o.1 = some (b, e, r) := by
  obtain ⟨i, op⟩ := o
  unfold beginF at h
  cases hx : frameRes fs i with
  | none => simp [hx] at h
  | some x =>
    obtain ⟨b, e, r⟩ := x
    simp only [hx, Option.bind_some] at h
    cases op with
    | begin s l =>
      simp only [beginOp, Option.some.injEq] at h
      subst h
      exact ⟨l, b, e, r, rfl, rfl, rfl⟩
    | _ => simp [beginOp] at h

theorem commitF_some {s : Nat} {o : Nat × TOp} {v : Nat × Bool} (h : commitF fs s o = some v) :
    ∃ e r, o.2 = .commit s ∧ frameRes fs o.1 = some (v.1, e, r) ∧ v.2 = resFlag r := by
  obtain ⟨i, op⟩ := o
  unfold commitF at h
  cases hx : frameRes fs i with
  | none => simp [hx] at h
  | some x =>
    obtain ⟨b, e, r⟩ := x
    simp only [hx, Option.bind_some] at h
    cases op with
    | commit s' =>
      by_cases e1 : s' = s
      · simp only [commitOp, e1, if_true, Option.some.injEq] at h
        subst h
        exact ⟨e, r, by rw [e1], rfl, rfl⟩
      · simp [commitOp, e1] at h
    | _ => simp [commitOp] at h

theorem committed_commit {t : TObs} (h : t.committed = true) : t.commit = some (t.commitPos, true) := by
  unfold TObs.committed at h
  unfold TObs.commitPos
  split at h
  · next b hb => simp [hb]
  · cases h

/-- the commit of the observation is the completed `commit` operation of the slot -/
theorem commit_found (hwf : WFProg ops) {s : Nat} {o : Nat × TOp} (ho : o ∈ ops) (ho2 : o.2 = .commit s)
    {n e : Nat} {r : SRes} (hres : frameRes fs o.1 = some (n, e, r)) :
    ops.findSome? (commitF fs s) = some (n, resFlag r) := by
  have hc : commitF fs s o = some (n, resFlag r) := by simp [commitF, hres, ho2, commitOp]
  cases hfs : ops.findSome? (commitF fs s) with
  | none =>
    rw [List.findSome?_eq_none_iff] at hfs
    rw [hfs o ho] at hc
    cases hc
  | some v =>
    obtain ⟨o', ho', hv⟩ := List.exists_of_findSome?_eq_some hfs
    obtain ⟨e', r', ho2', _, _⟩ := commitF_some hv
    have : o' = o := end_unique hwf ho' ho (by rw [ho2, ho2']) (by rw [ho2']; rfl) (by rw [ho2]; rfl)
    subst this
    rw [hc] at hv
    exact hv.symm ▸ rfl

/-- the walk of the observation of a slot -/
theorem obs_walk (hwf : WFProg ops) (hm : MachFacts ok ops tm0 tm fs tlog) (heb : EB fs) (sl : Nat × ILevel) :
    (obsOf ops fs sl).ownBad = false ∧ (obsOf ops fs sl).wset = wsetC fs sl.1 ops ∧
    ∀ r ∈ (obsOf ops fs sl).ext, ExtQ ops fs tlog sl.1 r :=
  walk_obs fs (ExtQ ops fs tlog sl.1) ops sl (read_ok hwf hm heb sl.1)

/-- the write set of the observation is the machine's at the `commit` operation -/
theorem obs_wset (hwf : WFProg ops) (hm : MachFacts ok ops tm0 tm fs tlog) (heb : EB fs) (sl : Nat × ILevel)
    {pre post : List (Nat × TOp)} {o : Nat × TOp} (hops : ops = pre ++ o :: post) (ho2 : o.2 = .commit sl.1)
    {n e : Nat} {r : SRes} (hres : frameRes fs o.1 = some (n, e, r)) :
    (obsOf ops fs sl).wset = wsetBefore ops o.1 sl.1 := by
  have hs : o.2.slot = sl.1 := by rw [ho2]; rfl
  have h1 := wsetC_at_end (fs := fs) hwf hops (by rw [ho2]; rfl)
  have h2 := wsetC_eq_before hwf hm heb hops hres
  rw [hs] at h1 h2
  rw [(obs_walk hwf hm heb sl).2.1, h1, h2]

/-- a committed observation: its `commit` operation and its event -/
theorem obs_commit (hwf : WFProg ops) (hm : MachFacts ok ops tm0 tm fs tlog) (heb : EB fs) (sl : Nat × ILevel)
    (hc : (obsOf ops fs sl).committed = true) :
    ∃ pre o post e r, ops = pre ++ o :: post ∧ o.2 = .commit sl.1 ∧
      frameRes fs o.1 = some ((obsOf ops fs sl).commitPos, e, r) ∧
      ((obsOf ops fs sl).commitPos, Ev.committed sl.1 ((obsOf ops fs sl).wset)) ∈ tlog := by
  have h := committed_commit hc
  have h' : ops.findSome? (commitF fs sl.1) = some ((obsOf ops fs sl).commitPos, true) := h
  obtain ⟨o, ho, hv⟩ := List.exists_of_findSome?_eq_some h'
  obtain ⟨e, r, ho2, hres, hfl⟩ := commitF_some hv
  simp only at hres hfl
  obtain ⟨pre, post, hops⟩ := List.append_of_mem ho
  obtain ⟨f, hf, hid, hb, _, hp, hlk, _⟩ := res_frame hwf hm ho hres
  rw [ho2] at hlk
  obtain ⟨fl, hr, hev⟩ := hm.commit_res f hf sl.1 _ r hlk hb hp
  subst hr
  simp only [resFlag] at hfl
  have := hev hfl.symm
  rw [hid, ← obs_wset hwf hm heb sl hops ho2 hres] at this
  exact ⟨pre, o, post, e, _, hops, ho2, hres, this⟩

/-- the `begin` of an observed slot -/
theorem slot_begin (hwf : WFProg ops) (hm : MachFacts ok ops tm0 tm fs tlog) {sl : Nat × ILevel}
    (hsl : sl ∈ ops.filterMap (beginF fs)) :
    ∃ ob ∈ ops, ∃ l nb eb rb tx, ob.2 = .begin sl.1 l ∧ sl.2 = lvlOf l ∧ frameRes fs ob.1 = some (nb, eb, rb) ∧
      nb ≤ eb ∧ (nb, Ev.began sl.1) ∈ tlog ∧ tm.tx? sl.1 = some tx ∧ tx.level = l := by
  obtain ⟨ob, hob, hbf⟩ := List.mem_filterMap.mp hsl
  obtain ⟨l, nb, eb, rb, h2, hl, hres⟩ := beginF_some hbf
  obtain ⟨f, hf, _, hb, _, _, hlk, hle⟩ := res_frame hwf hm hob hres
  rw [h2] at hlk
  obtain ⟨hev, tx, htx, hlv⟩ := hm.begin_ev f hf sl.1 l nb hlk hb
  exact ⟨ob, hob, l, nb, eb, rb, tx, h2, hl, hres, hle, hev, htx, hlv⟩

/-- a completed operation of the slot other than `begin` started after the `begin` ended -/
theorem after_begin (hwf : WFProg ops) (hm : MachFacts ok ops tm0 tm fs tlog) (heb : EB fs) {s : Nat}
    {ob : Nat × TOp} (hob : ob ∈ ops) {l : Level} (hob2 : ob.2 = .begin s l) {nb eb : Nat} {rb : SRes}
    (hbres : frameRes fs ob.1 = some (nb, eb, rb)) {o : Nat × TOp} (ho : o ∈ ops) (hs : o.2.slot = s)
    (hnb : o.2.isBegin = false) {b e : Nat} {r : SRes} (hres : frameRes fs o.1 = some (b, e, r)) : eb < b := by
  obtain ⟨pre, post, hops⟩ := List.append_of_mem ho
  obtain ⟨a, ha, l', ha2⟩ := begin_before (hops ▸ hwf) hnb
  have haops : a ∈ ops := by rw [hops]; simp [ha]
  have hsa : a.2.slot = o.2.slot := by rw [ha2]; rfl
  have : a = ob := begin_unique hwf haops hob (by rw [hsa, hs, hob2]; rfl) (by rw [ha2]; rfl) (by rw [hob2]; rfl)
  subst this
  obtain ⟨b', e', r', hres', _, hlt⟩ := before_done hwf hm heb hops hres ha hsa
  rw [hbres] at hres'
  simp only [Option.some.injEq, Prod.mk.injEq] at hres'
  omega

end

/-- **Machine facts imply the judge's facts.** -/
theorem txnFacts_of_mach (ok : Store → Prop) (ops : List (Nat × TOp)) (tm0 tm : TM) (fs : List (Frame TPc))
    (tlog : List (Nat × Ev)) (hwf : WFProg ops) (hm : MachFacts ok ops tm0 tm fs tlog) (heb : EB fs) :
    TxnFacts tm0.store.getSync tm.store.getSync (tobsOf ops fs) (histOf tlog) := by
  rw [tobsOf_eq]
  have hmem : ∀ t ∈ (ops.filterMap (beginF fs)).map (obsOf ops fs), ∃ sl ∈ ops.filterMap (beginF fs), t = obsOf ops fs sl := by
    intro t ht
    obtain ⟨sl, hsl, e⟩ := List.mem_map.mp ht
    exact ⟨sl, hsl, e.symm⟩
  refine ⟨?_, histOf_sorted hm.times, ?_, ?_, ?_, ?_, ?_, ?_⟩
  · -- slots
    rw [List.map_map, List.Nodup, List.pairwise_map]
    refine List.Pairwise.filterMap _ ?_ hwf.order
    intro a a' hord sl hsl sl' hsl' e
    obtain ⟨l, _, _, _, h2, _⟩ := beginF_some hsl
    obtain ⟨l', _, _, _, h2', _⟩ := beginF_some hsl'
    have e' : sl.1 = sl'.1 := e
    have := (hord (by rw [h2, h2', e']; rfl)).1
    rw [h2'] at this
    cases this
  · -- own
    intro t ht
    obtain ⟨sl, _, rfl⟩ := hmem t ht
    exact (obs_walk hwf hm heb sl).1
  · -- comm_hist
    intro t ht hc
    obtain ⟨sl, _, rfl⟩ := hmem t ht
    obtain ⟨_, _, _, _, _, _, _, _, hev⟩ := obs_commit hwf hm heb sl hc
    exact mem_histOf.mpr hev
  · -- hist_comm
    intro c hc
    obtain ⟨f, hf, hlk, hb, hp, hw⟩ := hm.commit_ev c.1 c.2.1 c.2.2 (mem_histOf.mp hc)
    have ho : (f.id, TOp.commit c.2.1) ∈ ops := mem_of_lookup hlk
    obtain ⟨e, r, hres, hp', _⟩ := started_res hwf hm hf hb
    rw [hp] at hp'
    cases hp'
    obtain ⟨pre, post, hops⟩ := List.append_of_mem ho
    obtain ⟨a, ha, l, ha2⟩ := begin_before (o := (f.id, TOp.commit c.2.1)) (hops ▸ hwf) rfl
    simp only [TOp.slot] at ha2
    obtain ⟨b', e', r', hres', _⟩ := before_done (o := (f.id, TOp.commit c.2.1)) hwf hm heb hops hres ha
      (by rw [ha2]; rfl)
    have hbf : beginF fs a = some (c.2.1, lvlOf l) := by simp [beginF, hres', ha2, beginOp]
    have hsl : (c.2.1, lvlOf l) ∈ ops.filterMap (beginF fs) :=
      List.mem_filterMap.mpr ⟨a, by rw [hops]; simp [ha], hbf⟩
    have hcm : (obsOf ops fs (c.2.1, lvlOf l)).commit = some (c.1, true) :=
      commit_found (o := (f.id, TOp.commit c.2.1)) hwf ho rfl hres
    refine ⟨_, List.mem_map_of_mem hsl, ?_, ?_, rfl, ?_⟩
    · simp [TObs.committed, hcm]
    · simp [TObs.commitPos, hcm]
    · rw [hw]
      exact obs_wset (o := (f.id, TOp.commit c.2.1)) hwf hm heb (c.2.1, lvlOf l) hops rfl hres
  · -- final
    intro k
    rw [hm.inv.store_eq k, replay_eq_stateEnd]
  · -- ser
    intro t ht hc hlv r hr
    obtain ⟨sl, hsl, rfl⟩ := hmem t ht
    obtain ⟨ob, hob, l, nb, eb, rb, tx, hob2, hl, hbres, _, _, htx, htl⟩ := slot_begin hwf hm hsl
    have hser : tx.level = .ser := by
      rw [htl]
      exact lvlOf_ser (hl ▸ hlv)
    obtain ⟨pre, o, post, e, rc, hops, ho2, hres, hev⟩ := obs_commit hwf hm heb sl hc
    obtain ⟨ro, hro, b, n, r', hro2, hrres, hbn, hne, hfev⟩ := (obs_walk hwf hm heb sl).2.2 r hr
    have hrpre : ro ∈ pre := before_end (hops ▸ hwf) (hops ▸ hro) (by rw [hro2, ho2]; rfl) (by rw [ho2]; rfl)
      (by rw [hro2]; rfl)
    obtain ⟨b', e', r'', hres', _, hlt⟩ := before_done hwf hm heb hops hres hrpre (by rw [hro2, ho2]; rfl)
    rw [hrres] at hres'
    simp only [Option.some.injEq, Prod.mk.injEq] at hres'
    obtain ⟨tpre, tpost, htlog, hpre, hpost⟩ := split_time hm.times hev
    have hfpre : (n, Ev.fetched sl.1 r.1 r.2.1) ∈ tpre :=
      mem_pre_of_lt (c := (_, _)) hpost (htlog ▸ hfev) (by show n < (obsOf ops fs sl).commitPos; omega)
    have hval := hm.inv.comm (tpre.map (·.2)) (tpost.map (·.2)) sl.1 (obsOf ops fs sl).wset (by rw [htlog]; simp)
      tx htx hser r.1 r.2.1
      (List.mem_map.mpr ⟨_, hfpre, rfl⟩)
    rw [hval, htlog]
    refine congrFun (stateAt_split _ tpre _ _ hpre ?_).symm r.1
    intro y hy
    rcases List.mem_cons.mp hy with rfl | hy
    · exact Nat.le_refl _
    · exact Nat.le_of_lt (hpost y hy)
  · -- si
    intro t ht hlv
    obtain ⟨sl, hsl, rfl⟩ := hmem t ht
    obtain ⟨ob, hob, l, nb, eb, rb, tx, hob2, hl, hbres, hnbe, hbev, htx, htl⟩ := slot_begin hwf hm hsl
    have hl' : lvlOf l = .si := by rw [← hl]; exact hlv
    have hsi : tx.level ≠ .rc := by
      rw [htl, lvlOf_si hl']
      simp
    have hext : ∀ r ∈ (obsOf ops fs sl).ext, ∃ n, nb < n ∧ n ≤ r.2.2 ∧ (n, Ev.fetched sl.1 r.1 r.2.1) ∈ tlog := by
      intro r hr
      obtain ⟨ro, hro, b, n, r', hro2, hrres, hbn, hne, hfev⟩ := (obs_walk hwf hm heb sl).2.2 r hr
      have := after_begin hwf hm heb hob hob2 hbres hro (by rw [hro2]; rfl) (by rw [hro2]; rfl) hrres
      exact ⟨n, by omega, hne, hfev⟩
    refine ⟨nb, ?_, ?_, ?_⟩
    · intro r hr
      obtain ⟨n, h1, h2, _⟩ := hext r hr
      omega
    · intro c hc hcs
      obtain ⟨f, hf, hlk, hb, hp, hw⟩ := hm.commit_ev c.1 c.2.1 c.2.2 (mem_histOf.mp hc)
      have ho : (f.id, TOp.commit c.2.1) ∈ ops := mem_of_lookup hlk
      obtain ⟨e, r, hres, _, _⟩ := started_res hwf hm hf hb
      have := after_begin (o := (f.id, TOp.commit c.2.1)) hwf hm heb hob hob2 hbres ho hcs rfl hres
      omega
    · intro r hr
      obtain ⟨n, h1, _, hfev⟩ := hext r hr
      obtain ⟨tpre, tpost, htlog, hpre, hpost⟩ := split_time hm.times hbev
      have hfpost : (n, Ev.fetched sl.1 r.1 r.2.1) ∈ tpost :=
        mem_post_of_gt (c := (_, _)) hpre (htlog ▸ hfev) h1
      obtain ⟨mid, post', hmid⟩ := List.append_of_mem hfpost
      have hevs : tlog.map (·.2) = tpre.map (·.2) ++ Ev.began sl.1 :: mid.map (·.2) ++
          Ev.fetched sl.1 r.1 r.2.1 :: post'.map (·.2) := by
        rw [htlog, hmid]; simp
      have hb := hm.inv2.began (tpre.map (·.2)) (mid.map (·.2) ++ Ev.fetched sl.1 r.1 r.2.1 :: post'.map (·.2)) sl.1
        (by rw [hevs]; simp) tx htx
      have hrd := hm.inv2.reads (tpre.map (·.2) ++ Ev.began sl.1 :: mid.map (·.2)) (post'.map (·.2)) sl.1 r.1 r.2.1
        hevs tx htx hsi
      rw [hrd, hb, replayN_prefix, htlog]
      refine congrFun (stateAt_split _ tpre _ _ hpre ?_).symm r.1
      intro y hy
      rcases List.mem_cons.mp hy with rfl | hy
      · exact Nat.le_refl _
      · exact Nat.le_of_lt (hpost y hy)

/-! ### non-vacuity: a concrete run-shaped instance

Slot 0 (SERIALIZABLE) reads key 5 from the store, writes it, reads its own write and commits; slot 1
(SNAPSHOT_ISOLATION) reads key 5 in between; the last operation never started.  The observation has both
transactions, the committed one with an external read, an own read and the write set of the commit
event; program and frames satisfy the decidable hypotheses.  (`Inv`/`Inv2` are not decidable; the
assembling theorem in `TxnTrace.lean` provides the end-to-end instance.) -/

def lkOps : List (Nat × TOp) :=
  [(0, .begin 0 .ser), (1, .begin 1 .si), (2, .read 0 5), (3, .write 0 5 7), (4, .read 0 5), (5, .read 1 5),
   (6, .commit 0), (7, .read 1 6)]

def lkFs : List (Frame TPc) :=
  [{ id := 0, pc := .done (.num 1), b := some 0, e := some 1 },
   { id := 1, pc := .done (.num 2), b := some 2, e := some 3 },
   { id := 2, pc := .done (.val (some 50)), b := some 4, e := some 6 },
   { id := 3, pc := .done .ok, b := some 7, e := some 8 },
   { id := 4, pc := .done (.val (some 7)), b := some 9, e := some 9 },
   { id := 5, pc := .done (.val (some 50)), b := some 10, e := some 12 },
   { id := 6, pc := .done (.flag true), b := some 13, e := some 14 },
   { id := 7, pc := .start (.read 1 6) }]

def lkTlog : List (Nat × Ev) :=
  [(0, .began 0), (2, .began 1), (5, .fetched 0 5 (some 50)), (11, .fetched 1 5 (some 50)), (13, .committed 0 [(5, 7)])]

example : WFProg lkOps := by decide

example : EB lkFs := by
  intro f hf e he
  simp only [lkFs, List.mem_cons, List.not_mem_nil, or_false] at hf
  rcases hf with rfl | rfl | rfl | rfl | rfl | rfl | rfl | rfl <;> simp_all

example : lkFs.map (·.id) = lkOps.map (·.1) ∧ (lkTlog.map (·.1)).Pairwise (· < ·) := by decide

example : (tobsOf lkOps lkFs).map (fun t => (t.slot, t.level, t.committed, t.commitPos)) =
    [(0, .ser, true, 13), (1, .si, false, 0)] := by decide

example : (tobsOf lkOps lkFs).map (fun t => (t.ext, t.ownBad, t.wset)) =
    [([(5, some 50, 6)], false, [(5, 7)]), ([(5, some 50, 12)], false, [])] := by decide

example : histOf lkTlog = [(13, 0, [(5, 7)])] ∧ wsetBefore lkOps 6 0 = [(5, 7)] ∧ wsetBefore lkOps 2 0 = [] := by decide

end HappyModel.C14.SM
