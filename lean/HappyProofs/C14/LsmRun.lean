import HappyProofs.C14.LsmInv2
/-! The structural invariant holds along every run of the segment machine. -/
namespace HappyModel.C14

/-- frames that need nothing from the state -/
def Pc.plain : Pc → Bool
  | .pFlush _ _ => false
  | .pCompact _ => false
  | _ => true

theorem plain_ok {cfg : Cfg} {s : St} {pc : Pc} (h : pc.plain = true) :
    POk cfg s pc ∧ pc.isCompact = false ∧ flushId pc = none := by
  cases pc <;> simp [Pc.plain] at h <;> exact ⟨trivial, rfl, rfl⟩

theorem getLevels_plain (cfg : Cfg) (s : St) (k : Key) (i : Nat) :
    (getLevels cfg s k i).1 = s ∧ (getLevels cfg s k i).2.plain = true := by
  unfold getLevels; split <;> exact ⟨rfl, rfl⟩

theorem getStart_plain (cfg : Cfg) (s : St) (k : Key) :
    (getStart cfg s k).1 = s ∧ (getStart cfg s k).2.plain = true := by
  unfold getStart
  split
  · exact ⟨rfl, rfl⟩
  · split
    · exact ⟨rfl, rfl⟩
    · exact getLevels_plain ..

theorem getResume_plain (cfg : Cfg) (s : St) (k : Key) (i : Nat) (t : Tab) (r : List Tab) :
    (getResume cfg s k i t r).1 = s ∧ (getResume cfg s k i t r).2.plain = true := by
  unfold getResume
  split
  · exact ⟨rfl, rfl⟩
  · split
    · exact ⟨rfl, rfl⟩
    · exact getLevels_plain ..

theorem scanLevels_plain (s : St) (lo hi : Key) (i : Nat) (acc : Data) :
    (scanLevels s lo hi i acc).1 = s ∧ (scanLevels s lo hi i acc).2.plain = true := by
  unfold scanLevels; split <;> exact ⟨rfl, rfl⟩

theorem scanStart_plain (s : St) (lo hi : Key) :
    (scanStart s lo hi).1 = s ∧ (scanStart s lo hi).2.plain = true := by
  unfold scanStart; exact scanLevels_plain ..

theorem scanResume_plain (s : St) (lo hi : Key) (i : Nat) (t : Tab) (r : List Tab) (acc : Data) :
    (scanResume s lo hi i t r acc).1 = s ∧ (scanResume s lo hi i t r acc).2.plain = true := by
  unfold scanResume
  simp only
  split
  · exact ⟨rfl, rfl⟩
  · exact scanLevels_plain ..

def b2n (b : Bool) : Nat := if b then 1 else 0

/-- what one segment does to the structural invariant -/
structure StepOk (cfg : Cfg) (s : St) (pc : Pc) (s' : St) (pc' : Pc) : Prop where
  sinv : SInv cfg s'
  pok : POk cfg s' pc'
  other : ∀ q, POk cfg s q → Compat pc q → POk cfg s' q
  cnt : b2n s'.compacting + b2n pc.isCompact = b2n s.compacting + b2n pc'.isCompact
  fid : ∀ x, flushId pc' = some x → x = s.memId ∧ flushId pc = none

theorem stepOk_core {cfg : Cfg} {s s' : St} {pc pc' : Pc} (hs : SInv cfg s) (c : SameCore s s')
    (hm : Sorted s.mem → Sorted s'.mem) (h1 : pc.isCompact = false) (h2 : pc'.plain = true) :
    StepOk cfg s pc s' pc' := by
  obtain ⟨a, b, d⟩ := plain_ok (cfg := cfg) (s := s') h2
  refine ⟨hs.of_core c (hm hs.memSorted), a, fun q hq _ => hq.of_core c, ?_, fun x hx => ?_⟩
  · rw [c.compacting, h1, b]
  · rw [d] at hx; cases hx

theorem sameCore_refl (s : St) : SameCore s s := ⟨rfl, rfl, rfl, rfl, rfl⟩

theorem plain_of_nc {pc : Pc} (h1 : pc.isCompact = false) (h2 : flushId pc = none) : pc.plain = true := by
  cases pc <;> simp [Pc.isCompact, flushId] at h1 h2 <;> rfl

theorem stepOp_ok {cfg : Cfg} {s : St} {pc : Pc} (hs : SInv cfg s) (hp : POk cfg s pc) :
    StepOk cfg s pc (stepOp cfg s pc).1 (stepOp cfg s pc).2 := by
  cases pc with
  | pStart k c =>
    obtain ⟨a, b, d, e⟩ := putStart_core cfg s k c
    exact stepOk_core hs a b rfl (plain_of_nc d e)
  | pWal k c q =>
    obtain ⟨a, b, d, e⟩ := walWritten_core cfg s k c q
    exact stepOk_core hs a b rfl (plain_of_nc d e)
  | pSync k c q =>
    obtain ⟨a, b, d, e⟩ := walSynced_core s k c q
    exact stepOk_core hs a b rfl (plain_of_nc d e)
  | pMem mid =>
    show StepOk cfg s _ (afterMem cfg s mid).1 (afterMem cfg s mid).2
    unfold afterMem
    split
    · obtain ⟨a, b, d, e⟩ := flushStart_pc cfg s
      refine ⟨sinv_flushStart hs, a, fun q hq _ => flushStart_other hq, ?_, fun x hx => ⟨e x hx, rfl⟩⟩
      rw [d, b]; rfl
    · exact stepOk_core hs (sameCore_refl s) id rfl rfl
  | pFlush t b =>
    show StepOk cfg s _ (flushInstall cfg s t b).1 (flushInstall cfg s t b).2
    rw [flushInstall_eq]
    have h1 := sinv_flushS1 hs b hp
    split
    · obtain ⟨a, d, e⟩ := compactStart_spec cfg (flushS1 cfg s t b)
      have hsi : SInv cfg (compactStart cfg (flushS1 cfg s t b)).1 := by
        refine h1.of_eq a.levels a.imms a.memId a.nextId ?_
        · have := h1.memSorted
          have hm : (compactStart cfg (flushS1 cfg s t b)).1.mem = (flushS1 cfg s t b).mem := by
            unfold compactStart; split
            · rfl
            · split
              · rfl
              · split <;> rfl
          rw [hm]; exact this
      rcases d with ⟨d1, d2⟩ | ⟨d1, d2, j, d3, d4⟩
      · have hpl := plain_of_nc d1 e
        refine ⟨hsi, (plain_ok hpl).1, fun q hq hc => ?_, ?_, fun x hx => by rw [e] at hx; cases hx⟩
        · have := flushS1_other hs b hq hc
          cases q <;> simp only [POk] at * <;> try trivial
          · rw [a.imms]; exact this
          · rw [a.levels, d2]; exact this
        · rw [d2, d1]; rfl
      · refine ⟨hsi, ?_, fun q hq hc => ?_, ?_, fun x hx => by rw [e] at hx; cases hx⟩
        · rw [d3]; simp only [POk]; rw [a.levels]; exact ⟨d4, d2⟩
        · have := flushS1_other hs b hq hc
          cases q <;> simp only [POk] at * <;> try trivial
          · rw [a.imms]; exact this
          · have : (flushS1 cfg s t b).compacting = true := this.2
            rw [this] at d1; cases d1
        · rw [d2, d3]
          have : s.compacting = false := d1
          rw [this]; rfl
    · refine ⟨h1, trivial, fun q hq hc => flushS1_other hs b hq hc, rfl, fun x hx => by cases hx⟩
  | pCompact j =>
    refine ⟨sinv_compactInstall hs hp.1, trivial, fun q hq hc => compactInstall_other hq hc, ?_, fun x hx => by cases hx⟩
    show b2n false + b2n true = b2n s.compacting + b2n false
    rw [hp.2]; rfl
  | gStart k =>
    obtain ⟨a, b⟩ := getStart_plain cfg s k
    show StepOk cfg s _ (getStart cfg s k).1 (getStart cfg s k).2
    rw [a]; exact stepOk_core hs (sameCore_refl s) id rfl b
  | gAt k i t r =>
    obtain ⟨a, b⟩ := getResume_plain cfg s k i t r
    show StepOk cfg s _ (getResume cfg s k i t r).1 (getResume cfg s k i t r).2
    rw [a]; exact stepOk_core hs (sameCore_refl s) id rfl b
  | sStart lo hi =>
    obtain ⟨a, b⟩ := scanStart_plain s lo hi
    show StepOk cfg s _ (scanStart s lo hi).1 (scanStart s lo hi).2
    rw [a]; exact stepOk_core hs (sameCore_refl s) id rfl b
  | sAt lo hi i t r acc =>
    obtain ⟨a, b⟩ := scanResume_plain s lo hi i t r acc
    show StepOk cfg s _ (scanResume s lo hi i t r acc).1 (scanResume s lo hi i t r acc).2
    rw [a]; exact stepOk_core hs (sameCore_refl s) id rfl b
  | done r => exact stepOk_core hs (sameCore_refl s) id rfl rfl

end HappyModel.C14
