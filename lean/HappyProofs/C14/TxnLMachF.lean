import HappyProofs.C14.TxnLMachE
/-!
# Transactions at run level, part F: the segments of `stepT` have the effects `Eff1` / `Eff2`
-/
namespace HappyModel.C14.SM.LM
open HappyModel.C14 HappyModel.C14.BT

variable {ok : Store → Prop} {init : Key → Option Nat} {ops : List (Nat × TOp)} {tm : TM}
  {fs : List (Frame TPc)} {n : Nat} {tlog : List (Nat × Ev)}

theorem mem_log_new (tlog : List (Nat × Ev)) (n : Nat) (e : Ev) :
    (n, e) ∈ tlog ++ [e].map fun e => (n, e) := by simp

/-- the first segment of an operation -/
theorem readAdvance_cases (tm : TM) (s : Nat) (k : Key) (p : SPc) :
    (∃ r, (readAdvance tm s k p).2 = .done r) ∨ ∃ p', (readAdvance tm s k p).2 = .rd s k p' := by
  unfold readAdvance
  split
  · exact .inl ⟨_, rfl⟩
  · exact .inl ⟨_, rfl⟩
  · exact .inr ⟨_, rfl⟩

theorem eff1_stepT (ok_put : ∀ s k v, ok s → ok (s.putSync k v))
    (get_put : ∀ s k v k', ok s → (s.putSync k v).getSync k' = if k' = k then some v else s.getSync k')
    (hF1 : ∀ s k r, (readAdvance (tm.readStart s k) s k (.start (.get k))).2 = .done r →
      r = .val (fetchVal (tm.readStart s k) s k))
    (hI : Inv ok init tm (tlog.map (·.2))) (hI2 : Inv2 init tm (tlog.map (·.2))) (id : Nat) (op : TOp)
    (hw : curW tm op.slot = wsetBefore ops id op.slot)
    (hact : op.isBegin = false → ∃ tx, tm.tx? op.slot = some tx ∧ tx.stat = .active)
    (hfresh : op.isBegin = true → tm.tx? op.slot = none) :
    ∃ evs, Eff1 ok init ops tm tlog n id op (stepT tm (.start op)).1 (stepT tm (.start op)).2 evs := by
  cases op with
  | «begin» s l =>
    have hx : tm.tx? s = none := hfresh rfl
    have i1 : Inv ok init (tm.begin s l) (tlog.map (·.2) ++ [.began s]) := by
      simpa [stepA, hx] using hI.step ok_put get_put (.begin s l)
    have i2 : Inv2 init (tm.begin s l) (tlog.map (·.2) ++ [.began s]) := by
      simpa [stepA, hx] using hI2.step ok_put get_put hI (.begin s l)
    have u := upd_begin (tm := tm) l hx
    refine ⟨[.began s], i1, i2, Nat.le_refl _, u, fun f' hpc _ => ?_, fun s' w h => by simp at h⟩
    obtain ⟨tx', h1, _, _, _, h5, _⟩ := u.self
    exact ⟨⟨_, .inl hpc⟩, mem_log_new _ _ _, tx', h1, h5 l rfl⟩
  | write s k v =>
    obtain ⟨tx, hx, ha⟩ := hact rfl
    replace hx : tm.tx? s = some tx := hx
    have i1 : Inv ok init (tm.write s k v) (tlog.map (·.2) ++ []) := by
      simpa [stepA] using hI.step ok_put get_put (.write s k v)
    have i2 : Inv2 init (tm.write s k v) (tlog.map (·.2) ++ []) := by
      simpa [stepA] using hI2.step ok_put get_put hI (.write s k v)
    exact ⟨[], i1, i2, Nat.zero_le _, upd_write hx ha, fun f' hpc _ => ⟨_, .inl hpc⟩, fun s' w h => by simp at h⟩
  | abort s =>
    obtain ⟨tx, hx, ha⟩ := hact rfl
    replace hx : tm.tx? s = some tx := hx
    have i1 : Inv ok init (tm.abort s) (tlog.map (·.2) ++ []) := by
      simpa [stepA] using hI.step ok_put get_put (.abort s)
    have i2 : Inv2 init (tm.abort s) (tlog.map (·.2) ++ []) := by
      simpa [stepA] using hI2.step ok_put get_put hI (.abort s)
    exact ⟨[], i1, i2, Nat.zero_le _, upd_abort hx ha, fun f' hpc _ => ⟨_, hpc⟩, fun s' w h => by simp at h⟩
  | commit s =>
    obtain ⟨tx, hx, ha⟩ := hact rfl
    replace hx : tm.tx? s = some tx := hx
    have hw' : tx.wset = wsetBefore ops id s := by simpa [curW, TOp.slot, hx] using hw
    cases hc : (tm.commit s).2 with
    | true =>
      have e2 : (stepT tm (.start (.commit s))).2 = .fin (.flag true) := by simp [stepT, hc]
      have i1 : Inv ok init (tm.commit s).1 (tlog.map (·.2) ++ [.committed s tx.wset]) := by
        simpa [stepA, hx, hc] using hI.step ok_put get_put (.commit s)
      have i2 : Inv2 init (tm.commit s).1 (tlog.map (·.2) ++ [.committed s tx.wset]) := by
        simpa [stepA, hx, hc] using hI2.step ok_put get_put hI (.commit s)
      rw [e2]
      refine ⟨[.committed s tx.wset], i1, i2, Nat.le_refl _, upd_commit hx ha, fun f' hpc _ => ?_, fun s' w h => ?_⟩
      · exact ⟨.inl hpc, fun _ => by rw [← hw']; exact mem_log_new _ _ _⟩
      · simp only [List.mem_singleton, Ev.committed.injEq] at h
        obtain ⟨rfl, rfl⟩ := h
        exact ⟨rfl, rfl, hw'⟩
    | false =>
      have e2 : (stepT tm (.start (.commit s))).2 = .done (.flag false) := by simp [stepT, hc]
      have i1 : Inv ok init (tm.commit s).1 (tlog.map (·.2) ++ []) := by
        simpa [stepA, hx, hc] using hI.step ok_put get_put (.commit s)
      have i2 : Inv2 init (tm.commit s).1 (tlog.map (·.2) ++ []) := by
        simpa [stepA, hx, hc] using hI2.step ok_put get_put hI (.commit s)
      rw [e2]
      refine ⟨[], i1, i2, Nat.zero_le _, upd_commit hx ha, fun f' hpc _ => ?_, fun s' w h => by simp at h⟩
      refine ⟨.inr ⟨false, hpc⟩, fun h => ?_⟩
      rw [hpc] at h
      rcases h with h | h <;> cases h
  | read s k =>
    obtain ⟨tx, hx, ha⟩ := hact rfl
    replace hx : tm.tx? s = some tx := hx
    have hw' : tx.wset = wsetBefore ops id s := by simpa [curW, TOp.slot, hx] using hw
    have i1 : Inv ok init (tm.readStart s k) (tlog.map (·.2) ++ []) := by
      simpa [stepA] using hI.step ok_put get_put (.readStart s k)
    have i2 : Inv2 init (tm.readStart s k) (tlog.map (·.2) ++ []) := by
      simpa [stepA] using hI2.step ok_put get_put hI (.readStart s k)
    have u := upd_read (tm := tm) (k := k) hx ha
    obtain ⟨tx1, h1, _, _, h4, _, h6⟩ := u.self
    have hk1 : k ∈ tx1.rset := h6 k rfl
    have ha1 : tx1.stat = .active := h4 rfl
    simp only [TOp.slot] at h1
    cases hlk : tx.wset.lookup k with
    | some v =>
      have est : stepT tm (.start (.read s k)) = (tm.readStart s k, .done (.val (some v))) := by
        simp [stepT, hx, hlk]
      rw [est]
      refine ⟨[], i1, i2, Nat.zero_le _, u, fun f' hpc _ => ?_, fun s' w h => by simp at h⟩
      refine .inr ⟨some v, hpc, fun v' hv' => ?_, fun hn => ?_⟩
      · rw [← hw', hlk] at hv'
        rw [hv']
      · rw [← hw', hlk] at hn
        cases hn
    | none =>
      have est0 : stepT tm (.start (.read s k)) = readAdvance (tm.readStart s k) s k (.start (.get k)) := by
        simp [stepT, hx, hlk]
      have hlk' : (wsetBefore ops id s).lookup k = none := by rw [← hw']; exact hlk
      have est1 : (readAdvance (tm.readStart s k) s k (.start (.get k))).1 = tm.readStart s k :=
        readAdvance_state _ _ _ _
      rcases readAdvance_cases (tm.readStart s k) s k (.start (.get k)) with ⟨r, hr⟩ | ⟨p, hp⟩
      · have hrv := hF1 s k r hr
        subst hrv
        have est : stepT tm (.start (.read s k)) =
            (tm.readStart s k, .done (.val (fetchVal (tm.readStart s k) s k))) := by
          rw [est0]; exact Prod.ext est1 hr
        rw [est]
        have j1 : Inv ok init (tm.readStart s k)
            (tlog.map (·.2) ++ [.fetched s k (fetchVal (tm.readStart s k) s k)]) := by
          simpa [stepA, h1, ha1, hk1] using i1.step ok_put get_put (.readFetch s k)
        have j2 : Inv2 init (tm.readStart s k)
            (tlog.map (·.2) ++ [.fetched s k (fetchVal (tm.readStart s k) s k)]) := by
          simpa [stepA, h1, ha1, hk1] using i2.step ok_put get_put i1 (.readFetch s k)
        refine ⟨[.fetched s k (fetchVal (tm.readStart s k) s k)], j1, j2, Nat.le_refl _, u,
          fun f' hpc he => ?_, fun s' w h => by simp at h⟩
        refine .inr ⟨_, hpc, fun v' hv' => ?_, fun _ => ?_⟩
        · rw [hlk'] at hv'
          cases hv'
        · exact ⟨n, n, by simpa [TPc.isDone] using he, Nat.le_refl _, Nat.le_refl _, mem_log_new _ _ _⟩
      · have est : stepT tm (.start (.read s k)) = (tm.readStart s k, .rd s k p) := by
          rw [est0]; exact Prod.ext est1 hp
        rw [est]
        refine ⟨[], i1, i2, Nat.zero_le _, u, fun f' hpc _ => ?_, fun s' w h => by simp at h⟩
        exact .inl ⟨p, hpc, hlk', tx1, h1, hk1⟩

/-- a later segment of an operation -/
theorem eff2_stepT (ok_put : ∀ s k v, ok s → ok (s.putSync k v))
    (get_put : ∀ s k v k', ok s → (s.putSync k v).getSync k' = if k' = k then some v else s.getSync k')
    (R : RInv ok init ops tm fs n tlog) (hwf : WFProg ops) {id b : Nat} {op : TOp} {f : Frame TPc}
    (hlk : ops.lookup id = some op) (hf : frameOf fs id = some f) (hb : f.b = some b)
    (hnd : f.pc.isDone = false)
    (hF2 : ∀ s k p, f.pc = .rd s k p → ∀ r, (readAdvance tm s k p).2 = .done r → r = .val (fetchVal tm s k)) :
    (stepT tm f.pc).1 = tm ∧ ∃ evs, Eff2 ok init ops tm tlog n id b op f (stepT tm f.pc).2 evs := by
  have K := (R.frames id f op hf hlk).kind b hb
  have hblt : b < n := (R.frames id f op hf hlk).blt b hb
  have i1 : Inv ok init tm (tlog.map (·.2) ++ []) := by simpa using R.inv
  have i2 : Inv2 init tm (tlog.map (·.2) ++ []) := by simpa using R.inv2
  have hsub : ∀ x ∈ tlog, x ∈ tlog ++ ([] : List Ev).map fun e => (n, e) := fun x hx => by simpa using hx
  have keep : f.pc = .fin (.flag true) → (stepT tm f.pc).2 = .done (.flag true) := fun h => by rw [h]; rfl
  cases op with
  | «begin» s l =>
    obtain ⟨⟨r, h | h⟩, hev, htx⟩ := K
    · refine ⟨by rw [h]; rfl, [], i1, i2, Nat.zero_le _, fun f' hpc _ => ?_, fun s' w h => by simp at h, keep⟩
      rw [h] at hpc
      exact ⟨⟨r, .inr hpc⟩, hsub _ hev, htx⟩
    · rw [h] at hnd; cases hnd
  | write s k v =>
    obtain ⟨r, h | h⟩ := K
    · refine ⟨by rw [h]; rfl, [], i1, i2, Nat.zero_le _, fun f' hpc _ => ?_, fun s' w h => by simp at h, keep⟩
      rw [h] at hpc
      exact ⟨r, .inr hpc⟩
    · rw [h] at hnd; cases hnd
  | abort s =>
    obtain ⟨r, h⟩ := K
    rw [h] at hnd; cases hnd
  | commit s =>
    obtain ⟨h | ⟨fl, h⟩, hev⟩ := K
    · refine ⟨by rw [h]; rfl, [], i1, i2, Nat.zero_le _, fun f' hpc _ => ?_, fun s' w h => by simp at h, keep⟩
      rw [h] at hpc
      exact ⟨.inr ⟨true, hpc⟩, fun _ => hsub _ (hev (.inl h))⟩
    · rw [h] at hnd; cases hnd
  | read s k =>
    obtain ⟨j, tx, hpc0, hlook, htx, hact, hk⟩ := R.inflight hwf hlk hf hb hnd
    have keep' : f.pc = .fin (.flag true) → (stepT tm f.pc).2 = .done (.flag true) := fun h => by
      rw [hpc0] at h; cases h
    rcases readAdvance_cases tm s k j with ⟨r, hr⟩ | ⟨p', hp⟩
    · have hrv := hF2 s k j hpc0 r hr
      subst hrv
      have est : stepT tm f.pc = (tm, .done (.val (fetchVal tm s k))) := by
        rw [hpc0]; exact Prod.ext (readAdvance_state _ _ _ _) hr
      rw [est]
      have j1 : Inv ok init tm (tlog.map (·.2) ++ [.fetched s k (fetchVal tm s k)]) := by
        simpa [stepA, htx, hact, hk] using R.inv.step ok_put get_put (.readFetch s k)
      have j2 : Inv2 init tm (tlog.map (·.2) ++ [.fetched s k (fetchVal tm s k)]) := by
        simpa [stepA, htx, hact, hk] using R.inv2.step ok_put get_put R.inv (.readFetch s k)
      refine ⟨rfl, [.fetched s k (fetchVal tm s k)], j1, j2, Nat.le_refl _, fun f' hpc he => ?_,
        fun s' w h => by simp at h, fun h => by rw [hpc0] at h; cases h⟩
      refine .inr ⟨_, hpc, fun v' hv' => ?_, fun _ => ?_⟩
      · rw [hlook] at hv'
        cases hv'
      · exact ⟨n, n, by simpa [TPc.isDone] using he, Nat.le_of_lt hblt, Nat.le_refl _, mem_log_new _ _ _⟩
    · have est : stepT tm f.pc = (tm, .rd s k p') := by
        rw [hpc0]; exact Prod.ext (readAdvance_state _ _ _ _) hp
      rw [est]
      refine ⟨rfl, [], i1, i2, Nat.zero_le _, fun f' hpc _ => ?_, fun s' w h => by simp at h,
        fun h => by rw [hpc0] at h; cases h⟩
      exact .inl ⟨p', hpc, hlook, tx, htx, hk⟩

end HappyModel.C14.SM.LM
