import HappyProofs.C14.Compact
/-! Payload-level lemmas: sorted association lists, merges, key ranges. -/
namespace HappyModel.C14

/-- keys strictly increasing -/
def Sorted (d : Data) : Prop := (d.map (·.1)).Pairwise (· < ·)

instance (d : Data) : Decidable (Sorted d) := by unfold Sorted; infer_instance

theorem Sorted.uniq {d : Data} (h : Sorted d) : Uniq d :=
  List.Pairwise.imp (fun hab => Nat.ne_of_lt hab) h

theorem sorted_nil : Sorted [] := List.Pairwise.nil

theorem mem_keys_of_lookup {k : Key} {d : Data} {c : Cell} (h : d.lookup k = some c) : k ∈ d.map (·.1) := by
  induction d with
  | nil => simp [List.lookup] at h
  | cons e r ih =>
    simp only [List.lookup] at h
    by_cases hk : k = e.1
    · simp [hk]
    · have : (k == e.1) = false := by simp [hk]
      rw [this] at h
      exact List.mem_cons_of_mem _ (ih h)

theorem lookup_ne_none_iff {k : Key} {d : Data} : d.lookup k ≠ none ↔ k ∈ d.map (·.1) := by
  constructor
  · intro h
    cases hh : d.lookup k with
    | none => exact absurd hh h
    | some c => exact mem_keys_of_lookup hh
  · intro h hn
    induction d with
    | nil => simp at h
    | cons e r ih =>
      simp only [List.lookup] at hn
      by_cases hk : k = e.1
      · subst hk; simp at hn
      · have : (k == e.1) = false := by simp [hk]
        rw [this] at hn
        simp only [List.map_cons, List.mem_cons] at h
        rcases h with h | h
        · exact hk h
        · exact ih h hn

theorem mem_keys_ins {k x : Key} {c : Cell} {d : Data} :
    x ∈ (ins k c d).map (·.1) ↔ x = k ∨ x ∈ d.map (·.1) := by
  rw [← lookup_ne_none_iff, ← lookup_ne_none_iff, lookup_ins]
  by_cases h : x = k <;> simp [h]

theorem sorted_ins (k : Key) (c : Cell) (d : Data) (h : Sorted d) : Sorted (ins k c d) := by
  induction d with
  | nil => simp [ins, Sorted]
  | cons e r ih =>
    obtain ⟨k0, c0⟩ := e
    have hr : Sorted r := (List.pairwise_cons.mp h).2
    have hlt : ∀ x ∈ r.map (·.1), k0 < x := (List.pairwise_cons.mp h).1
    unfold ins
    by_cases h1 : k < k0
    · simp only [h1, if_true]
      refine List.pairwise_cons.mpr ⟨?_, h⟩
      intro x hx
      simp only [List.map_cons, List.mem_cons] at hx
      rcases hx with rfl | hx
      · exact h1
      · exact Nat.lt_trans h1 (hlt x hx)
    · simp only [h1, if_false]
      by_cases h2 : k = k0
      · subst h2
        simp only [if_true]
        exact List.pairwise_cons.mpr ⟨hlt, hr⟩
      · simp only [h2, if_false]
        refine List.pairwise_cons.mpr ⟨?_, ih hr⟩
        intro x hx
        rcases mem_keys_ins.mp hx with rfl | hx
        · simp only [Key] at *; omega
        · exact hlt x hx

theorem sorted_mergeNewer (base newer : Data) (h : Sorted base) : Sorted (mergeNewer base newer) := by
  unfold mergeNewer
  induction newer generalizing base with
  | nil => exact h
  | cons e r ih => exact ih _ (sorted_ins _ _ _ h)

theorem sorted_mergeOlder (base older : Data) (h : Sorted base) : Sorted (mergeOlder base older) := by
  unfold mergeOlder
  induction older generalizing base with
  | nil => exact h
  | cons e r ih =>
    simp only [List.foldl_cons]
    split
    · exact ih _ h
    · exact ih _ (sorted_ins _ _ _ h)

theorem sorted_mergeSources (S : List Tab) : Sorted (mergeSources S) := by
  unfold mergeSources
  suffices ∀ acc, Sorted acc → Sorted (S.foldl (fun acc t => mergeNewer acc t.data) acc) from this [] sorted_nil
  induction S with
  | nil => intro acc h; exact h
  | cons t r ih => intro acc h; exact ih _ (sorted_mergeNewer _ _ h)

theorem sorted_mergeOverlap (m : Data) (O : List Tab) (h : Sorted m) : Sorted (mergeOverlap m O) := by
  unfold mergeOverlap
  induction O generalizing m with
  | nil => exact h
  | cons t r ih => exact ih _ (sorted_mergeOlder _ _ h)

theorem sorted_filter (p : Key × Cell → Bool) (d : Data) (h : Sorted d) : Sorted (d.filter p) :=
  List.Pairwise.sublist (List.Sublist.map _ List.filter_sublist) h

theorem sorted_dropTombs (d : Data) (h : Sorted d) : Sorted (dropTombs d) := sorted_filter _ d h

/-- lookup through a filter of a duplicate-free payload -/
theorem lookup_filter (p : Key × Cell → Bool) (d : Data) (hu : Uniq d) (k : Key) :
    (d.filter p).lookup k = match d.lookup k with
      | some c => if p (k, c) then some c else none
      | none => none := by
  induction d with
  | nil => rfl
  | cons e r ih =>
    obtain ⟨k0, c0⟩ := e
    have hu' : Uniq r := (List.nodup_cons.mp hu).2
    have hne : k0 ∉ r.map (·.1) := (List.nodup_cons.mp hu).1
    by_cases hk : k = k0
    · subst hk
      have hr : r.lookup k = none := lookup_none_of_not_mem _ _ hne
      by_cases hp : p (k, c0)
      · simp [List.filter_cons, hp, List.lookup]
      · have : (r.filter p).lookup k = none := by rw [ih hu', hr]
        simp [List.filter_cons, hp, List.lookup, this]
    · have hb : (k == k0) = false := by simp [hk]
      by_cases hp : p (k0, c0)
      · simp [List.filter_cons, hp, List.lookup, hb, ih hu']
      · simp [List.filter_cons, hp, List.lookup, hb, ih hu']

theorem lookup_dropTombs (d : Data) (hu : Uniq d) (k : Key) :
    (dropTombs d).lookup k = match d.lookup k with
      | some (some v) => some (some v)
      | _ => none := by
  unfold dropTombs
  rw [lookup_filter _ _ hu]
  cases d.lookup k with
  | none => rfl
  | some c => cases c <;> rfl

/-! ### key ranges -/

theorem minKey_le {d : Data} (h : Sorted d) {k : Key} (hk : k ∈ d.map (·.1)) :
    ∃ a, minKey d = some a ∧ a ≤ k := by
  cases d with
  | nil => simp at hk
  | cons e r =>
    refine ⟨e.1, rfl, ?_⟩
    simp only [List.map_cons, List.mem_cons] at hk
    rcases hk with rfl | hk
    · exact Nat.le_refl _
    · exact Nat.le_of_lt ((List.pairwise_cons.mp h).1 k hk)

theorem le_maxKey {d : Data} (h : Sorted d) {k : Key} (hk : k ∈ d.map (·.1)) :
    ∃ a, maxKey d = some a ∧ k ≤ a := by
  induction d generalizing k with
  | nil => simp at hk
  | cons e r ih =>
    cases r with
    | nil =>
      simp only [List.map_cons, List.map_nil, List.mem_cons, List.not_mem_nil, or_false] at hk
      exact ⟨e.1, rfl, by rw [hk]; exact Nat.le_refl _⟩
    | cons e' r' =>
      have hr : Sorted (e' :: r') := (List.pairwise_cons.mp h).2
      have hmax : maxKey (e :: e' :: r') = maxKey (e' :: r') := by
        simp [maxKey, List.getLast?_cons_cons]
      rw [hmax]
      simp only [List.map_cons, List.mem_cons] at hk
      rcases hk with rfl | hk
      · obtain ⟨a, ha, hle⟩ := @ih hr e'.1 (by simp)
        refine ⟨a, ha, ?_⟩
        have : e.1 < e'.1 := (List.pairwise_cons.mp h).1 e'.1 (by simp)
        simp only [Key] at *; omega
      · exact ih hr (by simpa using hk)

theorem overlaps_of_common_key {a b : Tab} (ha : Sorted a.data) (hb : Sorted b.data) {k : Key}
    (hka : a.data.lookup k ≠ none) (hkb : b.data.lookup k ≠ none) : overlaps a b = true := by
  obtain ⟨a0, ha0, h1⟩ := minKey_le ha (lookup_ne_none_iff.mp hka)
  obtain ⟨a1, ha1, h2⟩ := le_maxKey ha (lookup_ne_none_iff.mp hka)
  obtain ⟨b0, hb0, h3⟩ := minKey_le hb (lookup_ne_none_iff.mp hkb)
  obtain ⟨b1, hb1, h4⟩ := le_maxKey hb (lookup_ne_none_iff.mp hkb)
  unfold overlaps
  rw [ha0, ha1, hb0, hb1]
  simp only [Bool.and_eq_true, decide_eq_true_eq]
  simp only [Key] at *
  omega

end HappyModel.C14
