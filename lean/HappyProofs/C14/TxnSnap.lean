import HappyProofs.C14.TxnStep
/-!
# Transaction manager, part 4: the invariant behind consistent snapshot reads

`snapshotValue n k (store.get k) log` is the serial-replay state after the first `n` commits, for every
`n ≤ version`; a transaction's snapshot version is the number of commits before its `began` event;
hence every value fetched at SNAPSHOT_ISOLATION / SERIALIZABLE is the replay state at `begin`.
-/
namespace HappyModel.C14.SM
open HappyModel.C14 HappyModel.C14.BT

structure Inv2 (init : Key → Option Nat) (tm : TM) (evs : List Ev) : Prop where
  ncom : ncommits evs = tm.version
  log_le : ∀ e ∈ tm.log, e.version ≤ tm.version
  /-- undoing the commit log down to version `n` gives the state after the first `n` commits -/
  snapv : ∀ n, n ≤ tm.version → ∀ k,
    snapshotValue n k (tm.store.getSync k) tm.log = replayN init n evs k
  began : ∀ pre post s, evs = pre ++ Ev.began s :: post → ∀ tx, tm.tx? s = some tx → tx.snap = ncommits pre
  reads : ∀ pre post s k val, evs = pre ++ Ev.fetched s k val :: post → ∀ tx, tm.tx? s = some tx →
    tx.level ≠ .rc → val = replayN init tx.snap pre k

variable {ok : Store → Prop} {init : Key → Option Nat} {tm tm' : TM} {evs : List Ev}

theorem Inv2.frame (h : Inv2 init tm evs) (sim : Sim tm tm') (hst : tm'.store = tm.store)
    (hv : tm'.version = tm.version) (hlog : tm'.log = tm.log) : Inv2 init tm' evs where
  ncom := by rw [hv]; exact h.ncom
  log_le := by rw [hv, hlog]; exact h.log_le
  snapv := by rw [hv, hst, hlog]; exact h.snapv
  began pre post s hd t ht := by
    obtain ⟨t0, h0, _, _, h3, _⟩ := sim.back s t ht
    rw [h3]; exact h.began pre post s hd t0 h0
  reads pre post s k val hd t ht hl := by
    obtain ⟨t0, h0, _, h2, h3, _⟩ := sim.back s t ht
    rw [h3]; exact h.reads pre post s k val hd t0 h0 (h2 ▸ hl)

theorem fetchVal_snap {tm : TM} {s : Nat} {tx : Tx} (hx : tm.tx? s = some tx) (hl : tx.level ≠ .rc) (k : Key) :
    fetchVal tm s k = snapshotValue tx.snap k (tm.store.getSync k) tm.log := by
  cases h : tx.level with
  | rc => exact absurd h hl
  | si => simp only [fetchVal, hx, TM.adjust, h]
  | ser => simp only [fetchVal, hx, TM.adjust, h]

theorem Inv2.fetch (h1 : Inv ok init tm evs) (h : Inv2 init tm evs) {slot : Nat} {tx : Tx} (k : Key)
    (hx : tm.tx? slot = some tx) : Inv2 init tm (evs ++ [.fetched slot k (fetchVal tm slot k)]) where
  ncom := by rw [ncommits_append]; exact h.ncom
  log_le := h.log_le
  snapv n hn k' := by
    rw [replayN_append_le _ _ _ _ (by rw [h.ncom]; exact hn)]
    exact h.snapv n hn k'
  began pre post s hd t ht := by
    rcases split_snoc hd with ⟨_, _, h3⟩ | ⟨post', _, h2⟩
    · cases h3
    · exact h.began pre post' s h2 t ht
  reads pre post s k' val hd t ht hl := by
    rcases split_snoc hd with ⟨_, h2, h3⟩ | ⟨post', _, h2⟩
    · simp only [Ev.fetched.injEq] at h3
      obtain ⟨rfl, rfl, rfl⟩ := h3
      subst h2
      rw [hx] at ht
      cases ht
      rw [fetchVal_snap hx hl]
      exact h.snapv _ (h1.snap_le _ _ hx) _
    · exact h.reads pre post' s k' val h2 t ht hl

theorem begin_back {slot : Nat} {lvl : Level} (hx : tm.tx? slot = none) (s : Nat) (t : Tx)
    (ht : (tm.begin slot lvl).tx? s = some t) :
    (s = slot ∧ t = { slot := slot, id := tm.nextId, level := lvl, snap := tm.version }) ∨
    (s ≠ slot ∧ tm.tx? s = some t) := by
  rw [tx?_begin tm slot lvl hx] at ht
  by_cases hs : s = slot
  · simp only [hs, if_true, Option.some.injEq] at ht
    exact .inl ⟨hs, ht.symm⟩
  · simp only [hs, if_false] at ht
    exact .inr ⟨hs, ht⟩

theorem Inv2.begin (h1 : Inv ok init tm evs) (h : Inv2 init tm evs) {slot : Nat} (lvl : Level)
    (hx : tm.tx? slot = none) : Inv2 init (tm.begin slot lvl) (evs ++ [.began slot]) := by
  have hst : (tm.begin slot lvl).store = tm.store := by simp [TM.begin, hx]
  have hv : (tm.begin slot lvl).version = tm.version := by simp [TM.begin, hx]
  have hlog : (tm.begin slot lvl).log = tm.log := by simp [TM.begin, hx]
  have old : ∀ e ∈ evs, e.slot ≠ slot := fun e he hs => by
    have := h1.ev_slot e he
    rw [hs, hx] at this
    cases this
  refine
    { ncom := by rw [ncommits_append, hv]; exact h.ncom
      log_le := by rw [hv, hlog]; exact h.log_le
      snapv := fun n hn k => ?_
      began := fun pre post s hd t ht => ?_
      reads := fun pre post s k val hd t ht hl => ?_ }
  · rw [hv] at hn
    rw [hst, hlog, replayN_append_le _ _ _ _ (by rw [h.ncom]; exact hn)]
    exact h.snapv n hn k
  · rcases split_snoc hd with ⟨_, h2, h3⟩ | ⟨post', _, h2⟩
    · simp only [Ev.began.injEq] at h3
      subst h3 h2
      rcases begin_back hx _ t ht with ⟨_, rfl⟩ | ⟨hs, _⟩
      · exact h.ncom.symm
      · exact absurd rfl hs
    · rcases begin_back hx s t ht with ⟨hs, _⟩ | ⟨_, h0⟩
      · exact absurd hs (old (.began s) (by simp [h2]))
      · exact h.began pre post' s h2 t h0
  · rcases split_snoc hd with ⟨_, _, h3⟩ | ⟨post', _, h2⟩
    · cases h3
    · rcases begin_back hx s t ht with ⟨hs, _⟩ | ⟨_, h0⟩
      · exact absurd hs (old (.fetched s k val) (by simp [h2]))
      · exact h.reads pre post' s k val h2 t h0 hl

/-- undoing the freshly appended entry gives the store value before the commit -/
theorem snapshotValue_entry (ok_put : ∀ s k v, ok s → ok (s.putSync k v))
    (get_put : ∀ s k v k', ok s → (s.putSync k v).getSync k' = if k' = k then some v else s.getSync k')
    (hok : ok tm.store) (tx : Tx) (n : Nat) (hn : n ≤ tm.version) (k : Key) :
    snapshotValue n k ((applyWrites tm.store tx.wset).getSync k) [commitEntry tm tx] = tm.store.getSync k := by
  have h1 : ¬ (tm.version + 1 ≤ n) := by omega
  by_cases hk : k ∈ tx.wset.map (·.1)
  · have h2 : (List.map (fun x => x.fst) tx.wset).contains k = true := by simpa using hk
    simp only [snapshotValue, commitEntry, h1, decide_false, h2, Bool.not_true, Bool.or_self,
      Bool.false_eq_true, if_false, lookup_prior tx.wset tm.store.getSync k hk]
  · have h2 : (List.map (fun x => x.fst) tx.wset).contains k = false := by simpa using hk
    simp only [snapshotValue, commitEntry, h1, decide_false, h2, Bool.not_false, Bool.or_true, if_true]
    have hw := applyWrites_spec ok ok_put get_put tx.wset tm.store tm.store.getSync hok (fun _ => rfl)
    rw [hw.2 k, applyF_notin _ _ _ hk]

theorem Inv2.commit (ok_put : ∀ s k v, ok s → ok (s.putSync k v))
    (get_put : ∀ s k v k', ok s → (s.putSync k v).getSync k' = if k' = k then some v else s.getSync k')
    (h1 : Inv ok init tm evs) (h : Inv2 init tm evs) {slot : Nat} {tx : Tx} {tm' : TM}
    (hx : tm.tx? slot = some tx) (c : CommitOk tm slot tx tm')
    (h1' : Inv ok init tm' (evs ++ [.committed slot tx.wset])) :
    Inv2 init tm' (evs ++ [.committed slot tx.wset]) := by
  have sim : Sim tm tm' := sim_of_upd hx c.txs rfl rfl rfl (fun h => by cases h) (fun _ h => h)
  have hnc : ncommits (evs ++ [Ev.committed slot tx.wset]) = tm.version + 1 := by
    rw [ncommits_append, h.ncom]; rfl
  refine
    { ncom := by rw [hnc, c.version]
      log_le := fun e he => ?_
      snapv := fun n hn k => ?_
      began := fun pre post s hd t ht => ?_
      reads := fun pre post s k val hd t ht hl => ?_ }
  · rw [c.log] at he
    rw [c.version]
    rcases List.mem_append.1 he with he | he
    · have := h.log_le e he; omega
    · simp only [List.mem_singleton] at he
      subst he
      exact Nat.le_refl _
  · rw [c.version] at hn
    by_cases hn' : n ≤ tm.version
    · rw [c.log, c.store, snapshotValue_append, snapshotValue_entry ok_put get_put h1.store_ok tx n hn' k,
        replayN_append_le _ _ _ _ (by rw [h.ncom]; exact hn')]
      exact h.snapv n hn' k
    · have hn2 : n = tm.version + 1 := by omega
      subst hn2
      rw [snapshotValue_all_le, replayN_ge _ _ _ (by rw [hnc]; exact Nat.le_refl _)]
      · exact h1'.store_eq k
      · intro e he
        rw [c.log] at he
        rcases List.mem_append.1 he with he | he
        · have := h.log_le e he; omega
        · simp only [List.mem_singleton] at he
          subst he
          exact Nat.le_refl _
  · rcases split_snoc hd with ⟨_, _, h3⟩ | ⟨post', _, h2⟩
    · cases h3
    · obtain ⟨t0, h0, _, _, h4, _⟩ := sim.back s t ht
      rw [h4]; exact h.began pre post' s h2 t0 h0
  · rcases split_snoc hd with ⟨_, _, h3⟩ | ⟨post', _, h2⟩
    · cases h3
    · obtain ⟨t0, h0, _, h3, h4, _⟩ := sim.back s t ht
      rw [h4]; exact h.reads pre post' s k val h2 t0 h0 (h3 ▸ hl)

theorem Inv2.step (ok_put : ∀ s k v, ok s → ok (s.putSync k v))
    (get_put : ∀ s k v k', ok s → (s.putSync k v).getSync k' = if k' = k then some v else s.getSync k')
    (h1 : Inv ok init tm evs) (h : Inv2 init tm evs) (a : Act) :
    Inv2 init (stepA tm a).1 (evs ++ (stepA tm a).2) := by
  have h1' := h1.step ok_put get_put a
  cases a with
  | begin slot lvl =>
    cases hx : tm.tx? slot with
    | none => simpa [stepA, hx] using h.begin h1 lvl hx
    | some tx => simpa [stepA, hx, TM.begin] using h
  | readStart slot k =>
    cases hx : tm.tx? slot with
    | none => simpa [stepA, hx, TM.readStart] using h
    | some tx =>
      by_cases ha : tx.stat = .active
      · simp only [stepA, TM.readStart, hx, ha, if_true, List.append_nil]
        exact h.frame (sim_upd hx rfl rfl rfl rfl rfl (fun _ => ha) (fun _ => mem_addKey)) rfl rfl rfl
      · simpa [stepA, hx, TM.readStart, ha] using h
  | readFetch slot k =>
    cases hx : tm.tx? slot with
    | none => simpa [stepA, hx] using h
    | some tx =>
      by_cases hg : tx.stat = .active ∧ k ∈ tx.rset
      · simpa [stepA, hx, hg] using h.fetch h1 k hx
      · simp only [stepA, hx, hg, if_false, List.append_nil]; exact h
  | write slot k v =>
    cases hx : tm.tx? slot with
    | none => simpa [stepA, hx, TM.write] using h
    | some tx =>
      by_cases ha : tx.stat = .active
      · simp only [stepA, TM.write, hx, ha, if_true, List.append_nil]
        exact h.frame (sim_upd hx rfl rfl rfl rfl rfl (fun _ => ha) (fun _ h => h)) rfl rfl rfl
      · simpa [stepA, hx, TM.write, ha] using h
  | commit slot =>
    cases hx : tm.tx? slot with
    | none => simpa [stepA, hx, TM.commit] using h
    | some tx =>
      by_cases ha : tx.stat = .active
      · cases hc : checkConflict tm tx with
        | true =>
          simp only [stepA, TM.commit, hx, ha, hc, if_true]
          simp only [ne_eq, not_true_eq_false, if_false, Bool.false_eq_true, List.append_nil]
          exact h.frame (sim_upd (tx' := { tx with stat := .aborted }) hx rfl rfl rfl rfl rfl (fun _ => ha)
            (fun _ h => h)) rfl rfl rfl
        | false =>
          obtain ⟨c1, c2⟩ := commit_ok hx ha hc
          simp only [stepA, hx, c1, if_true] at h1' ⊢
          exact h.commit ok_put get_put h1 hx c2 h1'
      · simpa [stepA, hx, TM.commit, ha] using h
  | abort slot =>
    cases hx : tm.tx? slot with
    | none => simpa [stepA, hx, TM.abort] using h
    | some tx =>
      by_cases ha : tx.stat = .active
      · simp only [stepA, TM.abort, hx, ha, if_true, List.append_nil]
        exact h.frame (sim_upd (tx' := { tx with stat := .aborted }) hx rfl rfl rfl rfl rfl (fun _ => ha)
          (fun _ h => h)) rfl rfl rfl
      · simpa [stepA, hx, TM.abort, ha] using h

theorem Inv2.run (ok_put : ∀ s k v, ok s → ok (s.putSync k v))
    (get_put : ∀ s k v k', ok s → (s.putSync k v).getSync k' = if k' = k then some v else s.getSync k')
    (acts : List Act) : ∀ {tm : TM} {evs : List Ev}, Inv ok init tm evs → Inv2 init tm evs →
      Inv2 init (runA tm acts).1 (evs ++ (runA tm acts).2) := by
  induction acts with
  | nil => intro tm evs _ h; simpa [runA] using h
  | cons a as ih =>
    intro tm evs h1 h
    have := ih (h1.step ok_put get_put a) (h.step ok_put get_put h1 a)
    simpa [runA, List.append_assoc] using this

theorem Inv2.start (s0 : Store) : Inv2 s0.getSync { store := s0 } [] where
  ncom := rfl
  log_le e he := by simp at he
  snapv n hn k := by
    have : n = 0 := by simpa using hn
    subst this; rfl
  began pre post s hd := by simp at hd
  reads pre post s k val hd := by simp at hd

end HappyModel.C14.SM
