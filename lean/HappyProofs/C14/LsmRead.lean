import HappyProofs.C14.LsmWalk
/-! Invariant of a suspended reader: what it can still return is an allowed cell. -/
namespace HappyModel.C14

/-- a reader for `k` suspended at level `i` with the rest `snap` of that level's snapshot -/
structure RB (mem : Data) (imms : List Tab) (lv : List (List Tab)) (k : Key) (i : Nat) (snap : List Tab)
    (Al : Cell → Prop) : Prop where
  cont : Al ((lookTabs k snap).or (lookLevels k (lv.drop (i + 1)))).join
  mem : ∀ c, mem.lookup k = some c → Al c
  imm : ∀ u ∈ imms, ∀ c, u.data.lookup k = some c → Al c
  low : ∀ j, j < i → ∀ T ∈ lv.getD j [], ∀ c, T.data.lookup k = some c → Al c
  cur : ∀ T ∈ lv.getD i [], ∀ c, T.data.lookup k = some c → Al c ∨ T ∈ snap ∨ lookTabs k snap = some c
  snapDisj : 1 ≤ i → LevelDisjoint snap

/-- a reader about to enter level `i0` -/
structure Pre (mem : Data) (imms : List Tab) (lv : List (List Tab)) (k : Key) (i0 : Nat) (Al : Cell → Prop) : Prop where
  cont : Al (lookLevels k (lv.drop i0)).join
  mem : ∀ c, mem.lookup k = some c → Al c
  imm : ∀ u ∈ imms, ∀ c, u.data.lookup k = some c → Al c
  low : ∀ j, j < i0 → ∀ T ∈ lv.getD j [], ∀ c, T.data.lookup k = some c → Al c

theorem RB.mono {mem : Data} {imms : List Tab} {lv : List (List Tab)} {k : Key} {i : Nat} {snap : List Tab}
    {Al Al' : Cell → Prop} (h : RB mem imms lv k i snap Al) (hm : ∀ c, Al c → Al' c) : RB mem imms lv k i snap Al' :=
  ⟨hm _ h.cont, fun c hc => hm c (h.mem c hc), fun u hu c hc => hm c (h.imm u hu c hc),
   fun j hj T hT c hc => hm c (h.low j hj T hT c hc),
   fun T hT c hc => (h.cur T hT c hc).imp (hm c) id, h.snapDisj⟩

theorem getD_of_ge (lv : List (List Tab)) (i : Nat) (h : lv.length ≤ i) : lv.getD i [] = [] := by
  induction lv generalizing i with
  | nil => rfl
  | cons l r ih =>
    cases i with
    | zero => simp at h
    | succ i => rw [List.getD_cons_succ]; exact ih i (by simpa using h)

/-- entering the next level that has a table the walk does not skip -/
theorem pre_enter {cfg : Cfg} {mem : Data} {imms : List Tab} {lv : List (List Tab)} {k : Key} {i0 : Nat} {Al : Cell → Prop}
    (hI : LvInv cfg lv) (hP : Pre mem imms lv k i0 Al) (skip : Tab → Bool)
    (hskip : ∀ t, skip t = true → t.data.lookup k = none) :
    match walkLG skip (lv.drop i0) i0 with
    | some (i, t, r) => RB mem imms lv k i (t :: r) Al
    | none => Al none := by
  cases hw : walkLG skip (lv.drop i0) i0 with
  | none =>
    simp only
    have hn := walkLG_none hw
    have : lookLevels k (lv.drop i0) = none := by
      have h1 := lookLevels_skip k lv i0 lv.length (fun j _ x hx => hskip x (hn j x (by rw [getD_drop]; exact hx)))
      rw [h1, List.drop_of_length_le (by omega)]; rfl
    have hc := hP.cont
    rw [this] at hc
    exact hc
  | some itr =>
    obtain ⟨i, t, r⟩ := itr
    simp only
    obtain ⟨m, e1, e2, sk, e3, e4⟩ := walkLG_some hw
    subst e1
    rw [getD_drop] at e3
    have hlow : ∀ j, j < m → ∀ x ∈ lv.getD (i0 + j) [], x.data.lookup k = none :=
      fun j hj x hx => hskip x (e2 j hj x (by rw [getD_drop]; exact hx))
    have hlen : i0 + m < lv.length := by
      cases Nat.lt_or_ge (i0 + m) lv.length with
      | inl h => exact h
      | inr h =>
        have : lv.getD (i0 + m) [] = [] := getD_of_ge lv _ h
        rw [this] at e3
        cases sk <;> simp at e3
    have hsnap : lookTabs k (lv.getD (i0 + m) []).reverse = lookTabs k (t :: r) := by
      rw [e3, lookTabs_or_append]
      have : lookTabs k sk = none := lookTabs_none_iff.mpr fun x hx => hskip x (e4 x hx)
      rw [this, Option.none_or]
    refine ⟨?_, hP.mem, hP.imm, ?_, ?_, ?_⟩
    · have hc := hP.cont
      rw [lookLevels_skip k lv i0 m hlow, drop_eq_getD_cons lv (i0 + m) hlen, lookLevels_cons, hsnap] at hc
      exact hc
    · intro j hj T hT c hc
      by_cases hj0 : j < i0
      · exact hP.low j hj0 T hT c hc
      · have := hlow (j - i0) (by omega) T (by rw [show i0 + (j - i0) = j by omega]; exact hT)
        rw [this] at hc; cases hc
    · intro T hT c hc
      right; left
      have hT' : T ∈ sk ++ t :: r := by rw [← e3]; exact List.mem_reverse.mpr hT
      rcases List.mem_append.mp hT' with h | h
      · have := hskip T (e4 T h); rw [this] at hc; cases hc
      · exact h
    · intro hi
      refine (hI.disj (i0 + m) hi).sub ?_
      intro x hx
      have : x ∈ sk ++ t :: r := List.mem_append_right _ hx
      rw [← e3] at this
      exact List.mem_reverse.mp this

/-- the snapshot of level `i` is exhausted without the key: ready for level `i + 1` -/
theorem rb_exhausted {mem : Data} {imms : List Tab} {lv : List (List Tab)} {k : Key} {i : Nat} {snap : List Tab}
    {Al : Cell → Prop} (h : RB mem imms lv k i snap Al) (hn : lookTabs k snap = none) : Pre mem imms lv k (i + 1) Al := by
  refine ⟨?_, h.mem, h.imm, ?_⟩
  · have := h.cont
    rw [hn, Option.none_or] at this
    exact this
  · intro j hj T hT c hc
    by_cases hji : j < i
    · exact h.low j hji T hT c hc
    · have : j = i := by omega
      subst this
      rcases h.cur T hT c hc with h1 | h1 | h1
      · exact h1
      · rw [lookTabs_none_iff.mp hn T h1] at hc; cases hc
      · rw [hn] at h1; cases h1

/-- moving on inside the snapshot past tables without the key -/
theorem rb_within {mem : Data} {imms : List Tab} {lv : List (List Tab)} {k : Key} {i : Nat} {snap sk : List Tab} {t : Tab}
    {r : List Tab} {Al : Cell → Prop} (h : RB mem imms lv k i snap Al) (e : snap = sk ++ t :: r)
    (hsk : ∀ x ∈ sk, x.data.lookup k = none) : RB mem imms lv k i (t :: r) Al := by
  have hl : lookTabs k snap = lookTabs k (t :: r) := by
    rw [e, lookTabs_or_append, lookTabs_none_iff.mpr hsk, Option.none_or]
  refine ⟨by rw [← hl]; exact h.cont, h.mem, h.imm, h.low, ?_, ?_⟩
  · intro T hT c hc
    rcases h.cur T hT c hc with h1 | h1 | h1
    · exact Or.inl h1
    · rw [e] at h1
      rcases List.mem_append.mp h1 with h2 | h2
      · rw [hsk T h2] at hc; cases hc
      · exact Or.inr (Or.inl h2)
    · exact Or.inr (Or.inr (by rw [← hl]; exact h1))
  · intro hi
    exact (h.snapDisj hi).sub fun x hx => by rw [e]; exact List.mem_append_right _ hx

end HappyModel.C14
