import HappyProofs.C14.LsmLook
/-! Installing a compaction does not change what a read through the levels finds (up to dropped
    tombstones at the deepest level). -/
namespace HappyModel.C14

/-- invariants of the level lists -/
structure LvInv (cfg : Cfg) (lv : List (List Tab)) : Prop where
  len : lv.length = cfg.maxLevels
  two : 2 ≤ cfg.maxLevels
  sorted : ∀ i, ∀ t ∈ lv.getD i [], Sorted t.data
  disj : ∀ i, 1 ≤ i → LevelDisjoint (lv.getD i [])
  ids : ∀ i, ((lv.getD i []).map (·.id)).Nodup

/-- the job was planned on an earlier version `lv0` of the levels; since then only flush installs
    happened (they append to level 0) -/
def Planned (cfg : Cfg) (lv : List (List Tab)) (j : Job) : Prop :=
  ∃ lv0 extra, planCompaction cfg lv0 j.src = some j ∧ lv0.length = lv.length ∧
    lv0.getD j.tgt [] = lv.getD j.tgt [] ∧ lv.getD j.src [] = lv0.getD j.src [] ++ extra ∧
    (j.src ≠ 0 → extra = [])

theorem plan_unpack {cfg : Cfg} {lv0 : List (List Tab)} {src : Nat} {j : Job}
    (h : planCompaction cfg lv0 src = some j) :
    lv0.getD src [] ≠ [] ∧
    j = ⟨src, min (src + 1) (cfg.maxLevels - 1), (lv0.getD src []).map (·.id),
      (if min (src + 1) (cfg.maxLevels - 1) != src then (lv0.getD (min (src + 1) (cfg.maxLevels - 1)) []).filter (fun t => (lv0.getD src []).any fun s => overlaps t s) else []).map (·.id),
      if min (src + 1) (cfg.maxLevels - 1) == cfg.maxLevels - 1 then
        dropTombs (mergeOverlap (mergeSources (lv0.getD src []))
          (if min (src + 1) (cfg.maxLevels - 1) != src then (lv0.getD (min (src + 1) (cfg.maxLevels - 1)) []).filter (fun t => (lv0.getD src []).any fun s => overlaps t s) else []))
      else mergeOverlap (mergeSources (lv0.getD src []))
          (if min (src + 1) (cfg.maxLevels - 1) != src then (lv0.getD (min (src + 1) (cfg.maxLevels - 1)) []).filter (fun t => (lv0.getD src []).any fun s => overlaps t s) else [])⟩ := by
  unfold planCompaction at h
  simp only at h
  split at h
  · cases h
  · rename_i hS
    injection h with h
    subst h
    refine ⟨?_, rfl⟩
    intro h0; rw [h0] at hS; exact hS rfl

theorem lookTabs_nil (k : Key) : lookTabs k [] = none := rfl
theorem lookLevels_nil (k : Key) : lookLevels k [] = none := rfl

theorem lookup_merge (S O : List Tab) (k : Key) (hu : ∀ t ∈ S, Uniq t.data) :
    (mergeOverlap (mergeSources S) O).lookup k = (lookTabs k S.reverse).or (lookTabs k O) := by
  rw [lookup_mergeOverlap]
  unfold mergeSources
  rw [lookup_mergeSources_acc k S [] hu]
  cases lookTabs k S.reverse <;> rfl

/-- the overlap selection -/
def ovl (S : List Tab) (t : Tab) : Bool := S.any fun s => overlaps t s

theorem getD_lt_of_ne_nil {lv : List (List Tab)} {i : Nat} (h : lv.getD i [] ≠ []) : i < lv.length := by
  induction lv generalizing i with
  | nil => exact absurd rfl h
  | cons l r ih =>
    cases i with
    | zero => simp
    | succ i => have := ih (i := i) (by simpa using h); simpa using this

/-- value-level core: tombstones may be dropped when nothing older can be below -/
theorem dropT_join (x : Option Cell) :
    (match x with | some (some v) => some (some v) | _ => (none : Option Cell)).join = x.join := by
  cases x with
  | none => rfl
  | some c => cases c <;> rfl

/-- source level `S ++ extra` above target level `Lt` (the two levels a compaction touches) -/
theorem pair_install (k : Key) (S extra Lt : List Tab) (C : List (List Tab)) (newId : Nat) (bottom : Bool)
    (hS : ∀ t ∈ S, Sorted t.data) (hLt : ∀ t ∈ Lt, Sorted t.data) (hd : LevelDisjoint Lt)
    (hidS : ((S ++ extra).map (·.id)).Nodup) (hidT : (Lt.map (·.id)).Nodup)
    (hb : bottom = true → C = []) :
    (lookLevels k (removeIds (S.map (·.id)) (S ++ extra) ::
        (removeIds ((Lt.filter (ovl S)).map (·.id)) Lt ++
          [⟨newId, if bottom then dropTombs (mergeOverlap (mergeSources S) (Lt.filter (ovl S)))
                   else mergeOverlap (mergeSources S) (Lt.filter (ovl S))⟩]) :: C)).join =
    (lookLevels k ((S ++ extra) :: Lt :: C)).join := by
  rw [removeIds_self_append hidS, removeIds_filter hidT]
  simp only [lookLevels_cons, List.reverse_append, lookTabs_or_append, List.reverse_cons, List.reverse_nil,
    List.nil_append, lookTabs_cons, lookTabs_nil, Option.or_none, Option.or_assoc]
  apply or_join_congr
  -- abbreviations
  have hdN : LevelDisjoint (Lt.filter fun t => !ovl S t) := hd.sub fun t ht => (List.mem_filter.mp ht).1
  have hdO : LevelDisjoint (Lt.filter (ovl S)) := hd.sub fun t ht => (List.mem_filter.mp ht).1
  rw [lookTabs_reverse hdN, lookTabs_reverse hd]
  have hm0' := lookup_merge S (Lt.filter (ovl S)) k (fun t ht => (hS t ht).uniq)
  -- (Fb) the target level splits into the selected and the untouched tables
  have hFb : lookTabs k Lt = (lookTabs k (Lt.filter (ovl S))).or (lookTabs k (Lt.filter fun t => !ovl S t)) := by
    cases ho : lookTabs k (Lt.filter (ovl S)) with
    | some c =>
      obtain ⟨t, ht, hc⟩ := lookTabs_some_mem ho
      rw [lookTabs_of_mem hd (List.mem_filter.mp ht).1 hc]; rfl
    | none =>
      rw [Option.none_or]
      refine (lookTabs_eq_of_same_mem hd (fun t ht => (List.mem_filter.mp ht).1) ?_).symm
      intro t ht hk
      refine List.mem_filter.mpr ⟨ht, ?_⟩
      cases hp : ovl S t with
      | false => rfl
      | true => exact absurd (lookTabs_none_iff.mp ho t (List.mem_filter.mpr ⟨ht, hp⟩)) hk
  -- (Fo) a key of a selected table is in no untouched table
  have hFo : lookTabs k (Lt.filter (ovl S)) ≠ none → lookTabs k (Lt.filter fun t => !ovl S t) = none := by
    intro ho
    cases ho' : lookTabs k (Lt.filter (ovl S)) with
    | none => exact absurd ho' ho
    | some c =>
      obtain ⟨t, ht, hc⟩ := lookTabs_some_mem ho'
      apply lookTabs_none_iff.mpr
      intro t' ht'
      cases hk' : t'.data.lookup k with
      | none => rfl
      | some c' =>
        have := hd t (List.mem_filter.mp ht).1 t' (List.mem_filter.mp ht').1 k (by simp [hc]) (by simp [hk'])
        subst this
        have h1 := (List.mem_filter.mp ht).2
        have h2 := (List.mem_filter.mp ht').2
        rw [h1] at h2; cases h2
  -- (Fa) a key of a source table is in no untouched table (key ranges overlap)
  have hFa : lookTabs k S.reverse ≠ none → lookTabs k (Lt.filter fun t => !ovl S t) = none := by
    intro ha
    cases ha' : lookTabs k S.reverse with
    | none => exact absurd ha' ha
    | some c =>
      obtain ⟨s, hs, hc⟩ := lookTabs_some_mem ha'
      apply lookTabs_none_iff.mpr
      intro t' ht'
      cases hk' : t'.data.lookup k with
      | none => rfl
      | some c' =>
        have hov : overlaps t' s = true :=
          overlaps_of_common_key (k := k) (hLt t' (List.mem_filter.mp ht').1) (hS s (List.mem_reverse.mp hs)) (by rw [hk']; simp) (by rw [hc]; simp)
        have h2 := (List.mem_filter.mp ht').2
        have : ovl S t' = true := List.any_eq_true.mpr ⟨s, List.mem_reverse.mp hs, hov⟩
        rw [this] at h2; cases h2
  rw [hFb]
  cases bottom with
  | false =>
    simp only [Bool.false_eq_true, if_false, hm0', Option.or_assoc]
  | true =>
    simp only [if_true, hb rfl, lookLevels_nil, Option.or_none]
    rw [lookup_dropTombs _ (sorted_mergeOverlap _ _ (sorted_mergeSources S)).uniq, hm0']
    cases ha : lookTabs k S.reverse with
    | some c =>
      rw [hFa (by simp [ha])]
      cases c <;> simp
    | none =>
      cases ho : lookTabs k (Lt.filter (ovl S)) with
      | some c =>
        rw [hFo (by simp [ho])]
        cases c <;> simp
      | none => simp

/-- source level = deepest level: rewritten in place -/
theorem single_install (k : Key) (S : List Tab) (newId : Nat) (hS : ∀ t ∈ S, Sorted t.data)
    (hidS : (S.map (·.id)).Nodup) :
    (lookLevels k [removeIds [] (removeIds (S.map (·.id)) S) ++ [⟨newId, dropTombs (mergeSources S)⟩]]).join =
    (lookLevels k [S]).join := by
  have h0 : removeIds (S.map (·.id)) S = [] := by
    have := removeIds_self_append (S := S) (extra := []) (by simpa using hidS)
    simpa using this
  rw [h0]
  simp only [removeIds, List.filter_nil, List.nil_append, lookLevels_cons, lookLevels_nil, Option.or_none,
    List.reverse_cons, List.reverse_nil, lookTabs_cons, lookTabs_nil]
  rw [lookup_dropTombs _ (sorted_mergeSources S).uniq]
  have := lookup_merge S [] k (fun t ht => (hS t ht).uniq)
  simp only [mergeOverlap, List.foldl_nil, lookTabs_nil, Option.or_none] at this
  rw [this]
  cases lookTabs k S.reverse with
  | none => rfl
  | some c => cases c <;> rfl

end HappyModel.C14
