import HappyProofs.C14.Flush
import HappyProofs.C14.LsmSys
/-! The ghost log of memtable inserts; the abstract map changes exactly at those events. -/
namespace HappyModel.C14

/-- a memtable insert: segment index, operation id, key, cell, WAL sequence number -/
structure Ev where
  n : Nat
  id : Nat
  key : Key
  cell : Cell
  seq : Nat
deriving Repr, DecidableEq

/-- the memtable insert (if any) that the next segment of a frame performs -/
def insOf (cfg : Cfg) (s : St) : Pc → Option (Key × Cell × Nat)
  | .pStart k c => match cfg.wal with
    | none => some (k, c, 0)
    | some _ => none
  | .pWal k c q => match cfg.wal with
    | none => some (k, c, q)
    | some p => if (shouldSync p s).1 then none else some (k, c, q)
  | .pSync k c q => some (k, c, q)
  | _ => none

/-- newest event for `k` in a newest-first log -/
def firstOn (k : Key) : List Ev → Option Cell
  | [] => none
  | e :: r => if e.key = k then some e.cell else firstOn k r

theorem read_congr {s s' : St} (h1 : s'.mem = s.mem) (h2 : s'.imms = s.imms) (h3 : s'.levels = s.levels) (k : Key) :
    s'.read k = s.read k := by
  unfold St.read; rw [h1, h2, h3]

theorem abs_congr {s s' : St} (h1 : s'.mem = s.mem) (h2 : s'.imms = s.imms) (h3 : s'.levels = s.levels) (k : Key) :
    s'.abs k = s.abs k := by
  unfold St.abs; rw [read_congr h1 h2 h3]

theorem abs_memInsert (s : St) (k k' : Key) (c : Cell) :
    (memInsert s k c).1.abs k' = if k' = k then c else s.abs k' := by
  unfold St.abs
  rw [read_memInsert]
  by_cases h : k' = k <;> simp [h]

theorem shouldSync_fields (p : Policy) (s : St) :
    (shouldSync p s).2.mem = s.mem ∧ (shouldSync p s).2.imms = s.imms ∧ (shouldSync p s).2.levels = s.levels := by
  cases p <;> exact ⟨rfl, rfl, rfl⟩

/-- the hypothesis on the schedule: a flush that installs now belongs to the oldest frozen memtable -/
def FlushHead (s : St) : Pc → Prop
  | .pFlush t _ => s.imms.head? = some t
  | _ => True

/-- one segment changes the abstract map exactly by its memtable insert -/
theorem abs_step {cfg : Cfg} {s : St} {pc : Pc} (hs : SInv cfg s) (hp : POk cfg s pc) (hh : FlushHead s pc) (k' : Key) :
    (stepOp cfg s pc).1.abs k' = match insOf cfg s pc with
      | some (k, c, _) => if k' = k then c else s.abs k'
      | none => s.abs k' := by
  cases pc with
  | pStart k c =>
    simp only [stepOp, putStart, insOf]
    cases cfg.wal with
    | none => simp only; exact abs_memInsert s k k' c
    | some p => simp only; exact abs_congr rfl rfl rfl k'
  | pWal k c q =>
    simp only [stepOp, walWritten, insOf]
    cases cfg.wal with
    | none => simp only; exact abs_memInsert s k k' c
    | some p =>
      simp only
      obtain ⟨e1, e2, e3⟩ := shouldSync_fields p s
      by_cases hb : (shouldSync p s).1 = true
      · simp only [hb, if_true]; exact abs_congr e1 e2 e3 k'
      · simp only [hb, if_false, Bool.false_eq_true]
        rw [abs_memInsert]
        by_cases hk : k' = k
        · simp [hk]
        · simp only [hk, if_false]
          exact abs_congr (s := s) (s' := unpend (shouldSync p s).2 q) e1 e2 e3 k'
  | pSync k c q =>
    simp only [stepOp, walSynced, insOf]
    rw [abs_memInsert]
    by_cases hk : k' = k
    · simp [hk]
    · simp only [hk, if_false]
      exact abs_congr (s := s) (s' := unpend { s with synced := q, wss := 0 } q) rfl rfl rfl k'
  | pMem mid =>
    simp only [stepOp, afterMem, insOf]
    split
    · unfold St.abs; rw [read_flushStart]
    · rfl
  | pFlush t b =>
    simp only [stepOp, insOf]
    simp only [FlushHead] at hh
    simp only [POk] at hp
    obtain ⟨r, hr⟩ : ∃ r, s.imms = t :: r := by
      cases himm : s.imms with
      | nil => rw [himm] at hh; cases hh
      | cons a r => rw [himm] at hh; simp at hh; exact ⟨r, by rw [hh]⟩
    have hid : ∀ i ∈ r, i.id ≠ t.id := by
      have := hs.immIds
      rw [hr] at this
      simp only [List.map_cons, List.nodup_cons, List.mem_map, not_exists, not_and] at this
      exact fun i hi => this.1 i hi
    have hlv : s.levels ≠ [] := by
      intro h0
      have := hs.lv.len
      rw [h0] at this
      have := hs.lv.two
      simp at *; omega
    unfold St.abs
    rw [read_flushInstall cfg s t b r k' hr hid hlv]
  | pCompact j =>
    simp only [stepOp, insOf]
    simp only [POk] at hp
    unfold St.abs
    rw [read_eq, read_eq]
    apply or_join_congr
    apply or_join_congr
    have := lookLevels_install hs.lv hp.1 s.nextId k' 0 (Nat.zero_le _)
    simp only [List.drop_zero] at this
    exact this
  | gStart k => simp only [stepOp, insOf]; rw [(getStart_plain cfg s k).1]
  | gAt k i t r => simp only [stepOp, insOf]; rw [(getResume_plain cfg s k i t r).1]
  | sStart lo hi => simp only [stepOp, insOf]; rw [(scanStart_plain s lo hi).1]
  | sAt lo hi i t r acc => simp only [stepOp, insOf]; rw [(scanResume_plain s lo hi i t r acc).1]
  | done r => rfl

end HappyModel.C14
