import HappyProofs.C14.LsmRun
/-! Frames and schedules: the structural invariant of the whole system, for every run. -/
namespace HappyModel.C14

/-- the frame after its segment ran as segment number `n` from state `st` -/
def advFrame (cfg : Cfg) (st : St) (n : Nat) (f : Frame) : Frame :=
  { f with pc := (stepOp cfg st f.pc).2, b := f.b.orElse (fun _ => some n),
           seq0 := if f.b.isNone then st.nextSeq else f.seq0,
           e := if (stepOp cfg st f.pc).2.isDone then some n else none }

theorem stepFrames_spec (cfg : Cfg) (st : St) (n id : Nat) (fs : List Frame) :
    stepFrames cfg st n id fs = (st, fs) ∨
    ∃ pre f post, fs = pre ++ f :: post ∧ f.id = id ∧ f.pc.isDone = false ∧ (∀ g ∈ pre, g.id ≠ id) ∧
      stepFrames cfg st n id fs = ((stepOp cfg st f.pc).1, pre ++ advFrame cfg st n f :: post) := by
  induction fs with
  | nil => left; rfl
  | cons f fs ih =>
    unfold stepFrames
    by_cases hid : (f.id == id) = true
    · simp only [hid, if_true]
      by_cases hd : f.pc.isDone = true
      · left; simp [hd]
      · right
        refine ⟨[], f, fs, rfl, ?_, ?_, ?_, ?_⟩
        · simpa using hid
        · simpa using hd
        · intro g hg; cases hg
        · simp only [hd, Bool.false_eq_true, if_false, List.nil_append]
          rfl
    · simp only [hid, Bool.false_eq_true, if_false]
      rcases ih with h | ⟨pre, g, post, h1, h2, h3, h4, h5⟩
      · left; rw [h]
      · right
        refine ⟨f :: pre, g, post, by rw [h1]; rfl, h2, h3, ?_, ?_⟩
        · intro x hx
          rcases List.mem_cons.mp hx with rfl | hx
          · simpa using hid
          · exact h4 x hx
        · rw [h5]; rfl

/-- either nothing runs (unknown or finished operation) or exactly one frame advances -/
theorem step_cases (cfg : Cfg) (y : Sys) (id : Nat) :
    y.step cfg id = { y with n := y.n + 1 } ∨
    ∃ pre f post, y.frames = pre ++ f :: post ∧ f.id = id ∧ f.pc.isDone = false ∧ (∀ g ∈ pre, g.id ≠ id) ∧
      y.step cfg id = { st := (stepOp cfg y.st f.pc).1, frames := pre ++ advFrame cfg y.st y.n f :: post, n := y.n + 1 } := by
  rcases stepFrames_spec cfg y.st y.n id y.frames with h | ⟨pre, f, post, h1, h2, h3, h4, h5⟩
  · left; unfold Sys.step; simp only [h]
  · right; refine ⟨pre, f, post, h1, h2, h3, h4, ?_⟩
    unfold Sys.step; simp only [h5]

structure SysInv (cfg : Cfg) (y : Sys) : Prop where
  sinv : SInv cfg y.st
  pcs : ∀ f ∈ y.frames, POk cfg y.st f.pc
  excl : y.frames.countP (fun f => f.pc.isCompact) = b2n y.st.compacting
  flushIds : (y.frames.filterMap (fun f => flushId f.pc)).Nodup

theorem nodup_insert_mid {A B : List Nat} {x : Nat} (h : (A ++ B).Nodup) (ha : x ∉ A) (hb : x ∉ B) :
    (A ++ x :: B).Nodup := by
  have h' := List.nodup_append.mp h
  apply List.nodup_append.mpr
  refine ⟨h'.1, List.nodup_cons.mpr ⟨hb, h'.2.1⟩, ?_⟩
  intro a haA b hbB
  rcases List.mem_cons.mp hbB with rfl | hbB
  · intro e; subst e; exact ha haA
  · exact h'.2.2 a haA b hbB

/-- two different frames of a system satisfying the invariant are compatible -/
theorem compat_of_inv {cfg : Cfg} {st : St} {pre post : List Frame} {f : Frame} {n : Nat}
    (h : SysInv cfg ⟨st, pre ++ f :: post, n⟩) {g : Frame} (hg : g ∈ pre ∨ g ∈ post) : Compat f.pc g.pc := by
  have hex := h.excl
  have hfl := h.flushIds
  simp only [List.countP_append, List.countP_cons, List.filterMap_append, List.filterMap_cons] at hex hfl
  cases hf : f.pc <;> cases hgp : g.pc <;> simp only [Compat] <;> try trivial
  · rename_i t b t' b'
    rw [hf] at hfl
    simp only [flushId] at hfl
    have hmem : ∀ l : List Frame, g ∈ l → t'.id ∈ l.filterMap (fun f => flushId f.pc) := by
      intro l hl
      exact List.mem_filterMap.mpr ⟨g, hl, by rw [hgp]; rfl⟩
    have h' := List.nodup_append.mp hfl
    rcases hg with hg | hg
    · exact fun e => h'.2.2 _ (hmem pre hg) _ (List.mem_cons_self ..) e.symm
    · have := (List.nodup_cons.mp h'.2.1).1
      exact fun e => this (e ▸ hmem post hg)
  · rw [hf] at hex
    have hpos : ∀ l : List Frame, g ∈ l → 0 < l.countP (fun f => f.pc.isCompact) := by
      intro l hl
      exact List.countP_pos_iff.mpr ⟨g, hl, by rw [hgp]; rfl⟩
    have hb : b2n st.compacting ≤ 1 := by unfold b2n; split <;> omega
    have e1 : ∀ j, (Pc.pCompact j).isCompact = true := fun _ => rfl
    rw [e1] at hex
    simp only [if_true] at hex
    rcases hg with hg | hg
    · have := hpos pre hg; omega
    · have := hpos post hg; omega

theorem sysInv_step {cfg : Cfg} {y : Sys} (h : SysInv cfg y) (id : Nat) : SysInv cfg (y.step cfg id) := by
  rcases step_cases cfg y id with h0 | ⟨pre, f, post, h1, h2, h3, h4, h5⟩
  · rw [h0]; exact ⟨h.sinv, h.pcs, h.excl, h.flushIds⟩
  · rw [h5]
    obtain ⟨st, frames, n⟩ := y
    simp only at h1 h5 ⊢
    subst h1
    have hf : POk cfg st f.pc := h.pcs f (by simp)
    have ok := stepOp_ok h.sinv hf
    have hcomp : ∀ g, g ∈ pre ∨ g ∈ post → Compat f.pc g.pc := fun g hg => compat_of_inv h hg
    refine ⟨ok.sinv, ?_, ?_, ?_⟩
    · intro g hg
      simp only [List.mem_append, List.mem_cons] at hg
      rcases hg with hg | rfl | hg
      · exact ok.other _ (h.pcs g (by simp [hg])) (hcomp g (Or.inl hg))
      · exact ok.pok
      · exact ok.other _ (h.pcs g (by simp [hg])) (hcomp g (Or.inr hg))
    · have hex := h.excl
      have := ok.cnt
      simp only [List.countP_append, List.countP_cons, advFrame] at hex ⊢
      unfold b2n at *
      simp only at hex this ⊢
      omega
    · have hfl := h.flushIds
      simp only [List.filterMap_append, List.filterMap_cons, advFrame] at hfl ⊢
      cases hx : flushId (stepOp cfg st f.pc).2 with
      | none =>
        simp only
        cases hy : flushId f.pc with
        | none => rw [hy] at hfl; exact hfl
        | some z =>
          rw [hy] at hfl
          simp only at hfl
          exact List.Nodup.sublist (List.Sublist.append (List.Sublist.refl _) (List.sublist_cons_self ..)) hfl
      | some x =>
        obtain ⟨hx1, hx2⟩ := ok.fid x hx
        rw [hx2] at hfl
        simp only at hfl ⊢
        have hnot : ∀ l : List Frame, (∀ g ∈ l, POk cfg st g.pc) → x ∉ l.filterMap (fun f => flushId f.pc) := by
          intro l hl hm
          obtain ⟨g, hg, hgx⟩ := List.mem_filterMap.mp hm
          have hgp := hl g hg
          cases hgpc : g.pc with
          | pFlush t b =>
            rw [hgpc] at hgx hgp
            simp only [POk] at hgp
            simp only [flushId] at hgx
            have := (h.sinv.immFresh _ hgp).2
            rw [← hx1] at this
            injection hgx with hgx
            exact this hgx
          | _ => rw [hgpc] at hgx; simp [flushId] at hgx
        exact nodup_insert_mid hfl (hnot pre fun g hg => h.pcs g (by simp [hg])) (hnot post fun g hg => h.pcs g (by simp [hg]))

theorem sysInv_run {cfg : Cfg} {y : Sys} (h : SysInv cfg y) (sched : List Nat) : SysInv cfg (y.run cfg sched) := by
  induction sched generalizing y with
  | nil => exact h
  | cons id ids ih => exact ih (sysInv_step h id)

/-! ### initial systems -/

def Pc.isStart : Pc → Bool
  | .pStart _ _ => true
  | .gStart _ => true
  | .sStart _ _ => true
  | _ => false

/-- a fresh tree and operations none of which has started -/
structure InitSys (cfg : Cfg) (y : Sys) : Prop where
  st : ∃ oracle, y.st = St.init cfg oracle
  frames : ∀ f ∈ y.frames, f.pc.isStart = true ∧ f.b = none ∧ f.e = none
  n : y.n = 0

theorem getD_replicate_nil (n i : Nat) : (List.replicate n ([] : List Tab)).getD i [] = [] := by
  induction n generalizing i with
  | zero => rfl
  | succ n ih =>
    cases i with
    | zero => rfl
    | succ i => rw [List.replicate_succ, List.getD_cons_succ]; exact ih i

theorem sinv_init (cfg : Cfg) (oracle : List Bool) (h2 : 2 ≤ cfg.maxLevels) : SInv cfg (St.init cfg oracle) := by
  refine ⟨⟨by simp [St.init], h2, ?_, ?_, ?_⟩, sorted_nil, ?_, List.nodup_nil, ?_, ?_, ?_, by simp [St.init]⟩
  · intro i t ht; simp only [St.init] at ht; rw [getD_replicate_nil] at ht; cases ht
  · intro i _; simp only [St.init]; rw [getD_replicate_nil]; exact levelDisjoint_nil
  · intro i; simp only [St.init]; rw [getD_replicate_nil]; exact List.nodup_nil
  · intro t ht; cases ht
  · intro i t ht; simp only [St.init] at ht; rw [getD_replicate_nil] at ht; cases ht
  · intro i t ht; simp only [St.init] at ht; rw [getD_replicate_nil] at ht; cases ht
  · intro t ht; cases ht

theorem start_plain {pc : Pc} (h : pc.isStart = true) : pc.plain = true := by
  cases pc <;> simp [Pc.isStart] at h <;> rfl

theorem sysInv_init {cfg : Cfg} {y : Sys} (h : InitSys cfg y) (h2 : 2 ≤ cfg.maxLevels) : SysInv cfg y := by
  obtain ⟨oracle, hst⟩ := h.st
  refine ⟨by rw [hst]; exact sinv_init cfg oracle h2, fun f hf => (plain_ok (start_plain (h.frames f hf).1)).1, ?_, ?_⟩
  · rw [hst]
    show _ = 0
    apply List.countP_eq_zero.mpr
    intro f hf
    rw [(plain_ok (cfg := cfg) (s := y.st) (start_plain (h.frames f hf).1)).2.1]
    simp
  · have : y.frames.filterMap (fun f => flushId f.pc) = [] := by
      apply List.filterMap_eq_nil_iff.mpr
      intro f hf
      exact (plain_ok (cfg := cfg) (s := y.st) (start_plain (h.frames f hf).1)).2.2
    rw [this]; exact List.nodup_nil

/-- the structural invariant holds after every schedule -/
theorem lsm_inv_run {cfg : Cfg} {y : Sys} (h : InitSys cfg y) (h2 : 2 ≤ cfg.maxLevels) (sched : List Nat) :
    SysInv cfg (y.run cfg sched) := sysInv_run (sysInv_init h h2) sched

end HappyModel.C14
