import HappyProofs.C14.TxnMachG
/-!
# Transactions at run level: every quiesced run of the segment machine has `MachFacts`

`machFacts_run`: for a store obeying the map laws whose `get` generator acts in one segment (KVStore,
B-tree), every well-formed program, every schedule that runs the operations of a slot one after the other
and every run in which all started operations have completed, there is a timed ghost log with `MachFacts`
(`TxnObs.lean`).  The invariant behind it is `RInv` (`TxnMachC.lean`), preserved by every schedule position
(`RInv.step`, `TxnMachG.lean`).

`slotSeqB` is the executable form of the schedule hypothesis `SlotSeq`; the example at the end checks all
hypotheses on a concrete interleaving of a SNAPSHOT_ISOLATION reader and a SERIALIZABLE writer.
-/
namespace HappyModel.C14.SM
open HappyModel.C14 HappyModel.C14.BT

theorem isDone_done {pc : TPc} (h : pc.isDone = true) : ∃ r, pc = .done r := by
  cases pc with
  | done r => exact ⟨r, rfl⟩
  | _ => cases h

theorem machFacts_of_rinv {ok : Store → Prop} {ops : List (Nat × TOp)} {s0 : Store} {tm : TM}
    {fs : List (Frame TPc)} {n : Nat} {tlog : List (Nat × Ev)} (hwf : WFProg ops)
    (R : RInv ok s0.getSync ops tm fs n tlog) (hq : Quiesced fs) :
    MachFacts ok ops { store := s0 } tm fs tlog := by
  have hndf : (fs.map (·.id)).Nodup := by rw [R.ids]; exact hwf.ids
  have hfo : ∀ f ∈ fs, frameOf fs f.id = some f := fun f hf => frameOf_of_mem hndf hf
  have hdone : ∀ f ∈ fs, ∀ b, f.b = some b → f.pc.isDone = true := fun f hf b hb =>
    hq f hf (by rw [hb]; intro h; cases h)
  refine
    { inv := R.inv
      inv2 := R.inv2
      times := R.times
      ids := R.ids
      done_e := fun f hf b hb => ?_
      seq := fun pre o post hsp f hf hid b hb a ha hs => ?_
      begin_ev := fun f hf s l b hl hb => ?_
      read_res := fun f hf s k b e r hl hb he hpc => ?_
      commit_res := fun f hf s b r hl hb hpc => ?_
      commit_ev := fun m s w hm => ?_ }
  · obtain ⟨op, hl⟩ := R.lookup_frame hwf (hfo f hf)
    have hd := hdone f hf b hb
    obtain ⟨b', e, h1, h2, h3, _⟩ := R.done_info (hfo f hf) hl hd
    rw [hb] at h1
    cases h1
    obtain ⟨r, hr⟩ := isDone_done hd
    exact ⟨e, r, h2, hr, h3⟩
  · have hfo' : frameOf fs o.1 = some f := by rw [← hid]; exact hfo f hf
    obtain ⟨g, e, h1, _, h3, h4⟩ := R.seq pre o post f b hsp hfo' hb a ha hs
    exact ⟨g, frameOf_mem h1, frameOf_id h1, e, h3, h4⟩
  · obtain ⟨_, h2, h3⟩ := (R.frames f.id f _ (hfo f hf) hl).kind b hb
    exact ⟨h2, h3⟩
  · rcases (R.frames f.id f _ (hfo f hf) hl).kind b hb with ⟨j, h1, _⟩ | ⟨c, h1, h2, h3⟩
    · rw [h1] at hpc
      cases hpc
    · rw [h1] at hpc
      cases hpc
      refine ⟨c, rfl, ?_⟩
      split
      · next v hv => exact h2 v hv
      · next hv =>
        obtain ⟨m, e', g1, g2, g3, g4⟩ := h3 hv
        rw [he] at g1
        cases g1
        exact ⟨m, g2, g3, g4⟩
  · obtain ⟨h1, h2⟩ := (R.frames f.id f _ (hfo f hf) hl).kind b hb
    rcases h1 with h1 | ⟨fl, h1⟩
    · rw [h1] at hpc
      cases hpc
    · rw [h1] at hpc
      cases hpc
      refine ⟨fl, rfl, fun hfl => h2 (.inr ?_)⟩
      rw [h1, hfl]
  · obtain ⟨i, f, h1, h2, h3, h4, h5⟩ := R.cev m s w hm
    have hfm := frameOf_mem h1
    have hid := frameOf_id h1
    refine ⟨f, hfm, by rw [hid]; exact h2, h3, ?_, by rw [hid]; exact h5⟩
    rcases h4 with h4 | h4
    · have := hdone f hfm m h3
      rw [h4] at this
      cases this
    · exact h4

theorem machFacts_run (ok : Store → Prop) (ok_put : ∀ s k v, ok s → ok (s.putSync k v))
    (get_put : ∀ s k v k', ok s → (s.putSync k v).getSync k' = if k' = k then some v else s.getSync k')
    (nolsm : ∀ s, ok s → ∀ op, lsmStart s op = none)
    (s0 : Store) (h0 : ok s0) (ops : List (Nat × TOp)) (sched : List Nat)
    (hwf : WFProg ops) (hseq : SlotSeq ops { store := s0 } sched)
    (hq : Quiesced (runFrames stepT TPc.isDone { store := s0 } (framesOfT ops) 0 sched).2) :
    ∃ tlog, MachFacts ok ops { store := s0 }
      (runFrames stepT TPc.isDone { store := s0 } (framesOfT ops) 0 sched).1
      (runFrames stepT TPc.isDone { store := s0 } (framesOfT ops) 0 sched).2 tlog := by
  obtain ⟨tlog, R⟩ := rinv_run ok_put get_put nolsm s0 h0 ops sched hwf hseq sched.length (Nat.le_refl _)
  rw [List.take_length] at R
  exact ⟨tlog, machFacts_of_rinv hwf R hq⟩

/-! ### the schedule hypothesis, executable -/

/-- walking the program: whenever an operation has id `id`, the operations of its slot in the walked
    prefix `pre` are done in `fs` -/
def seqOK (fs : List (Frame TPc)) (id : Nat) : List (Nat × TOp) → List (Nat × TOp) → Bool
  | _, [] => true
  | pre, o :: post =>
    (o.1 != id || pre.all fun a => a.2.slot != o.2.slot || doneIn fs a.1) && seqOK fs id (pre ++ [o]) post

theorem seqOK_sound (fs : List (Frame TPc)) (id : Nat) (rest : List (Nat × TOp)) :
    ∀ pre, seqOK fs id pre rest = true → ∀ p o q, rest = p ++ o :: q → o.1 = id →
      ∀ a ∈ pre ++ p, a.2.slot = o.2.slot → doneIn fs a.1 = true := by
  induction rest with
  | nil => intro pre _ p o q h; simp at h
  | cons x rest ih =>
    intro pre h p o q hsp hid a ha hs
    simp only [seqOK, Bool.and_eq_true, Bool.or_eq_true, bne_iff_ne, ne_eq, List.all_eq_true] at h
    cases p with
    | nil =>
      simp only [List.nil_append, List.cons.injEq] at hsp
      obtain ⟨rfl, _⟩ := hsp
      rcases h.1 with h1 | h1
      · exact absurd hid h1
      · rcases h1 a (by simpa using ha) with h2 | h2
        · exact absurd hs h2
        · exact h2
    | cons y p =>
      simp only [List.cons_append, List.cons.injEq] at hsp
      obtain ⟨rfl, hsp⟩ := hsp
      exact ih (pre ++ [x]) h.2 p o q hsp hid a (by simpa using ha) hs

def slotSeqB (ops : List (Nat × TOp)) (tm0 : TM) (sched : List Nat) : Bool :=
  (List.range sched.length).all fun n =>
    match sched[n]? with
    | some id => seqOK (runFrames stepT TPc.isDone tm0 (framesOfT ops) 0 (sched.take n)).2 id [] ops
    | none => true

theorem slotSeq_of_B (ops : List (Nat × TOp)) (tm0 : TM) (sched : List Nat)
    (h : slotSeqB ops tm0 sched = true) : SlotSeq ops tm0 sched := by
  intro n pre o post hn hsp a ha hs
  have hlt : n < sched.length := by
    obtain ⟨h', _⟩ := List.getElem?_eq_some_iff.1 hn
    exact h'
  simp only [slotSeqB, List.all_eq_true, List.mem_range] at h
  have := h n hlt
  rw [hn] at this
  exact seqOK_sound _ _ ops [] this pre o post hsp rfl a (by simpa using ha) hs

/-! ### non-vacuity -/

/-- a SNAPSHOT_ISOLATION reader (slot 0) and a SERIALIZABLE writer (slot 1) -/
def exOps : List (Nat × TOp) :=
  [(0, .begin 0 .si), (1, .begin 1 .ser), (2, .read 0 0), (3, .write 1 0 99), (4, .write 1 1 98),
   (5, .commit 1), (6, .read 0 1), (7, .commit 0)]

/-- the reader's second read starts before the writer's commit and fetches after it -/
def exSched : List Nat := [0, 1, 0, 1, 2, 3, 2, 3, 4, 4, 6, 5, 5, 6, 7, 7]

def exRun : TM × List (Frame TPc) :=
  runFrames stepT TPc.isDone { store := exStore } (framesOfT exOps) 0 exSched

/-- value returned by the completed read `id` -/
def exVal (id : Nat) : Option (Option Nat) :=
  match exRun.2.find? fun f => f.id == id with
  | some f => (match f.pc with
    | .done (.val c) => some c
    | _ => none)
  | none => none

/-- flag returned by the completed commit `id` -/
def exFlag (id : Nat) : Option Bool :=
  match exRun.2.find? fun f => f.id == id with
  | some f => (match f.pc with
    | .done (.flag b) => some b
    | _ => none)
  | none => none

example : WFProg exOps := ⟨by decide, by decide, by decide⟩

example : slotSeqB exOps { store := exStore } exSched = true := by decide

/-- all frames are done (hence the run is quiesced); the writer committed (the store holds 98 under key 1)
    and the reader's second read, fetched after that commit, returned the snapshot value 11 -/
example :
    exRun.2.all (fun f => f.pc.isDone) = true ∧
    exRun.2.map (fun f => (f.id, f.b, f.e)) =
      [(0, some 0, some 2), (1, some 1, some 3), (2, some 4, some 6), (3, some 5, some 7),
       (4, some 8, some 9), (5, some 11, some 12), (6, some 10, some 13), (7, some 14, some 15)] ∧
    exFlag 5 = some true ∧ exRun.1.store.getSync 1 = some 98 ∧
    exVal 2 = some (some 10) ∧ exVal 6 = some (some 11) ∧ exFlag 7 = some true := by
  decide

example : Quiesced exRun.2 := by
  intro f hf _
  have h : exRun.2.all (fun f => f.pc.isDone) = true := by decide
  exact List.all_eq_true.1 h f hf

/-- the hypotheses of `machFacts_run` hold for the example (`kvOk` stores have no LSM `get`) -/
example : ∃ tlog, MachFacts kvOk exOps { store := exStore } exRun.1 exRun.2 tlog :=
  machFacts_run kvOk kv_laws.1 kv_laws.2
    (by rintro s ⟨d, rfl, _⟩ op; rfl)
    exStore ⟨_, rfl, by unfold SortedKV; decide⟩ exOps exSched ⟨by decide, by decide, by decide⟩
    (slotSeq_of_B _ _ _ (by decide))
    (by
      intro f hf _
      have h : exRun.2.all (fun f => f.pc.isDone) = true := by decide
      exact List.all_eq_true.1 h f hf)

end HappyModel.C14.SM
