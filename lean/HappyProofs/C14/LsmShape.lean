import HappyProofs.C14.LsmInstall
/-! The two shapes of a planned compaction; installing it keeps reads and the level invariants. -/
namespace HappyModel.C14

theorem drop_eq_getD_cons (ls : List (List Tab)) (i : Nat) (h : i < ls.length) :
    ls.drop i = ls.getD i [] :: ls.drop (i + 1) := by
  induction ls generalizing i with
  | nil => simp at h
  | cons l r ih =>
    cases i with
    | zero => simp
    | succ i => simpa using ih i (by simpa using h)

theorem split2 (lv : List (List Tab)) (i : Nat) (h : i + 1 < lv.length) :
    ∃ A C, lv = A ++ lv.getD i [] :: lv.getD (i + 1) [] :: C ∧ A.length = i ∧ C.length + (i + 2) = lv.length := by
  refine ⟨lv.take i, lv.drop (i + 2), ?_, ?_, ?_⟩
  · have h1 := decomp lv i (by omega)
    rw [drop_eq_getD_cons lv (i + 1) h] at h1
    exact h1
  · simp; omega
  · simp; omega

theorem split1 (lv : List (List Tab)) (i : Nat) (h : i + 1 = lv.length) :
    ∃ A, lv = A ++ [lv.getD i []] ∧ A.length = i := by
  refine ⟨lv.take i, ?_, ?_⟩
  · have h1 := decomp lv i (by omega)
    have : lv.drop (i + 1) = [] := by simp; omega
    rw [this] at h1
    exact h1
  · simp; omega

theorem getD_append_len (A : List (List Tab)) (x : List Tab) (r : List (List Tab)) :
    (A ++ x :: r).getD A.length [] = x := by
  induction A with
  | nil => rfl
  | cons a A ih => simp [ih]

theorem getD_append_len_succ (A : List (List Tab)) (x y : List Tab) (r : List (List Tab)) :
    (A ++ x :: y :: r).getD (A.length + 1) [] = y := by
  induction A with
  | nil => rfl
  | cons a A ih => simp [ih]

/-- the two shapes of a planned compaction -/
inductive Shape (cfg : Cfg) (lv : List (List Tab)) (j : Job) : Prop where
  | two (A : List (List Tab)) (S extra Lt : List Tab) (C : List (List Tab)) (bottom : Bool)
      (hlv : lv = A ++ (S ++ extra) :: Lt :: C)
      (hj : j = ⟨A.length, A.length + 1, S.map (·.id), (Lt.filter (ovl S)).map (·.id),
        if bottom then dropTombs (mergeOverlap (mergeSources S) (Lt.filter (ovl S)))
        else mergeOverlap (mergeSources S) (Lt.filter (ovl S))⟩)
      (hb : bottom = true → C = []) (hS : S ≠ []) (hex : A.length ≠ 0 → extra = [])
  | one (A : List (List Tab)) (S : List Tab)
      (hlv : lv = A ++ [S])
      (hj : j = ⟨A.length, A.length, S.map (·.id), [], dropTombs (mergeSources S)⟩)
      (hS : S ≠ []) (hA : 1 ≤ A.length)

theorem planned_shape {cfg : Cfg} {lv : List (List Tab)} {j : Job} (hI : LvInv cfg lv) (hP : Planned cfg lv j) :
    Shape cfg lv j := by
  obtain ⟨lv0, extra, hplan, hlen, htgt, hsrc, hex⟩ := hP
  obtain ⟨jsrc, jtgt, jrs, jrt, jd⟩ := j
  simp only at hplan htgt hsrc hex
  obtain ⟨hS, hj⟩ := plan_unpack hplan
  have hlt : jsrc < lv.length := by rw [← hlen]; exact getD_lt_of_ne_nil hS
  have hL := hI.len
  have h2 := hI.two
  injection hj with _ e2 e3 e4 e5
  by_cases hc : jsrc + 1 ≤ cfg.maxLevels - 1
  · have ht : min (jsrc + 1) (cfg.maxLevels - 1) = jsrc + 1 := Nat.min_eq_left hc
    rw [ht] at e2 e4 e5
    subst e2
    have hne : (jsrc + 1 != jsrc) = true := by simp
    rw [hne] at e4 e5
    simp only [if_true] at e4 e5
    obtain ⟨A, C, hdec, hA, hC⟩ := split2 lv jsrc (by omega)
    rw [hsrc, ← htgt] at hdec
    subst hA
    refine Shape.two A (lv0.getD A.length []) extra (lv0.getD (A.length + 1) []) C (A.length + 1 == cfg.maxLevels - 1)
      hdec ?_ ?_ hS hex
    · rw [e3, e4, e5]; rfl
    · intro hb
      have : A.length + 1 = cfg.maxLevels - 1 := by simpa using hb
      have : C.length = 0 := by omega
      exact List.eq_nil_of_length_eq_zero this
  · have ht : min (jsrc + 1) (cfg.maxLevels - 1) = jsrc := by omega
    rw [ht] at e2 e4 e5
    subst jtgt
    have hne : (jsrc != jsrc) = false := by simp
    have hbt : (jsrc == cfg.maxLevels - 1) = true := by simp; omega
    rw [hne] at e4 e5
    rw [hbt] at e5
    simp only [if_true, Bool.false_eq_true, if_false, List.map_nil] at e4 e5
    obtain ⟨A, hdec, hA⟩ := split1 lv jsrc (by omega)
    have hx : extra = [] := hex (by omega)
    rw [hsrc, hx, List.append_nil] at hdec
    subst hA
    refine Shape.one A (lv0.getD A.length []) hdec ?_ hS (by omega)
    rw [e3, e4, e5]; rfl

theorem install_two (A : List (List Tab)) (X Lt : List Tab) (C : List (List Tab)) (rs rt : List Nat) (d : Data) (newId : Nat) :
    installCompaction (A ++ X :: Lt :: C) ⟨A.length, A.length + 1, rs, rt, d⟩ newId =
      A ++ removeIds rs X :: (removeIds rt Lt ++ [⟨newId, d⟩]) :: C := by
  unfold installCompaction
  simp only
  rw [modAt_append_len, modAt_append_len_succ, modAt_append_len_succ]

theorem install_one (A : List (List Tab)) (X : List Tab) (rs rt : List Nat) (d : Data) (newId : Nat) :
    installCompaction (A ++ [X]) ⟨A.length, A.length, rs, rt, d⟩ newId =
      A ++ [removeIds rt (removeIds rs X) ++ [⟨newId, d⟩]] := by
  unfold installCompaction
  simp only
  rw [modAt_append_len, modAt_append_len, modAt_append_len]

theorem getD_append_lt (A B : List (List Tab)) (i : Nat) (h : i < A.length) : (A ++ B).getD i [] = A.getD i [] := by
  induction A generalizing i with
  | nil => simp at h
  | cons a A ih =>
    cases i with
    | zero => rfl
    | succ i => simpa using ih i (by simpa using h)

theorem getD_append_ge (A B : List (List Tab)) (i : Nat) : (A ++ B).getD (A.length + i) [] = B.getD i [] := by
  induction A with
  | nil => simp
  | cons a A ih =>
    have : (a :: A).length + i = (A.length + i) + 1 := by simp; omega
    rw [this]; simpa using ih

/-- installing a planned compaction: a read through the levels from level `i ≤ src` on finds the same
    value (a tombstone may have become an absence) -/
theorem lookLevels_install {cfg : Cfg} {lv : List (List Tab)} {j : Job} (hI : LvInv cfg lv) (hP : Planned cfg lv j)
    (newId : Nat) (k : Key) (i : Nat) (hi : i ≤ j.src) :
    (lookLevels k ((installCompaction lv j newId).drop i)).join = (lookLevels k (lv.drop i)).join := by
  cases planned_shape hI hP with
  | two A S extra Lt C bottom hlv hj hb hS hex =>
    subst hlv; subst hj
    simp only at hi
    rw [install_two, List.drop_append_of_le_length hi, List.drop_append_of_le_length hi, lookLevels_append,
      lookLevels_append]
    apply or_join_congr
    have h1 : ∀ t ∈ S ++ extra, Sorted t.data := by
      have := hI.sorted A.length; rwa [getD_append_len] at this
    have h2 : ∀ t ∈ Lt, Sorted t.data := by
      have := hI.sorted (A.length + 1); rwa [getD_append_len_succ] at this
    have h3 : LevelDisjoint Lt := by
      have := hI.disj (A.length + 1) (by omega); rwa [getD_append_len_succ] at this
    have h4 : ((S ++ extra).map (·.id)).Nodup := by
      have := hI.ids A.length; rwa [getD_append_len] at this
    have h5 : (Lt.map (·.id)).Nodup := by
      have := hI.ids (A.length + 1); rwa [getD_append_len_succ] at this
    exact pair_install k S extra Lt C newId bottom (fun t ht => h1 t (List.mem_append_left _ ht)) h2 h3 h4 h5 hb
  | one A S hlv hj hS hA =>
    subst hlv; subst hj
    simp only at hi
    rw [install_one, List.drop_append_of_le_length hi, List.drop_append_of_le_length hi, lookLevels_append,
      lookLevels_append]
    apply or_join_congr
    have h1 : ∀ t ∈ S, Sorted t.data := by
      have := hI.sorted A.length; rwa [getD_append_len] at this
    have h4 : (S.map (·.id)).Nodup := by
      have := hI.ids A.length; rwa [getD_append_len] at this
    exact single_install k S newId h1 h4

end HappyModel.C14
