import HappyProofs.C14.LsmScanData
/-! The reader's own segments: `scan`. -/
namespace HappyModel.C14

/-- what a completed scan returned is fine for every key of the range -/
structure RowsOk (lo hi : Key) (d : List (Key × Nat)) (Al : Key → Cell → Prop) : Prop where
  sorted : sortedStrict d = true
  range : ∀ r ∈ d, lo ≤ r.1 ∧ r.1 < hi
  cells : ∀ k, lo ≤ k → k < hi → Al k (d.lookup k)

/-- per key, before the walk chooses the next position from level `start` on -/
def KeyPre (s : St) (k : Key) (start : Nat) (found : Option Cell) (Al : Cell → Prop) : Prop :=
  match found with
  | some c => Al c
  | none => Pre s.mem s.imms s.levels k start Al

theorem rowsOk_of {lo hi : Key} {acc : Data} {Al : Key → Cell → Prop} (hacc : SAcc lo hi acc)
    (h : ∀ k, lo ≤ k → k < hi → Al k (acc.lookup k).join) : RowsOk lo hi (rowsOf acc) Al :=
  ⟨rowsOf_sorted hacc.sorted, fun r hr => hacc.range _ (rowsOf_keys hr),
   fun k h1 h2 => by rw [rowsOf_lookup hacc.sorted.uniq]; exact h k h1 h2⟩

theorem scanLevels_ok {cfg : Cfg} {s : St} (hs : SInv cfg s) {lo hi : Key} {acc : Data} {start : Nat}
    {Al : Key → Cell → Prop} (hacc : SAcc lo hi acc)
    (hk : ∀ k, lo ≤ k → k < hi → KeyPre s k start (acc.lookup k) (Al k)) :
    (∀ i t r acc', (scanLevels s lo hi start acc).2 = .sAt lo hi i t r acc' →
      acc' = acc ∧ ∀ k, lo ≤ k → k < hi → RInv s k i (t :: r) (acc.lookup k) (Al k)) ∧
    (∀ d, (scanLevels s lo hi start acc).2 = .done (.rows d) → RowsOk lo hi d Al) := by
  unfold scanLevels
  rw [scanLevelsW_eq]
  cases hw : walkLG (fun t => (inRange lo hi t.data).isEmpty) (s.levels.drop start) start with
  | some itr =>
    obtain ⟨i', t', r'⟩ := itr
    simp only
    refine ⟨fun i t r acc' e => ?_, fun d e => by cases e⟩
    injection e with _ _ e3 e4 e5 e6
    subst e3; subst e4; subst e5; subst e6
    refine ⟨rfl, fun k h1 h2 => ?_⟩
    have := hk k h1 h2
    unfold KeyPre at this
    unfold RInv
    cases hf : acc.lookup k with
    | some c => rw [hf] at this; exact this
    | none =>
      rw [hf] at this
      simp only at this ⊢
      have h3 := pre_enter hs.lv this _ (skip_range lo hi k ⟨h1, h2⟩)
      rw [hw] at h3
      exact h3
  | none =>
    simp only
    refine ⟨fun i t r acc' e => (by cases e), fun d e => ?_⟩
    rw [scanResult_eq] at e
    injection e with e; injection e with e; subst e
    refine rowsOk_of hacc fun k h1 h2 => ?_
    have := hk k h1 h2
    unfold KeyPre at this
    cases hf : acc.lookup k with
    | some c => rw [hf] at this; exact this
    | none =>
      rw [hf] at this
      simp only at this
      have h3 := pre_enter hs.lv this _ (skip_range lo hi k ⟨h1, h2⟩)
      rw [hw] at h3
      exact h3

theorem scanStart_ok {cfg : Cfg} {s : St} (hs : SInv cfg s) (lo hi : Key) {Al : Key → Cell → Prop}
    (hal : ∀ k, lo ≤ k → k < hi → Al k (s.abs k)) :
    (∀ i t r acc, (scanStart s lo hi).2 = .sAt lo hi i t r acc →
      SAcc lo hi acc ∧ ∀ k, lo ≤ k → k < hi → RInv s k i (t :: r) (acc.lookup k) (Al k)) ∧
    (∀ d, (scanStart s lo hi).2 = .done (.rows d) → RowsOk lo hi d Al) := by
  unfold scanStart
  simp only
  have hacc0 : SAcc lo hi (inRange lo hi s.mem) := sacc_inRange hs.memSorted
  have hacc := sacc_fold lo hi s.imms.reverse _ hacc0
  refine scanLevels_ok hs hacc ?_ |>.imp (fun h i t r acc e => ?_) id
  · intro k h1 h2
    have ha := hal k h1 h2
    rw [abs_of_read] at ha
    unfold KeyPre
    rw [lookup_fold lo hi _ _ k ⟨h1, h2⟩, lookup_inRange, if_pos ⟨h1, h2⟩]
    cases hm : s.mem.lookup k with
    | some c => rw [hm] at ha; exact ha
    | none =>
      rw [hm, Option.none_or] at ha
      rw [Option.none_or]
      cases hi : lookTabs k s.imms.reverse with
      | some c => rw [hi] at ha; exact ha
      | none =>
        rw [hi, Option.none_or] at ha
        simp only
        refine ⟨by simpa using ha, fun c hc => (by rw [hm] at hc; cases hc), ?_, fun j hj => (by omega)⟩
        intro u hu c hc
        rw [lookTabs_none_iff.mp hi u (List.mem_reverse.mpr hu)] at hc; cases hc
  · obtain ⟨e1, e2⟩ := h i t r acc e
    subst e1
    exact ⟨hacc, e2⟩

theorem scanResume_ok {cfg : Cfg} {s : St} (hs : SInv cfg s) (lo hi : Key) (i : Nat) (t : Tab) (r : List Tab) (acc : Data)
    {Al : Key → Cell → Prop} (hacc : SAcc lo hi acc)
    (hk : ∀ k, lo ≤ k → k < hi → RInv s k i (t :: r) (acc.lookup k) (Al k)) :
    (∀ i' t' r' acc', (scanResume s lo hi i t r acc).2 = .sAt lo hi i' t' r' acc' →
      SAcc lo hi acc' ∧ ∀ k, lo ≤ k → k < hi → RInv s k i' (t' :: r') (acc'.lookup k) (Al k)) ∧
    (∀ d, (scanResume s lo hi i t r acc).2 = .done (.rows d) → RowsOk lo hi d Al) := by
  unfold scanResume
  simp only
  have hacc' : SAcc lo hi (mergeOlder acc (inRange lo hi t.data)) := sacc_merge hacc t.data
  have hfound : ∀ k, lo ≤ k → k < hi →
      (mergeOlder acc (inRange lo hi t.data)).lookup k = (acc.lookup k).or (t.data.lookup k) := by
    intro k h1 h2
    rw [lookup_mergeOlder_or, lookup_inRange, if_pos ⟨h1, h2⟩]
  -- per key: either a value is held now, or the reader is past `t` without the key
  have split : ∀ k, lo ≤ k → k < hi →
      (∃ c, (mergeOlder acc (inRange lo hi t.data)).lookup k = some c ∧ Al k c) ∨
      ((mergeOlder acc (inRange lo hi t.data)).lookup k = none ∧ t.data.lookup k = none ∧
        RB s.mem s.imms s.levels k i (t :: r) (Al k)) := by
    intro k h1 h2
    have h := hk k h1 h2
    rw [hfound k h1 h2]
    unfold RInv at h
    cases hf : acc.lookup k with
    | some c => rw [hf] at h; exact Or.inl ⟨c, rfl, h⟩
    | none =>
      rw [hf] at h
      simp only at h
      rw [Option.none_or]
      cases ht : t.data.lookup k with
      | some c =>
        left
        refine ⟨c, rfl, ?_⟩
        have hc := h.cont
        rw [lookTabs_cons, ht] at hc
        exact hc
      | none => exact Or.inr ⟨rfl, rfl, h⟩
  rw [scanTabs_eq]
  cases hw : walkG (fun t => (inRange lo hi t.data).isEmpty) r with
  | some tr =>
    obtain ⟨t2, r2⟩ := tr
    simp only
    refine ⟨fun i' t' r' acc' e => ?_, fun d e => (by cases e)⟩
    injection e with _ _ e3 e4 e5 e6
    subst e3; subst e4; subst e5; subst e6
    refine ⟨hacc', fun k h1 h2 => ?_⟩
    unfold RInv
    rcases split k h1 h2 with ⟨c, e, hc⟩ | ⟨e, ht, hrb⟩
    · rw [e]; exact hc
    · rw [e]
      simp only
      have := rb_advance hs.lv hrb ht _ (skip_range lo hi k ⟨h1, h2⟩)
      rw [hw] at this
      exact this
  | none =>
    simp only
    refine scanLevels_ok hs hacc' ?_ |>.imp (fun h i' t' r' acc' e => ?_) id
    · intro k h1 h2
      unfold KeyPre
      rcases split k h1 h2 with ⟨c, e, hc⟩ | ⟨e, ht, hrb⟩
      · rw [e]; exact hc
      · rw [e]
        simp only
        refine rb_exhausted hrb ?_
        apply lookTabs_none_iff.mpr
        intro x hx
        rcases List.mem_cons.mp hx with rfl | hx
        · exact ht
        · exact skip_range lo hi k ⟨h1, h2⟩ x (walkG_none hw x hx)
    · obtain ⟨e1, e2⟩ := h i' t' r' acc' e
      subst e1
      exact ⟨hacc', e2⟩

end HappyModel.C14
