import HappyProofs.C14.TxnJudgeB
/-!
# The transaction judge accepts observations that satisfy `TxnFacts`

`judgeTxn_of_facts`: if the observations `ts` of a run, a commit history `h` (position of the commit call,
slot, write set; strictly sorted by position) and the final store satisfy `TxnFacts` — own writes are
returned, the committed transactions are exactly the entries of `h`, the final store is the serial replay of
`h`, SERIALIZABLE transactions read the serial state just before their commit, SNAPSHOT_ISOLATION
transactions read the serial state at one position not after any of their reads nor their commit — then the
judge of the Spec (`TxSpec.judgeTxn`) has no finding.  The serial order the judge needs is the commit order
itself, which `TxnJudgeB.lean` shows to be `h`.
-/
namespace HappyModel.C14.SM
open HappyModel.C14 HappyModel.C14.BT HappyModel.C14.TxSpec

theorem getD_range_map (finalF : Key → Option Nat) (nkeys k : Nat) (hk : k < nkeys) :
    ((List.range nkeys).map finalF).getD k none = finalF k := by
  simp [List.getD_eq_getElem?_getD, hk]

/-- the commit order is a serial order: final store, and reads of the SERIALIZABLE transactions -/
theorem serialOk_commitOrder (b : Bool) {init finalF : Key → Option Nat} {ts : List TObs} {h : Hist}
    (st0 : State) (nkeys : Nat) (hf : TxnFacts init finalF ts h) (hinit : ∀ k, st0.lookup k = init k) :
    serialOk b nkeys ((List.range nkeys).map finalF) st0 (commitOrder ts) = true := by
  apply serialOk_of
  · intro p t q hpq hl
    have ht : t ∈ commitOrder ts := by rw [hpq]; simp
    have htm := (mem_commitOrder ts t).1 ht
    have hmap := commitOrder_map hf
    rw [hpq, List.map_append, List.map_cons] at hmap
    have hfil := filter_before_entry (p.map keyOf) (keyOf t) (q.map keyOf) (by rw [hmap]; exact hf.sorted)
    rw [hmap] at hfil
    simp only [readsMatch, List.all_eq_true, beq_iff_eq]
    intro r hr
    rw [lookup_runW p st0 init hinit r.1, ← hfil]
    exact (hf.ser t htm.1 htm.2 hl r hr).symm
  · intro k hk
    rw [lookup_runW _ st0 init hinit k, commitOrder_map hf, ← hf.final k, getD_range_map finalF nkeys k hk]

/-- a SNAPSHOT_ISOLATION transaction read from the state after a prefix of the commit order -/
theorem snapshotOk_of_facts {init finalF : Key → Option Nat} {ts : List TObs} {h : Hist}
    (st0 : State) (hf : TxnFacts init finalF ts h) (hinit : ∀ k, st0.lookup k = init k)
    (t : TObs) (ht : t ∈ ts) (hl : t.level = .si) : snapshotOk st0 ts t = true := by
  unfold snapshotOk
  split
  · rfl
  · rename_i hne
    obtain ⟨nb, h1, h2, h3⟩ := hf.si t ht hl
    have hnb : nb ≤ t.ext.foldl (fun m r => max m r.2.2) 0 := by
      cases hext : t.ext with
      | nil => simp [hext] at hne
      | cons r0 rest =>
        have hr0 : r0 ∈ t.ext := by simp [hext]
        have := (le_foldl_max t.ext 0).2 r0 hr0
        have := h1 r0 hr0
        rw [← hext]
        omega
    obtain ⟨s', hm, hs'⟩ := prefixStates_before
      (fun c => c.slot != t.slot && decide (c.commitPos < t.ext.foldl (fun m r => max m r.2.2) 0)) nb
      (commitOrder ts) st0 init (commitOrder_sorted ts) (by
        intro c hc hlt
        have hk := commitOrder_key_mem hf c hc
        have hslot : c.slot ≠ t.slot := by
          intro he
          have := h2 (keyOf c) hk he
          simp only [keyOf] at this
          omega
        simp only [Bool.and_eq_true, bne_iff_ne, ne_eq, decide_eq_true_eq]
        exact ⟨hslot, by omega⟩) hinit
    simp only [List.any_eq_true]
    refine ⟨s', hm, ?_⟩
    simp only [readsMatch, List.all_eq_true, beq_iff_eq]
    intro r hr
    rw [hs' r.1, commitOrder_map hf]
    exact (h3 r hr).symm

theorem judgeTxn_of_facts (init finalF : Key → Option Nat) (ts : List TObs) (h : Hist) (st0 : State) (nkeys : Nat)
    (hf : TxnFacts init finalF ts h) (hinit : ∀ k, st0.lookup k = init k) :
    judgeTxn st0 nkeys ((List.range nkeys).map finalF) ts = none := by
  have hown : ts.find? (·.ownBad) = none := by
    rw [List.find?_eq_none]
    intro t ht
    simp [hf.own t ht]
  have hser : ∀ b, (if (commitOrder ts).length ≤ 6 then commitOrder ts :: perms (commitOrder ts)
      else [commitOrder ts]).any (fun p => serialOk b nkeys ((List.range nkeys).map finalF) st0 p) = true := by
    intro b
    have := serialOk_commitOrder b st0 nkeys hf hinit
    split <;> simp [this]
  have hsi : (ts.find? fun t => t.level = .si && !snapshotOk st0 ts t) = none := by
    rw [List.find?_eq_none]
    intro t ht
    by_cases hl : t.level = .si
    · simp [snapshotOk_of_facts st0 hf hinit t ht hl]
    · simp [hl]
  simp only [judgeTxn, hown, hser, hsi, Bool.not_true, Bool.false_eq_true, if_false]

/-! ### non-vacuity

A SNAPSHOT_ISOLATION reader (slot 1) reads key 0 (segments 0–1, old value 5) and key 1 (segments 3–4, absent) and
commits read-only at position 5; a SERIALIZABLE writer (slot 2) reads key 0 and overwrites it, committing at
position 2, in the middle of the reader.  The reader's snapshot position is 1. -/
namespace JudgeEx

def init : Key → Option Nat := fun k => if k = 0 then some 5 else none
def finalF : Key → Option Nat := fun k => if k = 0 then some 7 else none
def reader : TObs :=
  { slot := 1, level := .si, steps := [.read 0 (some 5) 0 1, .read 1 none 3 4], commit := some (5, true) }
def writer : TObs :=
  { slot := 2, level := .ser, steps := [.read 0 (some 5) 1 1, .write 0 7, .read 0 (some 7) 2 2], commit := some (2, true) }
def hist : Hist := [(2, 2, [(0, 7)]), (5, 1, [])]

theorem facts : TxnFacts init finalF [reader, writer] hist where
  slots := by decide
  sorted := by decide
  own := by decide
  comm_hist := by decide
  hist_comm := by decide
  final := by
    intro k
    simp only [finalF, init, hist, stateEnd, applyF, putF, List.foldl_cons, List.foldl_nil]
    by_cases hk : k = 0 <;> simp [hk]
  ser := by decide
  si := by
    intro t ht hl
    simp only [List.mem_cons, List.not_mem_nil, or_false] at ht
    rcases ht with rfl | rfl
    · exact ⟨1, by decide, by decide, by decide⟩
    · exact absurd hl (by decide)

example : writer.ext = [(0, some 5, 1)] ∧ reader.ext.length = 2 ∧ writer.wset = [(0, 7)] := by decide

example : judgeTxn [(0, 5)] 2 ((List.range 2).map finalF) [reader, writer] = none :=
  judgeTxn_of_facts init finalF [reader, writer] hist [(0, 5)] 2 facts (by
    intro k
    simp only [init, lookup_cons_ite, List.lookup_nil])

-- the judge evaluates to the same verdict, and rejects a reader that returns a value no prefix state holds
#guard (judgeTxn [(0, 5)] 2 [some 7, none] [reader, writer]).isNone
#guard (judgeTxn [(0, 5)] 2 [some 7, none]
  [{ reader with steps := [.read 0 (some 6) 0 1, .read 1 none 3 4] }, writer]).isSome

end JudgeEx

end HappyModel.C14.SM

#print axioms HappyModel.C14.SM.judgeTxn_of_facts
#print axioms HappyModel.C14.SM.JudgeEx.facts
