import HappyModel.C14.Txn
/-!
# Transaction manager, part 1: actions with ghost events, serial replay, lookup lemmas

The atomic actions of `HappyModel.C14.SM.TM` are wrapped into `stepA`, which also emits *ghost events*
(`began`, `fetched`, `committed`); `replay` is the serial execution of the committed write sets in
commit order.  The rest of the file is the elementary toolkit: how `TM.tx?` changes under `setTx` and
`begin`, `applyWrites` against the abstract map `applyF`, `replay`/`replayN` over `++`,
`snapshotValue` over `++`.
-/
namespace HappyModel.C14.SM
open HappyModel.C14 HappyModel.C14.BT

inductive Act where
  | begin (slot : Nat) (lvl : Level)
  | readStart (slot : Nat) (k : Key)
  | readFetch (slot : Nat) (k : Key)
  | write (slot : Nat) (k : Key) (v : Nat)
  | commit (slot : Nat)
  | abort (slot : Nat)
deriving Repr, DecidableEq

inductive Ev where
  | began (slot : Nat)                                   -- `begin` really created the transaction
  | fetched (slot : Nat) (k : Key) (val : Option Nat)    -- a read that went to the store returned `val`
  | committed (slot : Nat) (wset : KV)                   -- commit succeeded and applied `wset`
deriving Repr, DecidableEq

def Ev.slot : Ev → Nat
  | .began s => s
  | .fetched s _ _ => s
  | .committed s _ => s

/-- value a read returns when its fetch happens in state `tm` (`readAdvance`) -/
def fetchVal (tm : TM) (slot : Nat) (k : Key) : Option Nat :=
  match tm.tx? slot with
  | some tx => tm.adjust tx k (tm.store.getSync k)
  | none => tm.store.getSync k

/-- One action with its ghost events.  A fetch is recorded for an active transaction that has `k` in
    its read set.  (Reads of a key the transaction has written itself are answered from the write set
    in `stepT` and never reach the store, so every fetch is an external read; no condition on the
    write set is imposed here, which only makes the theorems stronger.) -/
def stepA (tm : TM) : Act → TM × List Ev
  | .begin slot lvl => (tm.begin slot lvl, match tm.tx? slot with
      | none => [.began slot]
      | some _ => [])
  | .readStart slot k => (tm.readStart slot k, [])
  | .readFetch slot k => (tm, match tm.tx? slot with
      | some tx => if tx.stat = .active ∧ k ∈ tx.rset then [.fetched slot k (fetchVal tm slot k)] else []
      | none => [])
  | .write slot k v => (tm.write slot k v, [])
  | .commit slot => ((tm.commit slot).1, match tm.tx? slot with
      | some tx => if (tm.commit slot).2 then [.committed slot tx.wset] else []
      | none => [])
  | .abort slot => (tm.abort slot, [])

/-- run a sequence of actions; events in order of occurrence -/
def runA : TM → List Act → TM × List Ev
  | tm, [] => (tm, [])
  | tm, a :: as => ((runA (stepA tm a).1 as).1, (stepA tm a).2 ++ (runA (stepA tm a).1 as).2)

/-- `put` on the abstract map -/
def putF (f : Key → Option Nat) (k : Key) (v : Nat) : Key → Option Nat :=
  fun k' => if k' = k then some v else f k'

/-- a write set applied to the abstract map, in dict order like `applyWrites` -/
def applyF (f : Key → Option Nat) (w : KV) : Key → Option Nat := w.foldl (fun f e => putF f e.1 e.2) f

/-- serial replay: the writes of the committed transactions, in commit order, on top of `init` -/
def replay (init : Key → Option Nat) : List Ev → Key → Option Nat
  | [] => init
  | .committed _ w :: r => replay (applyF init w) r
  | _ :: r => replay init r

def ncommits : List Ev → Nat
  | [] => 0
  | .committed _ _ :: r => ncommits r + 1
  | _ :: r => ncommits r

/-- serial replay of the first `n` commits only -/
def replayN (init : Key → Option Nat) : Nat → List Ev → Key → Option Nat
  | _, [] => init
  | 0, .committed _ _ :: _ => init
  | n + 1, .committed _ w :: r => replayN (applyF init w) n r
  | n, .began _ :: r => replayN init n r
  | n, .fetched _ _ _ :: r => replayN init n r

/-! ### `tx?` under `setTx` and `begin` -/

theorem tx?_mem {tm : TM} {s : Nat} {tx : Tx} (h : tm.tx? s = some tx) : tx.slot = s := by
  have := List.find?_some h
  simpa using this

theorem find_set_other (l : List Tx) (tx' : Tx) (s : Nat) (hs : s ≠ tx'.slot) :
    (l.map fun t => if t.slot == tx'.slot then tx' else t).find? (fun t => t.slot == s)
      = l.find? (fun t => t.slot == s) := by
  induction l with
  | nil => rfl
  | cons a l ih =>
    simp only [List.map_cons, List.find?_cons, ih]
    by_cases h : a.slot = tx'.slot
    · have h1 : (a.slot == s) = false := by simp; omega
      have h2 : (tx'.slot == s) = false := by simp; omega
      simp [h, h2]
    · have h1 : (a.slot == tx'.slot) = false := by simp [h]
      simp [h1]

theorem find_set_same (l : List Tx) (tx' : Tx) (h : (l.find? fun t => t.slot == tx'.slot).isSome) :
    (l.map fun t => if t.slot == tx'.slot then tx' else t).find? (fun t => t.slot == tx'.slot) = some tx' := by
  induction l with
  | nil => simp at h
  | cons a l ih =>
    simp only [List.map_cons, List.find?_cons]
    by_cases h1 : a.slot = tx'.slot
    · simp [h1]
    · have hb : (a.slot == tx'.slot) = false := by simp [h1]
      simp only [List.find?_cons, hb] at h
      simp only [hb, Bool.false_eq_true, if_false]
      exact ih h

theorem tx?_setTx (tm : TM) (tx' : Tx) (h : (tm.tx? tx'.slot).isSome) (s : Nat) :
    (tm.setTx tx').tx? s = if s = tx'.slot then some tx' else tm.tx? s := by
  by_cases hs : s = tx'.slot
  · subst hs
    simpa [TM.tx?, TM.setTx] using find_set_same tm.txs tx' h
  · simpa [TM.tx?, TM.setTx, hs] using find_set_other tm.txs tx' s hs

theorem tx?_begin (tm : TM) (slot : Nat) (lvl : Level) (h : tm.tx? slot = none) (s : Nat) :
    (tm.begin slot lvl).tx? s =
      if s = slot then some { slot := slot, id := tm.nextId, level := lvl, snap := tm.version } else tm.tx? s := by
  simp only [TM.begin, h]
  simp only [TM.tx?, List.find?_append, List.find?_cons, List.find?_nil]
  by_cases hs : s = slot
  · subst hs
    simp only [TM.tx?] at h
    simp [h]
  · have : (slot == s) = false := by simp; omega
    simp [hs, this]

/-! ### write sets -/

theorem applyF_notin (f : Key → Option Nat) (w : KV) (k : Key) (h : k ∉ w.map (·.1)) :
    applyF f w k = f k := by
  induction w generalizing f with
  | nil => rfl
  | cons e w ih =>
    simp only [List.map_cons, List.mem_cons, not_or] at h
    simp only [applyF, List.foldl_cons] at ih ⊢
    rw [ih _ h.2]
    simp [putF, h.1]

theorem applyWrites_spec (ok : Store → Prop) (ok_put : ∀ s k v, ok s → ok (s.putSync k v))
    (get_put : ∀ s k v k', ok s → (s.putSync k v).getSync k' = if k' = k then some v else s.getSync k')
    (w : KV) : ∀ (s : Store) (f : Key → Option Nat), ok s → (∀ k, s.getSync k = f k) →
      ok (applyWrites s w) ∧ ∀ k, (applyWrites s w).getSync k = applyF f w k := by
  induction w with
  | nil => intro s f h1 h2; exact ⟨h1, h2⟩
  | cons e w ih =>
    intro s f h1 h2
    simp only [applyWrites, applyF, List.foldl_cons] at ih ⊢
    refine ih _ _ (ok_put _ _ _ h1) ?_
    intro k
    rw [get_put _ _ _ _ h1, h2]
    rfl

theorem lookup_prior (w : KV) (g : Key → Option Nat) (k : Key) (h : k ∈ w.map (·.1)) :
    (w.map fun e => (e.1, g e.1)).lookup k = some (g k) := by
  induction w with
  | nil => simp at h
  | cons e w ih =>
    simp only [List.map_cons, List.lookup_cons]
    by_cases h1 : k = e.1
    · simp [h1]
    · simp only [List.map_cons, List.mem_cons, h1, false_or] at h
      have : (k == e.1) = false := by simp [h1]
      simp only [this]
      exact ih h

/-! ### replay over `++` -/

theorem replay_append (init : Key → Option Nat) (a b : List Ev) :
    replay init (a ++ b) = replay (replay init a) b := by
  induction a generalizing init with
  | nil => rfl
  | cons e a ih => cases e <;> simp only [List.cons_append, replay, ih]

theorem ncommits_append (a b : List Ev) : ncommits (a ++ b) = ncommits a + ncommits b := by
  induction a with
  | nil => simp [ncommits]
  | cons e a ih => cases e <;> simp only [List.cons_append, ncommits, ih] <;> omega

theorem replayN_append_le (init : Key → Option Nat) (n : Nat) (a b : List Ev) (h : n ≤ ncommits a) :
    replayN init n (a ++ b) = replayN init n a := by
  induction a generalizing init n with
  | nil =>
    simp only [ncommits] at h
    have : n = 0 := by omega
    subst this
    induction b with
    | nil => rfl
    | cons e b ihb => cases e <;> simp_all [replayN]
  | cons e a ih =>
    cases e with
    | began s => simp only [List.cons_append, replayN]; exact ih _ _ (by simpa [ncommits] using h)
    | fetched s k v => simp only [List.cons_append, replayN]; exact ih _ _ (by simpa [ncommits] using h)
    | committed s w =>
      cases n with
      | zero => simp only [List.cons_append, replayN]
      | succ n =>
        simp only [List.cons_append, replayN]
        exact ih _ _ (by simp only [ncommits] at h; omega)

theorem replayN_ge (init : Key → Option Nat) (n : Nat) (a : List Ev) (h : ncommits a ≤ n) :
    replayN init n a = replay init a := by
  induction a generalizing init n with
  | nil => cases n <;> rfl
  | cons e a ih =>
    cases e with
    | began s => simp only [replayN, replay]; exact ih _ _ (by simpa [ncommits] using h)
    | fetched s k v => simp only [replayN, replay]; exact ih _ _ (by simpa [ncommits] using h)
    | committed s w =>
      cases n with
      | zero => simp [ncommits] at h
      | succ n =>
        simp only [replayN, replay]
        exact ih _ _ (by simp only [ncommits] at h; omega)

theorem replayN_prefix (init : Key → Option Nat) (a b : List Ev) :
    replayN init (ncommits a) (a ++ b) = replay init a := by
  rw [replayN_append_le _ _ _ _ (Nat.le_refl _), replayN_ge _ _ _ (Nat.le_refl _)]

/-! ### `snapshotValue` -/

theorem snapshotValue_append (n : Nat) (k : Key) (cur : Option Nat) (l1 l2 : List LogE) :
    snapshotValue n k cur (l1 ++ l2) = snapshotValue n k (snapshotValue n k cur l2) l1 := by
  induction l1 with
  | nil => rfl
  | cons e l1 ih =>
    simp only [List.cons_append, snapshotValue, ih]

theorem snapshotValue_cases (n : Nat) (k : Key) (cur : Option Nat) (l : List LogE) :
    snapshotValue n k cur l = cur ∨ ∃ e ∈ l, n < e.version ∧ k ∈ e.wkeys := by
  induction l with
  | nil => exact .inl rfl
  | cons e l ih =>
    by_cases h : n < e.version ∧ k ∈ e.wkeys
    · exact .inr ⟨e, by simp, h⟩
    · have h' : (decide (e.version ≤ n) || !e.wkeys.contains k) = true := by
        simp only [Bool.or_eq_true, decide_eq_true_eq, Bool.not_eq_true', List.contains_eq_mem,
          decide_eq_false_iff_not]
        by_cases h1 : e.version ≤ n
        · exact .inl h1
        · exact .inr fun hk => h ⟨by omega, hk⟩
      simp only [snapshotValue, h', if_true]
      rcases ih with ih | ⟨e', he', h2⟩
      · exact .inl ih
      · exact .inr ⟨e', by simp [he'], h2⟩

theorem snapshotValue_all_le (n : Nat) (k : Key) (cur : Option Nat) (l : List LogE)
    (h : ∀ e ∈ l, e.version ≤ n) : snapshotValue n k cur l = cur := by
  induction l with
  | nil => rfl
  | cons e l ih =>
    have h1 : e.version ≤ n := h e (by simp)
    simp only [snapshotValue, h1, decide_true, Bool.true_or, if_true]
    exact ih fun e' he' => h e' (by simp [he'])

theorem mem_addKey {k k' : Key} {l : List Key} (h : k' ∈ l) : k' ∈ addKey k l := by
  unfold addKey
  split
  · exact h
  · simp [h]

theorem inter_false {a b : List Key} (h : inter a b = false) : ∀ k ∈ a, k ∉ b := by
  intro k hk hb
  have : inter a b = true := by
    simp only [inter, List.any_eq_true]
    exact ⟨k, hk, by simpa using hb⟩
  simp [h] at this

end HappyModel.C14.SM
