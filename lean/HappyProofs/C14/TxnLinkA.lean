import HappyProofs.C14.TxnObs
/-!
# Transactions, link machine → judge, part A: generic list facts, timed logs, serial states

Toolkit for `txnFacts_of_mach` (`TxnLink.lean`): association lists and frames under distinct ids,
splitting a strictly increasing timed log at one of its entries, and the serial states of the judge
(`stateEnd`, `stateAt` over `histOf`) as `replay` of a prefix of the ghost log.
-/
namespace HappyModel.C14.SM
open HappyModel.C14 HappyModel.C14.BT HappyModel.C14.TxSpec

/-! ### association lists and frames with distinct ids -/

theorem lookup_of_mem_nd {α : Type} {l : List (Nat × α)} (hn : (l.map (·.1)).Nodup) {o : Nat × α} (ho : o ∈ l) :
    l.lookup o.1 = some o.2 := by
  induction l with
  | nil => cases ho
  | cons x r ih =>
    simp only [List.map_cons, List.nodup_cons] at hn
    rcases List.mem_cons.mp ho with rfl | ho'
    · simp [List.lookup]
    · have : (o.1 == x.1) = false := by
        simp only [beq_eq_false_iff_ne, ne_eq]
        intro e
        exact hn.1 (e ▸ List.mem_map_of_mem ho')
      obtain ⟨x1, x2⟩ := x
      simp only [List.lookup, this]
      exact ih hn.2 ho'

theorem mem_of_lookup {α : Type} {l : List (Nat × α)} {i : Nat} {a : α} (h : l.lookup i = some a) : (i, a) ∈ l := by
  induction l with
  | nil => simp at h
  | cons x r ih =>
    obtain ⟨x1, x2⟩ := x
    simp only [List.lookup_cons] at h
    by_cases e : i = x1
    · subst e
      simp only [beq_self_eq_true, Option.some.injEq] at h
      subst h
      exact List.mem_cons_self
    · have : (i == x1) = false := by simp [e]
      simp only [this] at h
      exact List.mem_cons_of_mem _ (ih h)

theorem frame_unique {π : Type} {fs : List (Frame π)} (hn : (fs.map (·.id)).Nodup) {f g : Frame π}
    (hf : f ∈ fs) (hg : g ∈ fs) (h : f.id = g.id) : f = g := by
  induction fs with
  | nil => cases hf
  | cons x r ih =>
    simp only [List.map_cons, List.nodup_cons] at hn
    rcases List.mem_cons.mp hf with rfl | hf' <;> rcases List.mem_cons.mp hg with rfl | hg'
    · rfl
    · exact absurd (h ▸ List.mem_map_of_mem (f := (·.id)) hg') hn.1
    · exact absurd (h ▸ List.mem_map_of_mem (f := (·.id)) hf') hn.1
    · exact ih hn.2 hf' hg'

theorem find_of_mem {π : Type} {fs : List (Frame π)} (hn : (fs.map (·.id)).Nodup) {f : Frame π} (hf : f ∈ fs) :
    fs.find? (fun g => g.id == f.id) = some f := by
  induction fs with
  | nil => cases hf
  | cons x r ih =>
    simp only [List.map_cons, List.nodup_cons] at hn
    rcases List.mem_cons.mp hf with rfl | hf'
    · simp
    · have : (x.id == f.id) = false := by
        simp only [beq_eq_false_iff_ne, ne_eq]
        intro e
        exact hn.1 (e ▸ List.mem_map_of_mem (f := (·.id)) hf')
      simp only [List.find?_cons, this]
      exact ih hn.2 hf'

theorem mem_of_find {π : Type} {fs : List (Frame π)} {i : Nat} {f : Frame π}
    (h : fs.find? (fun g => g.id == i) = some f) : f ∈ fs ∧ f.id = i := by
  refine ⟨List.mem_of_find?_eq_some h, ?_⟩
  have := List.find?_some h
  simpa using this

/-- a frame for every operation -/
theorem frame_of_op {π : Type} {α : Type} {fs : List (Frame π)} {ops : List (Nat × α)}
    (hids : fs.map (·.id) = ops.map (·.1)) {o : Nat × α} (ho : o ∈ ops) : ∃ f ∈ fs, f.id = o.1 := by
  have : o.1 ∈ fs.map (·.id) := hids ▸ List.mem_map_of_mem ho
  obtain ⟨f, hf, e⟩ := List.mem_map.mp this
  exact ⟨f, hf, e⟩

theorem takeWhile_split {α : Type} (pre : List (Nat × α)) (o : Nat × α) (post : List (Nat × α))
    (h : ∀ a ∈ pre, a.1 ≠ o.1) : (pre ++ o :: post).takeWhile (fun a => a.1 != o.1) = pre := by
  induction pre with
  | nil => simp
  | cons x r ih =>
    have hx : (x.1 != o.1) = true := by simpa using h x (by simp)
    simp only [List.cons_append, List.takeWhile_cons, hx, if_true]
    rw [ih fun a ha => h a (by simp [ha])]

theorem pre_ne_of_nodup {α : Type} {pre post : List (Nat × α)} {o : Nat × α}
    (hn : ((pre ++ o :: post).map (·.1)).Nodup) : (∀ a ∈ pre, a.1 ≠ o.1) ∧ ∀ a ∈ post, a.1 ≠ o.1 := by
  simp only [List.map_append, List.map_cons] at hn
  have h := List.nodup_append.mp hn
  constructor
  · intro a ha e
    exact h.2.2 a.1 (List.mem_map_of_mem ha) o.1 (by simp) e
  · intro a ha e
    have h2 := (List.nodup_cons.mp h.2.1).1
    exact h2 (e ▸ List.mem_map_of_mem ha)

/-! ### timed logs -/

theorem split_time {α : Type} {l : List (Nat × α)} (ht : (l.map (·.1)).Pairwise (· < ·)) {n : Nat} {x : α}
    (hx : (n, x) ∈ l) :
    ∃ pre post, l = pre ++ (n, x) :: post ∧ (∀ y ∈ pre, y.1 < n) ∧ ∀ y ∈ post, n < y.1 := by
  obtain ⟨pre, post, rfl⟩ := List.append_of_mem hx
  refine ⟨pre, post, rfl, ?_, ?_⟩
  · rw [List.pairwise_map, List.pairwise_append] at ht
    intro y hy
    exact ht.2.2 y hy (n, x) (by simp)
  · rw [List.pairwise_map, List.pairwise_append] at ht
    intro y hy
    exact (List.pairwise_cons.mp ht.2.1).1 y hy

theorem mem_pre_of_lt {α : Type} {pre post : List (Nat × α)} {c : Nat × α} {n : Nat} {x : α}
    (hpost : ∀ y ∈ post, c.1 < y.1) (hx : (n, x) ∈ pre ++ c :: post) (hlt : n < c.1) : (n, x) ∈ pre := by
  rcases List.mem_append.mp hx with h | h
  · exact h
  · rcases List.mem_cons.mp h with h | h
    · subst h; simp at hlt
    · have := hpost _ h; simp only at this; omega

theorem mem_post_of_gt {α : Type} {pre post : List (Nat × α)} {c : Nat × α} {n : Nat} {x : α}
    (hpre : ∀ y ∈ pre, y.1 < c.1) (hx : (n, x) ∈ pre ++ c :: post) (hlt : c.1 < n) : (n, x) ∈ post := by
  rcases List.mem_append.mp hx with h | h
  · have := hpre _ h; simp only at this; omega
  · rcases List.mem_cons.mp h with h | h
    · subst h; simp at hlt
    · exact h

/-! ### the commit history and the serial states -/

theorem histOf_append (a b : List (Nat × Ev)) : histOf (a ++ b) = histOf a ++ histOf b := by
  simp [histOf, List.filterMap_append]

theorem mem_histOf {tlog : List (Nat × Ev)} {c : Nat × Nat × KV} :
    c ∈ histOf tlog ↔ (c.1, Ev.committed c.2.1 c.2.2) ∈ tlog := by
  simp only [histOf, List.mem_filterMap]
  constructor
  · rintro ⟨⟨n, e⟩, hx, h⟩
    cases e <;> simp only [Option.some.injEq, reduceCtorEq] at h
    subst h
    exact hx
  · intro h
    exact ⟨_, h, rfl⟩

theorem histOf_time {tlog : List (Nat × Ev)} {c : Nat × Nat × KV} (h : c ∈ histOf tlog) : ∃ x ∈ tlog, x.1 = c.1 :=
  ⟨_, mem_histOf.mp h, rfl⟩

theorem histOf_sorted {tlog : List (Nat × Ev)} (ht : (tlog.map (·.1)).Pairwise (· < ·)) :
    ((histOf tlog).map (·.1)).Pairwise (· < ·) := by
  rw [List.pairwise_map] at ht ⊢
  refine List.Pairwise.filterMap _ ?_ ht
  intro a a' hlt b hb b' hb'
  obtain ⟨n, e⟩ := a
  obtain ⟨n', e'⟩ := a'
  cases e <;> cases e' <;> simp only [Option.some.injEq, reduceCtorEq] at hb hb'
  subst hb hb'
  exact hlt

theorem replay_eq_stateEnd (init : Key → Option Nat) (tlog : List (Nat × Ev)) :
    replay init (tlog.map (·.2)) = stateEnd init (histOf tlog) := by
  induction tlog generalizing init with
  | nil => rfl
  | cons x r ih =>
    obtain ⟨n, e⟩ := x
    cases e with
    | began s => simpa [replay, histOf, stateEnd] using ih init
    | fetched s k v => simpa [replay, histOf, stateEnd] using ih init
    | committed s w => simpa [replay, histOf, stateEnd] using ih (applyF init w)

/-- the serial state just before position `n` is the replay of the log entries before `n` -/
theorem stateAt_split (init : Key → Option Nat) (pre rest : List (Nat × Ev)) (n : Nat)
    (hpre : ∀ y ∈ pre, y.1 < n) (hrest : ∀ y ∈ rest, n ≤ y.1) :
    stateAt init (histOf (pre ++ rest)) n = replay init (pre.map (·.2)) := by
  have h1 : (histOf pre).filter (fun c => c.1 < n) = histOf pre := by
    rw [List.filter_eq_self]
    intro c hc
    obtain ⟨x, hx, e⟩ := histOf_time hc
    have := hpre x hx
    simp only [decide_eq_true_eq]
    omega
  have h2 : (histOf rest).filter (fun c => c.1 < n) = [] := by
    rw [List.filter_eq_nil_iff]
    intro c hc
    obtain ⟨x, hx, e⟩ := histOf_time hc
    have := hrest x hx
    simp only [decide_eq_true_eq]
    omega
  rw [stateAt, histOf_append, List.filter_append, h1, h2, List.append_nil, replay_eq_stateEnd]

/-- `setKey` of the Spec and `dictSet` of the model are the same function -/
theorem setKey_eq_dictSet (k : Key) (v : Nat) (w : KV) : setKey k v w = dictSet k v w := by
  induction w with
  | nil => rfl
  | cons x r ih =>
    obtain ⟨k', v'⟩ := x
    simp only [setKey, dictSet, ih]

theorem lvlOf_ser {l : Level} (h : lvlOf l = .ser) : l = .ser := by cases l <;> simp_all [lvlOf]
theorem lvlOf_si {l : Level} (h : lvlOf l = .si) : l = .si := by cases l <;> simp_all [lvlOf]

end HappyModel.C14.SM
