import HappyProofs.C14.LsmLvInv
/-! State invariant of the LSM tree and its preservation by every segment. -/
namespace HappyModel.C14

structure SInv (cfg : Cfg) (s : St) : Prop where
  lv : LvInv cfg s.levels
  memSorted : Sorted s.mem
  immSorted : ∀ t ∈ s.imms, Sorted t.data
  immIds : (s.imms.map (·.id)).Nodup
  lvImm : ∀ i, ∀ t ∈ s.levels.getD i [], ∀ u ∈ s.imms, t.id ≠ u.id
  lvFresh : ∀ i, ∀ t ∈ s.levels.getD i [], t.id < s.nextId ∧ t.id ≠ s.memId
  immFresh : ∀ u ∈ s.imms, u.id < s.nextId ∧ u.id ≠ s.memId
  memFresh : s.memId < s.nextId

/-- what a suspended frame needs from the state -/
def POk (cfg : Cfg) (s : St) : Pc → Prop
  | .pFlush t _ => t ∈ s.imms
  | .pCompact j => Planned cfg s.levels j ∧ s.compacting = true
  | _ => True

/-- two different suspended frames -/
def Compat : Pc → Pc → Prop
  | .pFlush t _, .pFlush t' _ => t.id ≠ t'.id
  | .pCompact _, .pCompact _ => False
  | _, _ => True

def Pc.isCompact : Pc → Bool
  | .pCompact _ => true
  | _ => false

def flushId : Pc → Option Nat
  | .pFlush t _ => some t.id
  | _ => none

/-! ### the parts of the state the invariants read -/

structure SameCore (s s' : St) : Prop where
  levels : s'.levels = s.levels
  imms : s'.imms = s.imms
  memId : s'.memId = s.memId
  nextId : s'.nextId = s.nextId
  compacting : s'.compacting = s.compacting

theorem SInv.of_eq {cfg : Cfg} {s s' : St} (h : SInv cfg s) (e1 : s'.levels = s.levels) (e2 : s'.imms = s.imms)
    (e3 : s'.memId = s.memId) (e4 : s'.nextId = s.nextId) (hm : Sorted s'.mem) : SInv cfg s' := by
  obtain ⟨h1, h2, h3, h4, h5, h6, h7, h8⟩ := h
  refine ⟨?_, hm, ?_, ?_, ?_, ?_, ?_, ?_⟩
  · rw [e1]; exact h1
  · rw [e2]; exact h3
  · rw [e2]; exact h4
  · rw [e1, e2]; exact h5
  · rw [e1, e4, e3]; exact h6
  · rw [e2, e4, e3]; exact h7
  · rw [e4, e3]; exact h8

theorem SInv.of_core {cfg : Cfg} {s s' : St} (h : SInv cfg s) (c : SameCore s s') (hm : Sorted s'.mem) : SInv cfg s' :=
  h.of_eq c.levels c.imms c.memId c.nextId hm

theorem POk.of_core {cfg : Cfg} {s s' : St} (c : SameCore s s') {q : Pc} (h : POk cfg s q) : POk cfg s' q := by
  cases q <;> simp only [POk] at * <;> try trivial
  · rw [c.imms]; exact h
  · rw [c.levels, c.compacting]; exact h

theorem core_memInsert (s : St) (k : Key) (c : Cell) : SameCore s (memInsert s k c).1 := ⟨rfl, rfl, rfl, rfl, rfl⟩
theorem core_unpend (s : St) (q : Nat) : SameCore s (unpend s q) := ⟨rfl, rfl, rfl, rfl, rfl⟩

theorem SameCore.trans {a b c : St} (h1 : SameCore a b) (h2 : SameCore b c) : SameCore a c :=
  ⟨h2.levels.trans h1.levels, h2.imms.trans h1.imms, h2.memId.trans h1.memId, h2.nextId.trans h1.nextId,
   h2.compacting.trans h1.compacting⟩

theorem core_shouldSync (p : Policy) (s : St) : SameCore s (shouldSync p s).2 := by
  cases p <;> exact ⟨rfl, rfl, rfl, rfl, rfl⟩

theorem mem_shouldSync (p : Policy) (s : St) : (shouldSync p s).2.mem = s.mem := by cases p <;> rfl

/-- write-path segments that end in a memtable insert or only touch the log -/
theorem putStart_core (cfg : Cfg) (s : St) (k : Key) (c : Cell) :
    SameCore s (putStart cfg s k c).1 ∧ (Sorted s.mem → Sorted (putStart cfg s k c).1.mem) ∧
    (putStart cfg s k c).2.isCompact = false ∧ flushId (putStart cfg s k c).2 = none := by
  unfold putStart
  split
  · exact ⟨core_memInsert .., fun h => sorted_ins _ _ _ h, rfl, rfl⟩
  · exact ⟨⟨rfl, rfl, rfl, rfl, rfl⟩, fun h => h, rfl, rfl⟩

theorem walWritten_core (cfg : Cfg) (s : St) (k : Key) (c : Cell) (q : Nat) :
    SameCore s (walWritten cfg s k c q).1 ∧ (Sorted s.mem → Sorted (walWritten cfg s k c q).1.mem) ∧
    (walWritten cfg s k c q).2.isCompact = false ∧ flushId (walWritten cfg s k c q).2 = none := by
  unfold walWritten
  split
  · exact ⟨core_memInsert .., fun h => sorted_ins _ _ _ h, rfl, rfl⟩
  · rename_i p _
    simp only
    split
    · exact ⟨core_shouldSync p s, fun h => by rw [mem_shouldSync]; exact h, rfl, rfl⟩
    · refine ⟨(core_shouldSync p s).trans ((core_unpend _ q).trans (core_memInsert ..)), fun h => ?_, rfl, rfl⟩
      apply sorted_ins
      show Sorted (shouldSync p s).2.mem
      rw [mem_shouldSync]; exact h

theorem walSynced_core (s : St) (k : Key) (c : Cell) (q : Nat) :
    SameCore s (walSynced s k c q).1 ∧ (Sorted s.mem → Sorted (walSynced s k c q).1.mem) ∧
    (walSynced s k c q).2.isCompact = false ∧ flushId (walSynced s k c q).2 = none :=
  ⟨⟨rfl, rfl, rfl, rfl, rfl⟩, fun h => sorted_ins _ _ _ h, rfl, rfl⟩

/-! ### flush start -/

theorem sinv_flushStart {cfg : Cfg} {s : St} (h : SInv cfg s) : SInv cfg (flushStart cfg s).1 := by
  unfold flushStart
  split
  · exact h
  · obtain ⟨h1, h2, h3, h4, h5, h6, h7, h8⟩ := h
    refine ⟨h1, sorted_nil, ?_, ?_, ?_, ?_, ?_, ?_⟩
    · intro t ht
      rcases List.mem_append.mp ht with ht | ht
      · exact h3 t ht
      · rw [List.mem_singleton] at ht; subst ht; exact h2
    · simp only [List.map_append, List.map_cons, List.map_nil]
      apply List.nodup_append.mpr
      refine ⟨h4, by simp, ?_⟩
      intro a ha b hb
      rw [List.mem_singleton] at hb; subst hb
      obtain ⟨u, hu, rfl⟩ := List.mem_map.mp ha
      exact (h7 u hu).2
    · intro i t ht u hu
      rcases List.mem_append.mp hu with hu | hu
      · exact h5 i t ht u hu
      · rw [List.mem_singleton] at hu; subst hu; exact (h6 i t ht).2
    · intro i t ht
      have := (h6 i t ht).1
      exact ⟨Nat.lt_succ_of_lt this, Nat.ne_of_lt this⟩
    · intro u hu
      rcases List.mem_append.mp hu with hu | hu
      · have := (h7 u hu).1
        exact ⟨Nat.lt_succ_of_lt this, Nat.ne_of_lt this⟩
      · rw [List.mem_singleton] at hu; subst hu
        exact ⟨Nat.lt_succ_of_lt h8, Nat.ne_of_lt h8⟩
    · exact Nat.lt_succ_self _

theorem flushStart_other {cfg : Cfg} {s : St} {q : Pc} (h : POk cfg s q) : POk cfg (flushStart cfg s).1 q := by
  unfold flushStart
  split
  · exact h
  · cases q <;> simp only [POk] at * <;> try trivial
    · exact List.mem_append_left _ h

theorem flushStart_pc (cfg : Cfg) (s : St) :
    POk cfg (flushStart cfg s).1 (flushStart cfg s).2 ∧ (flushStart cfg s).2.isCompact = false ∧
    (flushStart cfg s).1.compacting = s.compacting ∧
    (∀ x, flushId (flushStart cfg s).2 = some x → x = s.memId) := by
  unfold flushStart
  split
  · exact ⟨trivial, rfl, rfl, fun x hx => by cases hx⟩
  · refine ⟨?_, rfl, rfl, fun x hx => ?_⟩
    · simp [POk]
    · simp only [flushId] at hx; injection hx with hx; exact hx.symm

/-! ### compaction start -/

theorem planned_fresh {cfg : Cfg} {lv : List (List Tab)} {src : Nat} {j : Job}
    (h : planCompaction cfg lv src = some j) : Planned cfg lv j := by
  have hs : j.src = src := by
    have := (plan_unpack h).2
    rw [this]
  refine ⟨lv, [], ?_, rfl, rfl, by simp, fun _ => rfl⟩
  rw [hs]; exact h

theorem compactStart_spec (cfg : Cfg) (s : St) :
    SameCore { s with compacting := (compactStart cfg s).1.compacting } (compactStart cfg s).1 ∧
    (((compactStart cfg s).2.isCompact = false ∧ (compactStart cfg s).1.compacting = s.compacting) ∨
     (s.compacting = false ∧ (compactStart cfg s).1.compacting = true ∧
      ∃ j, (compactStart cfg s).2 = .pCompact j ∧ Planned cfg s.levels j)) ∧
    flushId (compactStart cfg s).2 = none := by
  unfold compactStart
  split
  · exact ⟨⟨rfl, rfl, rfl, rfl, rfl⟩, Or.inl ⟨rfl, rfl⟩, rfl⟩
  · rename_i hc
    split
    · exact ⟨⟨rfl, rfl, rfl, rfl, rfl⟩, Or.inl ⟨rfl, rfl⟩, rfl⟩
    · rename_i j hj
      split
      · exact ⟨⟨rfl, rfl, rfl, rfl, rfl⟩, Or.inl ⟨rfl, rfl⟩, rfl⟩
      · refine ⟨⟨rfl, rfl, rfl, rfl, rfl⟩, Or.inr ⟨by simpa using hc, rfl, j, rfl, planned_fresh hj⟩, rfl⟩

end HappyModel.C14
