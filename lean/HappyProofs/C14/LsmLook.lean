import HappyProofs.C14.LsmData
/-! Reads through table lists and level lists; key-disjoint levels; `modAt`. -/
namespace HappyModel.C14

/-- no key is held by two different SSTables of the level -/
def LevelDisjoint (l : List Tab) : Prop :=
  ∀ t ∈ l, ∀ t' ∈ l, ∀ k, t.data.lookup k ≠ none → t'.data.lookup k ≠ none → t = t'

theorem LevelDisjoint.sub {l l' : List Tab} (h : LevelDisjoint l) (hs : ∀ t ∈ l', t ∈ l) : LevelDisjoint l' :=
  fun t ht t' ht' k a b => h t (hs t ht) t' (hs t' ht') k a b

theorem levelDisjoint_nil : LevelDisjoint [] := fun t ht => by cases ht

theorem or_join_congr {α} (x y y' : Option (Option α)) (h : y.join = y'.join) :
    (x.or y).join = (x.or y').join := by
  cases x with
  | none => simpa using h
  | some c => rfl

theorem lookTabs_or_append (k : Key) (a b : List Tab) :
    lookTabs k (a ++ b) = (lookTabs k a).or (lookTabs k b) := by
  rw [lookTabs_append]; cases lookTabs k a <;> rfl

theorem lookTabs_cons (k : Key) (t : Tab) (r : List Tab) :
    lookTabs k (t :: r) = (t.data.lookup k).or (lookTabs k r) := by
  simp only [lookTabs]; cases t.data.lookup k <;> rfl

theorem lookTabs_none_iff {k : Key} {l : List Tab} :
    lookTabs k l = none ↔ ∀ t ∈ l, t.data.lookup k = none := by
  induction l with
  | nil => simp [lookTabs]
  | cons t r ih =>
    rw [lookTabs_cons]
    cases h : t.data.lookup k with
    | none =>
      rw [Option.none_or, ih]
      constructor
      · intro hr t' ht'
        rcases List.mem_cons.mp ht' with rfl | ht'
        · exact h
        · exact hr t' ht'
      · intro hr t' ht'
        exact hr t' (List.mem_cons_of_mem _ ht')
    | some c =>
      constructor
      · intro hh; simp at hh
      · intro hr
        have := hr t (List.mem_cons_self ..)
        rw [h] at this; cases this

theorem lookTabs_some_mem {k : Key} {l : List Tab} {c : Cell} (h : lookTabs k l = some c) :
    ∃ t ∈ l, t.data.lookup k = some c := by
  induction l with
  | nil => simp [lookTabs] at h
  | cons t r ih =>
    rw [lookTabs_cons] at h
    cases ht : t.data.lookup k with
    | none =>
      rw [ht] at h
      obtain ⟨t', h1, h2⟩ := ih (by simpa using h)
      exact ⟨t', List.mem_cons_of_mem _ h1, h2⟩
    | some c' =>
      rw [ht] at h
      exact ⟨t, List.mem_cons_self .., by simpa [ht] using h⟩

/-- in a key-disjoint list the order of the tables does not matter -/
theorem lookTabs_of_mem {k : Key} {l : List Tab} (hd : LevelDisjoint l) {t : Tab} (ht : t ∈ l) {c : Cell}
    (hc : t.data.lookup k = some c) : lookTabs k l = some c := by
  cases h : lookTabs k l with
  | none => rw [lookTabs_none_iff.mp h t ht] at hc; cases hc
  | some c' =>
    obtain ⟨t', h1, h2⟩ := lookTabs_some_mem h
    have : t = t' := hd t ht t' h1 k (by simp [hc]) (by simp [h2])
    subst this
    rw [hc] at h2; exact h2.symm

theorem lookTabs_eq_of_same_mem {k : Key} {l l' : List Tab} (hd : LevelDisjoint l)
    (h1 : ∀ t ∈ l', t ∈ l) (h2 : ∀ t ∈ l, t.data.lookup k ≠ none → t ∈ l') : lookTabs k l' = lookTabs k l := by
  cases h : lookTabs k l with
  | none => exact lookTabs_none_iff.mpr fun t ht => lookTabs_none_iff.mp h t (h1 t ht)
  | some c =>
    obtain ⟨t, ht, hc⟩ := lookTabs_some_mem h
    exact lookTabs_of_mem (hd.sub h1) (h2 t ht (by simp [hc])) hc

theorem lookTabs_reverse {k : Key} {l : List Tab} (hd : LevelDisjoint l) :
    lookTabs k l.reverse = lookTabs k l :=
  lookTabs_eq_of_same_mem hd (fun t ht => List.mem_reverse.mp ht) (fun t ht _ => List.mem_reverse.mpr ht)

theorem lookLevels_cons (k : Key) (l : List Tab) (ls : List (List Tab)) :
    lookLevels k (l :: ls) = (lookTabs k l.reverse).or (lookLevels k ls) := by
  simp only [lookLevels]; cases lookTabs k l.reverse <;> rfl

theorem lookLevels_append (k : Key) (a b : List (List Tab)) :
    lookLevels k (a ++ b) = (lookLevels k a).or (lookLevels k b) := by
  induction a with
  | nil => simp [lookLevels]
  | cons l r ih => simp only [List.cons_append, lookLevels_cons, ih, Option.or_assoc]

theorem read_eq (s : St) (k : Key) :
    s.read k = (s.mem.lookup k).or ((lookTabs k s.imms.reverse).or (lookLevels k s.levels)) := by
  unfold St.read
  cases s.mem.lookup k with
  | some c => rfl
  | none => cases lookTabs k s.imms.reverse <;> rfl

/-! ### `modAt`, `getD` -/

theorem modAt_length (ls : List (List Tab)) (i : Nat) (f : List Tab → List Tab) :
    (modAt ls i f).length = ls.length := by
  induction ls generalizing i with
  | nil => rfl
  | cons l r ih => cases i <;> simp [modAt, ih]

theorem modAt_append_len (A : List (List Tab)) (x : List Tab) (r : List (List Tab)) (f : List Tab → List Tab) :
    modAt (A ++ x :: r) A.length f = A ++ f x :: r := by
  induction A with
  | nil => rfl
  | cons a A ih => simp [modAt, ih]

theorem modAt_append_len_succ (A : List (List Tab)) (x y : List Tab) (r : List (List Tab)) (f : List Tab → List Tab) :
    modAt (A ++ x :: y :: r) (A.length + 1) f = A ++ x :: f y :: r := by
  induction A with
  | nil => rfl
  | cons a A ih => simp [modAt, ih]

theorem decomp (ls : List (List Tab)) (i : Nat) (h : i < ls.length) :
    ls = ls.take i ++ ls.getD i [] :: ls.drop (i + 1) := by
  induction ls generalizing i with
  | nil => simp at h
  | cons l r ih =>
    cases i with
    | zero => simp
    | succ i =>
      have := ih i (by simpa using h)
      simp only [List.take_succ_cons, List.getD_cons_succ, List.drop_succ_cons, List.cons_append]
      rw [← this]

theorem getD_modAt (ls : List (List Tab)) (i j : Nat) (f : List Tab → List Tab) (h : i < ls.length) :
    (modAt ls i f).getD j [] = if j = i then f (ls.getD i []) else ls.getD j [] := by
  induction ls generalizing i j with
  | nil => simp at h
  | cons l r ih =>
    cases i with
    | zero => cases j <;> simp [modAt]
    | succ i =>
      cases j with
      | zero => simp [modAt]
      | succ j =>
        simp only [modAt, List.getD_cons_succ]
        rw [ih i j (by simpa using h)]
        simp

theorem mem_modAt {ls : List (List Tab)} {i : Nat} {f : List Tab → List Tab} {l : List Tab}
    (h : l ∈ modAt ls i f) : l ∈ ls ∨ (i < ls.length ∧ l = f (ls.getD i [])) := by
  induction ls generalizing i with
  | nil => simp [modAt] at h
  | cons a r ih =>
    cases i with
    | zero =>
      simp only [modAt, List.mem_cons] at h
      rcases h with rfl | h
      · exact Or.inr ⟨by simp, by simp⟩
      · exact Or.inl (List.mem_cons_of_mem _ h)
    | succ i =>
      simp only [modAt, List.mem_cons] at h
      rcases h with rfl | h
      · exact Or.inl (List.mem_cons_self ..)
      · rcases ih h with h | ⟨h1, h2⟩
        · exact Or.inl (List.mem_cons_of_mem _ h)
        · exact Or.inr ⟨by simpa using h1, by simpa using h2⟩

theorem getD_mem_or_nil (ls : List (List Tab)) (i : Nat) : ls.getD i [] ∈ ls ∨ ls.getD i [] = [] := by
  induction ls generalizing i with
  | nil => right; rfl
  | cons l r ih =>
    cases i with
    | zero => left; simp
    | succ i =>
      rcases ih i with h | h
      · left; simpa using Or.inr h
      · right; simpa using h

/-! ### identities -/

theorem eq_of_id_eq {l : List Tab} (hn : (l.map (·.id)).Nodup) {a b : Tab} (ha : a ∈ l) (hb : b ∈ l)
    (h : a.id = b.id) : a = b := by
  induction l with
  | nil => cases ha
  | cons x r ih =>
    simp only [List.map_cons, List.nodup_cons, List.mem_map, not_exists, not_and] at hn
    rcases List.mem_cons.mp ha with rfl | ha'
    · rcases List.mem_cons.mp hb with rfl | hb'
      · rfl
      · exact absurd h.symm (hn.1 b hb')
    · rcases List.mem_cons.mp hb with rfl | hb'
      · exact absurd h (hn.1 a ha')
      · exact ih hn.2 ha' hb'

theorem removeIds_filter {l : List Tab} (hn : (l.map (·.id)).Nodup) (p : Tab → Bool) :
    removeIds ((l.filter p).map (·.id)) l = l.filter (fun t => !p t) := by
  unfold removeIds
  apply List.filter_congr
  intro t ht
  congr 1
  cases hp : p t with
  | true =>
    simp only [List.contains_eq_mem, List.mem_map, List.mem_filter, decide_eq_true_eq]
    exact ⟨t, ⟨ht, hp⟩, rfl⟩
  | false =>
    simp only [List.contains_eq_mem, List.mem_map, List.mem_filter, decide_eq_false_iff_not, not_exists, not_and]
    intro x hx hid
    have := eq_of_id_eq hn hx.1 ht hid
    subst this
    rw [hp] at hx; cases hx.2

theorem removeIds_self_append {S extra : List Tab} (hn : ((S ++ extra).map (·.id)).Nodup) :
    removeIds (S.map (·.id)) (S ++ extra) = extra := by
  unfold removeIds
  rw [List.filter_append]
  have h1 : S.filter (fun t => !(S.map (·.id)).contains t.id) = [] := by
    apply List.filter_eq_nil_iff.mpr
    intro t ht
    simp only [List.contains_eq_mem, List.mem_map, Bool.not_eq_true', decide_eq_false_iff_not, not_exists, not_and, Classical.not_not]
    intro h; exact h t ht rfl
  have h2 : extra.filter (fun t => !(S.map (·.id)).contains t.id) = extra := by
    apply List.filter_eq_self.mpr
    intro t ht
    simp only [List.contains_eq_mem, List.mem_map, Bool.not_eq_true', decide_eq_false_iff_not, not_exists, not_and]
    intro x hx hid
    have := eq_of_id_eq hn (List.mem_append_left _ hx) (List.mem_append_right _ ht) hid
    subst this
    rw [List.map_append] at hn
    exact (List.nodup_append.mp hn).2.2 _ (List.mem_map_of_mem hx) _ (List.mem_map_of_mem ht) rfl
  rw [h1, h2]; rfl

end HappyModel.C14
