import HappyModel.C14.SpecTxn
import HappyProofs.C14.TxnMain
/-!
# Transactions at run level: observations, hypotheses and the two interfaces

The driver executes `runFrames stepT TPc.isDone` under a schedule of generator segments and the judge
(`TxSpec.judgeTxn`) reads the transcript.  This file fixes, for the run-level theorem
`txn_trace_satisfies_spec` (`TxnTrace.lean`):

* `tobsOf`: the observation of a run in the vocabulary of the Spec (mirror of `DriverStore.judgeTxnMode`
  without the text layer);
* the hypotheses on the program (`WFProg`), on the schedule (`SlotSeq`: a client runs the operations of
  its transaction one after the other) and on the end of the run (`Quiesced`);
* `MachFacts`: what the machine guarantees about the final frames and a timed ghost log (proved for every
  run in `TxnMach*.lean`);
* `TxnFacts`: what the judge needs, about observations only (derived from `MachFacts` in `TxnLink*.lean`,
  consumed by `judgeTxn_of_facts` in `TxnJudge*.lean`).
-/
namespace HappyModel.C14.SM
open HappyModel.C14 HappyModel.C14.BT HappyModel.C14.TxSpec

/-! ### observations -/

def lvlOf : Level → ILevel
  | .rc => .rc
  | .si => .si
  | .ser => .ser

def TOp.slot : TOp → Nat
  | .begin s _ => s
  | .read s _ => s
  | .write s _ _ => s
  | .commit s => s
  | .abort s => s

def TOp.isBegin : TOp → Bool
  | .begin _ _ => true
  | _ => false

/-- `commit` or `abort` -/
def TOp.isEnd : TOp → Bool
  | .commit _ => true
  | .abort _ => true
  | _ => false

def resVal : SRes → Option Nat
  | .val c => c
  | _ => none

def resFlag : SRes → Bool
  | .flag b => b
  | _ => false

/-- the initial frames of a program -/
def framesOfT (ops : List (Nat × TOp)) : List (Frame TPc) := ops.map fun o => { id := o.1, pc := .start o.2 }

/-- completed operations in declaration order: id, operation, first segment, last segment, result -/
def completedT (ops : List (Nat × TOp)) (fs : List (Frame TPc)) : List (Nat × TOp × Nat × Nat × SRes) :=
  ops.filterMap fun o =>
    match fs.find? (fun f => f.id == o.1) with
    | some f =>
      match f.b, f.e, f.pc with
      | some b, some e, .done r => some (o.1, o.2, b, e, r)
      | _, _, _ => none
    | none => none

def mineOf (completed : List (Nat × TOp × Nat × Nat × SRes)) (slot : Nat) : List (Nat × TOp × Nat × Nat × SRes) :=
  completed.filter fun c => match c.2.1 with
    | .read s _ => s == slot
    | .write s _ _ => s == slot
    | .commit s => s == slot
    | _ => false

def stepsOf (mine : List (Nat × TOp × Nat × Nat × SRes)) : List TStep :=
  mine.filterMap fun c => match c.2.1 with
    | .read _ k => some (.read k (resVal c.2.2.2.2) c.2.2.1 c.2.2.2.1)
    | .write _ k v => some (.write k v)
    | _ => none

def commitOf (mine : List (Nat × TOp × Nat × Nat × SRes)) : Option (Nat × Bool) :=
  mine.findSome? fun c => match c.2.1 with
    | .commit _ => some (c.2.2.1, resFlag c.2.2.2.2)
    | _ => none

/-- what `judgeTxnMode` builds from the transcript of the run -/
def tobsOf (ops : List (Nat × TOp)) (fs : List (Frame TPc)) : List TObs :=
  ((completedT ops fs).filterMap fun c => match c.2.1 with
    | .begin s l => some (s, lvlOf l)
    | _ => none).map fun sl =>
      { slot := sl.1, level := sl.2,
        steps := stepsOf (mineOf (completedT ops fs) sl.1),
        commit := commitOf (mineOf (completedT ops fs) sl.1) }

/-! ### hypotheses -/

/-- program well-formedness: operation ids are distinct; of two operations of the same slot the later one is
    not a `begin` and the earlier one is not a `commit`/`abort`; every other operation has the `begin` of its
    slot in the program (hence, by the second clause, before it). -/
structure WFProg (ops : List (Nat × TOp)) : Prop where
  ids : (ops.map (·.1)).Nodup
  order : ops.Pairwise fun a b => a.2.slot = b.2.slot → b.2.isBegin = false ∧ a.2.isEnd = false
  begun : ∀ o ∈ ops, o.2.isBegin = false → ∃ b ∈ ops, b.2.isBegin = true ∧ b.2.slot = o.2.slot

instance (ops : List (Nat × TOp)) : Decidable (WFProg ops) :=
  decidable_of_iff
    ((ops.map (·.1)).Nodup ∧
     (ops.Pairwise fun a b => a.2.slot = b.2.slot → b.2.isBegin = false ∧ a.2.isEnd = false) ∧
     ∀ o ∈ ops, o.2.isBegin = false → ∃ b ∈ ops, b.2.isBegin = true ∧ b.2.slot = o.2.slot)
    ⟨fun h => ⟨h.1, h.2.1, h.2.2⟩, fun h => ⟨h.ids, h.order, h.begun⟩⟩

/-- the frame of operation `id` is done -/
def doneIn (fs : List (Frame TPc)) (id : Nat) : Bool :=
  match fs.find? (fun f => f.id == id) with
  | some f => f.pc.isDone
  | none => false

/-- the schedule runs the operations of one slot one after the other (one client per transaction): whenever
    a segment of operation `o` is executed, every operation of the same slot declared before `o` is done -/
def SlotSeq (ops : List (Nat × TOp)) (tm0 : TM) (sched : List Nat) : Prop :=
  ∀ n pre o post, sched[n]? = some o.1 → ops = pre ++ o :: post → ∀ a ∈ pre, a.2.slot = o.2.slot →
    doneIn (runFrames stepT TPc.isDone tm0 (framesOfT ops) 0 (sched.take n)).2 a.1 = true

/-- every operation that started has completed -/
def Quiesced (fs : List (Frame TPc)) : Prop := ∀ f ∈ fs, f.b ≠ none → f.pc.isDone = true

/-! ### interface 1: the machine -/

/-- the write set the transaction of `slot` has built by the writes declared before operation `id` -/
def wsetBefore (ops : List (Nat × TOp)) (id : Nat) (slot : Nat) : KV :=
  (ops.takeWhile fun o => o.1 != id).foldl (fun w o => match o.2 with
    | .write s k v => if s == slot then dictSet k v w else w
    | _ => w) []

/-- final frames `fs`, final manager `tm` and a timed ghost log (segment index, event; oldest first) of a run
    of program `ops` from manager `tm0` -/
structure MachFacts (ok : Store → Prop) (ops : List (Nat × TOp)) (tm0 tm : TM) (fs : List (Frame TPc))
    (tlog : List (Nat × Ev)) : Prop where
  inv : Inv ok tm0.store.getSync tm (tlog.map (·.2))
  inv2 : Inv2 tm0.store.getSync tm (tlog.map (·.2))
  times : (tlog.map (·.1)).Pairwise (· < ·)
  ids : fs.map (·.id) = ops.map (·.1)
  /-- every started operation has completed, in a later or the same segment -/
  done_e : ∀ f ∈ fs, ∀ b, f.b = some b → ∃ e r, f.e = some e ∧ f.pc = .done r ∧ b ≤ e
  /-- operations of one slot ran one after the other -/
  seq : ∀ pre o post, ops = pre ++ o :: post → ∀ f ∈ fs, f.id = o.1 → ∀ b, f.b = some b →
    ∀ a ∈ pre, a.2.slot = o.2.slot → ∃ g ∈ fs, g.id = a.1 ∧ ∃ e, g.e = some e ∧ e < b
  begin_ev : ∀ f ∈ fs, ∀ s l b, ops.lookup f.id = some (.begin s l) → f.b = some b →
    (b, Ev.began s) ∈ tlog ∧ ∃ tx, tm.tx? s = some tx ∧ tx.level = l
  read_res : ∀ f ∈ fs, ∀ s k b e r, ops.lookup f.id = some (.read s k) → f.b = some b → f.e = some e →
    f.pc = .done r → ∃ c, r = .val c ∧
      match (wsetBefore ops f.id s).lookup k with
      | some v => c = some v
      | none => ∃ n, b ≤ n ∧ n ≤ e ∧ (n, Ev.fetched s k c) ∈ tlog
  commit_res : ∀ f ∈ fs, ∀ s b r, ops.lookup f.id = some (.commit s) → f.b = some b → f.pc = .done r →
    ∃ fl, r = .flag fl ∧ (fl = true → (b, Ev.committed s (wsetBefore ops f.id s)) ∈ tlog)
  commit_ev : ∀ n s w, (n, Ev.committed s w) ∈ tlog → ∃ f ∈ fs, ops.lookup f.id = some (.commit s) ∧
    f.b = some n ∧ f.pc = .done (.flag true) ∧ w = wsetBefore ops f.id s

/-! ### interface 2: the judge -/

/-- commit history: position of the commit call, slot, write set; oldest first -/
abbrev Hist := List (Nat × Nat × KV)

def histOf (tlog : List (Nat × Ev)) : Hist :=
  tlog.filterMap fun x => match x.2 with
    | .committed s w => some (x.1, s, w)
    | _ => none

/-- the serial state after all commits -/
def stateEnd (init : Key → Option Nat) (h : Hist) : Key → Option Nat := h.foldl (fun f c => applyF f c.2.2) init

/-- the serial state just before position `n` -/
def stateAt (init : Key → Option Nat) (h : Hist) (n : Nat) : Key → Option Nat :=
  stateEnd init (h.filter fun c => c.1 < n)

structure TxnFacts (init finalF : Key → Option Nat) (ts : List TObs) (h : Hist) : Prop where
  slots : (ts.map (·.slot)).Nodup
  sorted : (h.map (·.1)).Pairwise (· < ·)
  own : ∀ t ∈ ts, t.ownBad = false
  comm_hist : ∀ t ∈ ts, t.committed = true → (t.commitPos, t.slot, t.wset) ∈ h
  hist_comm : ∀ c ∈ h, ∃ t ∈ ts, t.committed = true ∧ t.commitPos = c.1 ∧ t.slot = c.2.1 ∧ t.wset = c.2.2
  final : ∀ k, finalF k = stateEnd init h k
  /-- a committed SERIALIZABLE transaction read the serial state just before its commit -/
  ser : ∀ t ∈ ts, t.committed = true → t.level = .ser → ∀ r ∈ t.ext, r.2.1 = stateAt init h t.commitPos r.1
  /-- a SNAPSHOT_ISOLATION transaction read the serial state at one position `nb` (its `begin`), which is not
      after the end of any of its reads nor after its own commit -/
  si : ∀ t ∈ ts, t.level = .si → ∃ nb, (∀ r ∈ t.ext, nb ≤ r.2.2) ∧ (∀ c ∈ h, c.2.1 = t.slot → nb ≤ c.1) ∧
    ∀ r ∈ t.ext, r.2.1 = stateAt init h nb r.1

end HappyModel.C14.SM
