import HappyProofs.C14.TxnSnap
import HappyProofs.C14.BTreeLeaf
/-!
# Transaction manager: commit-order serializability and consistent snapshot reads

(`components/storage/transaction_manager.py` with fix C14-txn-snapshot-reads; model
`HappyModel/C14/Txn.lean`; actions, ghost events and `replay` are defined in `TxnBase.lean`.)

* `serializable_commit_order`: for a store obeying the map laws and every sequence of atomic actions,
  the final store is the serial replay of the committed write sets in commit order, and every value
  a committed SERIALIZABLE transaction fetched from the store equals the serial-replay state just
  before its own commit: the committed SERIALIZABLE transactions are view-equivalent to the serial
  execution in commit order.
* `snapshot_reads_consistent`: every value a SNAPSHOT_ISOLATION / SERIALIZABLE transaction fetched
  equals the serial-replay state at the moment it began.
* `kv_laws`, `*_kv`: the instantiation for the `KVStore` dict.
-/
namespace HappyModel.C14.SM
open HappyModel.C14 HappyModel.C14.BT

theorem serializable_commit_order
    (ok : Store → Prop) (ok_put : ∀ s k v, ok s → ok (s.putSync k v))
    (get_put : ∀ s k v k', ok s → (s.putSync k v).getSync k' = if k' = k then some v else s.getSync k')
    (s0 : Store) (h0 : ok s0) (acts : List Act) :
    let r := runA { store := s0 } acts
    (∀ k, r.1.store.getSync k = replay s0.getSync r.2 k) ∧
    ∀ pre post slot wset tx, r.2 = pre ++ Ev.committed slot wset :: post →
      r.1.tx? slot = some tx → tx.level = .ser →
      ∀ k val, Ev.fetched slot k val ∈ pre → val = replay s0.getSync pre k := by
  intro r
  have hI : Inv ok s0.getSync r.1 r.2 := by
    simpa using Inv.run ok_put get_put acts (Inv.start s0 h0)
  exact ⟨hI.store_eq, fun pre post slot wset tx hd ht hl k val hf =>
    hI.comm pre post slot wset hd tx ht hl k val hf⟩

theorem snapshot_reads_consistent
    (ok : Store → Prop) (ok_put : ∀ s k v, ok s → ok (s.putSync k v))
    (get_put : ∀ s k v k', ok s → (s.putSync k v).getSync k' = if k' = k then some v else s.getSync k')
    (s0 : Store) (h0 : ok s0) (acts : List Act) :
    let r := runA { store := s0 } acts
    ∀ pre mid post slot k val tx, r.2 = pre ++ Ev.began slot :: mid ++ Ev.fetched slot k val :: post →
      r.1.tx? slot = some tx → tx.level ≠ .rc → val = replay s0.getSync pre k := by
  intro r pre mid post slot k val tx hd ht hl
  have hI : Inv2 s0.getSync r.1 r.2 := by
    simpa using Inv2.run ok_put get_put acts (Inv.start s0 h0) (Inv2.start s0)
  have hb := hI.began pre (mid ++ Ev.fetched slot k val :: post) slot (by simpa using hd) tx ht
  have hr := hI.reads (pre ++ Ev.began slot :: mid) post slot k val hd tx ht hl
  rw [hr, hb]
  exact congrFun (replayN_prefix _ _ _) k

/-- The same fact about states instead of events: in every reachable state, whatever a transaction of
    level SNAPSHOT_ISOLATION / SERIALIZABLE would fetch for any key is the replay state at its `begin`. -/
theorem fetchVal_eq_snapshot
    (ok : Store → Prop) (ok_put : ∀ s k v, ok s → ok (s.putSync k v))
    (get_put : ∀ s k v k', ok s → (s.putSync k v).getSync k' = if k' = k then some v else s.getSync k')
    (s0 : Store) (h0 : ok s0) (acts : List Act) :
    let r := runA { store := s0 } acts
    ∀ pre post slot tx, r.2 = pre ++ Ev.began slot :: post → r.1.tx? slot = some tx → tx.level ≠ .rc →
      ∀ k, fetchVal r.1 slot k = replay s0.getSync pre k := by
  intro r pre post slot tx hd ht hl k
  have hI1 : Inv ok s0.getSync r.1 r.2 := by
    simpa using Inv.run ok_put get_put acts (Inv.start s0 h0)
  have hI : Inv2 s0.getSync r.1 r.2 := by
    simpa using Inv2.run ok_put get_put acts (Inv.start s0 h0) (Inv2.start s0)
  rw [fetchVal_snap ht hl, hI.snapv _ (hI1.snap_le _ _ ht), hI.began pre post slot hd tx ht, hd]
  exact congrFun (replayN_prefix _ _ _) k

/-! ### the `KVStore` instance -/

/-- a `KVStore` whose dict is (modelled as) a strictly sorted association list -/
def kvOk (s : Store) : Prop := ∃ d, s = .kv d ∧ SortedKV d

theorem kv_laws :
    (∀ s k v, kvOk s → kvOk (s.putSync k v)) ∧
    (∀ s k v k', kvOk s → (s.putSync k v).getSync k' = if k' = k then some v else s.getSync k') := by
  constructor
  · rintro s k v ⟨d, rfl, hd⟩
    exact ⟨upsert k v d, rfl, map_sorted_upsert k v d hd⟩
  · rintro s k v k' ⟨d, rfl, hd⟩
    exact map_lookup_upsert d hd k k' v

theorem serializable_commit_order_kv (d : KV) (hd : SortedKV d) (acts : List Act) :
    let r := runA { store := .kv d } acts
    (∀ k, r.1.store.getSync k = replay (fun k => d.lookup k) r.2 k) ∧
    ∀ pre post slot wset tx, r.2 = pre ++ Ev.committed slot wset :: post →
      r.1.tx? slot = some tx → tx.level = .ser →
      ∀ k val, Ev.fetched slot k val ∈ pre → val = replay (fun k => d.lookup k) pre k :=
  serializable_commit_order kvOk kv_laws.1 kv_laws.2 (.kv d) ⟨d, rfl, hd⟩ acts

theorem snapshot_reads_consistent_kv (d : KV) (hd : SortedKV d) (acts : List Act) :
    let r := runA { store := .kv d } acts
    ∀ pre mid post slot k val tx, r.2 = pre ++ Ev.began slot :: mid ++ Ev.fetched slot k val :: post →
      r.1.tx? slot = some tx → tx.level ≠ .rc → val = replay (fun k => d.lookup k) pre k :=
  snapshot_reads_consistent kvOk kv_laws.1 kv_laws.2 (.kv d) ⟨d, rfl, hd⟩ acts

/-! ### connection to the segment machine `stepT`

Every segment of `stepT` changes the manager exactly like one action of `stepA` (or not at all), and
the segment in which the store's `get` generator acts returns `fetchVal` of the state at that moment. -/

theorem readAdvance_state (tm : TM) (slot : Nat) (k : Key) (pc : SPc) : (readAdvance tm slot k pc).1 = tm := by
  unfold readAdvance
  split <;> rfl

theorem stepT_state (tm : TM) :
    (∀ s l, (stepT tm (.start (.begin s l))).1 = (stepA tm (.begin s l)).1) ∧
    (∀ s k, (stepT tm (.start (.read s k))).1 = (stepA tm (.readStart s k)).1) ∧
    (∀ s k v, (stepT tm (.start (.write s k v))).1 = (stepA tm (.write s k v)).1) ∧
    (∀ s, (stepT tm (.start (.commit s))).1 = (stepA tm (.commit s)).1) ∧
    (∀ s, (stepT tm (.start (.abort s))).1 = (stepA tm (.abort s)).1) ∧
    (∀ s k pc, (stepT tm (.rd s k pc)).1 = tm) ∧ (∀ r, (stepT tm (.fin r)).1 = tm) ∧
    (∀ r, (stepT tm (.done r)).1 = tm) := by
  refine ⟨fun _ _ => rfl, fun s k => ?_, fun _ _ _ => rfl, fun _ => rfl, fun _ => rfl,
    fun s k pc => readAdvance_state tm s k pc, fun _ => rfl, fun _ => rfl⟩
  simp only [stepT, stepA]
  split
  · rfl
  · exact readAdvance_state _ _ _ _

/-- the acting segment of a transactional read returns `fetchVal` of the current state -/
theorem readAdvance_fetch (tm : TM) (slot : Nat) (k : Key) :
    readAdvance tm slot k (.wait (.get k) 0) = (tm, .done (.val (fetchVal tm slot k))) := by
  simp only [readAdvance, stepS, doAct, act, fetchVal]
  cases tm.tx? slot <;> simp

/-! ### non-vacuity: concrete runs -/

/-- store of the examples: keys 0 and 1 -/
def exStore : Store := .kv [(0, 10), (1, 11)]

example : kvOk exStore := ⟨_, rfl, by unfold SortedKV; decide⟩

/-- write skew at SERIALIZABLE: T0 reads key 0 and writes key 1, T1 reads key 1 and writes key 0 -/
def exSkew : List Act :=
  [.begin 0 .ser, .begin 1 .ser, .readStart 0 0, .readFetch 0 0, .readStart 1 1, .readFetch 1 1,
   .write 0 1 100, .write 1 0 200, .commit 0]

/-- the first commit succeeds, the adjacent second one is refused (read-write conflict on key 1); the
    committed transaction's fetch is the replay value before its commit, the final store the replay -/
example :
    (runA { store := exStore } exSkew).2 =
      [.began 0, .began 1, .fetched 0 0 (some 10), .fetched 1 1 (some 11), .committed 0 [(1, 100)]] ∧
    ((runA { store := exStore } exSkew).1.commit 1).2 = false ∧
    (runA { store := exStore } (exSkew ++ [.commit 1])).2 = (runA { store := exStore } exSkew).2 ∧
    ((runA { store := exStore } exSkew).1.tx? 0).map (fun t => (t.level, t.stat)) = some (.ser, .committed) ∧
    ((runA { store := exStore } (exSkew ++ [.commit 1])).1.tx? 1).map (·.stat) = some .aborted ∧
    replay exStore.getSync [.began 0, .began 1, .fetched 0 0 (some 10), .fetched 1 1 (some 11)] 0 = some 10 ∧
    (runA { store := exStore } exSkew).1.store.getSync 1 = some 100 ∧
    replay exStore.getSync (runA { store := exStore } exSkew).2 1 = some 100 := by
  decide

/-- the same schedule at SNAPSHOT_ISOLATION lets both commit (write skew is allowed there) -/
example :
    ((runA { store := exStore }
      [.begin 0 .si, .begin 1 .si, .readStart 0 0, .readFetch 0 0, .readStart 1 1, .readFetch 1 1,
       .write 0 1 100, .write 1 0 200, .commit 0]).1.commit 1).2 = true := by
  decide

/-- SNAPSHOT_ISOLATION: T1 commits a write of key 0 after T0 began; T0's later fetch of key 0 still
    returns the value of its snapshot (10), although the store now holds 99 -/
def exSnap : List Act :=
  [.begin 0 .si, .begin 1 .si, .write 1 0 99, .commit 1, .readStart 0 0, .readFetch 0 0]

example :
    (runA { store := exStore } exSnap).2 =
      [.began 0, .began 1, .committed 1 [(0, 99)], .fetched 0 0 (some 10)] ∧
    (runA { store := exStore } exSnap).1.store.getSync 0 = some 99 ∧
    replay exStore.getSync [] 0 = some 10 := by
  decide

/-- at READ_COMMITTED the same fetch sees the concurrent commit -/
example :
    (runA { store := exStore }
      [.begin 0 .rc, .begin 1 .si, .write 1 0 99, .commit 1, .readStart 0 0, .readFetch 0 0]).2 =
      [.began 0, .began 1, .committed 1 [(0, 99)], .fetched 0 0 (some 99)] := by
  decide

end HappyModel.C14.SM
