import HappyModel.C14.Ops
/-! Helper lemmas: association-list lookups through `ins`, table lists and level lists. -/
namespace HappyModel.C14

theorem lookup_ins (k k' : Key) (c : Cell) (d : Data) :
    (ins k c d).lookup k' = if k' = k then some c else d.lookup k' := by
  induction d with
  | nil =>
    by_cases h : k' = k
    · subst h; simp [ins, List.lookup]
    · have : (k' == k) = false := by simp [h]
      simp [ins, List.lookup, this, h]
  | cons hd tl ih =>
    obtain ⟨k0, c0⟩ := hd
    unfold ins
    by_cases h1 : k < k0
    · simp only [h1, if_true]
      by_cases h : k' = k
      · subst h; simp [List.lookup]
      · have : (k' == k) = false := by simp [h]
        simp [List.lookup, this, h]
    · simp only [h1, if_false]
      by_cases h2 : k = k0
      · subst h2
        simp only [if_true]
        by_cases h : k' = k
        · subst h; simp [List.lookup]
        · have : (k' == k) = false := by simp [h]
          simp [List.lookup, this, h]
      · simp only [h2, if_false]
        by_cases h : k' = k
        · subst h
          have : (k' == k0) = false := by simp [h2]
          simp [List.lookup, this, ih]
        · by_cases h3 : k' = k0
          · subst h3; simp [List.lookup, h]
          · have : (k' == k0) = false := by simp [h3]
            simp [List.lookup, this, ih, h]

theorem lookTabs_append (k : Key) (a b : List Tab) :
    lookTabs k (a ++ b) = match lookTabs k a with
      | some c => some c
      | none => lookTabs k b := by
  induction a with
  | nil => simp [lookTabs]
  | cons t r ih =>
    simp only [List.cons_append, lookTabs]
    cases h : t.data.lookup k with
    | some c => simp
    | none => simpa using ih

theorem lookTabs_filter_ne (k : Key) (id : Nat) (l : List Tab) (h : ∀ t ∈ l, t.id ≠ id) :
    l.filter (fun i => i.id != id) = l := by
  apply List.filter_eq_self.mpr
  intro t ht
  simp [h t ht]

end HappyModel.C14
