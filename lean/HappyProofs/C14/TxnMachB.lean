import HappyProofs.C14.TxnMachA
/-!
# Transactions at run level, part B: what one segment does to the transaction table

`Upd tm tm' op`: the first segment of `op` replaced (or created) the record of its slot and nothing else;
`readAdvance` on the `get` generator of a KVStore / B-tree.
-/
namespace HappyModel.C14.SM
open HappyModel.C14 HappyModel.C14.BT

/-- the write set of the transaction of slot `s` (empty before `begin`) -/
def curW (tm : TM) (s : Nat) : KV :=
  match tm.tx? s with
  | some tx => tx.wset
  | none => []

/-- transactions persist, keep their level and their reads -/
def TMle (tm tm' : TM) : Prop :=
  ∀ s tx, tm.tx? s = some tx → ∃ tx', tm'.tx? s = some tx' ∧ tx'.level = tx.level ∧ ∀ k ∈ tx.rset, k ∈ tx'.rset

theorem TMle.refl (tm : TM) : TMle tm tm := fun _ tx h => ⟨tx, h, rfl, fun _ h => h⟩

theorem tx?_upd {tm tm' : TM} {slot : Nat} {tx tx' : Tx} (hx : tm.tx? slot = some tx)
    (e : tm'.txs = (tm.setTx tx').txs) (hsl : tx'.slot = tx.slot) (s : Nat) :
    tm'.tx? s = if s = slot then some tx' else tm.tx? s := by
  have hs' := tx?_mem hx
  have := tx?_setTx tm tx' (by simp [hsl, hs', hx]) s
  simp only [hsl, hs'] at this
  rw [← this]
  simp only [TM.tx?, e]

theorem mem_addKey_self (k : Key) (l : List Key) : k ∈ addKey k l := by
  unfold addKey
  split
  · next h => simpa using h
  · simp

def Upd (tm tm' : TM) (op : TOp) : Prop :=
  ∃ tx', (∀ s', tm'.tx? s' = if s' = op.slot then some tx' else tm.tx? s') ∧
    (∀ tx, tm.tx? op.slot = some tx → tx'.level = tx.level ∧ ∀ k ∈ tx.rset, k ∈ tx'.rset) ∧
    tx'.wset = opW op (curW tm op.slot) ∧ (op.isEnd = false → tx'.stat = .active) ∧
    (∀ l, op = .begin op.slot l → tx'.level = l) ∧ (∀ k, op = .read op.slot k → k ∈ tx'.rset)

variable {tm tm' : TM} {op : TOp}

theorem Upd.other (u : Upd tm tm' op) {s : Nat} (hs : s ≠ op.slot) : tm'.tx? s = tm.tx? s := by
  obtain ⟨tx', h, _⟩ := u
  rw [h, if_neg hs]

theorem Upd.self (u : Upd tm tm' op) : ∃ tx', tm'.tx? op.slot = some tx' ∧
    (∀ tx, tm.tx? op.slot = some tx → tx'.level = tx.level ∧ ∀ k ∈ tx.rset, k ∈ tx'.rset) ∧
    tx'.wset = opW op (curW tm op.slot) ∧ (op.isEnd = false → tx'.stat = .active) ∧
    (∀ l, op = .begin op.slot l → tx'.level = l) ∧ (∀ k, op = .read op.slot k → k ∈ tx'.rset) := by
  obtain ⟨tx', h, r⟩ := u
  exact ⟨tx', by rw [h, if_pos rfl], r⟩

theorem Upd.le (u : Upd tm tm' op) : TMle tm tm' := by
  intro s tx hx
  by_cases hs : s = op.slot
  · subst hs
    obtain ⟨tx', h1, h2, _⟩ := u.self
    exact ⟨tx', h1, (h2 tx hx).1, (h2 tx hx).2⟩
  · exact ⟨tx, by rw [u.other hs]; exact hx, rfl, fun _ h => h⟩

theorem Upd.w (u : Upd tm tm' op) : curW tm' op.slot = opW op (curW tm op.slot) := by
  obtain ⟨tx', h1, _, h3, _⟩ := u.self
  rw [← h3]
  simp only [curW, h1]

theorem Upd.w_other (u : Upd tm tm' op) {s : Nat} (hs : s ≠ op.slot) : curW tm' s = curW tm s := by
  simp only [curW, u.other hs]

theorem Upd.act (u : Upd tm tm' op) (tx' : Tx) (hx : tm'.tx? op.slot = some tx') (he : op.isEnd = false) :
    tx'.stat = .active := by
  obtain ⟨t, h1, _, _, h4, _⟩ := u.self
  rw [h1] at hx
  cases hx
  exact h4 he

theorem upd_of {tx tx' : Tx} (hx : tm.tx? op.slot = some tx)
    (htx : ∀ s', tm'.tx? s' = if s' = op.slot then some tx' else tm.tx? s')
    (hl : tx'.level = tx.level) (hr : ∀ k ∈ tx.rset, k ∈ tx'.rset) (hw : tx'.wset = opW op tx.wset)
    (ha : op.isEnd = false → tx'.stat = .active) (hb : op.isBegin = false)
    (hk : ∀ k, op = .read op.slot k → k ∈ tx'.rset) : Upd tm tm' op := by
  refine ⟨tx', htx, ?_, ?_, ha, ?_, hk⟩
  · intro t ht
    rw [hx] at ht
    cases ht
    exact ⟨hl, hr⟩
  · simp only [curW, hx, hw]
  · intro l h
    rw [h] at hb
    cases hb

theorem upd_begin {s : Nat} (l : Level) (hx : tm.tx? s = none) : Upd tm (tm.begin s l) (.begin s l) := by
  refine ⟨{ slot := s, id := tm.nextId, level := l, snap := tm.version }, tx?_begin tm s l hx, ?_, ?_,
    fun _ => rfl, ?_, ?_⟩
  · intro tx h
    simp only [TOp.slot] at h
    rw [hx] at h
    cases h
  · simp [opW, curW, TOp.slot, hx]
  · intro l' h
    cases h
    rfl
  · intro k h
    cases h

theorem upd_read {s : Nat} {k : Key} {tx : Tx} (hx : tm.tx? s = some tx) (ha : tx.stat = .active) :
    Upd tm (tm.readStart s k) (.read s k) := by
  refine upd_of (tx := tx) (tx' := { tx with rset := addKey k tx.rset }) hx
    (tx?_upd hx (by simp [TM.readStart, hx, ha]) rfl) rfl (fun _ => mem_addKey) rfl (fun _ => ha) rfl ?_
  intro k' h
  cases h
  exact mem_addKey_self _ _

theorem upd_write {s : Nat} {k : Key} {v : Nat} {tx : Tx} (hx : tm.tx? s = some tx) (ha : tx.stat = .active) :
    Upd tm (tm.write s k v) (.write s k v) := by
  refine upd_of (tx := tx) (tx' := { tx with wset := dictSet k v tx.wset }) hx
    (tx?_upd hx (by simp [TM.write, hx, ha]) rfl) rfl (fun _ h => h) rfl (fun _ => ha) rfl ?_
  intro k' h
  cases h

theorem upd_abort {s : Nat} {tx : Tx} (hx : tm.tx? s = some tx) (ha : tx.stat = .active) :
    Upd tm (tm.abort s) (.abort s) := by
  refine upd_of (tx := tx) (tx' := { tx with stat := .aborted }) hx
    (tx?_upd hx (by simp [TM.abort, hx, ha]) rfl) rfl (fun _ h => h) rfl (fun h => by cases h) rfl ?_
  intro k' h
  cases h

theorem upd_commit {s : Nat} {tx : Tx} (hx : tm.tx? s = some tx) (ha : tx.stat = .active) :
    Upd tm (tm.commit s).1 (.commit s) := by
  cases hc : checkConflict tm tx with
  | true =>
    refine upd_of (tx := tx) (tx' := { tx with stat := .aborted }) hx
      (tx?_upd hx (by simp [TM.commit, hx, ha, hc]) rfl) rfl (fun _ h => h) rfl (fun h => by cases h) rfl ?_
    intro k' h
    cases h
  | false =>
    obtain ⟨_, c⟩ := commit_ok hx ha hc
    refine upd_of (tx := tx) (tx' := { tx with stat := .committed }) hx c.txs rfl (fun _ h => h) rfl
      (fun h => by cases h) rfl ?_
    intro k' h
    cases h

/-! ### the store's `get` generator inside a read (KVStore / B-tree) -/

theorem readAdvance_start_zero (tm : TM) (s : Nat) (k : Key) (hn : lsmStart tm.store (.get k) = none)
    (hy : yieldsBefore tm.store (.get k) = 0) :
    readAdvance tm s k (.start (.get k)) = (tm, .done (.val (fetchVal tm s k))) := by
  simp only [readAdvance, stepS, hn, hy, doAct, act, fetchVal]
  cases tm.tx? s <;> simp

theorem readAdvance_start_succ (tm : TM) (s : Nat) (k : Key) (j : Nat) (hn : lsmStart tm.store (.get k) = none)
    (hy : yieldsBefore tm.store (.get k) = j + 1) :
    readAdvance tm s k (.start (.get k)) = (tm, .rd s k (.wait (.get k) j)) := by
  simp only [readAdvance, stepS, hn, hy]

theorem readAdvance_wait_succ (tm : TM) (s : Nat) (k : Key) (j : Nat) :
    readAdvance tm s k (.wait (.get k) (j + 1)) = (tm, .rd s k (.wait (.get k) j)) := by
  simp only [readAdvance, stepS]

end HappyModel.C14.SM
