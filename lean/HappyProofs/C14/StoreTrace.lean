import HappyProofs.C14.StoreFinal
/-!
# C14 — `btree_read_regular`, `kv_read_regular`: run-level statements for the B-tree and the KVStore

The analogue of the LSM tree's `read_regular`: for EVERY schedule of generator segments (no hypothesis on the
schedule at all — operations may be advanced in any order, any number of times, unknown ids are ignored), the
Spec judge `judgeStore` accepts the observations of the model (`stepS` under `runFrames`, which is what the
driver executes).  Also the final `get_sync` / `size` observations the harness appends after the run.
-/
namespace HappyModel.C14.SM.SR
open HappyModel.C14 HappyModel.C14.SM HappyModel.C14.BT

/-- the run invariant holds after every schedule -/
theorem store_invariants (s0 : Store) (h0 : SOk s0) (he : s0.contents = []) (ops : List (Nat × SOp)) (sched : List Nat)
    (hn : (ops.map (·.1)).Nodup) :
    RInv ops (runFrames stepS SPc.isDone s0 (framesOfS ops) 0 sched).1
      (runFrames stepS SPc.isDone s0 (framesOfS ops) 0 sched).2 sched.length
      (logRunS s0 (framesOfS ops) 0 [] sched) := by
  simpa using rinv_run sched s0 (framesOfS ops) 0 [] (rinv_init h0 he hn)

/-- the store after any run is the newest write per key: `get_sync` refines the ghost log, and the store keeps
    its representation invariant (search tree / sorted dict) -/
theorem store_refines_log (s0 : Store) (h0 : SOk s0) (he : s0.contents = []) (ops : List (Nat × SOp)) (sched : List Nat)
    (hn : (ops.map (·.1)).Nodup) (k : Key) :
    SOk (runFrames stepS SPc.isDone s0 (framesOfS ops) 0 sched).1 ∧
    (runFrames stepS SPc.isDone s0 (framesOfS ops) 0 sched).1.getSync k =
      (firstOn k (logRunS s0 (framesOfS ops) 0 [] sched)).join := by
  have h := store_invariants s0 h0 he ops sched hn
  exact ⟨h.sok, by rw [sok_get h.sok, h.abs]⟩

/-- the judge accepts the model's own observations, for every workload and every schedule -/
theorem store_read_regular (pfx : String) (nkeys : Nat) (s0 : Store) (h0 : SOk s0) (he : s0.contents = [])
    (ops : List (Nat × SOp)) (sched : List Nat) (hd : DistinctS ops) (hk : KeysBelow nkeys ops) :
    judgeStore pfx (obsOfS ops (runFrames stepS SPc.isDone s0 (framesOfS ops) 0 sched).2) nkeys
      (extraOfS ops (runFrames stepS SPc.isDone s0 (framesOfS ops) 0 sched).2) = none :=
  store_judge_of_rinv pfx nkeys hd hk (store_invariants s0 h0 he ops sched hd.1)

/-- B-tree of any order ≥ 3: get / put / delete / scan / size generators interleaved at their page-latency yields -/
theorem btree_read_regular (order : Nat) (ho : 3 ≤ order) (nkeys : Nat) (ops : List (Nat × SOp)) (sched : List Nat)
    (hd : DistinctS ops) (hk : KeysBelow nkeys ops) :
    judgeStore "btree" (obsOfS ops (runFrames stepS SPc.isDone (.bt { order := order }) (framesOfS ops) 0 sched).2) nkeys
      (extraOfS ops (runFrames stepS SPc.isDone (.bt { order := order }) (framesOfS ops) 0 sched).2) = none :=
  store_read_regular "btree" nkeys _ (sok_bt order ho) rfl ops sched hd hk

/-- KVStore -/
theorem kv_read_regular (nkeys : Nat) (ops : List (Nat × SOp)) (sched : List Nat)
    (hd : DistinctS ops) (hk : KeysBelow nkeys ops) :
    judgeStore "kv" (obsOfS ops (runFrames stepS SPc.isDone (.kv []) (framesOfS ops) 0 sched).2) nkeys
      (extraOfS ops (runFrames stepS SPc.isDone (.kv []) (framesOfS ops) 0 sched).2) = none :=
  store_read_regular "kv" nkeys _ sok_kv_nil rfl ops sched hd hk

/-- the observations the harness appends after the run (`get_sync` of every key and `size`, as operations that
    begin and end at a position `N` after every executed segment) pass the same clauses -/
theorem final_reads_regular (pfx : String) (nkeys : Nat) (s0 : Store) (h0 : SOk s0) (he : s0.contents = [])
    (ops : List (Nat × SOp)) (sched : List Nat) (hd : DistinctS ops) (hk : KeysBelow nkeys ops) (N : Nat)
    (hN : sched.length ≤ N) (id : Nat) :
    let r := runFrames stepS SPc.isDone s0 (framesOfS ops) 0 sched
    (∀ k, judgeRead (writesOf (obsOfS ops r.2)) k N N (r.1.getSync k) = none) ∧
    judgeSize pfx (writesOf (obsOfS ops r.2)) nkeys (id, N, N, r.1.size) = none := by
  intro r
  have h := store_invariants s0 h0 he ops sched hd.1
  have hlt : ∀ ev ∈ logRunS s0 (framesOfS ops) 0 [] sched, ev.n < N := fun ev hev => Nat.lt_of_lt_of_le (h.evLt ev hev) hN
  have hval : ∀ k, r.1.contents.lookup k = valAt (logRunS s0 (framesOfS ops) 0 [] sched) k N := fun k => by
    rw [valAt_now hlt, h.abs]
  constructor
  · intro k
    have := judgeRead_valAt (wsOkS_of_rinv hd h).toWsOk h.sortedN (k := k) (Nat.le_refl N) (Nat.le_refl N)
    rw [← hval, ← sok_get h.sok] at this
    exact this
  · rw [sok_size h.sok]
    exact size_bounds pfx nkeys hd hk h (sok_sorted h.sok) hval (Nat.le_refl N) (Nat.le_refl N)

/-! ### non-vacuity: an order-3 tree grows to depth 3 under writers while a reader, a scanner, a deleter and a
    size call are suspended at their yields -/

def exOpsS : List (Nat × SOp) :=
  [(1, .put 5 50), (2, .put 2 20), (3, .get 5), (4, .put 8 80), (5, .put 1 10), (6, .scan 1 8), (7, .del 2),
   (8, .put 6 60), (9, .size), (10, .put 5 51), (11, .get 2)]

def exSchedS : List Nat :=
  [1, 3, 1, 1, 2, 6, 2, 2, 4, 4, 4, 5, 7, 5, 5, 8, 8, 8, 3, 10, 6, 10, 10, 7, 7, 9, 11, 11, 6, 11, 11, 3, 3, 12, 9, 6, 3]

example : DistinctS exOpsS ∧ KeysBelow 9 exOpsS := ⟨⟨by decide, by decide⟩, by decide⟩

example :
    (runFrames stepS SPc.isDone (.bt { order := 3 }) (framesOfS exOpsS) 0 exSchedS).2.all (fun f => f.pc.isDone) = true ∧
    (match (runFrames stepS SPc.isDone (.bt { order := 3 }) (framesOfS exOpsS) 0 exSchedS).1 with
      | .bt t => (t.depth, t.toList) | _ => (0, [])) = (3, [(1, 10), (5, 51), (6, 60), (8, 80)]) ∧
    (obsOfS exOpsS (runFrames stepS SPc.isDone (.bt { order := 3 }) (framesOfS exOpsS) 0 exSchedS).2).map (fun o => (o.id, o.b, o.e)) =
      [(1, 0, some 3), (2, 4, some 7), (3, 1, some 18), (4, 8, some 10), (5, 11, some 14), (6, 5, some 28),
       (7, 12, some 24), (8, 15, some 17), (10, 19, some 22), (11, 26, some 30)] ∧
    (obsOfS exOpsS (runFrames stepS SPc.isDone (.bt { order := 3 }) (framesOfS exOpsS) 0 exSchedS).2).map (·.got) = [none, none, some 50, none, none, none, none, none, none, none] ∧
    (obsOfS exOpsS (runFrames stepS SPc.isDone (.bt { order := 3 }) (framesOfS exOpsS) 0 exSchedS).2).map (·.rows) = [[], [], [], [], [], [(1, 10), (2, 20), (5, 50), (6, 60)], [], [], [], []] ∧
    (extraOfS exOpsS (runFrames stepS SPc.isDone (.bt { order := 3 }) (framesOfS exOpsS) 0 exSchedS).2).delFlags = [(7, true)] ∧
    (extraOfS exOpsS (runFrames stepS SPc.isDone (.bt { order := 3 }) (framesOfS exOpsS) 0 exSchedS).2).sizes = [(9, 25, 25, 4)] := by
  refine ⟨by decide, by decide, by decide, by decide, by decide, by decide, by decide⟩

end HappyModel.C14.SM.SR
