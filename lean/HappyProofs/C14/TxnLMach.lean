import HappyProofs.C14.TxnLMachG
/-!
# Transactions at run level: every quiesced run of the segment machine has `MachFacts`

`machFacts_run`: for a store obeying the map laws whose `get` generator acts in one segment (KVStore,
B-tree), every well-formed program, every schedule that runs the operations of a slot one after the other
and every run in which all started operations have completed, there is a timed ghost log with `MachFacts`
(`TxnObs.lean`).  The invariant behind it is `RInv` (`TxnMachC.lean`), preserved by every schedule position
(`RInv.step`, `TxnMachG.lean`).

`slotSeqB` is the executable form of the schedule hypothesis `SlotSeq`; the example at the end checks all
hypotheses on a concrete interleaving of a SNAPSHOT_ISOLATION reader and a SERIALIZABLE writer.
-/
namespace HappyModel.C14.SM.LM
open HappyModel.C14 HappyModel.C14.BT

theorem isDone_done {pc : TPc} (h : pc.isDone = true) : ∃ r, pc = .done r := by
  cases pc with
  | done r => exact ⟨r, rfl⟩
  | _ => cases h

theorem machFacts_of_rinv {ok : Store → Prop} {ops : List (Nat × TOp)} {s0 : Store} {tm : TM}
    {fs : List (Frame TPc)} {n : Nat} {tlog : List (Nat × Ev)} (hwf : WFProg ops)
    (R : RInv ok s0.getSync ops tm fs n tlog) (hq : Quiesced fs) :
    MachFacts ok ops { store := s0 } tm fs tlog := by
  have hndf : (fs.map (·.id)).Nodup := by rw [R.ids]; exact hwf.ids
  have hfo : ∀ f ∈ fs, frameOf fs f.id = some f := fun f hf => frameOf_of_mem hndf hf
  have hdone : ∀ f ∈ fs, ∀ b, f.b = some b → f.pc.isDone = true := fun f hf b hb =>
    hq f hf (by rw [hb]; intro h; cases h)
  refine
    { inv := R.inv
      inv2 := R.inv2
      times := R.times
      ids := R.ids
      done_e := fun f hf b hb => ?_
      seq := fun pre o post hsp f hf hid b hb a ha hs => ?_
      begin_ev := fun f hf s l b hl hb => ?_
      read_res := fun f hf s k b e r hl hb he hpc => ?_
      commit_res := fun f hf s b r hl hb hpc => ?_
      commit_ev := fun m s w hm => ?_ }
  · obtain ⟨op, hl⟩ := R.lookup_frame hwf (hfo f hf)
    have hd := hdone f hf b hb
    obtain ⟨b', e, h1, h2, h3, _⟩ := R.done_info (hfo f hf) hl hd
    rw [hb] at h1
    cases h1
    obtain ⟨r, hr⟩ := isDone_done hd
    exact ⟨e, r, h2, hr, h3⟩
  · have hfo' : frameOf fs o.1 = some f := by rw [← hid]; exact hfo f hf
    obtain ⟨g, e, h1, _, h3, h4⟩ := R.seq pre o post f b hsp hfo' hb a ha hs
    exact ⟨g, frameOf_mem h1, frameOf_id h1, e, h3, h4⟩
  · obtain ⟨_, h2, h3⟩ := (R.frames f.id f _ (hfo f hf) hl).kind b hb
    exact ⟨h2, h3⟩
  · rcases (R.frames f.id f _ (hfo f hf) hl).kind b hb with ⟨j, h1, _⟩ | ⟨c, h1, h2, h3⟩
    · rw [h1] at hpc
      cases hpc
    · rw [h1] at hpc
      cases hpc
      refine ⟨c, rfl, ?_⟩
      split
      · next v hv => exact h2 v hv
      · next hv =>
        obtain ⟨m, e', g1, g2, g3, g4⟩ := h3 hv
        rw [he] at g1
        cases g1
        exact ⟨m, g2, g3, g4⟩
  · obtain ⟨h1, h2⟩ := (R.frames f.id f _ (hfo f hf) hl).kind b hb
    rcases h1 with h1 | ⟨fl, h1⟩
    · rw [h1] at hpc
      cases hpc
    · rw [h1] at hpc
      cases hpc
      refine ⟨fl, rfl, fun hfl => h2 (.inr ?_)⟩
      rw [h1, hfl]
  · obtain ⟨i, f, h1, h2, h3, h4, h5⟩ := R.cev m s w hm
    have hfm := frameOf_mem h1
    have hid := frameOf_id h1
    refine ⟨f, hfm, by rw [hid]; exact h2, h3, ?_, by rw [hid]; exact h5⟩
    rcases h4 with h4 | h4
    · have := hdone f hfm m h3
      rw [h4] at this
      cases this
    · exact h4

theorem machFacts_run (ok : Store → Prop) (ok_put : ∀ s k v, ok s → ok (s.putSync k v))
    (get_put : ∀ s k v k', ok s → (s.putSync k v).getSync k' = if k' = k then some v else s.getSync k')
    (s0 : Store) (h0 : ok s0) (ops : List (Nat × TOp)) (sched : List Nat)
    (hwf : WFProg ops) (hseq : SlotSeq ops { store := s0 } sched)
    (J : TM → List (Frame TPc) → Prop)
    (hJ1 : ∀ tm fs, J tm fs → ∀ s k r, (readAdvance (tm.readStart s k) s k (.start (.get k))).2 = .done r →
      r = .val (fetchVal (tm.readStart s k) s k))
    (hJ2 : ∀ tm fs, J tm fs → ∀ id f, frameOf fs id = some f → ∀ s k p, f.pc = .rd s k p →
      ∀ r, (readAdvance tm s k p).2 = .done r → r = .val (fetchVal tm s k))
    (hJs : ∀ tm fs n tlog id, RInv ok s0.getSync ops tm fs n tlog → J tm fs →
      (∀ pre o post, o.1 = id → ops = pre ++ o :: post → ∀ a ∈ pre, a.2.slot = o.2.slot → doneIn fs a.1 = true) →
      J (stepFrames stepT TPc.isDone tm n id fs).1 (stepFrames stepT TPc.isDone tm n id fs).2)
    (hJ0 : J { store := s0 } (framesOfT ops))
    (hq : Quiesced (runFrames stepT TPc.isDone { store := s0 } (framesOfT ops) 0 sched).2) :
    ∃ tlog, MachFacts ok ops { store := s0 }
      (runFrames stepT TPc.isDone { store := s0 } (framesOfT ops) 0 sched).1
      (runFrames stepT TPc.isDone { store := s0 } (framesOfT ops) 0 sched).2 tlog := by
  obtain ⟨tlog, R, _⟩ := rinv_run ok_put get_put s0 h0 ops sched hwf hseq J hJ1 hJ2 hJs hJ0 sched.length (Nat.le_refl _)
  rw [List.take_length] at R
  exact ⟨tlog, machFacts_of_rinv hwf R hq⟩

end HappyModel.C14.SM.LM
