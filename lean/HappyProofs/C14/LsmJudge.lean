import HappyProofs.C14.LsmObs
/-! The ghost-log facts (`LInv`, `ReadFacts`) imply that the Spec judge accepts the observation of a run. -/
namespace HappyModel.C14

/-! ### list lemmas -/

theorem eq_of_nodup_map {α β : Type} (f : α → β) : ∀ {l : List α}, (l.map f).Nodup →
    ∀ a ∈ l, ∀ b ∈ l, f a = f b → a = b
  | [], _, a, ha, _, _, _ => by cases ha
  | x :: xs, h, a, ha, b, hb, hab => by
    simp only [List.map_cons, List.nodup_cons] at h
    rcases List.mem_cons.mp ha with hax | ha' <;> rcases List.mem_cons.mp hb with hbx | hb'
    · rw [hax, hbx]
    · rw [hax] at hab; exact absurd (hab ▸ List.mem_map_of_mem hb') h.1
    · rw [hbx] at hab; exact absurd (hab ▸ List.mem_map_of_mem ha') h.1
    · exact eq_of_nodup_map f h.2 a ha' b hb' hab

theorem eq_of_nodup_filterMap {α β : Type} (g : α → Option β) : ∀ {l : List α}, (l.filterMap g).Nodup →
    ∀ a ∈ l, ∀ b ∈ l, ∀ v, g a = some v → g b = some v → a = b
  | [], _, a, ha, _, _, _, _, _ => by cases ha
  | x :: xs, h, a, ha, b, hb, v, hga, hgb => by
    rw [List.filterMap_cons] at h
    have hm : ∀ c ∈ xs, g c = some v → v ∈ xs.filterMap g := fun c hc hg => List.mem_filterMap.mpr ⟨c, hc, hg⟩
    rcases List.mem_cons.mp ha with hax | ha' <;> rcases List.mem_cons.mp hb with hbx | hb'
    · rw [hax, hbx]
    · rw [← hax, hga] at h
      exact absurd (hm b hb' hgb) (List.nodup_cons.mp h).1
    · rw [← hbx, hgb] at h
      exact absurd (hm a ha' hga) (List.nodup_cons.mp h).1
    · have h' : (xs.filterMap g).Nodup := by
        cases hx : g x with
        | none => rw [hx] at h; exact h
        | some u => rw [hx] at h; exact (List.nodup_cons.mp h).2
      exact eq_of_nodup_filterMap g h' a ha' b hb' v hga hgb

theorem mem_of_lookup {α : Type} : ∀ {l : List (Nat × α)} {i : Nat} {a : α}, l.lookup i = some a → (i, a) ∈ l
  | [], _, _, h => by cases h
  | (j, b) :: xs, i, a, h => by
    rw [List.lookup_cons] at h
    by_cases hij : (i == j) = true
    · rw [hij] at h
      injection h with h
      have : i = j := by simpa using hij
      subst this; subst h
      exact List.mem_cons_self ..
    · have hij' : (i == j) = false := by simpa using hij
      rw [hij'] at h
      exact List.mem_cons_of_mem _ (mem_of_lookup h)

/-! ### the newest event on a key -/

theorem firstOn_none {k : Key} : ∀ {l : List Ev}, firstOn k l = none → ∀ ev ∈ l, ev.key ≠ k
  | [], _, ev, hev => by cases hev
  | e :: r, h, ev, hev => by
    unfold firstOn at h
    by_cases hk : e.key = k
    · rw [if_pos hk] at h; cases h
    · rw [if_neg hk] at h
      rcases List.mem_cons.mp hev with rfl | hev
      · exact hk
      · exact firstOn_none h ev hev

theorem firstOn_some {k : Key} {c : Cell} : ∀ {l : List Ev}, l.Pairwise (fun a b => a.n > b.n) → firstOn k l = some c →
    ∃ ev ∈ l, ev.key = k ∧ ev.cell = c ∧ ∀ ev' ∈ l, ev'.key = k → ev'.n ≤ ev.n
  | [], _, h => by cases h
  | e :: r, hs, h => by
    unfold firstOn at h
    have hs' := List.pairwise_cons.mp hs
    by_cases hk : e.key = k
    · rw [if_pos hk] at h
      injection h with h
      refine ⟨e, List.mem_cons_self .., hk, h, ?_⟩
      intro ev' hev' _
      rcases List.mem_cons.mp hev' with rfl | hev'
      · exact Nat.le_refl _
      · exact Nat.le_of_lt (hs'.1 ev' hev')
    · rw [if_neg hk] at h
      obtain ⟨ev, hev, h1, h2, h3⟩ := firstOn_some hs'.2 h
      refine ⟨ev, List.mem_cons_of_mem _ hev, h1, h2, ?_⟩
      intro ev' hev' hk'
      rcases List.mem_cons.mp hev' with rfl | hev'
      · exact absurd hk' hk
      · exact h3 ev' hev' hk'

/-- what `ReadOk` says in terms of single events -/
theorem readOk_cases {log : List Ev} {k : Key} {b e : Nat} {c : Cell}
    (hs : (log.map (·.n)).Pairwise (· > ·)) (hbe : b ≤ e) (h : ReadOk log k b e c) :
    (c = none ∧ ∀ ev ∈ log, ev.key = k → ¬ ev.n < b) ∨
    ∃ ev ∈ log, ev.key = k ∧ ev.cell = c ∧ ev.n < e ∧ ∀ ev' ∈ log, ev'.key = k → ev'.n < b → ev'.n ≤ ev.n := by
  have hs1 : log.Pairwise (fun a b => a.n > b.n) := List.pairwise_map.mp hs
  have hs2 := hs1.filter (fun ev => decide (ev.n < b))
  rcases h with h | ⟨ev, hev, h1, h2, h3, h4⟩
  · cases hf : firstOn k (log.filter fun ev => decide (ev.n < b)) with
    | none =>
      left
      rw [hf] at h
      refine ⟨h, ?_⟩
      intro ev hev hk hlt
      exact firstOn_none hf ev (List.mem_filter.mpr ⟨hev, by simpa using hlt⟩) hk
    | some c' =>
      right
      rw [hf] at h
      have hc : c = c' := h
      subst hc
      obtain ⟨ev, hev, h1, h2, h3⟩ := firstOn_some hs2 hf
      obtain ⟨hev1, hev2⟩ := List.mem_filter.mp hev
      have hlt : ev.n < b := by simpa using hev2
      refine ⟨ev, hev1, h1, h2, Nat.lt_of_lt_of_le hlt hbe, ?_⟩
      intro ev' hev' hk' hlt'
      exact h3 ev' (List.mem_filter.mpr ⟨hev', by simpa using hlt'⟩) hk'
  · right
    refine ⟨ev, hev, h1, h2, h4, ?_⟩
    intro ev' _ _ hlt'
    omega

/-! ### the judge of a single read, over an abstract relation between write records and events -/

def cellKind (k : Key) : Cell → OKind
  | some v => .put k v
  | none => .del k

structure WsOk (log : List Ev) (ws : List ORec) : Prop where
  evRec : ∀ ev ∈ log, ∃ w ∈ ws, w.kind = cellKind ev.key ev.cell ∧ w.b ≤ ev.n ∧ ∀ e, w.e = some e → ev.n ≤ e
  putUniq : ∀ w1 ∈ ws, ∀ w2 ∈ ws, ∀ k k' v, w1.kind = .put k v → w2.kind = .put k' v → w1 = w2
  recEv : ∀ w ∈ ws, ∀ k, w.writesKey k = true → ∀ e, w.e = some e →
    ∃ ev ∈ log, ev.key = k ∧ w.b ≤ ev.n ∧ ev.n ≤ e

theorem not_overwritten {log : List Ev} {ws : List ORec} (h : WsOk log ws) {k : Key} {rb : Nat} {ev : Ev} {w : ORec}
    (hwe : ∀ e, w.e = some e → ev.n ≤ e)
    (hfresh : ∀ ev' ∈ log, ev'.key = k → ev'.n < rb → ev'.n ≤ ev.n) : overwrittenBy ws k w rb = none := by
  unfold overwrittenBy
  apply List.find?_eq_none.mpr
  intro w' hw' hp
  simp only [Bool.and_eq_true] at hp
  obtain ⟨⟨⟨h1, _⟩, h3⟩, h4⟩ := hp
  cases hwe' : w.e with
  | none => rw [hwe'] at h3; cases h3
  | some e =>
    rw [hwe'] at h3
    have h3' : e < w'.b := by simpa using h3
    unfold endedBefore at h4
    cases hw'e : w'.e with
    | none => rw [hw'e] at h4; cases h4
    | some e' =>
      rw [hw'e] at h4
      have h4' : e' < rb := by simpa using h4
      obtain ⟨ev', hev', hk', hb', he'⟩ := h.recEv w' hw' k h1 e' hw'e
      have := hfresh ev' hev' hk' (by omega)
      have := hwe e hwe'
      omega

theorem judgeRead_ok {log : List Ev} {ws : List ORec} (h : WsOk log ws) {k : Key} {rb re : Nat} {x : Cell}
    (hs : (log.map (·.n)).Pairwise (· > ·)) (hbe : rb ≤ re) (hr : ReadOk log k rb re x) :
    judgeRead ws k rb re x = none := by
  rcases readOk_cases hs hbe hr with ⟨rfl, hno⟩ | ⟨ev, hev, hk, hc, hlt, hfresh⟩
  · have hi : (ws.any fun w' => w'.writesKey k && endedBefore w' rb) = false := by
      apply List.any_eq_false.mpr
      intro w' hw' hp
      simp only [Bool.and_eq_true] at hp
      obtain ⟨h1, h4⟩ := hp
      unfold endedBefore at h4
      cases hw'e : w'.e with
      | none => rw [hw'e] at h4; cases h4
      | some e' =>
        rw [hw'e] at h4
        have h4' : e' < rb := by simpa using h4
        obtain ⟨ev', hev', hk', _, he'⟩ := h.recEv w' hw' k h1 e' hw'e
        exact hno ev' hev' hk' (by omega)
    simp only [judgeRead, hi]
    simp
  · obtain ⟨w, hw, hwk, hwb, hwe⟩ := h.evRec ev hev
    rw [hk, hc] at hwk
    have hov : overwrittenBy ws k w rb = none := not_overwritten h hwe hfresh
    have hwlt : w.b < re := by omega
    cases x with
    | none =>
      have hd : (ws.any fun d => d.isDel && d.writesKey k && decide (d.b < re) && (overwrittenBy ws k d rb).isNone) = true := by
        apply List.any_eq_true.mpr
        refine ⟨w, hw, ?_⟩
        rw [hov]
        simp only [ORec.isDel, ORec.writesKey, hwk, cellKind]
        simp [hwlt]
      simp only [judgeRead, hd]
      simp
    | some v =>
      simp only [cellKind] at hwk
      unfold judgeRead
      simp only []
      split
      · rename_i hf
        have := List.find?_eq_none.mp hf w hw
        rw [hwk] at this
        simp at this
      · rename_i w0 hf
        have hp := List.find?_some hf
        have hm := List.mem_of_find?_eq_some hf
        have hk0 : ∃ k', w0.kind = .put k' v := by
          cases hk0 : w0.kind with
          | put k' v' =>
            rw [hk0] at hp
            simp only [Bool.and_eq_true, beq_iff_eq] at hp
            exact ⟨k', by rw [hp.2]⟩
          | _ => rw [hk0] at hp; cases hp
        obtain ⟨k', hk0⟩ := hk0
        have : w = w0 := h.putUniq w hw w0 hm k k' v hwk hk0
        subst this
        rw [hov]
        simp [hwlt]

/-! ### observations of a run -/

/-- the record of one frame (the body of `obsOf`) -/
def recOf (ops : List (Nat × OKind)) (f : Frame) : Option ORec :=
  match f.b, ops.lookup f.id with
  | some b, some kind =>
    some { id := f.id, kind := kind, b := b, e := f.e,
           got := match f.pc with | .done (.val c) => c | _ => none,
           rows := match f.pc with | .done (.rows d) => d | _ => [] }
  | _, _ => none

theorem obsOf_eq (ops : List (Nat × OKind)) (y : Sys) : obsOf ops y = y.frames.filterMap (recOf ops) := rfl

theorem recOf_some {ops : List (Nat × OKind)} {f : Frame} {w : ORec} (h : recOf ops f = some w) :
    f.b = some w.b ∧ ops.lookup f.id = some w.kind ∧ w.id = f.id ∧ w.e = f.e ∧
    w.got = (match f.pc with | .done (.val c) => c | _ => none) ∧
    w.rows = (match f.pc with | .done (.rows d) => d | _ => []) := by
  unfold recOf at h
  split at h
  · rename_i b kind hb hk
    injection h with h; subst h
    exact ⟨hb, hk, rfl, rfl, rfl, rfl⟩
  · cases h

theorem recOf_of {ops : List (Nat × OKind)} {f : Frame} {b : Nat} {kind : OKind} (hb : f.b = some b)
    (hk : ops.lookup f.id = some kind) :
    ∃ w, recOf ops f = some w ∧ w.kind = kind ∧ w.b = b ∧ w.e = f.e := by
  unfold recOf
  rw [hb, hk]
  exact ⟨_, rfl, rfl, rfl, rfl⟩

theorem startPc_cellKind (k : Key) (c : Cell) : Driver.startPc (cellKind k c) = .pStart k c := by
  cases c <;> rfl

theorem cellKind_of_startPc {kind : OKind} {k : Key} {c : Cell} (h : Driver.startPc kind = .pStart k c) :
    kind = cellKind k c := by
  cases kind with
  | put k' v => simp only [Driver.startPc] at h; injection h with h1 h2; subst h1; subst h2; rfl
  | del k' => simp only [Driver.startPc] at h; injection h with h1 h2; subst h1; subst h2; rfl
  | get k' => cases h
  | scan lo hi => cases h

theorem startFor_of_lookup {ops : List (Nat × OKind)} {id : Nat} {kind : OKind} (h : ops.lookup id = some kind) :
    startFor ops id = Driver.startPc kind := by
  unfold startFor; rw [h]

theorem lookup_of_startFor {ops : List (Nat × OKind)} {id : Nat} {k : Key} {c : Cell}
    (h : startFor ops id = .pStart k c) : ops.lookup id = some (cellKind k c) := by
  unfold startFor at h
  cases hl : ops.lookup id with
  | none => rw [hl] at h; cases h
  | some kind => rw [hl] at h; rw [cellKind_of_startPc h]

theorem writesKey_start {kind : OKind} {k : Key} (h : (match kind with | .put k' _ => k' == k | .del k' => k' == k | _ => false) = true) :
    ∃ c, Driver.startPc kind = .pStart k c := by
  cases kind with
  | put k' v => have : k' = k := by simpa using h
                subst this; exact ⟨_, rfl⟩
  | del k' => have : k' = k := by simpa using h
              subst this; exact ⟨_, rfl⟩
  | get k' => cases h
  | scan lo hi => cases h

theorem applied_of_done {k : Key} {c : Cell} {pc : Pc} (hc : PcCons (.pStart k c) pc) (hd : pc.isDone = true) :
    pc.applied = true := by
  simp only [PcCons] at hc
  rcases hc with rfl | ⟨q, rfl⟩ | ⟨q, rfl⟩ | ha
  · cases hd
  · cases hd
  · cases hd
  · exact ha

/-- every event belongs to a started write frame that brackets it -/
theorem ev_frame {cfg : Cfg} {start : Nat → Pc} {y : Sys} {log : List Ev} (hL : LInv cfg start y log) {ev : Ev}
    (hev : ev ∈ log) :
    ∃ f ∈ y.frames, f.id = ev.id ∧ start f.id = .pStart ev.key ev.cell ∧
      ∃ b, f.b = some b ∧ b ≤ ev.n ∧ ∀ e, f.e = some e → ev.n ≤ e := by
  obtain ⟨f, hf, hid, hst⟩ := hL.evFrame ev hev
  have hF := hL.frames f hf
  cases ha : f.pc.applied with
  | false => exact absurd hid.symm (hF.noEv ha ev hev)
  | true =>
    obtain ⟨ev', hev', e1, _, _, ⟨b, hb, hbe⟩, e5, _⟩ := hF.hasEv ha ev.key ev.cell hst
    have : ev' = ev := eq_of_nodup_map (·.id) hL.evIds ev' hev' ev hev (by rw [e1, hid])
    subst this
    exact ⟨f, hf, hid, hst, b, hb, hbe, e5⟩

theorem wsOk_of_linv {cfg : Cfg} {ops : List (Nat × OKind)} {y : Sys} {log : List Ev}
    (hd : DistinctPuts ops) (hL : LInv cfg (startFor ops) y log) : WsOk log (writesOf (obsOf ops y)) := by
  have hmem : ∀ w, w ∈ writesOf (obsOf ops y) → ∃ f ∈ y.frames, recOf ops f = some w := by
    intro w hw
    unfold writesOf at hw
    have := (List.mem_filter.mp hw).1
    rw [obsOf_eq] at this
    exact List.mem_filterMap.mp this
  refine ⟨?_, ?_, ?_⟩
  · intro ev hev
    obtain ⟨f, hf, _, hst, b, hb, hbe, hfe⟩ := ev_frame hL hev
    obtain ⟨w, hw, hwk, hwb, hwe⟩ := recOf_of hb (lookup_of_startFor hst)
    refine ⟨w, ?_, hwk, by omega, fun e he => hfe e (by rw [← hwe]; exact he)⟩
    unfold writesOf
    refine List.mem_filter.mpr ⟨?_, ?_⟩
    · rw [obsOf_eq]; exact List.mem_filterMap.mpr ⟨f, hf, hw⟩
    · rw [hwk]; cases ev.cell <;> rfl
  · intro w1 hw1 w2 hw2 k k' v hk1 hk2
    obtain ⟨f1, hf1, hr1⟩ := hmem w1 hw1
    obtain ⟨f2, hf2, hr2⟩ := hmem w2 hw2
    have hl1 := (recOf_some hr1).2.1
    have hl2 := (recOf_some hr2).2.1
    rw [hk1] at hl1
    rw [hk2] at hl2
    have := eq_of_nodup_filterMap (fun o : Nat × OKind => match o.2 with | .put _ v => some v | _ => none) hd.2
      _ (mem_of_lookup hl1) _ (mem_of_lookup hl2) v rfl rfl
    have hid : f1.id = f2.id := congrArg Prod.fst this
    have hff : f1 = f2 := eq_of_nodup_map (·.id) hL.ids f1 hf1 f2 hf2 hid
    subst hff
    rw [hr1] at hr2
    injection hr2
  · intro w hw k hwk e hwe
    obtain ⟨f, hf, hr⟩ := hmem w hw
    obtain ⟨hb, hl, _, he, _, _⟩ := recOf_some hr
    have hF := hL.frames f hf
    unfold ORec.writesKey at hwk
    obtain ⟨c, hc⟩ := writesKey_start hwk
    have hst : startFor ops f.id = .pStart k c := by rw [startFor_of_lookup hl, hc]
    rw [he] at hwe
    have hdone := (hF.ended e hwe).1
    have hcons := hF.cons
    rw [hst] at hcons
    obtain ⟨ev, hev, _, e2, _, ⟨b, hb', hbe⟩, e5, _⟩ := hF.hasEv (applied_of_done hcons hdone) k c hst
    rw [hb] at hb'
    injection hb' with hb'
    exact ⟨ev, hev, e2, by omega, e5 e hwe⟩

/-! ### the judge accepts -/

theorem judgeOpP_ok {cfg : Cfg} {ops : List (Nat × OKind)} {y : Sys} {log : List Ev} (pfx : String) (nkeys : Nat)
    (hd : DistinctPuts ops) (hL : LInv cfg (startFor ops) y log) (hR : ReadFacts (startFor ops) y log)
    {o : ORec} (ho : o ∈ obsOf ops y) : judgeOpP pfx (writesOf (obsOf ops y)) nkeys o = none := by
  have hws := wsOk_of_linv hd hL
  rw [obsOf_eq] at ho
  obtain ⟨f, hf, hr⟩ := List.mem_filterMap.mp ho
  obtain ⟨hb, hl, _, he, hgot, hrows⟩ := recOf_some hr
  have hF := hL.frames f hf
  unfold judgeOpP
  split
  · rename_i k e hk hoe
    rw [hk] at hl
    have hst : startFor ops f.id = .gStart k := startFor_of_lookup hl
    rw [he] at hoe
    obtain ⟨hdone, _, b, hb', hbe⟩ := hF.ended e hoe
    rw [hb] at hb'
    injection hb' with hb'
    have hcons := hF.cons
    rw [hst] at hcons
    simp only [PcCons] at hcons
    rcases hcons with hpc | ⟨i, t, r, hpc⟩ | ⟨c, hpc⟩
    · rw [hpc] at hdone; cases hdone
    · rw [hpc] at hdone; cases hdone
    · rw [hpc] at hgot
      have hgot' : o.got = c := hgot
      have := hR.getRes f hf k c hst hpc o.b e hb hoe
      rw [hgot', judgeRead_ok hws hL.sortedN (by omega) this]
      rfl
  · rename_i lo hi e hk hoe
    rw [hk] at hl
    have hst : startFor ops f.id = .sStart lo hi := startFor_of_lookup hl
    rw [he] at hoe
    obtain ⟨hdone, _, b, hb', hbe⟩ := hF.ended e hoe
    rw [hb] at hb'
    injection hb' with hb'
    have hcons := hF.cons
    rw [hst] at hcons
    simp only [PcCons] at hcons
    rcases hcons with hpc | ⟨i, t, r, acc, hpc⟩ | ⟨d, hpc⟩
    · rw [hpc] at hdone; cases hdone
    · rw [hpc] at hdone; cases hdone
    · rw [hpc] at hrows
      have hrows' : o.rows = d := hrows
      obtain ⟨h1, h2, h3⟩ := hR.scanRes f hf lo hi d hst hpc o.b e hb hoe
      rw [hrows']
      have hany : (d.any fun r => !(decide (lo ≤ r.1) && decide (r.1 < hi))) = false := by
        apply List.any_eq_false.mpr
        intro r hr
        have := h2 r hr
        simp [this.1, this.2]
      rw [h1, hany]
      simp only [Bool.not_true, Bool.false_eq_true, if_false]
      apply List.findSome?_eq_none_iff.mpr
      intro k _
      split
      · rename_i hc
        simp only [Bool.and_eq_true, decide_eq_true_eq] at hc
        rw [judgeRead_ok hws hL.sortedN (by omega) (h3 k hc.1 hc.2)]
        rfl
      · rfl
  · rfl

theorem judge_of_facts (cfg : Cfg) (nkeys : Nat) (ops : List (Nat × OKind)) (y : Sys) (log : List Ev)
    (hd : DistinctPuts ops) (hL : LInv cfg (startFor ops) y log) (hR : ReadFacts (startFor ops) y log) :
    judgeOps (obsOf ops y) nkeys = none := by
  unfold judgeOps judgeOpsP
  apply List.findSome?_eq_none_iff.mpr
  intro o ho
  rw [judgeOpP_ok "lsm" nkeys hd hL hR ho]
  rfl

end HappyModel.C14
