import HappyProofs.C14.TxnLMachD
/-!
# Transactions at run level, part E: later segments and idle schedule positions preserve `RInv`
-/
namespace HappyModel.C14.SM.LM
open HappyModel.C14 HappyModel.C14.BT

variable {ok : Store → Prop} {init : Key → Option Nat} {ops : List (Nat × TOp)} {tm : TM}
  {fs fs' : List (Frame TPc)} {n : Nat} {tlog : List (Nat × Ev)}

/-- a schedule position that runs nothing (unknown id, or the operation is already done) -/
theorem RInv.idle (R : RInv ok init ops tm fs n tlog) : RInv ok init ops tm fs (n + 1) tlog :=
  { R with
    tlt := fun x hx => Nat.lt_succ_of_lt (R.tlt x hx)
    frames := fun i g x hg hx => (R.frames i g x hg hx).mono (TMle.refl tm) (fun _ h => h) (Nat.le_succ n) }

theorem RInv.later (R : RInv ok init ops tm fs n tlog) (hwf : WFProg ops)
    {id b : Nat} {op : TOp} {f : Frame TPc} {pc' : TPc} {evs : List Ev}
    (hlk : ops.lookup id = some op) (hf : frameOf fs id = some f) (hb : f.b = some b)
    (hnd : f.pc.isDone = false) (E : Eff2 ok init ops tm tlog n id b op f pc' evs)
    (hfs : ∀ id', frameOf fs' id' = if id' = id then some (Frame.next TPc.isDone f n pc') else frameOf fs id')
    (hids : fs'.map (·.id) = fs.map (·.id)) :
    RInv ok init ops tm fs' (n + 1) (tlog ++ evs.map fun e => (n, e)) := by
  have hf'b : (Frame.next TPc.isDone f n pc').b = some b := by simp [Frame.next, hb]
  have hself : frameOf fs' id = some (Frame.next TPc.isDone f n pc') := by rw [hfs, if_pos rfl]
  have hoth : ∀ i, i ≠ id → frameOf fs' i = frameOf fs i := fun i hi => by rw [hfs, if_neg hi]
  have hst : ∀ i, startedIn fs' i = startedIn fs i := fun i => by
    by_cases h : i = id
    · rw [h, startedIn_of hself hf'b, startedIn_of hf hb]
    · simp only [startedIn, hoth i h]
  have hsub : ∀ x ∈ tlog, x ∈ tlog ++ evs.map fun e => (n, e) := fun x hx => List.mem_append_left _ hx
  have hblt : b < n := (R.frames id f op hf hlk).blt b hb
  obtain ⟨T1, T2⟩ := times_snoc R.times R.tlt E.one
  refine
    { inv := by rw [log_map_snd]; exact E.inv
      inv2 := by rw [log_map_snd]; exact E.inv2
      times := T1
      tlt := T2
      ids := by rw [hids]; exact R.ids
      frames := fun i g x hg hx => ?_
      seq := fun pre1 o1 post1 f1 b1 hsp1 hf1 hb1 a ha hs => ?_
      front := fun pre1 o1 post1 hsp1 hns1 hpre1 => ?_
      stat := fun s tx htx hna => ?_
      hasB := fun s tx htx => ?_
      cev := fun m s w hm => ?_ }
  · by_cases hi : i = id
    · subst hi
      rw [hself] at hg
      cases hg
      rw [hlk] at hx
      cases hx
      refine ⟨fun h => ?_, fun b' h => ?_, fun b' h hd => ?_, fun b' h => ?_⟩
      · rw [hf'b] at h; cases h
      · rw [hf'b] at h; cases h; exact Nat.lt_succ_of_lt hblt
      · rw [hf'b] at h; cases h
        have hd' : pc'.isDone = true := hd
        exact ⟨n, by simp [Frame.next, hd'], Nat.le_of_lt hblt, Nat.lt_succ_self _⟩
      · rw [hf'b] at h; cases h
        exact E.pc _ rfl rfl
    · rw [hoth i hi] at hg
      exact (R.frames i g x hg hx).mono (TMle.refl tm) hsub (Nat.le_succ n)
  · have hnd1 : ((pre1 ++ o1 :: post1).map (·.1)).Nodup := hsp1 ▸ hwf.ids
    by_cases hi : o1.1 = id
    · rw [hi, hself] at hf1
      cases hf1
      rw [hf'b] at hb1
      cases hb1
      obtain ⟨g, e, hg, hd, he, hlt⟩ := R.seq pre1 o1 post1 f b hsp1 (hi ▸ hf) hb a ha hs
      have hne : a.1 ≠ id := fun h => (split_notin hnd1).1 a ha (h.trans hi.symm)
      exact ⟨g, e, by rw [hoth _ hne]; exact hg, hd, he, hlt⟩
    · rw [hoth _ hi] at hf1
      obtain ⟨g, e, hg, hd, he, hlt⟩ := R.seq pre1 o1 post1 f1 b1 hsp1 hf1 hb1 a ha hs
      have hne : a.1 ≠ id := fun h => by
        rw [h, hf] at hg
        cases hg
        rw [hnd] at hd
        cases hd
      exact ⟨g, e, by rw [hoth _ hne]; exact hg, hd, he, hlt⟩
  · rw [hst] at hns1
    exact R.front pre1 o1 post1 hsp1 hns1 fun a ha hsa => by rw [← hst]; exact hpre1 a ha hsa
  · obtain ⟨o, h1, h2, h3, h4⟩ := R.stat s tx htx hna
    exact ⟨o, h1, h2, h3, by rw [hst]; exact h4⟩
  · obtain ⟨o, h1, h2, h3, h4⟩ := R.hasB s tx htx
    exact ⟨o, h1, h2, h3, by rw [hst]; exact h4⟩
  · rcases List.mem_append.1 hm with hm | hm
    · obtain ⟨i, g, h1, h2, h3, h4, h5⟩ := R.cev m s w hm
      by_cases hi : i = id
      · subst hi
        rw [hf] at h1
        cases h1
        rcases h4 with h4 | h4
        · refine ⟨i, _, hself, h2, ?_, .inr (by simp [Frame.next, E.keep h4]), h5⟩
          rw [hf'b, ← h3, hb]
        · rw [h4] at hnd
          cases hnd
      · exact ⟨i, g, by rw [hoth _ hi]; exact h1, h2, h3, h4, h5⟩
    · obtain ⟨_, hev⟩ := mem_tag hm
      exact absurd hev (E.cev s w)

/-- a read that is still inside the store's `get` belongs to an active transaction -/
theorem RInv.inflight (R : RInv ok init ops tm fs n tlog) (hwf : WFProg ops) {id b s : Nat} {k : Key}
    {f : Frame TPc} (hlk : ops.lookup id = some (.read s k)) (hf : frameOf fs id = some f) (hb : f.b = some b)
    (hnd : f.pc.isDone = false) :
    ∃ (j : SPc) (tx : Tx), f.pc = .rd s k j ∧ (wsetBefore ops id s).lookup k = none ∧
      tm.tx? s = some tx ∧ tx.stat = .active ∧ k ∈ tx.rset := by
  have K := (R.frames id f _ hf hlk).kind b hb
  rcases K with ⟨j, h1, h2, tx, h3, h4⟩ | ⟨c, h1, _⟩
  · refine ⟨j, tx, h1, h2, h3, ?_, h4⟩
    cases hst : tx.stat with
    | active => rfl
    | _ =>
      all_goals
        exfalso
        obtain ⟨eo, heo, he1, he2, he3⟩ := R.stat s tx h3 (by rw [hst]; intro h; cases h)
        obtain ⟨pre, post, hsp⟩ := lookup_split hlk
        have hord := hwf.order
        rw [hsp] at hord
        obtain ⟨ord1, _⟩ := pairwise_split hord
        have hin : eo ∈ pre ∨ eo = (id, .read s k) ∨ eo ∈ post := by
          rw [hsp] at heo
          simpa using heo
        rcases hin with h | h | h
        · have := (ord1 eo h he1).2
          rw [this] at he2; cases he2
        · rw [h] at he2; cases he2
        · obtain ⟨g, b', hg, hgb⟩ := startedIn_frame he3
          obtain ⟨q1, q2, hq⟩ := List.append_of_mem h
          have hsp2 : ops = (pre ++ (id, .read s k) :: q1) ++ eo :: q2 := by rw [hsp, hq]; simp
          obtain ⟨g0, e, g1, g2, _⟩ := R.seq _ eo _ g b' hsp2 hg hgb (id, .read s k) (by simp) he1.symm
          rw [hf] at g1
          cases g1
          rw [hnd] at g2
          cases g2
  · rw [h1] at hnd
    cases hnd

end HappyModel.C14.SM.LM
