import HappyProofs.C14.LsmBook
/-! The bookkeeping invariant holds initially and along every in-order run. -/
namespace HappyModel.C14

/-- the program counter an operation id started with -/
def startOf (frames : List Frame) (id : Nat) : Pc :=
  match frames.find? (fun f => f.id == id) with
  | some f => f.pc
  | none => .done .ok

theorem startOf_mem {frames : List Frame} (hn : (frames.map (·.id)).Nodup) {f : Frame} (hf : f ∈ frames) :
    startOf frames f.id = f.pc := by
  induction frames with
  | nil => cases hf
  | cons g r ih =>
    simp only [List.map_cons, List.nodup_cons] at hn
    unfold startOf
    simp only [List.find?_cons]
    rcases List.mem_cons.mp hf with rfl | hf'
    · simp
    · have : (g.id == f.id) = false := by
        simp only [beq_eq_false_iff_ne, ne_eq]
        intro e
        exact hn.1 (e ▸ List.mem_map_of_mem hf')
      simp only [this]
      exact ih hn.2 hf'

theorem lookLevels_replicate_nil (k : Key) (n : Nat) : lookLevels k (List.replicate n []) = none := by
  induction n with
  | zero => rfl
  | succ n ih => simp [List.replicate_succ, lookLevels_cons, ih, lookTabs_nil]

theorem pcCons_self {pc : Pc} (h : pc.isStart = true) : PcCons pc pc := by
  cases pc <;> simp [Pc.isStart] at h <;> simp [PcCons]

theorem linv_init {cfg : Cfg} {y : Sys} (h : InitSys cfg y) (h2 : 2 ≤ cfg.maxLevels) (hn : (y.frames.map (·.id)).Nodup)
    (start : Nat → Pc) (hstart : ∀ f ∈ y.frames, start f.id = f.pc) : LInv cfg start y [] := by
  refine ⟨sysInv_init h h2, hn, ?_, ?_, ?_, fun e he => (by cases he), fun e he => (by cases he), List.Pairwise.nil, List.nodup_nil⟩
  · intro f hf
    obtain ⟨hs, hb, he⟩ := h.frames f hf
    have hst := hstart f hf
    obtain ⟨d1, d2, d3⟩ := isStart_not_done hs
    refine ⟨(by rw [hst]; exact pcCons_self hs), fun _ => ⟨hst.symm, he⟩, fun b hb' => (by rw [hb] at hb'; cases hb'),
      fun e he' => (by rw [he] at he'; cases he'), fun hd => (by rw [d1] at hd; cases hd), fun _ e he' => (by cases he'),
      fun ha => (by rw [d2] at ha; cases ha), fun q hq => (by rw [d3] at hq; cases hq)⟩
  · intro f hf
    rw [hstart f hf]; exact (h.frames f hf).1
  · intro k
    obtain ⟨oracle, hst⟩ := h.st
    rw [hst]
    simp [St.abs, St.read, St.init, lookTabs_nil, lookLevels_replicate_nil, firstOn, List.lookup]

theorem linv_run {cfg : Cfg} {start : Nat → Pc} (sched : List Nat) (y : Sys) (log : List Ev)
    (h : LInv cfg start y log) (ho : InOrder cfg y sched) : LInv cfg start (y.run cfg sched) (logRun cfg y log sched) :=
  grun_induct (LInv cfg start) (fun _ _ id h hh => linv_step h id hh) sched y log h ho

end HappyModel.C14
