import HappyProofs.C14.TxnLsmJ2
import HappyProofs.C14.LsmBookRun
import HappyProofs.C14.TxnMach
/-!
# C14 — `txn_trace_satisfies_spec_lsm`: transactions over an `LSMTree`, reads suspended across commits

For every program of SNAPSHOT_ISOLATION / SERIALIZABLE transactions (`WFProg`, `NoRC`), every initial contents, an
LSM tree without WAL with ≥ 2 levels (any compaction strategy, any bloom-filter table) and every schedule with
`SlotSeq` and `Quiesced`, the judge `judgeTxn` accepts the model's transcript — including reads whose `get` generator
is suspended at SSTable page reads while other transactions commit (memtable inserts, flushes and compactions of
`put_sync` in between).  The side invariant is `LJ`: the store is quiescent between segments (`lsmOk`), no
transaction is READ_COMMITTED, and every in-flight read carries the reader invariant `RB` whose allowed cells are
those as good as the current value for the reader's snapshot (`SV`).
-/
namespace HappyModel.C14.SM.LM
open HappyModel.C14 HappyModel.C14.SM HappyModel.C14.BT HappyModel.C14.TxSpec

theorem abs_init (cfg : Cfg) (k : Key) : (St.init cfg).abs k = none := by
  simp [St.abs, St.read, St.init, lookTabs_nil, lookLevels_replicate_nil, List.lookup]

theorem lj_init (s0 : Store) (h0 : lsmOk s0) (ops : List (Nat × TOp)) : LJ { store := s0 } (framesOfT ops) := by
  refine ⟨h0, fun s tx h => by simp [TM.tx?] at h, ?_⟩
  intro id f hf s k p hp
  obtain ⟨o, _, rfl⟩ := List.mem_map.mp (frameOf_mem hf)
  cases hp

theorem txn_trace_satisfies_spec_lsm (cfg : Cfg) (hw : cfg.wal = none) (h2 : 2 ≤ cfg.maxLevels)
    (initKV : List (Key × Nat)) (nkeys : Nat) (ops : List (Nat × TOp)) (sched : List Nat)
    (hwf : WFProg ops) (hnr : NoRC ops)
    (hseq : SlotSeq ops { store := initKV.foldl (fun s e => s.putSync e.1 e.2) (.lsm cfg (St.init cfg)) } sched)
    (hq : Quiesced (runFrames stepT TPc.isDone
      { store := initKV.foldl (fun s e => s.putSync e.1 e.2) (.lsm cfg (St.init cfg)) } (framesOfT ops) 0 sched).2) :
    judgeTxn (initKV.foldl (fun s e => setKey e.1 e.2 s) []) nkeys
      ((List.range nkeys).map (runFrames stepT TPc.isDone
        { store := initKV.foldl (fun s e => s.putSync e.1 e.2) (.lsm cfg (St.init cfg)) } (framesOfT ops) 0 sched).1.store.getSync)
      (tobsOf ops (runFrames stepT TPc.isDone
        { store := initKV.foldl (fun s e => s.putSync e.1 e.2) (.lsm cfg (St.init cfg)) } (framesOfT ops) 0 sched).2) = none :=
  txn_trace_satisfies_spec_side lsmOk lsm_laws.1 lsm_laws.2 (.lsm cfg (St.init cfg)) (lsmOk_init cfg hw h2)
    (fun k => abs_init cfg k) initKV nkeys ops sched hwf hseq LJ
    (fun _ _ hJ => lj_fetch1 hJ)
    (fun _ _ hJ id f hf s k p hp r h => lj_fetch2 hJ id f hf s k p hp r h)
    (fun _ _ _ _ id R hJ hs => lj_step hwf hnr id R hJ hs)
    (lj_init _ (lsmOk_built cfg hw h2 initKV) ops) hq

/-! ### non-vacuity: memtable of one entry, two levels, size-tiered compaction; the reader's `get` of key 0 is
    suspended at a page read of an SSTable while the writer's commit inserts, flushes and compacts -/

def lsCfg : Cfg := { memSize := 1, maxLevels := 2, strat := .sizeTiered 2 }

def lsOps : List (Nat × TOp) :=
  [(1, .begin 0 .si), (2, .begin 1 .ser), (3, .read 0 0), (4, .write 1 0 99), (5, .write 1 1 98), (6, .commit 1),
   (7, .read 0 1), (8, .commit 0)]

def lsSched : List Nat := [1, 1, 2, 2, 3, 4, 4, 5, 5, 6, 6, 3, 3, 3, 7, 7, 7, 7, 8, 8]

def lsInit : List (Key × Nat) := [(0, 10), (1, 11), (2, 12)]

def lsTm : TM := { store := lsInit.foldl (fun s e => s.putSync e.1 e.2) (.lsm lsCfg (St.init lsCfg)) }

example : lsCfg.wal = none ∧ 2 ≤ lsCfg.maxLevels := ⟨rfl, by decide⟩

example : WFProg lsOps := ⟨by decide, by decide, by decide⟩

example : NoRC lsOps := by
  intro o ho s
  simp only [lsOps, List.mem_cons, List.mem_nil_iff, or_false] at ho
  rcases ho with rfl | rfl | rfl | rfl | rfl | rfl | rfl | rfl <;> intro h <;> cases h

example : slotSeqB lsOps lsTm lsSched = true := by decide

/-- every operation completed; the reader's `get` of key 0 ran over segments 4–11 (suspended at a page read),
    across the writer's commit at segment 9, and returned the snapshot value 10, as did its later read of key 1 -/
example :
    (runFrames stepT TPc.isDone lsTm (framesOfT lsOps) 0 lsSched).2.all (fun f => f.pc.isDone) = true ∧
    (runFrames stepT TPc.isDone lsTm (framesOfT lsOps) 0 lsSched).2.map (fun f => (f.id, f.b, f.e)) =
      [(1, some 0, some 1), (2, some 2, some 3), (3, some 4, some 11), (4, some 5, some 6), (5, some 7, some 8),
       (6, some 9, some 10), (7, some 14, some 15), (8, some 18, some 19)] ∧
    (tobsOf lsOps (runFrames stepT TPc.isDone lsTm (framesOfT lsOps) 0 lsSched).2).map (·.ext) =
      [[(0, some 10, 11), (1, some 11, 15)], []] ∧
    (List.range 3).map (runFrames stepT TPc.isDone lsTm (framesOfT lsOps) 0 lsSched).1.store.getSync =
      [some 99, some 98, some 12] := by
  refine ⟨by decide, by decide, by decide, by decide⟩

end HappyModel.C14.SM.LM
