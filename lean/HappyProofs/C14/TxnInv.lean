import HappyProofs.C14.TxnBase
/-!
# Transaction manager, part 2: the invariant behind commit-order serializability

`Inv ok init tm evs`: `tm` is a manager state reached with ghost events `evs` from a store whose
abstract map was `init`.  One preservation lemma per kind of step (`frame`: a transaction record is
updated and nothing else, `fetch`, `begin`, `commit`), then `Inv.step` / `Inv.run`.
-/
namespace HappyModel.C14.SM
open HappyModel.C14 HappyModel.C14.BT

structure Inv (ok : Store → Prop) (init : Key → Option Nat) (tm : TM) (evs : List Ev) : Prop where
  store_eq : ∀ k, tm.store.getSync k = replay init evs k
  store_ok : ok tm.store
  snap_le : ∀ s tx, tm.tx? s = some tx → tx.snap ≤ tm.version
  id_lt : ∀ s tx, tm.tx? s = some tx → tx.id < tm.nextId
  id_inj : ∀ s1 s2 t1 t2, tm.tx? s1 = some t1 → tm.tx? s2 = some t2 → t1.id = t2.id → s1 = s2
  log_id_lt : ∀ e ∈ tm.log, e.txid < tm.nextId
  /-- commit-log entries belong to finished transactions -/
  log_txid : ∀ e ∈ tm.log, ∀ s tx, tm.tx? s = some tx → tx.stat = .active → e.txid ≠ tx.id
  ev_slot : ∀ e ∈ evs, (tm.tx? e.slot).isSome
  /-- a value fetched by a still active transaction is current, or a later commit wrote the key -/
  fetched : ∀ s k val, Ev.fetched s k val ∈ evs → ∀ tx, tm.tx? s = some tx → tx.stat = .active →
    k ∈ tx.rset ∧ (val = tm.store.getSync k ∨ ∃ e ∈ tm.log, tx.snap < e.version ∧ k ∈ e.wkeys)
  /-- the claim: reads of a committed SERIALIZABLE transaction see the serial state at its commit -/
  comm : ∀ pre post s w, evs = pre ++ Ev.committed s w :: post → ∀ tx, tm.tx? s = some tx →
    tx.level = .ser → ∀ k val, Ev.fetched s k val ∈ pre → val = replay init pre k

/-- every transaction of `tm'` continues one of `tm`: same identity, at least its reads, not revived -/
structure Sim (tm tm' : TM) : Prop where
  back : ∀ s t, tm'.tx? s = some t → ∃ t0, tm.tx? s = some t0 ∧ t.id = t0.id ∧ t.level = t0.level ∧
    t.snap = t0.snap ∧ (t.stat = .active → t0.stat = .active) ∧ ∀ k ∈ t0.rset, k ∈ t.rset
  fwd : ∀ s, (tm.tx? s).isSome → (tm'.tx? s).isSome

theorem sim_of_upd {tm tm' : TM} {slot : Nat} {tx tx' : Tx} (hx : tm.tx? slot = some tx)
    (htx : ∀ s, tm'.tx? s = if s = slot then some tx' else tm.tx? s)
    (hid : tx'.id = tx.id) (hl : tx'.level = tx.level) (hs : tx'.snap = tx.snap)
    (hst : tx'.stat = .active → tx.stat = .active) (hr : ∀ k ∈ tx.rset, k ∈ tx'.rset) : Sim tm tm' := by
  constructor
  · intro s t h
    rw [htx] at h
    by_cases hs' : s = slot
    · subst hs'
      simp only [if_true, Option.some.injEq] at h
      subst h
      exact ⟨tx, hx, hid, hl, hs, hst, hr⟩
    · simp only [hs', if_false] at h
      exact ⟨t, h, rfl, rfl, rfl, fun h => h, fun _ h => h⟩
  · intro s h
    rw [htx]
    by_cases hs' : s = slot
    · simp [hs']
    · simpa [hs'] using h

theorem split_snoc {α : Type} {evs pre post : List α} {x y : α} (h : evs ++ [y] = pre ++ x :: post) :
    (post = [] ∧ evs = pre ∧ y = x) ∨ ∃ post', post = post' ++ [y] ∧ evs = pre ++ x :: post' := by
  rcases List.eq_nil_or_concat post with rfl | ⟨L, b, hL⟩
  · have := List.append_inj' h rfl
    simp only [List.cons.injEq, and_true] at this
    exact .inl ⟨rfl, this.1, this.2⟩
  · rw [List.concat_eq_append] at hL
    subst hL
    have h' : evs ++ [y] = (pre ++ x :: L) ++ [b] := by simpa using h
    have := List.append_inj' h' rfl
    simp only [List.cons.injEq, and_true] at this
    exact .inr ⟨L, by rw [this.2], this.1⟩

variable {ok : Store → Prop} {init : Key → Option Nat} {tm tm' : TM} {evs : List Ev}

/-- only transaction records change -/
theorem Inv.frame (h : Inv ok init tm evs) (sim : Sim tm tm') (hst : tm'.store = tm.store)
    (hv : tm'.version = tm.version) (hlog : tm'.log = tm.log) (hn : tm'.nextId = tm.nextId) :
    Inv ok init tm' evs where
  store_eq := by rw [hst]; exact h.store_eq
  store_ok := by rw [hst]; exact h.store_ok
  snap_le s t ht := by
    obtain ⟨t0, h0, _, _, h3, _⟩ := sim.back s t ht
    rw [hv, h3]; exact h.snap_le s t0 h0
  id_lt s t ht := by
    obtain ⟨t0, h0, h1, _⟩ := sim.back s t ht
    rw [hn, h1]; exact h.id_lt s t0 h0
  id_inj s1 s2 t1 t2 h1 h2 he := by
    obtain ⟨a, ha, ha1, _⟩ := sim.back s1 t1 h1
    obtain ⟨b, hb, hb1, _⟩ := sim.back s2 t2 h2
    exact h.id_inj s1 s2 a b ha hb (by omega)
  log_id_lt := by rw [hlog, hn]; exact h.log_id_lt
  log_txid e he s t ht hact := by
    obtain ⟨t0, h0, h1, _, _, h4, _⟩ := sim.back s t ht
    rw [h1]; exact h.log_txid e (hlog ▸ he) s t0 h0 (h4 hact)
  ev_slot e he := sim.fwd _ (h.ev_slot e he)
  fetched s k val hf t ht hact := by
    obtain ⟨t0, h0, _, _, h3, h4, h5⟩ := sim.back s t ht
    obtain ⟨g1, g2⟩ := h.fetched s k val hf t0 h0 (h4 hact)
    rw [hst, hlog, h3]
    exact ⟨h5 k g1, g2⟩
  comm pre post s w hd t ht hl := by
    obtain ⟨t0, h0, _, h2, _⟩ := sim.back s t ht
    exact h.comm pre post s w hd t0 h0 (h2 ▸ hl)

theorem fetchVal_cases {tm : TM} {s : Nat} {tx : Tx} (hx : tm.tx? s = some tx) (k : Key) :
    fetchVal tm s k = tm.store.getSync k ∨ ∃ e ∈ tm.log, tx.snap < e.version ∧ k ∈ e.wkeys := by
  simp only [fetchVal, hx, TM.adjust]
  cases tx.level
  · exact .inl rfl
  · exact snapshotValue_cases _ _ _ _
  · exact snapshotValue_cases _ _ _ _

/-- a fetch: the state is unchanged, one `fetched` event is appended -/
theorem Inv.fetch (h : Inv ok init tm evs) {slot : Nat} {tx : Tx} {k : Key} (hx : tm.tx? slot = some tx)
    (hk : k ∈ tx.rset) : Inv ok init tm (evs ++ [.fetched slot k (fetchVal tm slot k)]) :=
  { h with
    store_eq := fun k => by rw [replay_append]; exact h.store_eq k
    ev_slot := fun e he => by
      rcases List.mem_append.1 he with he | he
      · exact h.ev_slot e he
      · simp only [List.mem_singleton] at he
        subst he
        simp [Ev.slot, hx]
    fetched := fun s k' val hf t ht hact => by
      rcases List.mem_append.1 hf with hf | hf
      · exact h.fetched s k' val hf t ht hact
      · simp only [List.mem_singleton, Ev.fetched.injEq] at hf
        obtain ⟨rfl, rfl, rfl⟩ := hf
        rw [hx] at ht
        cases ht
        exact ⟨hk, fetchVal_cases hx _⟩
    comm := fun pre post s w hd t ht hl => by
      rcases split_snoc hd with ⟨_, _, h3⟩ | ⟨post', _, h2⟩
      · cases h3
      · exact h.comm pre post' s w h2 t ht hl }

/-- `begin` of a fresh slot -/
theorem Inv.begin (h : Inv ok init tm evs) {slot : Nat} (lvl : Level) (hx : tm.tx? slot = none) :
    Inv ok init (tm.begin slot lvl) (evs ++ [.began slot]) := by
  have hst : (tm.begin slot lvl).store = tm.store := by simp [TM.begin, hx]
  have hv : (tm.begin slot lvl).version = tm.version := by simp [TM.begin, hx]
  have hlog : (tm.begin slot lvl).log = tm.log := by simp [TM.begin, hx]
  have hn : (tm.begin slot lvl).nextId = tm.nextId + 1 := by simp [TM.begin, hx]
  have htx := tx?_begin tm slot lvl hx
  have old : ∀ e ∈ evs, e.slot ≠ slot := fun e he hs => by
    have := h.ev_slot e he
    rw [hs, hx] at this
    cases this
  have back : ∀ s t, (tm.begin slot lvl).tx? s = some t →
      (s = slot ∧ t = { slot := slot, id := tm.nextId, level := lvl, snap := tm.version }) ∨
      (s ≠ slot ∧ tm.tx? s = some t) := by
    intro s t ht
    rw [htx] at ht
    by_cases hs : s = slot
    · simp only [hs, if_true, Option.some.injEq] at ht
      exact .inl ⟨hs, ht.symm⟩
    · simp only [hs, if_false] at ht
      exact .inr ⟨hs, ht⟩
  refine
    { store_eq := fun k => by rw [hst, replay_append]; exact h.store_eq k
      store_ok := by rw [hst]; exact h.store_ok
      snap_le := fun s t ht => ?_
      id_lt := fun s t ht => ?_
      id_inj := fun s1 s2 t1 t2 h1 h2 he => ?_
      log_id_lt := fun e he => by rw [hn]; have := h.log_id_lt e (hlog ▸ he); omega
      log_txid := fun e he s t ht hact => ?_
      ev_slot := fun e he => ?_
      fetched := fun s k val hf t ht hact => ?_
      comm := fun pre post s w hd t ht hl => ?_ }
  · rw [hv]
    rcases back s t ht with ⟨_, rfl⟩ | ⟨_, h0⟩
    · exact Nat.le_refl _
    · exact h.snap_le s t h0
  · rw [hn]
    rcases back s t ht with ⟨_, rfl⟩ | ⟨_, h0⟩
    · exact Nat.lt_succ_self _
    · have := h.id_lt s t h0; omega
  · rcases back s1 t1 h1 with ⟨e1, rfl⟩ | ⟨_, g1⟩ <;> rcases back s2 t2 h2 with ⟨e2, rfl⟩ | ⟨_, g2⟩
    · rw [e1, e2]
    · have := h.id_lt s2 t2 g2; simp only at he; omega
    · have := h.id_lt s1 t1 g1; simp only at he; omega
    · exact h.id_inj s1 s2 t1 t2 g1 g2 he
  · rw [hlog] at he
    rcases back s t ht with ⟨_, rfl⟩ | ⟨_, h0⟩
    · have := h.log_id_lt e he; simp only; omega
    · exact h.log_txid e he s t h0 hact
  · rw [htx]
    rcases List.mem_append.1 he with he | he
    · simp only [old e he, if_false]; exact h.ev_slot e he
    · simp only [List.mem_singleton] at he
      subst he
      simp [Ev.slot]
  · have hf : Ev.fetched s k val ∈ evs := by simpa using hf
    rcases back s t ht with ⟨hs, _⟩ | ⟨_, h0⟩
    · exact absurd hs (old _ hf)
    · rw [hst, hlog]; exact h.fetched s k val hf t h0 hact
  · rcases split_snoc hd with ⟨_, _, h3⟩ | ⟨post', _, h2⟩
    · cases h3
    · rcases back s t ht with ⟨hs, _⟩ | ⟨_, h0⟩
      · exact absurd hs (old (.committed s w) (by simp [h2]))
      · exact h.comm pre post' s w h2 t h0 hl

end HappyModel.C14.SM
