import HappyProofs.C14.LsmSys
/-! `SysInvB`: the structural invariant with the exclusivity clause weakened to `≤` (a crash does not reset
    `compacting`, and the frame that was compacting is abandoned). -/
namespace HappyModel.C14

structure SysInvB (cfg : Cfg) (y : Sys) : Prop where
  sinv : SInv cfg y.st
  pcs : ∀ f ∈ y.frames, POk cfg y.st f.pc
  excl : y.frames.countP (fun f => f.pc.isCompact) ≤ b2n y.st.compacting
  flushIds : (y.frames.filterMap (fun f => flushId f.pc)).Nodup

/-- two different frames of a system satisfying the invariant are compatible -/
theorem compat_of_invB {cfg : Cfg} {st : St} {pre post : List Frame} {f : Frame} {n : Nat}
    (h : SysInvB cfg ⟨st, pre ++ f :: post, n⟩) {g : Frame} (hg : g ∈ pre ∨ g ∈ post) : Compat f.pc g.pc := by
  have hex := h.excl
  have hfl := h.flushIds
  simp only [List.countP_append, List.countP_cons, List.filterMap_append, List.filterMap_cons] at hex hfl
  cases hf : f.pc <;> cases hgp : g.pc <;> simp only [Compat] <;> try trivial
  · rename_i t b t' b'
    rw [hf] at hfl
    simp only [flushId] at hfl
    have hmem : ∀ l : List Frame, g ∈ l → t'.id ∈ l.filterMap (fun f => flushId f.pc) := by
      intro l hl
      exact List.mem_filterMap.mpr ⟨g, hl, by rw [hgp]; rfl⟩
    have h' := List.nodup_append.mp hfl
    rcases hg with hg | hg
    · exact fun e => h'.2.2 _ (hmem pre hg) _ (List.mem_cons_self ..) e.symm
    · have := (List.nodup_cons.mp h'.2.1).1
      exact fun e => this (e ▸ hmem post hg)
  · rw [hf] at hex
    have hpos : ∀ l : List Frame, g ∈ l → 0 < l.countP (fun f => f.pc.isCompact) := by
      intro l hl
      exact List.countP_pos_iff.mpr ⟨g, hl, by rw [hgp]; rfl⟩
    have hb : b2n st.compacting ≤ 1 := by unfold b2n; split <;> omega
    have e1 : ∀ j, (Pc.pCompact j).isCompact = true := fun _ => rfl
    rw [e1] at hex
    simp only [if_true] at hex
    rcases hg with hg | hg
    · have := hpos pre hg; omega
    · have := hpos post hg; omega

theorem sysInvB_step {cfg : Cfg} {y : Sys} (h : SysInvB cfg y) (id : Nat) : SysInvB cfg (y.step cfg id) := by
  rcases step_cases cfg y id with h0 | ⟨pre, f, post, h1, h2, h3, h4, h5⟩
  · rw [h0]; exact ⟨h.sinv, h.pcs, h.excl, h.flushIds⟩
  · rw [h5]
    obtain ⟨st, frames, n⟩ := y
    simp only at h1 h5 ⊢
    subst h1
    have hf : POk cfg st f.pc := h.pcs f (by simp)
    have ok := stepOp_ok h.sinv hf
    have hcomp : ∀ g, g ∈ pre ∨ g ∈ post → Compat f.pc g.pc := fun g hg => compat_of_invB h hg
    refine ⟨ok.sinv, ?_, ?_, ?_⟩
    · intro g hg
      simp only [List.mem_append, List.mem_cons] at hg
      rcases hg with hg | rfl | hg
      · exact ok.other _ (h.pcs g (by simp [hg])) (hcomp g (Or.inl hg))
      · exact ok.pok
      · exact ok.other _ (h.pcs g (by simp [hg])) (hcomp g (Or.inr hg))
    · have hex := h.excl
      have := ok.cnt
      simp only [List.countP_append, List.countP_cons, advFrame] at hex ⊢
      unfold b2n at *
      simp only at hex this ⊢
      omega
    · have hfl := h.flushIds
      simp only [List.filterMap_append, List.filterMap_cons, advFrame] at hfl ⊢
      cases hx : flushId (stepOp cfg st f.pc).2 with
      | none =>
        simp only
        cases hy : flushId f.pc with
        | none => rw [hy] at hfl; exact hfl
        | some z =>
          rw [hy] at hfl
          simp only at hfl
          exact List.Nodup.sublist (List.Sublist.append (List.Sublist.refl _) (List.sublist_cons_self ..)) hfl
      | some x =>
        obtain ⟨hx1, hx2⟩ := ok.fid x hx
        rw [hx2] at hfl
        simp only at hfl ⊢
        have hnot : ∀ l : List Frame, (∀ g ∈ l, POk cfg st g.pc) → x ∉ l.filterMap (fun f => flushId f.pc) := by
          intro l hl hm
          obtain ⟨g, hg, hgx⟩ := List.mem_filterMap.mp hm
          have hgp := hl g hg
          cases hgpc : g.pc with
          | pFlush t b =>
            rw [hgpc] at hgx hgp
            simp only [POk] at hgp
            simp only [flushId] at hgx
            have := (h.sinv.immFresh _ hgp).2
            rw [← hx1] at this
            injection hgx with hgx
            exact this hgx
          | _ => rw [hgpc] at hgx; simp [flushId] at hgx
        exact nodup_insert_mid hfl (hnot pre fun g hg => h.pcs g (by simp [hg])) (hnot post fun g hg => h.pcs g (by simp [hg]))

theorem sysInvB_run {cfg : Cfg} {y : Sys} (h : SysInvB cfg y) (sched : List Nat) : SysInvB cfg (y.run cfg sched) := by
  induction sched generalizing y with
  | nil => exact h
  | cons id ids ih => exact ih (sysInvB_step h id)

end HappyModel.C14
