import HappyProofs.C14.LsmScan
import HappyProofs.C14.LsmSem
/-! Every get and scan of every in-order run is regular with respect to the log of memtable inserts. -/
namespace HappyModel.C14

/-- cells a reader that began at segment `b` may return, given the inserts so far -/
def AlOf (log : List Ev) (b : Nat) (k : Key) (c : Cell) : Prop :=
  c = (firstOn k (log.filter fun ev => ev.n < b)).join ∨ ∃ ev ∈ log, ev.key = k ∧ ev.cell = c ∧ b < ev.n

theorem filter_new (ev : Option Ev) (log : List Ev) (b : Nat) (h : ∀ e, ev = some e → b < e.n) :
    (ev.toList ++ log).filter (fun e => e.n < b) = log.filter (fun e => e.n < b) := by
  cases ev with
  | none => rfl
  | some e =>
    have := h e rfl
    simp only [Option.toList, List.singleton_append, List.filter_cons]
    have : decide (e.n < b) = false := by simp; omega
    rw [this]; rfl

theorem AlOf.later {log : List Ev} {b : Nat} {k : Key} {c : Cell} (h : AlOf log b k c) (ev : Option Ev)
    (hn : ∀ e, ev = some e → b < e.n) : AlOf (ev.toList ++ log) b k c := by
  rcases h with h | ⟨e, he, r⟩
  · left; rw [filter_new ev log b hn]; exact h
  · right; exact ⟨e, List.mem_append_right _ he, r⟩

theorem ReadOk.later {log : List Ev} {b e : Nat} {k : Key} {c : Cell} (h : ReadOk log k b e c) (ev : Option Ev)
    (hn : ∀ x, ev = some x → b < x.n) : ReadOk (ev.toList ++ log) k b e c := by
  rcases h with h | ⟨x, hx, r⟩
  · left; rw [filter_new ev log b hn]; exact h
  · right; exact ⟨x, List.mem_append_right _ hx, r⟩

theorem AlOf.readOk {log : List Ev} {b n : Nat} {k : Key} {c : Cell} (h : AlOf log b k c) (hn : ∀ e ∈ log, e.n < n) :
    ReadOk log k b n c := by
  rcases h with h | ⟨e, he, r1, r2, r3⟩
  · exact Or.inl h
  · exact Or.inr ⟨e, he, r1, r2, r3, hn e he⟩

/-- what a reader frame guarantees -/
def RdOk (start : Nat → Pc) (st : St) (log : List Ev) (f : Frame) : Prop :=
  match f.pc with
  | .gAt k i t r => ∃ b, f.b = some b ∧ RInv st k i (t :: r) none (AlOf log b k)
  | .sAt lo hi i t r acc => ∃ b, f.b = some b ∧ SAcc lo hi acc ∧
      ∀ k, lo ≤ k → k < hi → RInv st k i (t :: r) (acc.lookup k) (AlOf log b k)
  | .done (.val c) => ∀ k, start f.id = .gStart k → ∀ b e, f.b = some b → f.e = some e → ReadOk log k b e c
  | .done (.rows d) => ∀ lo hi, start f.id = .sStart lo hi → ∀ b e, f.b = some b → f.e = some e →
      RowsOk lo hi d (fun k c => ReadOk log k b e c)
  | _ => True

def RdInv (start : Nat → Pc) (y : Sys) (log : List Ev) : Prop := ∀ f ∈ y.frames, RdOk start y.st log f

/-- a frame that did not run -/
theorem rdOk_other {cfg : Cfg} {start : Nat → Pc} {st : St} {log : List Ev} {n : Nat} {g f : Frame}
    (hs : SInv cfg st) (hp : POk cfg st f.pc) (hg : RdOk start st log g) (hgb : ∀ b, g.b = some b → b < n) :
    RdOk start (stepOp cfg st f.pc).1 ((evOf cfg st n f).toList ++ log) g := by
  have hnew : ∀ b, g.b = some b → ∀ e, evOf cfg st n f = some e → b < e.n := by
    intro b hb e he
    unfold evOf at he
    split at he
    · injection he with he; subst he; exact hgb b hb
    · cases he
  have hal : ∀ b k c, g.b = some b → (AlOf log b k c ∨ ∃ q, insOf cfg st f.pc = some (k, c, q)) →
      AlOf ((evOf cfg st n f).toList ++ log) b k c := by
    intro b k c hb h
    rcases h with h | ⟨q, hq⟩
    · exact h.later _ (hnew b hb)
    · right
      have : evOf cfg st n f = some ⟨n, f.id, k, c, q⟩ := by unfold evOf; rw [hq]
      rw [this]
      exact ⟨⟨n, f.id, k, c, q⟩, by simp, rfl, rfl, hgb b hb⟩
  unfold RdOk at hg ⊢
  cases hpc : g.pc with
  | gAt k i t r =>
    rw [hpc] at hg; simp only at hg ⊢
    obtain ⟨b, hb, hR⟩ := hg
    exact ⟨b, hb, (rinv_other hs hp hR).mono fun c hc => hal b k c hb hc⟩
  | sAt lo hi i t r acc =>
    rw [hpc] at hg; simp only at hg ⊢
    obtain ⟨b, hb, hacc, hR⟩ := hg
    exact ⟨b, hb, hacc, fun k h1 h2 => (rinv_other hs hp (hR k h1 h2)).mono fun c hc => hal b k c hb hc⟩
  | done res =>
    rw [hpc] at hg
    cases res with
    | ok => trivial
    | val c =>
      simp only at hg ⊢
      intro k hk b e hb he
      exact (hg k hk b e hb he).later _ (hnew b hb)
    | rows d =>
      simp only at hg ⊢
      intro lo hi hk b e hb he
      obtain ⟨a1, a2, a3⟩ := hg lo hi hk b e hb he
      exact ⟨a1, a2, fun k h1 h2 => (a3 k h1 h2).later _ (hnew b hb)⟩
  | _ => trivial

theorem rdOk_write {start : Nat → Pc} {st : St} {log : List Ev} {f : Frame} {k : Key} {c : Cell}
    (h : PcCons (.pStart k c) f.pc) : RdOk start st log f := by
  unfold RdOk
  simp only [PcCons] at h
  rcases h with h | ⟨q, h⟩ | ⟨q, h⟩ | h
  · rw [h]; trivial
  · rw [h]; trivial
  · rw [h]; trivial
  · cases hpc : f.pc <;> rw [hpc] at h <;> simp [Pc.applied] at h <;> try trivial
    rename_i r
    cases r <;> simp [Pc.applied] at h
    trivial

theorem filter_all_lt (log : List Ev) (n : Nat) (h : ∀ e ∈ log, e.n < n) : log.filter (fun e => e.n < n) = log :=
  List.filter_eq_self.mpr fun e he => by simpa using h e he

theorem adv_e_eq {cfg : Cfg} {st : St} {n : Nat} {f : Frame} {e : Nat} (h : (advFrame cfg st n f).e = some e) : e = n := by
  simp only [advFrame] at h
  split at h
  · injection h with h; exact h.symm
  · cases h

theorem adv_b_of_some {cfg : Cfg} {st : St} {n : Nat} {f : Frame} {b : Nat} (h : f.b = some b) :
    (advFrame cfg st n f).b = some b := by simp [advFrame, h, Option.orElse]

/-- the frame that ran -/
theorem rdOk_self {cfg : Cfg} {start : Nat → Pc} {st : St} {log : List Ev} {n : Nat} {pre post : List Frame} {f : Frame}
    (hL : LInv cfg start ⟨st, pre ++ f :: post, n⟩ log) (hf : RdOk start st log f) (h3 : f.pc.isDone = false) :
    RdOk start (stepOp cfg st f.pc).1 ((evOf cfg st n f).toList ++ log) (advFrame cfg st n f) := by
  have hfm : f ∈ pre ++ f :: post := by simp
  have hF := hL.frames f hfm
  have hs := hL.sys.sinv
  simp only at hF hs
  have hsh := stepOp_shape cfg st (start f.id) f.pc hF.cons
  have hst := hL.starts f hfm
  have hevn : ∀ e ∈ log, e.n < n := hL.evn
  cases hso : start f.id with
  | pStart k c =>
    have := hsh.cons
    rw [hso] at this
    exact rdOk_write (f := advFrame cfg st n f) this
  | gStart k =>
    have hcons := hF.cons
    rw [hso] at hcons
    simp only [PcCons] at hcons
    rcases hcons with hpc | ⟨i, t, r, hpc⟩ | ⟨c, hpc⟩
    · -- first segment of the get
      have hfb : f.b = none := by
        cases hb : f.b with
        | none => rfl
        | some b => have := (hF.started b hb).2; rw [hpc] at this; cases this
      have hb' : (advFrame cfg st n f).b = some n := by simp [advFrame, hfb, Option.orElse]
      have hev : evOf cfg st n f = none := by unfold evOf; rw [hpc]; rfl
      have hst' : (stepOp cfg st f.pc).1 = st := by rw [hpc]; exact (getStart_plain cfg st k).1
      rw [hev, hst']
      simp only [Option.toList, List.nil_append]
      have hal : AlOf log n k (st.abs k) := by
        left; rw [filter_all_lt log n hevn]; exact hL.abs k
      obtain ⟨g1, g2⟩ := getStart_ok (cfg := cfg) hs k hal
      unfold RdOk
      have hpc' : (advFrame cfg st n f).pc = (getStart cfg st k).2 := by
        show (stepOp cfg st f.pc).2 = _; rw [hpc]; rfl
      rcases getStart_shape cfg st k with ⟨i, t, r, e⟩ | ⟨c, e⟩
      · rw [hpc', e]
        exact ⟨n, hb', g1 i t r e⟩
      · rw [hpc', e]
        intro k' hk' b e' hb he'
        have hid : start (advFrame cfg st n f).id = start f.id := rfl
        rw [hid, hso] at hk'
        injection hk' with hk'
        subst hk'
        rw [hb'] at hb
        injection hb with hb
        subst hb
        have := adv_e_eq he'
        subst this
        exact (g2 c e).readOk hevn
    · -- a later segment of the get
      unfold RdOk at hf
      rw [hpc] at hf
      simp only at hf
      obtain ⟨b, hb, hR⟩ := hf
      have hb' : (advFrame cfg st n f).b = some b := adv_b_of_some hb
      have hev : evOf cfg st n f = none := by unfold evOf; rw [hpc]; rfl
      have hst' : (stepOp cfg st f.pc).1 = st := by rw [hpc]; exact (getResume_plain cfg st k i t r).1
      rw [hev, hst']
      simp only [Option.toList, List.nil_append]
      obtain ⟨g1, g2⟩ := getResume_ok (cfg := cfg) hs k i t r hR
      unfold RdOk
      have hpc' : (advFrame cfg st n f).pc = (getResume cfg st k i t r).2 := by
        show (stepOp cfg st f.pc).2 = _; rw [hpc]; rfl
      rcases getResume_shape cfg st k i t r with ⟨i', t', r', e⟩ | ⟨c, e⟩
      · rw [hpc', e]
        exact ⟨b, hb', g1 i' t' r' e⟩
      · rw [hpc', e]
        intro k' hk' b0 e' hb0 he'
        have hid : start (advFrame cfg st n f).id = start f.id := rfl
        rw [hid, hso] at hk'
        injection hk' with hk'
        subst hk'
        rw [hb'] at hb0
        injection hb0 with hb0
        subst hb0
        have := adv_e_eq he'
        subst this
        exact (g2 c e).readOk hevn
    · rw [hpc] at h3; cases h3
  | sStart lo hi =>
    have hcons := hF.cons
    rw [hso] at hcons
    simp only [PcCons] at hcons
    have fin : ∀ b, (advFrame cfg st n f).b = some b → ∀ d, (advFrame cfg st n f).pc = .done (.rows d) →
        RowsOk lo hi d (AlOf log b) → RdOk start st log (advFrame cfg st n f) := by
      intro b hb' d e hrows
      unfold RdOk
      rw [e]
      intro lo' hi' hk' b0 e' hb0 he'
      have hid : start (advFrame cfg st n f).id = start f.id := rfl
      rw [hid, hso] at hk'
      injection hk' with h1 h2
      subst h1; subst h2
      rw [hb'] at hb0
      injection hb0 with hb0
      subst hb0
      have := adv_e_eq he'
      subst this
      exact ⟨hrows.sorted, hrows.range, fun k' h1 h2 => (hrows.cells k' h1 h2).readOk hevn⟩
    rcases hcons with hpc | ⟨i, t, r, acc, hpc⟩ | ⟨c, hpc⟩
    · have hfb : f.b = none := by
        cases hb : f.b with
        | none => rfl
        | some b => have := (hF.started b hb).2; rw [hpc] at this; cases this
      have hb' : (advFrame cfg st n f).b = some n := by simp [advFrame, hfb, Option.orElse]
      have hev : evOf cfg st n f = none := by unfold evOf; rw [hpc]; rfl
      have hst' : (stepOp cfg st f.pc).1 = st := by rw [hpc]; exact (scanStart_plain st lo hi).1
      rw [hev, hst']
      simp only [Option.toList, List.nil_append]
      have hal : ∀ k, lo ≤ k → k < hi → AlOf log n k (st.abs k) := by
        intro k _ _
        left; rw [filter_all_lt log n hevn]; exact hL.abs k
      obtain ⟨g1, g2⟩ := scanStart_ok (cfg := cfg) hs lo hi (Al := AlOf log n) hal
      have hpc' : (advFrame cfg st n f).pc = (scanStart st lo hi).2 := by
        show (stepOp cfg st f.pc).2 = _; rw [hpc]; rfl
      have hshape : (∃ i' t' r' acc', (scanStart st lo hi).2 = .sAt lo hi i' t' r' acc') ∨
          (∃ d, (scanStart st lo hi).2 = .done (.rows d)) := by
        unfold scanStart; exact scanLevels_shape ..
      rcases hshape with ⟨i', t', r', acc', e⟩ | ⟨d, e⟩
      · unfold RdOk
        rw [hpc', e]
        obtain ⟨a1, a2⟩ := g1 i' t' r' acc' e
        exact ⟨n, hb', a1, a2⟩
      · exact fin n hb' d (by rw [hpc', e]) (g2 d e)
    · unfold RdOk at hf
      rw [hpc] at hf
      simp only at hf
      obtain ⟨b, hb, hacc, hR⟩ := hf
      have hb' : (advFrame cfg st n f).b = some b := adv_b_of_some hb
      have hev : evOf cfg st n f = none := by unfold evOf; rw [hpc]; rfl
      have hst' : (stepOp cfg st f.pc).1 = st := by rw [hpc]; exact (scanResume_plain st lo hi i t r acc).1
      rw [hev, hst']
      simp only [Option.toList, List.nil_append]
      obtain ⟨g1, g2⟩ := scanResume_ok (cfg := cfg) hs lo hi i t r acc (Al := AlOf log b) hacc hR
      have hpc' : (advFrame cfg st n f).pc = (scanResume st lo hi i t r acc).2 := by
        show (stepOp cfg st f.pc).2 = _; rw [hpc]; rfl
      rcases scanResume_shape st lo hi i t r acc with ⟨i', t', r', acc', e⟩ | ⟨d, e⟩
      · unfold RdOk
        rw [hpc', e]
        obtain ⟨a1, a2⟩ := g1 i' t' r' acc' e
        exact ⟨b, hb', a1, a2⟩
      · exact fin b hb' d (by rw [hpc', e]) (g2 d e)
    · rw [hpc] at h3; cases h3
  | _ => rw [hso] at hst; cases hst

theorem rdinv_step {cfg : Cfg} {start : Nat → Pc} {y : Sys} {log : List Ev} (hL : LInv cfg start y log)
    (hR : RdInv start y log) (id : Nat) : RdInv start (y.step cfg id) (logStep cfg y log id) := by
  rcases gstep_cases cfg y id with ⟨h0, hl⟩ | ⟨pre, f, post, h1, h2, h3, h4, h5, h6⟩
  · rw [h0, hl]; exact hR
  · rw [h5, h6]
    obtain ⟨st, frames, n⟩ := y
    simp only at h1
    subst h1
    have hfm : f ∈ pre ++ f :: post := by simp
    intro g hg
    simp only [List.mem_append, List.mem_cons] at hg
    have other : ∀ g, g ∈ pre ∨ g ∈ post →
        RdOk start (stepOp cfg st f.pc).1 ((evOf cfg st n f).toList ++ log) g := by
      intro g hg
      have hgm : g ∈ pre ++ f :: post := by rcases hg with hg | hg <;> simp [hg]
      exact rdOk_other hL.sys.sinv (hL.sys.pcs f hfm) (hR g hgm) (fun b hb => ((hL.frames g hgm).started b hb).1)
    rcases hg with hg | rfl | hg
    · exact other g (Or.inl hg)
    · exact rdOk_self hL (hR f hfm) h3
    · exact other g (Or.inr hg)

theorem rdinv_init {cfg : Cfg} {y : Sys} (h : InitSys cfg y) (start : Nat → Pc) : RdInv start y [] := by
  intro f hf
  have := (h.frames f hf).1
  unfold RdOk
  cases hpc : f.pc <;> rw [hpc] at this <;> simp [Pc.isStart] at this <;> trivial

/-- both invariants along every in-order run -/
theorem rdinv_run {cfg : Cfg} {start : Nat → Pc} (sched : List Nat) (y : Sys) (log : List Ev)
    (hL : LInv cfg start y log) (hR : RdInv start y log) (ho : InOrder cfg y sched) :
    LInv cfg start (y.run cfg sched) (logRun cfg y log sched) ∧ RdInv start (y.run cfg sched) (logRun cfg y log sched) :=
  grun_induct (fun y log => LInv cfg start y log ∧ RdInv start y log)
    (fun _ _ id h hh => ⟨linv_step h.1 id hh, rdinv_step h.1 h.2 id⟩) sched y log ⟨hL, hR⟩ ho

theorem readFacts_of {start : Nat → Pc} {y : Sys} {log : List Ev} (hR : RdInv start y log) : ReadFacts start y log := by
  constructor
  · intro f hf k c hs hpc b e hb he
    have := hR f hf
    unfold RdOk at this
    rw [hpc] at this
    exact this k hs b e hb he
  · intro f hf lo hi d hs hpc b e hb he
    have := hR f hf
    unfold RdOk at this
    rw [hpc] at this
    obtain ⟨a1, a2, a3⟩ := this lo hi hs b e hb he
    exact ⟨a1, a2, a3⟩

end HappyModel.C14
