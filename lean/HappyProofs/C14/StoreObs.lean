import HappyProofs.C14.StoreStep
import HappyModel.C14.SpecStore
/-! The run invariant over a whole schedule, and what it says about the observation records. -/
namespace HappyModel.C14.SM.SR
open HappyModel.C14 HappyModel.C14.SM HappyModel.C14.BT

theorem rinv_run {ops : List (Nat × SOp)} : ∀ (sched : List Nat) (s : Store) (fs : List (Frame SPc)) (n : Nat)
    (log : List Ev), RInv ops s fs n log →
    RInv ops (runFrames stepS SPc.isDone s fs n sched).1 (runFrames stepS SPc.isDone s fs n sched).2
      (n + sched.length) (logRunS s fs n log sched)
  | [], s, fs, n, log, h => by simpa [runFrames, logRunS] using h
  | id :: ids, s, fs, n, log, h => by
    have := rinv_run ids _ _ _ _ (rinv_step h id)
    simp only [runFrames, logRunS, List.length_cons]
    have e : n + (ids.length + 1) = n + 1 + ids.length := by omega
    rw [e]; exact this

theorem lookup_of_mem_nodup' {α : Type} {ops : List (Nat × α)} (hn : (ops.map (·.1)).Nodup) {o : Nat × α} (ho : o ∈ ops) :
    ops.lookup o.1 = some o.2 := by
  induction ops with
  | nil => cases ho
  | cons x r ih =>
    simp only [List.map_cons, List.nodup_cons] at hn
    rcases List.mem_cons.mp ho with rfl | ho'
    · simp [List.lookup]
    · have : (o.1 == x.1) = false := by
        simp only [beq_eq_false_iff_ne, ne_eq]
        intro e
        exact hn.1 (e ▸ List.mem_map_of_mem ho')
      obtain ⟨x1, x2⟩ := x
      simp only [List.lookup, this]
      exact ih hn.2 ho'

theorem rinv_init {ops : List (Nat × SOp)} {s0 : Store} (h0 : SOk s0) (he : s0.contents = [])
    (hn : (ops.map (·.1)).Nodup) : RInv ops s0 (framesOfS ops) 0 [] := by
  refine ⟨h0, fun k => (by rw [he]; rfl), List.Pairwise.nil, fun _ h => (by cases h), List.Pairwise.nil,
    fun _ h => (by cases h), fun _ h => (by cases h), ?_, ?_⟩
  · simpa [framesOfS, List.map_map, Function.comp_def] using hn
  · intro f hf
    obtain ⟨o, ho, rfl⟩ := List.mem_map.mp hf
    refine ⟨o.2, lookup_of_mem_nodup' hn ho, ?_⟩
    unfold PcOk
    exact ⟨rfl, rfl, rfl, fun _ h => by cases h⟩

/-! ### frames and events -/

theorem acted_write_ev {log : List Ev} {id a : Nat} {k : Key} {c : Cell} {r : SRes} (h : Acted log id a (cellOp k c) r) :
    ∃ ev ∈ log, ev.id = id ∧ ev.n = a ∧ ev.key = k ∧ ev.cell = c := by
  cases c with
  | none => exact h.2
  | some v => exact h.2

theorem ended_acted {ops : List (Nat × SOp)} {s : Store} {fs : List (Frame SPc)} {n : Nat} {log : List Ev}
    (h : RInv ops s fs n log) {f : Frame SPc} (hf : f ∈ fs) {e : Nat} (he : f.e = some e) :
    ∃ op r b a, ops.lookup f.id = some op ∧ f.pc = .done r ∧ f.b = some b ∧ b ≤ a ∧ a ≤ e ∧ Acted log f.id a op r := by
  obtain ⟨op, hop, hpc⟩ := h.frames f hf
  unfold PcOk at hpc
  cases hp : f.pc with
  | start op' => rw [hp] at hpc; rw [hpc.2.2.1] at he; cases he
  | wait op' j => rw [hp] at hpc; rw [hpc.2.2.1] at he; cases he
  | fin r => rw [hp] at hpc; obtain ⟨b, a, _, _, _, h4, _⟩ := hpc; rw [h4] at he; cases he
  | done r =>
    rw [hp] at hpc
    obtain ⟨b, a, e', h1, h2, h3, h4, _, h6⟩ := hpc
    rw [h2] at he; injection he with he; subst he
    exact ⟨op, r, b, a, hop, rfl, h1, h3, h4, h6⟩
  | lsmGet p => rw [hp] at hpc; exact hpc.elim

theorem frame_of_ev {ops : List (Nat × SOp)} {s : Store} {fs : List (Frame SPc)} {n : Nat} {log : List Ev}
    (h : RInv ops s fs n log) {ev : Ev} (hev : ev ∈ log) :
    ∃ f ∈ fs, f.id = ev.id ∧ ops.lookup f.id = some (cellOp ev.key ev.cell) ∧
      ∃ b, f.b = some b ∧ b ≤ ev.n ∧ ∀ e, f.e = some e → ev.n ≤ e := by
  obtain ⟨f, hf, hid⟩ := h.evFrame ev hev
  obtain ⟨op, hop, hpc⟩ := h.frames f hf
  have hop' := h.evOp ev hev
  rw [← hid, hop] at hop'
  injection hop' with hop'
  subst hop'
  have huniq : ∀ ev' ∈ log, ev'.id = f.id → ev' = ev := fun ev' hev' e =>
    eq_of_nodup_map (·.id) h.evIds ev' hev' ev hev (by rw [e, hid])
  refine ⟨f, hf, hid, hop, ?_⟩
  unfold PcOk at hpc
  cases hp : f.pc with
  | start op' => rw [hp] at hpc; exact absurd hid.symm (hpc.2.2.2 ev hev)
  | wait op' j => rw [hp] at hpc; exact absurd hid.symm (hpc.2.2.2 ev hev)
  | fin r =>
    rw [hp] at hpc
    obtain ⟨b, a, h1, h2, _, h4, h5⟩ := hpc
    obtain ⟨ev', hev', e1, e2, _, _⟩ := acted_write_ev h5
    have := huniq ev' hev' e1
    subst this
    exact ⟨b, h1, by omega, fun e he => by rw [h4] at he; cases he⟩
  | done r =>
    rw [hp] at hpc
    obtain ⟨b, a, e', h1, h2, h3, h4, _, h6⟩ := hpc
    obtain ⟨ev', hev', e1, e2, _, _⟩ := acted_write_ev h6
    have := huniq ev' hev' e1
    subst this
    exact ⟨b, h1, by omega, fun e he => by rw [h2] at he; injection he with he; omega⟩
  | lsmGet p => rw [hp] at hpc; exact hpc.elim

/-! ### observation records -/

theorem recOfS_some {ops : List (Nat × SOp)} {f : Frame SPc} {w : ORec} (h : recOfS ops f = some w) :
    ∃ op, f.b = some w.b ∧ ops.lookup f.id = some op ∧ kindOf op = some w.kind ∧ w.id = f.id ∧ w.e = f.e ∧
    w.got = (match f.pc with | .done (.val c) => c | _ => none) ∧
    w.rows = (match f.pc with | .done (.rows d) => d | _ => []) := by
  unfold recOfS at h
  split at h
  · rename_i b kind hb hk
    injection h with h; subst h
    cases hl : ops.lookup f.id with
    | none => rw [hl] at hk; cases hk
    | some op => rw [hl] at hk; exact ⟨op, hb, rfl, hk, rfl, rfl, rfl, rfl⟩
  · cases h

theorem recOfS_of {ops : List (Nat × SOp)} {f : Frame SPc} {b : Nat} {op : SOp} {kind : OKind} (hb : f.b = some b)
    (hl : ops.lookup f.id = some op) (hk : kindOf op = some kind) :
    ∃ w, recOfS ops f = some w ∧ w.id = f.id ∧ w.kind = kind ∧ w.b = b ∧ w.e = f.e := by
  unfold recOfS
  rw [hb, hl]
  simp only [Option.bind_some, hk]
  exact ⟨_, rfl, rfl, rfl, rfl, rfl⟩

theorem kindOf_cellOp (k : Key) (c : Cell) : kindOf (cellOp k c) = some (cellKind k c) := by cases c <;> rfl

theorem mem_writesOf {obs : List ORec} {w : ORec} :
    w ∈ writesOf obs ↔ w ∈ obs ∧ (match w.kind with | .put _ _ => true | .del _ => true | _ => false) = true := by
  unfold writesOf; exact List.mem_filter

/-- write records and events correspond, with identities -/
structure WsOkS (log : List Ev) (ws : List ORec) : Prop where
  evRec : ∀ ev ∈ log, ∃ w ∈ ws, w.id = ev.id ∧ w.kind = cellKind ev.key ev.cell ∧ w.b ≤ ev.n ∧ ∀ e, w.e = some e → ev.n ≤ e
  putUniq : ∀ w1 ∈ ws, ∀ w2 ∈ ws, ∀ k k' v, w1.kind = .put k v → w2.kind = .put k' v → w1 = w2
  recEv : ∀ w ∈ ws, ∀ k, w.writesKey k = true → ∀ e, w.e = some e →
    ∃ ev ∈ log, ev.id = w.id ∧ ev.key = k ∧ w.b ≤ ev.n ∧ ev.n ≤ e

theorem WsOkS.toWsOk {log : List Ev} {ws : List ORec} (h : WsOkS log ws) : WsOk log ws where
  evRec ev hev := by
    obtain ⟨w, hw, _, h2, h3, h4⟩ := h.evRec ev hev
    exact ⟨w, hw, h2, h3, h4⟩
  putUniq := h.putUniq
  recEv w hw k hk e he := by
    obtain ⟨ev, hev, _, h2, h3, h4⟩ := h.recEv w hw k hk e he
    exact ⟨ev, hev, h2, h3, h4⟩

theorem writesKey_op {op : SOp} {w : ORec} {k : Key} (hk : kindOf op = some w.kind) (h : w.writesKey k = true) :
    ∃ c, op = cellOp k c := by
  unfold ORec.writesKey at h
  cases op with
  | put k' v =>
    simp only [kindOf] at hk; injection hk with hk; rw [← hk] at h
    have : k' = k := by simpa using h
    subst this; exact ⟨some v, rfl⟩
  | del k' =>
    simp only [kindOf] at hk; injection hk with hk; rw [← hk] at h
    have : k' = k := by simpa using h
    subst this; exact ⟨none, rfl⟩
  | get k' => simp only [kindOf] at hk; injection hk with hk; rw [← hk] at h; cases h
  | scan lo hi => simp only [kindOf] at hk; injection hk with hk; rw [← hk] at h; cases h
  | size => cases hk

theorem kindOf_put {op : SOp} {k : Key} {v : Nat} (h : kindOf op = some (.put k v)) : op = .put k v := by
  cases op with
  | put k' v' => simp only [kindOf] at h; injection h with h; injection h with a b; subst a; subst b; rfl
  | del k' => simp only [kindOf] at h; injection h with h; cases h
  | get k' => simp only [kindOf] at h; injection h with h; cases h
  | scan lo hi => simp only [kindOf] at h; injection h with h; cases h
  | size => cases h

theorem wsOkS_of_rinv {ops : List (Nat × SOp)} {s : Store} {fs : List (Frame SPc)} {n : Nat} {log : List Ev}
    (hd : DistinctS ops) (h : RInv ops s fs n log) : WsOkS log (writesOf (obsOfS ops fs)) := by
  have hmem : ∀ w, w ∈ writesOf (obsOfS ops fs) → ∃ f ∈ fs, recOfS ops f = some w := by
    intro w hw
    have := (mem_writesOf.mp hw).1
    exact List.mem_filterMap.mp this
  refine ⟨?_, ?_, ?_⟩
  · intro ev hev
    obtain ⟨f, hf, hid, hop, b, hb, hbe, hfe⟩ := frame_of_ev h hev
    obtain ⟨w, hw, hwid, hwk, hwb, hwe⟩ := recOfS_of hb hop (kindOf_cellOp _ _)
    refine ⟨w, ?_, by rw [hwid, hid], hwk, by omega, fun e he => hfe e (by rw [← hwe]; exact he)⟩
    refine mem_writesOf.mpr ⟨List.mem_filterMap.mpr ⟨f, hf, hw⟩, ?_⟩
    rw [hwk]; cases ev.cell <;> rfl
  · intro w1 hw1 w2 hw2 k k' v hk1 hk2
    obtain ⟨f1, hf1, hr1⟩ := hmem w1 hw1
    obtain ⟨f2, hf2, hr2⟩ := hmem w2 hw2
    obtain ⟨op1, _, hl1, hko1, _⟩ := recOfS_some hr1
    obtain ⟨op2, _, hl2, hko2, _⟩ := recOfS_some hr2
    rw [hk1] at hko1
    rw [hk2] at hko2
    have e1 : op1 = .put k v := kindOf_put hko1
    have e2 : op2 = .put k' v := kindOf_put hko2
    subst e1; subst e2
    have := eq_of_nodup_filterMap (fun o : Nat × SOp => match o.2 with | .put _ v => some v | _ => none) hd.2
      _ (mem_of_lookup hl1) _ (mem_of_lookup hl2) v rfl rfl
    have hid : f1.id = f2.id := congrArg Prod.fst this
    have hff : f1 = f2 := eq_of_nodup_map (·.id) h.ids f1 hf1 f2 hf2 hid
    subst hff
    rw [hr1] at hr2
    injection hr2
  · intro w hw k hwk e hwe
    obtain ⟨f, hf, hr⟩ := hmem w hw
    obtain ⟨op, hb, hl, hko, hwid, he, _, _⟩ := recOfS_some hr
    obtain ⟨c, rfl⟩ := writesKey_op hko hwk
    rw [he] at hwe
    obtain ⟨op', r, b, a, hop', _, hb', hba, hae, hact⟩ := ended_acted h hf hwe
    rw [hl] at hop'; injection hop' with hop'; subst hop'
    rw [hb] at hb'; injection hb' with hb'
    obtain ⟨ev, hev, e1, e2, e3, _⟩ := acted_write_ev hact
    exact ⟨ev, hev, by rw [e1, hwid], e3, by omega, by omega⟩

end HappyModel.C14.SM.SR
