import HappyProofs.C14.TxnMachB
/-!
# Transactions at run level, part C: the run invariant

`RInv ok init ops tm fs n tlog`: after `n` schedule positions the manager is `tm`, the frames are `fs` and the
timed ghost log is `tlog`.  `Eff1` / `Eff2` describe what a first / a later segment of an operation does;
`RInv.first` (part D) and `RInv.later` (part E) show that such segments preserve the invariant.
-/
namespace HappyModel.C14.SM.LM
open HappyModel.C14 HappyModel.C14.BT

def startedIn (fs : List (Frame TPc)) (id : Nat) : Bool :=
  match frameOf fs id with
  | some f => f.b.isSome
  | none => false

theorem doneIn_eq (fs : List (Frame TPc)) (id : Nat) :
    doneIn fs id = match frameOf fs id with
      | some f => f.pc.isDone
      | none => false := rfl

theorem doneIn_frame {fs : List (Frame TPc)} {id : Nat} (h : doneIn fs id = true) :
    ∃ g, frameOf fs id = some g ∧ g.pc.isDone = true := by
  rw [doneIn_eq] at h
  cases hg : frameOf fs id with
  | none => simp [hg] at h
  | some g => exact ⟨g, rfl, by simpa [hg] using h⟩

theorem startedIn_frame {fs : List (Frame TPc)} {id : Nat} (h : startedIn fs id = true) :
    ∃ g b, frameOf fs id = some g ∧ g.b = some b := by
  unfold startedIn at h
  cases hg : frameOf fs id with
  | none => simp [hg] at h
  | some g =>
    simp only [hg] at h
    cases hb : g.b with
    | none => simp [hb] at h
    | some b => exact ⟨g, b, rfl, hb⟩

theorem startedIn_of {fs : List (Frame TPc)} {id : Nat} {g : Frame TPc} {b : Nat} (h : frameOf fs id = some g)
    (hb : g.b = some b) : startedIn fs id = true := by
  simp [startedIn, h, hb]

theorem not_startedIn_of {fs : List (Frame TPc)} {id : Nat} {g : Frame TPc} (h : frameOf fs id = some g)
    (hb : g.b = none) : startedIn fs id = false := by
  simp [startedIn, h, hb]

/-- the state of a started frame, by kind of operation (`b`: its first segment) -/
def PcOK (ops : List (Nat × TOp)) (tm : TM) (tlog : List (Nat × Ev)) (id b : Nat) (f : Frame TPc) : TOp → Prop
  | .begin s l => (∃ r, f.pc = .fin r ∨ f.pc = .done r) ∧ (b, Ev.began s) ∈ tlog ∧
      ∃ tx, tm.tx? s = some tx ∧ tx.level = l
  | .write _ _ _ => ∃ r, f.pc = .fin r ∨ f.pc = .done r
  | .abort _ => ∃ r, f.pc = .done r
  | .read s k =>
    (∃ j : SPc, f.pc = .rd s k j ∧ (wsetBefore ops id s).lookup k = none ∧
      ∃ tx, tm.tx? s = some tx ∧ k ∈ tx.rset) ∨
    (∃ c, f.pc = .done (.val c) ∧ (∀ v, (wsetBefore ops id s).lookup k = some v → c = some v) ∧
      ((wsetBefore ops id s).lookup k = none →
        ∃ m e, f.e = some e ∧ b ≤ m ∧ m ≤ e ∧ (m, Ev.fetched s k c) ∈ tlog))
  | .commit s => (f.pc = .fin (.flag true) ∨ ∃ fl, f.pc = .done (.flag fl)) ∧
      (f.pc = .fin (.flag true) ∨ f.pc = .done (.flag true) →
        (b, Ev.committed s (wsetBefore ops id s)) ∈ tlog)

theorem PcOK.mono {ops : List (Nat × TOp)} {tm tm' : TM} {tlog tlog' : List (Nat × Ev)} {id b : Nat}
    {f : Frame TPc} {op : TOp} (h : PcOK ops tm tlog id b f op) (le : TMle tm tm')
    (sub : ∀ x ∈ tlog, x ∈ tlog') : PcOK ops tm' tlog' id b f op := by
  cases op with
  | begin s l =>
    obtain ⟨h1, h2, tx, h3, h4⟩ := h
    obtain ⟨tx', g1, g2, _⟩ := le s tx h3
    exact ⟨h1, sub _ h2, tx', g1, by rw [g2, h4]⟩
  | write s k v => exact h
  | abort s => exact h
  | read s k =>
    rcases h with ⟨j, h1, h2, tx, h3, h4⟩ | ⟨c, h1, h2, h3⟩
    · obtain ⟨tx', g1, _, g3⟩ := le s tx h3
      exact .inl ⟨j, h1, h2, tx', g1, g3 k h4⟩
    · refine .inr ⟨c, h1, h2, fun hn => ?_⟩
      obtain ⟨m, e, g1, g2, g3, g4⟩ := h3 hn
      exact ⟨m, e, g1, g2, g3, sub _ g4⟩
  | commit s => exact ⟨h.1, fun hp => sub _ (h.2 hp)⟩

structure FInv (ops : List (Nat × TOp)) (tm : TM) (tlog : List (Nat × Ev)) (n id : Nat) (op : TOp)
    (f : Frame TPc) : Prop where
  fresh : f.b = none → f.pc = .start op
  blt : ∀ b, f.b = some b → b < n
  fin : ∀ b, f.b = some b → f.pc.isDone = true → ∃ e, f.e = some e ∧ b ≤ e ∧ e < n
  kind : ∀ b, f.b = some b → PcOK ops tm tlog id b f op

theorem FInv.mono {ops : List (Nat × TOp)} {tm tm' : TM} {tlog tlog' : List (Nat × Ev)} {n n' id : Nat}
    {f : Frame TPc} {op : TOp} (h : FInv ops tm tlog n id op f) (le : TMle tm tm')
    (sub : ∀ x ∈ tlog, x ∈ tlog') (hn : n ≤ n') : FInv ops tm' tlog' n' id op f where
  fresh := h.fresh
  blt b hb := Nat.lt_of_lt_of_le (h.blt b hb) hn
  fin b hb hd := by
    obtain ⟨e, h1, h2, h3⟩ := h.fin b hb hd
    exact ⟨e, h1, h2, Nat.lt_of_lt_of_le h3 hn⟩
  kind b hb := (h.kind b hb).mono le sub

structure RInv (ok : Store → Prop) (init : Key → Option Nat) (ops : List (Nat × TOp)) (tm : TM)
    (fs : List (Frame TPc)) (n : Nat) (tlog : List (Nat × Ev)) : Prop where
  inv : Inv ok init tm (tlog.map (·.2))
  inv2 : Inv2 init tm (tlog.map (·.2))
  times : (tlog.map (·.1)).Pairwise (· < ·)
  tlt : ∀ x ∈ tlog, x.1 < n
  ids : fs.map (·.id) = ops.map (·.1)
  frames : ∀ id f op, frameOf fs id = some f → ops.lookup id = some op → FInv ops tm tlog n id op f
  seq : ∀ pre o post f b, ops = pre ++ o :: post → frameOf fs o.1 = some f → f.b = some b →
    ∀ a ∈ pre, a.2.slot = o.2.slot →
      ∃ g e, frameOf fs a.1 = some g ∧ g.pc.isDone = true ∧ g.e = some e ∧ e < b
  front : ∀ pre o post, ops = pre ++ o :: post → startedIn fs o.1 = false →
    (∀ a ∈ pre, a.2.slot = o.2.slot → startedIn fs a.1 = true) →
    curW tm o.2.slot = wsetBefore ops o.1 o.2.slot
  stat : ∀ s tx, tm.tx? s = some tx → tx.stat ≠ .active →
    ∃ o ∈ ops, o.2.slot = s ∧ o.2.isEnd = true ∧ startedIn fs o.1 = true
  hasB : ∀ s tx, tm.tx? s = some tx → ∃ o ∈ ops, o.2.slot = s ∧ o.2.isBegin = true ∧ startedIn fs o.1 = true
  cev : ∀ m s w, (m, Ev.committed s w) ∈ tlog → ∃ id f, frameOf fs id = some f ∧
    ops.lookup id = some (.commit s) ∧ f.b = some m ∧ (f.pc = .fin (.flag true) ∨ f.pc = .done (.flag true)) ∧
    w = wsetBefore ops id s

/-- effect of the first segment (position `n`) of operation `id` -/
structure Eff1 (ok : Store → Prop) (init : Key → Option Nat) (ops : List (Nat × TOp)) (tm : TM)
    (tlog : List (Nat × Ev)) (n id : Nat) (op : TOp) (tm' : TM) (pc' : TPc) (evs : List Ev) : Prop where
  inv : Inv ok init tm' (tlog.map (·.2) ++ evs)
  inv2 : Inv2 init tm' (tlog.map (·.2) ++ evs)
  one : evs.length ≤ 1
  upd : Upd tm tm' op
  pc : ∀ f' : Frame TPc, f'.pc = pc' → f'.e = (if pc'.isDone then some n else none) →
    PcOK ops tm' (tlog ++ evs.map fun e => (n, e)) id n f' op
  cev : ∀ s w, Ev.committed s w ∈ evs → op = .commit s ∧ pc' = .fin (.flag true) ∧ w = wsetBefore ops id s

/-- effect of a later segment (position `n`) of operation `id`, whose frame is `f` -/
structure Eff2 (ok : Store → Prop) (init : Key → Option Nat) (ops : List (Nat × TOp)) (tm : TM)
    (tlog : List (Nat × Ev)) (n id b : Nat) (op : TOp) (f : Frame TPc) (pc' : TPc) (evs : List Ev) : Prop where
  inv : Inv ok init tm (tlog.map (·.2) ++ evs)
  inv2 : Inv2 init tm (tlog.map (·.2) ++ evs)
  one : evs.length ≤ 1
  pc : ∀ f' : Frame TPc, f'.pc = pc' → f'.e = (if pc'.isDone then some n else none) →
    PcOK ops tm (tlog ++ evs.map fun e => (n, e)) id b f' op
  cev : ∀ s w, Ev.committed s w ∉ evs
  keep : f.pc = .fin (.flag true) → pc' = .done (.flag true)

/-! ### small list facts -/

theorem map_snd_tag (n : Nat) (evs : List Ev) : (evs.map fun e => (n, e)).map (·.2) = evs := by
  induction evs with
  | nil => rfl
  | cons e evs ih => simp only [List.map_cons, ih]

theorem log_map_snd (tlog : List (Nat × Ev)) (n : Nat) (evs : List Ev) :
    (tlog ++ evs.map fun e => (n, e)).map (·.2) = tlog.map (·.2) ++ evs := by
  rw [List.map_append, map_snd_tag]

theorem times_snoc {tlog : List (Nat × Ev)} {n : Nat} {evs : List Ev}
    (h : (tlog.map (·.1)).Pairwise (· < ·)) (hlt : ∀ x ∈ tlog, x.1 < n) (one : evs.length ≤ 1) :
    ((tlog ++ evs.map fun e => (n, e)).map (·.1)).Pairwise (· < ·) ∧
    ∀ x ∈ tlog ++ evs.map fun e => (n, e), x.1 < n + 1 := by
  constructor
  · rw [List.map_append, List.pairwise_append]
    refine ⟨h, ?_, ?_⟩
    · match evs, one with
      | [], _ => simp
      | [e], _ => simp
    · intro a ha b hb
      simp only [List.mem_map] at ha hb
      obtain ⟨x, hx, rfl⟩ := ha
      obtain ⟨y, hy, rfl⟩ := hb
      obtain ⟨e, _, rfl⟩ := hy
      exact hlt x hx
  · intro x hx
    rcases List.mem_append.1 hx with hx | hx
    · exact Nat.lt_succ_of_lt (hlt x hx)
    · simp only [List.mem_map] at hx
      obtain ⟨e, _, rfl⟩ := hx
      exact Nat.lt_succ_self n

theorem mem_tag {n m : Nat} {ev : Ev} {evs : List Ev} (h : (m, ev) ∈ evs.map fun e => (n, e)) :
    m = n ∧ ev ∈ evs := by
  simp only [List.mem_map, Prod.mk.injEq] at h
  obtain ⟨e, he, rfl, rfl⟩ := h
  exact ⟨rfl, he⟩

theorem mem_lookup {α : Type} {ops : List (Nat × α)} {a : Nat × α} (hnd : (ops.map (·.1)).Nodup) (h : a ∈ ops) :
    ops.lookup a.1 = some a.2 := by
  obtain ⟨s, t, e⟩ := List.append_of_mem h
  exact lookup_of_split hnd e

theorem split_unique {α : Type} {pre pre' post post' : List (Nat × α)} {o o' : Nat × α}
    (hnd : ((pre ++ o :: post).map (·.1)).Nodup) (h : pre ++ o :: post = pre' ++ o' :: post') (hid : o.1 = o'.1) :
    pre = pre' ∧ o = o' ∧ post = post' := by
  induction pre generalizing pre' with
  | nil =>
    cases pre' with
    | nil => simpa using h
    | cons a p =>
      simp only [List.nil_append, List.cons_append, List.cons.injEq] at h
      obtain ⟨rfl, h2⟩ := h
      subst h2
      simp only [List.nil_append, List.map_cons, List.map_append, List.nodup_cons, List.mem_append,
        List.mem_cons, List.mem_map] at hnd
      exact absurd (.inr (.inl hid)) hnd.1
  | cons a p ih =>
    cases pre' with
    | nil =>
      simp only [List.nil_append, List.cons_append, List.cons.injEq] at h
      obtain ⟨rfl, h2⟩ := h
      simp only [List.cons_append, List.map_cons, List.map_append, List.nodup_cons, List.mem_append,
        List.mem_cons, List.mem_map] at hnd
      exact absurd (.inr (.inl hid.symm)) hnd.1
    | cons a' p' =>
      simp only [List.cons_append, List.cons.injEq] at h
      obtain ⟨rfl, h2⟩ := h
      simp only [List.cons_append, List.map_cons, List.nodup_cons] at hnd
      obtain ⟨r1, r2, r3⟩ := ih hnd.2 h2
      exact ⟨by rw [r1], r2, r3⟩

theorem pairwise_split {α : Type} {R : α → α → Prop} {pre post : List α} {o : α}
    (h : (pre ++ o :: post).Pairwise R) : (∀ a ∈ pre, R a o) ∧ (∀ a ∈ post, R o a) := by
  rw [List.pairwise_append, List.pairwise_cons] at h
  exact ⟨fun a ha => h.2.2 a ha o (by simp), fun a ha => h.2.1.1 a ha⟩

end HappyModel.C14.SM.LM
