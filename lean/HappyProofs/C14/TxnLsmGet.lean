import HappyProofs.C14.TxnLsm
import HappyProofs.C14.LsmReadStep
import HappyProofs.C14.TxnStep
/-!
# A suspended `LSMTree.get` across `put_sync`s and commits

* `putSync_rb` / `applyWrites_rb`: the reader invariant `RB` of a `get` suspended at a page read survives a
  `put_sync` (memtable insert, flush, compaction back to back) and a whole commit application; the set of
  cells it may still return grows by the cells written to its key (from `rinv_other`, segment by segment).
* `sv_commit`: for a SNAPSHOT_ISOLATION / SERIALIZABLE reader, every such cell is as good as the current
  value: undoing the commit log down to the snapshot gives the same result (`SV`).
-/
namespace HappyModel.C14.SM.LM
open HappyModel.C14 HappyModel.C14.SM HappyModel.C14.BT

theorem runPc_rb (cfg : Cfg) {k : Key} {i : Nat} {snap : List Tab} {Al : Cell → Prop} :
    ∀ (n : Nat) (s : St) (pc : Pc), putSyncRank pc ≤ n → SInv cfg s → POk cfg s pc → PutSyncOk s pc →
    RB s.mem s.imms s.levels k i snap Al →
    RB (runPc cfg n s pc).mem (runPc cfg n s pc).imms (runPc cfg n s pc).levels k i snap Al
  | 0, s, pc, _, _, _, _, h => h
  | n + 1, s, pc, hr, hs, hp, hy, h => by
    show RB (if pc.isDone then s else runPc cfg n (stepOp cfg s pc).1 (stepOp cfg s pc).2).mem
      (if pc.isDone then s else runPc cfg n (stepOp cfg s pc).1 (stepOp cfg s pc).2).imms
      (if pc.isDone then s else runPc cfg n (stepOp cfg s pc).1 (stepOp cfg s pc).2).levels k i snap Al
    by_cases hd : pc.isDone = true
    · simp only [hd, if_true]; exact h
    · have hd' : pc.isDone = false := by simpa using hd
      simp only [hd', Bool.false_eq_true, if_false]
      have ho := stepOp_ok hs hp
      obtain ⟨hy', hlt⟩ := sync_step cfg s pc hy hd'
      have h1 : RInv (stepOp cfg s pc).1 k i snap none (fun c => Al c ∨ ∃ q, insOf cfg s pc = some (k, c, q)) :=
        rinv_other hs hp (found := none) h
      have h2 : RB (stepOp cfg s pc).1.mem (stepOp cfg s pc).1.imms (stepOp cfg s pc).1.levels k i snap Al := by
        refine RB.mono h1 ?_
        rintro c (hc | ⟨q, hq⟩)
        · exact hc
        · rw [sync_insOf cfg hy] at hq; cases hq
      exact runPc_rb cfg n _ _ (by omega) ho.sinv ho.pok hy' h2

theorem putSync_rb (cfg : Cfg) (s : St) (k' : Key) (c' : Cell) (hw : cfg.wal = none) (hs : SInv cfg s)
    (hi : s.imms = []) (hc : s.compacting = false) {k : Key} {i : Nat} {snap : List Tab} {Al : Cell → Prop}
    (h : RB s.mem s.imms s.levels k i snap Al) :
    RB (s.putSync cfg k' c').mem (s.putSync cfg k' c').imms (s.putSync cfg k' c').levels k i snap
      (fun c => Al c ∨ (k' = k ∧ c = c')) := by
  have hstep : stepOp cfg s (.pStart k' c') = memInsert s k' c' := by
    simp only [stepOp, putStart, hw]
  have hrun : s.putSync cfg k' c' = runPc cfg 4 (memInsert s k' c').1 (memInsert s k' c').2 := by
    show runPc cfg 4 (stepOp cfg s (.pStart k' c')).1 (stepOp cfg s (.pStart k' c')).2 = _
    rw [hstep]
  have ho := stepOp_ok hs (pc := .pStart k' c') trivial
  rw [hstep] at ho
  rw [hrun]
  have h1 : RB (memInsert s k' c').1.mem (memInsert s k' c').1.imms (memInsert s k' c').1.levels k i snap
      (fun c => Al c ∨ (k' = k ∧ c = c')) := rinv_memInsert (found := none) h k' c'
  exact runPc_rb cfg 4 _ _ (by show 3 ≤ 4; decide) ho.sinv ho.pok ⟨hi, hc⟩ h1

/-- a whole commit application -/
theorem applyWrites_rb (cfg : Cfg) (hw : cfg.wal = none) {k : Key} {i : Nat} {snap : List Tab} :
    ∀ (w : KV) (st : St) (Al : Cell → Prop), SInv cfg st → st.imms = [] → st.compacting = false →
    RB st.mem st.imms st.levels k i snap Al →
    ∃ st', applyWrites (.lsm cfg st) w = .lsm cfg st' ∧
      RB st'.mem st'.imms st'.levels k i snap (fun c => Al c ∨ ∃ e ∈ w, e.1 = k ∧ c = some e.2)
  | [], st, Al, _, _, _, h => ⟨st, rfl, RB.mono h fun c hc => Or.inl hc⟩
  | e :: r, st, Al, hs, hi, hc, h => by
    obtain ⟨a, b, d, _⟩ := putSync_spec cfg st e.1 (some e.2) hw hs hi hc
    obtain ⟨st', h1, h2⟩ := applyWrites_rb cfg hw r (st.putSync cfg e.1 (some e.2)) _ a b d
      (putSync_rb cfg st e.1 (some e.2) hw hs hi hc h)
    refine ⟨st', h1, RB.mono h2 ?_⟩
    rintro c ((hc | ⟨hk, hc⟩) | ⟨x, hx, hk, hc⟩)
    · exact Or.inl hc
    · exact Or.inr ⟨e, List.mem_cons_self .., hk, hc⟩
    · exact Or.inr ⟨x, List.mem_cons_of_mem _ hx, hk, hc⟩

/-! ### undoing the commit log -/

/-- fetching `c` now is as good as fetching the current value, for a snapshot at version `n` -/
def SV (tm : TM) (n : Nat) (k : Key) (c : Option Nat) : Prop :=
  snapshotValue n k c tm.log = snapshotValue n k (tm.store.getSync k) tm.log

theorem sv_refl (tm : TM) (n : Nat) (k : Key) : SV tm n k (tm.store.getSync k) := rfl

theorem sv_congr {tm tm' : TM} (h1 : tm'.store = tm.store) (h2 : tm'.log = tm.log) {n : Nat} {k : Key} {c : Option Nat}
    (h : SV tm n k c) : SV tm' n k c := by
  unfold SV at *; rw [h1, h2]; exact h

theorem lookup_prior_some (w : KV) (g : Key → Option Nat) (k : Key) (h : k ∈ w.map (·.1)) :
    (w.map fun e => (e.1, g e.1)).lookup k = some (g k) := by
  induction w with
  | nil => cases h
  | cons e r ih =>
    simp only [List.map_cons, List.lookup_cons]
    by_cases hk : k = e.1
    · subst hk; simp
    · have : (k == e.1) = false := by simpa using hk
      rw [this]
      simp only [List.map_cons, List.mem_cons] at h
      rcases h with h | h
      · exact absurd h hk
      · exact ih h

/-- after a commit (one more log entry, `n` not above the old version): every cell that was good, and every
    cell the commit wrote to `k`, is good -/
theorem sv_commit {tm tm' : TM} {slot : Nat} {tx : Tx} (hc : CommitOk tm slot tx tm') (ok : Store → Prop)
    (hok : ok tm.store)
    (get_put : ∀ s k v k', ok s → (s.putSync k v).getSync k' = if k' = k then some v else s.getSync k')
    (ok_put : ∀ s k v, ok s → ok (s.putSync k v))
    {n : Nat} (hn : n ≤ tm.version) {k : Key} {c : Option Nat}
    (h : SV tm n k c ∨ ∃ e ∈ tx.wset, e.1 = k ∧ c = some e.2) : SV tm' n k c := by
  unfold SV
  rw [hc.log, snapshotValue_append, snapshotValue_append]
  have hv : ¬ (tm.version + 1 ≤ n) := by omega
  by_cases hk : k ∈ tx.wset.map (·.1)
  · -- the new entry answers for `k`, whatever was fetched
    have e1 : ∀ cur, snapshotValue n k cur [commitEntry tm tx] = tm.store.getSync k := by
      intro cur
      simp only [snapshotValue, commitEntry, hv, decide_false, Bool.false_or]
      have : (tx.wset.map (·.1)).contains k = true := by simpa using hk
      simp only [this, Bool.not_true, Bool.false_eq_true, if_false]
      rw [lookup_prior_some tx.wset tm.store.getSync k hk]
    rw [e1, e1]
  · have e1 : ∀ cur, snapshotValue n k cur [commitEntry tm tx] = cur := by
      intro cur
      have : (tx.wset.map (·.1)).contains k = false := by simpa using hk
      simp only [snapshotValue, commitEntry, this, Bool.not_false, Bool.or_true, if_true]
    rw [e1, e1]
    have hsame : tm'.store.getSync k = tm.store.getSync k := by
      rw [hc.store]
      have := (applyWrites_spec ok ok_put get_put tx.wset tm.store tm.store.getSync hok (fun _ => rfl)).2 k
      rw [this, applyF_notin _ _ _ hk]
    rw [hsame]
    rcases h with h | ⟨e, he, hek, _⟩
    · exact h
    · exact absurd (hek ▸ List.mem_map_of_mem he) hk

end HappyModel.C14.SM.LM
