import HappyProofs.C14.StoreJudge
/-!
# C14 — B-tree / KVStore: the Spec judge accepts the model's observations under every schedule

`btree_read_regular` (`store_read_regular` for both kinds of store): for every workload with distinct operation
ids and distinct put values over keys `< nkeys`, every store that is an empty B-tree of order ≥ 3 or an empty
KVStore, and EVERY schedule of generator segments, the observations of the segment machine `stepS`
(`get`/`put`/`delete`/`scan`/`size` generators interleaved at their latency yields) satisfy `judgeStore`:
every get and every key of every scan returns the latest write completed before it began or a concurrent one,
scans are sorted, duplicate-free and in range, `delete` flags and `size` are consistent with the writes.
-/
namespace HappyModel.C14.SM.SR
open HappyModel.C14 HappyModel.C14.SM HappyModel.C14.BT

def KeysBelow (nkeys : Nat) (ops : List (Nat × SOp)) : Prop := ∀ o ∈ ops, keyLtOp nkeys o.2 = true

instance (nkeys : Nat) (ops : List (Nat × SOp)) : Decidable (KeysBelow nkeys ops) := by
  unfold KeysBelow; infer_instance

theorem kindOf_get {op : SOp} {k : Key} (h : kindOf op = some (.get k)) : op = .get k := by
  cases op with
  | get k' => simp only [kindOf] at h; injection h with h; injection h with a; subst a; rfl
  | put k' v' => simp only [kindOf] at h; injection h with h; cases h
  | del k' => simp only [kindOf] at h; injection h with h; cases h
  | scan lo hi => simp only [kindOf] at h; injection h with h; cases h
  | size => cases h

theorem kindOf_scan {op : SOp} {lo hi : Key} (h : kindOf op = some (.scan lo hi)) : op = .scan lo hi := by
  cases op with
  | scan lo' hi' => simp only [kindOf] at h; injection h with h; injection h with a b; subst a; subst b; rfl
  | put k' v' => simp only [kindOf] at h; injection h with h; cases h
  | del k' => simp only [kindOf] at h; injection h with h; cases h
  | get k' => simp only [kindOf] at h; injection h with h; cases h
  | size => cases h

theorem kindOf_del {op : SOp} {k : Key} (h : kindOf op = some (.del k)) : op = .del k := by
  cases op with
  | del k' => simp only [kindOf] at h; injection h with h; injection h with a; subst a; rfl
  | put k' v' => simp only [kindOf] at h; injection h with h; cases h
  | get k' => simp only [kindOf] at h; injection h with h; cases h
  | scan lo hi => simp only [kindOf] at h; injection h with h; cases h
  | size => cases h

variable {ops : List (Nat × SOp)} {s : Store} {fs : List (Frame SPc)} {n : Nat} {log : List Ev}

/-! ### reads and scans -/

theorem judgeOpP_okS (pfx : String) (nkeys : Nat) (hd : DistinctS ops) (h : RInv ops s fs n log) {o : ORec}
    (ho : o ∈ obsOfS ops fs) : judgeOpP pfx (writesOf (obsOfS ops fs)) nkeys o = none := by
  have hws := (wsOkS_of_rinv hd h).toWsOk
  obtain ⟨f, hf, hr⟩ := List.mem_filterMap.mp ho
  obtain ⟨op, hb, hl, hko, hid, he, hgot, hrows⟩ := recOfS_some hr
  unfold judgeOpP
  split
  · rename_i k e hk hoe
    rw [hk] at hko
    have := kindOf_get hko; subst this
    rw [he] at hoe
    obtain ⟨op', r, b, a, hop', hpc, hb', hba, hae, hact⟩ := ended_acted h hf hoe
    rw [hl] at hop'; injection hop' with hop'; subst hop'
    rw [hb] at hb'; injection hb' with hb'
    rw [hpc, hact.1] at hgot
    have hgot' : o.got = valAt log k a := hgot
    rw [hgot', judgeRead_valAt hws h.sortedN (by omega) hae]
    rfl
  · rename_i lo hi e hk hoe
    rw [hk] at hko
    have := kindOf_scan hko; subst this
    rw [he] at hoe
    obtain ⟨op', r, b, a, hop', hpc, hb', hba, hae, hact⟩ := ended_acted h hf hoe
    rw [hl] at hop'; injection hop' with hop'; subst hop'
    rw [hb] at hb'; injection hb' with hb'
    obtain ⟨⟨d, hr', h1, h2, h3⟩, _⟩ := hact
    rw [hpc, hr'] at hrows
    have hrows' : o.rows = d := hrows
    rw [hrows']
    have hany : (d.any fun r => !(decide (lo ≤ r.1) && decide (r.1 < hi))) = false := by
      apply List.any_eq_false.mpr
      intro r hr
      have := h2 r hr
      simp [this.1, this.2]
    rw [h1, hany]
    simp only [Bool.not_true, Bool.false_eq_true, if_false]
    apply List.findSome?_eq_none_iff.mpr
    intro k _
    split
    · rename_i hc
      simp only [Bool.and_eq_true, decide_eq_true_eq] at hc
      rw [h3 k hc.1 hc.2, judgeRead_valAt hws h.sortedN (by omega) hae]
      rfl
    · rfl
  · rfl

/-! ### delete flags -/

theorem delFlagOf_some {f : Frame SPc} {x : Nat × Bool} (h : delFlagOf ops f = some x) :
    x.1 = f.id ∧ f.pc = .done (.flag x.2) := by
  unfold delFlagOf at h
  split at h
  · rename_i k e fl _ _ hpc
    injection h with h; subst h
    exact ⟨rfl, hpc⟩
  · cases h

theorem judgeDel_okS (pfx : String) (hd : DistinctS ops) (h : RInv ops s fs n log) {o : ORec}
    (ho : o ∈ obsOfS ops fs) {fl : Bool} (hfl : (extraOfS ops fs).delFlags.lookup o.id = some fl) :
    judgeDel pfx (writesOf (obsOfS ops fs)) o fl = none := by
  have hws := wsOkS_of_rinv hd h
  obtain ⟨f, hf, hr⟩ := List.mem_filterMap.mp ho
  obtain ⟨op, hb, hl, hko, hid, he, _, _⟩ := recOfS_some hr
  unfold judgeDel
  split
  · rename_i k e hk hoe
    rw [hk] at hko
    have := kindOf_del hko; subst this
    rw [he] at hoe
    obtain ⟨op', r, b, a, hop', hpc, hb', hba, hae, hact⟩ := ended_acted h hf hoe
    rw [hl] at hop'; injection hop' with hop'; subst hop'
    rw [hb] at hb'; injection hb' with hb'
    obtain ⟨hr', evd, hevd, hd1, hd2, _, _⟩ := hact
    -- the flag in the table is the one of this frame
    obtain ⟨f', hf', hdf⟩ := List.mem_filterMap.mp (mem_of_lookup hfl)
    obtain ⟨e1, e2⟩ := delFlagOf_some hdf
    have hff : f' = f := eq_of_nodup_map (·.id) h.ids f' hf' f hf (by rw [← hid]; exact e1.symm)
    subst hff
    rw [hpc, hr'] at e2
    have hflv : fl = (valAt log k a).isSome := by
      injection e2 with e2; injection e2 with e2; exact e2.symm
    have hLD := live_dead_of (os := (writesOf (obsOfS ops fs)).filter fun w => w.id != o.id) (k := k) (rb := o.b) (re := e)
      (a := a) hws h.sortedN (fun w hw => (List.mem_filter.mp hw).1) (by
        intro w hw ev hev hwid hlt
        refine List.mem_filter.mpr ⟨hw, ?_⟩
        simp only [bne_iff_ne, ne_eq]
        intro hwo
        have : ev = evd := eq_of_nodup_map (·.id) h.evIds ev hev evd hevd (by rw [← hwid, hwo, hid, hd1])
        subst this
        omega) (by omega) hae
    simp only []
    cases hv : (valAt log k a).isSome with
    | true =>
      rw [hv] at hflv; subst hflv
      rw [hLD.1 hv]
      simp
    | false =>
      rw [hv] at hflv; subst hflv
      rw [hLD.2 hv]
      simp
  · rfl

/-! ### sizes -/

theorem sizeObsOf_some {f : Frame SPc} {x : Nat × Nat × Nat × Nat} (h : sizeObsOf ops f = some x) :
    ops.lookup f.id = some .size ∧ f.b = some x.2.1 ∧ f.e = some x.2.2.1 ∧ f.pc = .done (.num x.2.2.2) := by
  unfold sizeObsOf at h
  split at h
  · rename_i b e m hl hb he hpc
    injection h with h; subst h
    exact ⟨hl, hb, he, hpc⟩
  · cases h

/-- a size taken at a segment `a ∈ [b, e]` lies between the keys that cannot be absent and those that can be
    present -/
theorem size_bounds (pfx : String) (nkeys : Nat) (hd : DistinctS ops) (hk : KeysBelow nkeys ops)
    (h : RInv ops s fs n log) {m : KV} (hm : SortedKV m) {a b e id : Nat} (hma : ∀ k, m.lookup k = valAt log k a)
    (hba : b ≤ a) (hae : a ≤ e) :
    judgeSize pfx (writesOf (obsOfS ops fs)) nkeys (id, b, e, m.length) = none := by
  have hws := wsOkS_of_rinv hd h
  have hLD : ∀ k, _ := fun k => live_dead_of (os := writesOf (obsOfS ops fs)) (k := k) (rb := b) (re := e) (a := a)
    hws h.sortedN (fun w hw => hw) (fun w hw _ _ _ _ => hw) hba hae
  have hlt : ∀ x ∈ m, x.1 < nkeys := by
    intro x hx
    have hs : (m.lookup x.1).isSome = true := (lookup_isSome_iff x.1 m).mpr (List.mem_map_of_mem hx)
    rw [hma] at hs
    rcases valAt_cases h.sortedN x.1 a with ⟨h1, _⟩ | ⟨ev, hev, h1, _, _, _⟩
    · rw [h1] at hs; cases hs
    · have := hk _ (mem_of_lookup (h.evOp ev hev))
      rw [h1] at this
      cases hc : ev.cell with
      | none => rw [hc] at this; simpa [cellOp, keyLtOp] using this
      | some v => rw [hc] at this; simpa [cellOp, keyLtOp] using this
  have hlen := length_eq_live m nkeys hm hlt
  have hlo : ((List.range nkeys).filter fun k => !canBeDead (writesOf (obsOfS ops fs)) k b e).length ≤ m.length := by
    rw [hlen]
    apply filter_length_le
    intro k _ hp
    cases hv : (m.lookup k).isSome with
    | true => rfl
    | false =>
      rw [hma] at hv
      rw [(hLD k).2 hv] at hp
      cases hp
  have hhi : m.length ≤ ((List.range nkeys).filter fun k => canBeLive (writesOf (obsOfS ops fs)) k b e).length := by
    rw [hlen]
    apply filter_length_le
    intro k _ hp
    rw [hma] at hp
    exact (hLD k).1 hp
  unfold judgeSize
  simp only []
  rw [if_neg (by omega), if_neg (by omega)]

theorem judgeSize_okS (pfx : String) (nkeys : Nat) (hd : DistinctS ops) (hk : KeysBelow nkeys ops)
    (h : RInv ops s fs n log) {x : Nat × Nat × Nat × Nat} (hx : x ∈ (extraOfS ops fs).sizes) :
    judgeSize pfx (writesOf (obsOfS ops fs)) nkeys x = none := by
  obtain ⟨f, hf, hsz⟩ := List.mem_filterMap.mp hx
  obtain ⟨hl, hb, he, hpc⟩ := sizeObsOf_some hsz
  obtain ⟨op', r, b, a, hop', hpc', hb', hba, hae, hact⟩ := ended_acted h hf he
  rw [hl] at hop'; injection hop' with hop'; subst hop'
  rw [hb] at hb'; injection hb' with hb'
  obtain ⟨⟨m, hm, hr', hma⟩, _⟩ := hact
  rw [hpc, hr'] at hpc'
  have hxm : x.2.2.2 = m.length := by injection hpc' with e; injection e
  have : x = (x.1, x.2.1, x.2.2.1, m.length) := by rw [← hxm]
  rw [this]
  exact size_bounds pfx nkeys hd hk h hm hma (by omega) hae

/-! ### the judge accepts -/

theorem store_judge_of_rinv (pfx : String) (nkeys : Nat) (hd : DistinctS ops) (hk : KeysBelow nkeys ops)
    (h : RInv ops s fs n log) : judgeStore pfx (obsOfS ops fs) nkeys (extraOfS ops fs) = none := by
  have h1 : judgeOpsP pfx (obsOfS ops fs) nkeys = none := by
    unfold judgeOpsP
    apply List.findSome?_eq_none_iff.mpr
    intro o ho
    rw [judgeOpP_okS pfx nkeys hd h ho]
    rfl
  have h2 : ((obsOfS ops fs).findSome? fun o => ((extraOfS ops fs).delFlags.lookup o.id).bind fun f =>
      judgeDel pfx (writesOf (obsOfS ops fs)) o f) = none := by
    apply List.findSome?_eq_none_iff.mpr
    intro o ho
    cases hfl : (extraOfS ops fs).delFlags.lookup o.id with
    | none => rfl
    | some fl => exact judgeDel_okS pfx hd h ho hfl
  unfold judgeStore
  rw [h1]
  simp only []
  rw [h2]
  simp only []
  apply List.findSome?_eq_none_iff.mpr
  intro x hx
  exact judgeSize_okS pfx nkeys hd hk h hx

end HappyModel.C14.SM.SR
