import HappyProofs.C14.TxnObs
/-!
# Transactions at run level, part A: frames, schedules, program splits, write sets

Generic lemmas for `stepFrames` / `runFrames` in terms of `frameOf` (the first frame with a given id, which
is the one `stepFrames` steps), splitting a program at an operation, and `wsetBefore` as a fold.
-/
namespace HappyModel.C14.SM
open HappyModel.C14 HappyModel.C14.BT

def frameOf {π : Type} (fs : List (Frame π)) (id : Nat) : Option (Frame π) := fs.find? fun f => f.id == id

theorem frameOf_id {π : Type} {fs : List (Frame π)} {id : Nat} {f : Frame π} (h : frameOf fs id = some f) :
    f.id = id := by
  have := List.find?_some h
  simpa using this

theorem frameOf_mem {π : Type} {fs : List (Frame π)} {id : Nat} {f : Frame π} (h : frameOf fs id = some f) :
    f ∈ fs := List.mem_of_find?_eq_some h

theorem frameOf_cons {π : Type} (g : Frame π) (fs : List (Frame π)) (id : Nat) :
    frameOf (g :: fs) id = if g.id = id then some g else frameOf fs id := by
  simp only [frameOf, List.find?_cons]
  by_cases h : g.id = id
  · simp [h]
  · have : (g.id == id) = false := by simp [h]
    simp [h, this]

theorem frameOf_some_of_ids {π : Type} {fs : List (Frame π)} {id : Nat} (h : id ∈ fs.map (·.id)) :
    ∃ f, frameOf fs id = some f := by
  induction fs with
  | nil => simp at h
  | cons g fs ih =>
    rw [frameOf_cons]
    by_cases hg : g.id = id
    · exact ⟨g, by simp [hg]⟩
    · simp only [List.map_cons, List.mem_cons] at h
      rcases h with h | h
      · exact absurd h.symm hg
      · simpa [hg] using ih h

theorem frameOf_of_mem {π : Type} {fs : List (Frame π)} {f : Frame π} (hnd : (fs.map (·.id)).Nodup)
    (hf : f ∈ fs) : frameOf fs f.id = some f := by
  induction fs with
  | nil => simp at hf
  | cons g fs ih =>
    rw [frameOf_cons]
    simp only [List.map_cons, List.nodup_cons] at hnd
    simp only [List.mem_cons] at hf
    rcases hf with rfl | hf
    · simp
    · have : g.id ≠ f.id := fun e => hnd.1 (e ▸ List.mem_map.2 ⟨f, hf, rfl⟩)
      simp only [this, if_false]
      exact ih hnd.2 hf

section generic
variable {σ π : Type} (step : σ → π → σ × π) (isDone : π → Bool)

theorem stepFrames_none (st : σ) (n id : Nat) (fs : List (Frame π)) (h : frameOf fs id = none) :
    stepFrames step isDone st n id fs = (st, fs) := by
  induction fs with
  | nil => rfl
  | cons g fs ih =>
    rw [frameOf_cons] at h
    by_cases hg : g.id = id
    · simp [hg] at h
    · simp only [hg, if_false] at h
      have hb : (g.id == id) = false := by simp [hg]
      simp only [stepFrames, hb, Bool.false_eq_true, if_false, ih h]

theorem stepFrames_done (st : σ) (n id : Nat) (fs : List (Frame π)) (f : Frame π) (h : frameOf fs id = some f)
    (hd : isDone f.pc = true) : stepFrames step isDone st n id fs = (st, fs) := by
  induction fs with
  | nil => rfl
  | cons g fs ih =>
    rw [frameOf_cons] at h
    by_cases hg : g.id = id
    · simp only [hg, if_true, Option.some.injEq] at h
      subst h
      have hb : (g.id == id) = true := by simp [hg]
      simp only [stepFrames, hb, if_true, hd]
    · simp only [hg, if_false] at h
      have hb : (g.id == id) = false := by simp [hg]
      simp only [stepFrames, hb, Bool.false_eq_true, if_false, ih h]

/-- the frame after one more segment at position `n` -/
def Frame.next (f : Frame π) (n : Nat) (pc' : π) : Frame π :=
  { f with pc := pc', b := f.b.orElse (fun _ => some n), e := if isDone pc' then some n else none }

theorem stepFrames_step (st : σ) (n id : Nat) (fs : List (Frame π)) (f : Frame π) (h : frameOf fs id = some f)
    (hd : isDone f.pc = false) :
    (stepFrames step isDone st n id fs).1 = (step st f.pc).1 ∧
    (∀ id', frameOf (stepFrames step isDone st n id fs).2 id' =
      if id' = id then some (Frame.next isDone f n (step st f.pc).2) else frameOf fs id') ∧
    (stepFrames step isDone st n id fs).2.map (·.id) = fs.map (·.id) := by
  induction fs with
  | nil => simp [frameOf] at h
  | cons g fs ih =>
    rw [frameOf_cons] at h
    by_cases hg : g.id = id
    · simp only [hg, if_true, Option.some.injEq] at h
      subst h
      have hb : (g.id == id) = true := by simp [hg]
      refine ⟨by simp [stepFrames, hb, hd], ?_, by simp [stepFrames, hb, hd]⟩
      intro id'
      simp only [stepFrames, hb, if_true, hd, Bool.false_eq_true, if_false]
      rw [frameOf_cons, frameOf_cons]
      by_cases h' : id' = id
      · simp [h', hg, Frame.next]
      · have : ¬ g.id = id' := fun e => h' (by omega)
        simp [h', hg, Ne.symm h']
    · simp only [hg, if_false] at h
      have hb : (g.id == id) = false := by simp [hg]
      obtain ⟨i1, i2, i3⟩ := ih h
      refine ⟨by simp [stepFrames, hb, i1], ?_, by simp [stepFrames, hb, i3]⟩
      intro id'
      simp only [stepFrames, hb, Bool.false_eq_true, if_false]
      rw [frameOf_cons, frameOf_cons, i2]
      by_cases h' : id' = id
      · have : ¬ g.id = id' := fun e => hg (by omega)
        simp [h', hg]
      · simp [h']

theorem runFrames_snoc (st : σ) (fs : List (Frame π)) (m : Nat) (l : List Nat) (x : Nat) :
    runFrames step isDone st fs m (l ++ [x]) =
      stepFrames step isDone (runFrames step isDone st fs m l).1 (m + l.length) x
        (runFrames step isDone st fs m l).2 := by
  induction l generalizing st fs m with
  | nil => simp [runFrames]
  | cons y l ih =>
    simp only [List.cons_append, runFrames, ih, List.length_cons]
    have : m + 1 + l.length = m + (l.length + 1) := by omega
    rw [this]

end generic

/-! ### programs -/

theorem lookup_split {α : Type} {ops : List (Nat × α)} {id : Nat} {op : α} (h : ops.lookup id = some op) :
    ∃ pre post, ops = pre ++ (id, op) :: post := by
  induction ops with
  | nil => simp at h
  | cons a ops ih =>
    obtain ⟨i, x⟩ := a
    simp only [List.lookup_cons] at h
    by_cases ha : id = i
    · have : (id == i) = true := by simp [ha]
      simp only [this, Option.some.injEq] at h
      exact ⟨[], ops, by simp_all⟩
    · have : (id == i) = false := by simp [ha]
      simp only [this] at h
      obtain ⟨pre, post, e⟩ := ih h
      exact ⟨(i, x) :: pre, post, by simp [e]⟩

theorem lookup_of_split {α : Type} {ops pre post : List (Nat × α)} {o : Nat × α}
    (hnd : (ops.map (·.1)).Nodup) (h : ops = pre ++ o :: post) : ops.lookup o.1 = some o.2 := by
  subst h
  obtain ⟨j, y⟩ := o
  induction pre with
  | nil => simp
  | cons a pre ih =>
    obtain ⟨i, x⟩ := a
    simp only [List.cons_append, List.map_cons, List.nodup_cons] at hnd
    have hne : j ≠ i := fun e => hnd.1 (by simp [← e])
    have : (j == i) = false := by simp [hne]
    simp only [List.cons_append, List.lookup_cons, this]
    exact ih hnd.2

theorem split_notin {α : Type} {pre post : List (Nat × α)} {o : Nat × α}
    (hnd : ((pre ++ o :: post).map (·.1)).Nodup) : (∀ a ∈ pre, a.1 ≠ o.1) ∧ (∀ a ∈ post, a.1 ≠ o.1) := by
  simp only [List.map_append, List.map_cons, List.nodup_append, List.nodup_cons, List.mem_map, List.mem_cons] at hnd
  refine ⟨fun a ha e => ?_, fun a ha e => ?_⟩
  · exact hnd.2.2 a.1 ⟨a, ha, rfl⟩ o.1 (.inl rfl) e
  · exact hnd.2.1.1 ⟨a, ha, e⟩

/-- one operation's effect on the write set being built for `slot` -/
def wstepM (slot : Nat) (w : KV) (o : Nat × TOp) : KV :=
  match o.2 with
  | .write s k v => if s == slot then dictSet k v w else w
  | _ => w

/-- effect of an operation on the write set of its own transaction -/
def opW : TOp → KV → KV
  | .write _ k v, w => dictSet k v w
  | _, w => w

theorem wsetBefore_eqM (ops : List (Nat × TOp)) (id slot : Nat) :
    wsetBefore ops id slot = (ops.takeWhile fun o => o.1 != id).foldl (wstepM slot) [] := rfl

theorem wstep_eq (slot : Nat) (w : KV) (o : Nat × TOp) :
    wstepM slot w o = if o.2.slot = slot then opW o.2 w else w := by
  obtain ⟨i, op⟩ := o
  by_cases h : op.slot = slot
  · rw [if_pos h]; cases op <;> simp_all [wstepM, opW, TOp.slot]
  · rw [if_neg h]; cases op <;> simp_all [wstepM, TOp.slot]

theorem foldl_wstep_none (slot : Nat) (l : List (Nat × TOp)) (w : KV) (h : ∀ a ∈ l, a.2.slot ≠ slot) :
    l.foldl (wstepM slot) w = w := by
  induction l generalizing w with
  | nil => rfl
  | cons a l ih =>
    simp only [List.foldl_cons]
    rw [wstep_eq, if_neg (h a (by simp))]
    exact ih w fun a ha => h a (by simp [ha])

theorem wsetBefore_split {ops pre post : List (Nat × TOp)} {o : Nat × TOp} (hnd : (ops.map (·.1)).Nodup)
    (h : ops = pre ++ o :: post) (slot : Nat) : wsetBefore ops o.1 slot = pre.foldl (wstepM slot) [] := by
  subst h
  have hp := (split_notin hnd).1
  rw [wsetBefore_eqM]
  congr 1
  clear hnd
  induction pre with
  | nil => simp
  | cons a pre ih =>
    have : (a.1 != o.1) = true := by simpa using hp a (by simp)
    simp only [List.cons_append, List.takeWhile_cons, this, if_true]
    rw [ih fun a ha => hp a (by simp [ha])]

end HappyModel.C14.SM
