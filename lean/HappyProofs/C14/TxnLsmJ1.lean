import HappyProofs.C14.TxnTraceSide
/-!
# The side invariant `LJ` for transactions over `Store.lsm`, part 1: definitions, obligations (1) and (2)
-/
namespace HappyModel.C14.SM.LM
open HappyModel.C14 HappyModel.C14.SM HappyModel.C14.BT

/-- no READ_COMMITTED transaction in the program -/
def NoRC (ops : List (Nat × TOp)) : Prop := ∀ o ∈ ops, ∀ s, o.2 ≠ .begin s .rc

/-- a read of slot `s`, key `k`, suspended inside the LSM tree's `get` at `p` -/
def RdOk (tm : TM) (s : Nat) (k : Key) (p : SPc) : Prop :=
  ∃ cfg st i t r tx, tm.store = .lsm cfg st ∧ p = .lsmGet (.gAt k i t r) ∧ tm.tx? s = some tx ∧
    RB st.mem st.imms st.levels k i (t :: r) (SV tm tx.snap k)

structure LJ (tm : TM) (fs : List (Frame TPc)) : Prop where
  st : lsmOk tm.store
  lvl : ∀ s tx, tm.tx? s = some tx → tx.level ≠ .rc
  rd : ∀ id f, frameOf fs id = some f → ∀ s k p, f.pc = .rd s k p → RdOk tm s k p

/-! ### one segment of the tree's `get` -/

theorem lsmGetStep_gAt {cfg : Cfg} {st : St} (hs : SInv cfg st) {k : Key} {i : Nat} {t : Tab} {r : List Tab}
    {Al : Cell → Prop} (h : RB st.mem st.imms st.levels k i (t :: r) Al) :
    (∃ c, lsmGetStep cfg st (.gAt k i t r) = .done (.val c) ∧ Al c) ∨
    ∃ i' t' r', lsmGetStep cfg st (.gAt k i t r) = .lsmGet (.gAt k i' t' r') ∧
      RB st.mem st.imms st.levels k i' (t' :: r') Al := by
  have e0 : (HappyModel.C14.stepOp cfg st (.gAt k i t r)).2 = (getResume cfg st k i t r).2 := rfl
  obtain ⟨h1, h2⟩ := getResume_ok (cfg := cfg) hs k i t r h
  unfold lsmGetStep
  rw [e0]
  rcases getResume_shape cfg st k i t r with ⟨i', t', r', e⟩ | ⟨c, e⟩
  · rw [e]; exact .inr ⟨i', t', r', rfl, h1 i' t' r' e⟩
  · rw [e]; exact .inl ⟨c, rfl, h2 c e⟩

theorem lsmGetStep_gStart {cfg : Cfg} {st : St} (hs : SInv cfg st) (k : Key) {Al : Cell → Prop} (hal : Al (st.abs k)) :
    (∃ c, lsmGetStep cfg st (.gStart k) = .done (.val c) ∧ Al c) ∨
    ∃ i' t' r', lsmGetStep cfg st (.gStart k) = .lsmGet (.gAt k i' t' r') ∧
      RB st.mem st.imms st.levels k i' (t' :: r') Al := by
  have e0 : (HappyModel.C14.stepOp cfg st (.gStart k)).2 = (getStart cfg st k).2 := rfl
  obtain ⟨h1, h2⟩ := getStart_ok (cfg := cfg) hs k hal
  unfold lsmGetStep
  rw [e0]
  rcases getStart_shape cfg st k with ⟨i', t', r', e⟩ | ⟨c, e⟩
  · rw [e]; exact .inr ⟨i', t', r', rfl, h1 i' t' r' e⟩
  · rw [e]; exact .inl ⟨c, rfl, h2 c e⟩

/-- what `readAdvance` makes of a fetched cell -/
def adjVal (tm : TM) (s : Nat) (k : Key) (c : Option Nat) : Option Nat :=
  match tm.tx? s with
  | some tx => tm.adjust tx k c
  | none => c

theorem readAdvance_of_done {tm : TM} {s : Nat} {k : Key} {p : SPc} {c : Option Nat}
    (h : (stepS tm.store p).2 = .done (.val c)) : (readAdvance tm s k p).2 = .done (.val (adjVal tm s k c)) := by
  unfold readAdvance; rw [h]; rfl

theorem readAdvance_of_lsmGet {tm : TM} {s : Nat} {k : Key} {p : SPc} {q : Pc}
    (h : (stepS tm.store p).2 = .lsmGet q) : (readAdvance tm s k p).2 = .rd s k (.lsmGet q) := by
  unfold readAdvance; rw [h]

theorem adjust_nonrc {tm : TM} {tx : Tx} (hl : tx.level ≠ .rc) (k : Key) (c : Option Nat) :
    tm.adjust tx k c = snapshotValue tx.snap k c tm.log := by
  unfold TM.adjust
  cases hlv : tx.level with
  | rc => exact absurd hlv hl
  | si => rfl
  | ser => rfl

theorem adjVal_sv {tm : TM} {s : Nat} {k : Key} {tx : Tx} (hx : tm.tx? s = some tx) (hl : tx.level ≠ .rc)
    {c : Option Nat} (h : SV tm tx.snap k c) : adjVal tm s k c = fetchVal tm s k := by
  unfold adjVal fetchVal
  rw [hx]
  simp only
  rw [adjust_nonrc hl, adjust_nonrc hl]
  exact h

theorem stepS_lsm_start (cfg : Cfg) (st : St) (k : Key) :
    (stepS (.lsm cfg st) (.start (.get k))).2 = lsmGetStep cfg st (.gStart k) := rfl

theorem stepS_lsm_get (cfg : Cfg) (st : St) (pc : Pc) :
    (stepS (.lsm cfg st) (.lsmGet pc)).2 = lsmGetStep cfg st pc := rfl

/-- the first segment of a read's `get` on a quiescent LSM store -/
theorem read_first {tm : TM} {cfg : Cfg} {st : St} (hst : tm.store = .lsm cfg st) (hs : SInv cfg st) (s : Nat) (k : Key)
    {tx : Tx} (hx : tm.tx? s = some tx) :
    (readAdvance tm s k (.start (.get k))).2 = .done (.val (fetchVal tm s k)) ∨
    ∃ p, (readAdvance tm s k (.start (.get k))).2 = .rd s k p ∧ RdOk tm s k p := by
  have hal : SV tm tx.snap k (st.abs k) := by
    have := sv_refl tm tx.snap k
    rw [hst] at this
    exact this
  rcases lsmGetStep_gStart (cfg := cfg) hs k (Al := fun c => c = st.abs k) rfl with ⟨c, e, hc⟩ | ⟨i, t, r, e, hr⟩
  · left
    have h1 : (stepS tm.store (.start (.get k))).2 = .done (.val c) := by rw [hst, stepS_lsm_start, e]
    rw [readAdvance_of_done h1]
    subst hc
    have : fetchVal tm s k = adjVal tm s k (st.abs k) := by
      unfold fetchVal adjVal; rw [hst]; rfl
    rw [this]
  · right
    have h1 : (stepS tm.store (.start (.get k))).2 = .lsmGet (.gAt k i t r) := by rw [hst, stepS_lsm_start, e]
    refine ⟨_, readAdvance_of_lsmGet h1, cfg, st, i, t, r, tx, hst, rfl, hx, RB.mono hr ?_⟩
    intro c hc
    subst hc
    exact hal

/-- a later segment -/
theorem read_later {tm : TM} {s : Nat} {k : Key} {p : SPc} (hl : ∀ s tx, tm.tx? s = some tx → tx.level ≠ .rc)
    (hok : lsmOk tm.store) (h : RdOk tm s k p) :
    (readAdvance tm s k p).2 = .done (.val (fetchVal tm s k)) ∨
    ∃ p', (readAdvance tm s k p).2 = .rd s k p' ∧ RdOk tm s k p' := by
  obtain ⟨cfg, st, i, t, r, tx, hst, rfl, hx, hr⟩ := h
  obtain ⟨cfg', st', hst', _, hs, _, _⟩ := hok
  rw [hst] at hst'
  injection hst' with e1 e2
  subst e1; subst e2
  rcases lsmGetStep_gAt (cfg := cfg) hs hr with ⟨c, e, hc⟩ | ⟨i', t', r', e, hr'⟩
  · left
    have h1 : (stepS tm.store (.lsmGet (.gAt k i t r))).2 = .done (.val c) := by rw [hst, stepS_lsm_get, e]
    rw [readAdvance_of_done h1, adjVal_sv hx (hl s tx hx) hc]
  · right
    have h1 : (stepS tm.store (.lsmGet (.gAt k i t r))).2 = .lsmGet (.gAt k i' t' r') := by rw [hst, stepS_lsm_get, e]
    exact ⟨_, readAdvance_of_lsmGet h1, cfg, st, i', t', r', tx, hst, rfl, hx, hr'⟩

/-! ### obligations (1) and (2) -/

theorem readStart_store (tm : TM) (s : Nat) (k : Key) :
    (tm.readStart s k).store = tm.store ∧ (tm.readStart s k).log = tm.log := by
  unfold TM.readStart
  split
  · split <;> exact ⟨rfl, rfl⟩
  · exact ⟨rfl, rfl⟩

theorem lj_fetch2 {tm : TM} {fs : List (Frame TPc)} (hJ : LJ tm fs) (id : Nat) (f : Frame TPc)
    (hf : frameOf fs id = some f) (s : Nat) (k : Key) (p : SPc) (hp : f.pc = .rd s k p) (r : SRes)
    (h : (readAdvance tm s k p).2 = .done r) : r = .val (fetchVal tm s k) := by
  rcases read_later hJ.lvl hJ.st (hJ.rd id f hf s k p hp) with e | ⟨p', e, _⟩
  · rw [e] at h; injection h with h; exact h.symm
  · rw [e] at h; cases h

end HappyModel.C14.SM.LM
