import HappyProofs.C14.LsmBookRun
import HappyProofs.C14.LsmSysB
/-! Bookkeeping invariant for a tree that starts from a recovered state: base events (`B ≤ ev.id`) describe the
    data present at the start and have no frame. -/
namespace HappyModel.C14

/-- class of an event: 0 = insert of this phase, 1 = base event of the recovered memtable, 2 = base event of the levels -/
def Ev.cls (B : Nat) (e : Ev) : Nat := if e.id < B then 0 else if e.id = B then 1 else 2

/-- order of the ghost log: inserts of this phase (newest first), then memtable base events, then level base events -/
def RBase (B : Nat) (a b : Ev) : Prop := a.cls B < b.cls B ∨ (a.cls B = b.cls B ∧ a.n > b.n)

theorem cls_zero {B : Nat} {e : Ev} : e.cls B = 0 ↔ e.id < B := by
  unfold Ev.cls; split
  · simp [*]
  · split <;> simp [*]

structure LInvB (cfg : Cfg) (B : Nat) (start : Nat → Pc) (y : Sys) (log : List Ev) : Prop where
  sys : SysInvB cfg y
  ids : (y.frames.map (·.id)).Nodup
  idLt : ∀ f ∈ y.frames, f.id < B
  frames : ∀ f ∈ y.frames, FrameOk cfg start y.n log f
  starts : ∀ f ∈ y.frames, (start f.id).isStart = true
  abs : ∀ k, y.st.abs k = (firstOn k log).join
  evn : ∀ e ∈ log, e.id < B → e.n < y.n
  evFrame : ∀ e ∈ log, e.id < B → ∃ f ∈ y.frames, f.id = e.id ∧ start f.id = .pStart e.key e.cell
  sortedN : log.Pairwise (RBase B)
  evIds : ∀ e1 ∈ log, ∀ e2 ∈ log, e1.id = e2.id → e1.id < B → e1 = e2

theorem linvB_step {cfg : Cfg} {B : Nat} {start : Nat → Pc} {y : Sys} {log : List Ev} (h : LInvB cfg B start y log) (id : Nat)
    (hh : HeadNow y id) : LInvB cfg B start (y.step cfg id) (logStep cfg y log id) := by
  have hsys := sysInvB_step h.sys id
  rcases gstep_cases cfg y id with ⟨h0, hl⟩ | ⟨pre, f, post, h1, h2, h3, h4, h5, h6⟩
  · rw [hl]
    rw [h0] at hsys ⊢
    exact ⟨hsys, h.ids, h.idLt, fun f hf => (h.frames f hf).later, h.starts, h.abs,
      fun e he hb => Nat.lt_succ_of_lt (h.evn e he hb), h.evFrame, h.sortedN, h.evIds⟩
  · rw [h6]
    rw [h5] at hsys ⊢
    obtain ⟨st, frames, n⟩ := y
    simp only at h1 h5 h6 hsys ⊢
    subst h1
    have hfmem : f ∈ pre ++ f :: post := by simp
    have hF := h.frames f hfmem
    simp only at hF
    have hsh := stepOp_shape cfg st (start f.id) f.pc hF.cons
    have hids := h.ids
    simp only [List.map_append, List.map_cons] at hids
    have hne : ∀ g, g ∈ pre ∨ g ∈ post → g.id ≠ f.id := by
      intro g hg
      have h' := List.nodup_append.mp hids
      rcases hg with hg | hg
      · exact h'.2.2 _ (List.mem_map_of_mem hg) _ (List.mem_cons_self ..)
      · have := (List.nodup_cons.mp h'.2.1).1
        exact fun e => this (e ▸ List.mem_map_of_mem hg)
    have hevid : ∀ e, evOf cfg st n f = some e → e.id = f.id ∧ e.n = n := by
      intro e he
      unfold evOf at he
      split at he
      · injection he with he; subst he; exact ⟨rfl, rfl⟩
      · cases he
    -- the frame that ran
    have hf' : FrameOk cfg start (n + 1) ((evOf cfg st n f).toList ++ log) (advFrame cfg st n f) := by
      have hbn : ∀ b, (advFrame cfg st n f).b = some b → b ≤ n := by
        intro b hb
        simp only [advFrame] at hb
        cases hfb : f.b with
        | none => rw [hfb] at hb; simp [Option.orElse] at hb; omega
        | some b0 =>
          rw [hfb] at hb; simp [Option.orElse] at hb
          have := (hF.started b0 hfb).1; omega
      have hbsome : ∃ b, (advFrame cfg st n f).b = some b := by
        simp only [advFrame]
        cases f.b <;> simp [Option.orElse]
      refine ⟨hsh.cons, ?_, ?_, ?_, ?_, ?_, ?_, ?_⟩
      · intro hb; obtain ⟨b, hb'⟩ := hbsome; rw [hb'] at hb; cases hb
      · intro b hb
        exact ⟨Nat.lt_succ_of_le (hbn b hb), hsh.notStart⟩
      · intro e he
        simp only [advFrame] at he
        split at he
        · rename_i hd
          injection he with he; subst he
          obtain ⟨b, hb⟩ := hbsome
          exact ⟨hd, Nat.lt_succ_self _, b, hb, hbn b hb⟩
        · cases he
      · intro hd
        simp only [advFrame] at hd ⊢
        simp [hd]
      · intro ha e he
        cases hins : insOf cfg st f.pc with
        | some x =>
          obtain ⟨k, c, q⟩ := x
          have := (hsh.ins k c q hins).2.1
          simp only [advFrame] at ha
          rw [this] at ha; cases ha
        | none =>
          have hev : evOf cfg st n f = none := by unfold evOf; rw [hins]
          rw [hev] at he
          simp only [Option.toList, List.nil_append] at he
          have := hsh.noIns hins
          simp only [advFrame] at ha
          rw [this] at ha
          exact hF.noEv ha e he
      · intro ha k c hs
        cases hins : insOf cfg st f.pc with
        | some x =>
          obtain ⟨k', c', q⟩ := x
          obtain ⟨i1, i2, i3, i4⟩ := hsh.ins k' c' q hins
          have hs' : start f.id = .pStart k c := hs
          rw [hs'] at i3
          injection i3 with i3a i3b
          subst i3a; subst i3b
          have hev : evOf cfg st n f = some ⟨n, f.id, k, c, q⟩ := by unfold evOf; rw [hins]
          rw [hev]
          refine ⟨⟨n, f.id, k, c, q⟩, by simp, rfl, rfl, rfl, ?_, ?_, ?_⟩
          · obtain ⟨b, hb⟩ := hbsome
            exact ⟨b, hb, hbn b hb⟩
          · intro e he
            simp only [advFrame] at he
            split at he
            · injection he with he; subst he; exact Nat.le_refl _
            · cases he
          · intro hw
            have hlog := i4 hw
            have hq := hF.logSeq q hlog hw
            have hb : f.b ≠ none := by
              intro hb
              have := (hF.unstarted hb).1
              have hst := h.starts f hfmem
              rw [← this] at hst
              rw [(isStart_not_done hst).2.2] at hlog; cases hlog
            simp only [advFrame]
            cases hfb : f.b with
            | none => exact absurd hfb hb
            | some b0 => simp [hq]
        | none =>
          have hev : evOf cfg st n f = none := by unfold evOf; rw [hins]
          rw [hev]
          simp only [Option.toList, List.nil_append]
          have := hsh.noIns hins
          simp only [advFrame] at ha
          rw [this] at ha
          obtain ⟨e, he, e1, e2, e3, ⟨b, hb, hbe⟩, e5, e6⟩ := hF.hasEv ha k c hs
          refine ⟨e, he, e1, e2, e3, ⟨b, ?_, hbe⟩, ?_, ?_⟩
          · simp only [advFrame, hb]; rfl
          · intro e' he'
            simp only [advFrame] at he'
            split at he'
            · injection he' with he'; subst he'
              exact Nat.le_of_lt (h.evn e he (by rw [e1]; exact h.idLt f hfmem))
            · cases he'
          · intro hw
            rw [e6 hw]
            simp only [advFrame, hb]; rfl
      · intro q hq hw
        simp only [advFrame] at hq ⊢
        rcases hsh.logging q hq with ⟨hs, rfl⟩ | hl
        · have hb : f.b = none := by
            cases hfb : f.b with
            | none => rfl
            | some b0 => have := (hF.started b0 hfb).2; rw [hs] at this; cases this
          simp [hb]
        · have hb : f.b ≠ none := by
            intro hb
            have := (hF.unstarted hb).1
            have hst := h.starts f hfmem
            rw [← this] at hst
            rw [(isStart_not_done hst).2.2] at hl; cases hl
          cases hfb : f.b with
          | none => exact absurd hfb hb
          | some b0 => simp; exact hF.logSeq q hl hw
    have hfo : ∀ g, g ∈ pre ∨ g ∈ post → FrameOk cfg start (n + 1) ((evOf cfg st n f).toList ++ log) g := by
      intro g hg
      have hgm : g ∈ pre ++ f :: post := by
        rcases hg with hg | hg
        · simp [hg]
        · simp [hg]
      refine (h.frames g hgm).other _ ?_
      intro e he
      rw [(hevid e he).1]
      exact (hne g hg).symm
    refine ⟨hsys, ?_, ?_, ?_, ?_, ?_, ?_, ?_, ?_, ?_⟩
    · simp only [List.map_append, List.map_cons, advFrame]
      exact hids
    · intro g hg
      simp only [List.mem_append, List.mem_cons] at hg
      rcases hg with hg | rfl | hg
      · exact h.idLt g (by simp [hg])
      · exact h.idLt f hfmem
      · exact h.idLt g (by simp [hg])
    · intro g hg
      simp only [List.mem_append, List.mem_cons] at hg
      rcases hg with hg | rfl | hg
      · exact hfo g (Or.inl hg)
      · exact hf'
      · exact hfo g (Or.inr hg)
    · intro g hg
      simp only [List.mem_append, List.mem_cons] at hg
      rcases hg with hg | rfl | hg
      · exact h.starts g (by simp [hg])
      · exact h.starts f hfmem
      · exact h.starts g (by simp [hg])
    · intro k'
      have hhead : FlushHead st f.pc := by
        cases hpc : f.pc <;> simp only [FlushHead]
        rename_i t b
        exact hh f hfmem t b hpc h2
      have := abs_step h.sys.sinv (h.sys.pcs f hfmem) hhead k'
      simp only at this
      rw [this]
      unfold evOf
      cases hins : insOf cfg st f.pc with
      | none => simp only [Option.toList, List.nil_append]; exact h.abs k'
      | some x =>
        obtain ⟨k, c, q⟩ := x
        simp only [Option.toList, List.singleton_append, firstOn]
        by_cases hk : k' = k
        · subst hk; simp
        · have : ¬ k = k' := fun e => hk e.symm
          simp only [hk, this, if_false]; exact h.abs k'
    · intro e he hb
      rcases List.mem_append.mp he with he | he
      · cases hev : evOf cfg st n f with
        | none => rw [hev] at he; cases he
        | some e' =>
          rw [hev] at he
          simp only [Option.toList, List.mem_singleton] at he
          subst he
          rw [(hevid e hev).2]; exact Nat.lt_succ_self _
      · exact Nat.lt_succ_of_lt (h.evn e he hb)
    · intro e he hbase
      rcases List.mem_append.mp he with he | he
      · cases hins : insOf cfg st f.pc with
        | none =>
          have hev : evOf cfg st n f = none := by unfold evOf; rw [hins]
          rw [hev] at he; cases he
        | some x =>
          obtain ⟨k, c, q⟩ := x
          have hev : evOf cfg st n f = some ⟨n, f.id, k, c, q⟩ := by unfold evOf; rw [hins]
          rw [hev] at he
          simp only [Option.toList, List.mem_singleton] at he
          subst he
          exact ⟨advFrame cfg st n f, by simp, rfl, (hsh.ins k c q hins).2.2.1⟩
      · obtain ⟨g, hg, e1, e2⟩ := h.evFrame e he hbase
        simp only [List.mem_append, List.mem_cons] at hg
        rcases hg with hg | rfl | hg
        · exact ⟨g, by simp [hg], e1, e2⟩
        · exact ⟨advFrame cfg st n g, by simp, e1, e2⟩
        · exact ⟨g, by simp [hg], e1, e2⟩
    · cases hev : evOf cfg st n f with
      | none => simpa using h.sortedN
      | some e' =>
        simp only [Option.toList, List.singleton_append]
        refine List.pairwise_cons.mpr ⟨?_, h.sortedN⟩
        intro x hx
        have hc0 : e'.cls B = 0 := cls_zero.mpr (by rw [(hevid e' hev).1]; exact h.idLt f hfmem)
        by_cases hxb : x.id < B
        · right
          refine ⟨by rw [hc0, cls_zero.mpr hxb], ?_⟩
          rw [(hevid e' hev).2]
          exact h.evn x hx hxb
        · left
          rw [hc0]
          cases hcx : x.cls B with
          | zero => exact absurd (cls_zero.mp hcx) hxb
          | succ m => exact Nat.succ_pos _
    · cases hev : evOf cfg st n f with
      | none => simpa using h.evIds
      | some e' =>
        simp only [Option.toList, List.singleton_append]
        have hna : f.pc.applied = false := by
          unfold evOf at hev
          split at hev
          · rename_i k c q hins
            exact (hsh.ins k c q hins).1
          · cases hev
        have hno : ∀ e ∈ log, e.id ≠ e'.id := by
          intro e he
          rw [(hevid e' hev).1]
          exact hF.noEv hna e he
        intro e1 he1 e2 he2 hid hb
        rcases List.mem_cons.mp he1 with h1 | h1 <;> rcases List.mem_cons.mp he2 with h2 | h2
        · rw [h1, h2]
        · rw [h1] at hid; exact absurd hid.symm (hno e2 h2)
        · rw [h2] at hid; exact absurd hid (hno e1 h1)
        · exact h.evIds e1 h1 e2 h2 hid hb


theorem linvB_run {cfg : Cfg} {B : Nat} {start : Nat → Pc} (sched : List Nat) (y : Sys) (log : List Ev)
    (h : LInvB cfg B start y log) (ho : InOrder cfg y sched) : LInvB cfg B start (y.run cfg sched) (logRun cfg y log sched) :=
  grun_induct (LInvB cfg B start) (fun _ _ id h hh => linvB_step h id hh) sched y log h ho

end HappyModel.C14
