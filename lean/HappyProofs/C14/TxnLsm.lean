import HappyProofs.C14.LsmSyncPut
import HappyProofs.C14.TxnMain
/-!
# Transaction manager over the LSM tree (`Store.lsm`)

The transaction theorems of `TxnMain.lean` ask two map laws of the store.  A *quiescent* LSM tree without
a WAL (the structural invariant `SInv` holds, nothing is frozen, no compaction is suspended — the state
between two `put_sync` calls) obeys them (`lsm_laws`, from `putSync_spec`), the empty tree and every tree
built from it by `put_sync` is such a store (`lsmOk_init`, `lsmOk_built`), so commit-order
serializability and snapshot-read consistency hold for a `TransactionManager` over an `LSMTree` under
every compaction strategy and every bloom-filter behaviour.

The `get` *generator* of the tree (which the manager's reads go through; it pays one page read per
SSTable whose bloom filter answers "maybe") returns `get_sync` whenever the tree does not change while it
is suspended: `lsm_get_first_segment`, `lsm_get_quiescent`.
-/
namespace HappyModel.C14.SM
open HappyModel.C14

/-- an LSM tree without WAL, satisfying its structural invariant, with no flush and no compaction
    suspended -/
def lsmOk (s : Store) : Prop :=
  ∃ cfg st, s = .lsm cfg st ∧ cfg.wal = none ∧ SInv cfg st ∧ st.imms = [] ∧ st.compacting = false

theorem lsm_laws :
    (∀ s k v, lsmOk s → lsmOk (s.putSync k v)) ∧
    (∀ s k v k', lsmOk s → (s.putSync k v).getSync k' = if k' = k then some v else s.getSync k') := by
  constructor
  · rintro s k v ⟨cfg, st, rfl, hw, hs, hi, hc⟩
    obtain ⟨a, b, c, _⟩ := putSync_spec cfg st k (some v) hw hs hi hc
    exact ⟨cfg, _, rfl, hw, a, b, c⟩
  · rintro s k v k' ⟨cfg, st, rfl, hw, hs, hi, hc⟩
    exact (putSync_spec cfg st k (some v) hw hs hi hc).2.2.2 k'

/-- the empty tree -/
theorem lsmOk_init (cfg : Cfg) (hw : cfg.wal = none) (h2 : 2 ≤ cfg.maxLevels) : lsmOk (.lsm cfg (St.init cfg)) :=
  ⟨cfg, _, rfl, hw, sinv_init cfg [] h2, rfl, rfl⟩

theorem lsmOk_fold (kvs : List (Key × Nat)) : ∀ s, lsmOk s → lsmOk (kvs.foldl (fun s e => s.putSync e.1 e.2) s) := by
  induction kvs with
  | nil => exact fun s h => h
  | cons e r ih => exact fun s h => ih _ (lsm_laws.1 s e.1 e.2 h)

/-- every tree built by `put_sync`s from the empty tree (the driver's initial contents) is such a store -/
theorem lsmOk_built (cfg : Cfg) (hw : cfg.wal = none) (h2 : 2 ≤ cfg.maxLevels) (kvs : List (Key × Nat)) :
    lsmOk (kvs.foldl (fun s e => s.putSync e.1 e.2) (.lsm cfg (St.init cfg))) :=
  lsmOk_fold kvs _ (lsmOk_init cfg hw h2)

theorem serializable_commit_order_lsm (s0 : Store) (h0 : lsmOk s0) (acts : List Act) :
    let r := runA { store := s0 } acts
    (∀ k, r.1.store.getSync k = replay s0.getSync r.2 k) ∧
    ∀ pre post slot wset tx, r.2 = pre ++ Ev.committed slot wset :: post →
      r.1.tx? slot = some tx → tx.level = .ser →
      ∀ k val, Ev.fetched slot k val ∈ pre → val = replay s0.getSync pre k :=
  serializable_commit_order lsmOk lsm_laws.1 lsm_laws.2 s0 h0 acts

theorem snapshot_reads_consistent_lsm (s0 : Store) (h0 : lsmOk s0) (acts : List Act) :
    let r := runA { store := s0 } acts
    ∀ pre mid post slot k val tx, r.2 = pre ++ Ev.began slot :: mid ++ Ev.fetched slot k val :: post →
      r.1.tx? slot = some tx → tx.level ≠ .rc → val = replay s0.getSync pre k :=
  snapshot_reads_consistent lsmOk lsm_laws.1 lsm_laws.2 s0 h0 acts

/-! ### the `get` generator returns `get_sync` -/

/-- a `get k` on an LSM store whose remaining segments can only return `get_sync(k)` -/
def SGetOk (st : St) (k : Key) : SPc → Prop
  | .start (.get k') => k' = k
  | .lsmGet pc => GetOk st k pc
  | .done (.val c) => c = st.abs k
  | _ => False

theorem lsmGetStep_ok {cfg : Cfg} {st : St} (hs : SInv cfg st) {k : Key} {pc : Pc} (h : GetOk st k pc) :
    SGetOk st k (lsmGetStep cfg st pc) := by
  have h' := getOk_step (cfg := cfg) hs h
  unfold lsmGetStep
  generalize (stepOp cfg st pc).2 = pc' at h'
  cases pc' with
  | done r => cases r with
    | val c => exact h'
    | ok => cases h'
    | rows d => cases h'
  | gStart k' => exact h'
  | gAt k' i t r => exact h'
  | pStart k c => cases h'
  | pWal k c q => cases h'
  | pSync k c q => cases h'
  | pMem m => cases h'
  | pFlush t b => cases h'
  | pCompact j => cases h'
  | sStart lo hi => cases h'
  | sAt lo hi i t r acc => cases h'

/-- a `get` that finishes in its first segment (memtable hit, or no SSTable's bloom filter answers
    "maybe") returns `get_sync` -/
theorem lsm_get_first_segment (cfg : Cfg) (st : St) (k : Key) (c : Option Nat)
    (h : lsmGetStep cfg st (.gStart k) = .done (.val c)) (hs : SInv cfg st) : c = st.abs k := by
  have := lsmGetStep_ok (cfg := cfg) hs (k := k) (pc := .gStart k) rfl
  rw [h] at this
  exact this

/-- `n` segments of one operation of the store machine, nothing interleaved -/
def iterS (s : Store) : Nat → SPc → Store × SPc
  | 0, pc => (s, pc)
  | n + 1, pc => iterS (stepS s pc).1 n (stepS s pc).2

theorem sGetOk_step {cfg : Cfg} {st : St} (hs : SInv cfg st) {k : Key} {pc : SPc} (h : SGetOk st k pc) :
    (stepS (.lsm cfg st) pc).1 = .lsm cfg st ∧ SGetOk st k (stepS (.lsm cfg st) pc).2 := by
  cases pc with
  | start op =>
    cases op with
    | get k' =>
      have hk : k' = k := h
      subst hk
      exact ⟨rfl, lsmGetStep_ok hs (pc := .gStart k') rfl⟩
    | put k v => cases h
    | del k => cases h
    | scan lo hi => cases h
    | size => cases h
  | lsmGet pc => exact ⟨rfl, lsmGetStep_ok hs h⟩
  | done r => exact ⟨rfl, h⟩
  | wait op n => cases h
  | fin r => cases h

/-- **`get` against an unchanging tree**: however many page reads it takes, when the generator finishes it
    returns `get_sync`, and it leaves the tree alone -/
theorem lsm_get_quiescent (cfg : Cfg) (st : St) (k : Key) (hs : SInv cfg st) (n : Nat) :
    (iterS (.lsm cfg st) n (.start (.get k))).1 = .lsm cfg st ∧
    ∀ c, (iterS (.lsm cfg st) n (.start (.get k))).2 = .done (.val c) → c = st.abs k := by
  have gen : ∀ (n : Nat) (pc : SPc), SGetOk st k pc →
      (iterS (.lsm cfg st) n pc).1 = .lsm cfg st ∧ SGetOk st k (iterS (.lsm cfg st) n pc).2 := by
    intro n
    induction n with
    | zero => exact fun pc h => ⟨rfl, h⟩
    | succ n ih =>
      intro pc h
      obtain ⟨a, b⟩ := sGetOk_step (cfg := cfg) hs h
      show (iterS (stepS (.lsm cfg st) pc).1 n (stepS (.lsm cfg st) pc).2).1 = _ ∧
        SGetOk st k (iterS (stepS (.lsm cfg st) pc).1 n (stepS (.lsm cfg st) pc).2).2
      rw [a]
      exact ih _ b
  obtain ⟨a, b⟩ := gen n (.start (.get k)) rfl
  refine ⟨a, fun c hc => ?_⟩
  rw [hc] at b
  exact b

/-! ### non-vacuity -/

/-- memtable of one entry, two levels, size-tiered compaction as soon as a level has two SSTables -/
def exLsmCfg : Cfg := { memSize := 1, maxLevels := 2, strat := .sizeTiered 2 }

/-- five `put_sync`s (two overwrites): every one flushes, every second one compacts -/
def exLsm : Store :=
  [((0 : Key), 10), (1, 11), (0, 12), (2, 13), (1, 14)].foldl (fun s e => s.putSync e.1 e.2) (.lsm exLsmCfg (St.init exLsmCfg))

def Store.tabs : Store → List (List Tab)
  | .lsm _ st => st.levels
  | _ => []

example : lsmOk exLsm := lsmOk_built exLsmCfg rfl (by decide) _

/-- the tree really went through flushes and compactions (L0 holds one SSTable, L1 the merged one with
    the overwritten values), and `get_sync` returns the latest value of every key -/
example :
    exLsm.tabs = [[⟨5, [(1, some 14)]⟩], [⟨6, [(0, some 12), (1, some 11), (2, some 13)]⟩]] ∧
    (List.range 4).map exLsm.getSync = [some 12, some 14, some 13, none] := by
  decide

/-- a `get` that needs page reads: with a bloom filter answering "maybe" for key 2 on the L0 table
    (a false positive) the generator suspends twice and then returns `get_sync(2)` -/
def exLsmCfgFp : Cfg := { exLsmCfg with fp := [(mask [(1, some 14)], 2)] }

def exLsmFp : Store :=
  [((0 : Key), 10), (1, 11), (0, 12), (2, 13), (1, 14)].foldl (fun s e => s.putSync e.1 e.2) (.lsm exLsmCfgFp (St.init exLsmCfgFp))

example : lsmOk exLsmFp := lsmOk_built exLsmCfgFp rfl (by decide) _

example :
    (iterS exLsmFp 1 (.start (.get 2))).2.isDone = false ∧ (iterS exLsmFp 2 (.start (.get 2))).2.isDone = false ∧
    (match (iterS exLsmFp 3 (.start (.get 2))).2 with | .done (.val c) => c == some 13 | _ => false) = true ∧
    exLsmFp.getSync 2 = some 13 := by
  decide

end HappyModel.C14.SM
