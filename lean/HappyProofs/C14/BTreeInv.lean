import HappyProofs.C14.BTreeLeaf
/-!
# B-tree, part 2: the bounded search-tree invariant

`InvF f lo hi n`: with fuel `f` the node `n` is completely traversed, every leaf is strictly sorted,
and all keys below `n` lie in `[lo, hi)`; the separators of an inner node are non-decreasing and cut
`[lo, hi)` into the key ranges of the children.  Nodes may be empty (deletes never merge) and
separators need not occur as keys.
-/
namespace HappyModel.C14.BT
open HappyModel.C14

/-- children `c, rest` partition `[lo, hi)` along the separators -/
def KidsInv (P : Key → Key → Node → Prop) : Key → Key → Node → List (Key × Node) → Prop
  | lo, hi, c, [] => P lo hi c ∧ lo ≤ hi
  | lo, hi, c, (s, c') :: tl => P lo s c ∧ lo ≤ s ∧ KidsInv P s hi c' tl

def InvF : Nat → Key → Key → Node → Prop
  | _, lo, hi, .leaf kvs => SortedKV kvs ∧ keysIn lo hi kvs
  | 0, _, _, .inner _ _ => False
  | f + 1, lo, hi, .inner c0 rest => KidsInv (InvF f) lo hi c0 rest

theorem invF_leaf (f : Nat) (lo hi : Key) (kvs : KV) :
    InvF f lo hi (.leaf kvs) = (SortedKV kvs ∧ keysIn lo hi kvs) := by cases f <;> rfl

theorem toListN_leaf (f : Nat) (kvs : KV) : toListN f (.leaf kvs) = kvs := by cases f <;> rfl

/-! ### generic facts about `KidsInv` -/

theorem kids_le {P : Key → Key → Node → Prop} :
    ∀ (rest : List (Key × Node)) (lo hi : Key) (c : Node), KidsInv P lo hi c rest → lo ≤ hi
  | [], _, _, _, h => h.2
  | (s, c') :: tl, lo, hi, _, h => by
    have := kids_le tl s hi c' h.2.2
    have := h.2.1
    komega

theorem kids_append {P : Key → Key → Node → Prop} (s : Key) (c' : Node) (l2 : List (Key × Node)) (hi : Key) :
    ∀ (l1 : List (Key × Node)) (lo : Key) (c : Node),
      KidsInv P lo hi c (l1 ++ (s, c') :: l2) ↔ KidsInv P lo s c l1 ∧ KidsInv P s hi c' l2
  | [], lo, c => by simp only [List.nil_append, KidsInv, and_assoc]
  | (s1, c1) :: l1, lo, c => by
    simp only [List.cons_append, KidsInv, kids_append s c' l2 hi l1 s1 c1, and_assoc]

theorem flatKids_append (g : Node → KV) (s : Key) (c' : Node) (l2 : List (Key × Node)) :
    ∀ (l1 : List (Key × Node)) (c : Node),
      flatKids g c (l1 ++ (s, c') :: l2) = flatKids g c l1 ++ flatKids g c' l2
  | [], c => by simp only [List.nil_append, flatKids]
  | (s1, c1) :: l1, c => by
    simp only [List.cons_append, flatKids, flatKids_append g s c' l2 l1 c1, List.append_assoc]

theorem kids_keysIn {P : Key → Key → Node → Prop} {g : Node → KV}
    (hP : ∀ lo hi n, P lo hi n → keysIn lo hi (g n)) :
    ∀ (rest : List (Key × Node)) (lo hi : Key) (c : Node),
      KidsInv P lo hi c rest → keysIn lo hi (flatKids g c rest)
  | [], lo, hi, c, h => hP lo hi c h.1
  | (s, c') :: tl, lo, hi, c, h => by
    simp only [flatKids]
    have h1 := hP lo s c h.1
    have h2 := kids_keysIn hP tl s hi c' h.2.2
    have h3 := kids_le tl s hi c' h.2.2
    exact keysIn_append.2 ⟨keysIn_mono h1 (Nat.le_refl _) h3, keysIn_mono h2 h.2.1 (Nat.le_refl _)⟩

theorem kids_sorted {P : Key → Key → Node → Prop} {g : Node → KV}
    (hP : ∀ lo hi n, P lo hi n → keysIn lo hi (g n)) (hS : ∀ lo hi n, P lo hi n → SortedKV (g n)) :
    ∀ (rest : List (Key × Node)) (lo hi : Key) (c : Node),
      KidsInv P lo hi c rest → SortedKV (flatKids g c rest)
  | [], lo, hi, c, h => hS lo hi c h.1
  | (s, c') :: tl, lo, hi, c, h => by
    simp only [flatKids]
    refine sorted_append.2 ⟨hS lo s c h.1, kids_sorted hP hS tl s hi c' h.2.2, ?_⟩
    intro x hx y hy
    have h1 := hP lo s c h.1 x hx
    have h2 := kids_keysIn hP tl s hi c' h.2.2 y hy
    komega

theorem kids_mono_hi {P : Key → Key → Node → Prop}
    (hP : ∀ lo hi hi' n, P lo hi n → hi ≤ hi' → P lo hi' n) (hi hi' : Key) (hle : hi ≤ hi') :
    ∀ (rest : List (Key × Node)) (lo : Key) (c : Node), KidsInv P lo hi c rest → KidsInv P lo hi' c rest
  | [], lo, c, h => ⟨hP lo hi hi' c h.1 hle, by have := h.2; komega⟩
  | (s, c') :: tl, lo, c, h => ⟨h.1, h.2.1, kids_mono_hi hP hi hi' hle tl s c' h.2.2⟩

/-! ### consequences of `InvF` -/

theorem invF_keysIn : ∀ (f : Nat) (lo hi : Key) (n : Node), InvF f lo hi n → keysIn lo hi (toListN f n)
  | f, lo, hi, .leaf kvs, h => by
    rw [invF_leaf] at h; rw [toListN_leaf]; exact h.2
  | 0, _, _, .inner _ _, h => h.elim
  | f + 1, lo, hi, .inner c0 rest, h => kids_keysIn (invF_keysIn f) rest lo hi c0 h

theorem invF_sorted : ∀ (f : Nat) (lo hi : Key) (n : Node), InvF f lo hi n → SortedKV (toListN f n)
  | f, lo, hi, .leaf kvs, h => by
    rw [invF_leaf] at h; rw [toListN_leaf]; exact h.1
  | 0, _, _, .inner _ _, h => h.elim
  | f + 1, lo, hi, .inner c0 rest, h => kids_sorted (invF_keysIn f) (invF_sorted f) rest lo hi c0 h

theorem invF_mono_hi : ∀ (f : Nat) (lo hi hi' : Key) (n : Node), InvF f lo hi n → hi ≤ hi' → InvF f lo hi' n
  | f, lo, hi, hi', .leaf kvs, h, hle => by
    rw [invF_leaf] at h ⊢; exact ⟨h.1, keysIn_mono h.2 (Nat.le_refl _) hle⟩
  | 0, _, _, _, .inner _ _, h, _ => h.elim
  | f + 1, lo, hi, hi', .inner c0 rest, h, hle => kids_mono_hi (invF_mono_hi f) hi hi' hle rest lo c0 h

/-! ### `split` -/

/-- what the insert path needs from a split of `n` with bounds `[lo, hi)` -/
def SplitOK (P : Key → Key → Node → Prop) (g : Node → KV) (lo hi : Key) (n : Node) : Prop :=
  P lo (split n).2.1 (split n).1 ∧ P (split n).2.1 hi (split n).2.2 ∧ lo ≤ (split n).2.1 ∧ (split n).2.1 ≤ hi ∧
    g (split n).1 ++ g (split n).2.2 = g n

theorem split_leaf_ok (f : Nat) (lo hi : Key) (kvs : KV) (h : InvF f lo hi (.leaf kvs)) (hn : 1 ≤ kvs.length) :
    SplitOK (InvF f) (toListN f) lo hi (.leaf kvs) := by
  rw [invF_leaf] at h
  obtain ⟨hs, hk⟩ := h
  have hmid : kvs.length / 2 < kvs.length := by omega
  have hsplit : kvs.take (kvs.length / 2) ++ kvs.drop (kvs.length / 2) = kvs := List.take_append_drop _ _
  cases hd : kvs.drop (kvs.length / 2) with
  | nil =>
    have := congrArg List.length hd
    simp only [List.length_drop, List.length_nil] at this
    omega
  | cons e tl =>
    obtain ⟨ke, ve⟩ := e
    rw [hd] at hsplit
    have hs' := hs
    rw [← hsplit] at hs'
    obtain ⟨hs1, hs2, hs3⟩ := sorted_append.1 hs'
    have hk' := hk
    rw [← hsplit] at hk'
    obtain ⟨hk1, hk2⟩ := keysIn_append.1 hk'
    have hke := hk2 (ke, ve) (by simp)
    have hlt : ∀ x ∈ kvs.take (kvs.length / 2), x.1 < ke := fun x hx => hs3 x hx (ke, ve) (by simp)
    have hge : ∀ y ∈ (ke, ve) :: tl, ke ≤ y.1 := by
      intro y hy
      rcases List.mem_cons.1 hy with rfl | hy
      · exact Nat.le_refl _
      · exact Nat.le_of_lt ((sorted_cons.1 hs2).1 y hy)
    simp only [SplitOK, split, hd, List.head?_cons, Option.map_some, Option.getD_some, invF_leaf, toListN_leaf]
    refine ⟨⟨hs1, ?_⟩, ⟨hs2, ?_⟩, hke.1, Nat.le_of_lt hke.2, hsplit⟩
    · intro x hx
      exact ⟨(hk1 x hx).1, hlt x hx⟩
    · intro y hy
      exact ⟨hge y hy, (hk2 y hy).2⟩

theorem split_inner_eq (c0 : Node) (rest : List (Key × Node)) (s : Key) (c : Node) (tl : List (Key × Node))
    (hd : rest.drop (rest.length / 2) = (s, c) :: tl) :
    split (.inner c0 rest) = (.inner c0 (rest.take (rest.length / 2)), s, .inner c tl) := by
  simp only [split, hd]

theorem split_inner_ok (f : Nat) (lo hi : Key) (c0 : Node) (rest : List (Key × Node))
    (h : InvF (f + 1) lo hi (.inner c0 rest)) (hn : 1 ≤ rest.length) :
    SplitOK (InvF (f + 1)) (toListN (f + 1)) lo hi (.inner c0 rest) := by
  have hmid : rest.length / 2 < rest.length := by omega
  have hsplit : rest.take (rest.length / 2) ++ rest.drop (rest.length / 2) = rest := List.take_append_drop _ _
  cases hd : rest.drop (rest.length / 2) with
  | nil =>
    have := congrArg List.length hd
    simp only [List.length_drop, List.length_nil] at this
    omega
  | cons e tl =>
    obtain ⟨s, c⟩ := e
    rw [hd] at hsplit
    have h' : KidsInv (InvF f) lo hi c0 (rest.take (rest.length / 2) ++ (s, c) :: tl) := by
      rw [hsplit]; exact h
    obtain ⟨h1, h2⟩ := (kids_append s c tl hi _ lo c0).1 h'
    have hfl := flatKids_append (toListN f) s c tl (rest.take (rest.length / 2)) c0
    rw [hsplit] at hfl
    simp only [SplitOK, split_inner_eq c0 rest s c tl hd]
    exact ⟨h1, h2, kids_le _ _ _ _ h1, kids_le _ _ _ _ h2, hfl.symm⟩

theorem split_ok (order : Nat) (ho : 3 ≤ order) :
    ∀ (f : Nat) (lo hi : Key) (n : Node), InvF f lo hi n → full order n = true →
      SplitOK (InvF f) (toListN f) lo hi n
  | f, lo, hi, .leaf kvs, h, hf => by
    apply split_leaf_ok f lo hi kvs h
    simp only [full, Node.nkeys, ge_iff_le, decide_eq_true_eq] at hf
    omega
  | 0, _, _, .inner _ _, h, _ => h.elim
  | f + 1, lo, hi, .inner c0 rest, h, hf => by
    apply split_inner_ok f lo hi c0 rest h
    simp only [full, Node.nkeys, ge_iff_le, decide_eq_true_eq] at hf
    omega

end HappyModel.C14.BT
