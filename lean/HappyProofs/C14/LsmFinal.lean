import HappyProofs.C14.LsmReadRun
import HappyProofs.C14.LsmJudge
/-!
# C14 — read regularity over all interleavings

`read_regular`: for every workload (distinct ids, distinct put values), every compaction strategy and
configuration with at least two levels, every schedule of generator segments in which flushes install in start
order, the model's own observations satisfy the Spec predicate `judgeOps` (every get returns the latest write
completed before it began or a concurrent one; deleted keys stay deleted; scans return exactly the live keys of
the range, sorted).
-/
namespace HappyModel.C14

/-- decidable form of the timing hypothesis, for concrete schedules -/
def inOrderB (cfg : Cfg) (y : Sys) (sched : List Nat) : Bool :=
  (List.range sched.length).all fun n =>
    (y.run cfg (sched.take n)).frames.all fun f =>
      match f.pc with
      | .pFlush t _ => !(sched[n]? == some f.id) || ((y.run cfg (sched.take n)).st.imms.head? == some t)
      | _ => true

theorem inOrder_of_B {cfg : Cfg} {y : Sys} {sched : List Nat} (h : inOrderB cfg y sched = true) : InOrder cfg y sched := by
  intro n f hf t b hpc hs
  have hn : n < sched.length := by
    cases Nat.lt_or_ge n sched.length with
    | inl h => exact h
    | inr h => rw [List.getElem?_eq_none h] at hs; cases hs
  unfold inOrderB at h
  rw [List.all_eq_true] at h
  have h1 := h n (List.mem_range.mpr hn)
  rw [List.all_eq_true] at h1
  have h2 := h1 f hf
  rw [hpc] at h2
  simp only [Bool.or_eq_true, Bool.not_eq_true', beq_eq_false_iff_ne, ne_eq, beq_iff_eq] at h2
  rcases h2 with h2 | h2
  · exact absurd hs h2
  · exact h2

/-- the run invariants behind `read_regular` -/
theorem read_invariants (cfg : Cfg) (ops : List (Nat × OKind)) (oracle : List Bool) (sched : List Nat)
    (hd : DistinctPuts ops) (h2 : 2 ≤ cfg.maxLevels) (ho : InOrder cfg (sysOf cfg oracle ops) sched) :
    LInv cfg (startFor ops) ((sysOf cfg oracle ops).run cfg sched) (logRun cfg (sysOf cfg oracle ops) [] sched) ∧
    RdInv (startFor ops) ((sysOf cfg oracle ops).run cfg sched) (logRun cfg (sysOf cfg oracle ops) [] sched) :=
  rdinv_run sched _ [] (linv_sysOf cfg oracle hd h2) (rdinv_init (sysOf_init cfg oracle ops) _) ho

/-- the abstract map after any run is the newest insert per key: `get_sync` refines the log of
    memtable inserts (`abs_put`, `abs_delete`, `abs_flush_start`, `abs_flush_install`, `abs_compact` along the run) -/
theorem abs_refines_log (cfg : Cfg) (ops : List (Nat × OKind)) (oracle : List Bool) (sched : List Nat)
    (hd : DistinctPuts ops) (h2 : 2 ≤ cfg.maxLevels) (ho : InOrder cfg (sysOf cfg oracle ops) sched) (k : Key) :
    ((sysOf cfg oracle ops).run cfg sched).st.abs k = (firstOn k (logRun cfg (sysOf cfg oracle ops) [] sched)).join :=
  (read_invariants cfg ops oracle sched hd h2 ho).1.abs k

/-- semantic read regularity: every completed get (and every key of every completed scan) returned the cell of
    the newest memtable insert before its first segment or of an insert between its first and last segment -/
theorem read_regular_sem (cfg : Cfg) (ops : List (Nat × OKind)) (oracle : List Bool) (sched : List Nat)
    (hd : DistinctPuts ops) (h2 : 2 ≤ cfg.maxLevels) (ho : InOrder cfg (sysOf cfg oracle ops) sched) :
    ReadFacts (startFor ops) ((sysOf cfg oracle ops).run cfg sched) (logRun cfg (sysOf cfg oracle ops) [] sched) :=
  readFacts_of (read_invariants cfg ops oracle sched hd h2 ho).2

/-- `read_regular`, `deleted_stay_deleted`, `scan_sorted_live`: the model's own observations satisfy the Spec
    predicate, for every workload and every in-order interleaving of segments -/
theorem read_regular (cfg : Cfg) (nkeys : Nat) (ops : List (Nat × OKind)) (oracle : List Bool) (sched : List Nat)
    (hd : DistinctPuts ops) (h2 : 2 ≤ cfg.maxLevels) (ho : InOrder cfg (sysOf cfg oracle ops) sched) :
    judgeOps (obsOf ops ((sysOf cfg oracle ops).run cfg sched)) nkeys = none := by
  obtain ⟨hL, hR⟩ := read_invariants cfg ops oracle sched hd h2 ho
  exact judge_of_facts cfg nkeys ops _ _ hd hL (readFacts_of hR)

/-! ### non-vacuity: two writers, a reader and a scanner interleaved with flushes and a compaction -/

def exOps : List (Nat × OKind) := [(1, .put 0 7), (2, .del 0), (3, .get 0), (4, .put 1 9), (5, .scan 0 2)]
def exSched : List Nat := [1, 3, 1, 1, 2, 2, 3, 5, 2, 4, 4, 3, 4, 4, 5, 5, 3, 5]
def exCfg2 : Cfg := { memSize := 1, maxLevels := 2, strat := .sizeTiered 2 }

example : DistinctPuts exOps ∧ 2 ≤ exCfg2.maxLevels ∧ inOrderB exCfg2 (sysOf exCfg2 [] exOps) exSched = true ∧
    ((sysOf exCfg2 [] exOps).run exCfg2 exSched).frames.all (fun f => f.pc.isDone) = true ∧
    ((sysOf exCfg2 [] exOps).run exCfg2 exSched).st.levels.map List.length = [0, 1] := by
  refine ⟨⟨by decide, by decide⟩, by decide, by decide, by decide, by decide⟩

end HappyModel.C14
