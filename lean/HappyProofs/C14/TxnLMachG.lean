import HappyProofs.C14.TxnLMachF
/-!
# Transactions at run level, part G: one schedule position, the initial state, the whole run
-/
namespace HappyModel.C14.SM.LM
open HappyModel.C14 HappyModel.C14.BT

variable {ok : Store → Prop} {init : Key → Option Nat} {ops : List (Nat × TOp)} {tm : TM}
  {fs : List (Frame TPc)} {n : Nat} {tlog : List (Nat × Ev)}

theorem lookup_of_id {α : Type} {ops : List (Nat × α)} {id : Nat} (hnd : (ops.map (·.1)).Nodup)
    (h : id ∈ ops.map (·.1)) : ∃ op, ops.lookup id = some op := by
  obtain ⟨a, ha, rfl⟩ := List.mem_map.1 h
  exact ⟨a.2, mem_lookup hnd ha⟩

theorem RInv.lookup_frame (R : RInv ok init ops tm fs n tlog) (hwf : WFProg ops) {id : Nat} {f : Frame TPc}
    (hf : frameOf fs id = some f) : ∃ op, ops.lookup id = some op := by
  refine lookup_of_id hwf.ids ?_
  rw [← R.ids]
  exact List.mem_map.2 ⟨f, frameOf_mem hf, frameOf_id hf⟩

/-- one schedule position -/
theorem RInv.step (ok_put : ∀ s k v, ok s → ok (s.putSync k v))
    (get_put : ∀ s k v k', ok s → (s.putSync k v).getSync k' = if k' = k then some v else s.getSync k')
    (hwf : WFProg ops)
    (R : RInv ok init ops tm fs n tlog) (id : Nat)
    (hF1 : ∀ s k r, (readAdvance (tm.readStart s k) s k (.start (.get k))).2 = .done r →
      r = .val (fetchVal (tm.readStart s k) s k))
    (hF2 : ∀ f, frameOf fs id = some f → ∀ s k p, f.pc = .rd s k p → ∀ r, (readAdvance tm s k p).2 = .done r →
      r = .val (fetchVal tm s k))
    (hseq : ∀ pre o post, o.1 = id → ops = pre ++ o :: post → ∀ a ∈ pre, a.2.slot = o.2.slot →
      doneIn fs a.1 = true) :
    ∃ tlog', RInv ok init ops (stepFrames stepT TPc.isDone tm n id fs).1
      (stepFrames stepT TPc.isDone tm n id fs).2 (n + 1) tlog' := by
  cases hf : frameOf fs id with
  | none =>
    rw [stepFrames_none stepT TPc.isDone tm n id fs hf]
    exact ⟨tlog, R.idle⟩
  | some f =>
    cases hd : f.pc.isDone with
    | true =>
      rw [stepFrames_done stepT TPc.isDone tm n id fs f hf hd]
      exact ⟨tlog, R.idle⟩
    | false =>
      obtain ⟨s1, s2, s3⟩ := stepFrames_step stepT TPc.isDone tm n id fs f hf hd
      obtain ⟨op, hlk⟩ := R.lookup_frame hwf hf
      cases hb : f.b with
      | none =>
        obtain ⟨pre, post, hsp⟩ := lookup_split hlk
        have FF := R.first_facts hwf hsp hf hb (hseq pre (id, op) post rfl hsp)
        have hfp : f.pc = .start op := (R.frames id f op hf hlk).fresh hb
        obtain ⟨evs, E⟩ := eff1_stepT (n := n) ok_put get_put hF1 R.inv R.inv2 id op FF.wset FF.active FF.fresh
        rw [hfp] at s1 s2
        refine ⟨tlog ++ evs.map fun e => (n, e), ?_⟩
        rw [s1]
        exact R.first hwf hsp hf hb FF E s2 s3
      | some b =>
        obtain ⟨e1, evs, E⟩ := eff2_stepT ok_put get_put R hwf hlk hf hb hd (hF2 f hf)
        refine ⟨tlog ++ evs.map fun e => (n, e), ?_⟩
        rw [s1, e1]
        exact R.later hwf hlk hf hb hd E s2 s3

/-! ### the initial state -/

theorem framesOfT_mem {ops : List (Nat × TOp)} {f : Frame TPc} (h : f ∈ framesOfT ops) :
    f.b = none ∧ ∃ o ∈ ops, f.id = o.1 ∧ f.pc = .start o.2 := by
  obtain ⟨o, ho, rfl⟩ := List.mem_map.1 h
  exact ⟨rfl, o, ho, rfl, rfl⟩

theorem framesOfT_ids (ops : List (Nat × TOp)) : (framesOfT ops).map (·.id) = ops.map (·.1) := by
  induction ops with
  | nil => rfl
  | cons o ops ih =>
    simp only [framesOfT, List.map_cons] at ih ⊢
    rw [ih]

theorem framesOfT_started (ops : List (Nat × TOp)) (i : Nat) : startedIn (framesOfT ops) i = false := by
  unfold startedIn
  cases h : frameOf (framesOfT ops) i with
  | none => rfl
  | some f => simp [(framesOfT_mem (frameOf_mem h)).1]

theorem RInv.start (s0 : Store) (h0 : ok s0) (hwf : WFProg ops) :
    RInv ok s0.getSync ops { store := s0 } (framesOfT ops) 0 [] where
  inv := Inv.start s0 h0
  inv2 := Inv2.start s0
  times := List.Pairwise.nil
  tlt x hx := by simp at hx
  ids := framesOfT_ids ops
  frames id f op hf hl := by
    obtain ⟨hb, o, ho, h1, h2⟩ := framesOfT_mem (frameOf_mem hf)
    have : ops.lookup o.1 = some o.2 := mem_lookup hwf.ids ho
    rw [← h1, frameOf_id hf, hl] at this
    cases this
    exact ⟨fun _ => h2, fun b h => (by rw [hb] at h; cases h), fun b h => (by rw [hb] at h; cases h),
      fun b h => (by rw [hb] at h; cases h)⟩
  seq pre o post f b _ hf hb := by
    rw [(framesOfT_mem (frameOf_mem hf)).1] at hb
    cases hb
  front pre o post hsp _ hpre := by
    have hno : ∀ a ∈ pre, a.2.slot ≠ o.2.slot := fun a ha hs => by
      have := hpre a ha hs
      rw [framesOfT_started] at this
      cases this
    rw [wsetBefore_split hwf.ids hsp, foldl_wstep_none _ _ _ hno]
    rfl
  stat s tx h := by simp [TM.tx?] at h
  hasB s tx h := by simp [TM.tx?] at h
  cev m s w h := by simp at h

/-! ### the whole run -/

/-- the run invariant together with a side invariant `J` of the store's suspended `get`s, which supplies the
    fact that a completing read returns `fetchVal` of the current state -/
theorem rinv_run (ok_put : ∀ s k v, ok s → ok (s.putSync k v))
    (get_put : ∀ s k v k', ok s → (s.putSync k v).getSync k' = if k' = k then some v else s.getSync k')
    (s0 : Store) (h0 : ok s0) (ops : List (Nat × TOp)) (sched : List Nat)
    (hwf : WFProg ops) (hseq : SlotSeq ops { store := s0 } sched)
    (J : TM → List (Frame TPc) → Prop)
    (hJ1 : ∀ tm fs, J tm fs → ∀ s k r, (readAdvance (tm.readStart s k) s k (.start (.get k))).2 = .done r →
      r = .val (fetchVal (tm.readStart s k) s k))
    (hJ2 : ∀ tm fs, J tm fs → ∀ id f, frameOf fs id = some f → ∀ s k p, f.pc = .rd s k p →
      ∀ r, (readAdvance tm s k p).2 = .done r → r = .val (fetchVal tm s k))
    (hJs : ∀ tm fs n tlog id, RInv ok s0.getSync ops tm fs n tlog → J tm fs →
      (∀ pre o post, o.1 = id → ops = pre ++ o :: post → ∀ a ∈ pre, a.2.slot = o.2.slot → doneIn fs a.1 = true) →
      J (stepFrames stepT TPc.isDone tm n id fs).1 (stepFrames stepT TPc.isDone tm n id fs).2)
    (hJ0 : J { store := s0 } (framesOfT ops))
    (m : Nat) (hm : m ≤ sched.length) :
    ∃ tlog, RInv ok s0.getSync ops
      (runFrames stepT TPc.isDone { store := s0 } (framesOfT ops) 0 (sched.take m)).1
      (runFrames stepT TPc.isDone { store := s0 } (framesOfT ops) 0 (sched.take m)).2 m tlog ∧
      J (runFrames stepT TPc.isDone { store := s0 } (framesOfT ops) 0 (sched.take m)).1
        (runFrames stepT TPc.isDone { store := s0 } (framesOfT ops) 0 (sched.take m)).2 := by
  induction m with
  | zero => exact ⟨[], by simpa [runFrames] using RInv.start (ok := ok) s0 h0 hwf, by simpa [runFrames] using hJ0⟩
  | succ m ih =>
    have hlt : m < sched.length := hm
    obtain ⟨tlog, R, hJ⟩ := ih (Nat.le_of_lt hlt)
    have hlen : (sched.take m).length = m := by rw [List.length_take]; omega
    rw [List.take_succ_eq_append_getElem hlt, runFrames_snoc, hlen, Nat.zero_add]
    have hs : ∀ pre o post, o.1 = sched[m] → ops = pre ++ o :: post → ∀ a ∈ pre, a.2.slot = o.2.slot →
        doneIn (runFrames stepT TPc.isDone { store := s0 } (framesOfT ops) 0 (sched.take m)).2 a.1 = true :=
      fun pre o post ho hsp a ha hs =>
        hseq m pre o post (by rw [ho]; exact List.getElem?_eq_getElem hlt) hsp a ha hs
    obtain ⟨tlog', R'⟩ := RInv.step ok_put get_put hwf R sched[m] (hJ1 _ _ hJ) (fun f hf => hJ2 _ _ hJ _ f hf) hs
    exact ⟨tlog', R', hJs _ _ _ _ _ R hJ hs⟩

end HappyModel.C14.SM.LM
