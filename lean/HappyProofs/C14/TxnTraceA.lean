import HappyProofs.C14.TxnLinkE
import HappyProofs.C14.TxnJudge
import HappyProofs.C14.StoreLaws
/-!
# Transactions at run level, assembly part 1: from the machine facts to the judge

`txn_trace_of_mach`: if the final frames of a run of `stepT` satisfy `MachFacts` (for some timed ghost log),
the Spec judge `judgeTxn` accepts the observation `tobsOf` of that run.  (`MachFacts` is proved for every run
under `WFProg`, `SlotSeq`, `Quiesced` in `TxnMach.lean`; the two are combined in `TxnTrace.lean`.)
-/
namespace HappyModel.C14.SM
open HappyModel.C14 HappyModel.C14.BT HappyModel.C14.TxSpec

theorem txn_trace_of_mach (ok : Store → Prop) (ops : List (Nat × TOp)) (s0 : Store) (sched : List Nat) (nkeys : Nat)
    (st0 : State) (hwf : WFProg ops) (hinit : ∀ k, st0.lookup k = s0.getSync k)
    (hm : ∃ tlog, MachFacts ok ops { store := s0 }
      (runFrames stepT TPc.isDone { store := s0 } (framesOfT ops) 0 sched).1
      (runFrames stepT TPc.isDone { store := s0 } (framesOfT ops) 0 sched).2 tlog) :
    judgeTxn st0 nkeys
      ((List.range nkeys).map (runFrames stepT TPc.isDone { store := s0 } (framesOfT ops) 0 sched).1.store.getSync)
      (tobsOf ops (runFrames stepT TPc.isDone { store := s0 } (framesOfT ops) 0 sched).2) = none := by
  obtain ⟨tlog, hm⟩ := hm
  have hf := txnFacts_of_run ok ops { store := s0 } _ sched tlog hwf hm
  exact judgeTxn_of_facts _ _ _ _ st0 nkeys hf hinit

/-- the initial contents the driver installs with `put_sync`, as the judge sees them -/
theorem init_lookup (ok : Store → Prop) (ok_put : ∀ s k v, ok s → ok (s.putSync k v))
    (get_put : ∀ s k v k', ok s → (s.putSync k v).getSync k' = if k' = k then some v else s.getSync k') :
    ∀ (kvs : List (Key × Nat)) (s : Store) (st : State), ok s → (∀ k, st.lookup k = s.getSync k) →
      ok (kvs.foldl (fun s e => s.putSync e.1 e.2) s) ∧
      ∀ k, (kvs.foldl (fun s e => setKey e.1 e.2 s) st).lookup k = (kvs.foldl (fun s e => s.putSync e.1 e.2) s).getSync k
  | [], _, _, h, hl => ⟨h, hl⟩
  | e :: r, s, st, h, hl => by
    simp only [List.foldl_cons]
    apply init_lookup ok ok_put get_put r _ _ (ok_put s e.1 e.2 h)
    intro k
    rw [lookup_setKey, get_put s e.1 e.2 k h, hl]

end HappyModel.C14.SM
