import HappyProofs.C14.LsmInv
/-! Flush install and compaction install preserve the state invariant. -/
namespace HappyModel.C14

theorem exists_getD_of_mem {lv : List (List Tab)} {l : List Tab} (h : l ∈ lv) : ∃ i, lv.getD i [] = l := by
  induction lv with
  | nil => cases h
  | cons a r ih =>
    rcases List.mem_cons.mp h with rfl | h
    · exact ⟨0, rfl⟩
    · obtain ⟨i, hi⟩ := ih h
      exact ⟨i + 1, by simpa using hi⟩

/-- the state after the synchronous part of a flush install, before the compaction check -/
def flushS1 (cfg : Cfg) (s : St) (t : Tab) (bound : Nat) : St :=
  { s with levels := modAt s.levels 0 (· ++ [t]),
           imms := s.imms.filter (fun i => i.id != t.id),
           wal := if cfg.wal.isSome then s.wal.filter (fun e => e.seq > bound) else s.wal }

theorem flushInstall_eq (cfg : Cfg) (s : St) (t : Tab) (b : Nat) :
    flushInstall cfg s t b =
      if shouldCompact cfg.strat (flushS1 cfg s t b).levels then compactStart cfg (flushS1 cfg s t b)
      else (flushS1 cfg s t b, .done .ok) := rfl

theorem sinv_flushS1 {cfg : Cfg} {s : St} (h : SInv cfg s) {t : Tab} (b : Nat) (ht : t ∈ s.imms) :
    SInv cfg (flushS1 cfg s t b) := by
  obtain ⟨h1, h2, h3, h4, h5, h6, h7, h8⟩ := h
  have hlen : 0 < s.levels.length := by rw [h1.len]; have := h1.two; omega
  have hsub : ∀ u ∈ s.imms.filter (fun i => i.id != t.id), u ∈ s.imms := fun u hu => (List.mem_filter.mp hu).1
  refine ⟨⟨?_, h1.two, ?_, ?_, ?_⟩, h2, fun u hu => h3 u (hsub u hu), ?_, ?_, ?_, fun u hu => h7 u (hsub u hu), h8⟩
  · show (modAt s.levels 0 _).length = _
    rw [modAt_length]; exact h1.len
  · intro i x hx
    simp only [flushS1] at hx
    rw [getD_modAt _ _ _ _ hlen] at hx
    split at hx
    · rename_i hi; subst hi
      rcases List.mem_append.mp hx with hx | hx
      · exact h1.sorted 0 x hx
      · rw [List.mem_singleton] at hx; subst hx; exact h3 x ht
    · exact h1.sorted i x hx
  · intro i hi
    simp only [flushS1]
    rw [getD_modAt _ _ _ _ hlen, if_neg (by omega)]
    exact h1.disj i hi
  · intro i
    simp only [flushS1]
    rw [getD_modAt _ _ _ _ hlen]
    split
    · rw [List.map_append]
      apply List.nodup_append.mpr
      refine ⟨h1.ids 0, by simp, ?_⟩
      intro a ha c hc
      simp only [List.map_cons, List.map_nil, List.mem_singleton] at hc
      subst hc
      obtain ⟨x, hx, rfl⟩ := List.mem_map.mp ha
      exact h5 0 x hx t ht
    · exact h1.ids i
  · exact List.Nodup.sublist (List.Sublist.map _ List.filter_sublist) h4
  · intro i x hx u hu
    simp only [flushS1] at hx hu
    rw [getD_modAt _ _ _ _ hlen] at hx
    split at hx
    · rcases List.mem_append.mp hx with hx | hx
      · exact h5 0 x hx u (hsub u hu)
      · rw [List.mem_singleton] at hx; subst hx
        have := (List.mem_filter.mp hu).2
        intro he; rw [he] at this; simp at this
    · exact h5 i x hx u (hsub u hu)
  · intro i x hx
    simp only [flushS1] at hx
    rw [getD_modAt _ _ _ _ hlen] at hx
    split at hx
    · rcases List.mem_append.mp hx with hx | hx
      · exact h6 0 x hx
      · rw [List.mem_singleton] at hx; subst hx; exact h7 x ht
    · exact h6 i x hx

theorem planned_tgt_pos {cfg : Cfg} {lv : List (List Tab)} {j : Job} (hP : Planned cfg lv j) (h2 : 2 ≤ cfg.maxLevels) :
    1 ≤ j.tgt := by
  obtain ⟨lv0, extra, hplan, _⟩ := hP
  have := (plan_unpack hplan).2
  have ht : j.tgt = min (j.src + 1) (cfg.maxLevels - 1) := by rw [this]
  omega

theorem planned_append0 {cfg : Cfg} {lv : List (List Tab)} {j : Job} (hP : Planned cfg lv j) (h2 : 2 ≤ cfg.maxLevels)
    (hlen : 0 < lv.length) (t : Tab) : Planned cfg (modAt lv 0 (· ++ [t])) j := by
  have htg := planned_tgt_pos hP h2
  obtain ⟨lv0, extra, hplan, hl, htgt, hsrc, hex⟩ := hP
  by_cases h0 : j.src = 0
  · refine ⟨lv0, extra ++ [t], hplan, by rw [modAt_length]; exact hl, ?_, ?_, fun h => absurd h0 h⟩
    · rw [getD_modAt _ _ _ _ hlen, if_neg (by omega)]; exact htgt
    · rw [getD_modAt _ _ _ _ hlen, if_pos h0, ← h0, hsrc, List.append_assoc]
  · refine ⟨lv0, extra, hplan, by rw [modAt_length]; exact hl, ?_, ?_, hex⟩
    · rw [getD_modAt _ _ _ _ hlen, if_neg (by omega)]; exact htgt
    · rw [getD_modAt _ _ _ _ hlen, if_neg h0]; exact hsrc

theorem flushS1_other {cfg : Cfg} {s : St} (h : SInv cfg s) {t : Tab} (b : Nat) {b' : Nat} {q : Pc} (hq : POk cfg s q)
    (hc : Compat (.pFlush t b') q) : POk cfg (flushS1 cfg s t b) q := by
  cases q <;> simp only [POk] at * <;> try trivial
  · rename_i t' _
    simp only [Compat] at hc
    refine List.mem_filter.mpr ⟨hq, ?_⟩
    simp only [bne_iff_ne, ne_eq]
    exact fun e => hc e.symm
  · refine ⟨planned_append0 hq.1 h.lv.two ?_ t, hq.2⟩
    rw [h.lv.len]; have := h.lv.two; omega

/-! ### compaction install -/

theorem mem_install {lv : List (List Tab)} {j : Job} {newId : Nat} {l : List Tab}
    (h : l ∈ installCompaction lv j newId) : ∀ t ∈ l, t.id = newId ∨ ∃ l' ∈ lv, t ∈ l' := by
  unfold installCompaction at h
  simp only at h
  have sub : ∀ (ids : List Nat) (x : List Tab), ∀ t ∈ removeIds ids x, t ∈ x := fun ids x t ht => (List.mem_filter.mp ht).1
  intro t ht
  rcases mem_modAt h with h | ⟨_, rfl⟩
  · rcases mem_modAt h with h | ⟨_, rfl⟩
    · rcases mem_modAt h with h | ⟨_, rfl⟩
      · exact Or.inr ⟨l, h, ht⟩
      · rcases getD_mem_or_nil lv j.src with hm | hn
        · exact Or.inr ⟨_, hm, sub _ _ t ht⟩
        · rw [hn] at ht; simp [removeIds] at ht
    · have ht := sub _ _ t ht
      rcases getD_mem_or_nil (modAt lv j.src (removeIds j.rmSrc)) j.tgt with hm | hn
      · rcases mem_modAt hm with h' | ⟨_, h'⟩
        · exact Or.inr ⟨_, h', ht⟩
        · rw [h'] at ht
          have ht := sub _ _ t ht
          rcases getD_mem_or_nil lv j.src with hm' | hn'
          · exact Or.inr ⟨_, hm', ht⟩
          · rw [hn'] at ht; cases ht
      · rw [hn] at ht; cases ht
  · rcases List.mem_append.mp ht with ht | ht
    · rcases getD_mem_or_nil (modAt (modAt lv j.src (removeIds j.rmSrc)) j.tgt (removeIds j.rmTgt)) j.tgt with hm | hn
      · rcases mem_modAt hm with h' | ⟨_, h'⟩
        · rcases mem_modAt h' with h'' | ⟨_, h''⟩
          · exact Or.inr ⟨_, h'', ht⟩
          · rw [h''] at ht
            have ht := sub _ _ t ht
            rcases getD_mem_or_nil lv j.src with hm' | hn'
            · exact Or.inr ⟨_, hm', ht⟩
            · rw [hn'] at ht; cases ht
        · rw [h'] at ht
          have ht := sub _ _ t ht
          rcases getD_mem_or_nil (modAt lv j.src (removeIds j.rmSrc)) j.tgt with hm2 | hn2
          · rcases mem_modAt hm2 with h3 | ⟨_, h3⟩
            · exact Or.inr ⟨_, h3, ht⟩
            · rw [h3] at ht
              have ht := sub _ _ t ht
              rcases getD_mem_or_nil lv j.src with hm' | hn'
              · exact Or.inr ⟨_, hm', ht⟩
              · rw [hn'] at ht; cases ht
          · rw [hn2] at ht; cases ht
      · rw [hn] at ht; cases ht
    · rw [List.mem_singleton] at ht; subst ht; exact Or.inl rfl

theorem sinv_compactInstall {cfg : Cfg} {s : St} (h : SInv cfg s) {j : Job} (hP : Planned cfg s.levels j) :
    SInv cfg (compactInstall s j).1 := by
  obtain ⟨h1, h2, h3, h4, h5, h6, h7, h8⟩ := h
  have old : ∀ i, ∀ x ∈ (installCompaction s.levels j s.nextId).getD i [],
      x.id = s.nextId ∨ ∃ i', x ∈ s.levels.getD i' [] := by
    intro i x hx
    rcases getD_mem_or_nil (installCompaction s.levels j s.nextId) i with hm | hn
    · rcases mem_install hm x hx with h | ⟨l', hl', hx'⟩
      · exact Or.inl h
      · obtain ⟨i', hi'⟩ := exists_getD_of_mem hl'
        exact Or.inr ⟨i', by rw [hi']; exact hx'⟩
    · rw [hn] at hx; cases hx
  refine ⟨lvInv_install h1 hP s.nextId (fun i t ht => Nat.ne_of_lt (h6 i t ht).1), h2, h3, h4, ?_, ?_, ?_, Nat.lt_succ_of_lt h8⟩
  · intro i x hx u hu
    rcases old i x hx with h | ⟨i', hx'⟩
    · rw [h]; exact (Nat.ne_of_lt (h7 u hu).1).symm
    · exact h5 i' x hx' u hu
  · intro i x hx
    rcases old i x hx with h | ⟨i', hx'⟩
    · rw [h]; exact ⟨Nat.lt_succ_self _, (Nat.ne_of_lt h8).symm⟩
    · exact ⟨Nat.lt_succ_of_lt (h6 i' x hx').1, (h6 i' x hx').2⟩
  · intro u hu
    exact ⟨Nat.lt_succ_of_lt (h7 u hu).1, (h7 u hu).2⟩

theorem compactInstall_other {cfg : Cfg} {s : St} {j : Job} {q : Pc} (hq : POk cfg s q)
    (hc : Compat (.pCompact j) q) : POk cfg (compactInstall s j).1 q := by
  cases q <;> simp only [POk, Compat] at * <;> try trivial

end HappyModel.C14
