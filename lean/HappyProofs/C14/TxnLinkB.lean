import HappyProofs.C14.TxnLinkA
/-!
# Transactions, link machine → judge, part B: the observation as maps over the program; the walk

`tobsOf` is rewritten as `filterMap`s over the program itself (`tobsOf_eq`): one observation per
operation `begin` whose frame completed (`beginF`), its steps are the completed reads and writes of
the slot (`stepF`), its commit the first completed `commit` (`commitF`).  `walk_ops` then runs the
judge's `walk` along the program, for an abstract property `Q` of external reads.
-/
namespace HappyModel.C14.SM
open HappyModel.C14 HappyModel.C14.BT HappyModel.C14.TxSpec

/-- first segment, last segment and result of the completed frame of operation `id` -/
def frameRes (fs : List (Frame TPc)) (id : Nat) : Option (Nat × Nat × SRes) :=
  match fs.find? (fun f => f.id == id) with
  | some f =>
    match f.b, f.e, f.pc with
    | some b, some e, .done r => some (b, e, r)
    | _, _, _ => none
  | none => none

def compOf (fs : List (Frame TPc)) (o : Nat × TOp) : Option (Nat × TOp × Nat × Nat × SRes) :=
  (frameRes fs o.1).map fun x => (o.1, o.2, x.1, x.2.1, x.2.2)

theorem completedT_eq (ops : List (Nat × TOp)) (fs : List (Frame TPc)) :
    completedT ops fs = ops.filterMap (compOf fs) := by
  unfold completedT
  congr 1
  funext o
  simp only [compOf, frameRes]
  split
  · split <;> simp_all
  · rename_i h
    simp only [h]
    rfl

theorem frameRes_some {fs : List (Frame TPc)} {id b e : Nat} {r : SRes} (h : frameRes fs id = some (b, e, r)) :
    ∃ f ∈ fs, f.id = id ∧ f.b = some b ∧ f.e = some e ∧ f.pc = .done r := by
  unfold frameRes at h
  split at h
  · next f hf =>
    have hm := mem_of_find hf
    split at h
    · next b' e' r' hb he hp =>
      simp only [Option.some.injEq, Prod.mk.injEq] at h
      obtain ⟨rfl, rfl, rfl⟩ := h
      exact ⟨f, hm.1, hm.2, hb, he, hp⟩
    · cases h
  · cases h

theorem frameRes_of {fs : List (Frame TPc)} (hn : (fs.map (·.id)).Nodup) {f : Frame TPc} (hf : f ∈ fs)
    {b e : Nat} {r : SRes} (hb : f.b = some b) (he : f.e = some e) (hp : f.pc = .done r) :
    frameRes fs f.id = some (b, e, r) := by
  simp only [frameRes, find_of_mem hn hf, hb, he, hp]

/-! ### the three maps -/

def stepOp (s : Nat) (o : TOp) (x : Nat × Nat × SRes) : Option TStep :=
  match o with
  | .read s' k => if s' = s then some (.read k (resVal x.2.2) x.1 x.2.1) else none
  | .write s' k v => if s' = s then some (.write k v) else none
  | _ => none

def stepF (fs : List (Frame TPc)) (s : Nat) (o : Nat × TOp) : Option TStep := (frameRes fs o.1).bind (stepOp s o.2)

def commitOp (s : Nat) (o : TOp) (x : Nat × Nat × SRes) : Option (Nat × Bool) :=
  match o with
  | .commit s' => if s' = s then some (x.1, resFlag x.2.2) else none
  | _ => none

def commitF (fs : List (Frame TPc)) (s : Nat) (o : Nat × TOp) : Option (Nat × Bool) :=
  (frameRes fs o.1).bind (commitOp s o.2)

def beginOp (o : TOp) : Option (Nat × ILevel) :=
  match o with
  | .begin s l => some (s, lvlOf l)
  | _ => none

def beginF (fs : List (Frame TPc)) (o : Nat × TOp) : Option (Nat × ILevel) := (frameRes fs o.1).bind fun _ => beginOp o.2

theorem steps_eq (fs : List (Frame TPc)) (s : Nat) (l : List (Nat × TOp)) :
    stepsOf (mineOf (l.filterMap (compOf fs)) s) = l.filterMap (stepF fs s) := by
  induction l with
  | nil => rfl
  | cons o l ih =>
    obtain ⟨i, op⟩ := o
    simp only [stepsOf, mineOf] at ih
    cases h : frameRes fs i with
    | none => simpa [List.filterMap_cons, compOf, stepF, h, stepsOf, mineOf] using ih
    | some x =>
      cases op with
      | read s' k =>
        by_cases e : s' = s <;>
          simpa [List.filterMap_cons, List.filter_cons, compOf, stepF, stepOp, h, stepsOf, mineOf, e] using ih
      | write s' k v =>
        by_cases e : s' = s <;>
          simpa [List.filterMap_cons, List.filter_cons, compOf, stepF, stepOp, h, stepsOf, mineOf, e] using ih
      | commit s' =>
        by_cases e : s' = s <;>
          simpa [List.filterMap_cons, List.filter_cons, compOf, stepF, stepOp, h, stepsOf, mineOf, e] using ih
      | begin s' lv =>
        simpa [List.filterMap_cons, List.filter_cons, compOf, stepF, stepOp, h, stepsOf, mineOf] using ih
      | abort s' =>
        simpa [List.filterMap_cons, List.filter_cons, compOf, stepF, stepOp, h, stepsOf, mineOf] using ih

theorem commit_eq (fs : List (Frame TPc)) (s : Nat) (l : List (Nat × TOp)) :
    commitOf (mineOf (l.filterMap (compOf fs)) s) = l.findSome? (commitF fs s) := by
  induction l with
  | nil => rfl
  | cons o l ih =>
    obtain ⟨i, op⟩ := o
    simp only [commitOf, mineOf] at ih
    cases h : frameRes fs i with
    | none => simpa [List.filterMap_cons, List.findSome?_cons, compOf, commitF, h, commitOf, mineOf] using ih
    | some x =>
      cases op with
      | read s' k =>
        by_cases e : s' = s <;>
          simpa [List.filterMap_cons, List.filter_cons, List.findSome?_cons, compOf, commitF, commitOp, h,
            commitOf, mineOf, e] using ih
      | write s' k v =>
        by_cases e : s' = s <;>
          simpa [List.filterMap_cons, List.filter_cons, List.findSome?_cons, compOf, commitF, commitOp, h,
            commitOf, mineOf, e] using ih
      | commit s' =>
        by_cases e : s' = s
        · simp [compOf, commitF, commitOp, h, commitOf, mineOf, e]
        · simpa [List.filterMap_cons, List.filter_cons, List.findSome?_cons, compOf, commitF, commitOp, h,
            commitOf, mineOf, e] using ih
      | begin s' lv =>
        simpa [List.filterMap_cons, List.filter_cons, List.findSome?_cons, compOf, commitF, commitOp, h,
          commitOf, mineOf] using ih
      | abort s' =>
        simpa [List.filterMap_cons, List.filter_cons, List.findSome?_cons, compOf, commitF, commitOp, h,
          commitOf, mineOf] using ih

theorem begin_eq (fs : List (Frame TPc)) (l : List (Nat × TOp)) :
    ((l.filterMap (compOf fs)).filterMap fun c => match c.2.1 with
      | .begin s l => some (s, lvlOf l)
      | _ => none) = l.filterMap (beginF fs) := by
  induction l with
  | nil => rfl
  | cons o l ih =>
    obtain ⟨i, op⟩ := o
    cases h : frameRes fs i with
    | none => simpa [List.filterMap_cons, compOf, beginF, h] using ih
    | some x => cases op <;> simpa [List.filterMap_cons, compOf, beginF, beginOp, h] using ih

/-- the observation of slot `s` at level `l` -/
def obsOf (ops : List (Nat × TOp)) (fs : List (Frame TPc)) (sl : Nat × ILevel) : TObs :=
  { slot := sl.1, level := sl.2, steps := ops.filterMap (stepF fs sl.1), commit := ops.findSome? (commitF fs sl.1) }

theorem tobsOf_eq (ops : List (Nat × TOp)) (fs : List (Frame TPc)) :
    tobsOf ops fs = (ops.filterMap (beginF fs)).map (obsOf ops fs) := by
  unfold tobsOf
  rw [completedT_eq]
  refine Eq.trans (congrArg (List.map _) (begin_eq fs ops)) ?_
  apply List.map_congr_left
  intro sl _
  simp only [obsOf, steps_eq, commit_eq]

/-! ### the walk along the program -/

/-- effect of one operation on the write buffer of slot `s` as the judge reconstructs it -/
def wstep (fs : List (Frame TPc)) (s : Nat) (w : KV) (o : Nat × TOp) : KV :=
  match stepF fs s o with
  | some (.write k v) => dictSet k v w
  | _ => w

/-- the write buffer after the operations `l` -/
def wsetC (fs : List (Frame TPc)) (s : Nat) (l : List (Nat × TOp)) : KV := l.foldl (wstep fs s) []

theorem wsetC_snoc (fs : List (Frame TPc)) (s : Nat) (l : List (Nat × TOp)) (o : Nat × TOp) :
    wsetC fs s (l ++ [o]) = wstep fs s (wsetC fs s l) o := by
  simp [wsetC, List.foldl_append]

/-- what the judge requires of a read that returned `val` and ended at `e`, with buffer `w` -/
def readOk (Q : Key × Option Nat × Nat → Prop) (w : KV) (k : Key) (val : Option Nat) (e : Nat) : Prop :=
  match w.lookup k with
  | some v => val = some v
  | none => Q (k, val, e)

theorem walk_ops (fs : List (Frame TPc)) (s : Nat) (Q : Key × Option Nat × Nat → Prop) (ops : List (Nat × TOp))
    (hread : ∀ pre o post, ops = pre ++ o :: post → ∀ k val b e, stepF fs s o = some (.read k val b e) →
      readOk Q (wsetC fs s pre) k val e) :
    ∀ rest pre, ops = pre ++ rest → ∀ ext bad,
      (walk (rest.filterMap (stepF fs s)) (wsetC fs s pre) ext bad).2.1 = bad ∧
      (walk (rest.filterMap (stepF fs s)) (wsetC fs s pre) ext bad).2.2 = wsetC fs s ops ∧
      ∀ r ∈ (walk (rest.filterMap (stepF fs s)) (wsetC fs s pre) ext bad).1, r ∈ ext ∨ Q r := by
  intro rest
  induction rest with
  | nil =>
    intro pre hops ext bad
    simp only [List.append_nil] at hops
    subst hops
    simp only [List.filterMap_nil, walk, List.mem_reverse, true_and]
    exact fun r hr => .inl hr
  | cons o rest ih =>
    intro pre hops ext bad
    have hops' : ops = (pre ++ [o]) ++ rest := by simp [hops]
    have hsn := wsetC_snoc fs s pre o
    cases h : stepF fs s o with
    | none =>
      simp only [List.filterMap_cons, h]
      simp only [wstep, h] at hsn
      rw [← hsn]
      exact ih _ hops' ext bad
    | some st =>
      cases st with
      | write k v =>
        simp only [List.filterMap_cons, h, walk, setKey_eq_dictSet]
        simp only [wstep, h] at hsn
        rw [← hsn]
        exact ih _ hops' ext bad
      | read k val b e =>
        have hr := hread pre o rest hops k val b e h
        simp only [wstep, h] at hsn
        simp only [List.filterMap_cons, h, walk]
        unfold readOk at hr
        cases hl : (wsetC fs s pre).lookup k with
        | some v =>
          simp only [hl] at hr
          have hb : (bad || val != some v) = bad := by simp [hr]
          simp only [hb]
          rw [← hsn]
          exact ih _ hops' ext bad
        | none =>
          simp only [hl] at hr
          simp only []
          rw [← hsn]
          obtain ⟨h1, h2, h3⟩ := ih _ hops' ((k, val, e) :: ext) bad
          refine ⟨h1, h2, fun r hr' => ?_⟩
          rcases h3 r hr' with h4 | h4
          · rcases List.mem_cons.mp h4 with rfl | h5
            · exact .inr hr
            · exact .inl h5
          · exact .inr h4

/-- the judge's walk of the observation of slot `s` -/
theorem walk_obs (fs : List (Frame TPc)) (Q : Key × Option Nat × Nat → Prop) (ops : List (Nat × TOp))
    (sl : Nat × ILevel)
    (hread : ∀ pre o post, ops = pre ++ o :: post → ∀ k val b e, stepF fs sl.1 o = some (.read k val b e) →
      readOk Q (wsetC fs sl.1 pre) k val e) :
    (obsOf ops fs sl).ownBad = false ∧ (obsOf ops fs sl).wset = wsetC fs sl.1 ops ∧ ∀ r ∈ (obsOf ops fs sl).ext, Q r := by
  obtain ⟨h1, h2, h3⟩ := walk_ops fs sl.1 Q ops hread ops [] rfl [] false
  refine ⟨h1, h2, fun r hr => ?_⟩
  rcases h3 r hr with h | h
  · cases h
  · exact h

end HappyModel.C14.SM
