import HappyProofs.C14.LsmShape
/-! Installing a planned compaction preserves the invariants of the level lists. -/
namespace HappyModel.C14

theorem getD_two (A : List (List Tab)) (X Y X' Y' : List Tab) (C : List (List Tab)) (i : Nat) :
    (A ++ X' :: Y' :: C).getD i [] =
      if i = A.length then X' else if i = A.length + 1 then Y' else (A ++ X :: Y :: C).getD i [] := by
  induction A generalizing i with
  | nil =>
    cases i with
    | zero => simp
    | succ i => cases i <;> simp
  | cons a A ih =>
    cases i with
    | zero => simp
    | succ i => simpa using ih i

theorem getD_one (A : List (List Tab)) (X X' : List Tab) (i : Nat) :
    (A ++ [X']).getD i [] = if i = A.length then X' else (A ++ [X]).getD i [] := by
  induction A generalizing i with
  | nil => cases i <;> simp
  | cons a A ih =>
    cases i with
    | zero => simp
    | succ i => simpa using ih i

theorem merged_key_origin (S O : List Tab) (bottom : Bool) (k : Key) (hS : ∀ t ∈ S, Sorted t.data)
    (h : (if bottom then dropTombs (mergeOverlap (mergeSources S) O) else mergeOverlap (mergeSources S) O).lookup k ≠ none) :
    (∃ s ∈ S, s.data.lookup k ≠ none) ∨ (∃ o ∈ O, o.data.lookup k ≠ none) := by
  have h0 : (mergeOverlap (mergeSources S) O).lookup k ≠ none := by
    cases bottom with
    | false => simpa using h
    | true =>
      simp only [if_true] at h
      rw [lookup_dropTombs _ (sorted_mergeOverlap _ _ (sorted_mergeSources S)).uniq] at h
      intro hn; rw [hn] at h; exact h rfl
  rw [lookup_merge S O k (fun t ht => (hS t ht).uniq)] at h0
  cases ha : lookTabs k S.reverse with
  | some c =>
    obtain ⟨s, hs, hc⟩ := lookTabs_some_mem ha
    exact Or.inl ⟨s, List.mem_reverse.mp hs, by rw [hc]; simp⟩
  | none =>
    rw [ha, Option.none_or] at h0
    cases ho : lookTabs k O with
    | none => exact absurd ho h0
    | some c =>
      obtain ⟨o, ho1, hc⟩ := lookTabs_some_mem ho
      exact Or.inr ⟨o, ho1, by rw [hc]; simp⟩

theorem sorted_merged (S O : List Tab) (bottom : Bool) :
    Sorted (if bottom then dropTombs (mergeOverlap (mergeSources S) O) else mergeOverlap (mergeSources S) O) := by
  cases bottom with
  | false => exact sorted_mergeOverlap _ _ (sorted_mergeSources S)
  | true => exact sorted_dropTombs _ (sorted_mergeOverlap _ _ (sorted_mergeSources S))

/-- the rebuilt target level is key-disjoint -/
theorem disj_target (S Lt : List Tab) (nt : Tab) (hS : ∀ t ∈ S, Sorted t.data) (hLt : ∀ t ∈ Lt, Sorted t.data)
    (hd : LevelDisjoint Lt)
    (hnt : ∀ k, nt.data.lookup k ≠ none → (∃ s ∈ S, s.data.lookup k ≠ none) ∨ (∃ o ∈ Lt.filter (ovl S), o.data.lookup k ≠ none)) :
    LevelDisjoint (Lt.filter (fun t => !ovl S t) ++ [nt]) := by
  have key : ∀ t ∈ Lt.filter (fun t => !ovl S t), ∀ k, t.data.lookup k ≠ none → nt.data.lookup k ≠ none → False := by
    intro t ht k hk hn
    have htL := (List.mem_filter.mp ht).1
    have hp : ovl S t = false := by simpa using (List.mem_filter.mp ht).2
    rcases hnt k hn with ⟨s, hs, hsk⟩ | ⟨o, ho, hok⟩
    · have hov := overlaps_of_common_key (k := k) (hLt t htL) (hS s hs) hk hsk
      have : ovl S t = true := List.any_eq_true.mpr ⟨s, hs, hov⟩
      rw [this] at hp; cases hp
    · have := hd t htL o (List.mem_filter.mp ho).1 k hk hok
      subst this
      rw [(List.mem_filter.mp ho).2] at hp; cases hp
  intro t ht t' ht' k hk hk'
  rcases List.mem_append.mp ht with h1 | h1
  · rcases List.mem_append.mp ht' with h2 | h2
    · exact hd t (List.mem_filter.mp h1).1 t' (List.mem_filter.mp h2).1 k hk hk'
    · have : t' = nt := by simpa using h2
      subst this
      exact (key t h1 k hk hk').elim
  · have : t = nt := by simpa using h1
    subst this
    rcases List.mem_append.mp ht' with h2 | h2
    · exact (key t' h2 k hk' hk).elim
    · have : t' = t := by simpa using h2
      exact this.symm

theorem lvInv_install {cfg : Cfg} {lv : List (List Tab)} {j : Job} (hI : LvInv cfg lv) (hP : Planned cfg lv j)
    (newId : Nat) (hfresh : ∀ i, ∀ t ∈ lv.getD i [], t.id ≠ newId) :
    LvInv cfg (installCompaction lv j newId) := by
  cases planned_shape hI hP with
  | two A S extra Lt C bottom hlv hj hb hS hex =>
    subst hlv; subst hj
    have h1 : ∀ t ∈ S ++ extra, Sorted t.data := by
      have := hI.sorted A.length; rwa [getD_append_len] at this
    have h2 : ∀ t ∈ Lt, Sorted t.data := by
      have := hI.sorted (A.length + 1); rwa [getD_append_len_succ] at this
    have h3 : LevelDisjoint Lt := by
      have := hI.disj (A.length + 1) (by omega); rwa [getD_append_len_succ] at this
    have h4 : ((S ++ extra).map (·.id)).Nodup := by
      have := hI.ids A.length; rwa [getD_append_len] at this
    have h5 : (Lt.map (·.id)).Nodup := by
      have := hI.ids (A.length + 1); rwa [getD_append_len_succ] at this
    have h6 : ∀ t ∈ Lt, t.id ≠ newId := by
      have := hfresh (A.length + 1); rwa [getD_append_len_succ] at this
    have hS' : ∀ t ∈ S, Sorted t.data := fun t ht => h1 t (List.mem_append_left _ ht)
    rw [install_two, removeIds_self_append h4, removeIds_filter h5]
    refine ⟨?_, hI.two, ?_, ?_, ?_⟩
    · rw [← hI.len]; simp
    · intro i t ht
      rw [getD_two A (S ++ extra) Lt] at ht
      split at ht
      · exact h1 t (List.mem_append_right _ ht)
      · split at ht
        · rcases List.mem_append.mp ht with h | h
          · exact h2 t (List.mem_filter.mp h).1
          · rw [List.mem_singleton] at h
            subst h
            exact sorted_merged S _ bottom
        · exact hI.sorted i t ht
    · intro i hi
      rw [getD_two A (S ++ extra) Lt]
      split
      · rename_i hiA
        have := hI.disj A.length (by omega)
        rw [getD_append_len] at this
        exact this.sub fun t ht => List.mem_append_right _ ht
      · split
        · exact disj_target S Lt _ hS' h2 h3 (fun k hk => merged_key_origin S _ bottom k hS' hk)
        · exact hI.disj i hi
    · intro i
      rw [getD_two A (S ++ extra) Lt]
      split
      · rw [List.map_append] at h4
        exact (List.nodup_append.mp h4).2.1
      · split
        · rw [List.map_append]
          apply List.nodup_append.mpr
          refine ⟨List.Nodup.sublist (List.Sublist.map _ List.filter_sublist) h5, by simp, ?_⟩
          intro a ha b hb
          simp only [List.map_cons, List.map_nil, List.mem_singleton] at hb
          obtain ⟨t, ht, rfl⟩ := List.mem_map.mp ha
          subst hb
          exact h6 t (List.mem_filter.mp ht).1
        · exact hI.ids i
  | one A S hlv hj hS hA =>
    subst hlv; subst hj
    have h4 : (S.map (·.id)).Nodup := by
      have := hI.ids A.length; rwa [getD_append_len] at this
    have h0 : removeIds (S.map (·.id)) S = [] := by
      have := removeIds_self_append (S := S) (extra := []) (by simpa using h4)
      simpa using this
    rw [install_one, h0]
    simp only [removeIds, List.filter_nil, List.nil_append]
    refine ⟨?_, hI.two, ?_, ?_, ?_⟩
    · rw [← hI.len]; simp
    · intro i t ht
      rw [getD_one A S] at ht
      split at ht
      · rw [List.mem_singleton] at ht
        subst ht
        exact sorted_dropTombs _ (sorted_mergeSources S)
      · exact hI.sorted i t ht
    · intro i hi
      rw [getD_one A S]
      split
      · intro t ht t' ht' k _ _
        rw [List.mem_singleton] at ht ht'
        rw [ht, ht']
      · exact hI.disj i hi
    · intro i
      rw [getD_one A S]
      split
      · simp
      · exact hI.ids i

end HappyModel.C14
