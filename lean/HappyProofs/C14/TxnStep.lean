import HappyProofs.C14.TxnInv
/-!
# Transaction manager, part 3: a successful commit preserves `Inv`; every action does; every run does
-/
namespace HappyModel.C14.SM
open HappyModel.C14 HappyModel.C14.BT

variable {ok : Store → Prop} {init : Key → Option Nat} {tm : TM} {evs : List Ev}

/-- the log entry a successful commit of `tx` appends -/
def commitEntry (tm : TM) (tx : Tx) : LogE :=
  { txid := tx.id, version := tm.version + 1, wkeys := tx.wset.map (·.1), rkeys := tx.rset,
    prior := tx.wset.map fun e => (e.1, tm.store.getSync e.1) }

structure CommitOk (tm : TM) (slot : Nat) (tx : Tx) (tm' : TM) : Prop where
  store : tm'.store = applyWrites tm.store tx.wset
  version : tm'.version = tm.version + 1
  log : tm'.log = tm.log ++ [commitEntry tm tx]
  nextId : tm'.nextId = tm.nextId
  txs : ∀ s, tm'.tx? s = if s = slot then some { tx with stat := .committed } else tm.tx? s

theorem commit_ok {slot : Nat} {tx : Tx} (hx : tm.tx? slot = some tx) (hact : tx.stat = .active)
    (hc : checkConflict tm tx = false) :
    (tm.commit slot).2 = true ∧ CommitOk tm slot tx (tm.commit slot).1 := by
  have hs := tx?_mem hx
  subst hs
  have e : tm.commit tx.slot = ({ (tm.setTx { tx with stat := .committed }) with
          store := applyWrites tm.store tx.wset,
          version := tm.version + 1,
          log := tm.log ++ [commitEntry tm tx],
          nCommitted := tm.nCommitted + 1 }, true) := by
    simp [TM.commit, hx, hact, hc, commitEntry]
  rw [e]
  refine ⟨rfl, rfl, rfl, rfl, rfl, fun s => ?_⟩
  exact tx?_setTx tm { tx with stat := .committed } (by simp [hx]) s

theorem no_conflict_ser {tx : Tx} {e : LogE} (h : conflictWith tx e = false) (hl : tx.level = .ser)
    (hv : tx.snap < e.version) (hid : e.txid ≠ tx.id) : inter tx.rset e.wkeys = false := by
  have h1 : ¬ e.version ≤ tx.snap := by omega
  simp only [conflictWith, h1, if_false, hid, hl, Bool.or_eq_false_iff] at h
  exact h.1.2

/-- a successful commit -/
theorem Inv.commit (ok_put : ∀ s k v, ok s → ok (s.putSync k v))
    (get_put : ∀ s k v k', ok s → (s.putSync k v).getSync k' = if k' = k then some v else s.getSync k')
    (h : Inv ok init tm evs) {slot : Nat} {tx : Tx} {tm' : TM} (hx : tm.tx? slot = some tx)
    (hact : tx.stat = .active) (hc : checkConflict tm tx = false) (c : CommitOk tm slot tx tm') :
    Inv ok init tm' (evs ++ [.committed slot tx.wset]) := by
  have sim : Sim tm tm' := sim_of_upd hx c.txs rfl rfl rfl (fun h => by cases h) (fun _ h => h)
  have hw := applyWrites_spec ok ok_put get_put tx.wset tm.store (replay init evs) h.store_ok h.store_eq
  have hrep : ∀ k, replay init (evs ++ [.committed slot tx.wset]) k = applyF (replay init evs) tx.wset k :=
    fun k => by rw [replay_append]; rfl
  have act_ne : ∀ s t, tm'.tx? s = some t → t.stat = .active → s ≠ slot ∧ tm.tx? s = some t := by
    intro s t ht ha
    rw [c.txs] at ht
    by_cases hs : s = slot
    · simp only [hs, if_true, Option.some.injEq] at ht
      subst ht
      cases ha
    · simp only [hs, if_false] at ht
      exact ⟨hs, ht⟩
  refine
    { store_eq := fun k => by rw [c.store, hrep]; exact hw.2 k
      store_ok := by rw [c.store]; exact hw.1
      snap_le := fun s t ht => ?_
      id_lt := fun s t ht => ?_
      id_inj := fun s1 s2 t1 t2 h1 h2 he => ?_
      log_id_lt := fun e he => ?_
      log_txid := fun e he s t ht ha => ?_
      ev_slot := fun e he => ?_
      fetched := fun s k val hf t ht ha => ?_
      comm := fun pre post s w hd t ht hl => ?_ }
  · obtain ⟨t0, h0, _, _, h3, _⟩ := sim.back s t ht
    have := h.snap_le s t0 h0
    rw [c.version, h3]; omega
  · obtain ⟨t0, h0, h1, _⟩ := sim.back s t ht
    rw [c.nextId, h1]; exact h.id_lt s t0 h0
  · obtain ⟨a, ha, ha1, _⟩ := sim.back s1 t1 h1
    obtain ⟨b, hb, hb1, _⟩ := sim.back s2 t2 h2
    exact h.id_inj s1 s2 a b ha hb (by omega)
  · rw [c.log] at he
    rw [c.nextId]
    rcases List.mem_append.1 he with he | he
    · exact h.log_id_lt e he
    · simp only [List.mem_singleton] at he
      subst he
      exact h.id_lt slot tx hx
  · rw [c.log] at he
    obtain ⟨hs, h0⟩ := act_ne s t ht ha
    rcases List.mem_append.1 he with he | he
    · exact h.log_txid e he s t h0 ha
    · simp only [List.mem_singleton] at he
      subst he
      intro hid
      exact hs (h.id_inj s slot t tx h0 hx hid.symm)
  · rcases List.mem_append.1 he with he | he
    · exact sim.fwd _ (h.ev_slot e he)
    · simp only [List.mem_singleton] at he
      subst he
      simp [Ev.slot, c.txs]
  · have hf : Ev.fetched s k val ∈ evs := by simpa using hf
    obtain ⟨hs, h0⟩ := act_ne s t ht ha
    obtain ⟨g1, g2⟩ := h.fetched s k val hf t h0 ha
    refine ⟨g1, ?_⟩
    rw [c.log]
    rcases g2 with g2 | ⟨e, he, g3⟩
    · by_cases hk : k ∈ tx.wset.map (·.1)
      · refine .inr ⟨commitEntry tm tx, by simp, ?_, hk⟩
        have := h.snap_le s t h0
        simp only [commitEntry]; omega
      · refine .inl ?_
        rw [c.store, hw.2 k, applyF_notin _ _ _ hk, ← h.store_eq k]
        exact g2
    · exact .inr ⟨e, by simp [he], g3⟩
  · rcases split_snoc hd with ⟨_, h2, h3⟩ | ⟨post', _, h2⟩
    · simp only [Ev.committed.injEq] at h3
      obtain ⟨rfl, rfl⟩ := h3
      subst h2
      intro k val hf
      rw [c.txs] at ht
      simp only [if_true, Option.some.injEq] at ht
      subst ht
      obtain ⟨g1, g2⟩ := h.fetched slot k val hf tx hx hact
      rcases g2 with g2 | ⟨e, he, g3, g4⟩
      · rw [g2]; exact h.store_eq k
      · have hce : conflictWith tx e = false := by
          simp only [checkConflict, List.any_eq_false] at hc
          simpa using hc e he
        have := no_conflict_ser hce hl g3 (h.log_txid e he slot tx hx hact)
        exact absurd g4 (inter_false this k g1)
    · obtain ⟨t0, h0, _, h4, _⟩ := sim.back s t ht
      exact h.comm pre post' s w h2 t0 h0 (h4 ▸ hl)

/-- an active transaction record is replaced (read set grows, write set changes, or it aborts) -/
theorem sim_upd {slot : Nat} {tx tx' : Tx} {tm' : TM} (hx : tm.tx? slot = some tx)
    (e : tm'.txs = (tm.setTx tx').txs) (hsl : tx'.slot = tx.slot)
    (hid : tx'.id = tx.id) (hl : tx'.level = tx.level) (hs : tx'.snap = tx.snap)
    (hst : tx'.stat = .active → tx.stat = .active) (hr : ∀ k ∈ tx.rset, k ∈ tx'.rset) : Sim tm tm' := by
  have hs' := tx?_mem hx
  refine sim_of_upd hx (fun s => ?_) hid hl hs hst hr
  have := tx?_setTx tm tx' (by simp [hsl, hs', hx]) s
  simp only [hsl, hs'] at this
  rw [← this]
  simp only [TM.tx?, e]

theorem Inv.upd (h : Inv ok init tm evs) {slot : Nat} {tx tx' : Tx} {tm' : TM} (hx : tm.tx? slot = some tx)
    (e : tm'.txs = (tm.setTx tx').txs) (hsl : tx'.slot = tx.slot)
    (hid : tx'.id = tx.id) (hl : tx'.level = tx.level) (hs : tx'.snap = tx.snap)
    (hst : tx'.stat = .active → tx.stat = .active) (hr : ∀ k ∈ tx.rset, k ∈ tx'.rset)
    (h1 : tm'.store = tm.store) (h2 : tm'.version = tm.version) (h3 : tm'.log = tm.log)
    (h4 : tm'.nextId = tm.nextId) : Inv ok init tm' evs :=
  h.frame (sim_upd hx e hsl hid hl hs hst hr) h1 h2 h3 h4

theorem Inv.step (ok_put : ∀ s k v, ok s → ok (s.putSync k v))
    (get_put : ∀ s k v k', ok s → (s.putSync k v).getSync k' = if k' = k then some v else s.getSync k')
    (h : Inv ok init tm evs) (a : Act) : Inv ok init (stepA tm a).1 (evs ++ (stepA tm a).2) := by
  cases a with
  | begin slot lvl =>
    cases hx : tm.tx? slot with
    | none => simpa [stepA, hx] using h.begin lvl hx
    | some tx => simpa [stepA, hx, TM.begin] using h
  | readStart slot k =>
    cases hx : tm.tx? slot with
    | none => simpa [stepA, hx, TM.readStart] using h
    | some tx =>
      by_cases ha : tx.stat = .active
      · simp only [stepA, TM.readStart, hx, ha, if_true, List.append_nil]
        exact h.upd hx rfl rfl rfl rfl rfl (fun _ => ha) (fun _ => mem_addKey) rfl rfl rfl rfl
      · simpa [stepA, hx, TM.readStart, ha] using h
  | readFetch slot k =>
    cases hx : tm.tx? slot with
    | none => simpa [stepA, hx] using h
    | some tx =>
      by_cases hg : tx.stat = .active ∧ k ∈ tx.rset
      · simpa [stepA, hx, hg] using h.fetch hx hg.2
      · simp only [stepA, hx, hg, if_false, List.append_nil]; exact h
  | write slot k v =>
    cases hx : tm.tx? slot with
    | none => simpa [stepA, hx, TM.write] using h
    | some tx =>
      by_cases ha : tx.stat = .active
      · simp only [stepA, TM.write, hx, ha, if_true, List.append_nil]
        exact h.upd hx rfl rfl rfl rfl rfl (fun _ => ha) (fun _ h => h) rfl rfl rfl rfl
      · simpa [stepA, hx, TM.write, ha] using h
  | commit slot =>
    cases hx : tm.tx? slot with
    | none => simpa [stepA, hx, TM.commit] using h
    | some tx =>
      by_cases ha : tx.stat = .active
      · cases hc : checkConflict tm tx with
        | true =>
          simp only [stepA, TM.commit, hx, ha, hc, if_true]
          simp only [ne_eq, not_true_eq_false, if_false, Bool.false_eq_true, List.append_nil]
          exact h.upd (tx' := { tx with stat := .aborted }) hx rfl rfl rfl rfl rfl (fun _ => ha)
            (fun _ h => h) rfl rfl rfl rfl
        | false =>
          obtain ⟨c1, c2⟩ := commit_ok hx ha hc
          simp only [stepA, hx, c1, if_true]
          exact h.commit ok_put get_put hx ha hc c2
      · simpa [stepA, hx, TM.commit, ha] using h
  | abort slot =>
    cases hx : tm.tx? slot with
    | none => simpa [stepA, hx, TM.abort] using h
    | some tx =>
      by_cases ha : tx.stat = .active
      · simp only [stepA, TM.abort, hx, ha, if_true, List.append_nil]
        exact h.upd (tx' := { tx with stat := .aborted }) hx rfl rfl rfl rfl rfl (fun _ => ha)
          (fun _ h => h) rfl rfl rfl rfl
      · simpa [stepA, hx, TM.abort, ha] using h

theorem Inv.run (ok_put : ∀ s k v, ok s → ok (s.putSync k v))
    (get_put : ∀ s k v k', ok s → (s.putSync k v).getSync k' = if k' = k then some v else s.getSync k')
    (acts : List Act) : ∀ {tm : TM} {evs : List Ev}, Inv ok init tm evs →
      Inv ok init (runA tm acts).1 (evs ++ (runA tm acts).2) := by
  induction acts with
  | nil => intro tm evs h; simpa [runA] using h
  | cons a as ih =>
    intro tm evs h
    have := ih (h.step ok_put get_put a)
    simpa [runA, List.append_assoc] using this

theorem Inv.start (s0 : Store) (h0 : ok s0) : Inv ok s0.getSync { store := s0 } [] where
  store_eq _ := rfl
  store_ok := h0
  snap_le s tx h := by simp [TM.tx?] at h
  id_lt s tx h := by simp [TM.tx?] at h
  id_inj s1 s2 t1 t2 h := by simp [TM.tx?] at h
  log_id_lt e he := by simp at he
  log_txid e he := by simp at he
  ev_slot e he := by simp at he
  fetched s k val hf := by simp at hf
  comm pre post s w hd := by simp at hd

end HappyModel.C14.SM
