import HappyProofs.C14.LsmReadStep
/-! The reader's own segments: `get`. -/
namespace HappyModel.C14

/-- past a table without the key: to the next table of the snapshot, or to the next level -/
theorem rb_advance {cfg : Cfg} {mem : Data} {imms : List Tab} {lv : List (List Tab)} {k : Key} {i : Nat} {t : Tab}
    {r : List Tab} {Al : Cell → Prop} (hI : LvInv cfg lv) (h : RB mem imms lv k i (t :: r) Al)
    (ht : t.data.lookup k = none) (skip : Tab → Bool) (hskip : ∀ t, skip t = true → t.data.lookup k = none) :
    match walkG skip r with
    | some (t', r') => RB mem imms lv k i (t' :: r') Al
    | none => match walkLG skip (lv.drop (i + 1)) (i + 1) with
      | some (i', t', r') => RB mem imms lv k i' (t' :: r') Al
      | none => Al none := by
  cases hw : walkG skip r with
  | some tr =>
    obtain ⟨t', r'⟩ := tr
    simp only
    obtain ⟨sk, e, hsk⟩ := walkG_some hw
    refine rb_within h (sk := t :: sk) (by rw [e]; rfl) ?_
    intro x hx
    rcases List.mem_cons.mp hx with rfl | hx
    · exact ht
    · exact hskip x (hsk x hx)
  | none =>
    simp only
    have hn : lookTabs k (t :: r) = none := by
      apply lookTabs_none_iff.mpr
      intro x hx
      rcases List.mem_cons.mp hx with rfl | hx
      · exact ht
      · exact hskip x (walkG_none hw x hx)
    exact pre_enter hI (rb_exhausted h hn) skip hskip

theorem abs_of_read {s : St} {k : Key} : s.abs k = ((s.mem.lookup k).or ((lookTabs k s.imms.reverse).or (lookLevels k s.levels))).join := by
  unfold St.abs; rw [read_eq]

theorem getStart_ok {cfg : Cfg} {s : St} (hs : SInv cfg s) (k : Key) {Al : Cell → Prop} (hal : Al (s.abs k)) :
    (∀ i t r, (getStart cfg s k).2 = .gAt k i t r → RB s.mem s.imms s.levels k i (t :: r) Al) ∧
    (∀ c, (getStart cfg s k).2 = .done (.val c) → Al c) := by
  rw [abs_of_read] at hal
  unfold getStart
  cases hm : s.mem.lookup k with
  | some c =>
    simp only
    rw [hm] at hal
    refine ⟨fun i t r e => (by cases e), fun c' e => ?_⟩
    injection e with e; injection e with e; subst e; exact hal
  | none =>
    simp only
    rw [hm, Option.none_or] at hal
    cases hi : lookTabs k s.imms.reverse with
    | some c =>
      simp only
      rw [hi] at hal
      refine ⟨fun i t r e => (by cases e), fun c' e => ?_⟩
      injection e with e; injection e with e; subst e; exact hal
    | none =>
      simp only
      rw [hi, Option.none_or] at hal
      have hP : Pre s.mem s.imms s.levels k 0 Al := by
        refine ⟨(by simpa using hal), fun c hc => (by rw [hm] at hc; cases hc), ?_, fun j hj => (by omega)⟩
        intro u hu c hc
        rw [lookTabs_none_iff.mp hi u (List.mem_reverse.mpr hu)] at hc; cases hc
      have := pre_enter hs.lv hP (fun t => !maybe cfg t k) (skip_maybe cfg k)
      unfold getLevels
      rw [walkLevels_eq]
      cases hw : walkLG (fun t => !maybe cfg t k) (s.levels.drop 0) 0 with
      | some itr =>
        obtain ⟨i', t', r'⟩ := itr
        rw [hw] at this
        simp only at this ⊢
        refine ⟨fun i t r e => ?_, fun c e => by cases e⟩
        injection e with _ e2 e3 e4
        subst e2; subst e3; subst e4; exact this
      | none =>
        rw [hw] at this
        simp only at this ⊢
        refine ⟨fun i t r e => (by cases e), fun c e => ?_⟩
        injection e with e; injection e with e; subst e; exact this

theorem getResume_ok {cfg : Cfg} {s : St} (hs : SInv cfg s) (k : Key) (i : Nat) (t : Tab) (r : List Tab) {Al : Cell → Prop}
    (h : RB s.mem s.imms s.levels k i (t :: r) Al) :
    (∀ i' t' r', (getResume cfg s k i t r).2 = .gAt k i' t' r' → RB s.mem s.imms s.levels k i' (t' :: r') Al) ∧
    (∀ c, (getResume cfg s k i t r).2 = .done (.val c) → Al c) := by
  unfold getResume
  cases ht : t.data.lookup k with
  | some c =>
    simp only
    have hc := h.cont
    rw [lookTabs_cons, ht] at hc
    refine ⟨fun i t r e => (by cases e), fun c' e => ?_⟩
    injection e with e; injection e with e; subst e; exact hc
  | none =>
    simp only
    have := rb_advance hs.lv h ht (fun t => !maybe cfg t k) (skip_maybe cfg k)
    rw [walkTabs_eq]
    cases hw : walkG (fun t => !maybe cfg t k) r with
    | some tr =>
      obtain ⟨t', r'⟩ := tr
      rw [hw] at this
      simp only at this ⊢
      refine ⟨fun i t r e => ?_, fun c e => by cases e⟩
      injection e with _ e2 e3 e4
      subst e2; subst e3; subst e4; exact this
    | none =>
      rw [hw] at this
      simp only at this ⊢
      unfold getLevels
      rw [walkLevels_eq]
      cases hw2 : walkLG (fun t => !maybe cfg t k) (s.levels.drop (i + 1)) (i + 1) with
      | some itr =>
        obtain ⟨i', t', r'⟩ := itr
        rw [hw2] at this
        simp only at this ⊢
        refine ⟨fun i t r e => ?_, fun c e => by cases e⟩
        injection e with _ e2 e3 e4
        subst e2; subst e3; subst e4; exact this
      | none =>
        rw [hw2] at this
        simp only at this ⊢
        refine ⟨fun i t r e => (by cases e), fun c e => ?_⟩
        injection e with e; injection e with e; subst e; exact this

end HappyModel.C14
