import HappyProofs.C14.BTreeInv
/-!
# B-tree, part 3: node-level refinement of get / delete / insert / scan

Each operation on a node satisfying `InvF` is the corresponding sorted-list operation on the
flattened contents `toListN`.  Each proof is an induction on the fuel, with the walk over the children
of one inner node factored out as a lemma that is generic in the per-child invariant `P`.
-/
namespace HappyModel.C14.BT
open HappyModel.C14

/-! ### equation lemmas -/

theorem getN_leaf (f : Nat) (kvs : KV) (k : Key) : getN f (.leaf kvs) k = leafGet k kvs := by cases f <;> rfl
theorem delN_leaf (f : Nat) (kvs : KV) (k : Key) : delN f (.leaf kvs) k = .leaf (eraseKey k kvs) := by
  cases f <;> rfl
theorem insNF_leaf (order f : Nat) (kvs : KV) (k : Key) (v : Nat) :
    insNF order f (.leaf kvs) k v = .leaf (upsert k v kvs) := by cases f <;> rfl
theorem scanN_leaf (f : Nat) (kvs : KV) (lo hi : Key) : scanN f (.leaf kvs) lo hi = leafScan lo hi kvs := by
  cases f <;> rfl

/-! ### get -/

theorem get_kids {P : Key → Key → Node → Prop} {g : Node → KV}
    (hP : ∀ lo hi n, P lo hi n → keysIn lo hi (g n)) (k : Key) :
    ∀ (rest : List (Key × Node)) (lo hi : Key) (c : Node), KidsInv P lo hi c rest →
      (∃ lo' hi', P lo' hi' (findKid k c rest)) ∧
        leafGet k (flatKids g c rest) = leafGet k (g (findKid k c rest))
  | [], lo, hi, c, h => ⟨⟨lo, hi, h.1⟩, rfl⟩
  | (s, c') :: tl, lo, hi, c, h => by
    simp only [findKid, flatKids]
    by_cases hks : k < s
    · simp only [hks, if_true]
      refine ⟨⟨lo, s, h.1⟩, leafGet_append_left ?_ _⟩
      intro e he
      have := kids_keysIn hP tl s hi c' h.2.2 e he
      komega
    · simp only [hks, if_false]
      have ih := get_kids hP k tl s hi c' h.2.2
      refine ⟨ih.1, ?_⟩
      rw [leafGet_append_right, ih.2]
      intro e he
      have := hP lo s c h.1 e he
      komega

theorem getN_spec (k : Key) : ∀ (f : Nat) (lo hi : Key) (n : Node), InvF f lo hi n →
    getN f n k = leafGet k (toListN f n)
  | f, lo, hi, .leaf kvs, _ => by rw [getN_leaf, toListN_leaf]
  | 0, _, _, .inner _ _, h => h.elim
  | f + 1, lo, hi, .inner c0 rest, h => by
    obtain ⟨⟨lo', hi', hp⟩, hg⟩ := get_kids (invF_keysIn f) k rest lo hi c0 h
    show getN f (findKid k c0 rest) k = leafGet k (flatKids (toListN f) c0 rest)
    rw [hg]
    exact getN_spec k f lo' hi' _ hp

/-! ### delete -/

theorem del_kids {P : Key → Key → Node → Prop} {g : Node → KV}
    (hP : ∀ lo hi n, P lo hi n → keysIn lo hi (g n)) (k : Key) (d : Node → Node)
    (hd : ∀ lo hi n, P lo hi n → P lo hi (d n) ∧ g (d n) = eraseKey k (g n)) :
    ∀ (rest : List (Key × Node)) (lo hi : Key) (c : Node), KidsInv P lo hi c rest →
      KidsInv P lo hi (mapKid d k c rest).1 (mapKid d k c rest).2 ∧
        flatKids g (mapKid d k c rest).1 (mapKid d k c rest).2 = eraseKey k (flatKids g c rest)
  | [], lo, hi, c, h => by
    simp only [mapKid, KidsInv, flatKids]
    exact ⟨⟨(hd lo hi c h.1).1, h.2⟩, (hd lo hi c h.1).2⟩
  | (s, c') :: tl, lo, hi, c, h => by
    simp only [mapKid]
    by_cases hks : k < s
    · simp only [hks, if_true, KidsInv, flatKids]
      refine ⟨⟨(hd lo s c h.1).1, h.2.1, h.2.2⟩, ?_⟩
      rw [(hd lo s c h.1).2, eraseKey_append_left]
      intro e he
      have := kids_keysIn hP tl s hi c' h.2.2 e he
      komega
    · simp only [hks, if_false, KidsInv, flatKids]
      have ih := del_kids hP k d hd tl s hi c' h.2.2
      refine ⟨⟨h.1, h.2.1, ih.1⟩, ?_⟩
      rw [ih.2, eraseKey_append_right]
      intro e he
      have := hP lo s c h.1 e he
      komega

theorem delN_spec (k : Key) : ∀ (f : Nat) (lo hi : Key) (n : Node), InvF f lo hi n →
    InvF f lo hi (delN f n k) ∧ toListN f (delN f n k) = eraseKey k (toListN f n)
  | f, lo, hi, .leaf kvs, h => by
    rw [delN_leaf, toListN_leaf, toListN_leaf]
    rw [invF_leaf] at h ⊢
    exact ⟨⟨map_sorted_erase k kvs h.1, keysIn_eraseKey h.2⟩, rfl⟩
  | 0, _, _, .inner _ _, h => h.elim
  | f + 1, lo, hi, .inner c0 rest, h =>
    del_kids (invF_keysIn f) k (fun c => delN f c k) (delN_spec k f) rest lo hi c0 h

/-! ### insert -/

/-- the chosen child alone: split when full, insert into the half selected by `k ≥ separator` -/
theorem target_nil {P : Key → Key → Node → Prop} {g : Node → KV} (order : Nat) (k : Key) (v : Nat)
    (ins : Node → Node)
    (hP : ∀ lo hi n, P lo hi n → keysIn lo hi (g n))
    (hins : ∀ lo hi n, P lo hi n → lo ≤ k → k < hi → P lo hi (ins n) ∧ g (ins n) = upsert k v (g n))
    (hsp : ∀ lo hi n, P lo hi n → full order n = true → SplitOK P g lo hi n)
    (lo hi : Key) (c : Node) (hc : P lo hi c) (hle : lo ≤ hi) (h1 : lo ≤ k) (h2 : k < hi) :
    KidsInv P lo hi (target order ins k c []).1 (target order ins k c []).2 ∧
      flatKids g (target order ins k c []).1 (target order ins k c []).2 = upsert k v (g c) := by
  simp only [target]
  by_cases hf : full order c = true
  · obtain ⟨s1, s2, s3, s4, s5⟩ := hsp lo hi c hc hf
    simp only [hf, if_true]
    by_cases hk : k ≥ (split c).2.1
    · simp only [hk, if_true, KidsInv, flatKids]
      have hi2 := hins _ _ _ s2 hk h2
      refine ⟨⟨s1, s3, hi2.1, s4⟩, ?_⟩
      rw [hi2.2, ← s5, upsert_append_right]
      intro e he
      have := hP _ _ _ s1 e he
      komega
    · simp only [hk, if_false, KidsInv, flatKids]
      have hi1 := hins _ _ _ s1 h1 (by komega)
      refine ⟨⟨hi1.1, s3, s2, s4⟩, ?_⟩
      rw [hi1.2, ← s5, upsert_append_left]
      intro e he
      have := hP _ _ _ s2 e he
      komega
  · simp only [hf]
    exact ⟨⟨(hins lo hi c hc h1 h2).1, hle⟩, (hins lo hi c hc h1 h2).2⟩

theorem target_tl (order : Nat) (ins : Node → Node) (k : Key) (c : Node) (tl : List (Key × Node)) :
    target order ins k c tl = ((target order ins k c []).1, (target order ins k c []).2 ++ tl) := by
  simp only [target]
  by_cases hf : full order c = true
  · by_cases hk : k ≥ (split c).2.1 <;> simp [hf, hk]
  · simp [hf]

theorem ins_kids {P : Key → Key → Node → Prop} {g : Node → KV} (order : Nat) (k : Key) (v : Nat)
    (ins : Node → Node)
    (hP : ∀ lo hi n, P lo hi n → keysIn lo hi (g n))
    (hins : ∀ lo hi n, P lo hi n → lo ≤ k → k < hi → P lo hi (ins n) ∧ g (ins n) = upsert k v (g n))
    (hsp : ∀ lo hi n, P lo hi n → full order n = true → SplitOK P g lo hi n) :
    ∀ (rest : List (Key × Node)) (lo hi : Key) (c : Node), KidsInv P lo hi c rest → lo ≤ k → k < hi →
      KidsInv P lo hi (insKids order ins k c rest).1 (insKids order ins k c rest).2 ∧
        flatKids g (insKids order ins k c rest).1 (insKids order ins k c rest).2 =
          upsert k v (flatKids g c rest)
  | [], lo, hi, c, h, h1, h2 => by
    simp only [insKids, flatKids]
    exact target_nil order k v ins hP hins hsp lo hi c h.1 h.2 h1 h2
  | (s, c') :: tl, lo, hi, c, h, h1, h2 => by
    simp only [insKids]
    by_cases hks : k < s
    · simp only [hks, if_true]
      rw [target_tl]
      obtain ⟨t1, t2⟩ := target_nil order k v ins hP hins hsp lo s c h.1 h.2.1 h1 hks
      refine ⟨(kids_append s c' tl hi _ lo _).2 ⟨t1, h.2.2⟩, ?_⟩
      simp only [flatKids]
      rw [flatKids_append, t2, upsert_append_left]
      intro e he
      have := kids_keysIn hP tl s hi c' h.2.2 e he
      komega
    · simp only [hks, if_false, KidsInv, flatKids]
      have ih := ins_kids order k v ins hP hins hsp tl s hi c' h.2.2 (by komega) h2
      refine ⟨⟨h.1, h.2.1, ih.1⟩, ?_⟩
      rw [ih.2, upsert_append_right]
      intro e he
      have := hP lo s c h.1 e he
      komega

theorem insNF_spec (order : Nat) (ho : 3 ≤ order) (k : Key) (v : Nat) :
    ∀ (f : Nat) (lo hi : Key) (n : Node), InvF f lo hi n → lo ≤ k → k < hi →
      InvF f lo hi (insNF order f n k v) ∧ toListN f (insNF order f n k v) = upsert k v (toListN f n)
  | f, lo, hi, .leaf kvs, h, h1, h2 => by
    rw [insNF_leaf, toListN_leaf, toListN_leaf]
    rw [invF_leaf] at h ⊢
    exact ⟨⟨map_sorted_upsert k v kvs h.1, keysIn_upsert h.2 h1 h2⟩, rfl⟩
  | 0, _, _, .inner _ _, h, _, _ => h.elim
  | f + 1, lo, hi, .inner c0 rest, h, h1, h2 =>
    ins_kids order k v (fun c => insNF order f c k v) (invF_keysIn f) (insNF_spec order ho k v f)
      (split_ok order ho f) rest lo hi c0 h h1 h2

/-! ### scan -/

theorem scan_kids {P : Key → Key → Node → Prop} {g : Node → KV}
    (hP : ∀ lo hi n, P lo hi n → keysIn lo hi (g n)) (lo hi : Key) (sc : Node → KV)
    (hsc : ∀ a b n, P a b n → sc n = inRange lo hi (g n)) :
    ∀ (rest : List (Key × Node)) (a b : Key) (c : Node) (low : Option Key), KidsInv P a b c rest →
      (low = none ∨ low = some a) →
      scanKids sc lo hi low c rest = inRange lo hi (flatKids g c rest)
  | [], a, b, c, low, h, hl => by
    simp only [scanKids, flatKids]
    by_cases hb : brk low hi = true
    · simp only [hb, if_true]
      rcases hl with rfl | rfl
      · simp [brk] at hb
      · simp only [brk, ge_iff_le, decide_eq_true_eq] at hb
        exact (inRange_nil_of_ge (hP a b c h.1) hb).symm
    · simp only [hb]
      exact hsc a b c h.1
  | (s, c') :: tl, a, b, c, low, h, hl => by
    simp only [scanKids, flatKids]
    by_cases hb : brk low hi = true
    · simp only [hb, if_true]
      rcases hl with rfl | rfl
      · simp [brk] at hb
      · simp only [brk, ge_iff_le, decide_eq_true_eq] at hb
        have := kids_keysIn hP ((s, c') :: tl) a b c h
        simp only [flatKids] at this
        exact (inRange_nil_of_ge this hb).symm
    · simp only [hb, Bool.false_eq_true, if_false]
      rw [inRange_append, scan_kids hP lo hi sc hsc tl s b c' (some s) h.2.2 (Or.inr rfl)]
      by_cases hs : s ≤ lo
      · simp only [hs, if_true]
        rw [inRange_nil_of_le (hP a s c h.1) hs]
      · simp only [hs, if_false]
        rw [hsc a s c h.1]

theorem scanN_spec (lo hi : Key) : ∀ (f : Nat) (a b : Key) (n : Node), InvF f a b n →
    scanN f n lo hi = inRange lo hi (toListN f n)
  | f, a, b, .leaf kvs, h => by
    rw [scanN_leaf, toListN_leaf]
    rw [invF_leaf] at h
    exact leafScan_eq_inRange lo hi kvs h.1
  | 0, _, _, .inner _ _, h => h.elim
  | f + 1, a, b, .inner c0 rest, h =>
    scan_kids (invF_keysIn f) lo hi (fun c => scanN f c lo hi) (scanN_spec lo hi f) rest a b c0 none h
      (Or.inl rfl)

end HappyModel.C14.BT
