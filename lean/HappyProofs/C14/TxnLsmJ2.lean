import HappyProofs.C14.TxnLsmJ1
/-!
# The side invariant `LJ` for transactions over `Store.lsm`, part 2: obligation (3) and the theorem
-/
namespace HappyModel.C14.SM.LM
open HappyModel.C14 HappyModel.C14.SM HappyModel.C14.BT HappyModel.C14.TxSpec

theorem lj_fetch1 {tm : TM} {fs : List (Frame TPc)} (hJ : LJ tm fs) (s : Nat) (k : Key) (r : SRes)
    (h : (readAdvance (tm.readStart s k) s k (.start (.get k))).2 = .done r) :
    r = .val (fetchVal (tm.readStart s k) s k) := by
  obtain ⟨cfg, st, hst, _, hs, _, _⟩ := hJ.st
  have hst1 : (tm.readStart s k).store = .lsm cfg st := by rw [(readStart_store tm s k).1]; exact hst
  rcases lsmGetStep_gStart (cfg := cfg) hs k (Al := fun c => c = st.abs k) rfl with ⟨c, e, hc⟩ | ⟨i, t, r', e, _⟩
  · have h1 : (stepS (tm.readStart s k).store (.start (.get k))).2 = .done (.val c) := by
      rw [hst1, stepS_lsm_start, e]
    rw [readAdvance_of_done h1] at h
    injection h with h
    subst hc
    have : fetchVal (tm.readStart s k) s k = adjVal (tm.readStart s k) s k (st.abs k) := by
      unfold fetchVal adjVal; rw [hst1]; rfl
    rw [this]; exact h.symm
  · have h1 : (stepS (tm.readStart s k).store (.start (.get k))).2 = .lsmGet (.gAt k i t r') := by
      rw [hst1, stepS_lsm_start, e]
    rw [readAdvance_of_lsmGet h1] at h
    cases h

/-- the first segment of an operation leaves store and commit log alone, unless it is a successful commit -/
theorem start_cases (tm : TM) (op : TOp) :
    ((stepT tm (.start op)).1.store = tm.store ∧ (stepT tm (.start op)).1.log = tm.log) ∨
    ∃ s tx, op = .commit s ∧ tm.tx? s = some tx ∧ CommitOk tm s tx (stepT tm (.start op)).1 := by
  cases op with
  | «begin» s l =>
    left
    show (tm.begin s l).store = _ ∧ (tm.begin s l).log = _
    unfold TM.begin
    split <;> exact ⟨rfl, rfl⟩
  | read s k =>
    left
    have : (stepT tm (.start (.read s k))).1 = tm.readStart s k := (stepT_state tm).2.1 s k
    rw [this]
    exact readStart_store tm s k
  | write s k v =>
    left
    show (tm.write s k v).store = _ ∧ (tm.write s k v).log = _
    unfold TM.write
    split
    · split <;> exact ⟨rfl, rfl⟩
    · exact ⟨rfl, rfl⟩
  | abort s =>
    left
    show (tm.abort s).store = _ ∧ (tm.abort s).log = _
    unfold TM.abort
    split
    · split <;> exact ⟨rfl, rfl⟩
    · exact ⟨rfl, rfl⟩
  | commit s =>
    show ((tm.commit s).1.store = _ ∧ (tm.commit s).1.log = _) ∨ _
    cases hx : tm.tx? s with
    | none => left; simp [TM.commit, hx]
    | some tx =>
      by_cases ha : tx.stat = .active
      · cases hc : checkConflict tm tx with
        | false => right; exact ⟨s, tx, rfl, hx, (commit_ok hx ha hc).2⟩
        | true => left; simp [TM.commit, hx, ha, hc, TM.setTx]
      · left; simp [TM.commit, hx, ha]

theorem pcOK_rd {ops : List (Nat × TOp)} {tm : TM} {tlog : List (Nat × Ev)} {id b : Nat} {f : Frame TPc} {op : TOp}
    (h : PcOK ops tm tlog id b f op) {s : Nat} {k : Key} {p : SPc} (hp : f.pc = .rd s k p) : op = .read s k := by
  cases op with
  | «begin» s' l =>
    obtain ⟨⟨r, h1 | h1⟩, _⟩ := h <;> rw [hp] at h1 <;> cases h1
  | write s' k' v =>
    obtain ⟨r, h1 | h1⟩ := h <;> rw [hp] at h1 <;> cases h1
  | abort s' =>
    obtain ⟨r, h1⟩ := h
    rw [hp] at h1; cases h1
  | commit s' =>
    rcases h.1 with h1 | ⟨fl, h1⟩ <;> rw [hp] at h1 <;> cases h1
  | read s' k' =>
    rcases h with ⟨j, h1, _⟩ | ⟨c, h1, _⟩
    · rw [hp] at h1
      injection h1 with a b _
      subst a; subst b; rfl
    · rw [hp] at h1; cases h1

variable {init : Key → Option Nat} {ops : List (Nat × TOp)} {tm : TM} {fs : List (Frame TPc)} {n : Nat}
  {tlog : List (Nat × Ev)}

/-- an in-flight reader is in a different slot from any operation that is starting -/
theorem other_slot (R : RInv lsmOk init ops tm fs n tlog) (hwf : WFProg ops) {pre post : List (Nat × TOp)}
    {id : Nat} {op : TOp} (hsp : ops = pre ++ (id, op) :: post) (FF : FirstFacts ops tm fs n pre post id op)
    {id' : Nat} (hid : id' ≠ id) {f' : Frame TPc} (hf' : frameOf fs id' = some f') {s' : Nat} {k' : Key} {p : SPc}
    (hp : f'.pc = .rd s' k' p) : s' ≠ op.slot := by
  obtain ⟨op', hlk'⟩ := R.lookup_frame hwf hf'
  have F := R.frames id' f' op' hf' hlk'
  cases hb' : f'.b with
  | none => have := F.fresh hb'; rw [hp] at this; cases this
  | some b' =>
    have := pcOK_rd (F.kind b' hb') hp
    subst this
    intro hs
    obtain ⟨pre', post', hsp'⟩ := lookup_split hlk'
    have hmem : (id', TOp.read s' k') ∈ ops := by rw [hsp']; simp
    rw [hsp] at hmem
    simp only [List.mem_append, List.mem_cons] at hmem
    rcases hmem with h | h | h
    · obtain ⟨g, b, e, hg, _, hd, _⟩ := FF.before _ h hs
      rw [hf'] at hg
      injection hg with hg
      subst hg
      rw [hp] at hd; cases hd
    · injection h with h1 _
      exact hid h1
    · have := FF.after _ h hs
      rw [startedIn_of hf' hb'] at this
      cases this

/-- obligation (3): one segment preserves `LJ` -/
theorem lj_step (hwf : WFProg ops) (hnr : NoRC ops) (id : Nat) (R : RInv lsmOk init ops tm fs n tlog) (hJ : LJ tm fs)
    (hseq : ∀ pre o post, o.1 = id → ops = pre ++ o :: post → ∀ a ∈ pre, a.2.slot = o.2.slot → doneIn fs a.1 = true) :
    LJ (stepFrames stepT TPc.isDone tm n id fs).1 (stepFrames stepT TPc.isDone tm n id fs).2 := by
  cases hf : frameOf fs id with
  | none => rw [stepFrames_none stepT TPc.isDone tm n id fs hf]; exact hJ
  | some f =>
    cases hd : f.pc.isDone with
    | true => rw [stepFrames_done stepT TPc.isDone tm n id fs f hf hd]; exact hJ
    | false =>
      obtain ⟨s1, s2, _⟩ := stepFrames_step stepT TPc.isDone tm n id fs f hf hd
      obtain ⟨op, hlk⟩ := R.lookup_frame hwf hf
      cases hb : f.b with
      | none =>
        obtain ⟨pre, post, hsp⟩ := lookup_split hlk
        have FF := R.first_facts hwf hsp hf hb (hseq pre (id, op) post rfl hsp)
        have hfp : f.pc = .start op := (R.frames id f op hf hlk).fresh hb
        obtain ⟨evs, E⟩ := eff1_stepT (n := n) lsm_laws.1 lsm_laws.2 (lj_fetch1 hJ) R.inv R.inv2 id op FF.wset FF.active
          FF.fresh
        rw [hfp] at s1 s2
        have hok' : lsmOk (stepT tm (.start op)).1.store := E.inv.store_ok
        have hlvl : ∀ s tx, (stepT tm (.start op)).1.tx? s = some tx → tx.level ≠ .rc := by
          intro s tx hx
          by_cases hs : s = op.slot
          · subst hs
            obtain ⟨tx', h1, h2, _, _, h5, _⟩ := E.upd.self
            rw [h1] at hx
            injection hx with hx
            subst hx
            cases hbg : op.isBegin with
            | false =>
              obtain ⟨tx0, hx0, _⟩ := FF.active hbg
              rw [(h2 tx0 hx0).1]
              exact hJ.lvl _ _ hx0
            | true =>
              cases op with
              | «begin» s0 l =>
                have hl : tx'.level = l := h5 l rfl
                rw [hl]
                intro hrc
                subst hrc
                have hmem : (id, TOp.begin s0 .rc) ∈ ops := by rw [hsp]; simp
                exact hnr _ hmem s0 rfl
              | read _ _ => cases hbg
              | write _ _ _ => cases hbg
              | commit _ => cases hbg
              | abort _ => cases hbg
          · rw [E.upd.other hs] at hx
            exact hJ.lvl s tx hx
        refine ⟨by rw [s1]; exact hok', by rw [s1]; exact hlvl, ?_⟩
        intro id' f' hf' s' k' p hp
        rw [s2] at hf'
        rw [s1]
        by_cases hid : id' = id
        · rw [if_pos hid] at hf'
          injection hf' with hf'
          subst hf'
          have K := E.pc (Frame.next TPc.isDone f n (stepT tm (.start op)).2) rfl rfl
          have hop := pcOK_rd K hp
          subst hop
          have htm' : (stepT tm (.start (.read s' k'))).1 = tm.readStart s' k' := (stepT_state tm).2.1 s' k'
          have hp' : (stepT tm (.start (.read s' k'))).2 = .rd s' k' p := hp
          cases hw : (tm.tx? s').bind fun tx => tx.wset.lookup k' with
          | some v =>
            have : (stepT tm (.start (.read s' k'))).2 = .done (.val (some v)) := by simp [stepT, hw]
            rw [this] at hp'; cases hp'
          | none =>
            have e : (stepT tm (.start (.read s' k'))).2 =
                (readAdvance (tm.readStart s' k') s' k' (.start (.get k'))).2 := by simp [stepT, hw]
            rw [e] at hp'
            rw [htm'] at hok' ⊢
            obtain ⟨tx1, hx1, _⟩ := E.upd.self
            rw [htm'] at hx1
            obtain ⟨cfg, st, hst, _, hs, _, _⟩ := hok'
            rcases read_first hst hs s' k' hx1 with e2 | ⟨p0, e2, hr0⟩
            · rw [e2] at hp'; cases hp'
            · rw [e2] at hp'
              injection hp' with _ _ hpp
              rw [← hpp]; exact hr0
        · rw [if_neg hid] at hf'
          obtain ⟨cfg, st, i, t, r, tx, hst, hpp, hx, hr⟩ := hJ.rd id' f' hf' s' k' p hp
          have hs' : s' ≠ op.slot := other_slot R hwf hsp FF hid hf' hp
          have hx' : (stepT tm (.start op)).1.tx? s' = some tx := by rw [E.upd.other hs']; exact hx
          rcases start_cases tm op with ⟨e1, e2⟩ | ⟨sc, txc, _, _, hc⟩
          · exact ⟨cfg, st, i, t, r, tx, by rw [e1]; exact hst, hpp, hx', RB.mono hr fun c hc => sv_congr e1 e2 hc⟩
          · obtain ⟨cfg0, st0, hst0, hw0, hs0, hi0, hc0⟩ := hJ.st
            rw [hst] at hst0
            injection hst0 with a1 a2
            subst a1; subst a2
            obtain ⟨st', b1, b2⟩ := applyWrites_rb cfg hw0 txc.wset st _ hs0 hi0 hc0 hr
            refine ⟨cfg, st', i, t, r, tx, by rw [hc.store, hst]; exact b1, hpp, hx', RB.mono b2 ?_⟩
            intro c hcc
            exact sv_commit hc lsmOk hJ.st lsm_laws.2 lsm_laws.1 (R.inv.snap_le s' tx hx) hcc
      | some b =>
        obtain ⟨e1, evs, E⟩ := eff2_stepT lsm_laws.1 lsm_laws.2 R hwf hlk hf hb hd
          (fun s k p hp r h => lj_fetch2 hJ id f hf s k p hp r h)
        refine ⟨by rw [s1, e1]; exact hJ.st, by rw [s1, e1]; exact hJ.lvl, ?_⟩
        intro id' f' hf' s' k' p hp
        rw [s2] at hf'
        rw [s1, e1]
        by_cases hid : id' = id
        · rw [if_pos hid] at hf'
          injection hf' with hf'
          subst hf'
          have K := E.pc (Frame.next TPc.isDone f n (stepT tm f.pc).2) rfl rfl
          have hop := pcOK_rd K hp
          subst hop
          obtain ⟨j, tx, hpc0, _⟩ := R.inflight hwf hlk hf hb hd
          have hp' : (stepT tm f.pc).2 = .rd s' k' p := hp
          rw [hpc0] at hp'
          have hp'' : (readAdvance tm s' k' j).2 = .rd s' k' p := hp'
          rcases read_later hJ.lvl hJ.st (hJ.rd id f hf s' k' j hpc0) with e2 | ⟨p0, e2, hr0⟩
          · rw [e2] at hp''; cases hp''
          · rw [e2] at hp''
            injection hp'' with _ _ hpp
            rw [← hpp]; exact hr0
        · rw [if_neg hid] at hf'
          exact hJ.rd id' f' hf' s' k' p hp

end HappyModel.C14.SM.LM
