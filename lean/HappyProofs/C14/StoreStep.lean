import HappyProofs.C14.StoreRun
/-! One segment of `stepS` under `stepFrames` preserves the run invariant `RInv`. -/
namespace HappyModel.C14.SM.SR
open HappyModel.C14 HappyModel.C14.SM HappyModel.C14.BT

theorem firstOn_cons (k : Key) (ev : Ev) (log : List Ev) :
    firstOn k (ev :: log) = if ev.key = k then some ev.cell else firstOn k log := rfl

/-- the acting segment: new store, new log, and the `Acted` fact at the current segment -/
theorem act_spec {s : Store} {log : List Ev} {n id : Nat} (op : SOp) (hs : SOk s)
    (habs : ∀ k, s.contents.lookup k = (firstOn k log).join) (hlt : ∀ ev ∈ log, ev.n < n)
    (hno : ∀ ev ∈ log, ev.id ≠ id) :
    SOk (act s op).1 ∧
    (∀ k, (act s op).1.contents.lookup k =
      (firstOn k (match evOf n id op with | some ev => ev :: log | none => log)).join) ∧
    Acted (match evOf n id op with | some ev => ev :: log | none => log) id n op (act s op).2.1 := by
  have hval : ∀ k, valAt log k n = s.contents.lookup k := fun k => by rw [valAt_now hlt, habs]
  cases op with
  | put k v =>
    obtain ⟨h1, h2⟩ := sok_put hs k v
    refine ⟨h1, ?_, rfl, _, List.mem_cons_self .., rfl, rfl, rfl, rfl⟩
    intro k'
    simp only [act, evOf]
    rw [h2, map_lookup_upsert _ (sok_sorted hs), firstOn_cons]
    by_cases hk : k' = k
    · subst hk; simp
    · have : ¬ k = k' := fun e => hk e.symm
      simp only [hk, this, if_false]
      exact habs k'
  | del k =>
    obtain ⟨h1, h2, h3⟩ := sok_del hs k
    refine ⟨h1, ?_, ?_, _, List.mem_cons_self .., rfl, rfl, rfl, rfl⟩
    · intro k'
      simp only [act, evOf]
      rw [h2, map_lookup_erase _ (sok_sorted hs), firstOn_cons]
      by_cases hk : k' = k
      · subst hk; simp
      · have : ¬ k = k' := fun e => hk e.symm
        simp only [hk, this, if_false]
        exact habs k'
    · simp only [act, evOf]
      rw [valAt_cons (Nat.le_refl _), hval, h3]
  | get k =>
    refine ⟨hs, habs, ?_, hno⟩
    simp only [act, evOf]
    rw [hval, sok_get hs]
  | scan lo hi =>
    refine ⟨hs, habs, ⟨s.scan lo hi, rfl, ?_, ?_, ?_⟩, hno⟩
    · rw [sok_scan hs]
      exact sortedStrict_of_sorted _ (sorted_inRange lo hi _ (sok_sorted hs))
    · intro e he
      rw [sok_scan hs] at he
      have := (List.mem_filter.mp he).2
      simpa using this
    · intro k h1 h2
      simp only [evOf]
      rw [sok_scan hs, lookup_inRange, hval]
      simp [h1, h2]
  | size =>
    refine ⟨hs, habs, ⟨s.contents, sok_sorted hs, ?_, fun k => (hval k).symm⟩, hno⟩
    simp only [act]
    rw [sok_size hs]

theorem doAct_pc (s : Store) (op : SOp) :
    (doAct s op).1 = (act s op).1 ∧ ((doAct s op).2 = .fin (act s op).2.1 ∨ (doAct s op).2 = .done (act s op).2.1) := by
  refine ⟨rfl, ?_⟩
  unfold doAct
  by_cases h : (act s op).2.2 = true
  · left; simp [h]
  · right; simp [h]

/-- replace the stepped frame, possibly extend the log by an event of that frame -/
theorem rinv_upd {ops : List (Nat × SOp)} {s s' : Store} {pre post : List (Frame SPc)} {f f' : Frame SPc} {n : Nat}
    {log log' : List Ev} (h : RInv ops s (pre ++ f :: post) n log) (hid : f'.id = f.id)
    (hlog : log' = log ∨ ∃ ev, log' = ev :: log ∧ ev.n = n ∧ ev.id = f.id ∧ (∀ e ∈ log, e.id ≠ f.id) ∧
      ops.lookup f.id = some (cellOp ev.key ev.cell))
    (hs : SOk s') (habs : ∀ k, s'.contents.lookup k = (firstOn k log').join)
    (hf' : ∃ op, ops.lookup f'.id = some op ∧ PcOk log' (n + 1) f' op) :
    RInv ops s' (pre ++ f' :: post) (n + 1) log' := by
  have hids : ((pre ++ f' :: post).map (·.id)) = ((pre ++ f :: post).map (·.id)) := by
    simp only [List.map_append, List.map_cons, hid]
  have hother : ∀ g, g ∈ pre ∨ g ∈ post → g.id ≠ f.id := by
    intro g hg e
    have hn := h.ids
    simp only [List.map_append, List.map_cons] at hn
    rw [List.nodup_append] at hn
    obtain ⟨_, h2, h3⟩ := hn
    rcases hg with hg | hg
    · exact h3 _ (List.mem_map_of_mem hg) _ (List.mem_cons_self ..) e
    · exact (List.nodup_cons.mp h2).1 (e ▸ List.mem_map_of_mem hg)
  have hmem : ∀ g ∈ pre ++ f' :: post, g = f' ∨ ((g ∈ pre ∨ g ∈ post) ∧ g ∈ pre ++ f :: post) := by
    intro g hg
    rcases List.mem_append.mp hg with hg | hg
    · exact Or.inr ⟨Or.inl hg, List.mem_append_left _ hg⟩
    · rcases List.mem_cons.mp hg with rfl | hg
      · exact Or.inl rfl
      · exact Or.inr ⟨Or.inr hg, List.mem_append_right _ (List.mem_cons_of_mem _ hg)⟩
  have hevf : ∀ ev ∈ log, ∃ g ∈ pre ++ f' :: post, g.id = ev.id := by
    intro ev hev
    obtain ⟨g, hg, hge⟩ := h.evFrame ev hev
    rcases List.mem_append.mp hg with hg | hg
    · exact ⟨g, List.mem_append_left _ hg, hge⟩
    · rcases List.mem_cons.mp hg with rfl | hg
      · exact ⟨f', List.mem_append_right _ (List.mem_cons_self ..), by rw [hid, hge]⟩
      · exact ⟨g, List.mem_append_right _ (List.mem_cons_of_mem _ hg), hge⟩
  rcases hlog with rfl | ⟨ev, rfl, hn, hevid, hno, hop⟩
  · refine ⟨hs, habs, h.sortedN, fun ev hev => Nat.lt_succ_of_lt (h.evLt ev hev), h.evIds, h.evOp, hevf,
      by rw [hids]; exact h.ids, ?_⟩
    intro g hg
    rcases hmem g hg with rfl | ⟨hg1, hg2⟩
    · exact hf'
    · obtain ⟨op, h1, h2⟩ := h.frames g hg2
      exact ⟨op, h1, pcOk_succ h2⟩
  · refine ⟨hs, habs, ?_, ?_, ?_, ?_, ?_, by rw [hids]; exact h.ids, ?_⟩
    · simp only [List.map_cons, List.pairwise_cons]
      refine ⟨?_, h.sortedN⟩
      intro m hm
      obtain ⟨e, he, rfl⟩ := List.mem_map.mp hm
      have := h.evLt e he
      omega
    · intro e he
      rcases List.mem_cons.mp he with rfl | he
      · omega
      · exact Nat.lt_succ_of_lt (h.evLt e he)
    · simp only [List.map_cons, List.nodup_cons]
      refine ⟨?_, h.evIds⟩
      intro hm
      obtain ⟨e, he, hee⟩ := List.mem_map.mp hm
      exact hno e he (by rw [hee, hevid])
    · intro e he
      rcases List.mem_cons.mp he with rfl | he
      · rw [hevid]; exact hop
      · exact h.evOp e he
    · intro e he
      rcases List.mem_cons.mp he with rfl | he
      · exact ⟨f', List.mem_append_right _ (List.mem_cons_self ..), by rw [hid, hevid]⟩
      · exact hevf e he
    · intro g hg
      rcases hmem g hg with rfl | ⟨hg1, hg2⟩
      · exact hf'
      · obtain ⟨op, h1, h2⟩ := h.frames g hg2
        exact ⟨op, h1, pcOk_cons hn (by rw [hevid]; exact (hother g hg1).symm) h2⟩

theorem evOf_shape {n id : Nat} {op : SOp} {ev : Ev} (h : evOf n id op = some ev) :
    ev.n = n ∧ ev.id = id ∧ op = cellOp ev.key ev.cell := by
  cases op with
  | put k v => simp only [evOf] at h; injection h with h; subst h; exact ⟨rfl, rfl, rfl⟩
  | del k => simp only [evOf] at h; injection h with h; subst h; exact ⟨rfl, rfl, rfl⟩
  | get k => cases h
  | scan lo hi => cases h
  | size => cases h

/-- the stepped frame acts in this segment -/
theorem rinv_act {ops : List (Nat × SOp)} {s : Store} {pre post : List (Frame SPc)} {f : Frame SPc} {n : Nat}
    {log : List Ev} (h : RInv ops s (pre ++ f :: post) n log) (op : SOp) (hop : ops.lookup f.id = some op)
    (hb : f.b = none ∨ ∃ b, f.b = some b ∧ b < n) (hno : ∀ ev ∈ log, ev.id ≠ f.id) :
    RInv ops (doAct s op).1
      (pre ++ { f with pc := (doAct s op).2, b := f.b.orElse (fun _ => some n),
                       e := if SPc.isDone (doAct s op).2 then some n else none } :: post) (n + 1)
      (match evOf n f.id op with | some ev => ev :: log | none => log) := by
  obtain ⟨a1, a2, a3⟩ := act_spec (n := n) (id := f.id) op h.sok h.abs h.evLt hno
  obtain ⟨d1, d2⟩ := doAct_pc s op
  have hb' : ∃ b, f.b.orElse (fun _ => some n) = some b ∧ b ≤ n := by
    rcases hb with hb | ⟨b, hb, hbn⟩
    · exact ⟨n, by rw [hb]; rfl, Nat.le_refl _⟩
    · exact ⟨b, by rw [hb]; rfl, Nat.le_of_lt hbn⟩
  obtain ⟨b, hb1, hb2⟩ := hb'
  refine rinv_upd h rfl ?_ (d1 ▸ a1) (by rw [d1]; exact a2) ⟨op, hop, ?_⟩
  · cases hev : evOf n f.id op with
    | none => exact Or.inl rfl
    | some ev =>
      obtain ⟨e1, e2, e3⟩ := evOf_shape hev
      exact Or.inr ⟨ev, rfl, e1, e2, hno, by rw [hop, e3]⟩
  · unfold PcOk
    rcases d2 with d2 | d2
    · simp only [d2, SPc.isDone]
      exact ⟨b, n, hb1, hb2, Nat.lt_succ_self n, rfl, a3⟩
    · simp only [d2, SPc.isDone]
      exact ⟨b, n, n, hb1, rfl, hb2, Nat.le_refl n, Nat.lt_succ_self n, a3⟩

theorem rinv_step {ops : List (Nat × SOp)} {s : Store} {fs : List (Frame SPc)} {n : Nat} {log : List Ev}
    (h : RInv ops s fs n log) (id : Nat) :
    RInv ops (stepFrames stepS SPc.isDone s n id fs).1 (stepFrames stepS SPc.isDone s n id fs).2 (n + 1)
      (ghostStep s n id fs log) := by
  rcases stepFrames_cases stepS SPc.isDone s n id fs with ⟨hfind, heq⟩ | ⟨pre, f, post, hfs, hfind, hfid, hnd, heq⟩
  · have hlog : ghostStep s n id fs log = log := by
      unfold ghostStep
      rcases hfind with hf | ⟨f, hf, hd⟩
      · rw [hf]
      · rw [hf]
        cases hpc : f.pc with
        | done r =>
          show (match (actsNow s f.pc).bind (evOf n id) with | some ev => ev :: log | none => log) = log
          rw [hpc]; rfl
        | _ => rw [hpc] at hd; cases hd
    rw [heq, hlog]
    exact ⟨h.sok, h.abs, h.sortedN, fun ev hev => Nat.lt_succ_of_lt (h.evLt ev hev), h.evIds, h.evOp, h.evFrame, h.ids,
      fun g hg => by obtain ⟨op, h1, h2⟩ := h.frames g hg; exact ⟨op, h1, pcOk_succ h2⟩⟩
  · rw [heq]
    subst hfs
    obtain ⟨op, hop, hpc⟩ := h.frames f (List.mem_append_right _ (List.mem_cons_self ..))
    have hg : ghostStep s n id (pre ++ f :: post) log =
        match (actsNow s f.pc).bind (evOf n id) with | some ev => ev :: log | none => log := by
      unfold ghostStep; rw [hfind]; rfl
    rw [hg]
    clear hg
    subst hfid
    unfold PcOk at hpc
    cases hp : f.pc with
    | start op' =>
      rw [hp] at hpc
      obtain ⟨rfl, hb, he, hno⟩ := hpc
      have hl := sok_nolsm h.sok op'
      cases hy : yieldsBefore s op' with
      | zero =>
        have e1 : stepS s (.start op') = doAct s op' := by simp only [stepS, hl, hy]
        have e2 : (actsNow s (.start op')).bind (evOf n f.id) = evOf n f.id op' := by
          simp only [actsNow, hl, hy, if_true]; rfl
        rw [e1, e2]
        exact rinv_act h op' hop (Or.inl hb) hno
      | succ j =>
        have e1 : stepS s (.start op') = (s, .wait op' j) := by simp only [stepS, hl, hy]
        have e2 : (actsNow s (.start op')).bind (evOf n f.id) = none := by
          simp only [actsNow, hl, hy]; rfl
        rw [e1, e2]
        refine rinv_upd h rfl (Or.inl rfl) h.sok h.abs ⟨op', hop, ?_⟩
        unfold PcOk
        exact ⟨rfl, ⟨n, by rw [hb]; rfl, Nat.lt_succ_self n⟩, rfl, hno⟩
    | wait op' j =>
      rw [hp] at hpc
      obtain ⟨rfl, ⟨b, hb, hbn⟩, he, hno⟩ := hpc
      cases j with
      | zero =>
        have e1 : stepS s (.wait op' 0) = doAct s op' := rfl
        have e2 : (actsNow s (.wait op' 0)).bind (evOf n f.id) = evOf n f.id op' := rfl
        rw [e1, e2]
        exact rinv_act h op' hop (Or.inr ⟨b, hb, hbn⟩) hno
      | succ j =>
        have e1 : stepS s (.wait op' (j + 1)) = (s, .wait op' j) := rfl
        have e2 : (actsNow s (.wait op' (j + 1))).bind (evOf n f.id) = none := rfl
        rw [e1, e2]
        refine rinv_upd h rfl (Or.inl rfl) h.sok h.abs ⟨op', hop, ?_⟩
        unfold PcOk
        exact ⟨rfl, ⟨b, by rw [hb]; rfl, by omega⟩, rfl, hno⟩
    | fin r =>
      rw [hp] at hpc
      obtain ⟨b, a, hb, hba, han, he, hact⟩ := hpc
      have e1 : stepS s (.fin r) = (s, .done r) := rfl
      have e2 : (actsNow s (.fin r)).bind (evOf n f.id) = none := rfl
      rw [e1, e2]
      refine rinv_upd h rfl (Or.inl rfl) h.sok h.abs ⟨op, hop, ?_⟩
      unfold PcOk
      exact ⟨b, a, n, by rw [hb]; rfl, rfl, hba, Nat.le_of_lt han, Nat.lt_succ_self n, hact⟩
    | done r => rw [hp] at hnd; cases hnd
    | lsmGet p => rw [hp] at hpc; exact hpc.elim

end HappyModel.C14.SM.SR
