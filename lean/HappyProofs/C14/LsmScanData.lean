import HappyModel.C14.Spec
import HappyProofs.C14.LsmReadOwn
/-! Payload lemmas for scans: range filter, accumulated merge, result rows. -/
namespace HappyModel.C14

theorem lookup_inRange (lo hi : Key) (d : Data) (k : Key) :
    (inRange lo hi d).lookup k = if lo ≤ k ∧ k < hi then d.lookup k else none := by
  induction d with
  | nil => simp [inRange, List.lookup]
  | cons e r ih =>
    obtain ⟨k0, c0⟩ := e
    unfold inRange at ih ⊢
    by_cases hk : k = k0
    · subst hk
      by_cases hr : lo ≤ k ∧ k < hi
      · simp [List.filter_cons, hr.1, hr.2, List.lookup]
      · have : (decide (lo ≤ k) && decide (k < hi)) = false := by
          simp only [Bool.and_eq_false_iff, decide_eq_false_iff_not]
          by_cases h1 : lo ≤ k
          · right; exact fun h2 => hr ⟨h1, h2⟩
          · left; exact h1
        simp only [List.filter_cons, this, Bool.false_eq_true, if_false, hr]
        rw [ih]; simp [hr]
    · have hb : (k == k0) = false := by simp [hk]
      by_cases hp : (decide (lo ≤ k0) && decide (k0 < hi)) = true
      · simp only [List.filter_cons, hp, if_true, List.lookup, hb]
        exact ih
      · simp only [List.filter_cons, hp, if_false, List.lookup, hb, Bool.false_eq_true]
        exact ih

theorem keys_inRange {lo hi : Key} {d : Data} {x : Key} (h : x ∈ (inRange lo hi d).map (·.1)) : lo ≤ x ∧ x < hi := by
  obtain ⟨e, he, rfl⟩ := List.mem_map.mp h
  have := (List.mem_filter.mp he).2
  simpa using this

theorem keys_mergeOlder {base older : Data} {x : Key} (h : x ∈ (mergeOlder base older).map (·.1)) :
    x ∈ base.map (·.1) ∨ x ∈ older.map (·.1) := by
  rw [← lookup_ne_none_iff] at h
  rw [lookup_mergeOlder] at h
  cases hb : base.lookup x with
  | some c => exact Or.inl (lookup_ne_none_iff.mp (by rw [hb]; simp))
  | none =>
    rw [hb] at h
    exact Or.inr (lookup_ne_none_iff.mp h)

theorem lookup_mergeOlder_or (k : Key) (base older : Data) :
    (mergeOlder base older).lookup k = (base.lookup k).or (older.lookup k) := by
  rw [lookup_mergeOlder]; cases base.lookup k <;> rfl

/-- accumulated payload of a scan -/
structure SAcc (lo hi : Key) (acc : Data) : Prop where
  sorted : Sorted acc
  range : ∀ x ∈ acc.map (·.1), lo ≤ x ∧ x < hi

theorem sacc_inRange {lo hi : Key} {d : Data} (h : Sorted d) : SAcc lo hi (inRange lo hi d) :=
  ⟨sorted_filter _ d h, fun _ hx => keys_inRange hx⟩

theorem sacc_merge {lo hi : Key} {acc : Data} (h : SAcc lo hi acc) (d : Data) : SAcc lo hi (mergeOlder acc (inRange lo hi d)) :=
  ⟨sorted_mergeOlder _ _ h.sorted, fun x hx => by
    rcases keys_mergeOlder hx with h1 | h1
    · exact h.range x h1
    · exact keys_inRange h1⟩

theorem sacc_fold (lo hi : Key) (L : List Tab) (acc : Data) (h : SAcc lo hi acc) :
    SAcc lo hi (L.foldl (fun a i => mergeOlder a (inRange lo hi i.data)) acc) := by
  induction L generalizing acc with
  | nil => exact h
  | cons t r ih => exact ih _ (sacc_merge h t.data)

theorem lookup_fold (lo hi : Key) (L : List Tab) (acc : Data) (k : Key) (hk : lo ≤ k ∧ k < hi) :
    (L.foldl (fun a i => mergeOlder a (inRange lo hi i.data)) acc).lookup k = (acc.lookup k).or (lookTabs k L) := by
  induction L generalizing acc with
  | nil => simp [lookTabs_nil]
  | cons t r ih =>
    simp only [List.foldl_cons]
    rw [ih, lookup_mergeOlder_or, lookup_inRange, if_pos hk, lookTabs_cons, Option.or_assoc]

/-! ### result rows -/

theorem mem_of_lookup_nat {k : Key} {v : Nat} : ∀ {d : List (Key × Nat)}, d.lookup k = some v → (k, v) ∈ d
  | [], h => by simp [List.lookup] at h
  | (k0, v0) :: r, h => by
    simp only [List.lookup] at h
    by_cases hk : k = k0
    · subst hk; simp at h; subst h; exact List.mem_cons_self ..
    · have : (k == k0) = false := by simp [hk]
      rw [this] at h
      exact List.mem_cons_of_mem _ (mem_of_lookup_nat h)


def rowsOf (acc : Data) : List (Key × Nat) := acc.filterMap fun e => e.2.map fun v => (e.1, v)

theorem scanResult_eq (acc : Data) : scanResult acc = .rows (rowsOf acc) := rfl

theorem rowsOf_keys {acc : Data} {r : Key × Nat} (h : r ∈ rowsOf acc) : r.1 ∈ acc.map (·.1) := by
  obtain ⟨e, he, hr⟩ := List.mem_filterMap.mp h
  cases hc : e.2 with
  | none => rw [hc] at hr; cases hr
  | some v =>
    rw [hc] at hr
    simp only [Option.map_some, Option.some.injEq] at hr
    rw [← hr]
    exact List.mem_map_of_mem he

theorem rowsOf_lookup {acc : Data} (h : Uniq acc) (k : Key) : (rowsOf acc).lookup k = (acc.lookup k).join := by
  induction acc with
  | nil => rfl
  | cons e r ih =>
    obtain ⟨k0, c0⟩ := e
    have hu' : Uniq r := (List.nodup_cons.mp h).2
    have hne : k0 ∉ r.map (·.1) := (List.nodup_cons.mp h).1
    by_cases hk : k = k0
    · subst hk
      cases c0 with
      | none =>
        have : (rowsOf r).lookup k = none := by
          cases hl : (rowsOf r).lookup k with
          | none => rfl
          | some v =>
            have := mem_of_lookup_nat hl
            exact absurd (rowsOf_keys this) hne
        simp [rowsOf, List.filterMap_cons, List.lookup] at this ⊢
        exact this
      | some v => simp [rowsOf, List.filterMap_cons, List.lookup]
    · have hb : (k == k0) = false := by simp [hk]
      cases c0 with
      | none =>
        simp only [rowsOf, List.filterMap_cons, Option.map_none, List.lookup, hb]
        exact ih hu'
      | some v =>
        simp only [rowsOf, List.filterMap_cons, Option.map_some, List.lookup, hb]
        exact ih hu'

theorem sortedStrict_of_pairwise : ∀ (d : List (Key × Nat)), (d.map (·.1)).Pairwise (· < ·) → sortedStrict d = true
  | [], _ => rfl
  | [_], _ => rfl
  | a :: b :: r, h => by
    simp only [List.map_cons, List.pairwise_cons] at h
    simp only [sortedStrict, Bool.and_eq_true, decide_eq_true_eq]
    refine ⟨h.1 b.1 (by simp), sortedStrict_of_pairwise (b :: r) ?_⟩
    simp only [List.map_cons, List.pairwise_cons]
    exact h.2

theorem rowsOf_sorted {acc : Data} (h : Sorted acc) : sortedStrict (rowsOf acc) = true := by
  apply sortedStrict_of_pairwise
  have : List.Sublist ((rowsOf acc).map (·.1)) (acc.map (·.1)) := by
    unfold rowsOf
    induction acc with
    | nil => exact List.Sublist.refl _
    | cons e r ih =>
      have hr : Sorted r := (List.pairwise_cons.mp h).2
      cases hc : e.2 with
      | none =>
        simp only [List.filterMap_cons, hc, Option.map_none, List.map_cons]
        exact List.Sublist.cons _ (ih hr)
      | some v =>
        simp only [List.filterMap_cons, hc, Option.map_some, List.map_cons]
        exact List.Sublist.cons₂ _ (ih hr)
  exact List.Pairwise.sublist this h

end HappyModel.C14
