import HappyProofs.C14.LsmLog
/-! The ghost log along a run; what a segment does to the shape of its frame. -/
namespace HappyModel.C14

def evOf (cfg : Cfg) (st : St) (n : Nat) (f : Frame) : Option Ev :=
  match insOf cfg st f.pc with
  | some (k, c, q) => some ⟨n, f.id, k, c, q⟩
  | none => none

def logStepF (cfg : Cfg) (st : St) (n id : Nat) : List Frame → List Ev → List Ev
  | [], log => log
  | f :: fs, log =>
    if f.id == id then (if f.pc.isDone then log else (evOf cfg st n f).toList ++ log)
    else logStepF cfg st n id fs log

def logStep (cfg : Cfg) (y : Sys) (log : List Ev) (id : Nat) : List Ev := logStepF cfg y.st y.n id y.frames log

def logRun (cfg : Cfg) (y : Sys) (log : List Ev) : List Nat → List Ev
  | [] => log
  | id :: ids => logRun cfg (y.step cfg id) (logStep cfg y log id) ids

theorem gstepFrames_spec (cfg : Cfg) (st : St) (n id : Nat) (fs : List Frame) :
    (stepFrames cfg st n id fs = (st, fs) ∧ ∀ log, logStepF cfg st n id fs log = log) ∨
    ∃ pre f post, fs = pre ++ f :: post ∧ f.id = id ∧ f.pc.isDone = false ∧ (∀ g ∈ pre, g.id ≠ id) ∧
      stepFrames cfg st n id fs = ((stepOp cfg st f.pc).1, pre ++ advFrame cfg st n f :: post) ∧
      ∀ log, logStepF cfg st n id fs log = (evOf cfg st n f).toList ++ log := by
  induction fs with
  | nil => left; exact ⟨rfl, fun _ => rfl⟩
  | cons f fs ih =>
    unfold stepFrames logStepF
    by_cases hid : (f.id == id) = true
    · simp only [hid, if_true]
      by_cases hd : f.pc.isDone = true
      · left; simp [hd]
      · right
        refine ⟨[], f, fs, rfl, ?_, ?_, ?_, ?_, ?_⟩
        · simpa using hid
        · simpa using hd
        · intro g hg; cases hg
        · simp only [hd, Bool.false_eq_true, if_false, List.nil_append]
          rfl
        · intro log; simp [hd]
    · simp only [hid, Bool.false_eq_true, if_false]
      rcases ih with ⟨h, hl⟩ | ⟨pre, g, post, h1, h2, h3, h4, h5, h6⟩
      · left; rw [h]; exact ⟨rfl, hl⟩
      · right
        refine ⟨f :: pre, g, post, by rw [h1]; rfl, h2, h3, ?_, ?_, h6⟩
        · intro x hx
          rcases List.mem_cons.mp hx with rfl | hx
          · simpa using hid
          · exact h4 x hx
        · rw [h5]; rfl

theorem gstep_cases (cfg : Cfg) (y : Sys) (id : Nat) :
    (y.step cfg id = { y with n := y.n + 1 } ∧ ∀ log, logStep cfg y log id = log) ∨
    ∃ pre f post, y.frames = pre ++ f :: post ∧ f.id = id ∧ f.pc.isDone = false ∧ (∀ g ∈ pre, g.id ≠ id) ∧
      y.step cfg id = { st := (stepOp cfg y.st f.pc).1, frames := pre ++ advFrame cfg y.st y.n f :: post, n := y.n + 1 } ∧
      ∀ log, logStep cfg y log id = (evOf cfg y.st y.n f).toList ++ log := by
  rcases gstepFrames_spec cfg y.st y.n id y.frames with ⟨h, hl⟩ | ⟨pre, f, post, h1, h2, h3, h4, h5, h6⟩
  · left; refine ⟨?_, hl⟩; unfold Sys.step; simp only [h]
  · right; refine ⟨pre, f, post, h1, h2, h3, h4, ?_, h6⟩
    unfold Sys.step; simp only [h5]

/-! ### the timing hypothesis -/

/-- every flush install of the schedule belongs to the oldest frozen memtable -/
def InOrder (cfg : Cfg) (y : Sys) (sched : List Nat) : Prop :=
  ∀ n, ∀ f ∈ (y.run cfg (sched.take n)).frames, ∀ t b, f.pc = .pFlush t b → sched[n]? = some f.id →
    (y.run cfg (sched.take n)).st.imms.head? = some t

def HeadNow (y : Sys) (id : Nat) : Prop :=
  ∀ f ∈ y.frames, ∀ t b, f.pc = .pFlush t b → f.id = id → y.st.imms.head? = some t

theorem inOrder_cons {cfg : Cfg} {y : Sys} {id : Nat} {ids : List Nat} (h : InOrder cfg y (id :: ids)) :
    HeadNow y id ∧ InOrder cfg (y.step cfg id) ids := by
  constructor
  · intro f hf t b hpc hid
    exact h 0 f hf t b hpc (by simp [hid])
  · intro n f hf t b hpc hs
    exact h (n + 1) f hf t b hpc (by simpa using hs)

theorem grun_induct {cfg : Cfg} (P : Sys → List Ev → Prop)
    (hstep : ∀ y log id, P y log → HeadNow y id → P (y.step cfg id) (logStep cfg y log id)) :
    ∀ sched y log, P y log → InOrder cfg y sched → P (y.run cfg sched) (logRun cfg y log sched) := by
  intro sched
  induction sched with
  | nil => intro y log h _; exact h
  | cons id ids ih =>
    intro y log h ho
    obtain ⟨h1, h2⟩ := inOrder_cons ho
    exact ih _ _ (hstep y log id h h1) h2

/-! ### shapes -/

def Pc.applied : Pc → Bool
  | .pMem _ => true
  | .pFlush _ _ => true
  | .pCompact _ => true
  | .done .ok => true
  | _ => false

def Pc.logging : Pc → Option Nat
  | .pWal _ _ q => some q
  | .pSync _ _ q => some q
  | _ => none

/-- `pc` is a program counter of the operation that started as `o` -/
def PcCons (o pc : Pc) : Prop :=
  match o with
  | .pStart k c => pc = .pStart k c ∨ (∃ q, pc = .pWal k c q) ∨ (∃ q, pc = .pSync k c q) ∨ pc.applied = true
  | .gStart k => pc = .gStart k ∨ (∃ i t r, pc = .gAt k i t r) ∨ (∃ c, pc = .done (.val c))
  | .sStart lo hi => pc = .sStart lo hi ∨ (∃ i t r acc, pc = .sAt lo hi i t r acc) ∨ (∃ d, pc = .done (.rows d))
  | _ => False

theorem getLevels_shape (cfg : Cfg) (s : St) (k : Key) (i : Nat) :
    (∃ i' t r, (getLevels cfg s k i).2 = .gAt k i' t r) ∨ (∃ c, (getLevels cfg s k i).2 = .done (.val c)) := by
  unfold getLevels; split
  · left; exact ⟨_, _, _, rfl⟩
  · right; exact ⟨_, rfl⟩

theorem getStart_shape (cfg : Cfg) (s : St) (k : Key) :
    (∃ i' t r, (getStart cfg s k).2 = .gAt k i' t r) ∨ (∃ c, (getStart cfg s k).2 = .done (.val c)) := by
  unfold getStart; split
  · right; exact ⟨_, rfl⟩
  · split
    · right; exact ⟨_, rfl⟩
    · exact getLevels_shape ..

theorem getResume_shape (cfg : Cfg) (s : St) (k : Key) (i : Nat) (t : Tab) (r : List Tab) :
    (∃ i' t' r', (getResume cfg s k i t r).2 = .gAt k i' t' r') ∨ (∃ c, (getResume cfg s k i t r).2 = .done (.val c)) := by
  unfold getResume; split
  · right; exact ⟨_, rfl⟩
  · split
    · left; exact ⟨_, _, _, rfl⟩
    · exact getLevels_shape ..

theorem scanLevels_shape (s : St) (lo hi : Key) (i : Nat) (acc : Data) :
    (∃ i' t r acc', (scanLevels s lo hi i acc).2 = .sAt lo hi i' t r acc') ∨ (∃ d, (scanLevels s lo hi i acc).2 = .done (.rows d)) := by
  unfold scanLevels; split
  · left; exact ⟨_, _, _, _, rfl⟩
  · right; exact ⟨_, rfl⟩

theorem scanResume_shape (s : St) (lo hi : Key) (i : Nat) (t : Tab) (r : List Tab) (acc : Data) :
    (∃ i' t' r' acc', (scanResume s lo hi i t r acc).2 = .sAt lo hi i' t' r' acc') ∨
    (∃ d, (scanResume s lo hi i t r acc).2 = .done (.rows d)) := by
  unfold scanResume; simp only; split
  · left; exact ⟨_, _, _, _, rfl⟩
  · exact scanLevels_shape ..

theorem compactStart_applied (cfg : Cfg) (s : St) : (compactStart cfg s).2.applied = true := by
  unfold compactStart; split
  · rfl
  · split
    · rfl
    · split <;> rfl

theorem flushStart_applied (cfg : Cfg) (s : St) : (flushStart cfg s).2.applied = true := by
  unfold flushStart; split <;> rfl

/-- what one segment does to the shape of its frame -/
structure ShapeStep (cfg : Cfg) (s : St) (o pc pc' : Pc) : Prop where
  cons : PcCons o pc'
  notStart : pc'.isStart = false
  ins : ∀ k c q, insOf cfg s pc = some (k, c, q) → pc.applied = false ∧ pc'.applied = true ∧ o = .pStart k c ∧
    (cfg.wal ≠ none → pc.logging = some q)
  noIns : insOf cfg s pc = none → pc'.applied = pc.applied
  logging : ∀ q, pc'.logging = some q → (pc.isStart = true ∧ q = s.nextSeq) ∨ pc.logging = some q

theorem applied_facts {pc : Pc} (h : pc.applied = true) : pc.isStart = false ∧ pc.logging = none := by
  cases pc <;> simp [Pc.applied] at h <;> exact ⟨rfl, rfl⟩

theorem shape_ins {cfg : Cfg} {s : St} {k : Key} {c : Cell} {q : Nat} {pc pc' : Pc}
    (h1 : insOf cfg s pc = some (k, c, q)) (h2 : pc.applied = false) (h3 : pc'.applied = true)
    (h6 : cfg.wal ≠ none → pc.logging = some q) : ShapeStep cfg s (.pStart k c) pc pc' := by
  refine ⟨Or.inr (Or.inr (Or.inr h3)), (applied_facts h3).1, ?_, ?_, ?_⟩
  · intro k' c' q' h
    rw [h1] at h
    simp only [Option.some.injEq, Prod.mk.injEq] at h
    obtain ⟨rfl, rfl, rfl⟩ := h
    exact ⟨h2, h3, rfl, h6⟩
  · intro h; rw [h1] at h; cases h
  · intro q' h; rw [(applied_facts h3).2] at h; cases h

theorem shape_noins {cfg : Cfg} {s : St} {o pc pc' : Pc} (h0 : PcCons o pc') (h1 : insOf cfg s pc = none)
    (h2 : pc'.applied = pc.applied) (h4 : pc'.isStart = false)
    (h5 : ∀ q, pc'.logging = some q → (pc.isStart = true ∧ q = s.nextSeq) ∨ pc.logging = some q) :
    ShapeStep cfg s o pc pc' :=
  ⟨h0, h4, fun _ _ _ h => (by rw [h1] at h; cases h), fun _ => h2, h5⟩

theorem stepOp_shape (cfg : Cfg) (s : St) (o pc : Pc) (hc : PcCons o pc) :
    ShapeStep cfg s o pc (stepOp cfg s pc).2 := by
  cases o with
  | pStart k c =>
    simp only [PcCons] at hc
    rcases hc with rfl | ⟨q, rfl⟩ | ⟨q, rfl⟩ | ha
    · rcases hw : cfg.wal with _ | p
      · have e : (stepOp cfg s (.pStart k c)).2 = .pMem s.memId := by simp [stepOp, putStart, hw, memInsert]
        rw [e]
        exact shape_ins (q := 0) (by simp [insOf, hw]) rfl rfl (fun h => absurd hw h)
      · have e : (stepOp cfg s (.pStart k c)).2 = .pWal k c s.nextSeq := by simp [stepOp, putStart, hw]
        rw [e]
        refine shape_noins (Or.inr (Or.inl ⟨_, rfl⟩)) (by simp [insOf, hw]) rfl rfl ?_
        intro q h
        simp only [Pc.logging, Option.some.injEq] at h
        exact Or.inl ⟨rfl, h.symm⟩
    · rcases hw : cfg.wal with _ | p
      · have e : (stepOp cfg s (.pWal k c q)).2 = .pMem s.memId := by simp [stepOp, walWritten, hw, memInsert]
        rw [e]
        exact shape_ins (q := q) (by simp [insOf, hw]) rfl rfl (fun h => absurd hw h)
      · by_cases hb : (shouldSync p s).1 = true
        · have e : (stepOp cfg s (.pWal k c q)).2 = .pSync k c q := by simp [stepOp, walWritten, hw, hb]
          rw [e]
          exact shape_noins (Or.inr (Or.inr (Or.inl ⟨_, rfl⟩))) (by simp [insOf, hw, hb]) rfl rfl (fun q' h => Or.inr h)
        · have e : (stepOp cfg s (.pWal k c q)).2.applied = true := by
            simp [stepOp, walWritten, hw, hb, memInsert, Pc.applied]
          exact shape_ins (q := q) (by simp [insOf, hw, hb]) rfl e (fun _ => rfl)
    · have e : (stepOp cfg s (.pSync k c q)).2.applied = true := by simp [stepOp, walSynced, memInsert, Pc.applied]
      exact shape_ins (q := q) (by simp [insOf]) rfl e (fun _ => rfl)
    · -- applied frames stay applied and insert nothing
      have fin : ∀ pc : Pc, pc.applied = true → insOf cfg s pc = none → (stepOp cfg s pc).2.applied = true →
          ShapeStep cfg s (.pStart k c) pc (stepOp cfg s pc).2 := by
        intro pc h0 h1 h2
        refine shape_noins (Or.inr (Or.inr (Or.inr h2))) h1 (by rw [h0, h2]) (applied_facts h2).1 ?_
        intro q h; rw [(applied_facts h2).2] at h; cases h
      cases pc with
      | pMem mid =>
        refine fin _ rfl rfl ?_
        simp only [stepOp, afterMem]; split
        · exact flushStart_applied ..
        · rfl
      | pFlush t b =>
        refine fin _ rfl rfl ?_
        simp only [stepOp, flushInstall]; split
        · exact compactStart_applied ..
        · rfl
      | pCompact j => exact fin _ rfl rfl rfl
      | done r =>
        cases r with
        | ok => exact fin _ rfl rfl rfl
        | val c => simp [Pc.applied] at ha
        | rows d => simp [Pc.applied] at ha
      | _ => simp [Pc.applied] at ha
  | gStart k =>
    simp only [PcCons] at hc
    have fin : ∀ pc pc' : Pc, insOf cfg s pc = none → pc.applied = false → pc.logging = none →
        ((∃ i t r, pc' = .gAt k i t r) ∨ (∃ c, pc' = .done (.val c))) → ShapeStep cfg s (.gStart k) pc pc' := by
      intro pc pc' h1 h2 h3 h
      rcases h with ⟨i, t, r, rfl⟩ | ⟨c, rfl⟩
      · exact shape_noins (Or.inr (Or.inl ⟨_, _, _, rfl⟩)) h1 h2.symm rfl (fun q h => by cases h)
      · exact shape_noins (Or.inr (Or.inr ⟨_, rfl⟩)) h1 h2.symm rfl (fun q h => by cases h)
    rcases hc with rfl | ⟨i, t, r, rfl⟩ | ⟨c, rfl⟩
    · exact fin _ _ rfl rfl rfl (getStart_shape cfg s k)
    · exact fin _ _ rfl rfl rfl (getResume_shape cfg s k i t r)
    · exact fin _ _ rfl rfl rfl (Or.inr ⟨c, rfl⟩)
  | sStart lo hi =>
    simp only [PcCons] at hc
    have fin : ∀ pc pc' : Pc, insOf cfg s pc = none → pc.applied = false → pc.logging = none →
        ((∃ i t r acc, pc' = .sAt lo hi i t r acc) ∨ (∃ d, pc' = .done (.rows d))) → ShapeStep cfg s (.sStart lo hi) pc pc' := by
      intro pc pc' h1 h2 h3 h
      rcases h with ⟨i, t, r, acc, rfl⟩ | ⟨c, rfl⟩
      · exact shape_noins (Or.inr (Or.inl ⟨_, _, _, _, rfl⟩)) h1 h2.symm rfl (fun q h => by cases h)
      · exact shape_noins (Or.inr (Or.inr ⟨_, rfl⟩)) h1 h2.symm rfl (fun q h => by cases h)
    rcases hc with rfl | ⟨i, t, r, acc, rfl⟩ | ⟨c, rfl⟩
    · exact fin _ _ rfl rfl rfl (by simp only [stepOp, scanStart]; exact scanLevels_shape ..)
    · exact fin _ _ rfl rfl rfl (scanResume_shape s lo hi i t r acc)
    · exact fin _ _ rfl rfl rfl (Or.inr ⟨c, rfl⟩)
  | _ => exact absurd hc (by simp [PcCons])

end HappyModel.C14
