import HappyProofs.C14.BTreeOps
/-!
# B-tree, part 4: the tree refines a sorted association list

For every order `≥ 3` and every sequence of puts and deletes starting from the empty tree, the
contents of the B-tree (`toList`) are exactly the sorted association list obtained by replaying the
same operations with `upsert` / `eraseKey`; `get`, `scan`, `size` and the "found" flag of `del` are
`lookup`, range filter, `length` and `lookup.isSome` of that list.
-/
namespace HappyModel.C14.BT
open HappyModel.C14

inductive BOp where
  | put (k : Key) (v : Nat)
  | del (k : Key)

def BTree.apply (t : BTree) : BOp → BTree
  | .put k v => t.put k v
  | .del k => (t.del k).1

def mapApply (m : KV) : BOp → KV
  | .put k v => upsert k v m
  | .del k => eraseKey k m

/-- the tree invariant: the root is a bounded search tree that the fuel `depth` traverses completely,
    and `size` counts the stored pairs -/
structure TreeInv (order : Nat) (t : BTree) : Prop where
  ord : t.order = order
  inv : ∃ hi, InvF t.depth 0 hi t.root
  size : t.size = (toListN t.depth t.root).length

theorem treeInv_empty (order : Nat) : TreeInv order { order := order } :=
  ⟨rfl, ⟨0, by simp [InvF, SortedKV, keysIn]⟩, rfl⟩

theorem get_eq (order : Nat) (t : BTree) (h : TreeInv order t) (k : Key) :
    t.get k = leafGet k t.toList := by
  obtain ⟨hi, hinv⟩ := h.inv
  exact getN_spec k t.depth 0 hi t.root hinv

theorem toList_sorted (order : Nat) (t : BTree) (h : TreeInv order t) : SortedKV t.toList := by
  obtain ⟨hi, hinv⟩ := h.inv
  exact invF_sorted t.depth 0 hi t.root hinv

/-! ### one put -/

theorem put_spec (order : Nat) (ho : 3 ≤ order) (t : BTree) (h : TreeInv order t) (k : Key) (v : Nat) :
    TreeInv order (t.put k v) ∧ (t.put k v).toList = upsert k v t.toList := by
  obtain ⟨hi, hinv⟩ := h.inv
  have hget := get_eq order t h k
  have hord := h.ord
  subst hord
  have hsz := h.size
  -- widen the upper bound so that it covers `k`
  have hinv' : InvF t.depth 0 (max hi (k + 1)) t.root :=
    invF_mono_hi t.depth 0 hi _ t.root hinv (Nat.le_max_left _ _)
  have hk : k < max hi (k + 1) := Nat.lt_of_lt_of_le (Nat.lt_succ_self k) (Nat.le_max_right _ _)
  have hlen := length_upsert k v (toListN t.depth t.root)
  by_cases hf : full t.order t.root = true
  · obtain ⟨s1, s2, s3, s4, s5⟩ := split_ok t.order ho t.depth 0 _ t.root hinv' hf
    have hroot : InvF (t.depth + 1) 0 (max hi (k + 1))
        (.inner (split t.root).1 [((split t.root).2.1, (split t.root).2.2)]) := ⟨s1, s3, s2, s4⟩
    have hspec := insNF_spec t.order ho k v (t.depth + 1) 0 _ _ hroot (Nat.zero_le _) hk
    have hflat : toListN (t.depth + 1) (.inner (split t.root).1 [((split t.root).2.1, (split t.root).2.2)])
        = toListN t.depth t.root := s5
    rw [hflat] at hspec
    have e1 : (t.put k v).root =
        insNF t.order (t.depth + 1) (.inner (split t.root).1 [((split t.root).2.1, (split t.root).2.2)]) k v := by
      simp only [BTree.put, hf, if_true]
    have e2 : (t.put k v).depth = t.depth + 1 := by simp only [BTree.put, hf, if_true]
    have e3 : (t.put k v).order = t.order := by simp only [BTree.put, hf, if_true]
    have e4 : (t.put k v).size = if (t.get k).isNone then t.size + 1 else t.size := by
      simp only [BTree.put]
    refine ⟨⟨e3, ⟨max hi (k + 1), ?_⟩, ?_⟩, ?_⟩
    · rw [e1, e2]; exact hspec.1
    · rw [e4, e1, e2, hspec.2, hlen, hget, hsz]; rfl
    · show toListN (t.put k v).depth (t.put k v).root = _
      rw [e1, e2]; exact hspec.2
  · have hspec := insNF_spec t.order ho k v t.depth 0 _ _ hinv' (Nat.zero_le _) hk
    have e1 : (t.put k v).root = insNF t.order t.depth t.root k v := by
      simp only [BTree.put, hf]; rfl
    have e2 : (t.put k v).depth = t.depth := by simp only [BTree.put, hf]; rfl
    have e3 : (t.put k v).order = t.order := by simp only [BTree.put, hf]; rfl
    have e4 : (t.put k v).size = if (t.get k).isNone then t.size + 1 else t.size := by
      simp only [BTree.put]
    refine ⟨⟨e3, ⟨max hi (k + 1), ?_⟩, ?_⟩, ?_⟩
    · rw [e1, e2]; exact hspec.1
    · rw [e4, e1, e2, hspec.2, hlen, hget, hsz]; rfl
    · show toListN (t.put k v).depth (t.put k v).root = _
      rw [e1, e2]; exact hspec.2

/-! ### one delete -/

theorem del_spec (order : Nat) (t : BTree) (h : TreeInv order t) (k : Key) :
    TreeInv order (t.del k).1 ∧ (t.del k).1.toList = eraseKey k t.toList ∧
      (t.del k).2 = (leafGet k t.toList).isSome := by
  obtain ⟨hi, hinv⟩ := h.inv
  have hget := get_eq order t h k
  have hspec := delN_spec k t.depth 0 hi t.root hinv
  have hlen := length_eraseKey k (toListN t.depth t.root)
  by_cases hg : (t.get k).isSome = true
  · have hg' : (leafGet k (toListN t.depth t.root)).isSome = true := by
      have := hget; simp only [BTree.toList] at this; rw [← this]; exact hg
    simp only [BTree.del, hg, if_true]
    refine ⟨⟨h.ord, ⟨hi, hspec.1⟩, ?_⟩, hspec.2, ?_⟩
    · show t.size - 1 = (toListN t.depth (delN t.depth t.root k)).length
      rw [hspec.2, hlen, h.size]
      simp only [hg', if_true]
    · rw [← hget, hg]
  · simp only [BTree.del, hg]
    have hnone : leafGet k t.toList = none := by
      rw [← hget]
      cases hx : t.get k with
      | none => rfl
      | some x => rw [hx] at hg; simp at hg
    refine ⟨h, (eraseKey_of_get_none k _ hnone).symm, ?_⟩
    rw [hnone]; rfl

/-! ### sequences of operations -/

theorem fold_spec (order : Nat) (ho : 3 ≤ order) :
    ∀ (ops : List BOp) (t : BTree) (m : KV), TreeInv order t → t.toList = m →
      TreeInv order (ops.foldl BTree.apply t) ∧ (ops.foldl BTree.apply t).toList = ops.foldl mapApply m
  | [], _, _, h, hm => ⟨h, hm⟩
  | .put k v :: ops, t, m, h, hm => by
    obtain ⟨h1, h2⟩ := put_spec order ho t h k v
    exact fold_spec order ho ops (t.put k v) (upsert k v m) h1 (hm ▸ h2)
  | .del k :: ops, t, m, h, hm => by
    obtain ⟨h1, h2, _⟩ := del_spec order t h k
    exact fold_spec order ho ops (t.del k).1 (eraseKey k m) h1 (hm ▸ h2)

/-- a concrete run: order 3, eight scrambled puts (one overwrites the separator key 50), one delete -/
def demoOps : List BOp :=
  [.put 50 1, .put 20 2, .put 80 3, .put 10 4, .put 60 5, .put 30 6, .put 50 7, .put 70 8, .put 40 9, .del 20]

def SortedKV' (m : KV) : Bool := (m.map (·.1)).zip ((m.map (·.1)).drop 1) |>.all fun p => p.1 < p.2

/-- for every order `≥ 3` and every sequence of puts and deletes starting from the empty tree, the
    in-order contents are strictly sorted by key -/
theorem btree_sorted (order : Nat) (h : 3 ≤ order) (ops : List BOp) :
    SortedKV (ops.foldl BTree.apply { order := order }).toList :=
  toList_sorted order _ (fold_spec order h ops _ _ (treeInv_empty order) rfl).1

example : (demoOps.foldl BTree.apply { order := 3 }).toList =
    [(10, 4), (30, 6), (40, 9), (50, 7), (60, 5), (70, 8), (80, 3)] := by decide
example : (demoOps.foldl BTree.apply { order := 3 }).depth = 4 := by decide
example : (demoOps.foldl BTree.apply { order := 3 }).dump =
    "[[[(10=4)|20|()|30|(30=6,40=9)]|50|[(50=7)|60|(60=5,70=8)]]|80|[[(80=3)]]]" := by decide
example : SortedKV' (demoOps.foldl BTree.apply { order := 3 }).toList = true := by decide

/-- the tree is a refinement of the sorted association list: same contents, `get` is `lookup`, `scan`
    is the range filter, `size` is the length and `del` reports whether the key was present -/
theorem btree_refines_map (order : Nat) (h : 3 ≤ order) (ops : List BOp) :
    let t := ops.foldl BTree.apply { order := order }
    let m := ops.foldl mapApply []
    t.toList = m ∧ (∀ k, t.get k = m.lookup k) ∧ (∀ lo hi, t.scan lo hi = inRange lo hi m) ∧
    t.size = m.length ∧ (∀ k, (t.del k).2 = (m.lookup k).isSome) := by
  intro t m
  obtain ⟨hinv, hm⟩ := fold_spec order h ops _ _ (treeInv_empty order) rfl
  have hm' : t.toList = m := hm
  have hs : SortedKV t.toList := toList_sorted order t hinv
  refine ⟨hm', ?_, ?_, ?_, ?_⟩
  · intro k
    rw [get_eq order t hinv k, leafGet_eq_lookup k _ hs, hm']
  · intro lo hi
    obtain ⟨b, hb⟩ := hinv.inv
    rw [← hm']
    exact scanN_spec lo hi t.depth 0 b t.root hb
  · rw [← hm']; exact hinv.size
  · intro k
    rw [(del_spec order t hinv k).2.2, leafGet_eq_lookup k _ hs, hm']

example : (demoOps.foldl mapApply []) = [(10, 4), (30, 6), (40, 9), (50, 7), (60, 5), (70, 8), (80, 3)] := by
  decide
example : (demoOps.foldl BTree.apply { order := 3 }).get 50 = some 7 ∧
    (demoOps.foldl BTree.apply { order := 3 }).get 20 = none ∧
    (demoOps.foldl BTree.apply { order := 3 }).get 80 = some 3 := by decide
example : (demoOps.foldl BTree.apply { order := 3 }).scan 30 70 = [(30, 6), (40, 9), (50, 7), (60, 5)] ∧
    inRange 30 70 (demoOps.foldl mapApply []) = [(30, 6), (40, 9), (50, 7), (60, 5)] := by decide
example : (demoOps.foldl BTree.apply { order := 3 }).size = 7 := by decide
example : ((demoOps.foldl BTree.apply { order := 3 }).del 60).2 = true ∧
    ((demoOps.foldl BTree.apply { order := 3 }).del 20).2 = false ∧
    ((demoOps.foldl BTree.apply { order := 3 }).del 60).1.toList =
      [(10, 4), (30, 6), (40, 9), (50, 7), (70, 8), (80, 3)] := by decide

/-! ### the sorted association list really is a map (`BTreeLeaf`) -/

example : List.lookup 50 (upsert 50 7 [(20, 2), (50, 1), (80, 3)]) = some 7 ∧
    List.lookup 80 (upsert 50 7 [(20, 2), (50, 1), (80, 3)]) = some 3 ∧
    SortedKV' (upsert 50 7 [(20, 2), (50, 1), (80, 3)]) = true := by decide
example : List.lookup 50 (eraseKey 50 [(20, 2), (50, 1), (80, 3)]) = none ∧
    List.lookup 80 (eraseKey 50 [(20, 2), (50, 1), (80, 3)]) = some 3 ∧
    SortedKV' (eraseKey 50 [(20, 2), (50, 1), (80, 3)]) = true := by decide

end HappyModel.C14.BT
