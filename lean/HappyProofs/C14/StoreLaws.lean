import HappyModel.C14.Store
import HappyModel.C14.Spec
import HappyProofs.C14.BTreeMain
/-!
# B-tree / KVStore as one abstract store: the contents are a sorted association list

`SOk s`: `s` is a B-tree of order ≥ 3 satisfying the search-tree invariant, or a KVStore whose dict is
(modelled as) a strictly sorted association list.  Every data operation of `Store` is then the
corresponding operation on `s.contents` (`upsert`, `eraseKey`, `lookup`, range filter, `length`).
-/
namespace HappyModel.C14.SM
open HappyModel.C14 HappyModel.C14.BT

def Store.contents : Store → KV
  | .bt t => t.toList
  | .kv d => d
  | .lsm _ _ => []

def SOk (s : Store) : Prop :=
  (∃ t order, s = .bt t ∧ 3 ≤ order ∧ TreeInv order t) ∨ (∃ d, s = .kv d ∧ SortedKV d)

theorem sok_bt (order : Nat) (h : 3 ≤ order) : SOk (.bt { order := order }) :=
  Or.inl ⟨_, order, rfl, h, treeInv_empty order⟩

theorem sok_kv_nil : SOk (.kv []) := Or.inr ⟨[], rfl, sorted_nil⟩

theorem sok_sorted {s : Store} (h : SOk s) : SortedKV s.contents := by
  rcases h with ⟨t, order, rfl, _, ht⟩ | ⟨d, rfl, hd⟩
  · exact toList_sorted order t ht
  · exact hd

theorem sok_get {s : Store} (h : SOk s) (k : Key) : s.getSync k = s.contents.lookup k := by
  rcases h with ⟨t, order, rfl, _, ht⟩ | ⟨d, rfl, hd⟩
  · show t.get k = t.toList.lookup k
    rw [get_eq order t ht k, leafGet_eq_lookup k _ (toList_sorted order t ht)]
  · rfl

theorem sok_put {s : Store} (h : SOk s) (k : Key) (v : Nat) :
    SOk (s.putSync k v) ∧ (s.putSync k v).contents = upsert k v s.contents := by
  rcases h with ⟨t, order, rfl, ho, ht⟩ | ⟨d, rfl, hd⟩
  · obtain ⟨h1, h2⟩ := put_spec order ho t ht k v
    exact ⟨Or.inl ⟨_, order, rfl, ho, h1⟩, h2⟩
  · exact ⟨Or.inr ⟨_, rfl, map_sorted_upsert k v d hd⟩, rfl⟩

theorem sok_del {s : Store} (h : SOk s) (k : Key) :
    SOk (s.del k).1 ∧ (s.del k).1.contents = eraseKey k s.contents ∧ (s.del k).2 = (s.contents.lookup k).isSome := by
  rcases h with ⟨t, order, rfl, ho, ht⟩ | ⟨d, rfl, hd⟩
  · obtain ⟨h1, h2, h3⟩ := del_spec order t ht k
    refine ⟨Or.inl ⟨_, order, rfl, ho, h1⟩, h2, ?_⟩
    show (t.del k).2 = (t.toList.lookup k).isSome
    rw [h3, leafGet_eq_lookup k _ (toList_sorted order t ht)]
  · exact ⟨Or.inr ⟨_, rfl, map_sorted_erase k d hd⟩, rfl, rfl⟩

theorem sok_scan {s : Store} (h : SOk s) (lo hi : Key) : s.scan lo hi = BT.inRange lo hi s.contents := by
  rcases h with ⟨t, order, rfl, _, ht⟩ | ⟨d, rfl, _⟩
  · obtain ⟨b, hb⟩ := ht.inv
    exact scanN_spec lo hi t.depth 0 b t.root hb
  · rfl

theorem sok_size {s : Store} (h : SOk s) : s.size = s.contents.length := by
  rcases h with ⟨t, order, rfl, _, ht⟩ | ⟨d, rfl, _⟩
  · exact ht.size
  · rfl

theorem sok_nolsm {s : Store} (h : SOk s) (op : SOp) : lsmStart s op = none := by
  rcases h with ⟨t, order, rfl, _, _⟩ | ⟨d, rfl, _⟩ <;> cases op <;> rfl

/-- the map laws the transaction theorems ask of a store -/
theorem sok_laws :
    (∀ s k v, SOk s → SOk (s.putSync k v)) ∧
    (∀ s k v k', SOk s → (s.putSync k v).getSync k' = if k' = k then some v else s.getSync k') := by
  refine ⟨fun s k v h => (sok_put h k v).1, fun s k v k' h => ?_⟩
  rw [sok_get (sok_put h k v).1, (sok_put h k v).2, sok_get h, map_lookup_upsert _ (sok_sorted h)]

/-! ### sorted association lists: range filter and length -/

theorem lookup_inRange (lo hi : Key) (k : Key) : ∀ (m : KV),
    (BT.inRange lo hi m).lookup k = if lo ≤ k ∧ k < hi then m.lookup k else none
  | [] => by simp [BT.inRange]
  | (k1, v1) :: r => by
    have ih := lookup_inRange lo hi k r
    unfold BT.inRange at ih ⊢
    rw [List.filter_cons]
    cases hin : (decide (lo ≤ k1) && decide (k1 < hi)) with
    | true =>
      simp only [if_true, lookup_cons', ih]
      simp only [Bool.and_eq_true, decide_eq_true_eq] at hin
      by_cases hk : k = k1
      · subst hk; simp [hin]
      · simp [hk]
    | false =>
      simp only [Bool.false_eq_true, if_false, lookup_cons', ih]
      by_cases hk : k = k1
      · subst hk
        have : ¬ (lo ≤ k ∧ k < hi) := by
          intro h
          simp [h.1, h.2] at hin
        simp [this]
      · simp [hk]

theorem sortedStrict_of_sorted : ∀ (m : KV), SortedKV m → sortedStrict m = true
  | [], _ => rfl
  | [_], _ => rfl
  | a :: b :: r, h => by
    obtain ⟨h1, h2⟩ := sorted_cons.1 h
    have := h1 b (List.mem_cons_self ..)
    simp only [sortedStrict, Bool.and_eq_true, decide_eq_true_eq]
    exact ⟨this, sortedStrict_of_sorted (b :: r) h2⟩

theorem sorted_inRange (lo hi : Key) (m : KV) (h : SortedKV m) : SortedKV (BT.inRange lo hi m) := by
  unfold SortedKV BT.inRange at *
  exact (List.pairwise_map.mpr ((List.pairwise_map.mp h).filter _))

end HappyModel.C14.SM
