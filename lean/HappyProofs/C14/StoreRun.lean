import HappyProofs.C14.StoreLaws
import HappyProofs.C14.LsmJudge
/-!
# B-tree / KVStore at run level: observations, ghost log, run invariant

The driver executes `runFrames stepS SPc.isDone` under a schedule of generator segments.  Every operation
touches the data structure in exactly one segment (`doAct`); the ghost log records the writes (`put`, and
`delete` as a write of `none`) with the segment in which they acted.  `RInv` ties the log to the store and to
every frame: the result of an operation that has acted is a function of the log before its acting segment.
-/
namespace HappyModel.C14.SM.SR
open HappyModel.C14 HappyModel.C14.SM HappyModel.C14.BT

/-! ### observations (mirror of `DriverStore.judgeStoreMode` without the text layer) -/

def framesOfS (ops : List (Nat × SOp)) : List (Frame SPc) := ops.map fun o => { id := o.1, pc := .start o.2 }

def kindOf : SOp → Option OKind
  | .put k v => some (.put k v)
  | .del k => some (.del k)
  | .get k => some (.get k)
  | .scan lo hi => some (.scan lo hi)
  | .size => none

def recOfS (ops : List (Nat × SOp)) (f : Frame SPc) : Option ORec :=
  match f.b, (ops.lookup f.id).bind kindOf with
  | some b, some kind =>
    some { id := f.id, kind := kind, b := b, e := f.e,
           got := match f.pc with | .done (.val c) => c | _ => none,
           rows := match f.pc with | .done (.rows d) => d | _ => [] }
  | _, _ => none

def obsOfS (ops : List (Nat × SOp)) (fs : List (Frame SPc)) : List ORec := fs.filterMap (recOfS ops)

def delFlagOf (ops : List (Nat × SOp)) (f : Frame SPc) : Option (Nat × Bool) :=
  match ops.lookup f.id, f.e, f.pc with
  | some (.del _), some _, .done (.flag fl) => some (f.id, fl)
  | _, _, _ => none

def sizeObsOf (ops : List (Nat × SOp)) (f : Frame SPc) : Option (Nat × Nat × Nat × Nat) :=
  match ops.lookup f.id, f.b, f.e, f.pc with
  | some .size, some b, some e, .done (.num m) => some (f.id, b, e, m)
  | _, _, _, _ => none

def extraOfS (ops : List (Nat × SOp)) (fs : List (Frame SPc)) : Extra :=
  { delFlags := fs.filterMap (delFlagOf ops), sizes := fs.filterMap (sizeObsOf ops) }

/-- operation ids and put values are pairwise distinct (a returned value names its write) -/
def DistinctS (ops : List (Nat × SOp)) : Prop :=
  (ops.map (·.1)).Nodup ∧ (ops.filterMap fun o => match o.2 with | .put _ v => some v | _ => none).Nodup

def keyLtOp (n : Nat) : SOp → Bool
  | .put k _ => k < n
  | .del k => k < n
  | _ => true

/-! ### ghost log -/

/-- value of `k` just before segment `a` (newest-first log) -/
def valAt (log : List Ev) (k : Key) (a : Nat) : Option Nat := (firstOn k (log.filter fun ev => ev.n < a)).join

/-- the operation (if any) that acts on the data in the next segment of a frame -/
def actsNow (s : Store) : SPc → Option SOp
  | .start op => match lsmStart s op with
    | some _ => none
    | none => if yieldsBefore s op = 0 then some op else none
  | .wait op 0 => some op
  | _ => none

def evOf (n id : Nat) : SOp → Option Ev
  | .put k v => some ⟨n, id, k, some v, 0⟩
  | .del k => some ⟨n, id, k, none, 0⟩
  | _ => none

def ghostStep (s : Store) (n id : Nat) (fs : List (Frame SPc)) (log : List Ev) : List Ev :=
  match fs.find? (fun f => f.id == id) with
  | some f => match (actsNow s f.pc).bind (evOf n id) with
    | some ev => ev :: log
    | none => log
  | none => log

def logRunS : Store → List (Frame SPc) → Nat → List Ev → List Nat → List Ev
  | _, _, _, log, [] => log
  | s, fs, n, log, id :: ids =>
    logRunS (stepFrames stepS SPc.isDone s n id fs).1 (stepFrames stepS SPc.isDone s n id fs).2 (n + 1)
      (ghostStep s n id fs log) ids

/-! ### run invariant -/

/-- the operation acted in segment `a` with result `r` -/
def Acted (log : List Ev) (id a : Nat) : SOp → SRes → Prop
  | .put k v, r => r = .ok ∧ ∃ ev ∈ log, ev.id = id ∧ ev.n = a ∧ ev.key = k ∧ ev.cell = some v
  | .del k, r => r = .flag (valAt log k a).isSome ∧ ∃ ev ∈ log, ev.id = id ∧ ev.n = a ∧ ev.key = k ∧ ev.cell = none
  | .get k, r => r = .val (valAt log k a) ∧ ∀ ev ∈ log, ev.id ≠ id
  | .scan lo hi, r =>
    (∃ d, r = .rows d ∧ sortedStrict d = true ∧ (∀ e ∈ d, lo ≤ e.1 ∧ e.1 < hi) ∧
      ∀ k, lo ≤ k → k < hi → d.lookup k = valAt log k a) ∧ ∀ ev ∈ log, ev.id ≠ id
  | .size, r =>
    (∃ m : KV, SortedKV m ∧ r = .num m.length ∧ ∀ k, m.lookup k = valAt log k a) ∧ ∀ ev ∈ log, ev.id ≠ id

def PcOk (log : List Ev) (n : Nat) (f : Frame SPc) (op : SOp) : Prop :=
  match f.pc with
  | .start op' => op' = op ∧ f.b = none ∧ f.e = none ∧ ∀ ev ∈ log, ev.id ≠ f.id
  | .wait op' _ => op' = op ∧ (∃ b, f.b = some b ∧ b < n) ∧ f.e = none ∧ ∀ ev ∈ log, ev.id ≠ f.id
  | .fin r => ∃ b a, f.b = some b ∧ b ≤ a ∧ a < n ∧ f.e = none ∧ Acted log f.id a op r
  | .done r => ∃ b a e, f.b = some b ∧ f.e = some e ∧ b ≤ a ∧ a ≤ e ∧ e < n ∧ Acted log f.id a op r
  | .lsmGet _ => False

def cellOp (k : Key) : Cell → SOp
  | some v => .put k v
  | none => .del k

structure RInv (ops : List (Nat × SOp)) (s : Store) (fs : List (Frame SPc)) (n : Nat) (log : List Ev) : Prop where
  sok : SOk s
  abs : ∀ k, s.contents.lookup k = (firstOn k log).join
  sortedN : (log.map (·.n)).Pairwise (· > ·)
  evLt : ∀ ev ∈ log, ev.n < n
  evIds : (log.map (·.id)).Nodup
  evOp : ∀ ev ∈ log, ops.lookup ev.id = some (cellOp ev.key ev.cell)
  evFrame : ∀ ev ∈ log, ∃ f ∈ fs, f.id = ev.id
  ids : (fs.map (·.id)).Nodup
  frames : ∀ f ∈ fs, ∃ op, ops.lookup f.id = some op ∧ PcOk log n f op

/-! ### generic facts about `stepFrames` -/

theorem stepFrames_cases {σ π : Type} (step : σ → π → σ × π) (isDone : π → Bool) (st : σ) (n id : Nat) :
    ∀ fs : List (Frame π),
    ((fs.find? (fun f => f.id == id) = none ∨ ∃ f, fs.find? (fun f => f.id == id) = some f ∧ isDone f.pc = true) ∧
      stepFrames step isDone st n id fs = (st, fs)) ∨
    ∃ pre f post, fs = pre ++ f :: post ∧ fs.find? (fun f => f.id == id) = some f ∧ f.id = id ∧ isDone f.pc = false ∧
      stepFrames step isDone st n id fs = ((step st f.pc).1,
        pre ++ { f with pc := (step st f.pc).2, b := f.b.orElse (fun _ => some n),
                        e := if isDone (step st f.pc).2 then some n else none } :: post)
  | [] => Or.inl ⟨Or.inl rfl, rfl⟩
  | g :: gs => by
    by_cases hg : (g.id == id) = true
    · have hfind : (g :: gs).find? (fun f => f.id == id) = some g := by simp [List.find?, hg]
      by_cases hd : isDone g.pc = true
      · left
        refine ⟨Or.inr ⟨g, hfind, hd⟩, ?_⟩
        simp only [stepFrames, hg, hd, if_true]
      · right
        refine ⟨[], g, gs, rfl, hfind, by simpa using hg, by simpa using hd, ?_⟩
        simp only [stepFrames, hg, hd, if_true, Bool.false_eq_true, if_false, List.nil_append]
    · have hfind : (g :: gs).find? (fun f => f.id == id) = gs.find? (fun f => f.id == id) := by
        simp [List.find?, hg]
      rcases stepFrames_cases step isDone st n id gs with ⟨h1, h2⟩ | ⟨pre, f, post, h1, h2, h3, h4, h5⟩
      · left
        refine ⟨by rw [hfind]; exact h1, ?_⟩
        simp only [stepFrames, hg, Bool.false_eq_true, if_false, h2]
      · right
        refine ⟨g :: pre, f, post, by rw [h1]; rfl, by rw [hfind]; exact h2, h3, h4, ?_⟩
        simp only [stepFrames, hg, Bool.false_eq_true, if_false, h5, List.cons_append]

theorem runFrames_snoc {σ π : Type} (step : σ → π → σ × π) (isDone : π → Bool) :
    ∀ (sched : List Nat) (st : σ) (fs : List (Frame π)) (n id : Nat),
    runFrames step isDone st fs n (sched ++ [id]) =
      stepFrames step isDone (runFrames step isDone st fs n sched).1 (n + sched.length) id
        (runFrames step isDone st fs n sched).2
  | [], st, fs, n, id => by simp [runFrames]
  | x :: xs, st, fs, n, id => by
    simp only [List.cons_append, runFrames, List.length_cons]
    rw [runFrames_snoc step isDone xs]
    congr 1
    omega

/-! ### `valAt` is stable under later events -/

theorem valAt_cons {log : List Ev} {ev : Ev} {a : Nat} (h : a ≤ ev.n) (k : Key) : valAt (ev :: log) k a = valAt log k a := by
  unfold valAt
  rw [List.filter_cons]
  have : decide (ev.n < a) = false := by simp; omega
  simp [this]

theorem valAt_now {log : List Ev} {n : Nat} (h : ∀ ev ∈ log, ev.n < n) (k : Key) : valAt log k n = (firstOn k log).join := by
  unfold valAt
  rw [List.filter_eq_self.mpr]
  intro ev hev
  simpa using h ev hev

theorem acted_mono {log : List Ev} {ev : Ev} {id a : Nat} {op : SOp} {r : SRes} (ha : a ≤ ev.n) (hid : ev.id ≠ id)
    (h : Acted log id a op r) : Acted (ev :: log) id a op r := by
  cases op with
  | put k v =>
    obtain ⟨h1, e, he, h2⟩ := h
    exact ⟨h1, e, List.mem_cons_of_mem _ he, h2⟩
  | del k =>
    obtain ⟨h1, e, he, h2⟩ := h
    refine ⟨by rw [valAt_cons ha]; exact h1, e, List.mem_cons_of_mem _ he, h2⟩
  | get k =>
    obtain ⟨h1, h2⟩ := h
    refine ⟨by rw [valAt_cons ha]; exact h1, ?_⟩
    intro e he
    rcases List.mem_cons.mp he with rfl | he
    · exact hid
    · exact h2 e he
  | scan lo hi =>
    obtain ⟨⟨d, h1, h2, h3, h4⟩, h5⟩ := h
    refine ⟨⟨d, h1, h2, h3, fun k hk1 hk2 => by rw [valAt_cons ha]; exact h4 k hk1 hk2⟩, ?_⟩
    intro e he
    rcases List.mem_cons.mp he with rfl | he
    · exact hid
    · exact h5 e he
  | size =>
    obtain ⟨⟨m, h1, h2, h3⟩, h5⟩ := h
    refine ⟨⟨m, h1, h2, fun k => by rw [valAt_cons ha]; exact h3 k⟩, ?_⟩
    intro e he
    rcases List.mem_cons.mp he with rfl | he
    · exact hid
    · exact h5 e he

/-- a frame that does not move keeps its invariant when the counter advances and an event of another
    operation is logged -/
theorem pcOk_cons {log : List Ev} {n : Nat} {f : Frame SPc} {op : SOp} {ev : Ev} (hn : ev.n = n) (hid : ev.id ≠ f.id)
    (h : PcOk log n f op) : PcOk (ev :: log) (n + 1) f op := by
  unfold PcOk at h ⊢
  cases hpc : f.pc with
  | start op' =>
    rw [hpc] at h
    obtain ⟨h1, h2, h3, h4⟩ := h
    refine ⟨h1, h2, h3, ?_⟩
    intro e he
    rcases List.mem_cons.mp he with rfl | he
    · exact hid
    · exact h4 e he
  | wait op' j =>
    rw [hpc] at h
    obtain ⟨h1, ⟨b, hb, hbn⟩, h3, h4⟩ := h
    refine ⟨h1, ⟨b, hb, by omega⟩, h3, ?_⟩
    intro e he
    rcases List.mem_cons.mp he with rfl | he
    · exact hid
    · exact h4 e he
  | fin r =>
    rw [hpc] at h
    obtain ⟨b, a, h1, h2, h3, h4, h5⟩ := h
    exact ⟨b, a, h1, h2, by omega, h4, acted_mono (by omega) hid h5⟩
  | done r =>
    rw [hpc] at h
    obtain ⟨b, a, e, h1, h2, h3, h4, h5, h6⟩ := h
    exact ⟨b, a, e, h1, h2, h3, h4, by omega, acted_mono (by omega) hid h6⟩
  | lsmGet p => rw [hpc] at h; exact h.elim

theorem pcOk_succ {log : List Ev} {n : Nat} {f : Frame SPc} {op : SOp} (h : PcOk log n f op) : PcOk log (n + 1) f op := by
  unfold PcOk at h ⊢
  cases hpc : f.pc with
  | start op' => rw [hpc] at h; exact h
  | wait op' j =>
    rw [hpc] at h
    obtain ⟨h1, ⟨b, hb, hbn⟩, h3, h4⟩ := h
    exact ⟨h1, ⟨b, hb, by omega⟩, h3, h4⟩
  | fin r =>
    rw [hpc] at h
    obtain ⟨b, a, h1, h2, h3, h4, h5⟩ := h
    exact ⟨b, a, h1, h2, by omega, h4, h5⟩
  | done r =>
    rw [hpc] at h
    obtain ⟨b, a, e, h1, h2, h3, h4, h5, h6⟩ := h
    exact ⟨b, a, e, h1, h2, h3, h4, by omega, h6⟩
  | lsmGet p => rw [hpc] at h; exact h.elim

end HappyModel.C14.SM.SR
