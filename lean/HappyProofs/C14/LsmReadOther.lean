import HappyProofs.C14.LsmRead
import HappyProofs.C14.LsmEffect
import HappyProofs.C14.LsmLog
/-! A suspended reader stays within its allowed cells while other frames run. -/
namespace HappyModel.C14

section
variable {mem : Data} {imms : List Tab} {lv : List (List Tab)} {k : Key} {i : Nat} {snap : List Tab} {Al : Cell → Prop}

theorem rb_ins (h : RB mem imms lv k i snap Al) (k' : Key) (c' : Cell) :
    RB (ins k' c' mem) imms lv k i snap (fun c => Al c ∨ (k' = k ∧ c = c')) := by
  have h' := h.mono (Al' := fun c => Al c ∨ (k' = k ∧ c = c')) (fun c hc => Or.inl hc)
  refine ⟨h'.cont, ?_, h'.imm, h'.low, h'.cur, h'.snapDisj⟩
  intro c hc
  rw [lookup_ins] at hc
  by_cases hk : k = k'
  · simp only [hk, if_true] at hc
    exact Or.inr ⟨hk.symm, by simpa using hc.symm⟩
  · simp only [hk, if_false] at hc
    exact Or.inl (h.mem c hc)

theorem rb_freeze (h : RB mem imms lv k i snap Al) (id : Nat) : RB [] (imms ++ [⟨id, mem⟩]) lv k i snap Al := by
  refine ⟨h.cont, fun c hc => (by cases hc), ?_, h.low, h.cur, h.snapDisj⟩
  intro u hu c hc
  rcases List.mem_append.mp hu with hu | hu
  · exact h.imm u hu c hc
  · rw [List.mem_singleton] at hu; subst hu; exact h.mem c hc

theorem drop_modAt0 (lv : List (List Tab)) (f : List Tab → List Tab) (i : Nat) :
    (modAt lv 0 f).drop (i + 1) = lv.drop (i + 1) := by
  cases lv <;> rfl

theorem rb_install0 (h : RB mem imms lv k i snap Al) {t : Tab} (ht : t ∈ imms) (hlen : 0 < lv.length) (p : Tab → Bool) :
    RB mem (imms.filter p) (modAt lv 0 (· ++ [t])) k i snap Al := by
  refine ⟨by rw [drop_modAt0]; exact h.cont, h.mem, fun u hu => h.imm u (List.mem_filter.mp hu).1, ?_, ?_, h.snapDisj⟩
  · intro j hj T hT c hc
    rw [getD_modAt _ _ _ _ hlen] at hT
    split at hT
    · rename_i hj0; subst hj0
      rcases List.mem_append.mp hT with hT | hT
      · exact h.low 0 hj T hT c hc
      · rw [List.mem_singleton] at hT; subst hT; exact h.imm T ht c hc
    · exact h.low j hj T hT c hc
  · intro T hT c hc
    rw [getD_modAt _ _ _ _ hlen] at hT
    split at hT
    · rename_i hi0
      rcases List.mem_append.mp hT with hT | hT
      · exact h.cur T (by rw [hi0]; exact hT) c hc
      · rw [List.mem_singleton] at hT; subst hT; exact Or.inl (h.imm T ht c hc)
    · exact h.cur T hT c hc

theorem rb_compact {cfg : Cfg} {j : Job} (h : RB mem imms lv k i snap Al) (hI : LvInv cfg lv) (hP : Planned cfg lv j)
    (newId : Nat) : RB mem imms (installCompaction lv j newId) k i snap Al := by
  obtain ⟨⟨e0, e0'⟩, e1, e2, e3⟩ := install_effect hI hP newId k
  -- a table of the rebuilt target level holds only cells already allowed or still ahead in the snapshot
  have origin : ∀ x, x ≤ i → ∀ T' c, T'.data.lookup k = some c → (T' ∈ lv.getD x [] ) →
      (x < i → Al c) ∧ (x = i → Al c ∨ T' ∈ snap ∨ lookTabs k snap = some c) := by
    intro x hx T' c hc hT'
    exact ⟨fun hlt => h.low x hlt T' hT' c hc, fun he => h.cur T' (by rw [← he]; exact hT') c hc⟩
  refine ⟨?_, h.mem, h.imm, ?_, ?_, h.snapDisj⟩
  · -- continuation
    by_cases hlt : i < j.src
    · have := lookLevels_install hI hP newId k (i + 1) hlt
      rw [or_join_congr _ _ _ this]; exact h.cont
    · by_cases hge : j.tgt ≤ i
      · rw [e2 i hge]; exact h.cont
      · have hi : i = j.src := by omega
        obtain ⟨S, hS, hjoin⟩ := e3 (by omega)
        rw [← hi] at hS hjoin
        cases hsn : lookTabs k snap with
        | some c0 =>
          have := h.cont
          rw [hsn] at this
          exact this
        | none =>
          rw [Option.none_or, hjoin]
          cases ha : lookTabs k S.reverse with
          | none =>
            have := h.cont
            rw [hsn, Option.none_or] at this
            rw [Option.none_or]; exact this
          | some c =>
            obtain ⟨T, hT, hTc⟩ := lookTabs_some_mem ha
            rcases h.cur T (hS T (List.mem_reverse.mp hT)) c hTc with h1 | h1 | h1
            · exact h1
            · rw [lookTabs_none_iff.mp hsn T h1] at hTc; cases hTc
            · rw [hsn] at h1; cases h1
  · intro x hx T hT c hc
    rcases e1 x T hT c hc with h1 | ⟨hxt, T', hT'c, hT'⟩
    · exact h.low x hx T h1 c hc
    · rcases hT' with hT' | hT'
      · exact h.low j.src (by omega) T' hT' c hT'c
      · exact h.low j.tgt (by omega) T' hT' c hT'c
  · intro T hT c hc
    rcases e1 i T hT c hc with h1 | ⟨hxt, T', hT'c, hT'⟩
    · exact h.cur T h1 c hc
    · have fromCur : T' ∈ lv.getD i [] → Al c ∨ T ∈ snap ∨ lookTabs k snap = some c := by
        intro hm
        rcases h.cur T' hm c hT'c with h1 | h1 | h1
        · exact Or.inl h1
        · -- the target level is ≥ 1: the snapshot is key-disjoint
          have hi1 : 1 ≤ i := by
            have := planned_tgt_pos hP hI.two; omega
          exact Or.inr (Or.inr (lookTabs_of_mem (h.snapDisj hi1) h1 hT'c))
        · exact Or.inr (Or.inr h1)
      rcases hT' with hT' | hT'
      · by_cases hs : j.src = i
        · exact fromCur (by rw [← hs]; exact hT')
        · exact Or.inl (h.low j.src (by omega) T' hT' c hT'c)
      · exact fromCur (by rw [hxt]; exact hT')

end

end HappyModel.C14
