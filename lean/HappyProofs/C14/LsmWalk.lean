import HappyProofs.C14.LsmShape
/-! The level walks of `get` and `scan`: which tables they skip and where they stop. -/
namespace HappyModel.C14

def walkG (skip : Tab → Bool) : List Tab → Option (Tab × List Tab)
  | [] => none
  | t :: r => if skip t then walkG skip r else some (t, r)

def walkLG (skip : Tab → Bool) : List (List Tab) → Nat → Option (Nat × Tab × List Tab)
  | [], _ => none
  | l :: ls, i => match walkG skip l.reverse with
    | some (t, r) => some (i, t, r)
    | none => walkLG skip ls (i + 1)

theorem walkTabs_eq (cfg : Cfg) (k : Key) (l : List Tab) : walkTabs cfg k l = walkG (fun t => !maybe cfg t k) l := by
  induction l with
  | nil => rfl
  | cons t r ih =>
    simp only [walkTabs, walkG]
    by_cases hm : maybe cfg t k = true
    · simp [hm]
    · simp [hm, ih]

theorem walkLevels_eq (cfg : Cfg) (k : Key) (ls : List (List Tab)) (i : Nat) :
    walkLevels cfg k ls i = walkLG (fun t => !maybe cfg t k) ls i := by
  induction ls generalizing i with
  | nil => rfl
  | cons l ls ih =>
    simp only [walkLevels, walkLG, walkTabs_eq, ih]
    cases walkG (fun t => !maybe cfg t k) l.reverse <;> rfl

theorem scanTabs_eq (lo hi : Key) (l : List Tab) :
    scanTabs lo hi l = walkG (fun t => (inRange lo hi t.data).isEmpty) l := by
  induction l with
  | nil => rfl
  | cons t r ih => simp only [scanTabs, walkG, ih]

theorem scanLevelsW_eq (lo hi : Key) (ls : List (List Tab)) (i : Nat) :
    scanLevelsW lo hi ls i = walkLG (fun t => (inRange lo hi t.data).isEmpty) ls i := by
  induction ls generalizing i with
  | nil => rfl
  | cons l ls ih =>
    simp only [scanLevelsW, walkLG, scanTabs_eq, ih]
    cases walkG (fun t => (inRange lo hi t.data).isEmpty) l.reverse <;> rfl

theorem skip_maybe (cfg : Cfg) (k : Key) (t : Tab) (h : (!maybe cfg t k) = true) : t.data.lookup k = none := by
  unfold maybe at h
  cases hl : t.data.lookup k with
  | none => rfl
  | some c => rw [hl] at h; simp at h

theorem mem_of_lookup_some {k : Key} {c : Cell} {d : Data} (h : d.lookup k = some c) : (k, c) ∈ d := by
  induction d with
  | nil => simp [List.lookup] at h
  | cons e r ih =>
    obtain ⟨k0, c0⟩ := e
    simp only [List.lookup] at h
    by_cases hk : k = k0
    · subst hk; simp at h; subst h; exact List.mem_cons_self ..
    · have : (k == k0) = false := by simp [hk]
      rw [this] at h
      exact List.mem_cons_of_mem _ (ih h)

theorem skip_range (lo hi k : Key) (hk : lo ≤ k ∧ k < hi) (t : Tab) (h : (inRange lo hi t.data).isEmpty = true) :
    t.data.lookup k = none := by
  cases hl : t.data.lookup k with
  | none => rfl
  | some c =>
    have hm := mem_of_lookup_some hl
    have : (k, c) ∈ inRange lo hi t.data := by
      unfold inRange
      exact List.mem_filter.mpr ⟨hm, by simp [hk.1, hk.2]⟩
    rw [List.isEmpty_iff] at h
    rw [h] at this; cases this

/-- where `walkG` stops -/
theorem walkG_some {skip : Tab → Bool} {l : List Tab} {t : Tab} {r : List Tab} (h : walkG skip l = some (t, r)) :
    ∃ sk, l = sk ++ t :: r ∧ ∀ x ∈ sk, skip x = true := by
  induction l with
  | nil => cases h
  | cons a l ih =>
    simp only [walkG] at h
    by_cases hs : skip a = true
    · simp only [hs, if_true] at h
      obtain ⟨sk, e, hsk⟩ := ih h
      refine ⟨a :: sk, by rw [e]; rfl, ?_⟩
      intro x hx
      rcases List.mem_cons.mp hx with rfl | hx
      · exact hs
      · exact hsk x hx
    · simp only [hs, if_false, Bool.false_eq_true] at h
      injection h with h
      injection h with h1 h2
      subst h1; subst h2
      exact ⟨[], rfl, fun x hx => by cases hx⟩

theorem walkG_none {skip : Tab → Bool} {l : List Tab} (h : walkG skip l = none) : ∀ x ∈ l, skip x = true := by
  induction l with
  | nil => intro x hx; cases hx
  | cons a l ih =>
    simp only [walkG] at h
    by_cases hs : skip a = true
    · simp only [hs, if_true] at h
      intro x hx
      rcases List.mem_cons.mp hx with rfl | hx
      · exact hs
      · exact ih h x hx
    · simp [hs] at h

theorem walkLG_some {skip : Tab → Bool} {ls : List (List Tab)} {base i : Nat} {t : Tab} {r : List Tab}
    (h : walkLG skip ls base = some (i, t, r)) :
    ∃ m, i = base + m ∧ (∀ j, j < m → ∀ x ∈ ls.getD j [], skip x = true) ∧
      ∃ sk, (ls.getD m []).reverse = sk ++ t :: r ∧ ∀ x ∈ sk, skip x = true := by
  induction ls generalizing base with
  | nil => cases h
  | cons l ls ih =>
    simp only [walkLG] at h
    cases hw : walkG skip l.reverse with
    | some tr =>
      obtain ⟨t', r'⟩ := tr
      rw [hw] at h
      simp only [Option.some.injEq, Prod.mk.injEq] at h
      obtain ⟨rfl, rfl, rfl⟩ := h
      obtain ⟨sk, e, hsk⟩ := walkG_some hw
      exact ⟨0, rfl, fun j hj => by omega, sk, by simpa using e, hsk⟩
    | none =>
      rw [hw] at h
      simp only at h
      obtain ⟨m, e1, e2, sk, e3, e4⟩ := ih h
      refine ⟨m + 1, by omega, ?_, sk, by simpa using e3, e4⟩
      intro j hj x hx
      cases j with
      | zero =>
        simp only [List.getD_cons_zero] at hx
        exact walkG_none hw x (List.mem_reverse.mpr hx)
      | succ j =>
        simp only [List.getD_cons_succ] at hx
        exact e2 j (by omega) x hx

theorem walkLG_none {skip : Tab → Bool} {ls : List (List Tab)} {base : Nat} (h : walkLG skip ls base = none) :
    ∀ j, ∀ x ∈ ls.getD j [], skip x = true := by
  induction ls generalizing base with
  | nil => intro j x hx; simp at hx
  | cons l ls ih =>
    simp only [walkLG] at h
    cases hw : walkG skip l.reverse with
    | some tr => rw [hw] at h; cases h
    | none =>
      rw [hw] at h
      simp only at h
      intro j x hx
      cases j with
      | zero =>
        simp only [List.getD_cons_zero] at hx
        exact walkG_none hw x (List.mem_reverse.mpr hx)
      | succ j =>
        simp only [List.getD_cons_succ] at hx
        exact ih h j x hx

theorem getD_drop (lv : List (List Tab)) (a j : Nat) : (lv.drop a).getD j [] = lv.getD (a + j) [] := by
  induction lv generalizing a with
  | nil => simp
  | cons l r ih =>
    cases a with
    | zero => simp
    | succ a =>
      have : a + 1 + j = (a + j) + 1 := by omega
      rw [this]
      simpa using ih a

/-- levels without the key do not matter to a read -/
theorem lookLevels_skip (k : Key) (lv : List (List Tab)) (a m : Nat)
    (h : ∀ j, j < m → ∀ x ∈ lv.getD (a + j) [], x.data.lookup k = none) :
    lookLevels k (lv.drop a) = lookLevels k (lv.drop (a + m)) := by
  induction m with
  | zero => rfl
  | succ m ih =>
    rw [ih (fun j hj => h j (by omega))]
    by_cases hlt : a + m < lv.length
    · rw [drop_eq_getD_cons lv (a + m) hlt, lookLevels_cons]
      have : lookTabs k (lv.getD (a + m) []).reverse = none :=
        lookTabs_none_iff.mpr fun t ht => h m (by omega) t (List.mem_reverse.mp ht)
      rw [this, Option.none_or]
      rfl
    · rw [List.drop_of_length_le (by omega), List.drop_of_length_le (by omega)]

end HappyModel.C14
