import HappyProofs.C14.TxnObs
/-!
# The transaction judge accepts observations that satisfy `TxnFacts` — part A: states

Lemmas that link the list states of the Spec (`setKey`, `applyW`, `serialOk`, `prefixStates`) to the
abstract maps of the proofs (`putF`, `applyF`, `stateEnd`).
-/
namespace HappyModel.C14.SM
open HappyModel.C14 HappyModel.C14.BT HappyModel.C14.TxSpec

/-- what a history entry records about a committed transaction -/
def keyOf (t : TObs) : Nat × Nat × KV := (t.commitPos, t.slot, t.wset)

/-- serial execution of the write sets of `l` from `s` -/
def runW (s : State) (l : List TObs) : State := l.foldl (fun s t => applyW s t.wset) s

@[simp] theorem runW_nil (s : State) : runW s [] = s := rfl
@[simp] theorem runW_cons (s : State) (t : TObs) (l : List TObs) :
    runW s (t :: l) = runW (applyW s t.wset) l := rfl

theorem lookup_cons_ite (a : Key) (b : Nat) (r : State) (k' : Key) :
    List.lookup k' ((a, b) :: r) = if k' = a then some b else List.lookup k' r := by
  rw [List.lookup_cons]
  by_cases h : k' = a
  · subst h; simp
  · have : (k' == a) = false := by simpa using h
    simp [this, h]

theorem lookup_setKey (k : Key) (v : Nat) (s : State) (k' : Key) :
    (setKey k v s).lookup k' = if k' = k then some v else s.lookup k' := by
  induction s with
  | nil => simp only [setKey, lookup_cons_ite, List.lookup_nil]
  | cons x r ih =>
    obtain ⟨a, b⟩ := x
    simp only [setKey]
    by_cases hak : a = k
    · subst hak
      simp only [if_true, lookup_cons_ite]
      by_cases h : k' = a <;> simp [h]
    · simp only [hak, if_false, lookup_cons_ite, ih]
      by_cases h : k' = k
      · subst h
        have : ¬ k' = a := fun e => hak e.symm
        simp [this]
      · simp [h]

theorem lookup_applyW (w : State) : ∀ (s : State) (f : Key → Option Nat), (∀ k, s.lookup k = f k) →
    ∀ k, (applyW s w).lookup k = applyF f w k := by
  induction w with
  | nil => intro s f h k; simpa [applyW, applyF] using h k
  | cons e r ih =>
    intro s f h k
    have := ih (setKey e.1 e.2 s) (putF f e.1 e.2) (by
      intro k'
      rw [lookup_setKey]
      simp only [putF, h k']) k
    simpa [applyW, applyF] using this

theorem stateEnd_nil (f : Key → Option Nat) : stateEnd f [] = f := rfl
theorem stateEnd_cons (f : Key → Option Nat) (c : Nat × Nat × KV) (h : Hist) :
    stateEnd f (c :: h) = stateEnd (applyF f c.2.2) h := rfl

theorem lookup_runW (l : List TObs) : ∀ (s : State) (f : Key → Option Nat), (∀ k, s.lookup k = f k) →
    ∀ k, (runW s l).lookup k = stateEnd f (l.map keyOf) k := by
  induction l with
  | nil => intro s f h k; simpa [stateEnd_nil] using h k
  | cons t r ih =>
    intro s f h k
    simp only [runW_cons, List.map_cons, stateEnd_cons]
    exact ih _ _ (lookup_applyW t.wset s f h) k

/-- `serialOk` from its two ingredients -/
theorem serialOk_of (b : Bool) (nkeys : Nat) (final : List (Option Nat)) (l : List TObs) : ∀ (s : State),
    (∀ p t q, l = p ++ t :: q → t.level = .ser → readsMatch (runW s p) t = true) →
    (∀ k, k < nkeys → (runW s l).lookup k = final.getD k none) →
    serialOk b nkeys final s l = true := by
  induction l with
  | nil =>
    intro s _ hfin
    simp only [serialOk, List.all_eq_true, List.mem_range]
    intro k hk
    have := hfin k hk
    simp only [runW_nil] at this
    simp [this]
  | cons t r ih =>
    intro s hr hfin
    simp only [serialOk, Bool.and_eq_true, Bool.or_eq_true, Bool.not_eq_true']
    refine ⟨?_, ?_⟩
    · by_cases hl : t.level = .ser
      · right
        exact hr [] t r rfl hl
      · left
        simp [hl]
    · apply ih
      · intro p t' q hpq hl
        have := hr (t :: p) t' q (by simp [hpq]) hl
        simpa using this
      · intro k hk
        simpa using hfin k hk

theorem mem_prefixStates_self (s : State) (l : List TObs) : s ∈ prefixStates s l := by
  cases l <;> simp [prefixStates]

/-- among the states after the prefixes of a filtered, position-sorted list there is the state "before
    position `nb`", if everything before `nb` survives the filter -/
theorem prefixStates_before (P : TObs → Bool) (nb : Nat) (l : List TObs) : ∀ (s : State) (f : Key → Option Nat),
    l.Pairwise (fun a b => a.commitPos ≤ b.commitPos) →
    (∀ c ∈ l, c.commitPos < nb → P c = true) →
    (∀ k, s.lookup k = f k) →
    ∃ s' ∈ prefixStates s (l.filter P), ∀ k, s'.lookup k = stateEnd f ((l.map keyOf).filter fun c => c.1 < nb) k := by
  induction l with
  | nil =>
    intro s f _ _ h
    exact ⟨s, by simp [prefixStates], by simpa [stateEnd_nil] using h⟩
  | cons x r ih =>
    intro s f hs hP h
    rw [List.pairwise_cons] at hs
    by_cases hx : x.commitPos < nb
    · have hPx := hP x (by simp) hx
      have hk : (fun c : Nat × Nat × KV => decide (c.1 < nb)) (keyOf x) = true := decide_eq_true hx
      obtain ⟨s', hm, hl⟩ := ih (applyW s x.wset) (applyF f x.wset) hs.2
        (fun c hc => hP c (by simp [hc])) (lookup_applyW x.wset s f h)
      refine ⟨s', ?_, ?_⟩
      · rw [List.filter_cons_of_pos hPx]
        simp only [prefixStates, List.mem_cons]
        exact Or.inr hm
      · intro k
        rw [List.map_cons, List.filter_cons_of_pos (p := fun c : Nat × Nat × KV => decide (c.1 < nb)) hk,
          stateEnd_cons]
        exact hl k
    · refine ⟨s, mem_prefixStates_self _ _, ?_⟩
      have hnil : ((x :: r).map keyOf).filter (fun c => decide (c.1 < nb)) = [] := by
        rw [List.filter_eq_nil_iff]
        intro c hc
        simp only [List.map_cons, List.mem_cons, List.mem_map] at hc
        rcases hc with rfl | ⟨y, hy, rfl⟩
        · exact fun hd => hx (of_decide_eq_true hd)
        · have := hs.1 y hy
          intro hd
          have hd' : y.commitPos < nb := of_decide_eq_true hd
          omega
      intro k
      rw [hnil, stateEnd_nil]
      exact h k

/-- in a list strictly sorted by position, the entries before the position of an entry are those to its left -/
theorem filter_before_entry (a : Hist) (x : Nat × Nat × KV) (b : Hist)
    (hs : ((a ++ x :: b).map (·.1)).Pairwise (· < ·)) :
    (a ++ x :: b).filter (fun c => c.1 < x.1) = a := by
  rw [List.map_append, List.pairwise_append] at hs
  obtain ⟨_, hb, hab⟩ := hs
  rw [List.map_cons, List.pairwise_cons] at hb
  rw [List.filter_append]
  have h1 : a.filter (fun c => decide (c.1 < x.1)) = a := by
    rw [List.filter_eq_self]
    intro c hc
    have := hab c.1 (List.mem_map_of_mem hc) x.1 (by simp)
    simpa using this
  have h2 : (x :: b).filter (fun c => decide (c.1 < x.1)) = [] := by
    rw [List.filter_eq_nil_iff]
    intro c hc
    simp only [List.mem_cons] at hc
    rcases hc with rfl | hc
    · simp
    · have := hb.1 c.1 (List.mem_map_of_mem hc)
      simp only [decide_eq_true_eq]
      omega
  rw [h1, h2, List.append_nil]

/-- the latest end of a read is not before the end of any read -/
theorem le_foldl_max (l : List (Key × Option Nat × Nat)) : ∀ (m : Nat),
    m ≤ l.foldl (fun m r => max m r.2.2) m ∧ ∀ r ∈ l, r.2.2 ≤ l.foldl (fun m r => max m r.2.2) m := by
  induction l with
  | nil => intro m; simp
  | cons x r ih =>
    intro m
    have := ih (max m x.2.2)
    simp only [List.foldl_cons, List.mem_cons]
    refine ⟨by omega, ?_⟩
    intro y hy
    rcases hy with rfl | hy
    · omega
    · exact this.2 y hy

end HappyModel.C14.SM
