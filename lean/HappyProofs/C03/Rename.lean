import HappyProofs.C01.Lemmas
/-! Renaming creation indices in the C01 engine model: the run commutes with the renaming. -/
namespace HappyModel.C03
open HappyModel.C01
set_option linter.unusedVariables false
set_option linter.unusedSimpArgs false

variable {σ : Type}

def renEv (g : Nat → Nat) (e : Ev) : Ev := { e with id := g e.id }

def StrictMonoOn (g : Nat → Nat) : Prop := ∀ a b, a < b → g a < g b

theorem StrictMonoOn.lt_iff {g : Nat → Nat} (h : StrictMonoOn g) (a b : Nat) : g a < g b ↔ a < b := by
  constructor
  · intro hlt
    rcases Nat.lt_trichotomy a b with hab | hab | hab
    · exact hab
    · subst hab; omega
    · have := h b a hab; omega
  · exact h a b

theorem StrictMonoOn.inj {g : Nat → Nat} (h : StrictMonoOn g) {a b : Nat} (hab : g a = g b) : a = b := by
  rcases Nat.lt_trichotomy a b with hlt | heq | hgt
  · have := h a b hlt; omega
  · exact heq
  · have := h b a hgt; omega

theorem renEv_inj {g : Nat → Nat} (h : StrictMonoOn g) {a b : Ev} (hab : renEv g a = renEv g b) : a = b := by
  cases a; cases b
  simp [renEv] at hab
  obtain ⟨hid, rest⟩ := hab
  have := h.inj hid
  simp [this, rest]

theorem keyLt_ren {g : Nat → Nat} (h : StrictMonoOn g) (a b : Ev) :
    keyLt (renEv g a) (renEv g b) = keyLt a b := by
  unfold keyLt renEv
  simp only []
  have := h.lt_iff a.id b.id
  by_cases hlt : a.id < b.id <;> simp [hlt, this.mpr, this]

theorem minOf_ren {g : Nat → Nat} (h : StrictMonoOn g) (m : Ev) (l : List Ev) :
    minOf (renEv g m) (l.map (renEv g)) = renEv g (minOf m l) := by
  induction l generalizing m with
  | nil => simp [minOf]
  | cons x xs ih =>
    simp only [List.map_cons, minOf, keyLt_ren h]
    split
    · exact ih x
    · exact ih m

theorem map_erase_inj {α β} [DecidableEq α] [DecidableEq β] (f : α → β)
    (hf : ∀ a b, f a = f b → a = b) (l : List α) (a : α) :
    (l.map f).erase (f a) = (l.erase a).map f := by
  induction l with
  | nil => simp
  | cons x xs ih =>
    by_cases hx : x = a
    · subst hx; simp
    · have hne : ¬ (x == a) = true := by simp [hx]
      have hne' : ¬ (f x == f a) = true := by
        simp; intro h; exact hx (hf _ _ h)
      rw [List.map_cons, List.erase_cons_tail hne', List.erase_cons_tail hne, List.map_cons, ih]

theorem mem_map_inj (g : Nat → Nat) (hg : ∀ a b, g a = g b → a = b) (l : List Nat) (x : Nat) :
    g x ∈ l.map g ↔ x ∈ l := by
  constructor
  · intro h
    obtain ⟨y, hy, hxy⟩ := List.mem_map.mp h
    have := hg _ _ hxy
    subst this; exact hy
  · intro h; exact List.mem_map.mpr ⟨x, h, rfl⟩

theorem mkEvents_ren (g : Nat → Nat) (n N' now : Nat) (specs : List Spec)
    (hfresh : ∀ j, g (n + j) = N' + j) :
    mkEvents N' now specs = (mkEvents n now specs).map (renEv g) := by
  induction specs generalizing n N' with
  | nil => simp [mkEvents]
  | cons s ss ih =>
    simp only [mkEvents, List.map_cons]
    have h0 := hfresh 0
    simp at h0
    congr 1
    · simp [renEv, h0]
    · apply ih
      intro j
      have := hfresh (1 + j)
      rw [show n + 1 + j = n + (1 + j) by omega, this]; omega

theorem countPrimary_ren (g : Nat → Nat) (l : List Ev) : countPrimary (l.map (renEv g)) = countPrimary l := by
  induction l with
  | nil => rfl
  | cons x xs ih =>
    simp only [countPrimary, List.map_cons, List.filter_cons] at ih ⊢
    have : (renEv g x).daemon = x.daemon := rfl
    rw [this]
    cases x.daemon <;> simp [ih]

/-- the handler commutes with the renaming of creation indices: it may store ids in its state
    (`rσ` renames them there), receive and return them, cancel them — but not compute with their
    numeric value -/
structure Equivariant (mc : Machine σ) (g : Nat → Nat) (rσ : σ → σ) : Prop where
  handle : ∀ ent now e, mc.handle (rσ ent) now (renEv g e) =
      { ent := rσ (mc.handle ent now e).ent, specs := (mc.handle ent now e).specs,
        cancels := (mc.handle ent now e).cancels.map g }
  crashed : ∀ ent e, mc.crashed (rσ ent) (renEv g e) = mc.crashed ent e

/-- the same engine state with creation indices renamed by `g` and the counter at `N'` -/
def renSt (g : Nat → Nat) (rσ : σ → σ) (N' : Nat) (s : St σ) : St σ :=
  { heap := s.heap.map (renEv g), now := s.now, nextId := N', cancelled := s.cancelled.map g,
    ent := rσ s.ent, log := s.log.map (renEv g),
    popped := s.popped.map (fun p => (renEv g p.1, p.2)), primary := s.primary,
    processed := s.processed, nCancelled := s.nCancelled, nStale := s.nStale }

theorem stepWith_nextId_ge (mc : Machine σ) (s : St σ) (m : Ev) : s.nextId ≤ (stepWith mc s m).nextId := by
  unfold stepWith
  simp only []
  split
  · simp
  · split
    · simp
    · split
      · simp
      · simp

theorem stepWith_ren (mc : Machine σ) (g : Nat → Nat) (rσ : σ → σ) (hg : StrictMonoOn g)
    (heq : Equivariant mc g rσ) (s : St σ) (m : Ev) (N' : Nat) (hfresh : ∀ j, g (s.nextId + j) = N' + j) :
    stepWith mc (renSt g rσ N' s) (renEv g m) =
      renSt g rσ (N' + ((stepWith mc s m).nextId - s.nextId)) (stepWith mc s m) := by
  have herase : (s.heap.map (renEv g)).erase (renEv g m) = (s.heap.erase m).map (renEv g) :=
    map_erase_inj (renEv g) (fun a b h => renEv_inj hg h) s.heap m
  have hmem : g m.id ∈ s.cancelled.map g ↔ m.id ∈ s.cancelled :=
    mem_map_inj g (fun a b h => hg.inj h) s.cancelled m.id
  have hid : (renEv g m).id = g m.id := rfl
  have htime : (renEv g m).time = m.time := rfl
  have hdaemon : (renEv g m).daemon = m.daemon := rfl
  by_cases hc : m.id ∈ s.cancelled
  · have hc2 := hmem.mpr hc
    simp [stepWith, renSt, herase, hid, htime, hdaemon, hc, hc2, List.map_append]
  · have hc2 : ¬ g m.id ∈ s.cancelled.map g := fun h => hc (hmem.mp h)
    by_cases hs : m.time < s.now
    · simp [stepWith, renSt, herase, hid, htime, hdaemon, hc, hc2, hs, List.map_append]
    · by_cases hcr : mc.crashed s.ent m = true
      · simp [stepWith, renSt, herase, hid, htime, hdaemon, hc, hc2, hs, hcr, heq.crashed, List.map_append]
      · have hmk := mkEvents_ren g s.nextId N' m.time (mc.handle s.ent m.time m).specs hfresh
        simp [stepWith, renSt, herase, hid, htime, hdaemon, hc, hc2, hs, hcr, heq.crashed, heq.handle,
              List.map_append, hmk, countPrimary_ren]

theorem step_ren (mc : Machine σ) (g : Nat → Nat) (rσ : σ → σ) (hg : StrictMonoOn g)
    (heq : Equivariant mc g rσ) (endT : Option Nat) (s : St σ) (N' : Nat)
    (hfresh : ∀ j, g (s.nextId + j) = N' + j) :
    step mc endT (renSt g rσ N' s) =
      (step mc endT s).map (fun s' => renSt g rσ (N' + (s'.nextId - s.nextId)) s') := by
  unfold step
  cases hh : s.heap with
  | nil => simp [renSt, hh]
  | cons x xs =>
    have hcont : continues endT (renSt g rσ N' s) = continues endT s := by
      simp [continues, renSt, hh]
    have hheap : (renSt g rσ N' s).heap = renEv g x :: xs.map (renEv g) := by simp [renSt, hh]
    simp only [hheap, hcont]
    split
    · simp only [Option.map_some, Option.some.injEq]
      rw [minOf_ren hg, stepWith_ren mc g rσ hg heq s _ N' hfresh]
    · simp

end HappyModel.C03
