import HappyProofs.C03.Exchange
/-!
# C03 — the coordinator's result is a function of the configuration and the initial events only

`Exchange.lean` shows that ONE barrier iteration does not depend on the order in which the worker threads
complete their windows.  Here this is composed over the whole run: `coordRunIn` is the coordinator loop of the
C05 model (`coordRun`) in which every window is executed with its own, arbitrary completion order — which is all
that the thread-pool size (`max_workers`) and host timing can influence in `WindowedCoordinator.run`.

* `coordRunIn_eq_coordRun` — for every sequence of completion orders (one per window, each naming every partition
  slot once) the final partition states are those of `coordRun`;
* `coordinator_deterministic` — hence any two schedules of the worker threads give the same result: the
  outcome is a function of handler, configuration, window ends and initial partitions only;
* `coordinator_worker_count_irrelevant` — in particular one worker (windows run one after another in
  declaration order) and any other schedule agree.
-/
namespace HappyModel.C03
open HappyModel.C05
set_option linter.unusedVariables false
set_option linter.unusedSimpArgs false

variable {σ : Type}

/-- the coordinator loop with an explicit completion order for every window: `(window end, order)` -/
def coordRunIn (h : Handler σ) (c : Cfg) (strict : Bool) (fuel : Nat) :
    List (Nat × List Nat) → List (Part σ) → List (Part σ)
  | [], ps => ps
  | (we, order) :: ws, ps => coordRunIn h c strict fuel ws (exchange c (execInOrder h c strict fuel we order ps))

theorem oneWindow_length (h : Handler σ) (c : Cfg) (strict : Bool) (fuel we : Nat) (ps : List (Part σ)) :
    (oneWindow h c strict fuel we ps).length = ps.length := by
  simp [oneWindow, exchange, execAll]

/-- every window's order names every partition slot exactly once -/
def ValidSchedule (sched : List (Nat × List Nat)) (n : Nat) : Prop := ∀ w ∈ sched, IsCompletionOrder w.2 n

/-- **the whole run is the model's `coordRun`, whatever the completion orders** -/
theorem coordRunIn_eq_coordRun (h : Handler σ) (c : Cfg) (strict : Bool) (fuel : Nat) :
    ∀ (sched : List (Nat × List Nat)) (ps : List (Part σ)), ValidSchedule sched ps.length →
      coordRunIn h c strict fuel sched ps = coordRun h c strict fuel (sched.map (·.1)) ps := by
  intro sched
  induction sched with
  | nil => intro ps _; rfl
  | cons w ws ih =>
    intro ps hv
    obtain ⟨we, order⟩ := w
    have ho : IsCompletionOrder order ps.length := hv (we, order) (by simp)
    have h1 := oneWindow_order_independent_of_completion h c strict fuel we order ps ho
    simp only [coordRunIn, List.map_cons, coordRun]
    rw [h1]
    apply ih
    intro w' hw'
    rw [oneWindow_length]
    exact hv w' (by simp [hw'])

/-- **coordinator_deterministic**: two runs over the same window ends give the same final partitions (heaps, clocks,
    delivery logs, outboxes, discards), whatever the two thread schedules were -/
theorem coordinator_deterministic (h : Handler σ) (c : Cfg) (strict : Bool) (fuel : Nat)
    (sched₁ sched₂ : List (Nat × List Nat)) (ps : List (Part σ))
    (hw : sched₁.map (·.1) = sched₂.map (·.1))
    (h₁ : ValidSchedule sched₁ ps.length) (h₂ : ValidSchedule sched₂ ps.length) :
    coordRunIn h c strict fuel sched₁ ps = coordRunIn h c strict fuel sched₂ ps := by
  rw [coordRunIn_eq_coordRun h c strict fuel sched₁ ps h₁, coordRunIn_eq_coordRun h c strict fuel sched₂ ps h₂, hw]

theorem range_isCompletionOrder (n : Nat) : IsCompletionOrder (List.range n) n :=
  ⟨List.nodup_range, fun j hj => List.mem_range.mpr hj⟩

/-- one worker thread (every window runs the partitions one after another in declaration order) and any other
    schedule of any number of workers agree -/
theorem coordinator_worker_count_irrelevant (h : Handler σ) (c : Cfg) (strict : Bool) (fuel : Nat)
    (sched : List (Nat × List Nat)) (ps : List (Part σ)) (hv : ValidSchedule sched ps.length) :
    coordRunIn h c strict fuel sched ps =
      coordRunIn h c strict fuel (sched.map (fun w => (w.1, List.range ps.length))) ps := by
  apply coordinator_deterministic
  · simp [List.map_map, Function.comp_def]
  · exact hv
  · intro w hw
    simp only [List.mem_map] at hw
    obtain ⟨w0, _, rfl⟩ := hw
    exact range_isCompletionOrder ps.length

/-- non-vacuity on the demo model of `Exchange.lean`: two windows, the senders finishing in opposite orders in the
    two schedules — same hub log; and the schedules are valid and different -/
example :
    ValidSchedule [(10, [1, 0, 2]), (20, [2, 1, 0])] demoParts.length ∧
    ValidSchedule [(10, [0, 1, 2]), (20, [0, 1, 2])] demoParts.length ∧
    ((coordRunIn demoHandler demoCfg true 10 [(10, [1, 0, 2]), (20, [2, 1, 0])] demoParts).map (·.log)) =
      ((coordRunIn demoHandler demoCfg true 10 [(10, [0, 1, 2]), (20, [0, 1, 2])] demoParts).map (·.log)) ∧
    ((coordRunIn demoHandler demoCfg true 10 [(10, [1, 0, 2]), (20, [2, 1, 0])] demoParts).map (fun p => p.log.length)) = [1, 1, 2] := by
  refine ⟨?_, ?_, by decide, by decide⟩
  · intro w hw
    simp at hw
    rcases hw with rfl | rfl <;> exact ⟨by decide, by decide⟩
  · intro w hw
    simp at hw
    rcases hw with rfl | rfl <;> exact ⟨by decide, by decide⟩

end HappyModel.C03
