import HappyModel.C05.Parallel
/-!
# C03 — the barrier exchange does not depend on the order in which partitions complete a window

`WindowedCoordinator.run` submits every partition's window to a thread pool and collects the results
with `as_completed()`: the *completion order* is wall-clock thread timing.  The model of C05
(`HappyModel/C05/Parallel.lean`) runs the windows with `execAll` (a `map`) and exchanges with
`exchange`, which walks the outboxes in partition **declaration** order (`allMsgs`).

Here the completion order is made explicit: `execInOrder order` runs the windows one after another in
the order `order` (any permutation of the partition positions), each writing its result back into its
own slot — a partition's window is a function of its own state.

* `execInOrder_eq_execAll` — for every completion order that covers every position once, the states after
  the EXECUTE phase are those of `execAll`;
* `exchange_order_independent_of_completion`, `oneWindow_order_independent_of_completion` — hence the
  exchange, and the whole coordinator iteration, are independent of the completion order;
* the seeded change that was missed by the checks (round 4, C03/m1) delivers the outboxes *in completion
  order* (`exchangeStaged`): `staged_exchange_depends_on_completion` is a decided witness that this changes
  the layout of the destination heap, and `staged_delivery_order_depends_on_completion` that the next
  window then delivers same-key events in a different order.
-/
namespace HappyModel.C03
open HappyModel.C05
set_option linter.unusedVariables false
set_option linter.unusedSimpArgs false

variable {σ : Type}

/-- run the window of the partition in slot `i` and store the result in the same slot -/
def execSlot (h : Handler σ) (c : Cfg) (strict : Bool) (fuel we : Nat) (ps : List (Part σ)) (i : Nat) :
    List (Part σ) :=
  match ps[i]? with
  | none => ps
  | some p => ps.set i (runWin h (c.route p.pid) strict we fuel p)

/-- EXECUTE phase with an explicit completion order -/
def execInOrder (h : Handler σ) (c : Cfg) (strict : Bool) (fuel we : Nat) (order : List Nat)
    (ps : List (Part σ)) : List (Part σ) :=
  order.foldl (execSlot h c strict fuel we) ps

theorem execSlot_length (h : Handler σ) (c : Cfg) (strict : Bool) (fuel we : Nat) (ps : List (Part σ)) (i : Nat) :
    (execSlot h c strict fuel we ps i).length = ps.length := by
  unfold execSlot; split <;> simp

theorem execSlot_get (h : Handler σ) (c : Cfg) (strict : Bool) (fuel we : Nat) (ps : List (Part σ)) (i j : Nat) :
    (execSlot h c strict fuel we ps i)[j]? =
      if j = i then (ps[j]?).map (fun p => runWin h (c.route p.pid) strict we fuel p) else ps[j]? := by
  unfold execSlot
  by_cases hji : j = i
  · subst hji
    cases hp : ps[j]? with
    | none => simp [hp]
    | some p =>
      have hlt : j < ps.length := (List.getElem?_eq_some_iff.mp hp).1
      simp [hp, List.getElem?_set, hlt]
  · cases hp : ps[i]? with
    | none => simp [hji]
    | some p =>
      have : ¬ i = j := fun h => hji h.symm
      simp [hji, List.getElem?_set, this]

/-- slot `j` after running the windows of the slots in `order` (no slot twice): run iff `j ∈ order` -/
theorem execInOrder_get (h : Handler σ) (c : Cfg) (strict : Bool) (fuel we : Nat) :
    ∀ (order : List Nat) (ps : List (Part σ)) (j : Nat), order.Nodup →
      (execInOrder h c strict fuel we order ps)[j]? =
        if j ∈ order then (ps[j]?).map (fun p => runWin h (c.route p.pid) strict we fuel p) else ps[j]? := by
  intro order
  induction order with
  | nil => intro ps j _; simp [execInOrder]
  | cons i rest ih =>
    intro ps j hnd
    have hnd' := List.nodup_cons.mp hnd
    have := ih (execSlot h c strict fuel we ps i) j hnd'.2
    unfold execInOrder at this ⊢
    simp only [List.foldl_cons]
    rw [this, execSlot_get]
    by_cases hji : j = i
    · subst hji
      simp [hnd'.1]
    · simp [hji]

theorem execAll_get (h : Handler σ) (c : Cfg) (strict : Bool) (fuel we : Nat) (ps : List (Part σ)) (j : Nat) :
    (execAll h c strict fuel we ps)[j]? = (ps[j]?).map (fun p => runWin h (c.route p.pid) strict we fuel p) := by
  simp [execAll]

/-- a completion order: every slot exactly once -/
def IsCompletionOrder (order : List Nat) (n : Nat) : Prop := order.Nodup ∧ ∀ j, j < n → j ∈ order

/-- **EXECUTE is independent of the completion order** -/
theorem execInOrder_eq_execAll (h : Handler σ) (c : Cfg) (strict : Bool) (fuel we : Nat) (order : List Nat)
    (ps : List (Part σ)) (ho : IsCompletionOrder order ps.length) :
    execInOrder h c strict fuel we order ps = execAll h c strict fuel we ps := by
  apply List.ext_getElem?
  intro j
  rw [execInOrder_get h c strict fuel we order ps j ho.1, execAll_get]
  by_cases hj : j < ps.length
  · simp [ho.2 j hj]
  · have : ps[j]? = none := by simp; omega
    simp [this]

/-- **the barrier exchange is independent of the completion order**: whatever order the worker threads
    finish in, the outboxes are walked in declaration order and every destination heap receives the
    same events in the same order -/
theorem exchange_order_independent_of_completion (h : Handler σ) (c : Cfg) (strict : Bool) (fuel we : Nat)
    (order₁ order₂ : List Nat) (ps : List (Part σ))
    (h₁ : IsCompletionOrder order₁ ps.length) (h₂ : IsCompletionOrder order₂ ps.length) :
    exchange c (execInOrder h c strict fuel we order₁ ps) = exchange c (execInOrder h c strict fuel we order₂ ps) := by
  rw [execInOrder_eq_execAll h c strict fuel we order₁ ps h₁, execInOrder_eq_execAll h c strict fuel we order₂ ps h₂]

/-- one coordinator iteration with an explicit completion order is the model's `oneWindow` -/
theorem oneWindow_order_independent_of_completion (h : Handler σ) (c : Cfg) (strict : Bool) (fuel we : Nat)
    (order : List Nat) (ps : List (Part σ)) (ho : IsCompletionOrder order ps.length) :
    exchange c (execInOrder h c strict fuel we order ps) = oneWindow h c strict fuel we ps := by
  rw [execInOrder_eq_execAll h c strict fuel we order ps ho]; rfl

/-! ### the seeded change: outboxes delivered in completion order -/

/-- all outbox entries in the order in which the partitions *completed* -/
def allMsgsIn (order : List Nat) (ps : List (Part σ)) : List Msg :=
  order.flatMap (fun i => match ps[i]? with | some p => msgsOf p | none => [])

/-- the exchange of the seeded change: staged per partition as it completes, delivered in that order -/
def exchangeStaged (c : Cfg) (order : List Nat) (ps : List (Part σ)) : List (Part σ) :=
  ps.map (inject c (allMsgsIn order ps))

/-- in declaration order the staged exchange is the real one -/
theorem exchangeStaged_declaration_order (c : Cfg) (ps : List (Part σ)) :
    exchangeStaged c (List.range ps.length) ps = exchange c ps := by
  have : allMsgsIn (List.range ps.length) ps = allMsgs ps := by
    induction ps with
    | nil => simp [allMsgsIn, allMsgs]
    | cons a l ih =>
      unfold allMsgsIn allMsgs at ih ⊢
      simp only [List.length_cons, List.range_succ_eq_map, List.flatMap_cons, List.flatMap_map]
      simp only [List.getElem?_cons_zero, List.getElem?_cons_succ]
      rw [ih]
  unfold exchangeStaged exchange
  rw [this]

/-- two senders (partitions 0 and 1) and a hub (partition 2): entity `k` lives in partition `k` -/
def demoCfg : Cfg := { partOf := #[0, 1, 2], nparts := 3, links := [⟨0, 2, 10⟩, ⟨1, 2, 10⟩] }

/-- a sender forwards every event to the hub with delay 10; the hub emits nothing -/
def demoHandler : Handler Unit := fun _ e => ((), if e.tgt = 2 then [] else [⟨10, 2, e.tgt + 7⟩])

/-- both senders hold one event for time 5 with the same creation index (each partition counts its own) -/
def demoParts : List (Part Unit) :=
  [Part.init 0 0 () [⟨5, 0, 0, 0⟩], Part.init 1 0 () [⟨5, 0, 1, 0⟩], Part.init 2 0 () []]

/-- after the window both outboxes hold an event for the hub at time 15 with the same key -/
example : (allMsgs (execAll demoHandler demoCfg true 10 10 demoParts)).map (fun m => (m.src, m.ev.time, m.ev.idx)) =
    [(0, 15, 0), (1, 15, 0)] := by decide

/-- delivering in completion order changes the layout of the hub's heap … -/
theorem staged_exchange_depends_on_completion :
    ((exchangeStaged demoCfg [0, 1, 2] (execAll demoHandler demoCfg true 10 10 demoParts)).map (·.heap)) ≠
    ((exchangeStaged demoCfg [1, 0, 2] (execAll demoHandler demoCfg true 10 10 demoParts)).map (·.heap)) := by
  decide

/-- … and the hub then delivers the two same-key events in a different order in the next window -/
theorem staged_delivery_order_depends_on_completion :
    ((execAll demoHandler demoCfg true 10 20
        (exchangeStaged demoCfg [0, 1, 2] (execAll demoHandler demoCfg true 10 10 demoParts))).map (·.log)) ≠
    ((execAll demoHandler demoCfg true 10 20
        (exchangeStaged demoCfg [1, 0, 2] (execAll demoHandler demoCfg true 10 10 demoParts))).map (·.log)) := by
  decide

/-- non-vacuity of the positive theorem on the same model: both completion orders are completion orders,
    and the real exchange gives the hub the events in declaration order -/
example : IsCompletionOrder [1, 0, 2] demoParts.length ∧ IsCompletionOrder [0, 1, 2] demoParts.length ∧
    ((exchange demoCfg (execInOrder demoHandler demoCfg true 10 10 [1, 0, 2] demoParts)).map (·.heap)) =
      [[], [], [⟨15, 0, 2, 7⟩, ⟨15, 0, 2, 8⟩]] := by
  refine ⟨⟨by decide, by decide⟩, ⟨by decide, by decide⟩, by decide⟩

end HappyModel.C03
