import HappyProofs.C01.Inv
/-!
# C03 — the run does not depend on the layout of the heap

The engine model keeps the pending events in a list and pops the `(time, id)`-minimum.  The *order* in
which events sit in that list (insertion order, `heapq`'s internal layout, the order in which a
coordinator injected them) is process history that must not be observable: with distinct creation
indices the minimum is unique, so two states that differ only by a permutation of the heap make the
same pops, deliver the same events in the same order and end with permuted heaps —
`run_independent_of_heap_layout`, for every handler, every end time, every run length.
-/
namespace HappyModel.C03
open HappyModel.C01
set_option linter.unusedVariables false
set_option linter.unusedSimpArgs false

variable {σ : Type}

/-- the same state with the pending events laid out as `h` -/
def withHeap (s : St σ) (h : List Ev) : St σ := { s with heap := h }

/-- with distinct creation indices the popped minimum does not depend on the layout -/
theorem minOf_perm {x y : Ev} {xs ys : List Ev} (hp : (x :: xs).Perm (y :: ys))
    (hn : ((x :: xs).map (·.id)).Nodup) : minOf x xs = minOf y ys := by
  have ⟨hm, hmin⟩ := pop_is_min x xs
  have ⟨hm', hmin'⟩ := pop_is_min y ys
  have hm'l : minOf y ys ∈ x :: xs := hp.symm.subset hm'
  have hml' : minOf x xs ∈ y :: ys := hp.subset hm
  have h1 := hmin (minOf y ys) hm'l        -- keyLt m' m = false
  have h2 := hmin' (minOf x xs) hml'       -- keyLt m m' = false
  by_cases hid : (minOf x xs).id = (minOf y ys).id
  · exact id_inj_of_nodup hn hm hm'l hid
  · have := keyLt_of_not hid h2
    rw [this] at h1; cases h1

theorem continues_withHeap (endT : Option Nat) (s : St σ) (h' : List Ev) (hp : s.heap.Perm h') :
    continues endT (withHeap s h') = continues endT s := by
  have : h'.isEmpty = s.heap.isEmpty := by
    have hl := hp.length_eq
    cases hs : s.heap <;> cases hh : h' <;> simp [hs, hh] at hl ⊢
  unfold continues withHeap
  simp [this]

/-- one loop body on a permuted heap: the same state with a permuted heap -/
theorem stepWith_withHeap (mc : Machine σ) (s : St σ) (h' : List Ev) (hp : s.heap.Perm h') (e : Ev) :
    ∃ h1, stepWith mc (withHeap s h') e = withHeap (stepWith mc s e) h1 ∧ (stepWith mc s e).heap.Perm h1 := by
  have hpe : (s.heap.erase e).Perm (h'.erase e) := hp.erase e
  by_cases hc : e.id ∈ s.cancelled
  · exact ⟨h'.erase e, by simp [stepWith, withHeap, hc], by simpa [stepWith, hc] using hpe⟩
  · by_cases hs : e.time < s.now
    · exact ⟨h'.erase e, by simp [stepWith, withHeap, hc, hs], by simpa [stepWith, hc, hs] using hpe⟩
    · by_cases hg : mc.crashed s.ent e = true
      · exact ⟨h'.erase e, by simp [stepWith, withHeap, hc, hs, hg], by simpa [stepWith, hc, hs, hg] using hpe⟩
      · refine ⟨h'.erase e ++ mkEvents s.nextId e.time (mc.handle s.ent e.time e).specs,
          by simp [stepWith, withHeap, hc, hs, hg], ?_⟩
        simpa [stepWith, hc, hs, hg] using hpe.append_right _

theorem step_withHeap (mc : Machine σ) (endT : Option Nat) (s : St σ) (h' : List Ev)
    (hn : (s.heap.map (·.id)).Nodup) (hp : s.heap.Perm h') :
    (step mc endT s = none ∧ step mc endT (withHeap s h') = none) ∨
    ∃ s1 h1, step mc endT s = some s1 ∧ step mc endT (withHeap s h') = some (withHeap s1 h1) ∧ s1.heap.Perm h1 := by
  have hcont := continues_withHeap endT s h' hp
  cases hs : s.heap with
  | nil =>
    left
    rw [hs] at hp
    have : h' = [] := hp.symm.eq_nil
    subst this
    simp [step, withHeap, hs]
  | cons x xs =>
    cases hh : h' with
    | nil => rw [hs, hh] at hp; have := hp.eq_nil; simp at this
    | cons y ys =>
      subst hh
      have hmin : minOf x xs = minOf y ys := by
        apply minOf_perm
        · rw [← hs]; exact hp
        · rw [← hs]; exact hn
      have hstep' : step mc endT (withHeap s (y :: ys)) =
          if continues endT (withHeap s (y :: ys)) = true
          then some (stepWith mc (withHeap s (y :: ys)) (minOf y ys)) else none := rfl
      have hstep : step mc endT s =
          if continues endT s = true then some (stepWith mc s (minOf x xs)) else none := by
        simp [step, hs]
      rw [hstep', hstep, hcont, ← hmin]
      by_cases hc : continues endT s = true
      · right
        obtain ⟨h1, e1, p1⟩ := stepWith_withHeap mc s (y :: ys) hp (minOf x xs)
        exact ⟨stepWith mc s (minOf x xs), h1, by simp [hc], by simp [hc, e1], p1⟩
      · left
        simp [hc]

/-- **the layout theorem**: permute the pending events of a well-formed state in any way — the run makes
    the same pops: same deliveries in the same order, same clock, same counters; only the layout of the
    remaining heap may differ (and is again a permutation) -/
theorem run_independent_of_heap_layout (mc : Machine σ) (endT : Option Nat) (n : Nat) (s : St σ) (inv : Inv s)
    (h' : List Ev) (hp : s.heap.Perm h') :
    ∃ h1, run mc endT n (withHeap s h') = withHeap (run mc endT n s) h1 ∧ (run mc endT n s).heap.Perm h1 := by
  induction n generalizing s h' with
  | zero => exact ⟨h', by simp [run], by simpa [run] using hp⟩
  | succ n ih =>
    rcases step_withHeap mc endT s h' inv.nodup hp with ⟨e1, e2⟩ | ⟨s1, h1, e1, e2, p1⟩
    · exact ⟨h', by simp [run, e1, e2], by simpa [run, e1] using hp⟩
    · have inv1 : Inv s1 := by
        have := run_inv mc endT 1 s inv
        simpa [run, e1] using this
      obtain ⟨h2, r2, p2⟩ := ih s1 inv1 h1 p1
      exact ⟨h2, by simp [run, e1, e2, r2], by simpa [run, e1] using p2⟩

/-- in particular the delivery log, every pop with its verdict, the clock and the counters are equal -/
theorem log_independent_of_heap_layout (mc : Machine σ) (endT : Option Nat) (n : Nat) (s : St σ) (inv : Inv s)
    (h' : List Ev) (hp : s.heap.Perm h') :
    (run mc endT n (withHeap s h')).log = (run mc endT n s).log ∧
    (run mc endT n (withHeap s h')).popped = (run mc endT n s).popped ∧
    (run mc endT n (withHeap s h')).now = (run mc endT n s).now ∧
    (run mc endT n (withHeap s h')).processed = (run mc endT n s).processed := by
  obtain ⟨h1, r, _⟩ := run_independent_of_heap_layout mc endT n s inv h' hp
  rw [r]; simp [withHeap]

/-- non-vacuity: three pending events with a tie at time 5, laid out in two different orders -/
example :
    let mc : Machine Unit := { handle := fun _ now e => { ent := (), specs := if e.kind = 0 then [⟨now + 2, 0, 1, false, 0, 0⟩] else [] } }
    let s : St Unit := init () 0 [⟨5, 0, 0, false, 0, 0⟩, ⟨5, 1, 0, false, 0, 0⟩, ⟨3, 2, 1, false, 0, 0⟩]
    s.heap.Perm s.heap.reverse ∧ s.heap ≠ s.heap.reverse ∧
    (run mc (some 10) 10 (withHeap s s.heap.reverse)).log = (run mc (some 10) 10 s).log ∧
    (run mc (some 10) 10 s).log.length = 5 := by
  refine ⟨(List.reverse_perm _).symm, by decide, by decide, by decide⟩

end HappyModel.C03
