import HappyProofs.C03.Rename
import HappyProofs.C03.Layout
import HappyProofs.C03.Exchange
import HappyProofs.C03.Coordinator
import HappyModel.C03.Spec
/-!
# C03 — property theorems

"Building the same model with the same seeds and running it yields the identical sequence of
(time, event type, target) deliveries and identical component statistics, regardless of which other
simulations were built or run earlier in the process, of the interpreter's hash randomisation, and of
wall-clock time."

What Lean carries: every model in this project is a *function* of its explicit inputs, so "same
inputs ⇒ same run" is reflexivity (`run_ignores_foreign_state`).  The non-trivial part is that the one
piece of process history that does reach the engine — how far the global creation counter had
advanced when the model's events were created — is not observable:

* `run_index_shift` — rename the creation indices of a state by any strictly monotone `g` that maps the
  fresh region `nextId + j` to `N' + j` (i.e. start the counter anywhere above): for every handler
  that is equivariant under the renaming, the run from the renamed state is the renamed run — same
  deliveries in the same order, same clock, same counters;
* `index_shift_extend` — the same, phrased for an arbitrary strictly monotone renumbering `f` of the
  existing indices and any `N'` above its values;
* `run_id_shift_const` — the special case "all indices shifted by a constant `k`";
* `observable_log_counter_independent` — for handlers that never look at ids: the sequence of
  (time, target, kind, data, tag) deliveries is *equal*.

* `run_independent_of_heap_layout`, `log_independent_of_heap_layout` (file `Layout.lean`) — the run depends on the
  pending events as a *multiset* with their `(time, index)` keys, not on the order in which they sit in the heap;
* `exchange_order_independent_of_completion`, `oneWindow_order_independent_of_completion` (file `Exchange.lean`, on the
  C05 coordinator model) — the barrier exchange does not depend on the order in which worker threads complete a
  window; `staged_exchange_depends_on_completion` / `staged_delivery_order_depends_on_completion` are decided witnesses
  that delivering outboxes in completion order (the seeded change of round 4) does.

Hash randomisation, uuid4, wall clock and `id()` are not in any model: the cross-environment digests
(`hv/props/c03.py`) decide them, judged by `Holds` (`judge_none_iff_holds`).
-/
namespace HappyModel.C03
open HappyModel.C01
set_option linter.unusedVariables false
set_option linter.unusedSimpArgs false

variable {σ : Type}

theorem step_nextId_ge {mc : Machine σ} {endT : Option Nat} {s s' : St σ} (h : step mc endT s = some s') :
    s.nextId ≤ s'.nextId := by
  unfold step at h
  split at h
  · simp at h
  · split at h
    · simp at h; subst h; exact stepWith_nextId_ge mc s _
    · simp at h

/-- the run commutes with the renaming (the counter of the renamed run is `N'` plus what was created) -/
theorem run_ren (mc : Machine σ) (g : Nat → Nat) (rσ : σ → σ) (hg : StrictMonoOn g)
    (heq : Equivariant mc g rσ) (endT : Option Nat) (n : Nat) (s : St σ) (N' : Nat)
    (hfresh : ∀ j, g (s.nextId + j) = N' + j) :
    run mc endT n (renSt g rσ N' s) =
      renSt g rσ (N' + ((run mc endT n s).nextId - s.nextId)) (run mc endT n s) := by
  induction n generalizing s N' with
  | zero => simp [run]
  | succ n ih =>
    unfold run
    rw [step_ren mc g rσ hg heq endT s N' hfresh]
    cases hs : step mc endT s with
    | none => simp
    | some s' =>
      simp only [Option.map_some]
      have hge := step_nextId_ge hs
      have hfresh' : ∀ j, g (s'.nextId + j) = N' + (s'.nextId - s.nextId) + j := by
        intro j
        have := hfresh ((s'.nextId - s.nextId) + j)
        rw [show s.nextId + (s'.nextId - s.nextId + j) = s'.nextId + j by omega] at this
        omega
      rw [ih s' _ hfresh']
      congr 1
      have : s'.nextId ≤ (run mc endT n s').nextId := by
        clear ih hfresh' hs hge
        induction n generalizing s' with
        | zero => simp [run]
        | succ n ih2 =>
          unfold run
          cases hs2 : step mc endT s' with
          | none => simp
          | some s'' => exact Nat.le_trans (step_nextId_ge hs2) (ih2 s'')
      omega

/-- **index shift**: nothing observable depends on how far the creation counter had advanced -/
theorem run_index_shift (mc : Machine σ) (g : Nat → Nat) (rσ : σ → σ) (hg : StrictMonoOn g)
    (heq : Equivariant mc g rσ) (endT : Option Nat) (n : Nat) (s : St σ) (N' : Nat)
    (hfresh : ∀ j, g (s.nextId + j) = N' + j) :
    (run mc endT n (renSt g rσ N' s)).log = (run mc endT n s).log.map (renEv g) ∧
    (run mc endT n (renSt g rσ N' s)).now = (run mc endT n s).now ∧
    (run mc endT n (renSt g rσ N' s)).processed = (run mc endT n s).processed ∧
    (run mc endT n (renSt g rσ N' s)).nCancelled = (run mc endT n s).nCancelled ∧
    (run mc endT n (renSt g rσ N' s)).nStale = (run mc endT n s).nStale ∧
    (run mc endT n (renSt g rσ N' s)).ent = rσ (run mc endT n s).ent := by
  rw [run_ren mc g rσ hg heq endT n s N' hfresh]
  simp [renSt]

/-- an arbitrary strictly monotone renumbering `f` of the indices below `n`, continued at `N'` -/
def extend (f : Nat → Nat) (n N' : Nat) (i : Nat) : Nat := if i < n then f i else N' + (i - n)

theorem extend_mono (f : Nat → Nat) (n N' : Nat) (hf : ∀ a b, a < b → b < n → f a < f b)
    (hN : ∀ a, a < n → f a < N') : StrictMonoOn (extend f n N') := by
  intro a b hab
  unfold extend
  by_cases ha : a < n <;> by_cases hb : b < n <;> simp [ha, hb]
  · exact hf a b hab hb
  · have := hN a ha; omega
  · omega
  · omega

theorem extend_fresh (f : Nat → Nat) (n N' j : Nat) : extend f n N' (n + j) = N' + j := by
  unfold extend
  have : ¬ n + j < n := by omega
  simp [this]

/-- the statement in the property's words: renumber the creation indices of the pending events by any
    strictly monotone map and start the counter anywhere above them — the delivery log is the same up
    to that renumbering -/
theorem index_shift_extend (mc : Machine σ) (rσ : σ → σ) (s : St σ) (f : Nat → Nat) (N' : Nat)
    (hf : ∀ a b, a < b → b < s.nextId → f a < f b) (hN : ∀ a, a < s.nextId → f a < N')
    (heq : Equivariant mc (extend f s.nextId N') rσ) (endT : Option Nat) (n : Nat) :
    (run mc endT n (renSt (extend f s.nextId N') rσ N' s)).log =
      (run mc endT n s).log.map (renEv (extend f s.nextId N')) :=
  (run_index_shift mc _ rσ (extend_mono f s.nextId N' hf hN) heq endT n s N'
    (extend_fresh f s.nextId N')).1

/-- special case: every index shifted by a constant -/
theorem run_id_shift_const (mc : Machine σ) (k : Nat) (rσ : σ → σ) (heq : Equivariant mc (· + k) rσ)
    (endT : Option Nat) (n : Nat) (s : St σ) :
    (run mc endT n (renSt (· + k) rσ (s.nextId + k) s)).log = (run mc endT n s).log.map (renEv (· + k)) := by
  refine (run_index_shift mc (· + k) rσ ?_ heq endT n s (s.nextId + k) ?_).1
  · intro a b hab; show a + k < b + k; omega
  · intro j; show s.nextId + j + k = s.nextId + k + j; omega

/-- a handler that never looks at creation indices: same output whatever the id, cancels nothing -/
structure IdOblivious (mc : Machine σ) : Prop where
  handle : ∀ ent now e i, mc.handle ent now { e with id := i } = mc.handle ent now e
  nocancel : ∀ ent now e, (mc.handle ent now e).cancels = []
  crashed : ∀ ent e i, mc.crashed ent { e with id := i } = mc.crashed ent e

theorem IdOblivious.equivariant {mc : Machine σ} (h : IdOblivious mc) (g : Nat → Nat) :
    Equivariant mc g id := by
  refine ⟨?_, ?_⟩
  · intro ent now e
    have h1 := h.handle ent now e (g e.id)
    have h2 := h.nocancel ent now e
    simp only [id, renEv, h1, h2, List.map_nil]
    cases hh : mc.handle ent now e
    simp [hh] at h2
    simp [h2]
  · intro ent e
    exact h.crashed ent e (g e.id)

/-- what a user observes of a delivery: (time, target, event type, payload, tag) — not the index -/
def obs (e : Ev) : Nat × Nat × Nat × Nat × Nat := (e.time, e.target, e.kind, e.data, e.tag)

theorem obs_ren (g : Nat → Nat) (e : Ev) : obs (renEv g e) = obs e := rfl

/-- for handlers that do not read ids, the observable delivery sequence is *equal*, wherever the
    creation counter stood when the model was built -/
theorem observable_log_counter_independent (mc : Machine σ) (ho : IdOblivious mc) (s : St σ)
    (f : Nat → Nat) (N' : Nat) (hf : ∀ a b, a < b → b < s.nextId → f a < f b)
    (hN : ∀ a, a < s.nextId → f a < N') (endT : Option Nat) (n : Nat) :
    (run mc endT n (renSt (extend f s.nextId N') id N' s)).log.map obs = (run mc endT n s).log.map obs := by
  rw [index_shift_extend mc id s f N' hf hN (ho.equivariant _) endT n]
  simp [List.map_map, Function.comp_def, obs_ren]

/-- **by construction**: the model's run is a function of the engine state alone — whatever else
    exists in the interpreter (`w`, `w'`: other simulations, counters, wall clock, hash seed) cannot
    influence it.  This is reflexivity; it is recorded because it is exactly the part of C03 that the
    *implementation* has to earn, and that the cross-environment digests check. -/
theorem run_ignores_foreign_state {W : Type} (proj : W → St σ) (mc : Machine σ) (endT : Option Nat)
    (n : Nat) (w w' : W) (h : proj w = proj w') : run mc endT n (proj w) = run mc endT n (proj w') := by
  rw [h]

/-! ### the judge is the predicate -/

theorem differs_false_iff (a b : Obs) : differs a b = false ↔ (a.sha = b.sha ∧ a.len = b.len) := by
  unfold differs; simp

theorem judge_none_iff_holds (obs : List Obs) : judge obs = none ↔ Holds obs := by
  unfold judge
  constructor
  · intro h
    have hnone : obs.find? (bad obs) = none := by
      cases hf : obs.find? (bad obs) with
      | none => rfl
      | some o =>
        rw [hf] at h
        simp only [] at h
        have hb := List.find?_some hf
        unfold bad at hb
        cases hfo : firstOf obs o.scen with
        | none => rw [hfo] at hb; simp at hb
        | some f => rw [hfo] at h; simp at h
    rw [List.find?_eq_none] at hnone
    -- every observation agrees with the baseline of its scenario
    have base : ∀ a ∈ obs, ∃ f, firstOf obs a.scen = some f ∧ f.sha = a.sha ∧ f.len = a.len := by
      intro a ha
      cases hfa : firstOf obs a.scen with
      | none =>
        unfold firstOf at hfa
        rw [List.find?_eq_none] at hfa
        have := hfa a ha
        simp at this
      | some f =>
        have hb := hnone a ha
        unfold bad at hb
        rw [hfa] at hb
        simp only [] at hb
        have : differs f a = false := by
          cases hd : differs f a with
          | false => rfl
          | true => rw [hd] at hb; simp at hb
        exact ⟨f, rfl, (differs_false_iff f a).mp this⟩
    intro a ha b hb hab
    obtain ⟨fa, hfa, h1, h2⟩ := base a ha
    obtain ⟨fb, hfb, h3, h4⟩ := base b hb
    rw [hab] at hfa
    rw [hfa] at hfb
    simp at hfb
    subst hfb
    exact ⟨h1.symm.trans h3, h2.symm.trans h4⟩
  · intro h
    have hnone : obs.find? (bad obs) = none := by
      rw [List.find?_eq_none]
      intro o ho
      unfold bad
      cases hfo : firstOf obs o.scen with
      | none => simp
      | some f =>
        simp only []
        have hfm : f ∈ obs := List.mem_of_find?_eq_some hfo
        have hfs := List.find?_some hfo
        simp at hfs
        have := h f hfm o ho hfs
        have hd := (differs_false_iff f o).mpr this
        simp [hd]
    rw [hnone]

/-! ### non-vacuity -/

/-- an id-oblivious handler with ties between pre-run and in-run events: the renumbered state
    (indices 0,1,2 ↦ 10,20,30, counter at 100) delivers the same observable sequence -/
example :
    let mc : Machine Unit :=
      { handle := fun _ now e => { ent := (), specs := if e.kind = 0 then [⟨now + 1, 0, 9, false, 0, 0⟩] else [] } }
    let s := init () 0 [⟨1, 0, 0, false, 0, 0⟩, ⟨2, 0, 1, false, 0, 0⟩, ⟨2, 0, 2, false, 0, 0⟩]
    let f : Nat → Nat := fun i => 10 * (i + 1)
    (run mc (some 10) 10 (renSt (extend f s.nextId 100) id 100 s)).log.map (·.id) = [10, 20, 30, 100] ∧
    (run mc (some 10) 10 s).log.map (·.id) = [0, 1, 2, 3] ∧
    (run mc (some 10) 10 (renSt (extend f s.nextId 100) id 100 s)).log.map obs = (run mc (some 10) 10 s).log.map obs := by
  decide

example : Holds [⟨0, "queues", "inproc", "ab", 7⟩, ⟨0, "queues", "sub-h1", "ab", 7⟩, ⟨1, "sync", "inproc", "cd", 9⟩] := by decide
example : ¬ Holds [⟨0, "sketching", "inproc", "ab", 7⟩, ⟨0, "sketching", "sub-h1", "ff", 7⟩] := by decide

end HappyModel.C03
