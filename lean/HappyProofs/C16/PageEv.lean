import HappyProofs.C16.PageFrames
/-!
C16 / PageCache — pages leave the repaired cache only through counted evictions: over every segment
`pages_cached + evictions` does not fall and rises by at most one (the one page a segment may insert).
-/
namespace HappyModel.C16.Page

/-- cached pages + evictions so far = pages ever inserted -/
def ins (s : St) : Nat := s.pages.length + s.ev

theorem raLoop_ev (cfg : Cfg) (idx p : Nat) : ∀ (n i : Nat) (s : St), (raLoop cfg idx p n i s).1.ev = s.ev := by
  intro n
  induction n with
  | zero => intro i s; rfl
  | succ n ih =>
    intro i s
    unfold raLoop
    split
    · rfl
    · exact ih (i + 1) s

theorem readAhead_ins (cfg : Cfg) (idx p i : Nat) (s : St) : ins (readAhead cfg idx p i s).1 = ins s := by
  unfold ins
  rw [(readAhead_frame cfg idx p i s).1]
  unfold readAhead
  rw [raLoop_ev]

theorem flushNextR_ev (idx : Nat) : ∀ (rest : List Nat) (n : Nat) (s : St), (flushNextR s idx rest n).1.ev = s.ev := by
  intro rest
  induction rest with
  | nil => intro n s; rfl
  | cons p rest ih =>
    intro n s
    unfold flushNextR
    split
    · rfl
    · exact ih n s

theorem flushNextR_ins (idx : Nat) (rest : List Nat) (n : Nat) (s : St) : ins (flushNextR s idx rest n).1 = ins s := by
  unfold ins
  rw [(flushNextR_frame idx rest n s).1, flushNextR_ev]

@[simp] theorem touch_ev (s : St) (p : Nat) : (s.touch p).ev = s.ev := by
  unfold St.touch; split <;> (try split) <;> rfl
@[simp] theorem assign_ev (s : St) (p : Nat) (d : Bool) : (s.assign p d).ev = s.ev := by
  unfold St.assign; split <;> rfl
@[simp] theorem setDirty_ev (s : St) (p : Nat) (d : Bool) : (s.setDirty p d).ev = s.ev := by
  unfold St.setDirty; split <;> rfl

theorem ensure_ins (cfg : Cfg) (hr : cfg.rep = true) : ∀ (fuel : Nat) (s : St), ins (ensure cfg fuel s).1 = ins s := by
  intro fuel
  induction fuel with
  | zero => intro s; rfl
  | succ n ih =>
    intro s
    unfold ensure
    split
    · rfl
    · split
      · rfl
      · rename_i q qs hp
        split
        · simp only [ins, hp, List.length_cons]; omega
        · rw [ih]; simp only [ins, hp, List.length_cons]; omega

/-- `lo ≤ hi ≤ lo + 1` -/
def Grow (s s' : St) : Prop := ins s ≤ ins s' ∧ ins s' ≤ ins s + 1

theorem grow_of_eq {s s' : St} (h : ins s' = ins s) : Grow s s' := by unfold Grow; omega

theorem afterRoom_grow (cfg : Cfg) (s : St) (idx : Nat) (k : Cont) (hk : ∀ p, k = .ins p → has s.pages p = false) :
    Grow s (afterRoom cfg s idx k).1 := by
  cases k with
  | load p => exact grow_of_eq rfl
  | ins p =>
    simp only [afterRoom]
    unfold Grow
    rw [readAhead_ins]
    have hh := hk p rfl
    unfold ins
    simp only [assign_ev]
    unfold St.assign
    simp [hh]; omega
  | write p =>
    simp only [afterRoom]
    unfold Grow ins
    simp only [assign_ev]
    by_cases hh : has s.pages p = true
    · rw [assign_length_present s p true hh]; omega
    · unfold St.assign; simp [hh]; omega

theorem withRoom_grow (cfg : Cfg) (hr : cfg.rep = true) (s : St) (idx : Nat) (k : Cont) :
    Grow s (withRoom cfg s idx k).1 := by
  have key : (∀ p, k = .ins p → has s.pages p = false) →
      Grow s (match ensure cfg (s.pages.length + 1) s with
        | (s1, none) => afterRoom cfg s1 idx k
        | (s1, some v) => (s1.setPend idx (.evict v k), none)).1 := by
    intro hk
    have h1 := ensure_ins cfg hr (s.pages.length + 1) s
    have hh := fun p => ensure_has_false cfg p (s.pages.length + 1) s
    generalize ensure cfg (s.pages.length + 1) s = r at *
    obtain ⟨s1, o⟩ := r
    cases o with
    | none =>
      have := afterRoom_grow cfg s1 idx k (fun p hp => hh p (hk p hp))
      unfold Grow at this ⊢
      simp only at h1 ⊢
      omega
    | some v =>
      simp only at h1 ⊢
      exact grow_of_eq h1
  cases k with
  | ins p =>
    simp only [withRoom]
    split
    · exact grow_of_eq (readAhead_ins cfg idx p 1 s)
    · rename_i hh
      exact key (fun q hq => by cases hq; simpa using hh)
  | load p => simp only [withRoom]; exact key (fun q hq => by cases hq)
  | write p => simp only [withRoom]; exact key (fun q hq => by cases hq)

theorem step_grow (cfg : Cfg) (hr : cfg.rep = true) (s : St) (a : Act) : Grow s (step cfg s a).1 := by
  cases a with
  | start i op =>
    cases op with
    | read p =>
      simp only [step, start]
      split
      · apply grow_of_eq; unfold ins; simp [touch_length]
      · exact withRoom_grow cfg hr { s with misses := s.misses + 1 } i (.load p)
    | write p =>
      simp only [step, start]
      split
      · apply grow_of_eq; unfold ins; simp [touch_length, setDirty_length]
      · exact withRoom_grow cfg hr { s with misses := s.misses + 1 } i (.write p)
    | flush =>
      simp only [step, start, hr, if_true]
      exact grow_of_eq (flushNextR_ins i _ 0 s)
  | resume i =>
    simp only [step]
    cases findPend s.pend i with
    | none => exact grow_of_eq rfl
    | some pd =>
      simp only
      cases pd with
      | evict v k =>
        simp only [resume, hr, if_true]
        exact withRoom_grow cfg hr { s with pend := erasePend s.pend i, dwb := s.dwb + 1 } i k
      | disk p =>
        simp only [resume, hr, if_true]
        exact withRoom_grow cfg hr { s with pend := erasePend s.pend i } i (.ins p)
      | ahead p j =>
        simp only [resume, hr, if_true]
        split
        · rename_i hc
          have hab : has s.pages (p + j) = false := by simp at hc; exact hc.1
          unfold Grow
          rw [readAhead_ins]
          unfold ins St.assign
          simp [hab]; omega
        · exact grow_of_eq (readAhead_ins cfg i p (j + 1) _)
      | flushC p g rest stamp n =>
        simp only [resume, hr, if_true]
        exact grow_of_eq rfl
      | flushR p rest n =>
        simp only [resume, hr, Bool.not_true, Bool.false_eq_true, if_false]
        split
        · apply grow_of_eq
          rw [flushNextR_ins]
          unfold ins
          simp [setDirty_length]
        · exact grow_of_eq (flushNextR_ins i rest n _)

end HappyModel.C16.Page
