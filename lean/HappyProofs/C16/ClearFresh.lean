import HappyModel.C16.Policies
/-!
C16 — `clear()` (what `invalidate_all()` calls) leaves a policy exactly as new.

Every policy keeps per-key state next to its key collection (reference bits, frequencies, segment
membership, ghost queue, logical clock, insertion readings).  If `clear` forgot any of it, keys
re-inserted afterwards would be mis-tracked (held by the cache, unknown to the policy).  In the model
`clear` yields the state the constructor yields, so a call sequence containing a `clear` behaves,
from that call on, like the rest of the sequence on a fresh policy — whatever came before.
-/
namespace HappyModel.C16

/-- no call changes what `clear` would produce (the construction parameters — TTL, sample size —
    are never touched) -/
theorem Pol.step_clear (p : Pol) (op : POp) : (p.step op).2.clear = p.clear := by
  cases p <;> cases op <;>
    simp [Pol.step, Pol.access, Pol.insert, Pol.remove, Pol.evict, Pol.clear]
  case ttl.insert s k now => simp [TTL.insert]
  case ttl.remove s k => simp [TTL.remove]
  case ttl.evict s now pick => unfold TTL.evict; split <;> simp
  case sampled.access s k => unfold Sampled.access; split <;> simp
  case sampled.insert s k now => simp [Sampled.insert]
  case sampled.remove s k => simp [Sampled.remove]
  case sampled.evict s now pick => unfold Sampled.evict; split <;> simp

theorem Pol.run_clear (p : Pol) (ops : List POp) : (Pol.run p ops).clear = p.clear := by
  induction ops generalizing p with
  | nil => rfl
  | cons o os ih => simp only [Pol.run]; rw [ih, Pol.step_clear]

/-- a policy as constructed is its own cleared state -/
theorem Pol.ofName_clear (name : String) (arg : Nat) (p0 : Pol) (h0 : Pol.ofName name arg = some p0) :
    p0.clear = p0 := by
  unfold Pol.ofName at h0
  split at h0 <;> first | (injection h0 with h; subst h; rfl) | cases h0

theorem Pol.run_append (p : Pol) (xs ys : List POp) : Pol.run p (xs ++ ys) = Pol.run (Pol.run p xs) ys := by
  induction xs generalizing p with
  | nil => rfl
  | cons o os ih => simp only [List.cons_append, Pol.run]; exact ih _

end HappyModel.C16
