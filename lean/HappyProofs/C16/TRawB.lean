import HappyProofs.C16.TRawA
import HappyProofs.C16.TierSeq
/-!
Multi-tier read-after-write over every interleaving, part 2: the invariant.

A `put` / `delete` of the multi-tier cache reaches the backing store in its *second* segment and
invalidates the tiers right there; until then (`BPm`) the tiers and the backing store may still hold
what the write is about to replace.  So every tier cache entry and every backing-store value is
`Fresh` against the started writes whose backing-store write has happened (`MVI.c`, `MVI.b`); the
writes completed before a `get` is issued are among them.  A value read from a lower tier is promoted
into L1 only if the key's epoch is unchanged and nothing is in flight — then every started write had
completed before the read was issued (`MPI.tg`), and the value is fresh against all of them.
-/
namespace HappyModel.C16.Tier
open HappyModel.C16

/-- the key a pending continuation will still write to the backing store before the tiers are
    invalidated -/
def mbwKey : MPend → Option Key
  | .putBack k _ => some k
  | .delBack k => some k
  | _ => none

/-- the key a pending continuation keeps "in flight" -/
def inflKey : MPend → Option Key
  | .putBack k _ => some k
  | .putL1 k => some k
  | .delBack k => some k
  | _ => none

theorem inflKey_of_mbwKey {p : MPend} {k : Key} (h : mbwKey p = some k) : inflKey p = some k := by
  cases p <;> simp [mbwKey] at h <;> simp [inflKey, h]

def BPm (ms : MSt) (k : Key) (j : Nat) : Prop := ∃ p, (j, p) ∈ ms.pend ∧ mbwKey p = some k
def InFl (ms : MSt) (k : Key) (j : Nat) : Prop := ∃ p, (j, p) ∈ ms.pend ∧ inflKey p = some k
def inflCount (pend : List (Nat × MPend)) (k : Key) : Nat :=
  (pend.filter fun x => inflKey x.2 == some k).length

/-- the continuations a tier holds: reads, and on L1 the write-through `put` of a multi-tier `put`
    that has not completed -/
def TP (g : Gh) (t : Nat) (s : St) : Prop :=
  ∀ x ∈ s.pend, x.1 ∈ g.started ∧
    ((∃ v, x.2 = Pend.getHit v) ∨ (∃ k e, x.2 = Pend.getMiss k e) ∨
     (∃ k v, x.2 = Pend.putWT k v ∧ t = 0 ∧ (x.1, OpK.put k v) ∈ g.ops ∧ endIdx g.evs x.1 = none))

structure MVI (g : Gh) (ms : MSt) : Prop where
  c : ∀ (t : Nat) (s : St), ms.tiers[t]? = some s → ∀ k v, aget? s.cache k = some v →
        Fresh g k (some v) (fun j => ¬ BPm ms k j)
  b : ∀ k, Fresh g k (aget? ms.back k) (fun j => ¬ BPm ms k j)
  d : ∀ (t : Nat) (s : St), ms.tiers[t]? = some s → s.dirty = []
  tp : ∀ (t : Nat) (s : St), ms.tiers[t]? = some s → TP g t s

structure MPI (g : Gh) (ms : MSt) : Prop where
  pendS : ∀ x ∈ ms.pend, x.1 ∈ g.started ∧ endIdx g.evs x.1 = none
  pendND : (ms.pend.map (·.1)).Nodup
  infl : ∀ k, cnt ms.infl k = inflCount ms.pend k
  pb : ∀ i k v, (i, MPend.putBack k v) ∈ ms.pend → (i, OpK.put k v) ∈ g.ops
  pl : ∀ i k, (i, MPend.putL1 k) ∈ ms.pend → ∃ v, (i, OpK.put k v) ∈ g.ops
  db : ∀ i k, (i, MPend.delBack k) ∈ ms.pend → (i, OpK.del k) ∈ g.ops
  dr : ∀ i t, (i, MPend.direct t) ∈ ms.pend → ∀ k, (i, OpK.get k) ∉ g.ops
  tg : ∀ i t k e, (i, MPend.tierGet t k e) ∈ ms.pend → (i, OpK.get k) ∈ g.ops ∧
        ∃ rs rh, firstIdx g.evs i = some rs ∧ rs ≤ rh ∧ rh ≤ g.evs.length ∧ e ≤ cnt ms.epoch k ∧
          (e = cnt ms.epoch k → ∀ j op, j ∈ g.started → (j, op) ∈ g.ops → wk op = some k →
            CompletedBefore g.evs j rh ∨ InFl ms k j) ∧
          ∀ (s : St) (q : Pend), ms.tiers[t]? = some s → (i, q) ∈ s.pend →
            ∃ v, q = Pend.getHit v ∧ Fresh g k (some v) (fun j => CompletedBefore g.evs j rh)
  bg : ∀ i k e, (i, MPend.backGet k e) ∈ ms.pend → (i, OpK.get k) ∈ g.ops ∧
        ∃ rs, firstIdx g.evs i = some rs ∧
          Fresh g k (aget? ms.back k) (fun j => CompletedBefore g.evs j rs)

/-- a started write is in flight or has completed; `ex` = the id that is completing right now -/
def LimboX (g : Gh) (ms : MSt) (ex : Option Nat) : Prop :=
  ∀ j op k, j ∈ g.started → (j, op) ∈ g.ops → wk op = some k →
    InFl ms k j ∨ (endIdx g.evs j).isSome ∨ ex = some j

abbrev Limbo (g : Gh) (ms : MSt) : Prop := LimboX g ms none

theorem Limbo.elim {g : Gh} {ms : MSt} (h : Limbo g ms) {j : Nat} {op : OpK} {k : Key} (hj : j ∈ g.started)
    (hm : (j, op) ∈ g.ops) (hk : wk op = some k) : InFl ms k j ∨ (endIdx g.evs j).isSome := by
  rcases h j op k hj hm hk with h' | h' | h'
  · exact Or.inl h'
  · exact Or.inr h'
  · cases h'

/-- `Fresh.anti` looking only at the writes of the key -/
theorem Fresh.anti' {g : Gh} {k : Key} {v : Option Nat} {P P' : Nat → Prop}
    (hP : ∀ j op, j ∈ g.started → (j, op) ∈ g.ops → wk op = some k → P' j → P j) (h : Fresh g k v P) :
    Fresh g k v P' := by
  rcases h with ⟨i, op, hi, hm, hw, hall⟩ | ⟨hv, hall⟩
  · exact Or.inl ⟨i, op, hi, hm, hw, fun j op' hj hjm hk hp => hall j op' hj hjm hk (hP j op' hj hjm hk hp)⟩
  · exact Or.inr ⟨hv, fun j op' hj hjm hk hp => hall j op' hj hjm hk (hP j op' hj hjm hk hp)⟩

/-- one generic way to re-establish the value invariant: `K` is the key (if any) whose set of
    writes-yet-to-reach-the-backing-store may have shrunk; values of other keys are old ones -/
theorem mvi_update {g : Gh} {ms ms' : MSt} (h : MVI g ms) (K : Option Key)
    (hbp : ∀ k j, K ≠ some k → BPm ms k j → BPm ms' k j)
    (hc : ∀ (t : Nat) (s' : St) x w, ms'.tiers[t]? = some s' → aget? s'.cache x = some w →
      (K ≠ some x ∧ ∃ (t0 : Nat) (s : St), ms.tiers[t0]? = some s ∧ aget? s.cache x = some w) ∨
      (K ≠ some x ∧ aget? ms.back x = some w) ∨
      Fresh g x (some w) (fun j => ¬ BPm ms' x j))
    (hb : ∀ x, (K ≠ some x ∧ aget? ms'.back x = aget? ms.back x) ∨
      Fresh g x (aget? ms'.back x) (fun j => ¬ BPm ms' x j))
    (hd : ∀ (t : Nat) (s' : St), ms'.tiers[t]? = some s' → s'.dirty = [])
    (htp : ∀ (t : Nat) (s' : St), ms'.tiers[t]? = some s' → TP g t s') : MVI g ms' where
  c := by
    intro t s' hs x w hw
    rcases hc t s' x w hs hw with ⟨hK, t0, s, hs0, hw0⟩ | ⟨hK, hw0⟩ | hf
    · exact (h.c t0 s hs0 x w hw0).anti (fun j _ hn hbj => hn (hbp x j hK hbj))
    · have := h.b x
      rw [hw0] at this
      exact this.anti (fun j _ hn hbj => hn (hbp x j hK hbj))
    · exact hf
  b := by
    intro x
    rcases hb x with ⟨hK, e⟩ | hf
    · rw [e]; exact (h.b x).anti (fun j _ hn hbj => hn (hbp x j hK hbj))
    · exact hf
  d := hd
  tp := htp

/-! ### tier lists -/

theorem getElem?_set_cases {α} {l : List α} {t t' : Nat} {a x : α} (h : (l.set t a)[t']? = some x) :
    (t' = t ∧ x = a) ∨ (t' ≠ t ∧ l[t']? = some x) := by
  rw [List.getElem?_set] at h
  by_cases e : t = t'
  · rw [if_pos e] at h
    split at h
    · cases h; exact Or.inl ⟨e.symm, rfl⟩
    · cases h
  · rw [if_neg e] at h
    exact Or.inr ⟨fun e' => e e'.symm, h⟩

theorem onTier_cases (cfg : MCfg) (ms : MSt) (t : Nat) (f : Cfg → St → St × Option Res) :
    (∃ c s, cfg.tiers[t]? = some c ∧ ms.tiers[t]? = some s ∧
      onTier cfg ms t f = ({ ms with tiers := ms.tiers.set t (f c (plug s ms.back)).1, back := (f c (plug s ms.back)).1.back }, (f c (plug s ms.back)).2)) ∨
    onTier cfg ms t f = (ms, none) := by
  cases ec : cfg.tiers[t]? with
  | none => exact Or.inr (onTier_none cfg ms t f (Or.inl ec))
  | some c =>
    cases es : ms.tiers[t]? with
    | none => exact Or.inr (onTier_none cfg ms t f (Or.inr es))
    | some s => exact Or.inl ⟨c, s, rfl, rfl, onTier_eq cfg ms t f c s ec es⟩

/-- what a sweep (`invalidate(k)` / `invalidate_all()` on every tier from index `lo` on) leaves -/
structure Swept (op : OpK) (lo n : Nat) (ss ss' : List St) : Prop where
  len : ss'.length = ss.length
  at_ : ∀ (t : Nat) (s' : St), ss'[t]? = some s' → ∃ s : St, ss[t]? = some s ∧ s'.dirty = [] ∧ s'.pend = s.pend ∧
    (∀ x w, aget? s'.cache x = some w → aget? s.cache x = some w) ∧
    (lo ≤ t → t < n → (∀ k, op = .inv k → k ∉ akeys s'.cache) ∧ (op = .invAll → s'.cache = []))

theorem sweepL_nb (op : OpK) (hop : (∃ k, op = .inv k) ∨ op = .invAll) :
    ∀ (cs : List Cfg) (ss : List St) (b : List (Key × Nat)), (∀ s ∈ ss, s.dirty = []) →
      (sweepL op cs ss b).2 = b ∧ Swept op 0 cs.length ss (sweepL op cs ss b).1 := by
  intro cs
  induction cs with
  | nil =>
    intro ss b hd
    have e : sweepL op [] ss b = (ss, b) := by unfold sweepL; rfl
    rw [e]
    exact ⟨rfl, rfl, fun t s' hs => ⟨s', hs, hd s' (List.mem_of_getElem? hs), rfl, fun _ _ h => h,
      fun _ hlt => absurd hlt (Nat.not_lt_zero _)⟩⟩
  | cons c cs ih =>
    intro ss b hd
    cases ss with
    | nil =>
      have e : sweepL op (c :: cs) [] b = ([], b) := by unfold sweepL; rfl
      rw [e]
      exact ⟨rfl, rfl, fun t s' hs => by simp at hs⟩
    | cons s ss =>
      have hds : s.dirty = [] := hd s List.mem_cons_self
      have hpl : (plug s b).dirty = [] := hds
      -- the head tier
      have hhead : TStep (plug s b) (start c (plug s b) 0 op 0).1 none ∧
          (start c (plug s b) 0 op 0).1.pend = s.pend ∧
          ((∀ k, op = .inv k → k ∉ akeys (start c (plug s b) 0 op 0).1.cache) ∧
           (op = .invAll → (start c (plug s b) 0 op 0).1.cache = [])) := by
        rcases hop with ⟨k, rfl⟩ | rfl
        · obtain ⟨t, p, hk⟩ := startInv_nb c (plug s b) 0 k 0 hpl
          exact ⟨t, p, (fun k' e => by cases e; exact hk), (fun e => by cases e)⟩
        · obtain ⟨t, p, hk⟩ := startInvAll_nb c (plug s b) 0 0 hpl
          exact ⟨t, p, (fun k' e => by cases e), (fun _ => hk)⟩
      obtain ⟨ht, hp, hcl⟩ := hhead
      have hb1 : (start c (plug s b) 0 op 0).1.back = b := ht.back
      have e : sweepL op (c :: cs) (s :: ss) b =
          ((start c (plug s b) 0 op 0).1 :: (sweepL op cs ss (start c (plug s b) 0 op 0).1.back).1,
           (sweepL op cs ss (start c (plug s b) 0 op 0).1.back).2) := by
        conv => lhs; unfold sweepL
      rw [e, hb1]
      obtain ⟨h1, h2⟩ := ih ss b (fun s' hs' => hd s' (List.mem_cons_of_mem _ hs'))
      refine ⟨h1, by simp [h2.len], ?_⟩
      intro t s' hs
      cases t with
      | zero =>
        simp only [List.getElem?_cons_zero, Option.some.injEq] at hs
        subst hs
        exact ⟨s, rfl, ht.dirty, hp, fun x w hw => (ht.cache x w hw).elim id (fun e => by cases e),
          fun _ _ => hcl⟩
      | succ t =>
        simp only [List.getElem?_cons_succ] at hs
        obtain ⟨s0, hs0, a1, a2, a3, a4⟩ := h2.at_ t s' hs
        exact ⟨s0, by simpa using hs0, a1, a2, a3, fun _ hlt => a4 (Nat.zero_le _) (by simpa using hlt)⟩

theorem sweep_nb (cfg : MCfg) (ms : MSt) (op : OpK) (hop : (∃ k, op = .inv k) ∨ op = .invAll)
    (hd : ∀ (t : Nat) (s : St), ms.tiers[t]? = some s → s.dirty = []) :
    (ms.sweep cfg op).back = ms.back ∧ Swept op 0 cfg.tiers.length ms.tiers (ms.sweep cfg op).tiers := by
  have := sweepL_nb op hop cfg.tiers ms.tiers ms.back (fun s hs => by
    obtain ⟨t, ht, e⟩ := List.getElem_of_mem hs
    exact hd t s (by rw [List.getElem?_eq_getElem ht, e]))
  exact ⟨this.1, this.2⟩

theorem sweepL_nil_right (op : OpK) (cs : List Cfg) (b : List (Key × Nat)) : sweepL op cs [] b = ([], b) := by
  cases cs <;> (unfold sweepL; rfl)

theorem sweepLow_list (op : OpK) (hop : (∃ k, op = .inv k) ∨ op = .invAll) (cs : List Cfg) (ss : List St)
    (b : List (Key × Nat)) (hd : ∀ s ∈ ss, s.dirty = []) :
    (sweepL op (cs.drop 1) (ss.drop 1) b).2 = b ∧
      Swept op 1 cs.length ss (ss.take 1 ++ (sweepL op (cs.drop 1) (ss.drop 1) b).1) := by
  cases ss with
  | nil =>
    rw [List.drop_nil, List.take_nil, List.nil_append, sweepL_nil_right]
    exact ⟨rfl, rfl, fun t s' hs => by simp at hs⟩
  | cons s0 rest =>
    simp only [List.drop_succ_cons, List.drop_zero, List.take_succ_cons, List.take_zero]
    obtain ⟨h1, h2⟩ := sweepL_nb op hop (cs.drop 1) rest b (fun s hs => hd s (List.mem_cons_of_mem _ hs))
    refine ⟨h1, by rw [List.length_append, h2.len]; simp; omega, ?_⟩
    intro t s' hs
    cases t with
    | zero =>
      simp only [List.cons_append, List.nil_append, List.getElem?_cons_zero, Option.some.injEq] at hs
      subst hs
      exact ⟨s0, rfl, hd s0 List.mem_cons_self, rfl, fun _ _ h => h, fun h1 _ => by omega⟩
    | succ t =>
      simp only [List.cons_append, List.nil_append, List.getElem?_cons_succ] at hs
      obtain ⟨s1, hs1, a1, a2, a3, a4⟩ := h2.at_ t s' hs
      refine ⟨s1, by simpa using hs1, a1, a2, a3, fun _ hn => a4 (Nat.zero_le _) ?_⟩
      rw [List.length_drop]; omega

theorem sweepLow_nb (cfg : MCfg) (ms : MSt) (op : OpK) (hop : (∃ k, op = .inv k) ∨ op = .invAll)
    (hd : ∀ (t : Nat) (s : St), ms.tiers[t]? = some s → s.dirty = []) :
    (ms.sweepLow cfg op).back = ms.back ∧ Swept op 1 cfg.tiers.length ms.tiers (ms.sweepLow cfg op).tiers := by
  have := sweepLow_list op hop cfg.tiers ms.tiers ms.back (fun s hs => by
    obtain ⟨t, ht, e⟩ := List.getElem_of_mem hs
    exact hd t s (by rw [List.getElem?_eq_getElem ht, e]))
  exact ⟨this.1, this.2⟩

end HappyModel.C16.Tier
