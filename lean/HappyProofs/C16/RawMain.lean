import HappyProofs.C16.RawStep
/-!
Read-after-write over every interleaving, part 9: the invariant along a whole schedule, from the
initial store, and the judge's verdict on the observed log (`raw_judge`).
-/
namespace HappyModel.C16

/-- the ids of the first segments in a schedule -/
def startIds (as : List Act) : List Nat :=
  as.filterMap fun a => match a with | .start i _ _ => some i | _ => none

/-- the log of a schedule, for any way `mk` of rendering an observation that keeps the operation id
and the returned result -/
def obsRunG (mk : Nat → St → Option Res → Obs) (cfg : Cfg) (s : St) : List Act → List Obs
  | [] => []
  | a :: as => mk (actId a) (step cfg s a).1 (step cfg s a).2 :: obsRunG mk cfg (step cfg s a).1 as

/-- a schedule that may follow context `g` -/
structure AdmAll (g : Gh) (as : List Act) : Prop where
  nd : (startIds as).Nodup
  fresh : ∀ i ∈ startIds as, i ∉ g.started
  tab : ∀ i op now, Act.start i op now ∈ as →
    ∃ op', (i, op') ∈ g.ops ∧ ((∃ o1 o2, op' = .flush o1 ∧ op = .flush o2) ∨ op' = op)

theorem startIds_cons_start (i : Nat) (op : OpK) (now : Nat) (as : List Act) :
    startIds (.start i op now :: as) = i :: startIds as := rfl
theorem startIds_cons_resume (i : Nat) (now : Nat) (as : List Act) :
    startIds (.resume i now :: as) = startIds as := rfl

theorem raw_run (cfg : Cfg) (hrep : cfg.rep = true) (mk : Nat → St → Option Res → Obs)
    (hmi : ∀ i s r, (mk i s r).i = i) (hmr : ∀ i s r, (mk i s r).res = r) :
    ∀ (as : List Act) (g : Gh) (s : St), RInvA g s → AdmAll g as →
      ∃ g', g'.ops = g.ops ∧ g'.evs = g.evs ++ obsRunG mk cfg s as ∧ RInvA g' (run cfg s as) := by
  intro as
  induction as with
  | nil => intro g s h _; exact ⟨g, rfl, by simp [obsRunG], h⟩
  | cons a as ih =>
    intro g s h hadm
    have hstep := raw_step cfg hrep h a (by
      intro i op now e
      subst e
      exact ⟨hadm.fresh i (by rw [startIds_cons_start]; exact List.mem_cons_self),
        hadm.tab i op now List.mem_cons_self⟩)
      (mk (actId a) (step cfg s a).1 (step cfg s a).2) (hmi _ _ _) (hmr _ _ _)
    have hadm' : AdmAll (g.ext (mk (actId a) (step cfg s a).1 (step cfg s a).2) (newIds a)) as := by
      cases a with
      | start i op now =>
        have hnd := hadm.nd
        rw [startIds_cons_start, List.nodup_cons] at hnd
        refine ⟨hnd.2, ?_, fun j op' now' hj => hadm.tab j op' now' (List.mem_cons_of_mem _ hj)⟩
        intro j hj
        simp only [Gh.ext, newIds, List.mem_append, List.mem_singleton, not_or]
        refine ⟨hadm.fresh j (by rw [startIds_cons_start]; exact List.mem_cons_of_mem _ hj), ?_⟩
        intro e; subst e; exact hnd.1 hj
      | resume i now =>
        refine ⟨hadm.nd, ?_, fun j op' now' hj => hadm.tab j op' now' (List.mem_cons_of_mem _ hj)⟩
        intro j hj
        simp only [Gh.ext, newIds, List.append_nil]
        exact hadm.fresh j hj
    obtain ⟨g', h1, h2, h3⟩ := ih _ _ hstep hadm'
    refine ⟨g', h1, ?_, h3⟩
    rw [h2]
    simp [Gh.ext, obsRunG]

/-- the invariant holds initially -/
theorem rinvA_init (ops : List (Nat × OpK)) (hnd : (ops.map (·.1)).Nodup) (p : Pol) :
    RInvA ⟨ops, [], []⟩ { pol := p } := by
  refine ⟨⟨hnd, ?_, ?_, ?_⟩, ⟨?_, ?_, ?_, ?_, ?_⟩, ⟨?_, ?_, ?_, ?_⟩⟩
  · intro i hi; cases hi
  · intro i _; rfl
  · intro i k rs re _ hs; simp [firstIdx] at hs
  · intro x hx; cases hx
  · exact List.nodup_nil
  · intro k; rfl
  · intro x hx; cases hx
  · intro i v hm; cases hm
  · intro k hk; cases hk
  · intro k v hv; simp [aget?] at hv
  · intro k _
    exact Or.inr ⟨rfl, fun j _ hj => by cases hj⟩
  · intro i k e hm; cases hm

/-- **read after write, every interleaving**: whatever the schedule of segments, the judge's read
clause accepts the observed log of the repaired store -/
theorem raw_judge (cfg : Cfg) (hrep : cfg.rep = true) (mk : Nat → St → Option Res → Obs)
    (hmi : ∀ i s r, (mk i s r).i = i) (hmr : ∀ i s r, (mk i s r).res = r)
    (ops : List (Nat × OpK)) (hnd : (ops.map (·.1)).Nodup) (p : Pol) (as : List Act)
    (hadm : AdmAll ⟨ops, [], []⟩ as) :
    judgeReads cfg ops (obsRunG mk cfg { pol := p } as) = none := by
  obtain ⟨g', h1, h2, h3⟩ := raw_run cfg hrep mk hmi hmr as _ _ (rinvA_init ops hnd p) hadm
  simp only [List.nil_append] at h1 h2
  have := judgeReads_none (cfg := cfg) h3.gi.d
  rw [h1, h2] at this
  exact this

end HappyModel.C16
