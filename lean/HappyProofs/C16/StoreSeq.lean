import HappyProofs.C16.StoreInv
import HappyProofs.C16.StoreWBA
import HappyProofs.C16.StoreSeqA
/-!
`read_after_write` for schedules in which operations do not overlap (every operation runs all its
segments before the next one starts), repaired variant, both write modes, every policy: the store
behaves like a map — every `get` returns the value of the latest `put` of its key, or nothing after
a `delete` / before any `put`.  (Overlapping schedules are judged by the Spec on every run of the
correspondence check but are not covered by this theorem.)
-/
namespace HappyModel.C16

/-- resume operation `i` until it reports a result (a flush needs one resume per dirty key) -/
def resumeAll (cfg : Cfg) : Nat → St → Nat → Nat → St × Option Res
  | 0, s, _, _ => (s, none)
  | fuel + 1, s, i, now =>
    match s.pend.find? (·.1 == i) with
    | none => (s, none)
    | some (_, p) =>
      match (resume cfg s i p now).2 with
      | some r => ((resume cfg s i p now).1, some r)
      | none => resumeAll cfg fuel (resume cfg s i p now).1 i now

/-- run one operation to completion, nothing else in between -/
def execOp (cfg : Cfg) (s : St) (i : Nat) (op : OpK) (now : Nat) : St × Option Res :=
  match (start cfg s i op now).2 with
  | some r => ((start cfg s i op now).1, some r)
  | none =>
    resumeAll cfg ((match op with | .flush order => order.length | _ => 0) + 2) (start cfg s i op now).1 i now

/-- the map the store is supposed to implement -/
def absStep (M : List (Key × Nat)) : OpK → List (Key × Nat)
  | .put k v => aset M k v
  | .del k => adel M k
  | _ => M

def expected (M : List (Key × Nat)) (k : Key) : Res :=
  match aget? M k with
  | some v => .val v
  | none => .none

/-- every get of a sequential script returns what the map holds -/
def SeqOk (cfg : Cfg) : St → List (Key × Nat) → Nat → List (OpK × Nat) → Prop
  | _, _, _, [] => True
  | s, M, i, (op, now) :: rest =>
    (match op with
     | .get k => (execOp cfg s i op now).2 = some (expected M k)
     | _ => True) ∧
    SeqOk cfg (execOp cfg s i op now).1 (absStep M op) (i + 1) rest

/-- what links the store to the map between operations -/
structure RInv (cfg : Cfg) (s : St) (M : List (Key × Nat)) : Prop where
  sinv : SInv cfg s
  idle : s.pend = []
  noInfl : ∀ k, cnt s.infl k = 0
  dirtyCached : ∀ x, x ∈ s.dirty → x ∈ akeys s.cache
  cacheOk : ∀ k v, aget? s.cache k = some v → aget? M k = some v
  backOk : ∀ k, k ∉ s.dirty → aget? s.back k = aget? M k
  wtClean : cfg.wt = true → s.dirty = []

theorem rinv_init (cfg : Cfg) (name : String) (arg : Nat) (p : Pol) (hp : Pol.ofName name arg = some p) :
    RInv cfg { pol := p } [] := by
  refine ⟨init_inv cfg name arg p hp, rfl, fun k => rfl, ?_, ?_, fun k _ => rfl, fun _ => rfl⟩
  · intro x hx; simp at hx
  · intro k v h; simp [aget?] at h

/-! ### running the segments of one operation -/

/-- continue an operation whose last segment returned `r` -/
def finish (cfg : Cfg) (fuel : Nat) (i now : Nat) (r : St × Option Res) : St × Option Res :=
  match r.2 with
  | some x => (r.1, some x)
  | none => resumeAll cfg fuel r.1 i now

theorem resumeAll_set (cfg : Cfg) (fuel : Nat) (X : St) (i : Nat) (p : Pend) (now : Nat) (hX : X.pend = []) :
    resumeAll cfg (fuel + 1) (X.setPend i p) i now
      = finish cfg fuel i now (resume cfg (X.setPend i p) i p now) := by
  unfold resumeAll
  rw [sq_find_set X i p hX]
  rfl

/-- an operation that yields once: its first segment pends `p`, its second one returns `r` -/
theorem exec_two (cfg : Cfg) (hcap : 1 ≤ cfg.cap) (s : St) (i : Nat) (op : OpK) (now : Nat) (X : St) (p : Pend)
    (r : Res) (t : St) (e : execOp cfg s i op now = finish cfg (1 + 1) i now (start cfg s i op now))
    (hst : start cfg s i op now = (X.setPend i p, none)) (hX : X.pend = [])
    (hres : resume cfg (X.setPend i p) i p now = (t, some r)) (h : SInv cfg s) :
    execOp cfg s i op now = (t, some r) ∧ SInv cfg t := by
  constructor
  · rw [e, hst]
    show resumeAll cfg (1 + 1) (X.setPend i p) i now = _
    rw [resumeAll_set cfg 1 X i p now hX, hres]
    rfl
  · have h1 := start_inv cfg hcap s i op now h
    rw [hst] at h1
    have h2 := resume_inv cfg hcap (X.setPend i p) i p now h1
    rw [hres] at h2
    exact h2

/-- an operation that does not yield -/
theorem exec_one (cfg : Cfg) (hcap : 1 ≤ cfg.cap) (s : St) (i : Nat) (op : OpK) (now : Nat) (r : Res) (t : St)
    (f : Nat) (e : execOp cfg s i op now = finish cfg f i now (start cfg s i op now))
    (hst : start cfg s i op now = (t, some r)) (h : SInv cfg s) :
    execOp cfg s i op now = (t, some r) ∧ SInv cfg t := by
  constructor
  · rw [e, hst]; rfl
  · have h1 := start_inv cfg hcap s i op now h
    rw [hst] at h1
    exact h1

theorem RInv.q {cfg : Cfg} {s : St} {M : List (Key × Nat)} (h : RInv cfg s M) : Q M s :=
  ⟨h.dirtyCached, h.cacheOk, h.backOk⟩

theorem rinv_of {cfg : Cfg} {t : St} {M : List (Key × Nat)} (hs : SInv cfg t) (hp : t.pend = [])
    (hi : ∀ k, cnt t.infl k = 0) (hq : Q M t) (hw : cfg.wt = true → t.dirty = []) : RInv cfg t M :=
  ⟨hs, hp, hi, hq.dirtyCached, hq.cacheOk, hq.backOk, hw⟩

theorem nil_of_sub {d d' : List Key} (h : ∀ x, x ∈ d → x ∈ d') (hd : d' = []) : d = [] := by
  cases d with
  | nil => rfl
  | cons a t => have := h a (by simp); rw [hd] at this; simp at this

theorem mem_setAdd_iff (l : List Key) (k x : Key) : x ∈ setAdd l k ↔ x ∈ l ∨ x = k := by
  unfold setAdd
  split
  · rename_i hk
    constructor
    · exact Or.inl
    · rintro (h | h)
      · exact h
      · exact h ▸ hk
  · simp

/-! ### one lemma per operation -/

theorem exec_get (cfg : Cfg) (hrep : cfg.rep = true) (hcap : 1 ≤ cfg.cap) (s : St) (M : List (Key × Nat))
    (i : Nat) (k : Key) (now : Nat) (h : RInv cfg s M) :
    RInv cfg (execOp cfg s i (.get k) now).1 M ∧ (execOp cfg s i (.get k) now).2 = some (expected M k) := by
  have e : execOp cfg s i (.get k) now = finish cfg (1 + 1) i now (start cfg s i (.get k) now) := rfl
  cases hc : aget? s.cache k with
  | some v =>
    have hst : start cfg s i (.get k) now = ({ s with pol := s.pol.access k }.setPend i (.getHit v), none) := by
      simp only [start, hc]
    have hX : ({ s with pol := s.pol.access k } : St).pend = [] := h.idle
    have hres : resume cfg ({ s with pol := s.pol.access k }.setPend i (.getHit v)) i (.getHit v) now
        = ({ s with pol := s.pol.access k }, some (.val v)) := by
      simp only [resume, sq_clear_set _ _ _ hX]
    have ⟨e1, hs⟩ := exec_two cfg hcap s i _ now _ _ _ _ e hst hX hres h.sinv
    rw [e1]
    refine ⟨rinv_of hs hX h.noInfl h.q h.wtClean, ?_⟩
    simp only [expected, h.cacheOk k v hc]
  | none =>
    have hkd : k ∉ s.dirty := fun hx => (aget?_none_iff _ _).mp hc (h.dirtyCached k hx)
    have hb := h.backOk k hkd
    have hst : start cfg s i (.get k) now = (s.setPend i (.getMiss k (cnt s.epoch k)), none) := by
      simp only [start, hc]
    cases hbk : aget? s.back k with
    | none =>
      have hres : resume cfg (s.setPend i (.getMiss k (cnt s.epoch k))) i (.getMiss k (cnt s.epoch k)) now
          = (s, some .none) := by
        simp only [resume, sq_clear_set _ _ _ h.idle, hbk]
      have ⟨e1, _⟩ := exec_two cfg hcap s i _ now _ _ _ _ e hst h.idle hres h.sinv
      rw [e1]
      refine ⟨h, ?_⟩
      rw [hbk] at hb
      simp only [expected, ← hb]
    | some x =>
      have hres : resume cfg (s.setPend i (.getMiss k (cnt s.epoch k))) i (.getMiss k (cnt s.epoch k)) now
          = (cachePut cfg s k x now, some (.val x)) := by
        simp [resume, sq_clear_set _ _ _ h.idle, hbk, St.fillAllowed, h.noInfl k]
      have ⟨e1, hs⟩ := exec_two cfg hcap s i _ now _ _ _ _ e hst h.idle hres h.sinv
      rw [e1]
      rw [hbk] at hb
      obtain ⟨c, d, b, hq, hsub, ec, ed, eb, ep, ei, _⟩ := cachePut_q cfg hrep s k x now h.q
      refine ⟨rinv_of hs (ep.trans h.idle) (by rw [ei]; exact h.noInfl) ?_ ?_, ?_⟩
      · show QD M _ _ _
        rw [ec, ed, eb]
        exact qd_set hq hb.symm (fun _ _ => rfl) (fun _ hx => Or.inl hx) (fun _ _ hx => hx) (fun _ _ => rfl)
          (fun hk => (hq.backOk k hk).trans hb.symm)
      · intro hw; rw [ed]; exact nil_of_sub hsub (h.wtClean hw)
      · simp only [expected, ← hb]

theorem exec_put (cfg : Cfg) (hrep : cfg.rep = true) (hcap : 1 ≤ cfg.cap) (s : St) (M : List (Key × Nat))
    (i : Nat) (k v : Nat) (now : Nat) (h : RInv cfg s M) :
    RInv cfg (execOp cfg s i (.put k v) now).1 (aset M k v) := by
  have e : execOp cfg s i (.put k v) now = finish cfg (1 + 1) i now (start cfg s i (.put k v) now) := rfl
  have hq0 : Q M (s.bump cfg k) := by
    show QD M _ _ _
    rw [wb_bump_cache, wb_bump_dirty, sq_bump_back]; exact h.q
  obtain ⟨c, d, b, hq, hsub, ec, ed, eb, ep, ei, _⟩ := cachePut_q cfg hrep (s.bump cfg k) k v now hq0
  rw [wb_bump_pend] at ep
  rw [sq_bump_infl] at ei
  rw [wb_bump_dirty] at hsub
  generalize hu : cachePut cfg (s.bump cfg k) k v now = u at ec ed eb ep ei
  by_cases hwt : cfg.wt = true
  · have hst : start cfg s i (.put k v) now = ((u.inflInc cfg k).setPend i (.putWT k v), none) := by
      simp only [start, hwt, if_true, hu]
    have hX : (u.inflInc cfg k).pend = [] := by rw [wb_inflInc_pend, ep]; exact h.idle
    have hres : resume cfg ((u.inflInc cfg k).setPend i (.putWT k v)) i (.putWT k v) now
        = ({ u.inflInc cfg k with back := aset (u.inflInc cfg k).back k v }.inflDec cfg k, some .none) := by
      simp only [resume, sq_clear_set _ _ _ hX]
    have ⟨e1, hs⟩ := exec_two cfg hcap s i _ now _ _ _ _ e hst hX hres h.sinv
    rw [e1]
    refine rinv_of hs ?_ ?_ ?_ ?_
    · rw [wb_inflDec_pend]; exact hX
    · exact sq_noInfl_incdec cfg u _ k rfl (by rw [ei]; exact h.noInfl)
    · show QD _ _ _ _
      rw [sq_inflDec_cache, wb_inflDec_dirty, sq_inflDec_back]
      show QD _ (u.inflInc cfg k).cache (u.inflInc cfg k).dirty (aset (u.inflInc cfg k).back k v)
      rw [sq_inflInc_cache, wb_inflInc_dirty, wb_inflInc_back, ec, ed, eb]
      exact qd_set hq (wb_aget?_aset_self _ _ _) (fun x hx => wb_aget?_aset_other _ _ _ _ hx)
        (fun _ hx => Or.inl hx) (fun _ _ hx => hx) (fun x hx => wb_aget?_aset_other _ _ _ _ hx)
        (fun _ => wb_aget?_aset_self _ _ _)
    · intro hw
      rw [wb_inflDec_dirty]
      show (u.inflInc cfg k).dirty = []
      rw [wb_inflInc_dirty, ed]; exact nil_of_sub hsub (h.wtClean hw)
  · have hst : start cfg s i (.put k v) now = ({ u with dirty := setAdd u.dirty k }.setPend i .putWB, none) := by
      simp only [start, hwt, hu]; rfl
    have hX : ({ u with dirty := setAdd u.dirty k } : St).pend = [] := ep.trans h.idle
    have hres : resume cfg ({ u with dirty := setAdd u.dirty k }.setPend i .putWB) i .putWB now
        = ({ u with dirty := setAdd u.dirty k }, some .none) := by
      simp only [resume, sq_clear_set _ _ _ hX]
    have ⟨e1, hs⟩ := exec_two cfg hcap s i _ now _ _ _ _ e hst hX hres h.sinv
    rw [e1]
    refine rinv_of hs hX ?_ ?_ (fun hw => absurd hw hwt)
    · show ∀ x, cnt u.infl x = 0
      rw [ei]; exact h.noInfl
    · show QD _ u.cache (setAdd u.dirty k) u.back
      rw [ec, ed, eb]
      exact qd_set hq (wb_aget?_aset_self _ _ _) (fun x hx => wb_aget?_aset_other _ _ _ _ hx)
        (fun x hx => (mem_setAdd_iff _ _ _).mp hx) (fun x _ hx => wb_mem_setAdd _ _ _ hx) (fun _ _ => rfl)
        (fun hk => absurd ((mem_setAdd_iff _ _ _).mpr (Or.inr rfl)) hk)

theorem exec_del (cfg : Cfg) (hrep : cfg.rep = true) (hcap : 1 ≤ cfg.cap) (s : St) (M : List (Key × Nat))
    (i : Nat) (k : Nat) (now : Nat) (h : RInv cfg s M) :
    RInv cfg (execOp cfg s i (.del k) now).1 (adel M k) := by
  have e : execOp cfg s i (.del k) now = finish cfg (1 + 1) i now (start cfg s i (.del k) now) := rfl
  have hq0 : Q M (s.bump cfg k) := by
    show QD M _ _ _
    rw [wb_bump_cache, wb_bump_dirty, sq_bump_back]; exact h.q
  -- the state before `inflInc`
  have key : ∃ s1 : St, start cfg s i (.del k) now
        = ((s1.inflInc cfg k).setPend i (.del k (decide (k ∈ akeys (s.bump cfg k).cache))), none) ∧
      s1.pend = [] ∧ s1.infl = s.infl ∧ (∀ x, x ∈ s1.dirty → x ∈ s.dirty) ∧
      QD (adel M k) s1.cache s1.dirty (adel s1.back k) := by
    by_cases hk : k ∈ akeys (s.bump cfg k).cache
    · refine ⟨cacheRemove ((s.bump cfg k).writeBack k) k, ?_, ?_, ?_, ?_, ?_⟩
      · simp only [start, hk, hrep, decide_true, if_true]
      · rw [wb_cacheRemove_pend, wb_writeBack_pend, wb_bump_pend]; exact h.idle
      · rw [sq_cacheRemove_infl, sq_writeBack_infl, sq_bump_infl]
      · intro x hx
        rw [wb_cacheRemove_dirty] at hx
        have := wb_writeBack_dirty_sub _ _ _ ((wb_mem_setDel _ _ _).mp hx).1
        rwa [wb_bump_dirty] at this
      · exact qd_del k (q_writeBack _ k hq0)
    · refine ⟨s.bump cfg k, ?_, ?_, ?_, ?_, ?_⟩
      · simp only [start, hk, decide_false]; rfl
      · rw [wb_bump_pend]; exact h.idle
      · rw [sq_bump_infl]
      · intro x hx; rwa [wb_bump_dirty] at hx
      · exact qd_del_nc k hq0 hk
  obtain ⟨s1, hst, hp1, hi1, hsub, hq1⟩ := key
  have hX : (s1.inflInc cfg k).pend = [] := by rw [wb_inflInc_pend]; exact hp1
  have hres : resume cfg ((s1.inflInc cfg k).setPend i (.del k (decide (k ∈ akeys (s.bump cfg k).cache)))) i
        (.del k (decide (k ∈ akeys (s.bump cfg k).cache))) now
      = ({ s1.inflInc cfg k with back := adel (s1.inflInc cfg k).back k }.inflDec cfg k,
          some (.bool (decide (k ∈ akeys (s.bump cfg k).cache) || decide (k ∈ akeys (s1.inflInc cfg k).back)))) := by
    simp only [resume, sq_clear_set _ _ _ hX]
  have ⟨e1, hs⟩ := exec_two cfg hcap s i _ now _ _ _ _ e hst hX hres h.sinv
  rw [e1]
  refine rinv_of hs ?_ ?_ ?_ ?_
  · rw [wb_inflDec_pend]; exact hX
  · exact sq_noInfl_incdec cfg s1 _ k rfl (by rw [hi1]; exact h.noInfl)
  · show QD _ _ _ _
    rw [sq_inflDec_cache, wb_inflDec_dirty, sq_inflDec_back]
    show QD _ (s1.inflInc cfg k).cache (s1.inflInc cfg k).dirty (adel (s1.inflInc cfg k).back k)
    rw [sq_inflInc_cache, wb_inflInc_dirty, wb_inflInc_back]
    exact hq1
  · intro hw
    rw [wb_inflDec_dirty]
    show (s1.inflInc cfg k).dirty = []
    rw [wb_inflInc_dirty]; exact nil_of_sub hsub (h.wtClean hw)

theorem exec_inv (cfg : Cfg) (hrep : cfg.rep = true) (hcap : 1 ≤ cfg.cap) (s : St) (M : List (Key × Nat))
    (i : Nat) (k : Nat) (now : Nat) (h : RInv cfg s M) :
    RInv cfg (execOp cfg s i (.inv k) now).1 M := by
  have e : execOp cfg s i (.inv k) now = finish cfg (0 + 2) i now (start cfg s i (.inv k) now) := rfl
  by_cases hk : k ∈ akeys s.cache
  · have hst : start cfg s i (.inv k) now = (cacheRemove (s.writeBack k) k, some .none) := by
      simp only [start, hk, hrep, if_true]
    have ⟨e1, hs⟩ := exec_one cfg hcap s i _ now _ _ _ e hst h.sinv
    rw [e1]
    refine rinv_of hs ?_ ?_ ?_ ?_
    · rw [wb_cacheRemove_pend, wb_writeBack_pend]; exact h.idle
    · rw [sq_cacheRemove_infl, sq_writeBack_infl]; exact h.noInfl
    · exact qd_drop k (q_writeBack s k h.q) (q_writeBack_clean s k h.q)
    · intro hw
      refine nil_of_sub (d' := s.dirty) ?_ (h.wtClean hw)
      intro x hx
      rw [wb_cacheRemove_dirty] at hx
      exact wb_writeBack_dirty_sub _ _ _ ((wb_mem_setDel _ _ _).mp hx).1
  · have hst : start cfg s i (.inv k) now = (s, some .none) := by
      simp only [start, hk, if_false]
    have ⟨e1, _⟩ := exec_one cfg hcap s i _ now _ _ _ e hst h.sinv
    rw [e1]; exact h

theorem exec_invAll (cfg : Cfg) (hrep : cfg.rep = true) (hcap : 1 ≤ cfg.cap) (s : St) (M : List (Key × Nat))
    (i : Nat) (now : Nat) (h : RInv cfg s M) :
    RInv cfg (execOp cfg s i .invAll now).1 M := by
  have e : execOp cfg s i .invAll now = finish cfg (0 + 2) i now (start cfg s i .invAll now) := rfl
  have hst : start cfg s i .invAll now = (({ s.writeBackAll s.dirty with
      cache := [], dirty := [], pol := (s.writeBackAll s.dirty).pol.clear } : St), some .none) := by
    simp only [start, hrep, if_true]
  have ⟨e1, hs⟩ := exec_one cfg hcap s i _ now _ _ _ e hst h.sinv
  rw [e1]
  refine rinv_of hs ?_ ?_ ?_ (fun _ => rfl)
  · show (s.writeBackAll s.dirty).pend = []
    rw [wb_writeBackAll_pend]; exact h.idle
  · show ∀ x, cnt (s.writeBackAll s.dirty).infl x = 0
    rw [sq_writeBackAll_infl]; exact h.noInfl
  · refine ⟨fun x hx => by simp at hx, fun x v hx => by simp [aget?] at hx, ?_⟩
    intro x _
    show aget? (s.writeBackAll s.dirty).back x = aget? M x
    by_cases hd : x ∈ s.dirty
    · obtain ⟨v, hv⟩ := sq_some_of_mem_akeys _ _ (h.dirtyCached x hd)
      rw [wb_writeBackAll_hit s s.dirty x v hd hv hd, h.cacheOk x v hv]
    · rw [wb_writeBackAll_miss s s.dirty x hd]; exact h.backOk x hd

/-! ### flush: one resume per key that is written -/

/-- what a flush keeps -/
structure Good (M : List (Key × Nat)) (s t : St) : Prop where
  q : Q M t
  pend : t.pend = []
  infl : t.infl = s.infl
  sub : ∀ x, x ∈ t.dirty → x ∈ s.dirty
  same : Same s t

theorem Good.trans {M : List (Key × Nat)} {a b c : St} (h1 : Good M a b) (h2 : Good M b c) : Good M a c :=
  ⟨h2.q, h2.pend, h2.infl.trans h1.infl, fun x hx => h1.sub x (h2.sub x hx), h1.same.trans h2.same⟩

theorem flush_run (cfg : Cfg) (hrep : cfg.rep = true) (M : List (Key × Nat)) (i now : Nat) (l : List Key) :
    ∀ (s : St) (n fuel : Nat), s.pend = [] → l.length ≤ fuel → Q M s →
      Good M s (finish cfg fuel i now (flushNext cfg s i l n)).1 := by
  induction l with
  | nil =>
    intro s n fuel hp _ hq
    exact ⟨hq, hp, rfl, fun _ hx => hx, Same.refl s⟩
  | cons k rest ih =>
    intro s n fuel hp hf hq
    unfold flushNext
    rw [if_pos hrep]
    by_cases hk : k ∈ s.dirty ∧ k ∈ akeys s.cache
    · rw [if_pos hk]
      cases fuel with
      | zero => simp at hf
      | succ f =>
        show Good M s (resumeAll cfg (f + 1) (s.setPend i (.flushRep k rest n)) i now).1
        rw [resumeAll_set cfg f s i _ now hp]
        have hr : resume cfg (s.setPend i (.flushRep k rest n)) i (.flushRep k rest n) now
            = flushNext cfg (s.writeBack k) i rest (n + 1) := by
          simp only [resume, sq_clear_set _ _ _ hp]
          rw [if_pos hk]
        rw [hr]
        have h1 : Good M s (s.writeBack k) :=
          ⟨q_writeBack s k hq, by rw [wb_writeBack_pend]; exact hp, sq_writeBack_infl s k,
            fun x hx => wb_writeBack_dirty_sub s k x hx, same_writeBack s k⟩
        exact h1.trans (ih (s.writeBack k) (n + 1) f h1.pend (by simpa using hf) h1.q)
    · rw [if_neg hk]
      exact ih s n fuel hp (by simp at hf; omega) hq

theorem exec_flush (cfg : Cfg) (hrep : cfg.rep = true) (s : St) (M : List (Key × Nat))
    (i : Nat) (order : List Key) (now : Nat) (h : RInv cfg s M) :
    RInv cfg (execOp cfg s i (.flush order) now).1 M := by
  have e : execOp cfg s i (.flush order) now
      = finish cfg (order.length + 2) i now (flushNext cfg s i order 0) := rfl
  rw [e]
  have g := flush_run cfg hrep M i now order s 0 (order.length + 2) h.idle (by omega) h.q
  refine rinv_of (h.sinv.same' g.same) g.pend ?_ g.q ?_
  · rw [g.infl]; exact h.noInfl
  · intro hw; exact nil_of_sub g.sub (h.wtClean hw)

/-- one whole operation preserves the link and a get returns the map's value -/
theorem execOp_ok (cfg : Cfg) (hrep : cfg.rep = true) (hcap : 1 ≤ cfg.cap) (s : St) (M : List (Key × Nat))
    (i : Nat) (op : OpK) (now : Nat) (h : RInv cfg s M) :
    RInv cfg (execOp cfg s i op now).1 (absStep M op) ∧
      ∀ k, op = .get k → (execOp cfg s i op now).2 = some (expected M k) := by
  cases op with
  | get k =>
    have := exec_get cfg hrep hcap s M i k now h
    exact ⟨this.1, fun k' e => by cases e; exact this.2⟩
  | put k v => exact ⟨exec_put cfg hrep hcap s M i k v now h, fun _ e => by cases e⟩
  | del k => exact ⟨exec_del cfg hrep hcap s M i k now h, fun _ e => by cases e⟩
  | inv k => exact ⟨exec_inv cfg hrep hcap s M i k now h, fun _ e => by cases e⟩
  | invAll => exact ⟨exec_invAll cfg hrep hcap s M i now h, fun _ e => by cases e⟩
  | flush order => exact ⟨exec_flush cfg hrep s M i order now h, fun _ e => by cases e⟩

theorem seqOk_of_rinv (cfg : Cfg) (hrep : cfg.rep = true) (hcap : 1 ≤ cfg.cap) (s : St) (M : List (Key × Nat))
    (i : Nat) (ops : List (OpK × Nat)) (h : RInv cfg s M) : SeqOk cfg s M i ops := by
  induction ops generalizing s M i with
  | nil => exact True.intro
  | cons a rest ih =>
    obtain ⟨op, now⟩ := a
    have key := execOp_ok cfg hrep hcap s M i op now h
    refine ⟨?_, ih _ _ _ key.1⟩
    cases op with
    | get k => exact key.2 k rfl
    | put k v => exact True.intro
    | del k => exact True.intro
    | inv k => exact True.intro
    | invAll => exact True.intro
    | flush order => exact True.intro

end HappyModel.C16
