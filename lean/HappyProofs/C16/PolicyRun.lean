import HappyProofs.C16.PolicyLawsMain
/-!
A policy run side by side with its history specification (`SpecSt`, computed from the calls and from
what `evict` returned only).
-/
namespace HappyModel.C16

/-- run the model and the history specification side by side -/
def runBoth (p : Pol) (s : SpecSt) : List POp → Pol × SpecSt
  | [] => (p, s)
  | op :: ops => runBoth (p.step op).2 (s.step op (p.step op).1) ops

/-- what links a policy state to a history: same key set, no duplicates -/
structure KeysRel (p : Pol) (s : SpecSt) : Prop where
  inv : p.Inv
  nodup : s.keys.Nodup
  same : ∀ x, x ∈ p.tracked ↔ x ∈ s.keys

theorem spec_has_iff (s : SpecSt) (k : Key) : s.has k = true ↔ k ∈ s.keys := by
  simp [SpecSt.has, SpecSt.keys]

theorem keys_filter (l : List HRec) (k : Key) :
    (l.filter (fun r => r.key != k)).map (·.key) = (l.map (·.key)).filter (fun x => x != k) := by
  rw [List.filter_map]; rfl

theorem step_keys_access (s : SpecSt) (k : Key) (r : Option Key) :
    (s.step (.access k) r).keys = s.keys := by
  simp only [SpecSt.step, SpecSt.keys, List.map_map]
  apply List.map_congr_left
  intro a _
  simp only [Function.comp]
  split <;> rfl

theorem step_keys_insert (s : SpecSt) (k now : Nat) (r : Option Key) (h : s.has k = false) :
    (s.step (.insert k now) r).keys = s.keys ++ [k] := by
  simp [SpecSt.step, SpecSt.keys, h]

theorem step_keys_remove (s : SpecSt) (k : Key) (r : Option Key) :
    (s.step (.remove k) r).keys = s.keys.filter (fun x => x != k) := by
  simp only [SpecSt.step, SpecSt.keys]; exact keys_filter _ _

theorem step_keys_evict_some (s : SpecSt) (now : Nat) (pick : List Key) (k : Key) :
    (s.step (.evict now pick) (some k)).keys = s.keys.filter (fun x => x != k) := by
  simp only [SpecSt.step, SpecSt.keys]; exact keys_filter _ _

theorem step_keys_evict_none (s : SpecSt) (now : Nat) (pick : List Key) :
    (s.step (.evict now pick) none).keys = s.keys := by
  simp only [SpecSt.step, SpecSt.keys]

theorem keysRel_init (name : String) (arg : Nat) (p : Pol) (h : Pol.ofName name arg = some p) :
    KeysRel p {} := by
  obtain ⟨hi, ht⟩ := Pol.ofName_inv name arg p h
  exact ⟨hi, by simp [SpecSt.keys], fun x => by rw [ht]; simp [SpecSt.keys]⟩

/-- one call preserves the link, provided the history stays well formed -/
theorem keysRel_step (p : Pol) (s : SpecSt) (op : POp) (h : KeysRel p s)
    (hwf : (s.step op (p.step op).1).wf = true) :
    KeysRel (p.step op).2 (s.step op (p.step op).1) := by
  obtain ⟨hi, hn, hs⟩ := h
  cases op with
  | access k =>
    obtain ⟨i', m'⟩ := Pol.access_law p hi k
    simp only [Pol.step]
    exact ⟨i', by rw [step_keys_access]; exact hn, fun x => by rw [step_keys_access, m' x]; exact hs x⟩
  | insert k now =>
    simp only [Pol.step] at hwf ⊢
    have hh : s.has k = false := by
      cases hb : s.has k with
      | false => rfl
      | true => simp [SpecSt.step, hb] at hwf
    have hk : k ∉ s.keys := fun hm => by rw [← spec_has_iff] at hm; rw [hh] at hm; cases hm
    have hk' : k ∉ p.tracked := fun hm => hk ((hs k).mp hm)
    obtain ⟨i', m'⟩ := Pol.insert_law p hi k now hk'
    refine ⟨i', ?_, fun x => ?_⟩
    · rw [step_keys_insert _ _ _ _ hh]; exact nodup_append_singleton hn hk
    · rw [step_keys_insert _ _ _ _ hh, m' x, hs x]; simp [Or.comm]
  | remove k =>
    obtain ⟨i', m'⟩ := Pol.remove_law p hi k
    simp only [Pol.step]
    refine ⟨i', ?_, fun x => ?_⟩
    · rw [step_keys_remove]; exact hn.sublist List.filter_sublist
    · rw [step_keys_remove, m' x, hs x, List.mem_filter]; simp
  | evict now pick =>
    simp only [Pol.step]
    cases hr : (p.evict now pick).1 with
    | none =>
      rw [Pol.evict_none_state p hi now pick hr]
      exact ⟨hi, by rw [step_keys_evict_none]; exact hn, fun x => by rw [step_keys_evict_none]; exact hs x⟩
    | some k =>
      obtain ⟨_, i', m'⟩ := Pol.evict_some_law p hi now pick k hr
      refine ⟨i', ?_, fun x => ?_⟩
      · rw [step_keys_evict_some]; exact hn.sublist List.filter_sublist
      · rw [step_keys_evict_some, m' x, hs x, List.mem_filter]; simp
  | clear =>
    obtain ⟨i', t'⟩ := Pol.clear_law p
    simp only [Pol.step]
    exact ⟨i', by simp [SpecSt.step, SpecSt.keys], fun x => by rw [t']; simp [SpecSt.step, SpecSt.keys]⟩

theorem wf_step_mono (s : SpecSt) (op : POp) (res : Option Key) (h : (s.step op res).wf = true) :
    s.wf = true := by
  cases op with
  | insert k now =>
    simp only [SpecSt.step] at h
    split at h
    · cases h
    · exact h
  | evict now pick => cases res <;> exact h
  | access k => exact h
  | remove k => exact h
  | clear => exact h

theorem wf_runBoth_mono (p : Pol) (s : SpecSt) (ops : List POp) (h : (runBoth p s ops).2.wf = true) :
    s.wf = true := by
  induction ops generalizing p s with
  | nil => exact h
  | cons op ops ih =>
    simp only [runBoth] at h
    exact wf_step_mono s op _ (ih _ _ h)

theorem keysRel_run (p : Pol) (s : SpecSt) (ops : List POp) (h : KeysRel p s)
    (hwf : (runBoth p s ops).2.wf = true) :
    KeysRel (runBoth p s ops).1 (runBoth p s ops).2 := by
  induction ops generalizing p s with
  | nil => exact h
  | cons op ops ih =>
    simp only [runBoth] at hwf ⊢
    exact ih _ _ (keysRel_step p s op h (wf_runBoth_mono _ _ ops hwf)) hwf

end HappyModel.C16
