import HappyModel.C16.PolicySpec
/-!
The contract every eviction policy keeps with its cache, uniformly for all nine (`Pol`):
under the per-policy representation invariant `Pol.Inv`, each call updates the tracked key set
(`Pol.tracked`) exactly like a set, and `evict` returns a key iff the set is non-empty.
The per-policy proofs are in `PolicyLawsA.lean` / `PolicyLawsB.lean`.
-/
namespace HappyModel.C16

/-- representation invariant of each policy -/
def Pol.Inv : Pol → Prop
  | .lru s => s.order.Nodup
  | .lfu s => (akeys s.counts).Nodup
  | .ttl s => (akeys s.times).Nodup
  | .fifo s => s.order.Nodup
  | .rnd s => s.keys.Nodup
  | .slru s => (s.prob ++ s.prot).Nodup
  | .sampled s => (akeys s.times).Nodup
  | .clock s => (akeys s.ring).Nodup ∧ (s.ring = [] → s.hand = 0) ∧ (s.ring ≠ [] → s.hand < s.ring.length)
  | .twoq s => (s.a1in ++ s.am).Nodup

end HappyModel.C16
