import HappyProofs.C16.PageFrames
/-!
C16 / PageCache — the repaired model never holds more than `capacity_pages` pages: a page is only
inserted right after `_ensure_space` / the insert loop found room, with no yield in between.
-/
namespace HappyModel.C16.Page

theorem readAhead_length (cfg : Cfg) (idx p i : Nat) (s : St) :
    (readAhead cfg idx p i s).1.pages.length = s.pages.length := by
  rw [(readAhead_frame cfg idx p i s).1]

theorem flushNextR_length (idx : Nat) (rest : List Nat) (n : Nat) (s : St) :
    (flushNextR s idx rest n).1.pages.length = s.pages.length := by
  rw [(flushNextR_frame idx rest n s).1]

theorem afterRoom_size (cfg : Cfg) (s : St) (idx : Nat) (k : Cont) (hroom : s.pages.length < cfg.cap) :
    (afterRoom cfg s idx k).1.pages.length ≤ cfg.cap := by
  cases k with
  | load p => simp only [afterRoom, setPend_pages]; omega
  | ins p =>
    simp only [afterRoom, readAhead_length]
    have := assign_length_le s p false
    omega
  | write p =>
    simp only [afterRoom]
    have := assign_length_le s p true
    omega

theorem ensureThen_size (cfg : Cfg) (hc : 0 < cfg.cap) (s : St) (idx : Nat) (k : Cont)
    (hs : s.pages.length ≤ cfg.cap) :
    (match ensure cfg (s.pages.length + 1) s with
      | (s1, none) => afterRoom cfg s1 idx k
      | (s1, some v) => (s1.setPend idx (.evict v k), none)).1.pages.length ≤ cfg.cap := by
  have h1 := ensure_length_le cfg (s.pages.length + 1) s
  have h2 := ensure_room cfg hc (s.pages.length + 1) s (Nat.lt_succ_self _)
  generalize ensure cfg (s.pages.length + 1) s = r at *
  obtain ⟨s1, o⟩ := r
  cases o with
  | none => exact afterRoom_size cfg s1 idx k (h2 rfl)
  | some v => simp only [setPend_pages] at h1 ⊢; omega

theorem withRoom_size (cfg : Cfg) (hc : 0 < cfg.cap) (s : St) (idx : Nat) (k : Cont)
    (hs : s.pages.length ≤ cfg.cap) : (withRoom cfg s idx k).1.pages.length ≤ cfg.cap := by
  cases k with
  | ins p =>
    simp only [withRoom]
    split
    · rw [readAhead_length]; exact hs
    · exact ensureThen_size cfg hc s idx (.ins p) hs
  | load p => simp only [withRoom]; exact ensureThen_size cfg hc s idx (.load p) hs
  | write p => simp only [withRoom]; exact ensureThen_size cfg hc s idx (.write p) hs

theorem start_size (cfg : Cfg) (hr : cfg.rep = true) (hc : 0 < cfg.cap) (s : St) (i : Nat) (op : Op)
    (hs : s.pages.length ≤ cfg.cap) : (start cfg s i op).1.pages.length ≤ cfg.cap := by
  cases op with
  | read p =>
    simp only [start]
    split
    · rw [touch_length]; exact hs
    · exact withRoom_size cfg hc _ i (.load p) hs
  | write p =>
    simp only [start]
    split
    · rw [touch_length, setDirty_length]; exact hs
    · exact withRoom_size cfg hc _ i (.write p) hs
  | flush =>
    simp only [start, hr, if_true]
    rw [flushNextR_length]; exact hs

theorem resume_size (cfg : Cfg) (hr : cfg.rep = true) (hc : 0 < cfg.cap) (s : St) (i : Nat) (p : Pend)
    (hs : s.pages.length ≤ cfg.cap) : (resume cfg s i p).1.pages.length ≤ cfg.cap := by
  cases p with
  | evict v k =>
    simp only [resume, hr, if_true]
    exact withRoom_size cfg hc _ i k hs
  | disk q =>
    simp only [resume, hr, if_true]
    exact withRoom_size cfg hc _ i (.ins q) hs
  | ahead q j =>
    simp only [resume, hr, if_true]
    split
    · rename_i hcnd
      rw [readAhead_length]
      have hlt : s.pages.length < cfg.cap := by simp at hcnd; exact hcnd.2
      have := assign_length_le s (q + j) false
      simp only
      omega
    · rw [readAhead_length]; exact hs
  | flushC q g rest stamp n =>
    simp only [resume, hr, if_true]; exact hs
  | flushR q rest n =>
    simp only [resume, hr, Bool.not_true, Bool.false_eq_true, if_false]
    split
    · rw [flushNextR_length]
      simp only [setDirty_length]; exact hs
    · rw [flushNextR_length]; exact hs

theorem step_size (cfg : Cfg) (hr : cfg.rep = true) (hc : 0 < cfg.cap) (s : St) (a : Act)
    (hs : s.pages.length ≤ cfg.cap) : (step cfg s a).1.pages.length ≤ cfg.cap := by
  cases a with
  | start i op => exact start_size cfg hr hc s i op hs
  | resume i =>
    simp only [step]
    cases findPend s.pend i with
    | none => exact hs
    | some p => exact resume_size cfg hr hc _ i p hs

end HappyModel.C16.Page
