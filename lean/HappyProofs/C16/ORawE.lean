import HappyProofs.C16.ORawD
/-!
Ordered read-after-write (write-through stores), part 5: later segments keep `OInv`; every segment
(`oraw_step`).
-/
namespace HappyModel.C16

/-- a miss fills only when nothing is in flight for the key -/
theorem resume_getMiss_fill (c : Cfg) (hrep : c.rep = true) (s : St) (i k e now : Nat) (h : s.dirty = []) :
    (∃ nw, TStep s (resume c s i (.getMiss k e) now).1 nw ∧
      (∀ x w, nw = some (x, w) → x = k ∧ aget? s.back k = some w ∧ cnt s.infl k = 0)) ∧
    (resume c s i (.getMiss k e) now).1.pend = (s.clearPend i).pend ∧
    (resume c s i (.getMiss k e) now).2 = some (resOf (aget? s.back k)) := by
  have e0 : resume c s i (.getMiss k e) now = match aget? (s.clearPend i).back k with
      | some x =>
        if !c.rep || (s.clearPend i).fillAllowed k e then (cachePut c (s.clearPend i) k x now, some (.val x))
        else (s.clearPend i, some (.val x))
      | none => (s.clearPend i, some .none) := rfl
  rw [e0]
  have hback : (s.clearPend i).back = s.back := rfl
  have hclr : TStep s (s.clearPend i) none := ⟨h, rfl, fun _ _ hw => Or.inl hw⟩
  rw [hback]
  cases hb : aget? s.back k with
  | none => exact ⟨⟨none, hclr, fun _ _ e => by cases e⟩, rfl, rfl⟩
  | some x =>
    simp only []
    split
    · rename_i hcond
      obtain ⟨t, p, _⟩ := cachePut_nb c (s.clearPend i) k x now h
      refine ⟨⟨some (k, x), hclr.trans t, ?_⟩, p, rfl⟩
      intro a w e'
      cases e'
      simp only [hrep, Bool.not_true, Bool.false_or] at hcond
      have hfa : (s.clearPend i).fillAllowed k e = true := hcond
      unfold St.fillAllowed at hfa
      simp only [Bool.and_eq_true, beq_iff_eq] at hfa
      exact ⟨rfl, rfl, hfa.2⟩
    · exact ⟨⟨none, hclr, fun _ _ e => by cases e⟩, rfl, rfl⟩

theorem oraw_resume (cfg : Cfg) (hrep : cfg.rep = true) {g : Gh} {s0 : St} (h : RInvA g s0)
    (ho : OInv g s0) (i : Nat) (p : Pend) (now : Nat) (hm : (i, p) ∈ s0.pend)
    (o : Obs) (hoi : o.i = i) (hor : o.res = (resume cfg s0 i p now).2) :
    OInv (g.ext o []) (resume cfg s0 i p now).1 := by
  obtain ⟨his, hie⟩ := h.pi.pendS _ hm
  obtain ⟨op, hop, hpo⟩ := h.pi.pOp _ hm
  have hopu : ∀ op'', (i, op'') ∈ g.ops → op'' = op := fun op'' h' => ops_unique h.gi.nd h' hop
  have hoS : o.i ∈ g.started ++ [] := by rw [hoi]; simpa using his
  have hnewS : ∀ j ∈ ([] : List Nat), j = o.i ∧ j ∉ g.started := fun j hj => by cases hj
  have hclrMem := mem_clearPend s0 i
  obtain ⟨rs, hrs⟩ := Option.isSome_iff_exists.mp (h.gi.s1 i his)
  have hrs' : firstIdx (g.evs ++ [o]) i = some rs := firstIdx_snoc_some o hrs
  have hrsle : rs ≤ g.evs.length := Nat.le_of_lt (firstIdx_lt hrs)
  -- every later segment of a write-through store completes its operation
  have limC : ∀ (s' : St), (∀ x, x ∈ s'.pend ↔ x ∈ s0.pend ∧ x.1 ≠ i) → o.res.isSome →
      ∀ j op'' k, j ∈ g.started ++ [] → (j, op'') ∈ g.ops → wk op'' = some k →
        BP s' k j ∨ (endIdx (g.evs ++ [o]) j).isSome := by
    intro s' hp hres j op'' k hj hjm hk
    have hj : j ∈ g.started := by simpa using hj
    by_cases e : j = i
    · subst e
      right
      rw [endIdx_snoc_none o hie, hoi]; simp [hres]
    · rcases ho.lim j op'' k hj hjm hk with ⟨q, hq, hk'⟩ | h'
      · exact Or.inl ⟨q, (hp _).mpr ⟨hq, e⟩, hk'⟩
      · exact Or.inr (endIdx_snoc_isSome o h')
  have nowbC : ∀ (s' : St), (∀ x, x ∈ s'.pend ↔ x ∈ s0.pend ∧ x.1 ≠ i) → ∀ x ∈ s'.pend, x.2 ≠ Pend.putWB :=
    fun s' hp x hx => ho.nowb x ((hp x).mp hx).1
  have hhoC : ∀ (s' : St), (∀ x, x ∈ s'.pend ↔ x ∈ s0.pend ∧ x.1 ≠ i) → ∀ j v, (j, Pend.getHit v) ∈ s'.pend →
      (j, Pend.getHit v) ∈ s0.pend ∨
      ∀ k, (j, OpK.get k) ∈ g.ops → ∃ rs, firstIdx (g.evs ++ [o]) j = some rs ∧ HitO (g.ext o []) k v rs :=
    fun s' hp j v hj => Or.inl ((hp _).mp hj).1
  have hcoSame : ∀ (s' : St), s'.cache = s0.cache → ∀ k v, aget? s'.cache k = some v →
      (aget? s0.cache k = some v ∧ (∀ j op', j ∈ ([] : List Nat) → (j, op') ∈ g.ops → wk op' ≠ some k)) ∨
      CacheO (g.ext o []) k v :=
    fun s' hc k v hv => Or.inl ⟨hc ▸ hv, fun j _ hj => by cases hj⟩
  have notWrite : (∀ k, wk op ≠ some k) → ∀ k, o.res.isSome → ∀ op', (o.i, op') ∈ g.ops → wk op' ≠ some k := by
    intro hnw k _ op' hm'
    rw [hoi] at hm'; rw [hopu op' hm']; exact hnw k
  have hdNonGet : (∀ k, op ≠ .get k) → ∀ k rs', (o.i, OpK.get k) ∈ g.ops → o.res.isSome → endIdx g.evs o.i = none →
      firstIdx (g.evs ++ [o]) o.i = some rs' →
      ∃ v, o.res = some (resOf v) ∧ ReadGoodO g.ops (g.evs ++ [o]) k rs' g.evs.length v := by
    intro hng k rs' hm'
    rw [hoi] at hm'
    exact absurd (hopu _ hm') (fun e => hng k e.symm)
  cases p with
  | getHit v =>
    obtain ⟨k, rfl⟩ := pendOf_getHit hpo
    have hnw : ∀ k', wk (OpK.get k) ≠ some k' := fun k' e' => by simp [wk, wkv] at e'
    have hres : o.res = some (.val v) := hor
    refine oinv_gen h.gi ho hnewS hoS ho.dz (nowbC _ hclrMem) (limC _ hclrMem (by rw [hres]; rfl))
      (fun k' => Or.inl ⟨rfl, notWrite hnw k'⟩) (hcoSame _ rfl) (hhoC _ hclrMem) ?_
    intro k' rs' hm' _ _ hf
    rw [hoi] at hm' hf
    have := hopu _ hm'; cases this
    rw [hrs'] at hf; cases hf
    obtain ⟨rs0, hrs0, hh⟩ := ho.ho i v hm k hop
    rw [hrs] at hrs0; cases hrs0
    exact ⟨some v, hres, hh.good h.gi o hrsle⟩
  | getMiss k e =>
    have hopk := pendOf_getMiss hpo
    subst hopk
    have hnw : ∀ k', wk (OpK.get k) ≠ some k' := fun k' e' => by simp [wk, wkv] at e'
    obtain ⟨⟨nw, ts, hnwv⟩, hp, hres0⟩ := resume_getMiss_fill cfg hrep s0 i k e now ho.dz
    have hres : o.res = some (resOf (aget? s0.back k)) := hor.trans hres0
    have hpm : ∀ x, x ∈ (resume cfg s0 i (.getMiss k e) now).1.pend ↔ x ∈ s0.pend ∧ x.1 ≠ i := by
      rw [hp]; exact hclrMem
    refine oinv_gen h.gi ho hnewS hoS ts.dirty (nowbC _ hpm) (limC _ hpm (by rw [hres]; rfl))
      (fun k' => Or.inl ⟨by rw [ts.back], notWrite hnw k'⟩) ?_ (hhoC _ hpm) ?_
    · intro k' w hw
      rcases ts.cache k' w hw with h' | h'
      · exact Or.inl ⟨h', fun j _ hj => by cases hj⟩
      · -- the fill: nothing in flight, so the backing store's value is not older than any started write
        obtain ⟨rfl, hbk, hin⟩ := hnwv k' w h'
        right
        have hb := ho.bo k'
        rw [hbk] at hb
        rcases hb with ⟨i0, op0, ei, hi0, hm0, hw0, he0, hall⟩ | ⟨hv, _⟩
        · refine (show CacheO g k' w from ⟨i0, op0, hi0, hm0, hw0, ?_⟩).ext o [] (fun j _ hj => by cases hj)
          intro j op'' hj hjm hk
          rcases ho.lim j op'' k' hj hjm hk with hbp | hc
          · exact absurd hbp (no_bp_of_infl h.pi k' hin j)
          · obtain ⟨ej, hej⟩ := Option.isSome_iff_exists.mp hc
            exact Or.inr ⟨ei, ej, he0, hej, hall j op'' ej hj hjm hk hej⟩
        · cases hv
    · intro k' rs' hm' _ _ hf
      rw [hoi] at hm' hf
      have := hopu _ hm'; cases this
      rw [hrs'] at hf; cases hf
      exact ⟨_, hres, (ho.bo k).good h.gi o rs hrsle⟩
  | putWT k v =>
    have hopk := pendOf_putWT hpo
    subst hopk
    obtain ⟨p1, p2, p3, p4, p5⟩ := resume_putWT_nb cfg s0 i k v now
    have hres : o.res = some .none := hor.trans p5
    have hpm : ∀ x, x ∈ (resume cfg s0 i (.putWT k v) now).1.pend ↔ x ∈ s0.pend ∧ x.1 ≠ i := by
      rw [p4]; exact hclrMem
    have hend : endIdx (g.evs ++ [o]) i = some g.evs.length := by
      rw [endIdx_snoc_none o hie, hoi, hres]; simp
    refine oinv_gen h.gi ho hnewS hoS (p2.trans ho.dz) (nowbC _ hpm) (limC _ hpm (by rw [hres]; rfl)) ?_
      (hcoSame _ p1) (hhoC _ hpm) (hdNonGet (fun k' e => by cases e))
    intro k'
    by_cases e : k' = k
    · subst e
      right
      rw [p3, wb_aget?_aset_self]
      refine Or.inl ⟨i, _, g.evs.length, by simpa [Gh.ext] using his, hop, rfl, hend, ?_⟩
      intro j op'' ej _ _ _ hej
      have := endIdx_lt hej
      simp only [Gh.ext, List.length_append, List.length_cons, List.length_nil] at this
      omega
    · left
      refine ⟨by rw [p3]; exact wb_aget?_aset_other _ _ _ _ e, ?_⟩
      intro _ op' hm'
      rw [hoi] at hm'; rw [hopu op' hm']
      exact fun e' => e ((wk_put k v k').mp e')
  | putWB => exact absurd rfl (ho.nowb _ hm)
  | del k b =>
    have hopk := pendOf_del hpo
    subst hopk
    obtain ⟨p1, p2, p3, p4, p5⟩ := resumeDel_nb cfg s0 i k now b
    have hres : o.res.isSome := by rw [hor]; exact p5
    have hpm : ∀ x, x ∈ (resume cfg s0 i (.del k b) now).1.pend ↔ x ∈ s0.pend ∧ x.1 ≠ i := by
      rw [p4]; exact hclrMem
    have hend : endIdx (g.evs ++ [o]) i = some g.evs.length := by
      rw [endIdx_snoc_none o hie, hoi]; simp [hres]
    refine oinv_gen h.gi ho hnewS hoS (p2.trans ho.dz) (nowbC _ hpm) (limC _ hpm hres) ?_
      (hcoSame _ p1) (hhoC _ hpm) (hdNonGet (fun k' e => by cases e))
    intro k'
    by_cases e : k' = k
    · subst e
      right
      rw [p3, sq_aget?_adel_self]
      refine Or.inl ⟨i, _, g.evs.length, by simpa [Gh.ext] using his, hop, rfl, hend, ?_⟩
      intro j op'' ej _ _ _ hej
      have := endIdx_lt hej
      simp only [Gh.ext, List.length_append, List.length_cons, List.length_nil] at this
      omega
    · left
      refine ⟨by rw [p3]; exact wb_aget?_adel_other _ _ _ e, ?_⟩
      intro _ op' hm'
      rw [hoi] at hm'; rw [hopu op' hm']
      exact fun e' => e ((wk_del k k').mp e')
  | flushCur k v rest n => exact absurd hpo pendOf_flushCur
  | flushRep k rest n =>
    obtain ⟨order, rfl⟩ := pendOf_flushRep hpo
    have hnw : ∀ k', wk (OpK.flush order) ≠ some k' := fun k' e' => by simp [wk, wkv] at e'
    have hdc : (s0.clearPend i).dirty = [] := ho.dz
    have e0 : resume cfg s0 i (.flushRep k rest n) now = (s0.clearPend i, some (.count n)) := by
      have e1 : resume cfg s0 i (.flushRep k rest n) now =
          if k ∈ (s0.clearPend i).dirty ∧ k ∈ akeys (s0.clearPend i).cache then
            flushNext cfg ((s0.clearPend i).writeBack k) i rest (n + 1)
          else flushNext cfg (s0.clearPend i) i rest n := rfl
      rw [e1, if_neg (by rw [hdc]; simp)]
      exact flushNext_clean cfg hrep _ i hdc rest n
    rw [e0] at hor ⊢
    have hres : o.res.isSome := by rw [hor]; rfl
    exact oinv_gen h.gi ho hnewS hoS hdc (nowbC _ hclrMem) (limC _ hclrMem hres)
      (fun k' => Or.inl ⟨rfl, notWrite hnw k'⟩) (hcoSame _ rfl) (hhoC _ hclrMem)
      (hdNonGet (fun k' e => by cases e))

theorem oraw_step (cfg : Cfg) (hrep : cfg.rep = true) (hwt : cfg.wt = true) {g : Gh} {s : St} (h : RInvA g s)
    (ho : OInv g s) (a : Act) (hadm : Adm g a) (hlate : ∀ i now, a = .resume i now → i ∈ g.started)
    (o : Obs) (hoi : o.i = actId a) (hor : o.res = (step cfg s a).2) :
    OInv (g.ext o (newIds a)) (step cfg s a).1 := by
  cases a with
  | start i op now =>
    obtain ⟨hi, op', hop, hso⟩ := hadm i op now rfl
    exact oraw_start cfg hrep hwt h ho i op now hi op' hop hso o hoi hor
  | resume i now =>
    show OInv (g.ext o []) (step cfg s (.resume i now)).1
    have hoi : o.i = i := hoi
    have his := hlate i now rfl
    unfold step at hor ⊢
    cases hf : s.pend.find? (fun x => x.1 == i) with
    | none =>
      simp only [hf] at hor ⊢
      have hres : o.res = none := hor
      refine oinv_gen h.gi ho (fun j hj => by cases hj) (by rw [hoi]; simpa using his) ho.dz ho.nowb ?_
        (fun k => Or.inl ⟨rfl, fun hs => by rw [hres] at hs; cases hs⟩)
        (fun k v hv => Or.inl ⟨hv, fun j _ hj => by cases hj⟩) (fun j v hm => Or.inl hm)
        (fun _ _ _ hs => by rw [hres] at hs; cases hs)
      intro j op k hj hjm hk
      exact (ho.lim j op k (by simpa using hj) hjm hk).imp id (endIdx_snoc_isSome o)
    | some x =>
      obtain ⟨j, p⟩ := x
      simp only [hf] at hor ⊢
      have hmem := List.mem_of_find?_eq_some hf
      have hj : j = i := by simpa using List.find?_some hf
      subst hj
      exact oraw_resume cfg hrep h ho j p now hmem o hoi hor

end HappyModel.C16
