import HappyProofs.C16.PageTrace
/-!
`PageCache`, run level, continued: a returning `write_page(p)` whose page is not in the judge's
`mayDirty` list turns a clean or absent page dirty — the ghost count `made` of dirtied pages grows by
one in that segment (the judge's `gainMin = 1`).
-/
namespace HappyModel.C16.Page

theorem not_dirty_of_md {md : List Nat} {ps : List Pg} {p : Nat} (hmd : ∀ q ∈ ps, q.dirty = true → q.id ∈ md)
    (hp : p ∉ md) : isDirty ps p = false := by
  cases hd : isDirty ps p with
  | false => rfl
  | true =>
    obtain ⟨q, hq⟩ := find_of_has_true (has_of_isDirty hd)
    rw [isDirty_of_find hq] at hd
    exact absurd ((mem_of_find hq).2 ▸ hmd q (mem_of_find hq).1 hd) hp

theorem withRoom_write_made (cfg : Cfg) (hr : cfg.rep = true) (s : St) (idx p : Nat) (md : List Nat)
    (hmd : MD md s) (hp : p ∉ md) (hok : (withRoom cfg s idx (.write p)).2 = some .ok) :
    (withRoom cfg s idx (.write p)).1.made = s.made + 1 := by
  unfold withRoom at hok ⊢
  simp only at hok ⊢
  have hfr := ensure_frame cfg hr (s.pages.length + 1) s
  have hmem := ensure_mem cfg hr (s.pages.length + 1) s
  cases he : ensure cfg (s.pages.length + 1) s with
  | mk s1 v =>
    rw [he] at hfr hmem
    simp only [he] at hok
    cases v with
    | some v => cases hok
    | none =>
      show s1.made + (if (!isDirty s1.pages p) = true then 1 else 0) = s.made + 1
      have : isDirty s1.pages p = false :=
        not_dirty_of_md (fun q hq hd => hmd q (hmem q hq) hd) hp
      rw [this, hfr.1]; rfl

/-- a returning `write_page(p)` with `p` outside the `mayDirty` list dirties a page -/
theorem step_write_made (cfg : Cfg) (hr : cfg.rep = true) (s : St) (a : Act) (p : Nat) (md : List Nat)
    (hw : WriteSeg s a p) (hok : (step cfg s a).2 = some .ok) (hmd : MD md s) (hp : p ∉ md) :
    (step cfg s a).1.made = s.made + 1 := by
  rcases hw with ⟨i, rfl⟩ | ⟨i, v, rfl, hpd⟩
  · have e : step cfg s (.start i (.write p)) = start cfg s i (.write p) := rfl
    rw [e] at hok ⊢
    unfold start at hok ⊢
    simp only at hok ⊢
    split
    · rw [touch_made, setDirty_made]
      show s.made + (if (!isDirty s.pages p) = true then 1 else 0) = s.made + 1
      rw [not_dirty_of_md hmd hp]; rfl
    · rename_i hh
      rw [if_neg hh] at hok
      exact withRoom_write_made cfg hr { s with misses := s.misses + 1 } i p md hmd hp hok
  · have e : step cfg s (.resume i) = withRoom cfg { s with pend := erasePend s.pend i, dwb := s.dwb + 1 } i (.write p) := by
      unfold step; simp only [hpd]; unfold resume; simp only [hr, if_true]
    rw [e] at hok ⊢
    exact withRoom_write_made cfg hr { s with pend := erasePend s.pend i, dwb := s.dwb + 1 } i p md hmd hp hok

end HappyModel.C16.Page
