import HappyProofs.C16.ORawB
/-!
Ordered read-after-write (write-through stores), part 3: one generic lemma that re-establishes
`OInv` in the extended context from per-key facts about the new state (`oinv_gen`).
-/
namespace HappyModel.C16

theorem bp_mono {s s' : St} (h : ∀ x ∈ s.pend, x ∈ s'.pend) {k : Key} {j : Nat} (hb : BP s k j) : BP s' k j := by
  obtain ⟨p, hp, hk⟩ := hb
  exact ⟨p, h _ hp, hk⟩

theorem oinv_gen {g : Gh} {s s' : St} {o : Obs} {new : List Nat} (gi : GI g) (ho : OInv g s)
    (_hnewS : ∀ j ∈ new, j = o.i ∧ j ∉ g.started) (hoS : o.i ∈ g.started ++ new)
    (hdz : s'.dirty = []) (hnowb : ∀ x ∈ s'.pend, x.2 ≠ Pend.putWB)
    (hlim : ∀ j op k, j ∈ g.started ++ new → (j, op) ∈ g.ops → wk op = some k →
      BP s' k j ∨ (endIdx (g.evs ++ [o]) j).isSome)
    (hbo : ∀ k, (aget? s'.back k = aget? s.back k ∧
        (o.res.isSome → ∀ op', (o.i, op') ∈ g.ops → wk op' ≠ some k)) ∨
      BackO (g.ext o new) k (aget? s'.back k))
    (hco : ∀ k v, aget? s'.cache k = some v →
      (aget? s.cache k = some v ∧ (∀ j op', j ∈ new → (j, op') ∈ g.ops → wk op' ≠ some k)) ∨
      CacheO (g.ext o new) k v)
    (hho : ∀ j v, (j, Pend.getHit v) ∈ s'.pend → (j, Pend.getHit v) ∈ s.pend ∨
      ∀ k, (j, OpK.get k) ∈ g.ops → ∃ rs, firstIdx (g.evs ++ [o]) j = some rs ∧ HitO (g.ext o new) k v rs)
    (hd : ∀ k rs, (o.i, OpK.get k) ∈ g.ops → o.res.isSome → endIdx g.evs o.i = none →
      firstIdx (g.evs ++ [o]) o.i = some rs →
      ∃ v, o.res = some (resOf v) ∧ ReadGoodO g.ops (g.evs ++ [o]) k rs g.evs.length v) :
    OInv (g.ext o new) s' := by
  refine ⟨hdz, hnowb, ?_, ?_, ?_, ?_, ?_, ?_⟩
  · intro i hi
    have hi' : i ∉ g.started ++ new := by simpa [Gh.ext] using hi
    have hi0 : i ∉ g.started := fun h => hi' (List.mem_append_left _ h)
    show firstIdx (g.evs ++ [o]) i = none
    rw [firstIdx_snoc_none o (ho.ns i hi0)]
    split
    · rename_i e
      simp only [beq_iff_eq] at e
      exact absurd (e ▸ hoS) hi'
    · rfl
  · intro j op k hj hjm hk
    exact hlim j op k (by simpa [Gh.ext] using hj) hjm hk
  · intro k
    rcases hbo k with ⟨e, hnw⟩ | h'
    · rw [e]
      refine (ho.bo k).ext o new ?_ gi.s2
      intro j op' _ hjm hk h0
      rw [endIdx_snoc_none o h0]
      split
      · rename_i hc
        simp only [Bool.and_eq_true, beq_iff_eq] at hc
        exact absurd hk (hnw hc.2 op' (hc.1 ▸ hjm))
      · rfl
    · exact h'
  · intro k v hv
    rcases hco k v hv with ⟨hv0, hnw⟩ | h'
    · exact (ho.co k v hv0).ext o new (fun j op' hj _ hjm => hnw j op' hj hjm)
    · exact h'
  · intro j v hm k hk
    rcases hho j v hm with h0 | h'
    · obtain ⟨rs, hrs, hh⟩ := ho.ho j v h0 k hk
      exact ⟨rs, firstIdx_snoc_some o hrs, hh.ext o new (Nat.le_of_lt (firstIdx_lt hrs))⟩
    · exact h' k hk
  · intro i0 k rs re hm hs he
    simp only [Gh.ext] at hm hs he ⊢
    cases he0 : endIdx g.evs i0 with
    | some re0 =>
      rw [endIdx_snoc_some o he0] at he
      have hre : re0 = re := Option.some.inj he
      subst hre
      obtain ⟨rs0, hrs0, _⟩ := firstIdx_of_endIdx he0
      rw [firstIdx_snoc_some o hrs0] at hs
      have hrs : rs0 = rs := Option.some.inj hs
      subst hrs
      obtain ⟨v, hv, hg⟩ := ho.dO i0 k rs0 re0 hm hrs0 he0
      refine ⟨v, ?_, readGoodO_snoc o (Nat.le_of_lt (firstIdx_lt hrs0)) hg⟩
      rw [getD_snoc_lt _ _ _ _ (endIdx_lt he0)]; exact hv
    | none =>
      rw [endIdx_snoc_none o he0] at he
      split at he
      · rename_i hc
        simp only [Bool.and_eq_true, beq_iff_eq] at hc
        have hre : g.evs.length = re := Option.some.inj he
        subst hre
        obtain ⟨hoi, hres⟩ := hc
        subst hoi
        obtain ⟨v, hv, hg⟩ := hd k rs hm hres he0 hs
        exact ⟨v, by rw [getD_snoc_eq]; exact hv, hg⟩
      · cases he

end HappyModel.C16
