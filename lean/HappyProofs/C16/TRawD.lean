import HappyProofs.C16.TRawC
import HappyModel.C16.TierSpec
/-!
Multi-tier read-after-write over every interleaving, part 4: sweeps keep the invariant; the first
segment of every multi-tier operation keeps it (`mraw_start`).
-/
namespace HappyModel.C16.Tier
open HappyModel.C16

/-- the continuation part of the invariant only looks at `pend`, `infl`, `epoch`, `back` and the
    tiers' continuations -/
theorem mpi_same {g : Gh} {ms ms' : MSt} (pi : MPI g ms) (hp : ms'.pend = ms.pend) (hi : ms'.infl = ms.infl)
    (he : ms'.epoch = ms.epoch) (hb : ∀ k, aget? ms'.back k = aget? ms.back k)
    (ht : ∀ (t : Nat) (s' : St), ms'.tiers[t]? = some s' → ∃ s : St, ms.tiers[t]? = some s ∧
      ∀ x ∈ s'.pend, x ∈ s.pend) : MPI g ms' where
  pendS := by rw [hp]; exact pi.pendS
  pendND := by rw [hp]; exact pi.pendND
  infl := by rw [hp, hi]; exact pi.infl
  pb := by rw [hp]; exact pi.pb
  pl := by rw [hp]; exact pi.pl
  db := by rw [hp]; exact pi.db
  dr := by rw [hp]; exact pi.dr
  tg := by
    intro i t k e hm
    rw [hp] at hm
    obtain ⟨hop, rs, rh, h1, h2, h3, h4, h5, h6⟩ := pi.tg i t k e hm
    refine ⟨hop, rs, rh, h1, h2, h3, by rw [he]; exact h4, ?_, ?_⟩
    · intro hee j op hj hjm hk
      rw [he] at hee
      exact (h5 hee j op hj hjm hk).imp id (fun ⟨p, a, b⟩ => ⟨p, hp ▸ a, b⟩)
    · intro s' q hs' hq
      obtain ⟨s, hs, hsub⟩ := ht t s' hs'
      exact h6 s q hs (hsub _ hq)
  bg := by
    intro i k e hm
    rw [hp] at hm
    obtain ⟨hop, rs, h1, hf⟩ := pi.bg i k e hm
    exact ⟨hop, rs, h1, by rw [hb]; exact hf⟩

theorem bpm_of_pend {ms ms' : MSt} (h : ms'.pend = ms.pend) (k : Key) (j : Nat) : BPm ms' k j ↔ BPm ms k j := by
  unfold BPm; rw [h]

theorem tp_of_pend {g : Gh} {t : Nat} {s s' : St} (h : TP g t s) (hp : ∀ x ∈ s'.pend, x ∈ s.pend) : TP g t s' :=
  fun x hx => h x (hp x hx)

/-- a sweep keeps the invariant -/
theorem minv_swept {g : Gh} {ms ms' : MSt} {op : OpK} {lo n : Nat} (h : MInv g ms)
    (hs : Swept op lo n ms.tiers ms'.tiers) (hb : ms'.back = ms.back) (hp : ms'.pend = ms.pend)
    (he : ms'.epoch = ms.epoch) (hi : ms'.infl = ms.infl) : MInv g ms' := by
  refine ⟨h.gi, mpi_same h.pi hp hi he (fun k => by rw [hb]) ?_, ?_, ?_⟩
  rotate_left 2
  · intro j op k hj hm hk
    exact (h.lim j op k hj hm hk).imp (fun ⟨p, a, b⟩ => ⟨p, hp ▸ a, b⟩) id
  · intro t s' hs'
    obtain ⟨s, h1, _, h3, _⟩ := hs.at_ t s' hs'
    exact ⟨s, h1, fun x hx => h3 ▸ hx⟩
  · refine mvi_update h.vi none (fun k j _ hb' => (bpm_of_pend hp k j).mpr hb') ?_ ?_ ?_ ?_
    · intro t s' x w hs' hw
      obtain ⟨s, h1, _, _, h4, _⟩ := hs.at_ t s' hs'
      exact Or.inl ⟨by simp, t, s, h1, h4 x w hw⟩
    · intro x; exact Or.inl ⟨by simp, by rw [hb]⟩
    · intro t s' hs'
      obtain ⟨s, _, h2, _⟩ := hs.at_ t s' hs'
      exact h2
    · intro t s' hs'
      obtain ⟨s, h1, _, h3, _⟩ := hs.at_ t s' hs'
      exact tp_of_pend (h.vi.tp t s h1) (fun x hx => h3 ▸ hx)

theorem minv_sweep (cfg : MCfg) {g : Gh} {ms : MSt} (h : MInv g ms) (op : OpK)
    (hop : (∃ k, op = .inv k) ∨ op = .invAll) : MInv g (ms.sweep cfg op) := by
  obtain ⟨hb, hs⟩ := sweep_nb cfg ms op hop h.vi.d
  exact minv_swept h hs hb rfl rfl rfl

theorem minv_sweepLow (cfg : MCfg) {g : Gh} {ms : MSt} (h : MInv g ms) (op : OpK)
    (hop : (∃ k, op = .inv k) ∨ op = .invAll) : MInv g (ms.sweepLow cfg op) := by
  obtain ⟨hb, hs⟩ := sweepLow_nb cfg ms op hop h.vi.d
  exact minv_swept h hs hb rfl rfl rfl

/-! ### bookkeeping -/

theorem enter_epoch_self (cfg : MCfg) (hrep : cfg.rep = true) (ms : MSt) (k : Key) :
    cnt (ms.enter cfg k).epoch k = cnt ms.epoch k + 1 := by
  simp only [MSt.enter, hrep, if_true]; exact sq_cnt_aset_self _ _ _
theorem enter_epoch_other (cfg : MCfg) (ms : MSt) (k x : Key) (h : x ≠ k) :
    cnt (ms.enter cfg k).epoch x = cnt ms.epoch x := by
  unfold MSt.enter; split
  · exact sq_cnt_aset_other _ _ _ _ h
  · rfl
theorem enter_infl_self (cfg : MCfg) (hrep : cfg.rep = true) (ms : MSt) (k : Key) :
    cnt (ms.enter cfg k).infl k = cnt ms.infl k + 1 := by
  simp only [MSt.enter, hrep, if_true]; exact sq_cnt_aset_self _ _ _
theorem enter_infl_other (cfg : MCfg) (ms : MSt) (k x : Key) (h : x ≠ k) :
    cnt (ms.enter cfg k).infl x = cnt ms.infl x := by
  unfold MSt.enter; split
  · exact sq_cnt_aset_other _ _ _ _ h
  · rfl

theorem sweep_pend (cfg : MCfg) (ms : MSt) (op : OpK) : (ms.sweep cfg op).pend = ms.pend := rfl
theorem sweep_epoch (cfg : MCfg) (ms : MSt) (op : OpK) : (ms.sweep cfg op).epoch = ms.epoch := rfl
theorem sweep_infl (cfg : MCfg) (ms : MSt) (op : OpK) : (ms.sweep cfg op).infl = ms.infl := rfl

/-- sweeping commutes with entering -/
theorem sweep_enter (cfg : MCfg) (ms : MSt) (k : Key) (op : OpK) :
    ((ms.enter cfg k).sweep cfg op).tiers = (ms.sweep cfg op).tiers ∧
    ((ms.enter cfg k).sweep cfg op).back = (ms.sweep cfg op).back := by
  constructor <;> (unfold MSt.sweep; simp only [enter_tiers, enter_back])

theorem msetPend_infl (ms : MSt) (i : Nat) (p : MPend) : (ms.setPend i p).infl = ms.infl := rfl
theorem msetPend_epoch (ms : MSt) (i : Nat) (p : MPend) : (ms.setPend i p).epoch = ms.epoch := rfl
theorem msetPend_back (ms : MSt) (i : Nat) (p : MPend) : (ms.setPend i p).back = ms.back := rfl
theorem msetPend_tiers (ms : MSt) (i : Nat) (p : MPend) : (ms.setPend i p).tiers = ms.tiers := rfl
theorem msetPend_pend (ms : MSt) (i : Nat) (p : MPend) : (ms.setPend i p).pend = ms.pend ++ [(i, p)] := rfl

/-! ### the first segment of every operation -/

/-- `i`'s first segment may run: it has not started and its table entry is `op` -/
structure MAdm (g : Gh) (i : Nat) (op : MOp) : Prop where
  fresh : i ∉ g.started
  tab : (i, op.toOpK) ∈ g.ops

theorem mraw_start (cfg : MCfg) (hrep : cfg.rep = true) {g : Gh} {ms : MSt} (h : MInv g ms) (i : Nat) (op : MOp)
    (now : Nat) (ha : MAdm g i op) (o : Obs) (hoi : o.i = i) (hor : o.res = (mstart cfg ms i op now).2) :
    MInv (g.ext o [i]) (mstart cfg ms i op now).1 := by
  obtain ⟨hi, hop⟩ := ha
  have hnoI : ∀ (t : Nat) (s : St), ms.tiers[t]? = some s → ∀ q, (i, q) ∉ s.pend := by
    intro t s hs q hq
    exact hi (h.vi.tp t s hs _ hq).1
  have sameTiers : ∀ (t : Nat) (s' : St), ms.tiers[t]? = some s' → ∃ s : St, ms.tiers[t]? = some s ∧
      s'.cache = s.cache ∧ s'.dirty = s.dirty ∧
      ∀ x ∈ s'.pend, x ∈ s.pend ∨ (x.1 = i ∧ ((∃ v, x.2 = Pend.getHit v) ∨ ∃ k e, x.2 = Pend.getMiss k e)) :=
    fun t s' hs' => ⟨s', hs', rfl, rfl, fun x hx => Or.inl hx⟩
  -- a tier-level `get` started on tier `t`
  have tierStart : ∀ (ms1 : MSt) (t k : Nat), ms1.tiers = ms.tiers → ms1.back = ms.back →
      ms1.pend = ms.pend → ms1.infl = ms.infl → ms1.epoch = ms.epoch →
      let r := (onTier cfg ms1 t (fun c s => start c s i (.get k) now)).1
      r.pend = ms.pend ∧ r.infl = ms.infl ∧ r.epoch = ms.epoch ∧ r.back = ms.back ∧
      (∀ (t' : Nat) (s' : St), r.tiers[t']? = some s' → ∃ s : St, ms.tiers[t']? = some s ∧
        s'.cache = s.cache ∧ s'.dirty = s.dirty ∧
        (∀ x ∈ s'.pend, x ∈ s.pend ∨ (x.1 = i ∧ ((∃ v, x.2 = Pend.getHit v) ∨ ∃ k e, x.2 = Pend.getMiss k e))) ∧
        (t' = t → ∀ q, (i, q) ∈ s'.pend →
          (∃ v, q = Pend.getHit v ∧ aget? s.cache k = some v) ∨ (∃ e, q = Pend.getMiss k e ∧ aget? s.cache k = none))) := by
    intro ms1 t k e1 e2 e3 e4 e5
    rcases onTier_cases cfg ms1 t (fun c s => start c s i (.get k) now) with ⟨c, s, hc, hs, e⟩ | e
    · rw [e]
      obtain ⟨g1, g2, g3, g4⟩ := startGet_nb c (plug s ms1.back) i k now
      refine ⟨e3, e4, e5, by show (start c (plug s ms1.back) i (.get k) now).1.back = _; rw [g3]; exact e2, ?_⟩
      intro t' s' hs'
      have hs' : (ms1.tiers.set t (start c (plug s ms1.back) i (.get k) now).1)[t']? = some s' := hs'
      rcases getElem?_set_cases hs' with ⟨et, es⟩ | ⟨_, hold⟩
      · subst et; subst es
        rw [e1] at hs
        refine ⟨s, hs, g1, g2, ?_, ?_⟩
        · intro x hx
          rcases g4 with ⟨v, _, hp⟩ | ⟨e', _, hp⟩
          · rw [hp] at hx
            rcases List.mem_append.mp hx with hx | hx
            · exact Or.inl hx
            · simp only [List.mem_singleton] at hx; subst hx; exact Or.inr ⟨rfl, Or.inl ⟨v, rfl⟩⟩
          · rw [hp] at hx
            rcases List.mem_append.mp hx with hx | hx
            · exact Or.inl hx
            · simp only [List.mem_singleton] at hx; subst hx; exact Or.inr ⟨rfl, Or.inr ⟨k, e', rfl⟩⟩
        · intro _ q hq
          rcases g4 with ⟨v, hv, hp⟩ | ⟨e', hv, hp⟩
          · rw [hp] at hq
            rcases List.mem_append.mp hq with hq | hq
            · exact absurd hq (hnoI t' s hs q)
            · simp only [List.mem_singleton, Prod.mk.injEq, true_and] at hq
              exact Or.inl ⟨v, hq, hv⟩
          · rw [hp] at hq
            rcases List.mem_append.mp hq with hq | hq
            · exact absurd hq (hnoI t' s hs q)
            · simp only [List.mem_singleton, Prod.mk.injEq, true_and] at hq
              exact Or.inr ⟨e', hq, hv⟩
      · rw [e1] at hold
        exact ⟨s', hold, rfl, rfl, fun x hx => Or.inl hx, fun et => absurd et ‹t' ≠ t›⟩
    · rw [e]
      refine ⟨e3, e4, e5, e2, ?_⟩
      intro t' s' hs'
      rw [e1] at hs'
      exact ⟨s', hs', rfl, rfl, fun x hx => Or.inl hx, fun _ q hq => absurd hq (hnoI t' s' hs' q)⟩
  cases op with
  | get k =>
    have hop : (i, OpK.get k) ∈ g.ops := hop
    unfold mstart at hor ⊢
    cases hf : firstHit k ms.tiers 0 with
    | some t =>
      simp only [hf] at hor ⊢
      obtain ⟨j, sh, ej, hsh, hkh⟩ := firstHit_some k ms.tiers 0 t hf
      have ej : t = j := by omega
      subst ej
      obtain ⟨r1, r2, r3, r4, r5⟩ := tierStart { ms with acc := aset ms.acc k (cnt ms.acc k + 1) } t k rfl rfl rfl rfl rfl
      refine mext_start (extra := [(i, .tierGet t k (cnt ms.epoch k))]) h hi hop hoi
        (by rw [msetPend_pend, r1]) (Or.inr ⟨_, rfl, hor, rfl⟩) (by rw [hor]; intro hh; cases hh)
        (fun k' hk' => by simp [wk, wkv] at hk')
        (fun k' => by rw [msetPend_infl, r2]; simp [inflCount, inflKey])
        (fun k' => by rw [msetPend_epoch, r3]; exact Nat.le_refl _)
        (fun k' hk' => by simp [wk, wkv] at hk') (fun k' _ => by rw [msetPend_epoch, r3])
        (by rw [msetPend_back, r4])
        (fun t' s' hs' => by
          rw [msetPend_tiers] at hs'
          obtain ⟨s, a1, a2, a3, a4, _⟩ := r5 t' s' hs'
          exact ⟨s, a1, a2, a3, a4⟩) ?_
      intro t0 k0 e0 hm
      simp only [List.mem_singleton, Prod.mk.injEq, MPend.tierGet.injEq, true_and] at hm
      obtain ⟨rfl, rfl, rfl⟩ := hm
      refine ⟨rfl, ?_⟩
      intro s' q hs' hq
      rw [msetPend_tiers] at hs'
      obtain ⟨s, a1, _, _, _, a5⟩ := r5 t0 s' hs'
      rcases a5 rfl q hq with ⟨v, hq', hv⟩ | ⟨e', _, hv⟩
      · exact ⟨v, s, hq', a1, hv⟩
      · -- the tier holds the key, so the tier-level `get` is a hit
        rw [a1] at hsh; cases hsh
        exact absurd hkh ((aget?_none_iff _ _).mp hv)
    | none =>
      simp only [hf] at hor ⊢
      exact mext_start (extra := [(i, .backGet k (cnt ms.epoch k))]) h hi hop hoi rfl
        (Or.inr ⟨_, rfl, hor, rfl⟩) (by rw [hor]; intro hh; cases hh)
        (fun k' hk' => by simp [wk, wkv] at hk')
        (fun k' => by simp [inflCount, inflKey, MSt.setPend])
        (fun k' => Nat.le_refl _) (fun k' hk' => by simp [wk, wkv] at hk') (fun k' _ => rfl) rfl
        sameTiers (fun t0 k0 e0 hm => by simp at hm)
  | put k v =>
    have hop : (i, OpK.put k v) ∈ g.ops := hop
    unfold mstart at hor ⊢
    simp only at hor ⊢
    refine mext_start (extra := [(i, .putBack k v)]) h hi hop hoi
      (by show (ms.enter cfg k).pend ++ _ = _; rw [enter_pend]) (Or.inr ⟨_, rfl, hor, ⟨rfl, rfl⟩⟩)
      (by rw [hor]; intro hh; cases hh) ?_ ?_ ?_ ?_ ?_ (by show (ms.enter cfg k).back = _; rw [enter_back])
      (by intro t s' hs'; have hs' : (ms.enter cfg k).tiers[t]? = some s' := hs'; rw [enter_tiers] at hs'; exact sameTiers t s' hs')
      (fun t0 k0 e0 hm => by simp at hm)
    · intro k' hk'
      have e := (wk_put k v k').mp hk'
      subst e
      exact ⟨.putBack k' v, by show _ ∈ (ms.enter cfg k').pend ++ _; simp, rfl⟩
    · intro x
      show cnt (ms.enter cfg k).infl x = _
      by_cases e : x = k
      · subst e; rw [enter_infl_self cfg hrep]; simp [inflCount, inflKey]
      · rw [enter_infl_other cfg _ _ _ e]
        have : ¬ k = x := fun e' => e e'.symm
        simp [inflCount, inflKey, this]
    · intro x
      show _ ≤ cnt (ms.enter cfg k).epoch x
      by_cases e : x = k
      · subst e; rw [enter_epoch_self cfg hrep]; omega
      · rw [enter_epoch_other cfg _ _ _ e]; exact Nat.le_refl _
    · intro x hx
      have e := (wk_put k v x).mp hx
      subst e
      show _ < cnt (ms.enter cfg x).epoch x
      rw [enter_epoch_self cfg hrep]; omega
    · intro x hx
      show cnt (ms.enter cfg k).epoch x = _
      exact enter_epoch_other cfg _ _ _ (fun e => hx ((wk_put k v x).mpr e))
  | del k =>
    have hop : (i, OpK.del k) ∈ g.ops := hop
    unfold mstart at hor ⊢
    simp only at hor ⊢
    have hsw := minv_sweep cfg h (.inv k) (Or.inl ⟨k, rfl⟩)
    obtain ⟨et, eb⟩ := sweep_enter cfg ms k (.inv k)
    refine mext_start (msm := ms.sweep cfg (.inv k)) (extra := [(i, .delBack k)]) hsw hi hop hoi
      (by show (ms.enter cfg k).pend ++ _ = _; rw [enter_pend]; rfl) (Or.inr ⟨_, rfl, hor, rfl⟩)
      (by rw [hor]; intro hh; cases hh) ?_ ?_ ?_ ?_ ?_ eb
      (by intro t s' hs'; have hs' : ((ms.enter cfg k).sweep cfg (.inv k)).tiers[t]? = some s' := hs'
          rw [et] at hs'; exact ⟨s', hs', rfl, rfl, fun x hx => Or.inl hx⟩)
      (fun t0 k0 e0 hm => by simp at hm)
    · intro k' hk'
      have e := (wk_del k k').mp hk'
      subst e
      exact ⟨.delBack k', by show _ ∈ (ms.enter cfg k').pend ++ _; simp, rfl⟩
    · intro x
      show cnt (ms.enter cfg k).infl x = cnt ms.infl x + _
      by_cases e : x = k
      · subst e; rw [enter_infl_self cfg hrep]; simp [inflCount, inflKey]
      · rw [enter_infl_other cfg _ _ _ e]
        have : ¬ k = x := fun e' => e e'.symm
        simp [inflCount, inflKey, this]
    · intro x
      show cnt ms.epoch x ≤ cnt (ms.enter cfg k).epoch x
      by_cases e : x = k
      · subst e; rw [enter_epoch_self cfg hrep]; omega
      · rw [enter_epoch_other cfg _ _ _ e]; exact Nat.le_refl _
    · intro x hx
      have e := (wk_del k x).mp hx
      subst e
      show cnt ms.epoch x < cnt (ms.enter cfg x).epoch x
      rw [enter_epoch_self cfg hrep]; omega
    · intro x hx
      show cnt (ms.enter cfg k).epoch x = cnt ms.epoch x
      exact enter_epoch_other cfg _ _ _ (fun e => hx ((wk_del k x).mpr e))
  | inv k =>
    have hop : (i, OpK.inv k) ∈ g.ops := hop
    unfold mstart
    simp only
    have hsw := minv_sweep cfg h (.inv k) (Or.inl ⟨k, rfl⟩)
    exact mext_start (msm := ms.sweep cfg (.inv k)) (extra := []) hsw hi hop hoi (by simp) (Or.inl rfl)
      (fun _ k' e => by cases e) (fun k' hk' => by simp [wk, wkv] at hk')
      (fun k' => by simp [inflCount]) (fun k' => Nat.le_refl _) (fun k' hk' => by simp [wk, wkv] at hk')
      (fun k' _ => rfl) rfl (fun t s' hs' => ⟨s', hs', rfl, rfl, fun x hx => Or.inl hx⟩)
      (fun t0 k0 e0 hm => by cases hm)
  | invAll =>
    have hop : (i, OpK.invAll) ∈ g.ops := hop
    unfold mstart
    simp only
    have hsw := minv_sweep cfg h .invAll (Or.inr rfl)
    exact mext_start (msm := ms.sweep cfg .invAll) (extra := []) hsw hi hop hoi (by simp) (Or.inl rfl)
      (fun _ k' e => by cases e) (fun k' hk' => by simp [wk, wkv] at hk')
      (fun k' => by simp [inflCount]) (fun k' => Nat.le_refl _) (fun k' hk' => by simp [wk, wkv] at hk')
      (fun k' _ => rfl) rfl (fun t s' hs' => ⟨s', hs', rfl, rfl, fun x hx => Or.inl hx⟩)
      (fun t0 k0 e0 hm => by cases hm)
  | tget t k =>
    have hop : (i, OpK.inv k) ∈ g.ops := hop
    unfold mstart at hor ⊢
    simp only at hor ⊢
    obtain ⟨r1, r2, r3, r4, r5⟩ := tierStart ms t k rfl rfl rfl rfl rfl
    exact mext_start (extra := [(i, .direct t)]) h hi hop hoi
      (by rw [msetPend_pend, r1]) (Or.inr ⟨_, rfl, hor, trivial⟩) (by rw [hor]; intro hh; cases hh)
      (fun k' hk' => by simp [wk, wkv] at hk')
      (fun k' => by rw [msetPend_infl, r2]; simp [inflCount, inflKey])
      (fun k' => by rw [msetPend_epoch, r3]; exact Nat.le_refl _)
      (fun k' hk' => by simp [wk, wkv] at hk') (fun k' _ => by rw [msetPend_epoch, r3])
      (by rw [msetPend_back, r4])
      (fun t' s' hs' => by
        rw [msetPend_tiers] at hs'
        obtain ⟨s, a1, a2, a3, a4, _⟩ := r5 t' s' hs'
        exact ⟨s, a1, a2, a3, a4⟩)
      (fun t0 k0 e0 hm => by simp at hm)

end HappyModel.C16.Tier
