import HappyProofs.C16.PolicyLaws
import HappyProofs.C16.PolicyLawsA
/-!
Per-policy laws of segmented LRU, 2Q, sampled LRU and Clock.
-/
namespace HappyModel.C16

/-! ### two key lists side by side (SLRU, 2Q) -/

theorem two_move {a b : List Key} {k : Key} (h : (a ++ b).Nodup) (hk : k ∈ a ++ b) :
    (a.erase k ++ (b.erase k ++ [k])).Nodup ∧
      ∀ x, x ∈ a.erase k ++ (b.erase k ++ [k]) ↔ x ∈ a ++ b := by
  obtain ⟨ha, hb, hab⟩ := List.nodup_append.mp h
  constructor
  · rw [List.nodup_append]
    refine ⟨ha.erase k, nodup_erase_append hb, ?_⟩
    intro x hx y hy
    rw [mem_erase_iff' ha] at hx
    rw [List.mem_append, mem_erase_iff' hb, List.mem_singleton] at hy
    rcases hy with ⟨hy, _⟩ | hy
    · exact hab x hx.1 y hy
    · intro e; exact hx.2 (e.trans hy)
  · intro x
    simp only [List.mem_append, mem_erase_iff' ha, mem_erase_iff' hb, List.mem_singleton] at hk ⊢
    by_cases e : x = k
    · subst e; simp [hk]
    · simp [e]

theorem two_move_right {a b : List Key} {k : Key} (h : (a ++ b).Nodup) (hk : k ∈ b) :
    (a ++ (b.erase k ++ [k])).Nodup ∧ ∀ x, x ∈ a ++ (b.erase k ++ [k]) ↔ x ∈ a ++ b := by
  have hna : k ∉ a := fun hka => (List.nodup_append.mp h).2.2 k hka k hk rfl
  have := two_move h (List.mem_append_right a hk)
  rwa [List.erase_of_not_mem hna] at this

theorem two_insert_mid {a b : List Key} {k : Key} (h : (a ++ b).Nodup) (hk : k ∉ a ++ b) :
    ((a ++ [k]) ++ b).Nodup ∧ ∀ x, x ∈ (a ++ [k]) ++ b ↔ x = k ∨ x ∈ a ++ b := by
  obtain ⟨ha, hb, hab⟩ := List.nodup_append.mp h
  simp only [List.mem_append, not_or] at hk
  constructor
  · rw [List.nodup_append]
    refine ⟨nodup_append_singleton ha hk.1, hb, ?_⟩
    intro x hx y hy
    rw [List.mem_append, List.mem_singleton] at hx
    rcases hx with hx | hx
    · exact hab x hx y hy
    · intro e; exact hk.2 (hx ▸ e ▸ hy)
  · intro x
    simp only [List.mem_append, List.mem_singleton]
    constructor
    · rintro ((hx | hx) | hx)
      · exact Or.inr (Or.inl hx)
      · exact Or.inl hx
      · exact Or.inr (Or.inr hx)
    · rintro (hx | hx | hx)
      · exact Or.inl (Or.inr hx)
      · exact Or.inl (Or.inl hx)
      · exact Or.inr hx

theorem two_insert_right {a b : List Key} {k : Key} (h : (a ++ b).Nodup) (hk : k ∉ a ++ b) :
    (a ++ (b ++ [k])).Nodup ∧ ∀ x, x ∈ a ++ (b ++ [k]) ↔ x = k ∨ x ∈ a ++ b := by
  rw [← List.append_assoc]; exact list_insert_law h hk

theorem two_remove {a b : List Key} (k : Key) (h : (a ++ b).Nodup) :
    (a.erase k ++ b.erase k).Nodup ∧ ∀ x, x ∈ a.erase k ++ b.erase k ↔ x ∈ a ++ b ∧ x ≠ k := by
  obtain ⟨ha, hb, _⟩ := List.nodup_append.mp h
  refine ⟨h.sublist (List.Sublist.append List.erase_sublist List.erase_sublist), fun x => ?_⟩
  simp only [List.mem_append, mem_erase_iff' ha, mem_erase_iff' hb]
  constructor
  · rintro (⟨hx, hne⟩ | ⟨hx, hne⟩)
    · exact ⟨Or.inl hx, hne⟩
    · exact ⟨Or.inr hx, hne⟩
  · rintro ⟨hx | hx, hne⟩
    · exact Or.inl ⟨hx, hne⟩
    · exact Or.inr ⟨hx, hne⟩

/-! ### Segmented LRU -/

theorem slru_access (s : SLRU) (h : (Pol.slru s).Inv) (k : Key) :
    ((Pol.slru s).access k).Inv ∧
      ∀ x, x ∈ ((Pol.slru s).access k).tracked ↔ x ∈ (Pol.slru s).tracked := by
  simp only [Pol.Inv, Pol.access, Pol.tracked, SLRU.access] at *
  split
  · rename_i hk; exact two_move h (List.mem_append_left _ hk)
  · split
    · rename_i hk; exact two_move_right h hk
    · exact ⟨h, fun _ => Iff.rfl⟩

theorem slru_insert (s : SLRU) (h : (Pol.slru s).Inv) (k now : Nat) (hk : k ∉ (Pol.slru s).tracked) :
    ((Pol.slru s).insert k now).Inv ∧
      ∀ x, x ∈ ((Pol.slru s).insert k now).tracked ↔ x = k ∨ x ∈ (Pol.slru s).tracked := by
  simp only [Pol.Inv, Pol.insert, Pol.tracked, SLRU.insert] at *
  rw [if_neg (fun hp => hk (List.mem_append_left _ hp))]
  exact two_insert_mid h hk

theorem slru_remove (s : SLRU) (h : (Pol.slru s).Inv) (k : Key) :
    ((Pol.slru s).remove k).Inv ∧
      ∀ x, x ∈ ((Pol.slru s).remove k).tracked ↔ x ∈ (Pol.slru s).tracked ∧ x ≠ k := by
  simp only [Pol.Inv, Pol.remove, Pol.tracked, SLRU.remove] at *
  exact two_remove k h

theorem slru_evict (s : SLRU) (h : (Pol.slru s).Inv) (now : Nat) (pick : List Key) :
    EvictOk (.slru s) now pick := by
  obtain ⟨a, b⟩ := s
  simp only [EvictOk, Pol.Inv, Pol.evict, Pol.tracked, SLRU.evict] at *
  cases a with
  | cons c r =>
    refine ⟨by simp, by simp, ?_⟩
    intro k hk
    simp only [Option.some.injEq] at hk; subst hk
    exact ⟨List.mem_cons_self, list_head_law h⟩
  | nil =>
    cases b with
    | nil => simp
    | cons c r =>
      refine ⟨by simp, by simp, ?_⟩
      intro k hk
      simp only [Option.some.injEq] at hk; subst hk
      exact ⟨List.mem_cons_self, list_head_law h⟩

/-! ### 2Q -/

theorem twoq_access (s : TwoQ) (h : (Pol.twoq s).Inv) (k : Key) :
    ((Pol.twoq s).access k).Inv ∧
      ∀ x, x ∈ ((Pol.twoq s).access k).tracked ↔ x ∈ (Pol.twoq s).tracked := by
  simp only [Pol.Inv, Pol.access, Pol.tracked, TwoQ.access] at *
  split
  · rename_i hk; exact two_move_right h hk
  · exact ⟨h, fun _ => Iff.rfl⟩

theorem twoq_insert (s : TwoQ) (h : (Pol.twoq s).Inv) (k now : Nat) (hk : k ∉ (Pol.twoq s).tracked) :
    ((Pol.twoq s).insert k now).Inv ∧
      ∀ x, x ∈ ((Pol.twoq s).insert k now).tracked ↔ x = k ∨ x ∈ (Pol.twoq s).tracked := by
  simp only [Pol.Inv, Pol.insert, Pol.tracked, TwoQ.insert] at *
  split
  · rw [if_neg (fun hp => hk (List.mem_append_right _ hp))]
    exact two_insert_right h hk
  · exact two_insert_mid h hk

theorem twoq_remove (s : TwoQ) (h : (Pol.twoq s).Inv) (k : Key) :
    ((Pol.twoq s).remove k).Inv ∧
      ∀ x, x ∈ ((Pol.twoq s).remove k).tracked ↔ x ∈ (Pol.twoq s).tracked ∧ x ≠ k := by
  simp only [Pol.Inv, Pol.remove, Pol.tracked, TwoQ.remove] at *
  exact two_remove k h

theorem twoq_evict (s : TwoQ) (h : (Pol.twoq s).Inv) (now : Nat) (pick : List Key) :
    EvictOk (.twoq s) now pick := by
  obtain ⟨a, o, b⟩ := s
  simp only [EvictOk, Pol.Inv, Pol.evict, Pol.tracked, TwoQ.evict] at *
  cases a with
  | cons c r =>
    refine ⟨by simp, by simp, ?_⟩
    intro k hk
    simp only [Option.some.injEq] at hk; subst hk
    exact ⟨List.mem_cons_self, list_head_law h⟩
  | nil =>
    cases b with
    | nil => simp
    | cons c r =>
      refine ⟨by simp, by simp, ?_⟩
      intro k hk
      simp only [Option.some.injEq] at hk; subst hk
      exact ⟨List.mem_cons_self, list_head_law h⟩

/-! ### Sampled LRU -/

theorem sampled_access (s : Sampled) (h : (Pol.sampled s).Inv) (k : Key) :
    ((Pol.sampled s).access k).Inv ∧
      ∀ x, x ∈ ((Pol.sampled s).access k).tracked ↔ x ∈ (Pol.sampled s).tracked := by
  simp only [Pol.Inv, Pol.access, Pol.tracked, Sampled.access] at *
  split
  · rename_i hk
    rw [akeys_aset_mem _ _ _ hk]
    exact ⟨h, fun _ => Iff.rfl⟩
  · exact ⟨h, fun _ => Iff.rfl⟩

theorem sampled_insert (s : Sampled) (h : (Pol.sampled s).Inv) (k now : Nat)
    (hk : k ∉ (Pol.sampled s).tracked) :
    ((Pol.sampled s).insert k now).Inv ∧
      ∀ x, x ∈ ((Pol.sampled s).insert k now).tracked ↔ x = k ∨ x ∈ (Pol.sampled s).tracked := by
  simp only [Pol.Inv, Pol.insert, Pol.tracked, Sampled.insert] at *
  exact aset_insert_law _ _ _ h hk

theorem sampled_remove (s : Sampled) (h : (Pol.sampled s).Inv) (k : Key) :
    ((Pol.sampled s).remove k).Inv ∧
      ∀ x, x ∈ ((Pol.sampled s).remove k).tracked ↔ x ∈ (Pol.sampled s).tracked ∧ x ≠ k := by
  simp only [Pol.Inv, Pol.remove, Pol.tracked, Sampled.remove] at *
  exact adel_remove_law _ _ h

theorem sampled_sample_nil (s : Sampled) (pick : List Key) : s.sample pick = [] ↔ s.times = [] := by
  simp only [Sampled.sample]
  split
  · exact Iff.rfl
  · rename_i hc
    constructor
    · intro e; rw [e] at hc; simp at hc
    · intro e; rw [e]; rfl

theorem sampled_sample_mem (s : Sampled) (pick : List Key) (p : Key × Nat) (h : p ∈ s.sample pick) :
    p ∈ s.times := by
  simp only [Sampled.sample] at h
  split at h
  · exact h
  · exact (List.mem_filter.mp h).1

theorem sampled_evict (s : Sampled) (h : (Pol.sampled s).Inv) (now : Nat) (pick : List Key) :
    EvictOk (.sampled s) now pick := by
  simp only [EvictOk, Pol.Inv, Pol.evict, Pol.tracked, Sampled.evict] at *
  cases hc : argminFirst (s.sample pick) with
  | none =>
    simp [(sampled_sample_nil s pick).mp ((argminFirst_eq_none _).mp hc), akeys_nil]
  | some p =>
    have hm := sampled_sample_mem _ _ _ (argminFirst_mem _ _ hc)
    refine ⟨(by simp [akeys_eq_nil]; intro e; rw [e] at hm; cases hm), by simp, ?_⟩
    intro k hk
    simp only [Option.some.injEq] at hk; subst hk
    exact ⟨mem_akeys_of_mem hm, adel_remove_law _ _ h⟩

/-! ### Clock -/

/-- the hand stays inside the ring -/
def ClockHand (ring : List (Key × Bool)) (hand : Nat) : Prop :=
  (ring = [] → hand = 0) ∧ (ring ≠ [] → hand < ring.length)

theorem fixHand_ok (r : List (Key × Bool)) (hand : Nat) (h0 : r = [] → hand = 0) :
    ClockHand r (Clock.fixHand r hand) := by
  simp only [ClockHand, Clock.fixHand]
  constructor
  · intro e; simp [e, h0 e]
  · intro hne
    have hpos : 0 < r.length := List.length_pos_iff.mpr hne
    by_cases hl : r.length ≤ hand
    · simp [hl, hne, hpos]
    · simp [hl]; omega

theorem clock_access (s : Clock) (h : (Pol.clock s).Inv) (k : Key) :
    ((Pol.clock s).access k).Inv ∧
      ∀ x, x ∈ ((Pol.clock s).access k).tracked ↔ x ∈ (Pol.clock s).tracked := by
  simp only [Pol.Inv, Pol.access, Pol.tracked, Clock.access] at *
  rw [akeys_map_upd, List.length_map]
  refine ⟨?_, fun _ => Iff.rfl⟩
  simpa only [ne_eq, List.map_eq_nil_iff] using h

theorem clock_insert (s : Clock) (h : (Pol.clock s).Inv) (k now : Nat) (hk : k ∉ (Pol.clock s).tracked) :
    ((Pol.clock s).insert k now).Inv ∧
      ∀ x, x ∈ ((Pol.clock s).insert k now).tracked ↔ x = k ∨ x ∈ (Pol.clock s).tracked := by
  simp only [Pol.Inv, Pol.insert, Pol.tracked, Clock.insert] at *
  rw [if_neg hk]
  obtain ⟨hn, h0, h1⟩ := h
  have e : akeys (s.ring ++ [(k, true)]) = akeys s.ring ++ [k] := akeys_append _ _
  simp only [e]
  obtain ⟨l1, l2⟩ := list_insert_law hn hk
  refine ⟨⟨l1, by simp, fun _ => ?_⟩, l2⟩
  by_cases hr : s.ring = []
  · simp [hr, h0 hr]
  · have := h1 hr; simp; omega

theorem clock_remove (s : Clock) (h : (Pol.clock s).Inv) (k : Key) :
    ((Pol.clock s).remove k).Inv ∧
      ∀ x, x ∈ ((Pol.clock s).remove k).tracked ↔ x ∈ (Pol.clock s).tracked ∧ x ≠ k := by
  simp only [Pol.Inv, Pol.remove, Pol.tracked, Clock.remove] at *
  obtain ⟨hn, h0, h1⟩ := h
  split
  · rename_i hk
    obtain ⟨l1, l2⟩ := adel_remove_law s.ring k hn
    have hne : s.ring ≠ [] := fun e => by rw [e] at hk; cases hk
    have hh := fixHand_ok (adel s.ring k) s.hand (fun e => by
      have := length_le_adel s.ring k hn
      have := h1 hne
      rw [e] at *; simp at *; omega)
    exact ⟨⟨l1, hh.1, hh.2⟩, l2⟩
  · rename_i hk
    exact ⟨⟨hn, h0, h1⟩, fun x => ⟨fun hx => ⟨hx, fun e => hk (e ▸ hx)⟩, fun hx => hx.1⟩⟩

/-- what a successful scan returns, in terms of the key list before it -/
def ClockRes (ks : List Key) (res : Option Key × Clock) : Prop :=
  ∃ i k, ks[i]? = some k ∧ res.1 = some k ∧ akeys res.2.ring = ks.eraseIdx i ∧
    ClockHand res.2.ring res.2.hand

theorem clock_take_spec (ring : List (Key × Bool)) (hand : Nat) (h : hand < ring.length) :
    ClockRes (akeys ring) (Clock.take ring hand) := by
  simp only [Clock.take, List.getElem?_eq_getElem h]
  refine ⟨hand, ring[hand].1, ?_, rfl, akeys_eraseIdx _ _, fixHand_ok _ _ ?_⟩
  · simp [akeys, h]
  · intro e
    rw [List.eraseIdx_eq_nil_iff] at e
    rcases e with e | ⟨_, e⟩
    · rw [e] at h; simp at h
    · exact e

theorem clock_scan_spec (fuel : Nat) (ring : List (Key × Bool)) (hand : Nat) (h : hand < ring.length) :
    ClockRes (akeys ring) (Clock.scan fuel ring hand) := by
  induction fuel generalizing ring hand with
  | zero => exact clock_take_spec ring hand h
  | succ n ih =>
    simp only [Clock.scan, List.getElem?_eq_getElem h]
    split
    · have e := akeys_set_fst ring hand ring[hand] false (List.getElem?_eq_getElem h)
      rw [← e]
      apply ih
      rw [List.length_set]; exact Nat.mod_lt _ (by omega)
    · exact clock_take_spec ring hand h

theorem clock_evict (s : Clock) (h : (Pol.clock s).Inv) (now : Nat) (pick : List Key) :
    EvictOk (.clock s) now pick := by
  obtain ⟨ring, hand⟩ := s
  simp only [EvictOk, Pol.Inv, Pol.evict, Pol.tracked, Clock.evict] at *
  obtain ⟨hn, h0, h1⟩ := h
  by_cases hre : ring = []
  · subst hre; simp [akeys_nil]
  · have hie : ring.isEmpty = false := by simpa [List.isEmpty_iff] using hre
    simp only [hie, Bool.false_eq_true, if_false]
    have hs := clock_scan_spec (2 * ring.length) ring hand (h1 hre)
    generalize Clock.scan (2 * ring.length) ring hand = res at hs ⊢
    obtain ⟨i, k, hi, hr, hk, hh⟩ := hs
    refine ⟨?_, ?_, ?_⟩
    · simp [hr, akeys_eq_nil, hre]
    · intro e; rw [hr] at e; cases e
    · intro k' hk'
      rw [hr] at hk'; simp only [Option.some.injEq] at hk'; subst hk'
      refine ⟨List.mem_of_getElem? hi, ⟨?_, hh.1, hh.2⟩, ?_⟩
      · rw [hk]; exact hn.eraseIdx i
      · intro x; rw [hk]; exact mem_eraseIdx_nodup hn i k hi x

end HappyModel.C16
