import HappyProofs.C16.TRawB
/-!
Multi-tier read-after-write over every interleaving, part 3: extending the context by one
observation (`mext_same` for a later segment, `mext_start` for a first segment).
-/
namespace HappyModel.C16.Tier
open HappyModel.C16

structure MInv (g : Gh) (ms : MSt) : Prop where
  gi : GI g
  pi : MPI g ms
  vi : MVI g ms
  lim : Limbo g ms

theorem inflCount_append (a b : List (Nat × MPend)) (k : Key) :
    inflCount (a ++ b) k = inflCount a k + inflCount b k := by
  simp [inflCount, List.filter_append]

/-- a completed operation has nothing pending -/
theorem not_bpm_of_cb {g : Gh} {ms : MSt} (pi : MPI g ms) {j r : Nat} (k : Key) (h : CompletedBefore g.evs j r) :
    ¬ BPm ms k j := by
  rintro ⟨p, hp, _⟩
  obtain ⟨e, he, _⟩ := h
  have := (pi.pendS (j, p) hp).2
  rw [he] at this; cases this

/-! ### a later segment -/

theorem mext_same {g : Gh} {ms : MSt} (gi : GI g) (pi : MPI g ms) (vi : MVI g ms) (o : Obs)
    (hl : LimboX g ms (if o.res.isSome then some o.i else none))
    (hres : o.res.isSome → ∀ x ∈ ms.pend, x.1 ≠ o.i)
    (htp : o.res.isSome → ∀ (t : Nat) (s : St), ms.tiers[t]? = some s → ∀ x ∈ s.pend,
      (∃ k v, x.2 = Pend.putWT k v) → x.1 ≠ o.i)
    (hst : o.res.isSome → o.i ∈ g.started)
    (hd : ∀ k rs, (o.i, OpK.get k) ∈ g.ops → o.res.isSome → endIdx g.evs o.i = none →
      firstIdx (g.evs ++ [o]) o.i = some rs →
      ∃ v, o.res = some (resOf v) ∧ ReadGood g.ops (g.evs ++ [o]) k rs g.evs.length v) :
    MInv (g.ext o []) ms := by
  have hfx : ∀ {k v} {P P' : Nat → Prop}, (∀ j, j ∈ g.started → P' j → P j) → Fresh g k v P →
      Fresh (g.ext o []) k v P' := fun hP h =>
    Fresh.ext o [] gi.s1 hP (fun _ _ hj => by cases hj) h
  have hcbf : ∀ {r} {k v}, r ≤ g.evs.length → Fresh g k v (fun j => CompletedBefore g.evs j r) →
      Fresh (g.ext o []) k v (fun j => CompletedBefore (g.evs ++ [o]) j r) := fun hr hf =>
    hfx (fun j _ hc => (cb_snoc o hr).mp hc) hf
  have hnone : ∀ j, endIdx g.evs j = none → (o.res.isSome → j ≠ o.i) → endIdx (g.evs ++ [o]) j = none := by
    intro j h1 h2
    rw [endIdx_snoc_none o h1]
    split
    · rename_i hc
      simp only [Bool.and_eq_true, beq_iff_eq] at hc
      exact absurd hc.1.symm (h2 hc.2)
    · rfl
  refine ⟨gi_ext gi o [] (fun _ hj => by cases hj) (by simpa using hst) hd, ?_, ?_, ?_⟩
  rotate_left 2
  · intro j op k hj hm hk
    have hj' : j ∈ g.started := by simpa [Gh.ext] using hj
    rcases hl j op k hj' hm hk with h' | h' | h'
    · exact Or.inl h'
    · right; left
      cases he : endIdx g.evs j with
      | none => rw [he] at h'; cases h'
      | some e => show (endIdx (g.evs ++ [o]) j).isSome; rw [endIdx_snoc_some o he]; rfl
    · right; left
      split at h'
      · rename_i hsome
        cases h'
        show (endIdx (g.evs ++ [o]) o.i).isSome
        cases he : endIdx g.evs o.i with
        | some e => rw [endIdx_snoc_some o he]; rfl
        | none => rw [endIdx_snoc_none o he]; simp [hsome]
      · cases h'
  · refine ⟨?_, pi.pendND, pi.infl, pi.pb, pi.pl, pi.db, pi.dr, ?_, ?_⟩
    · intro x hx
      obtain ⟨h1, h2⟩ := pi.pendS x hx
      exact ⟨by simp only [Gh.ext, List.append_nil]; exact h1, hnone _ h2 (fun hs => hres hs x hx)⟩
    · intro i t k e hm
      obtain ⟨hop, rs, rh, h1, h2, h3, h4, h5, h6⟩ := pi.tg i t k e hm
      refine ⟨hop, rs, rh, firstIdx_snoc_some o h1, h2, ?_, h4, ?_, ?_⟩
      · simp only [Gh.ext, List.length_append, List.length_cons, List.length_nil]; omega
      · intro he j op hj hjm hk
        have hj' : j ∈ g.started := by simpa [Gh.ext] using hj
        rcases h5 he j op hj' hjm hk with h' | h'
        · exact Or.inl ((cb_snoc o h3).mpr h')
        · exact Or.inr h'
      · intro s q hs hq
        obtain ⟨v, hv, hf⟩ := h6 s q hs hq
        exact ⟨v, hv, hcbf h3 hf⟩
    · intro i k e hm
      obtain ⟨hop, rs, h1, hf⟩ := pi.bg i k e hm
      exact ⟨hop, rs, firstIdx_snoc_some o h1, hcbf (Nat.le_of_lt (firstIdx_lt h1)) hf⟩
  · refine ⟨fun t s hs k v hv => hfx (fun _ _ h => h) (vi.c t s hs k v hv),
      fun k => hfx (fun _ _ h => h) (vi.b k), vi.d, ?_⟩
    intro t s hs x hx
    obtain ⟨h1, h2⟩ := vi.tp t s hs x hx
    refine ⟨by simp only [Gh.ext, List.append_nil]; exact h1, ?_⟩
    rcases h2 with h2 | h2 | ⟨k, v, e1, e2, e3, e4⟩
    · exact Or.inl h2
    · exact Or.inr (Or.inl h2)
    · exact Or.inr (Or.inr ⟨k, v, e1, e2, e3, hnone _ e4 (fun hs' => htp hs' t s hs x hx ⟨k, v, e1⟩)⟩)

/-! ### a first segment -/

/-- the continuation a first segment of `op` may leave -/
def MPendOf : OpK → MPend → Prop
  | .get k, .tierGet _ k' _ => k' = k
  | .get k, .backGet k' _ => k' = k
  | .put k v, .putBack k' v' => k' = k ∧ v' = v
  | .del k, .delBack k' => k' = k
  | .inv _, .direct _ => True
  | _, _ => False

theorem mext_start {g : Gh} {msm ms' : MSt} {i : Nat} {op : OpK} {o : Obs} {extra : List (Nat × MPend)}
    (h : MInv g msm) (hi : i ∉ g.started) (hop : (i, op) ∈ g.ops) (hoi : o.i = i)
    (hpend : ms'.pend = msm.pend ++ extra)
    (hextra : extra = [] ∨ ∃ p, extra = [(i, p)] ∧ o.res = none ∧ MPendOf op p)
    (hres : o.res.isSome → ∀ k, op ≠ .get k)
    (hwres : ∀ k, wk op = some k → BPm ms' k i)
    (hinfl : ∀ k, cnt ms'.infl k = cnt msm.infl k + inflCount extra k)
    (hepoch : ∀ k, cnt msm.epoch k ≤ cnt ms'.epoch k)
    (hke : ∀ k, wk op = some k → cnt msm.epoch k < cnt ms'.epoch k)
    (hoe : ∀ k, wk op ≠ some k → cnt ms'.epoch k = cnt msm.epoch k)
    (hback : ms'.back = msm.back)
    (htiers : ∀ (t : Nat) (s' : St), ms'.tiers[t]? = some s' → ∃ s : St, msm.tiers[t]? = some s ∧
      s'.cache = s.cache ∧ s'.dirty = s.dirty ∧
      ∀ x ∈ s'.pend, x ∈ s.pend ∨ (x.1 = i ∧ ((∃ v, x.2 = Pend.getHit v) ∨ ∃ k e, x.2 = Pend.getMiss k e)))
    (htg : ∀ t k e, (i, MPend.tierGet t k e) ∈ extra → e = cnt msm.epoch k ∧
      ∀ (s' : St) (q : Pend), ms'.tiers[t]? = some s' → (i, q) ∈ s'.pend →
        ∃ v, ∃ s : St, q = Pend.getHit v ∧ msm.tiers[t]? = some s ∧ aget? s.cache k = some v) :
    MInv (g.ext o [i]) ms' := by
  obtain ⟨gi, pi, vi, lim⟩ := h
  have hi0 : endIdx g.evs i = none := gi.s2 i hi
  have hopu : ∀ op', (i, op') ∈ g.ops → op' = op := fun op' h => ops_unique gi.nd h hop
  have hmemS : ∀ j, j ∈ g.started → j ∈ (g.ext o [i]).started := fun j hj => by
    simp only [Gh.ext, List.mem_append]; exact Or.inl hj
  have hiS : i ∈ (g.ext o [i]).started := by simp [Gh.ext]
  have hstarted' : ∀ j, j ∈ (g.ext o [i]).started → j ∈ g.started ∨ j = i := by
    intro j hj
    simp only [Gh.ext, List.mem_append, List.mem_singleton] at hj
    exact hj
  have hpendOld : ∀ x ∈ msm.pend, x ∈ ms'.pend := fun x hx => by rw [hpend]; exact List.mem_append_left _ hx
  have hbpOld : ∀ k j, BPm msm k j → BPm ms' k j := fun k j ⟨p, hp, hk⟩ => ⟨p, hpendOld _ hp, hk⟩
  have hinOld : ∀ k j, InFl msm k j → InFl ms' k j := fun k j ⟨p, hp, hk⟩ => ⟨p, hpendOld _ hp, hk⟩
  have hiNotPend : ∀ x ∈ msm.pend, x.1 ≠ i := fun x hx e => hi (e ▸ (pi.pendS x hx).1)
  have hextraMem : ∀ x ∈ extra, ∃ p, x = (i, p) ∧ extra = [(i, p)] ∧ o.res = none ∧ MPendOf op p := by
    intro x hx
    rcases hextra with he | ⟨p, he, h1, h2⟩
    · rw [he] at hx; cases hx
    · rw [he, List.mem_singleton] at hx
      exact ⟨p, hx, he, h1, h2⟩
  -- the new id is not a write to `k` unless `op` is
  have hnw : ∀ {k} {P' : Nat → Prop}, wk op ≠ some k →
      ∀ j op', j ∈ [i] → j ∉ g.started → (j, op') ∈ g.ops → wk op' = some k → ¬ P' j := by
    intro k P' hne j op' hj _ hjm hk
    have : j = i := by simpa using hj
    subst this
    rw [hopu op' hjm] at hk
    exact absurd hk hne
  have hnone : ∀ j, endIdx g.evs j = none → j ≠ i → endIdx (g.evs ++ [o]) j = none := by
    intro j h1 h2
    rw [endIdx_snoc_none o h1]
    split
    · rename_i hc
      simp only [Bool.and_eq_true, beq_iff_eq] at hc
      exact absurd (hoi ▸ hc.1).symm h2
    · rfl
  -- freshness against "completed before `r`" carries over
  have hcbf : ∀ {r} {k v}, r ≤ g.evs.length → Fresh g k v (fun j => CompletedBefore g.evs j r) →
      Fresh (g.ext o [i]) k v (fun j => CompletedBefore (g.evs ++ [o]) j r) := by
    intro r k v hr hf
    refine Fresh.ext o [i] gi.s1 (fun j _ hc => (cb_snoc o hr).mp hc) ?_ hf
    intro j' op' hj' _ _ _
    have : j' = i := by simpa using hj'
    subst this
    exact not_cb_snoc o hr hi0
  -- freshness against the writes that have reached the backing store carries over
  have hbpf : ∀ {k v}, Fresh g k v (fun j => ¬ BPm msm k j) →
      Fresh (g.ext o [i]) k v (fun j => ¬ BPm ms' k j) := by
    intro k v hf
    refine Fresh.ext o [i] gi.s1 (fun j _ hn hb => hn (hbpOld k j hb)) ?_ hf
    by_cases hx : wk op = some k
    · intro j op' hj _ _ _ hn
      have : j = i := by simpa using hj
      subst this
      exact hn (hwres k hx)
    · exact hnw hx
  -- … and turns into freshness against "completed before `r`"
  have hbp_to_cb : ∀ {r} {k v}, r ≤ g.evs.length → wk op ≠ some k → Fresh g k v (fun j => ¬ BPm msm k j) →
      Fresh (g.ext o [i]) k v (fun j => CompletedBefore (g.evs ++ [o]) j r) := by
    intro r k v hr hx hf
    refine Fresh.ext o [i] gi.s1 ?_ (hnw hx) hf
    intro j _ hc
    exact not_bpm_of_cb pi k ((cb_snoc o hr).mp hc)
  refine ⟨?_, ?_, ?_, ?_⟩
  · refine gi_ext gi o [i] (fun j hj => by simp at hj; rw [hj, hoi]) (fun _ => by simp [hoi]) ?_
    intro k rs hm hres' _ _
    rw [hoi] at hm
    exact absurd (hopu _ hm).symm (hres hres' k)
  rotate_left 2
  · intro j op' k hj hm hk
    rcases hstarted' j hj with hj' | rfl
    · rcases lim.elim hj' hm hk with h' | h'
      · exact Or.inl (hinOld k j h')
      · right; left
        cases he : endIdx g.evs j with
        | none => rw [he] at h'; cases h'
        | some e => show (endIdx (g.evs ++ [o]) j).isSome; rw [endIdx_snoc_some o he]; rfl
    · rw [hopu op' hm] at hk
      obtain ⟨p, hp, hk'⟩ := hwres k hk
      exact Or.inl ⟨p, hp, inflKey_of_mbwKey hk'⟩
  · refine ⟨?_, ?_, ?_, ?_, ?_, ?_, ?_, ?_, ?_⟩
    · intro x hx
      rw [hpend, List.mem_append] at hx
      rcases hx with hx | hx
      · obtain ⟨h1, h2⟩ := pi.pendS x hx
        exact ⟨hmemS _ h1, hnone _ h2 (hiNotPend x hx)⟩
      · obtain ⟨p, rfl, _, hon, _⟩ := hextraMem x hx
        refine ⟨hiS, ?_⟩
        show endIdx (g.evs ++ [o]) i = none
        rw [endIdx_snoc_none o hi0, hon]; simp
    · rw [hpend, List.map_append]
      rcases hextra with he | ⟨p, he, _, _⟩
      · rw [he]; simpa using pi.pendND
      · rw [he]
        simp only [List.map_cons, List.map_nil]
        rw [List.nodup_append]
        refine ⟨pi.pendND, by simp, ?_⟩
        intro a ha b hb
        simp only [List.mem_singleton] at hb
        subst hb
        obtain ⟨x, hx, rfl⟩ := List.mem_map.mp ha
        exact hiNotPend x hx
    · intro k
      rw [hinfl, pi.infl, hpend, inflCount_append]
    · intro j k v hm
      rw [hpend, List.mem_append] at hm
      rcases hm with hm | hm
      · exact pi.pb j k v hm
      · obtain ⟨p, e, _, _, hpo⟩ := hextraMem _ hm
        cases e
        cases op <;> simp [MPendOf] at hpo
        obtain ⟨rfl, rfl⟩ := hpo
        exact hop
    · intro j k hm
      rw [hpend, List.mem_append] at hm
      rcases hm with hm | hm
      · exact pi.pl j k hm
      · obtain ⟨p, e, _, _, hpo⟩ := hextraMem _ hm
        cases e
        cases op <;> simp [MPendOf] at hpo
    · intro j k hm
      rw [hpend, List.mem_append] at hm
      rcases hm with hm | hm
      · exact pi.db j k hm
      · obtain ⟨p, e, _, _, hpo⟩ := hextraMem _ hm
        cases e
        cases op <;> simp [MPendOf] at hpo
        subst hpo
        exact hop
    · intro j t hm k hk
      rw [hpend, List.mem_append] at hm
      rcases hm with hm | hm
      · exact pi.dr j t hm k hk
      · obtain ⟨p, e, _, _, hpo⟩ := hextraMem _ hm
        cases e
        have := hopu _ hk
        subst this
        simp [MPendOf] at hpo
    · intro j t k e hm
      rw [hpend, List.mem_append] at hm
      rcases hm with hm | hm
      · obtain ⟨hopj, rs, rh, h1, h2, h3, h4, h5, h6⟩ := pi.tg j t k e hm
        have hji : j ≠ i := hiNotPend _ hm
        refine ⟨hopj, rs, rh, firstIdx_snoc_some o h1, h2, ?_, Nat.le_trans h4 (hepoch k), ?_, ?_⟩
        · simp only [Gh.ext, List.length_append, List.length_cons, List.length_nil]; omega
        · intro he j' op' hj' hjm hk
          by_cases hx : wk op = some k
          · have := hke k hx; omega
          · rw [hoe k hx] at he
            rcases hstarted' j' hj' with hj'' | rfl
            · rcases h5 he j' op' hj'' hjm hk with h' | h'
              · exact Or.inl ((cb_snoc o h3).mpr h')
              · exact Or.inr (hinOld k j' h')
            · rw [hopu op' hjm] at hk; exact absurd hk hx
        · intro s' q hs' hq
          obtain ⟨s, hs, _, _, hp⟩ := htiers t s' hs'
          rcases hp _ hq with hq' | ⟨e1, _⟩
          · obtain ⟨v, hv, hf⟩ := h6 s q hs hq'
            exact ⟨v, hv, hcbf h3 hf⟩
          · exact absurd e1 hji
      · obtain ⟨p, e', _, _, hpo⟩ := hextraMem _ hm
        cases e'
        have hopk : op = .get k := by
          cases op <;> simp [MPendOf] at hpo
          subst hpo; rfl
        have hwn : wk op ≠ some k := by rw [hopk]; simp [wk, wkv]
        obtain ⟨hee, htier⟩ := htg t k e hm
        have hsome := firstIdx_snoc_self g.evs o
        rw [hoi] at hsome
        cases hr : firstIdx (g.evs ++ [o]) i with
        | none => rw [hr] at hsome; cases hsome
        | some rs =>
          have hrle : rs ≤ g.evs.length := by
            have := firstIdx_lt hr
            simp only [List.length_append, List.length_cons, List.length_nil] at this
            omega
          refine ⟨hopk ▸ hop, rs, g.evs.length, hr, hrle, ?_, by rw [hee]; exact hepoch k, ?_, ?_⟩
          · simp only [Gh.ext, List.length_append, List.length_cons, List.length_nil]; omega
          · intro _ j' op' hj' hjm hk
            rcases hstarted' j' hj' with hj'' | rfl
            · rcases lim.elim hj'' hjm hk with h' | h'
              · exact Or.inr (hinOld k j' h')
              · left
                cases he0 : endIdx g.evs j' with
                | none => rw [he0] at h'; cases h'
                | some e0 => exact ⟨e0, endIdx_snoc_some o he0, endIdx_lt he0⟩
            · rw [hopu op' hjm] at hk; exact absurd hk hwn
          · intro s' q hs' hq
            obtain ⟨v, s, hqv, hs, hc⟩ := htier s' q hs' hq
            exact ⟨v, hqv, hbp_to_cb (Nat.le_refl _) hwn (vi.c t s hs k v hc)⟩
    · intro j k e hm
      rw [hpend, List.mem_append] at hm
      rcases hm with hm | hm
      · obtain ⟨hopj, rs, h1, hf⟩ := pi.bg j k e hm
        exact ⟨hopj, rs, firstIdx_snoc_some o h1, by rw [hback]; exact hcbf (Nat.le_of_lt (firstIdx_lt h1)) hf⟩
      · obtain ⟨p, e', _, _, hpo⟩ := hextraMem _ hm
        cases e'
        have hopk : op = .get k := by
          cases op <;> simp [MPendOf] at hpo
          subst hpo; rfl
        have hwn : wk op ≠ some k := by rw [hopk]; simp [wk, wkv]
        have hsome := firstIdx_snoc_self g.evs o
        rw [hoi] at hsome
        cases hr : firstIdx (g.evs ++ [o]) i with
        | none => rw [hr] at hsome; cases hsome
        | some rs =>
          have hrle : rs ≤ g.evs.length := by
            have := firstIdx_lt hr
            simp only [List.length_append, List.length_cons, List.length_nil] at this
            omega
          exact ⟨hopk ▸ hop, rs, hr, by rw [hback]; exact hbp_to_cb hrle hwn (vi.b k)⟩
  · refine ⟨?_, ?_, ?_, ?_⟩
    · intro t s' hs' k v hv
      obtain ⟨s, hs, hc, _, _⟩ := htiers t s' hs'
      rw [hc] at hv
      exact hbpf (vi.c t s hs k v hv)
    · intro k
      rw [hback]; exact hbpf (vi.b k)
    · intro t s' hs'
      obtain ⟨s, hs, _, hd, _⟩ := htiers t s' hs'
      rw [hd]; exact vi.d t s hs
    · intro t s' hs' x hx
      obtain ⟨s, hs, _, _, hp⟩ := htiers t s' hs'
      rcases hp x hx with hx' | ⟨e1, hq⟩
      · obtain ⟨h1, h2⟩ := vi.tp t s hs x hx'
        refine ⟨hmemS _ h1, ?_⟩
        rcases h2 with h2 | h2 | ⟨k, v, e1, e2, e3, e4⟩
        · exact Or.inl h2
        · exact Or.inr (Or.inl h2)
        · exact Or.inr (Or.inr ⟨k, v, e1, e2, e3, hnone _ e4 (fun e => hi (e ▸ h1))⟩)
      · refine ⟨e1 ▸ hiS, ?_⟩
        rcases hq with hq | hq
        · exact Or.inl hq
        · exact Or.inr (Or.inl hq)

end HappyModel.C16.Tier
