import HappyProofs.C16.RawObs
import HappyProofs.C16.StoreSeqA
/-!
Read-after-write over every interleaving, part 2: the ghost context and the invariant.

`Gh` is what the proof remembers besides the store's state: the operation table, the observed log so
far and the ids whose first segment has run.  `Fresh g k v P`: `v` is the value of a started write
to `k` that no started write in the set `P` entirely follows (or nothing was ever written, and `P`
is empty).  The invariant says that every place a `get` can take its answer from holds a fresh value:

* the cache, against *all* started writes (`VI.c`);
* the backing store, for a key that is not dirty, against all started writes whose backing-store
  write is not in flight (`VI.b`) — so with no write in flight, against all of them;
* the backing store as a pending miss will see it, against the writes completed before the miss was
  issued, and a pending miss whose epoch is still current has a clean key (`VI.miss`);
* the value a pending hit carries, against the writes completed before it was issued (`PI.hit`).
-/
namespace HappyModel.C16

structure Gh where
  ops : List (Nat × OpK)
  evs : List Obs
  started : List Nat

/-- the context after one more segment (of operation `o.i`), `new` = ids started by it -/
def Gh.ext (g : Gh) (o : Obs) (new : List Nat) : Gh := ⟨g.ops, g.evs ++ [o], g.started ++ new⟩

def Fresh (g : Gh) (k : Key) (v : Option Nat) (P : Nat → Prop) : Prop :=
  (∃ i op, i ∈ g.started ∧ (i, op) ∈ g.ops ∧ wkv op = some (k, v) ∧
      ∀ j op', j ∈ g.started → (j, op') ∈ g.ops → wk op' = some k → P j → NotFollowed g.evs i j) ∨
  (v = none ∧ ∀ j op', j ∈ g.started → (j, op') ∈ g.ops → wk op' = some k → ¬ P j)

/-- fresh against everything -/
abbrev FreshAll (g : Gh) (k : Key) (v : Option Nat) : Prop := Fresh g k v (fun _ => True)

theorem Fresh.anti {g : Gh} {k : Key} {v : Option Nat} {P P' : Nat → Prop}
    (hP : ∀ j, j ∈ g.started → P' j → P j) (h : Fresh g k v P) : Fresh g k v P' := by
  rcases h with ⟨i, op, hi, hm, hw, hall⟩ | ⟨hv, hall⟩
  · exact Or.inl ⟨i, op, hi, hm, hw, fun j op' hj hjm hk hp => hall j op' hj hjm hk (hP j hj hp)⟩
  · exact Or.inr ⟨hv, fun j op' hj hjm hk hp => hall j op' hj hjm hk (hP j hj hp)⟩

theorem FreshAll.to {g : Gh} {k : Key} {v : Option Nat} (P : Nat → Prop) (h : FreshAll g k v) : Fresh g k v P :=
  Fresh.anti (fun _ _ _ => trivial) h

/-- the value of a started write that has not completed is fresh against anything -/
theorem Fresh.self {g : Gh} {k : Key} {v : Option Nat} (P : Nat → Prop) {i : Nat} {op : OpK}
    (hi : i ∈ g.started) (hm : (i, op) ∈ g.ops) (hw : wkv op = some (k, v)) (he : endIdx g.evs i = none) :
    Fresh g k v P :=
  Or.inl ⟨i, op, hi, hm, hw, fun j _ _ _ _ _ => nf_of_running j he⟩

/-- extension of the context by one observation and possibly newly started ids -/
theorem Fresh.ext {g : Gh} {k : Key} {v : Option Nat} {P P' : Nat → Prop} (o : Obs) (new : List Nat)
    (hs1 : ∀ j ∈ g.started, (firstIdx g.evs j).isSome)
    (hP : ∀ j, j ∈ g.started → P' j → P j)
    (hnew : ∀ j op', j ∈ new → j ∉ g.started → (j, op') ∈ g.ops → wk op' = some k → ¬ P' j)
    (h : Fresh g k v P) : Fresh (g.ext o new) k v P' := by
  have hcase : ∀ j op', j ∈ (g.ext o new).started → (j, op') ∈ g.ops → wk op' = some k → P' j →
      j ∈ g.started ∧ P j := by
    intro j op' hj hjm hk hp
    by_cases hjs : j ∈ g.started
    · exact ⟨hjs, hP j hjs hp⟩
    · have : j ∈ new := by
        simp only [Gh.ext, List.mem_append] at hj
        exact hj.resolve_left hjs
      exact absurd hp (hnew j op' this hjs hjm hk)
  rcases h with ⟨i, op, hi, hm, hw, hall⟩ | ⟨hv, hall⟩
  · refine Or.inl ⟨i, op, ?_, hm, hw, ?_⟩
    · simp only [Gh.ext, List.mem_append]; exact Or.inl hi
    · intro j op' hj hjm hk hp
      obtain ⟨hjs, hpj⟩ := hcase j op' hj hjm hk hp
      exact nf_snoc o (hs1 j hjs) (hall j op' hjs hjm hk hpj)
  · refine Or.inr ⟨hv, ?_⟩
    intro j op' hj hjm hk hp
    obtain ⟨hjs, hpj⟩ := hcase j op' hj hjm hk hp
    exact hall j op' hjs hjm hk hpj

/-! ### pending backing-store writes -/

def bwKey : Pend → Option Key
  | .putWT k _ => some k
  | .del k _ => some k
  | _ => none

/-- operation `j` has a backing-store write of `k` in flight -/
def BP (s : St) (k : Key) (j : Nat) : Prop := ∃ p, (j, p) ∈ s.pend ∧ bwKey p = some k

def bwCount (pend : List (Nat × Pend)) (k : Key) : Nat :=
  (pend.filter fun x => bwKey x.2 == some k).length

/-- pending continuation `p` belongs to an operation `op` of the table -/
def PendOf : OpK → Pend → Prop
  | .get _, .getHit _ => True
  | .get k, .getMiss k' _ => k' = k
  | .put k v, .putWT k' v' => k' = k ∧ v' = v
  | .put _ _, .putWB => True
  | .del k, .del k' _ => k' = k
  | .flush _, .flushRep _ _ _ => True
  | _, _ => False

/-! ### the invariant -/

/-- log and table only -/
structure GI (g : Gh) : Prop where
  nd : (g.ops.map (·.1)).Nodup
  s1 : ∀ i ∈ g.started, (firstIdx g.evs i).isSome
  s2 : ∀ i, i ∉ g.started → endIdx g.evs i = none
  d : ∀ i k rs re, (i, OpK.get k) ∈ g.ops → firstIdx g.evs i = some rs → endIdx g.evs i = some re →
        ∃ v, (g.evs.getD re dObs).res = some (resOf v) ∧ ReadGood g.ops g.evs k rs re v

/-- pending continuations -/
structure PI (g : Gh) (s : St) : Prop where
  pendS : ∀ x ∈ s.pend, x.1 ∈ g.started ∧ endIdx g.evs x.1 = none
  pendND : (s.pend.map (·.1)).Nodup
  infl : ∀ k, cnt s.infl k = bwCount s.pend k
  pOp : ∀ x ∈ s.pend, ∃ op, (x.1, op) ∈ g.ops ∧ PendOf op x.2
  hit : ∀ i v, (i, Pend.getHit v) ∈ s.pend → ∀ k, (i, OpK.get k) ∈ g.ops →
        ∃ r, firstIdx g.evs i = some r ∧ Fresh g k (some v) (fun j => CompletedBefore g.evs j r)

/-- values -/
structure VI (g : Gh) (s : St) : Prop where
  dsub : ∀ k ∈ s.dirty, k ∈ akeys s.cache
  c : ∀ k v, aget? s.cache k = some v → FreshAll g k (some v)
  b : ∀ k, k ∉ s.dirty → Fresh g k (aget? s.back k) (fun j => ¬ BP s k j)
  miss : ∀ i k e, (i, Pend.getMiss k e) ∈ s.pend →
        (∃ r, firstIdx g.evs i = some r ∧
          Fresh g k (aget? s.back k) (fun j => CompletedBefore g.evs j r)) ∧
        e ≤ cnt s.epoch k ∧ (e = cnt s.epoch k → k ∉ s.dirty)

/-! ### mutations of cache / dirty set / backing store under a fixed context -/

/-- `s'` comes from `s` by evictions, invalidations, write-backs and fills of fresh values -/
structure Mut (g : Gh) (s s' : St) : Prop where
  pend : s'.pend = s.pend
  epoch : s'.epoch = s.epoch
  infl : s'.infl = s.infl
  dsub : ∀ k ∈ s'.dirty, k ∈ s.dirty
  dcache : ∀ k ∈ s'.dirty, k ∈ akeys s'.cache
  c : ∀ k v, aget? s'.cache k = some v → aget? s.cache k = some v ∨ FreshAll g k (some v)
  b : ∀ k, aget? s'.back k = aget? s.back k ∨ FreshAll g k (aget? s'.back k)
  wb : ∀ k, k ∈ s.dirty → k ∉ s'.dirty → FreshAll g k (aget? s'.back k)

theorem Mut.refl {g : Gh} {s : St} (h : VI g s) : Mut g s s :=
  ⟨rfl, rfl, rfl, fun _ h => h, h.dsub, fun _ _ h => Or.inl h, fun _ => Or.inl rfl, fun _ h1 h2 => absurd h1 h2⟩

theorem Mut.trans {g : Gh} {a b c : St} (h1 : Mut g a b) (h2 : Mut g b c) : Mut g a c where
  pend := h2.pend.trans h1.pend
  epoch := h2.epoch.trans h1.epoch
  infl := h2.infl.trans h1.infl
  dsub := fun k hk => h1.dsub k (h2.dsub k hk)
  dcache := h2.dcache
  c := fun k v hv => by
    rcases h2.c k v hv with h | h
    · exact h1.c k v h
    · exact Or.inr h
  b := fun k => by
    rcases h2.b k with h | h
    · rcases h1.b k with h' | h'
      · exact Or.inl (h.trans h')
      · exact Or.inr (h ▸ h')
    · exact Or.inr h
  wb := fun k hk hn => by
    by_cases hb : k ∈ b.dirty
    · exact h2.wb k hb hn
    · rcases h2.b k with h | h
      · exact h ▸ h1.wb k hk hb
      · exact h

theorem bp_of_pend {s s' : St} (h : s'.pend = s.pend) (k : Key) (j : Nat) : BP s' k j ↔ BP s k j := by
  unfold BP; rw [h]

theorem VI.mut {g : Gh} {s s' : St} (h : VI g s) (m : Mut g s s') : VI g s' where
  dsub := m.dcache
  c := fun k v hv => by
    rcases m.c k v hv with h' | h'
    · exact h.c k v h'
    · exact h'
  b := fun k hk => by
    by_cases hd : k ∈ s.dirty
    · exact (m.wb k hd hk).to _
    · rcases m.b k with h' | h'
      · rw [h']
        exact (h.b k hd).anti (fun j _ hp => fun hb => hp ((bp_of_pend m.pend k j).mpr hb))
      · exact h'.to _
  miss := fun i k e hm => by
    rw [m.pend] at hm
    obtain ⟨⟨r, hr, hf⟩, hle, hd⟩ := h.miss i k e hm
    refine ⟨⟨r, hr, ?_⟩, by rw [m.epoch]; exact hle, fun he hk => hd (by rw [← m.epoch]; exact he) (m.dsub k hk)⟩
    rcases m.b k with h' | h'
    · rw [h']; exact hf
    · exact h'.to _

theorem PI.mut {g : Gh} {s s' : St} (h : PI g s) (hp : s'.pend = s.pend) (hi : s'.infl = s.infl) : PI g s' where
  pendS := by rw [hp]; exact h.pendS
  pendND := by rw [hp]; exact h.pendND
  infl := by rw [hp, hi]; exact h.infl
  pOp := by rw [hp]; exact h.pOp
  hit := by rw [hp]; exact h.hit

end HappyModel.C16
