import HappyProofs.C16.TRawG
/-!
Multi-tier read-after-write over every interleaving, part 8: later segments of the writes keep the
invariant — the backing-store write of a `put` (`putBack`), its completion (`putL1`), and the
backing-store delete that completes a `delete` (`delBack`).
-/
namespace HappyModel.C16.Tier
open HappyModel.C16

theorem leave_epoch_self (cfg : MCfg) (hrep : cfg.rep = true) (ms : MSt) (k : Key) :
    cnt (ms.leave cfg k).epoch k = cnt ms.epoch k + 1 := by
  simp only [MSt.leave, hrep, if_true]; exact sq_cnt_aset_self _ _ _
theorem leave_epoch_other (cfg : MCfg) (ms : MSt) (k x : Key) (h : x ≠ k) :
    cnt (ms.leave cfg k).epoch x = cnt ms.epoch x := by
  unfold MSt.leave; split
  · exact sq_cnt_aset_other _ _ _ _ h
  · rfl
theorem leave_infl_self (cfg : MCfg) (hrep : cfg.rep = true) (ms : MSt) (k : Key) :
    cnt (ms.leave cfg k).infl k = cnt ms.infl k - 1 := by
  simp only [MSt.leave, hrep, if_true]; exact sq_cnt_aset_self _ _ _
theorem leave_infl_other (cfg : MCfg) (ms : MSt) (k x : Key) (h : x ≠ k) :
    cnt (ms.leave cfg k).infl x = cnt ms.infl x := by
  unfold MSt.leave; split
  · exact sq_cnt_aset_other _ _ _ _ h
  · rfl

/-- the write `i` of key `k` completes: what the final state must look like, relative to the state
    `ms0` before the segment, for the invariant to hold in the extended context -/
theorem write_complete (cfg : MCfg) (hrep : cfg.rep = true) {g : Gh} {ms0 msC : MSt} {i : Nat} {p : MPend}
    {op : OpK} {k : Key} {val : Option Nat} (h : MInv g ms0) (hm : (i, p) ∈ ms0.pend) (hpk : inflKey p = some k)
    (hop : (i, op) ∈ g.ops) (hw : wkv op = some (k, val))
    (K : Option Key) (hK : K = none ∧ mbwKey p = none ∨ K = some k)
    (hp : msC.pend = (ms0.clearPend i).pend) (he : msC.epoch = ms0.epoch) (hi : msC.infl = ms0.infl)
    (hb : ∀ x, aget? msC.back x = aget? ms0.back x ∨ (x = k ∧ aget? msC.back k = val))
    (hbK : K = some k → aget? msC.back k = val)
    (ht : ∀ (t : Nat) (s' : St), msC.tiers[t]? = some s' → ∃ s : St, ms0.tiers[t]? = some s ∧
      s'.dirty = [] ∧ (∀ x ∈ s'.pend, x ∈ s.pend) ∧ (∀ x ∈ s'.pend, (∃ k v, x.2 = Pend.putWT k v) → x.1 ≠ i) ∧
      ∀ x w, aget? s'.cache x = some w →
        (K ≠ some x ∧ (aget? s.cache x = some w ∨ aget? ms0.back x = some w)))
    (o : Obs) (hoi : o.i = i) (hres : o.res.isSome) :
    MInv (g.ext o []) (msC.leave cfg k) := by
  obtain ⟨his, hie⟩ := h.pi.pendS _ hm
  have hself : ∀ P, Fresh g k val P := fun P => Fresh.self P his hop hw hie
  have hp' : (msC.leave cfg k).pend = (ms0.clearPend i).pend ++ [] := by rw [leave_pend, hp]; simp
  have hng : ∀ k', op ≠ .get k' := by intro k' e; rw [e] at hw; cases hw
  have hkeyI : ∀ x j, InFl ms0 x j → x ≠ k → j ≠ i := by
    rintro x j ⟨q, hq, hk⟩ hx e
    subst e
    rw [mpend_unique h.pi hq hm, hpk] at hk
    exact hx (Option.some.inj hk).symm
  have hbpI : ∀ x j, BPm ms0 x j → K ≠ some x → j ≠ i := by
    rintro x j ⟨q, hq, hk⟩ hx e
    subst e
    rw [mpend_unique h.pi hq hm] at hk
    rcases hK with ⟨_, hn⟩ | hK
    · rw [hn] at hk; cases hk
    · have := inflKey_of_mbwKey hk
      rw [hpk] at this
      exact hx (hK.trans this)
  have hcnt := fun x => inflCount_clear ms0.pend i p x h.pi.pendND hm
  have pi' : MPI g (msC.leave cfg k) := by
    refine mpi_clear h.pi hm hp' (Or.inl rfl) ?_ ?_ ?_ ?_ ?_
    · intro x
      rw [leave_pend, hp]
      show _ = inflCount (ms0.pend.filter (fun y => y.1 != i)) x
      by_cases e : x = k
      · subst e
        rw [leave_infl_self cfg hrep, hi, h.pi.infl x, hcnt x, hpk]; simp
      · rw [leave_infl_other cfg _ _ _ e, hi, h.pi.infl x, hcnt x, hpk]
        have : ¬ k = x := fun e' => e e'.symm
        simp [this]
    · intro x
      by_cases e : x = k
      · subst e; rw [leave_epoch_self cfg hrep, he]; omega
      · rw [leave_epoch_other cfg _ _ _ e, he]; exact Nat.le_refl _
    · intro x j hee hj
      have hx : x ≠ k := by
        intro e; subst e
        rw [leave_epoch_self cfg hrep, he] at hee; omega
      exact infl_clear hp' (hkeyI x j hj hx) hj
    · intro x
      rw [leave_back]
      rcases hb x with h' | ⟨rfl, h'⟩
      · exact Or.inl h'
      · right; intro P; rw [h']; exact hself P
    · intro t s' hs'
      rw [leave_tiers] at hs'
      obtain ⟨s, hs, _, hsub, _⟩ := ht t s' hs'
      exact ⟨s, hs, fun x hx => Or.inl (hsub x hx)⟩
  have vi' : MVI g (msC.leave cfg k) := by
    refine mvi_update h.vi K (fun x j hx hbj => bpm_clear hp' (hbpI x j hbj hx) hbj) ?_ ?_ ?_ ?_
    · intro t s' x w hs' hw'
      rw [leave_tiers] at hs'
      obtain ⟨s, hs, _, _, _, hc⟩ := ht t s' hs'
      obtain ⟨hKx, hc'⟩ := hc x w hw'
      rcases hc' with hc' | hc'
      · exact Or.inl ⟨hKx, t, s, hs, hc'⟩
      · exact Or.inr (Or.inl ⟨hKx, hc'⟩)
    · intro x
      rw [leave_back]
      by_cases hKx : K = some x
      · have e : x = k := by
          rcases hK with ⟨hn, _⟩ | hK
          · rw [hn] at hKx; cases hKx
          · rw [hK] at hKx; exact (Option.some.inj hKx).symm
        subst e
        right; rw [hbK hKx]; exact hself _
      · rcases hb x with h' | ⟨rfl, h'⟩
        · exact Or.inl ⟨hKx, h'⟩
        · right; rw [h']; exact hself _
    · intro t s' hs'
      rw [leave_tiers] at hs'
      exact (ht t s' hs').choose_spec.2.1
    · intro t s' hs'
      rw [leave_tiers] at hs'
      obtain ⟨s, hs, _, hsub, _⟩ := ht t s' hs'
      exact tp_of_pend (h.vi.tp t s hs) hsub
  refine mext_same h.gi pi' vi' o ?_ ?_ ?_ (fun _ => hoi ▸ his) (hd_nonget h.gi o hoi hop hng)
  · intro j op' k' hj hjm hk
    by_cases e : j = i
    · right; right; rw [if_pos hres, hoi, e]
    · rcases h.lim.elim hj hjm hk with h' | h'
      · exact Or.inl (infl_clear hp' e h')
      · exact Or.inr (Or.inl h')
  · intro _ x hx
    rw [leave_pend, hp] at hx
    rw [hoi]; exact ((mem_mclearPend ms0 i x).mp hx).2
  · intro _ t s' hs' x hx hput
    rw [leave_tiers] at hs'
    obtain ⟨s, hs, _, _, hno, _⟩ := ht t s' hs'
    rw [hoi]; exact hno x hx hput

end HappyModel.C16.Tier
