import HappyProofs.C16.TRawD
/-!
Multi-tier read-after-write over every interleaving, part 5: building blocks for the later segments
— a tier-level `resume`, taking a continuation out of the multi-tier `pend`, and the generic lemma
that re-establishes the continuation part of the invariant (`mpi_clear`).
-/
namespace HappyModel.C16.Tier
open HappyModel.C16

/-! ### a later segment of a tier operation -/

structure TierRes (s : St) (b : List (Key × Nat)) (i : Nat) (X : St × Option Res) : Prop where
  dirty : X.1.dirty = []
  pendSub : ∀ x ∈ X.1.pend, x ∈ s.pend
  pendNo : ∀ x ∈ X.1.pend, x.1 ≠ i
  cache : ∀ x w, aget? X.1.cache x = some w → aget? s.cache x = some w ∨ aget? b x = some w
  back : X.1.back = b ∨ ∃ k v, (i, Pend.putWT k v) ∈ s.pend ∧ X.1.back = aset b k v
  res : X.2 = none ∨ (∃ v, (i, Pend.getHit v) ∈ s.pend ∧ X.2 = some (.val v)) ∨
        (∃ k e, (i, Pend.getMiss k e) ∈ s.pend ∧ X.2 = some (resOf (aget? b k))) ∨
        (∃ k v, (i, Pend.putWT k v) ∈ s.pend ∧ X.2 = some .none)

theorem tier_resume {g : Gh} {t : Nat} (c : Cfg) (s : St) (b : List (Key × Nat)) (i now : Nat)
    (hd : s.dirty = []) (htp : TP g t s) : TierRes s b i (step c (plug s b) (.resume i now)) := by
  have hpl : (plug s b).dirty = [] := hd
  unfold step
  cases hf : (plug s b).pend.find? (fun x => x.1 == i) with
  | none =>
    simp only [hf]
    have hno : ∀ x ∈ s.pend, x.1 ≠ i := by
      intro x hx e
      have := List.find?_eq_none.mp hf x hx
      simp [e] at this
    exact ⟨hd, fun x hx => hx, hno, fun x w hw => Or.inl hw, Or.inl rfl, Or.inl rfl⟩
  | some y =>
    obtain ⟨j, q⟩ := y
    simp only [hf]
    have hmem : (j, q) ∈ s.pend := List.mem_of_find?_eq_some hf
    have hj : j = i := by simpa using List.find?_some hf
    subst hj
    have hclr : ∀ x ∈ ((plug s b).clearPend j).pend, x ∈ s.pend ∧ x.1 ≠ j := by
      intro x hx
      exact (mem_clearPend (plug s b) j x).mp hx
    rcases (htp _ hmem).2 with ⟨v, e⟩ | ⟨k, e', e⟩ | ⟨k, v, e, _⟩
    · simp only at e; subst e
      rw [resume_getHit]
      exact ⟨hd, fun x hx => (hclr x hx).1, fun x hx => (hclr x hx).2, fun x w hw => Or.inl hw, Or.inl rfl,
        Or.inr (Or.inl ⟨v, hmem, rfl⟩)⟩
    · simp only at e; subst e
      obtain ⟨⟨nw, ts, hnw⟩, hp, hr⟩ := resume_getMiss_nb c (plug s b) j k e' now hpl
      refine ⟨ts.dirty, ?_, ?_, ?_, Or.inl ts.back, Or.inr (Or.inr (Or.inl ⟨k, e', hmem, hr⟩))⟩
      · intro x hx; rw [hp] at hx; exact (hclr x hx).1
      · intro x hx; rw [hp] at hx; exact (hclr x hx).2
      · intro x w hw
        rcases ts.cache x w hw with h' | h'
        · exact Or.inl h'
        · obtain ⟨rfl, hb⟩ := hnw x w h'
          exact Or.inr hb
    · simp only at e; subst e
      obtain ⟨h1, h2, h3, h4, h5⟩ := resume_putWT_nb c (plug s b) j k v now
      refine ⟨h2.trans hd, ?_, ?_, ?_, Or.inr ⟨k, v, hmem, h3⟩, Or.inr (Or.inr (Or.inr ⟨k, v, hmem, h5⟩))⟩
      · intro x hx; rw [h4] at hx; exact (hclr x hx).1
      · intro x hx; rw [h4] at hx; exact (hclr x hx).2
      · intro x w hw; rw [h1] at hw; exact Or.inl hw

/-! ### taking a continuation out of the multi-tier `pend` -/

theorem mem_mclearPend (ms : MSt) (i : Nat) (x : Nat × MPend) :
    x ∈ (ms.clearPend i).pend ↔ x ∈ ms.pend ∧ x.1 ≠ i := by
  simp [MSt.clearPend]

theorem inflCount_cons (x : Nat × MPend) (t : List (Nat × MPend)) (k : Key) :
    inflCount (x :: t) k = (if inflKey x.2 = some k then 1 else 0) + inflCount t k := by
  unfold inflCount
  rw [List.filter_cons]
  by_cases h : inflKey x.2 = some k
  · simp [h]; omega
  · simp [h]

theorem inflCount_clear (pend : List (Nat × MPend)) (i : Nat) (p : MPend) (k : Key)
    (nd : (pend.map (·.1)).Nodup) (hm : (i, p) ∈ pend) :
    inflCount pend k = inflCount (pend.filter (fun x => x.1 != i)) k + (if inflKey p = some k then 1 else 0) := by
  induction pend with
  | nil => cases hm
  | cons x t ih =>
    simp only [List.map_cons, List.nodup_cons] at nd
    rcases List.mem_cons.mp hm with hx | hx
    · subst hx
      have hall : t.filter (fun y => y.1 != i) = t := by
        rw [List.filter_eq_self]
        intro y hy
        simp only [bne_iff_ne, ne_eq]
        intro e
        exact nd.1 (List.mem_map.mpr ⟨y, hy, e⟩)
      rw [List.filter_cons]
      simp only [bne_self_eq_false, Bool.false_eq_true, if_false, hall]
      rw [inflCount_cons]; dsimp only; omega
    · have hne : x.1 ≠ i := fun e => nd.1 (List.mem_map.mpr ⟨(i, p), hx, e.symm⟩)
      rw [List.filter_cons]
      have : (x.1 != i) = true := by simp [hne]
      simp only [this, if_true]
      rw [inflCount_cons, inflCount_cons, ih nd.2 hx]; omega

theorem mpend_unique {g : Gh} {ms : MSt} (pi : MPI g ms) {i : Nat} {p q : MPend} (hp : (i, p) ∈ ms.pend)
    (hq : (i, q) ∈ ms.pend) : p = q := ops_unique pi.pendND hp hq

theorem mclearPend_nodup {g : Gh} {ms : MSt} (pi : MPI g ms) (i : Nat) :
    ((ms.clearPend i).pend.map (·.1)).Nodup := by
  unfold MSt.clearPend
  exact (List.filter_sublist.map _).nodup pi.pendND

/-- the continuation part of the invariant after the continuation of `i` ran: `extra` is what it
    left (`putL1` after `putBack`), epochs only grow, writes in flight of a key whose epoch is
    unchanged stay in flight, the backing store changed only to values of writes in flight, tier
    continuations of other operations are untouched -/
theorem mpi_clear {g : Gh} {ms0 ms' : MSt} {i : Nat} {p : MPend} {extra : List (Nat × MPend)}
    (pi : MPI g ms0) (hm : (i, p) ∈ ms0.pend)
    (hp : ms'.pend = (ms0.clearPend i).pend ++ extra)
    (hextra : extra = [] ∨ ∃ k v, extra = [(i, .putL1 k)] ∧ (i, OpK.put k v) ∈ g.ops)
    (hinfl : ∀ x, cnt ms'.infl x = inflCount ms'.pend x)
    (hepoch : ∀ x, cnt ms0.epoch x ≤ cnt ms'.epoch x)
    (hInFl : ∀ x j, cnt ms'.epoch x = cnt ms0.epoch x → InFl ms0 x j → InFl ms' x j)
    (hback : ∀ x, aget? ms'.back x = aget? ms0.back x ∨ ∀ P, Fresh g x (aget? ms'.back x) P)
    (htiers : ∀ (t : Nat) (s' : St), ms'.tiers[t]? = some s' → ∃ s : St, ms0.tiers[t]? = some s ∧
      ∀ x ∈ s'.pend, x ∈ s.pend ∨ x.1 = i) : MPI g ms' := by
  obtain ⟨his, hie⟩ := pi.pendS _ hm
  have hold : ∀ x, x ∈ ms'.pend → (x ∈ ms0.pend ∧ x.1 ≠ i) ∨ x ∈ extra := by
    intro x hx
    rw [hp, List.mem_append] at hx
    exact hx.imp (fun h => (mem_mclearPend ms0 i x).mp h) id
  have hextraMem : ∀ x ∈ extra, ∃ k v, x = (i, .putL1 k) ∧ (i, OpK.put k v) ∈ g.ops := by
    intro x hx
    rcases hextra with e | ⟨k, v, e, ho⟩
    · rw [e] at hx; cases hx
    · rw [e, List.mem_singleton] at hx; exact ⟨k, v, hx, ho⟩
  refine ⟨?_, ?_, hinfl, ?_, ?_, ?_, ?_, ?_, ?_⟩
  · intro x hx
    rcases hold x hx with ⟨h1, _⟩ | h1
    · exact pi.pendS x h1
    · obtain ⟨k, v, rfl, _⟩ := hextraMem x h1
      exact ⟨his, hie⟩
  · rw [hp, List.map_append]
    rcases hextra with e | ⟨k, v, e, _⟩
    · rw [e]; simpa using mclearPend_nodup pi i
    · rw [e]
      simp only [List.map_cons, List.map_nil]
      rw [List.nodup_append]
      refine ⟨mclearPend_nodup pi i, by simp, ?_⟩
      intro a ha b hb
      simp only [List.mem_singleton] at hb
      rw [hb]
      obtain ⟨x, hx, rfl⟩ := List.mem_map.mp ha
      exact ((mem_mclearPend ms0 i x).mp hx).2
  · intro j k v hj
    rcases hold _ hj with ⟨h1, _⟩ | h1
    · exact pi.pb j k v h1
    · obtain ⟨k', v', e, _⟩ := hextraMem _ h1; cases e
  · intro j k hj
    rcases hold _ hj with ⟨h1, _⟩ | h1
    · exact pi.pl j k h1
    · obtain ⟨k', v', e, ho⟩ := hextraMem _ h1
      cases e; exact ⟨v', ho⟩
  · intro j k hj
    rcases hold _ hj with ⟨h1, _⟩ | h1
    · exact pi.db j k h1
    · obtain ⟨k', v', e, _⟩ := hextraMem _ h1; cases e
  · intro j t hj
    rcases hold _ hj with ⟨h1, _⟩ | h1
    · exact pi.dr j t h1
    · obtain ⟨k', v', e, _⟩ := hextraMem _ h1; cases e
  · intro j t k e hj
    rcases hold _ hj with ⟨h1, hji⟩ | h1
    · obtain ⟨hop, rs, rh, a1, a2, a3, a4, a5, a6⟩ := pi.tg j t k e h1
      refine ⟨hop, rs, rh, a1, a2, a3, Nat.le_trans a4 (hepoch k), ?_, ?_⟩
      · intro he j' op hj' hjm hk
        have heq : cnt ms'.epoch k = cnt ms0.epoch k := by have := hepoch k; omega
        rcases a5 (by omega) j' op hj' hjm hk with h' | h'
        · exact Or.inl h'
        · exact Or.inr (hInFl k j' heq h')
      · intro s' q hs' hq
        obtain ⟨s, hs, hsub⟩ := htiers t s' hs'
        rcases hsub _ hq with h' | h'
        · exact a6 s q hs h'
        · exact absurd h' hji
    · obtain ⟨k', v', e', _⟩ := hextraMem _ h1; cases e'
  · intro j k e hj
    rcases hold _ hj with ⟨h1, _⟩ | h1
    · obtain ⟨hop, rs, a1, hf⟩ := pi.bg j k e h1
      refine ⟨hop, rs, a1, ?_⟩
      rcases hback k with h' | h'
      · rw [h']; exact hf
      · exact h' _
    · obtain ⟨k', v', e', _⟩ := hextraMem _ h1; cases e'

/-- in-flight writes other than `i` stay in flight when `i`'s continuation is taken out -/
theorem infl_clear {ms0 ms' : MSt} {i : Nat} {extra : List (Nat × MPend)}
    (hp : ms'.pend = (ms0.clearPend i).pend ++ extra) {x j : Nat} (hji : j ≠ i) (h : InFl ms0 x j) :
    InFl ms' x j := by
  obtain ⟨q, hq, hk⟩ := h
  exact ⟨q, by rw [hp]; exact List.mem_append_left _ ((mem_mclearPend ms0 i _).mpr ⟨hq, hji⟩), hk⟩

theorem bpm_clear {ms0 ms' : MSt} {i : Nat} {extra : List (Nat × MPend)}
    (hp : ms'.pend = (ms0.clearPend i).pend ++ extra) {x j : Nat} (hji : j ≠ i) (h : BPm ms0 x j) :
    BPm ms' x j := by
  obtain ⟨q, hq, hk⟩ := h
  exact ⟨q, by rw [hp]; exact List.mem_append_left _ ((mem_mclearPend ms0 i _).mpr ⟨hq, hji⟩), hk⟩

end HappyModel.C16.Tier
