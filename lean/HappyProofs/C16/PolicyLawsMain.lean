import HappyProofs.C16.PolicyLaws
import HappyProofs.C16.PolicyLawsA
import HappyProofs.C16.PolicyLawsB
/-!
Set-like behaviour of every policy call (all nine policies at once, by cases on `Pol`).
-/
namespace HappyModel.C16

theorem Pol.inv_tracked_nodup (p : Pol) (h : p.Inv) : p.tracked.Nodup := by
  cases p <;> simp only [Pol.Inv, Pol.tracked] at * <;> first | exact h | exact h.1

theorem Pol.ofName_inv (name : String) (arg : Nat) (p : Pol) (h : Pol.ofName name arg = some p) :
    p.Inv ∧ p.tracked = [] := by
  simp only [Pol.ofName] at h
  split at h <;> first
    | (cases h; simp [Pol.Inv, Pol.tracked, akeys])
    | cases h

theorem Pol.access_law (p : Pol) (h : p.Inv) (k : Key) :
    (p.access k).Inv ∧ ∀ x, x ∈ (p.access k).tracked ↔ x ∈ p.tracked := by
  cases p with
  | lru s => exact lru_access s h k
  | lfu s => exact lfu_access s h k
  | ttl s => exact ⟨h, fun _ => Iff.rfl⟩
  | fifo s => exact ⟨h, fun _ => Iff.rfl⟩
  | rnd s => exact ⟨h, fun _ => Iff.rfl⟩
  | slru s => exact slru_access s h k
  | sampled s => exact sampled_access s h k
  | clock s => exact clock_access s h k
  | twoq s => exact twoq_access s h k

/-- `on_insert` of a key that is not tracked (the protocol `CachedStore._cache_put` follows) -/
theorem Pol.insert_law (p : Pol) (h : p.Inv) (k now : Nat) (hk : k ∉ p.tracked) :
    (p.insert k now).Inv ∧ ∀ x, x ∈ (p.insert k now).tracked ↔ x = k ∨ x ∈ p.tracked := by
  cases p with
  | lru s => exact lru_insert s h k now hk
  | lfu s => exact lfu_insert s h k now hk
  | ttl s => exact ttl_insert s h k now hk
  | fifo s => exact fifo_insert s h k now hk
  | rnd s => exact rnd_insert s h k now hk
  | slru s => exact slru_insert s h k now hk
  | sampled s => exact sampled_insert s h k now hk
  | clock s => exact clock_insert s h k now hk
  | twoq s => exact twoq_insert s h k now hk

theorem Pol.remove_law (p : Pol) (h : p.Inv) (k : Key) :
    (p.remove k).Inv ∧ ∀ x, x ∈ (p.remove k).tracked ↔ x ∈ p.tracked ∧ x ≠ k := by
  cases p with
  | lru s => exact lru_remove s h k
  | lfu s => exact lfu_remove s h k
  | ttl s => exact ttl_remove s h k
  | fifo s => exact fifo_remove s h k
  | rnd s => exact rnd_remove s h k
  | slru s => exact slru_remove s h k
  | sampled s => exact sampled_remove s h k
  | clock s => exact clock_remove s h k
  | twoq s => exact twoq_remove s h k

theorem Pol.evictOk (p : Pol) (h : p.Inv) (now : Nat) (pick : List Key) : EvictOk p now pick := by
  cases p with
  | lru s => exact lru_evict s h now pick
  | lfu s => exact lfu_evict s h now pick
  | ttl s => exact ttl_evict s h now pick
  | fifo s => exact fifo_evict s h now pick
  | rnd s => exact rnd_evict s h now pick
  | slru s => exact slru_evict s h now pick
  | sampled s => exact sampled_evict s h now pick
  | clock s => exact clock_evict s h now pick
  | twoq s => exact twoq_evict s h now pick

/-- `evict` returns `None` exactly when nothing is tracked — for every clock reading and RNG draw -/
theorem Pol.evict_none_iff (p : Pol) (h : p.Inv) (now : Nat) (pick : List Key) :
    (p.evict now pick).1 = none ↔ p.tracked = [] := by
  exact (Pol.evictOk p h now pick).1

theorem Pol.evict_none_state (p : Pol) (h : p.Inv) (now : Nat) (pick : List Key)
    (hn : (p.evict now pick).1 = none) : (p.evict now pick).2 = p := by
  exact (Pol.evictOk p h now pick).2.1 hn

theorem Pol.evict_some_law (p : Pol) (h : p.Inv) (now : Nat) (pick : List Key) (k : Key)
    (hs : (p.evict now pick).1 = some k) :
    k ∈ p.tracked ∧ (p.evict now pick).2.Inv ∧
      ∀ x, x ∈ (p.evict now pick).2.tracked ↔ x ∈ p.tracked ∧ x ≠ k := by
  exact (Pol.evictOk p h now pick).2.2 k hs

theorem Pol.clear_law (p : Pol) : p.clear.Inv ∧ p.clear.tracked = [] := by
  cases p <;> simp [Pol.clear, Pol.Inv, Pol.tracked, akeys]

theorem Pol.kind_access (p : Pol) (k : Key) : (p.access k).kind = p.kind := by
  cases p <;> simp only [Pol.access, Pol.kind]
  case sampled s => simp only [Sampled.access]; split <;> rfl
theorem Pol.kind_insert (p : Pol) (k now : Nat) : (p.insert k now).kind = p.kind := by
  cases p <;> simp [Pol.insert, Pol.kind, TTL.insert, Sampled.insert]
theorem Pol.kind_remove (p : Pol) (k : Key) : (p.remove k).kind = p.kind := by
  cases p <;> simp [Pol.remove, Pol.kind, TTL.remove, Sampled.remove]
theorem Pol.kind_evict (p : Pol) (now : Nat) (pick : List Key) : (p.evict now pick).2.kind = p.kind := by
  cases p <;> simp only [Pol.evict, Pol.kind]
  case ttl s => simp only [TTL.evict]; split <;> rfl
  case sampled s => simp only [Sampled.evict]; split <;> rfl
theorem Pol.kind_clear (p : Pol) : p.clear.kind = p.kind := by
  cases p <;> simp [Pol.clear, Pol.kind]

end HappyModel.C16
