import HappyProofs.C16.OrderLaws
/-!
The order law of segmented LRU: the probationary segment is exactly the list of held keys that were
never re-accessed, in insertion order; the protected segment holds the re-accessed keys sorted by
their last touch.  So `evict` returns the oldest never-re-accessed key if there is one, else the
least recently touched key.
-/
namespace HappyModel.C16

def once (r : HRec) : Bool := r.cnt == 1

def SlruRel (p : Pol) (sp : SpecSt) : Prop :=
  SpecInv sp ∧ (∀ r ∈ sp.held, 1 ≤ r.cnt) ∧ ∃ s, p = .slru s ∧
    s.prob = (sp.held.filter once).map (·.key) ∧
    s.prot.Nodup ∧ (∀ x, x ∈ s.prot ↔ ∃ r ∈ sp.held, r.key = x ∧ r.cnt ≠ 1) ∧
    s.prot.Pairwise (LruOrd sp.held)

theorem slruRel_init : SlruRel (.slru {}) {} :=
  ⟨specInv_init, (by intro r hr; cases hr), {}, rfl, rfl, List.nodup_nil,
    (by intro x; simp), List.Pairwise.nil⟩

theorem once_touch {t : Nat} {k : Key} {r : HRec} (h : 1 ≤ r.cnt) :
    once (touch t k r) = (once r && (r.key != k)) := by
  unfold touch once
  by_cases e : r.key = k
  · simp [e]; omega
  · simp [e]

theorem prob_nodup {s : SpecSt} (hi : SpecInv s) : ((s.held.filter once).map (·.key)).Nodup :=
  hi.nodup.sublist (List.filter_sublist.map _)

/-- the never-re-accessed keys after dropping / touching key `k` -/
theorem prob_erase {s : SpecSt} (hi : SpecInv s) (k : Key) :
    ((s.held.filter once).map (·.key)).erase k =
      (s.held.filter (fun r => once r && (r.key != k))).map (·.key) := by
  rw [(prob_nodup hi).erase_eq_filter, ← keys_filter, List.filter_filter]
  congr 1
  apply List.filter_congr
  intro r _
  exact Bool.and_comm _ _

theorem slru_mem_cases {s : SpecSt} {prot : List Key} (hm : ∀ x, x ∈ prot ↔ ∃ r ∈ s.held, r.key = x ∧ r.cnt ≠ 1)
    {r : HRec} (hr : r ∈ s.held) : r.key ∈ (s.held.filter once).map (·.key) ∨ r.key ∈ prot := by
  by_cases h1 : r.cnt = 1
  · exact Or.inl (List.mem_map.mpr ⟨r, List.mem_filter.mpr ⟨hr, by simp [once, h1]⟩, rfl⟩)
  · exact Or.inr ((hm r.key).mpr ⟨r, hr, rfl, h1⟩)

/-- `on_remove k` (and an eviction of `k`) on both sides -/
theorem slruRel_drop (s : SpecSt) (prob prot : List Key) (k : Key) (h : SlruRel (.slru ⟨prob, prot⟩) s) :
    SlruRel (.slru ⟨prob.erase k, prot.erase k⟩)
      { s with tick := s.tick + 1, held := s.held.filter (fun r => r.key != k) } := by
  obtain ⟨hi, hc, s0, he, hpb, hn, hm, hp⟩ := h
  cases he
  simp only at hpb hn hm hp
  refine ⟨specInv_filter s k hi, fun r hr => hc r (List.mem_filter.mp hr).1, _, rfl, ?_, hn.erase k, ?_, ?_⟩
  · show prob.erase k = ((s.held.filter (fun r => r.key != k)).filter once).map (·.key)
    rw [hpb, prob_erase hi k, List.filter_filter]
  · intro x
    show x ∈ prot.erase k ↔ ∃ r ∈ s.held.filter (fun r => r.key != k), r.key = x ∧ r.cnt ≠ 1
    rw [hn.mem_erase_iff, hm x]
    constructor
    · rintro ⟨hne, r, hr, e, hcnt⟩
      exact ⟨r, List.mem_filter.mpr ⟨hr, by simpa [e] using hne⟩, e, hcnt⟩
    · rintro ⟨r, hr, e, hcnt⟩
      obtain ⟨hr1, hr2⟩ := List.mem_filter.mp hr
      exact ⟨by simpa [e] using hr2, r, hr1, e, hcnt⟩
  · exact (hp.sublist List.erase_sublist).imp
      (fun hab => lruOrd_mono (fun r hr => (List.mem_filter.mp hr).1) hab)

/-- `on_access k` for a held key: out of probation, to the recent end of the protected segment -/
theorem slruRel_touch (s : SpecSt) (prob prot : List Key) (k : Key) (h : SlruRel (.slru ⟨prob, prot⟩) s)
    (hk : k ∈ s.keys)
    (hi' : SpecInv { s with tick := s.tick + 1, held := s.held.map (touch s.tick k) }) :
    SlruRel (.slru ⟨prob.erase k, prot.erase k ++ [k]⟩)
      { s with tick := s.tick + 1, held := s.held.map (touch s.tick k) } := by
  obtain ⟨hi, hc, s0, he, hpb, hn, hm, hp⟩ := h
  cases he
  simp only at hpb hn hm hp
  refine ⟨hi', ?_, _, rfl, ?_, ?_, ?_, ?_⟩
  · intro r' hr'
    obtain ⟨r, hr, rfl⟩ := List.mem_map.mp hr'
    have := hc r hr
    unfold touch; split
    · simp only; omega
    · exact this
  · show prob.erase k = ((s.held.map (touch s.tick k)).filter once).map (·.key)
    rw [hpb, prob_erase hi k, List.filter_map, List.map_map]
    have h1 : (List.map ((fun x => x.key) ∘ touch s.tick k)) = List.map (fun x : HRec => x.key) := by
      congr 1; funext r; simp
    rw [h1]
    congr 1
    apply List.filter_congr
    intro r hr
    simp only [Function.comp]
    exact (once_touch (hc r hr)).symm
  · by_cases hkp : k ∈ prot
    · exact nodup_erase_append hn
    · rw [List.erase_of_not_mem hkp]; exact nodup_append_singleton hn hkp
  · intro x
    show x ∈ prot.erase k ++ [k] ↔ ∃ r' ∈ s.held.map (touch s.tick k), r'.key = x ∧ r'.cnt ≠ 1
    rw [List.mem_append, hn.mem_erase_iff, List.mem_singleton, hm x]
    constructor
    · rintro (⟨_, r, hr, e, hcnt⟩ | rfl)
      · refine ⟨touch s.tick k r, List.mem_map.mpr ⟨r, hr, rfl⟩, by rw [touch_key]; exact e, ?_⟩
        unfold touch; split
        · simp only; have := hc r hr; omega
        · exact hcnt
      · obtain ⟨r, hr, e⟩ := exists_rec_of_mem_keys hk
        refine ⟨touch s.tick x r, List.mem_map.mpr ⟨r, hr, rfl⟩, by rw [touch_key]; exact e, ?_⟩
        rw [touch_cnt_of_eq e]; have := hc r hr; omega
    · rintro ⟨r', hr', e, hcnt⟩
      obtain ⟨r, hr, rfl⟩ := List.mem_map.mp hr'
      rw [touch_key] at e
      by_cases ek : r.key = k
      · exact Or.inr (e ▸ ek)
      · rw [touch_of_ne ek] at hcnt
        exact Or.inl ⟨fun e' => ek (e.trans e'), r, hr, e, hcnt⟩
  · show (prot.erase k ++ [k]).Pairwise (LruOrd (s.held.map (touch s.tick k)))
    rw [List.pairwise_append]
    refine ⟨?_, List.pairwise_singleton _ _, ?_⟩
    · refine (hp.sublist List.erase_sublist).imp_of_mem ?_
      intro a b ha hb hab ra' hra rb' hrb ea eb
      have ha' : a ≠ k := (hn.mem_erase_iff.mp ha).1
      have hb' : b ≠ k := (hn.mem_erase_iff.mp hb).1
      obtain ⟨ra, hra0, rfl⟩ := List.mem_map.mp hra
      obtain ⟨rb, hrb0, rfl⟩ := List.mem_map.mp hrb
      rw [touch_key] at ea eb
      rw [touch_of_ne (ea ▸ ha'), touch_of_ne (eb ▸ hb')]
      exact hab ra hra0 rb hrb0 ea eb
    · intro a ha b hb
      simp only [List.mem_singleton] at hb; subst hb
      intro ra' hra rb' hrb ea eb
      have ha' : a ≠ b := (hn.mem_erase_iff.mp ha).1
      obtain ⟨ra, hra0, rfl⟩ := List.mem_map.mp hra
      obtain ⟨rb, hrb0, rfl⟩ := List.mem_map.mp hrb
      rw [touch_key] at ea eb
      rw [touch_of_ne (ea ▸ ha'), touch_last_of_eq eb]
      exact hi.last_lt ra hra0

theorem slruRel_step (p : Pol) (s : SpecSt) (op : POp) (h : SlruRel p s)
    (hwf : (s.step op (p.step op).1).wf = true) :
    SlruRel (p.step op).2 (s.step op (p.step op).1) := by
  have h0 := h
  obtain ⟨hi, hc, ⟨prob, prot⟩, rfl, hpb, hn, hm, hp⟩ := h
  simp only at hpb hn hm hp
  cases op with
  | access k =>
    have hi' := specInv_step _ _ _ hi hwf
    simp only [Pol.step, Pol.access, SLRU.access, step_access] at hi' ⊢
    by_cases hk1 : k ∈ prob
    · rw [if_pos hk1]
      have hk : k ∈ s.keys := by
        rw [hpb] at hk1
        obtain ⟨r, hr, e⟩ := List.mem_map.mp hk1
        exact e ▸ mem_keys_of_mem (List.mem_filter.mp hr).1
      exact slruRel_touch s prob prot k h0 hk hi'
    · rw [if_neg hk1]
      by_cases hk2 : k ∈ prot
      · rw [if_pos hk2]
        obtain ⟨r, hr, e, _⟩ := (hm k).mp hk2
        have := slruRel_touch s prob prot k h0 (e ▸ mem_keys_of_mem hr) hi'
        rw [List.erase_of_not_mem hk1] at this
        exact this
      · rw [if_neg hk2]
        have hk : k ∉ s.held.map (·.key) := by
          intro hmem
          obtain ⟨r, hr, e⟩ := List.mem_map.mp hmem
          rcases slru_mem_cases hm hr with h' | h'
          · rw [← hpb, e] at h'; exact hk1 h'
          · rw [e] at h'; exact hk2 h'
        rw [map_touch_not_mem hk] at hi' ⊢
        exact ⟨hi', hc, _, rfl, hpb, hn, hm, hp⟩
  | insert k now =>
    have hh := wf_insert_not_has _ _ _ _ hwf
    have hk := not_mem_keys_of_not_has hh
    have hkp : k ∉ prob := by
      rw [hpb]; intro hmem
      obtain ⟨r, hr, e⟩ := List.mem_map.mp hmem
      exact hk (e ▸ mem_keys_of_mem (List.mem_filter.mp hr).1)
    simp only [Pol.step, Pol.insert, SLRU.insert]
    rw [if_neg hkp]
    have hi' := specInv_step s (.insert k now) none hi hwf
    rw [step_insert_wf _ _ _ _ hh] at hi' ⊢
    have old : ∀ (r : HRec), r.key ≠ k → r ∈ s.held ++ [⟨k, s.tick, s.tick, 1, now⟩] → r ∈ s.held := by
      intro r e hr
      rcases List.mem_append.mp hr with hr | hr
      · exact hr
      · simp only [List.mem_singleton] at hr; subst hr; exact absurd rfl e
    have hprot_ne : ∀ a ∈ prot, a ≠ k := by
      intro a ha e
      obtain ⟨r, hr, e', _⟩ := (hm a).mp ha
      exact hk (e ▸ e' ▸ mem_keys_of_mem hr)
    refine ⟨hi', ?_, _, rfl, ?_, hn, ?_, ?_⟩
    · intro r hr
      rcases List.mem_append.mp hr with hr | hr
      · exact hc r hr
      · simp only [List.mem_singleton] at hr; subst hr; exact Nat.le_refl _
    · show prob ++ [k] = _
      rw [List.filter_append, List.map_append, hpb]; rfl
    · intro x
      rw [hm x]
      constructor
      · rintro ⟨r, hr, e, hcnt⟩
        exact ⟨r, List.mem_append_left _ hr, e, hcnt⟩
      · rintro ⟨r, hr, e, hcnt⟩
        rcases List.mem_append.mp hr with hr | hr
        · exact ⟨r, hr, e, hcnt⟩
        · simp only [List.mem_singleton] at hr; subst hr; exact absurd rfl hcnt
    · refine hp.imp_of_mem ?_
      intro a b ha hb hab ra hra rb hrb ea eb
      exact hab ra (old ra (ea ▸ hprot_ne a ha) hra) rb (old rb (eb ▸ hprot_ne b hb) hrb) ea eb
  | remove k =>
    simp only [Pol.step, Pol.remove, SLRU.remove, step_remove]
    exact slruRel_drop s prob prot k h0
  | evict now pick =>
    simp only [Pol.step, Pol.evict, SLRU.evict]
    cases hpr : prob with
    | cons a r =>
      simp only [step_evict_some]
      have := slruRel_drop s prob prot a h0
      have ha : a ∉ prot := by
        intro hin
        obtain ⟨rb, hrb, e, hcnt⟩ := (hm a).mp hin
        have : a ∈ (s.held.filter once).map (·.key) := by rw [← hpb, hpr]; exact List.mem_cons_self
        obtain ⟨ra, hra, e'⟩ := List.mem_map.mp this
        obtain ⟨hra1, hra2⟩ := List.mem_filter.mp hra
        have : ra = rb := rec_unique hi.nodup hra1 hrb (e'.trans e.symm)
        subst this
        simp [once] at hra2
        exact hcnt hra2
      rw [hpr, List.erase_cons_head, List.erase_of_not_mem ha] at this
      exact this
    | nil =>
      cases hpt : prot with
      | cons a r =>
        simp only [step_evict_some]
        have := slruRel_drop s prob prot a h0
        rw [hpr, hpt, List.erase_cons_head] at this
        exact this
      | nil =>
        simp only [step_evict_none]
        refine ⟨⟨hi.nodup, fun r hr => Nat.lt_succ_of_lt (hi.ins_lt r hr),
          fun r hr => Nat.lt_succ_of_lt (hi.last_lt r hr), hi.sorted⟩, hc, _, rfl, ?_, ?_, ?_, ?_⟩
        · exact hpr ▸ hpb
        · exact hpt ▸ hn
        · exact hpt ▸ hm
        · exact hpt ▸ hp
  | clear =>
    simp only [Pol.step, Pol.clear, step_clear]
    exact ⟨⟨by simp [SpecSt.keys], by simp, by simp, by simp⟩, (by intro r hr; cases hr), {}, rfl, rfl,
      List.nodup_nil, (by intro x; simp), List.Pairwise.nil⟩

theorem slruRel_evict (p : Pol) (s : SpecSt) (now : Nat) (pick : List Key) (k : Key)
    (h : SlruRel p s) (he : (p.evict now pick).1 = some k) :
    ∃ v, s.rec? k = some v ∧ orderOk .slru s now pick v = true := by
  obtain ⟨hi, hc, ⟨prob, prot⟩, rfl, hpb, hn, hm, hp⟩ := h
  simp only at hpb hn hm hp
  simp only [Pol.evict, SLRU.evict] at he
  cases hpr : prob with
  | cons a rest =>
    simp only [hpr, Option.some.injEq] at he; subst he
    -- the head of probation is the first never-re-accessed record
    cases hf : s.held.filter once with
    | nil => rw [hpr, hf] at hpb; cases hpb
    | cons v vs =>
      rw [hpr, hf] at hpb
      simp only [List.map_cons, List.cons.injEq] at hpb
      obtain ⟨hva, _⟩ := hpb
      have hvmem : v ∈ s.held.filter once := by rw [hf]; exact List.mem_cons_self
      obtain ⟨hv, hv1⟩ := List.mem_filter.mp hvmem
      have hv1' : v.cnt = 1 := by simpa [once] using hv1
      refine ⟨v, by rw [hva]; exact rec?_of_mem hi.nodup hv, ?_⟩
      have hany : (s.held.any fun r => r.cnt == 1) = true :=
        List.any_eq_true.mpr ⟨v, hv, by simp [hv1']⟩
      simp only [orderOk, hany, if_true, Bool.and_eq_true, beq_iff_eq, List.all_eq_true,
        Bool.or_eq_true, bne_iff_ne, ne_eq, decide_eq_true_eq]
      refine ⟨hv1', ?_⟩
      intro r hr
      by_cases hr1 : r.cnt = 1
      · right
        have hrm : r ∈ s.held.filter once := List.mem_filter.mpr ⟨hr, by simp [once, hr1]⟩
        rw [hf] at hrm
        rcases List.mem_cons.mp hrm with rfl | hrm
        · exact Nat.le_refl _
        · have hsorted : (v :: vs).Pairwise (fun a b => a.ins < b.ins) := by
            rw [← hf]; exact hi.sorted.sublist List.filter_sublist
          exact Nat.le_of_lt ((List.pairwise_cons.mp hsorted).1 r hrm)
      · exact Or.inl hr1
  | nil =>
    have hnone : s.held.filter once = [] := by
      rw [hpr] at hpb
      exact List.map_eq_nil_iff.mp hpb.symm
    cases hpt : prot with
    | nil => simp [hpr, hpt] at he
    | cons a rest =>
      simp only [hpr, hpt, Option.some.injEq] at he; subst he
      obtain ⟨v, hv, hva, _⟩ := (hm a).mp (by rw [hpt]; exact List.mem_cons_self)
      refine ⟨v, by rw [← hva]; exact rec?_of_mem hi.nodup hv, ?_⟩
      have hany : (s.held.any fun r => r.cnt == 1) = false := by
        rw [Bool.eq_false_iff]
        intro hcx
        obtain ⟨r, hr, h1⟩ := List.any_eq_true.mp hcx
        have : r ∈ s.held.filter once := List.mem_filter.mpr ⟨hr, h1⟩
        rw [hnone] at this; cases this
      simp only [orderOk, hany, Bool.false_eq_true, if_false, List.all_eq_true, decide_eq_true_eq]
      intro r hr
      have hr1 : r.cnt ≠ 1 := by
        intro h1
        have : r ∈ s.held.filter once := List.mem_filter.mpr ⟨hr, by simp [once, h1]⟩
        rw [hnone] at this; cases this
      have hrp : r.key ∈ prot := (hm r.key).mpr ⟨r, hr, rfl, hr1⟩
      rw [hpt] at hrp hp
      rcases List.mem_cons.mp hrp with e | hin
      · rw [rec_unique hi.nodup hr hv (e.trans hva.symm)]; exact Nat.le_refl _
      · exact Nat.le_of_lt ((List.pairwise_cons.mp hp).1 r.key hin v hv r hr hva rfl)

/-- segmented LRU evicts the oldest never-re-accessed key if one is held, else the least recently
    touched key -/
theorem slru_evicts_probation_first : OrderLaw (.slru {}) :=
  orderLaw_of_rel _ SlruRel slruRel_init slruRel_step slruRel_evict

end HappyModel.C16
