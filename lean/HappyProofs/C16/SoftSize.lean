import HappyProofs.C16.StoreInv
import HappyModel.C16.SoftTtlSpec
/-!
`SoftTTLCache`: along every schedule of operation and background-refresh segments the cache holds at
most `cache_capacity` entries and its LRU bookkeeping tracks exactly the cached keys (both variants).
A refresh that completes after its key was evicted or invalidated goes through `_store`, which makes
room first.
-/
namespace HappyModel.C16

/-- cache and LRU bookkeeping agree -/
structure ZInv (s : TSt) : Prop where
  cnd : (akeys s.cache).Nodup
  ond : s.order.Nodup
  same : ∀ x, x ∈ s.order ↔ x ∈ akeys s.cache

def ZCap (cfg : TCfg) (s : TSt) : Prop := ∀ c, cfg.cap = some c → 1 ≤ c → s.cache.length ≤ c

theorem zinv_init : ZInv {} := ⟨List.nodup_nil, List.nodup_nil, fun x => by simp [akeys]⟩

theorem ZInv.congr {s t : TSt} (h : ZInv s) (hc : t.cache = s.cache) (ho : t.order = s.order) : ZInv t := by
  obtain ⟨a, b, c⟩ := h
  exact ⟨hc ▸ a, ho ▸ b, fun x => by rw [hc, ho]; exact c x⟩

theorem tEvict_z (cap : Nat) : ∀ (fuel : Nat) (s : TSt), ZInv s →
    ZInv (tEvict fuel cap s) ∧ (tEvict fuel cap s).cache.length ≤ s.cache.length ∧
    (∀ x, x ∈ akeys (tEvict fuel cap s).cache → x ∈ akeys s.cache) ∧
    (1 ≤ cap → s.cache.length < cap + fuel → (tEvict fuel cap s).cache.length < cap) := by
  intro fuel
  induction fuel with
  | zero => intro s h; exact ⟨h, Nat.le_refl _, fun _ hx => hx, fun _ hl => by simpa [tEvict] using hl⟩
  | succ f ih =>
    intro s h
    unfold tEvict
    by_cases hlt : s.cache.length < cap
    · rw [if_pos hlt]; exact ⟨h, Nat.le_refl _, fun _ hx => hx, fun _ _ => hlt⟩
    · rw [if_neg hlt]
      cases ho : s.order with
      | nil =>
        simp only []
        refine ⟨h, Nat.le_refl _, fun _ hx => hx, fun h1 _ => ?_⟩
        -- nothing tracked, so nothing cached
        cases hc : s.cache with
        | nil => simp; omega
        | cons p t =>
          have : p.1 ∈ s.order := (h.same p.1).mpr (by rw [hc]; simp [akeys])
          rw [ho] at this; cases this
      | cons k r =>
        simp only []
        have hk : k ∈ akeys s.cache := (h.same k).mp (by rw [ho]; exact List.mem_cons_self)
        have hnd : (k :: r).Nodup := ho ▸ h.ond
        have h' : ZInv { s with order := r, cache := adel s.cache k } := by
          refine ⟨nodup_akeys_adel _ _ h.cnd, (List.nodup_cons.mp hnd).2, fun x => ?_⟩
          show x ∈ r ↔ x ∈ akeys (adel s.cache k)
          rw [mem_akeys_adel, ← h.same x, ho]
          constructor
          · intro hx; exact ⟨List.mem_cons_of_mem _ hx, fun e => (List.nodup_cons.mp hnd).1 (e ▸ hx)⟩
          · rintro ⟨hx, hne⟩
            rcases List.mem_cons.mp hx with e | hx
            · exact absurd e hne
            · exact hx
        have hl := adel_length_lt s.cache k hk
        obtain ⟨a, b, c, d⟩ := ih _ h'
        refine ⟨a, Nat.le_trans b (Nat.le_of_lt hl), fun x hx => ((mem_akeys_adel _ _ _).mp (c x hx)).1, ?_⟩
        intro h1 hf
        exact d h1 (by show (adel s.cache k).length < cap + f; omega)

theorem tStore_z (cfg : TCfg) (s : TSt) (k v now : Nat) (h : ZInv s) (hc : ZCap cfg s) :
    ZInv (tStore cfg s k v now) ∧ ZCap cfg (tStore cfg s k v now) := by
  -- the state after making room
  have key : ∀ s1 : TSt, ZInv s1 → (k ∉ akeys s1.cache → ∀ c, cfg.cap = some c → 1 ≤ c → s1.cache.length < c) →
      (k ∈ akeys s1.cache → ZCap cfg s1) →
      ZInv { s1 with order := (if k ∈ s1.order then s1.order.erase k else s1.order) ++ [k],
                     cache := aset s1.cache k (v, now) } ∧
      ZCap cfg { s1 with order := (if k ∈ s1.order then s1.order.erase k else s1.order) ++ [k],
                         cache := aset s1.cache k (v, now) } := by
    intro s1 h1 hroom hin
    by_cases hk : k ∈ akeys s1.cache
    · have hko : k ∈ s1.order := (h1.same k).mpr hk
      refine ⟨⟨?_, ?_, ?_⟩, ?_⟩
      · show (akeys (aset s1.cache k (v, now))).Nodup
        rw [akeys_aset_mem _ _ _ hk]; exact h1.cnd
      · show ((if k ∈ s1.order then s1.order.erase k else s1.order) ++ [k]).Nodup
        rw [if_pos hko]; exact nodup_erase_append h1.ond
      · intro x
        show x ∈ (if k ∈ s1.order then s1.order.erase k else s1.order) ++ [k] ↔ x ∈ akeys (aset s1.cache k (v, now))
        rw [if_pos hko, mem_erase_append h1.ond hko, akeys_aset_mem _ _ _ hk]; exact h1.same x
      · intro c e hc1
        show (aset s1.cache k (v, now)).length ≤ c
        rw [aset_length_mem _ _ _ hk]; exact hin hk c e hc1
    · have hko : k ∉ s1.order := fun hx => hk ((h1.same k).mp hx)
      refine ⟨⟨?_, ?_, ?_⟩, ?_⟩
      · show (akeys (aset s1.cache k (v, now))).Nodup
        rw [akeys_aset_not_mem _ _ _ hk]; exact nodup_append_singleton h1.cnd hk
      · show ((if k ∈ s1.order then s1.order.erase k else s1.order) ++ [k]).Nodup
        rw [if_neg hko]; exact nodup_append_singleton h1.ond hko
      · intro x
        show x ∈ (if k ∈ s1.order then s1.order.erase k else s1.order) ++ [k] ↔ x ∈ akeys (aset s1.cache k (v, now))
        rw [if_neg hko, akeys_aset_not_mem _ _ _ hk, List.mem_append, List.mem_append, h1.same x]
      · intro c e hc1
        show (aset s1.cache k (v, now)).length ≤ c
        rw [aset_length_not_mem _ _ _ hk]
        exact hroom hk c e hc1
  unfold tStore
  cases hcap : cfg.cap with
  | none =>
    simp only []
    exact key s h (fun _ c e => by rw [hcap] at e; cases e) (fun _ => hc)
  | some c0 =>
    simp only []
    by_cases hk : k ∈ akeys s.cache
    · rw [if_pos hk]
      exact key s h (fun hn => absurd hk hn) (fun _ => hc)
    · rw [if_neg hk]
      obtain ⟨a, _, c', d⟩ := tEvict_z c0 (s.cache.length + 1) s h
      refine key _ a ?_ (fun hin => absurd (c' k hin) hk)
      intro _ c e hc1
      rw [hcap] at e; cases e
      exact d hc1 (by omega)

theorem tStart_z (cfg : TCfg) (s : TSt) (i : Nat) (op : TOp) (now : Nat) (h : ZInv s) (hc : ZCap cfg s) :
    ZInv (tStart cfg s i op now).1 ∧ ZCap cfg (tStart cfg s i op now).1 := by
  have touch : ∀ k, ZInv { s with order := lruTouch s.order k } := by
    intro k
    refine ⟨h.cnd, ?_, ?_⟩
    · show (lruTouch s.order k).Nodup
      unfold lruTouch; split
      · exact nodup_erase_append h.ond
      · exact h.ond
    · intro x
      show x ∈ lruTouch s.order k ↔ _
      unfold lruTouch; split
      · rename_i hk; rw [mem_erase_append h.ond hk]; exact h.same x
      · exact h.same x
  cases op with
  | get k =>
    unfold tStart
    simp only
    cases hv : aget? s.cache k with
    | none =>
      simp only []
      split <;> exact ⟨h.congr rfl rfl, hc⟩
    | some p =>
      obtain ⟨v, cat⟩ := p
      simp only []
      split
      · exact ⟨(touch k).congr rfl rfl, hc⟩
      · split
        · split
          · exact ⟨(touch k).congr rfl rfl, hc⟩
          · exact ⟨(touch k).congr rfl rfl, hc⟩
        · split <;> exact ⟨(touch k).congr rfl rfl, hc⟩
  | put k v => exact ⟨h.congr rfl rfl, hc⟩
  | inv k =>
    unfold tStart
    simp only
    split
    · refine ⟨⟨nodup_akeys_adel _ _ h.cnd, h.ond.erase k, fun x => ?_⟩, fun c e h1 => ?_⟩
      · show x ∈ s.order.erase k ↔ x ∈ akeys (adel s.cache k)
        rw [h.ond.mem_erase_iff, mem_akeys_adel, h.same x]; exact And.comm
      · show (adel s.cache k).length ≤ c
        exact Nat.le_trans (List.length_filter_le _ _) (hc c e h1)
    · exact ⟨h, hc⟩
  | invAll =>
    have e : (tStart cfg s i .invAll now).1 = { s with cache := [], order := [], refreshing := [] } := rfl
    rw [e]
    exact ⟨⟨List.nodup_nil, List.nodup_nil, fun x => by simp [akeys]⟩, fun c _ _ => Nat.zero_le _⟩
  | bput k v => exact ⟨h.congr rfl rfl, hc⟩
  | bdel k => exact ⟨h.congr rfl rfl, hc⟩
  | refresh k => exact ⟨h.congr rfl rfl, hc⟩

theorem tResume_z (cfg : TCfg) (s : TSt) (i : Nat) (p : TPend) (now : Nat) (h : ZInv s) (hc : ZCap cfg s) :
    ZInv (tResume cfg s i p now).1 ∧ ZCap cfg (tResume cfg s i p now).1 := by
  have h0 : ZInv (s.clearPend i) := h.congr rfl rfl
  have hc0 : ZCap cfg (s.clearPend i) := hc
  cases p with
  | hit v cat issued => exact ⟨h0, hc0⟩
  | coalesced k iss =>
    unfold tResume
    simp only
    cases aget? (s.clearPend i).cache k with
    | none => simp only []; split <;> exact ⟨h0.congr rfl rfl, hc0⟩
    | some q =>
      simp only []
      split
      · split <;> exact ⟨h0.congr rfl rfl, hc0⟩
      · exact ⟨h0, hc0⟩
  | miss k =>
    unfold tResume
    simp only
    cases aget? (s.clearPend i).back k with
    | none => exact ⟨h0, hc0⟩
    | some v => exact tStore_z cfg _ k v now h0 hc0
  | put k v =>
    unfold tResume
    simp only
    exact tStore_z cfg _ k v now (h0.congr rfl rfl) hc0
  | refresh k =>
    unfold tResume
    simp only
    cases aget? (s.clearPend i).back k with
    | none => exact ⟨h0.congr rfl rfl, hc0⟩
    | some v =>
      obtain ⟨a, b⟩ := tStore_z cfg (s.clearPend i) k v now h0 hc0
      exact ⟨a.congr rfl rfl, b⟩

theorem tStep_z (cfg : TCfg) (s : TSt) (a : TAct) (h : ZInv s) (hc : ZCap cfg s) :
    ZInv (tStep cfg s a).1 ∧ ZCap cfg (tStep cfg s a).1 := by
  cases a with
  | start i op now => exact tStart_z cfg s i op now h hc
  | resume i now =>
    unfold tStep
    simp only
    split
    · exact tResume_z cfg s i _ now h hc
    · exact ⟨h, hc⟩

theorem tRun_z (cfg : TCfg) (s : TSt) (as : List TAct) (h : ZInv s) (hc : ZCap cfg s) :
    ZInv (tRun cfg s as).1 ∧ ZCap cfg (tRun cfg s as).1 := by
  induction as generalizing s with
  | nil => exact ⟨h, hc⟩
  | cons a as ih =>
    obtain ⟨h1, h2⟩ := tStep_z cfg s a h hc
    exact ih _ h1 h2

end HappyModel.C16
