import HappyProofs.C16.RawStartW
/-!
Read-after-write over every interleaving, part 7: later segments keep the invariant (repaired store).

A later segment first takes the operation's continuation out of `pend` (`clearPend`), possibly
changes the backing store (`put` write-through, `delete`) or the cache (miss fill, flush), and
either completes or leaves a new continuation.  All of that happens in the old context — an
operation with nothing pending that has not completed yet is harmless there — and then the context
is extended by the observation (`ext_same`).
-/
namespace HappyModel.C16

/-! ### taking a continuation out -/

theorem mem_clearPend (s : St) (i : Nat) (x : Nat × Pend) : x ∈ (s.clearPend i).pend ↔ x ∈ s.pend ∧ x.1 ≠ i := by
  simp [St.clearPend]

theorem bwCount_cons (x : Nat × Pend) (t : List (Nat × Pend)) (k : Key) :
    bwCount (x :: t) k = (if bwKey x.2 = some k then 1 else 0) + bwCount t k := by
  unfold bwCount
  rw [List.filter_cons]
  by_cases h : bwKey x.2 = some k
  · simp [h]; omega
  · simp [h]

theorem bwCount_clear (pend : List (Nat × Pend)) (i : Nat) (p : Pend) (k : Key)
    (nd : (pend.map (·.1)).Nodup) (hm : (i, p) ∈ pend) :
    bwCount pend k = bwCount (pend.filter (fun x => x.1 != i)) k + (if bwKey p = some k then 1 else 0) := by
  induction pend with
  | nil => cases hm
  | cons x t ih =>
    simp only [List.map_cons, List.nodup_cons] at nd
    rcases List.mem_cons.mp hm with hx | hx
    · subst hx
      have hall : t.filter (fun y => y.1 != i) = t := by
        rw [List.filter_eq_self]
        intro y hy
        simp only [bne_iff_ne, ne_eq]
        intro e
        exact nd.1 (List.mem_map.mpr ⟨y, hy, e⟩)
      rw [List.filter_cons]
      simp only [bne_self_eq_false, Bool.false_eq_true, if_false, hall]
      rw [bwCount_cons]; dsimp only; omega
    · have hne : x.1 ≠ i := fun e => nd.1 (List.mem_map.mpr ⟨(i, p), hx, e.symm⟩)
      rw [List.filter_cons]
      have : (x.1 != i) = true := by simp [hne]
      simp only [this, if_true]
      rw [bwCount_cons, bwCount_cons, ih nd.2 hx]; omega

theorem pend_unique {g : Gh} {s : St} (pi : PI g s) {i : Nat} {p q : Pend} (hp : (i, p) ∈ s.pend)
    (hq : (i, q) ∈ s.pend) : p = q := ops_unique pi.pendND hp hq

/-- the pending-write sets after the continuation of `i` (which wrote `kp`, if anything) is gone -/
theorem bp_clear {g : Gh} {s s' : St} (pi : PI g s) {i : Nat} {p : Pend} (hm : (i, p) ∈ s.pend)
    (hp : ∀ x, x ∈ s'.pend ↔ x ∈ s.pend ∧ x.1 ≠ i) (x : Key) (hx : bwKey p ≠ some x) (j : Nat) :
    BP s x j → BP s' x j := by
  rintro ⟨q, hq, hk⟩
  refine ⟨q, (hp _).mpr ⟨hq, ?_⟩, hk⟩
  intro e
  have e : j = i := e
  subst e
  rw [pend_unique pi hq hm] at hk
  exact hx hk

/-- what remains of `PI` when entries of `pend` are dropped, except the in-flight count -/
theorem pi_sub {g : Gh} {s s' : St} (pi : PI g s) (hsub : ∀ x, x ∈ s'.pend → x ∈ s.pend)
    (hnd : (s'.pend.map (·.1)).Nodup) (hinfl : ∀ k, cnt s'.infl k = bwCount s'.pend k) : PI g s' where
  pendS := fun x hx => pi.pendS x (hsub x hx)
  pendND := hnd
  infl := hinfl
  pOp := fun x hx => pi.pOp x (hsub x hx)
  hit := fun i v hm => pi.hit i v (hsub _ hm)

theorem clearPend_nodup {g : Gh} {s : St} (pi : PI g s) (i : Nat) : ((s.clearPend i).pend.map (·.1)).Nodup := by
  unfold St.clearPend
  exact (List.filter_sublist.map _).nodup pi.pendND

/-- a continuation that writes nothing to the backing store is taken out -/
theorem clear_nbw {g : Gh} {s : St} (h : RInvA g s) {i : Nat} {p : Pend} (hm : (i, p) ∈ s.pend)
    (hp : bwKey p = none) : RInvA g (s.clearPend i) := by
  have hmem := mem_clearPend s i
  refine ⟨h.gi, pi_sub h.pi (fun x hx => ((hmem x).mp hx).1) (clearPend_nodup h.pi i) ?_, ?_⟩
  · intro k
    show cnt s.infl k = bwCount (s.pend.filter (fun x => x.1 != i)) k
    rw [h.pi.infl k, bwCount_clear s.pend i p k h.pi.pendND hm, hp]; simp
  · refine ⟨h.vi.dsub, h.vi.c, ?_, ?_⟩
    · intro x hx
      exact (h.vi.b x hx).anti (fun j _ hn hb => hn (bp_clear h.pi hm hmem x (by rw [hp]; simp) j hb))
    · intro j x e hj
      exact h.vi.miss j x e ((hmem _).mp hj).1

/-- a continuation that writes `val` for `k` to the backing store runs -/
theorem clear_bw (cfg : Cfg) (hrep : cfg.rep = true) {g : Gh} {s s' : St} (h : RInvA g s) {i : Nat} {p : Pend}
    {op : OpK} {k : Key} {val : Option Nat} (hm : (i, p) ∈ s.pend) (hp : bwKey p = some k)
    (hop : (i, op) ∈ g.ops) (hw : wkv op = some (k, val))
    (hpend : s'.pend = (s.clearPend i).pend) (hc : s'.cache = s.cache) (hd : s'.dirty = s.dirty)
    (he : s'.epoch = s.epoch) (hin : s'.infl = ((s.clearPend i).inflDec cfg k).infl)
    (hbk : aget? s'.back k = val) (hbo : ∀ x, x ≠ k → aget? s'.back x = aget? s.back x) :
    RInvA g s' := by
  have hmem : ∀ x, x ∈ s'.pend ↔ x ∈ s.pend ∧ x.1 ≠ i := by rw [hpend]; exact mem_clearPend s i
  obtain ⟨his, hie⟩ := h.pi.pendS _ hm
  have hself : ∀ P, Fresh g k val P := fun P => Fresh.self P his hop hw hie
  refine ⟨h.gi, pi_sub h.pi (fun x hx => ((hmem x).mp hx).1) (by rw [hpend]; exact clearPend_nodup h.pi i) ?_, ?_⟩
  · intro x
    rw [hin, hpend]
    show cnt ((s.clearPend i).inflDec cfg k).infl x = bwCount (s.pend.filter (fun y => y.1 != i)) x
    have hcl := bwCount_clear s.pend i p x h.pi.pendND hm
    simp only [St.inflDec, hrep, if_true]
    show cnt (aset s.infl k (cnt s.infl k - 1)) x = _
    by_cases e : x = k
    · subst e
      rw [sq_cnt_aset_self, h.pi.infl x, hcl, hp]; simp
    · rw [sq_cnt_aset_other _ _ _ _ e, h.pi.infl x, hcl, hp]
      have : ¬ k = x := fun e' => e e'.symm
      simp [this]
  · refine ⟨by rw [hd, hc]; exact h.vi.dsub, by rw [hc]; exact h.vi.c, ?_, ?_⟩
    · intro x hx
      rw [hd] at hx
      by_cases e : x = k
      · subst e; rw [hbk]; exact hself _
      · rw [hbo x e]
        exact (h.vi.b x hx).anti (fun j _ hn hb =>
          hn (bp_clear h.pi hm hmem x (by rw [hp]; exact fun e' => e (Option.some.inj e').symm) j hb))
    · intro j x e hj
      obtain ⟨⟨r, hr, hf⟩, h2, h3⟩ := h.vi.miss j x e ((hmem _).mp hj).1
      rw [he, hd]
      refine ⟨⟨r, hr, ?_⟩, h2, h3⟩
      by_cases e' : x = k
      · subst e'; rw [hbk]; exact hself _
      · rw [hbo x e']; exact hf

/-- a flush leaves a new continuation -/
theorem set_flush {g : Gh} {s : St} (h : RInvA g s) {i : Nat} {order : List Key} (his : i ∈ g.started)
    (hie : endIdx g.evs i = none) (hni : ∀ x ∈ s.pend, x.1 ≠ i) (hop : (i, OpK.flush order) ∈ g.ops)
    (k : Key) (rest : List Key) (n : Nat) : RInvA g (s.setPend i (.flushRep k rest n)) := by
  have hmem : ∀ x, x ∈ (s.setPend i (.flushRep k rest n)).pend ↔ x ∈ s.pend ∨ x = (i, .flushRep k rest n) := by
    intro x; simp [St.setPend]
  have hbp : ∀ x j, BP s x j → BP (s.setPend i (.flushRep k rest n)) x j := by
    rintro x j ⟨q, hq, hk⟩
    exact ⟨q, (hmem _).mpr (Or.inl hq), hk⟩
  refine ⟨h.gi, ⟨?_, ?_, ?_, ?_, ?_⟩, ⟨h.vi.dsub, h.vi.c, ?_, ?_⟩⟩
  · intro x hx
    rcases (hmem x).mp hx with hx | hx
    · exact h.pi.pendS x hx
    · subst hx; exact ⟨his, hie⟩
  · show ((s.pend ++ [(i, Pend.flushRep k rest n)]).map (·.1)).Nodup
    rw [List.map_append, List.nodup_append]
    refine ⟨h.pi.pendND, by simp, ?_⟩
    intro a ha b hb
    simp only [List.map_cons, List.map_nil, List.mem_singleton] at hb
    subst hb
    obtain ⟨x, hx, rfl⟩ := List.mem_map.mp ha
    exact hni x hx
  · intro x
    show cnt s.infl x = bwCount (s.pend ++ [(i, Pend.flushRep k rest n)]) x
    rw [bwCount_append, h.pi.infl x]; simp [bwCount, bwKey]
  · intro x hx
    rcases (hmem x).mp hx with hx | hx
    · exact h.pi.pOp x hx
    · subst hx; exact ⟨_, hop, trivial⟩
  · intro j v hj
    rcases (hmem _).mp hj with hj | hj
    · exact h.pi.hit j v hj
    · cases hj
  · intro x hx
    exact (h.vi.b x hx).anti (fun j _ hn hb => hn (hbp x j hb))
  · intro j x e hj
    rcases (hmem _).mp hj with hj | hj
    · exact h.vi.miss j x e hj
    · cases hj

end HappyModel.C16
