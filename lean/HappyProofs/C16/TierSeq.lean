import HappyProofs.C16.TierSeqB
/-!
`read_after_write` for the repaired `MultiTierCache` over write-through tiers, for schedules in which
operations do not overlap: the hierarchy behaves like a map (`MSeqOk`) — one lemma per operation
(`MR` is kept, a `get` returns what the map holds), then induction over the script.
-/
namespace HappyModel.C16.Tier
open HappyModel.C16

theorem tierOk_at {cfg : MCfg} (hc : SeqCfg cfg) {t : Nat} {c : Cfg} (ec : cfg.tiers[t]? = some c) : TierOk c :=
  hc c (List.mem_of_getElem? ec)

theorem enter_back (cfg : MCfg) (ms : MSt) (k : Key) : (ms.enter cfg k).back = ms.back := by
  unfold MSt.enter; split <;> rfl
theorem enter_pend (cfg : MCfg) (ms : MSt) (k : Key) : (ms.enter cfg k).pend = ms.pend := by
  unfold MSt.enter; split <;> rfl
theorem leave_back (cfg : MCfg) (ms : MSt) (k : Key) : (ms.leave cfg k).back = ms.back := by
  unfold MSt.leave; split <;> rfl
theorem leave_pend (cfg : MCfg) (ms : MSt) (k : Key) : (ms.leave cfg k).pend = ms.pend := by
  unfold MSt.leave; split <;> rfl

theorem mr0_enter {cfg : MCfg} {ms : MSt} {M : List (Key × Nat)} (h : MR0 cfg ms M) (k : Key) : MR0 cfg (ms.enter cfg k) M :=
  ⟨by rw [enter_tiers]; exact h.tiers, by rw [enter_tiers]; exact h.len, by rw [enter_back]; exact h.backOk,
    by rw [enter_pend]; exact h.idle⟩

theorem mr0_leave {cfg : MCfg} {ms : MSt} {M : List (Key × Nat)} (h : MR0 cfg ms M) (k : Key) : MR0 cfg (ms.leave cfg k) M :=
  ⟨by rw [leave_tiers]; exact h.tiers, by rw [leave_tiers]; exact h.len, by rw [leave_back]; exact h.backOk,
    by rw [leave_pend]; exact h.idle⟩

/-- a write that entered and leaves is no longer in flight -/
theorem leave_enter_infl (cfg : MCfg) (ms ms1 : MSt) (k : Key) (e : ms1.infl = (ms.enter cfg k).infl)
    (h : ∀ x, cnt ms.infl x = 0) : ∀ x, cnt (ms1.leave cfg k).infl x = 0 := by
  intro x
  unfold MSt.leave MSt.enter at *
  by_cases hrep : cfg.rep = true
  · simp only [hrep, if_true] at e ⊢
    show cnt (aset ms1.infl k (cnt ms1.infl k - 1)) x = 0
    by_cases ex : x = k
    · subst ex
      rw [sq_cnt_aset_self, e, sq_cnt_aset_self, h x]
    · rw [sq_cnt_aset_other _ _ _ _ ex, e, sq_cnt_aset_other _ _ _ _ ex]; exact h x
  · simp only [hrep] at e ⊢
    show cnt ms1.infl x = 0
    rw [e]; exact h x

theorem firstHit_some (k : Key) (ss : List St) (n t : Nat) (h : firstHit k ss n = some t) :
    ∃ j s, t = n + j ∧ ss[j]? = some s ∧ k ∈ akeys s.cache := by
  induction ss generalizing n with
  | nil => simp [firstHit] at h
  | cons s ss ih =>
    unfold firstHit at h
    split at h
    · rename_i hk
      cases h
      exact ⟨0, s, rfl, rfl, hk⟩
    · obtain ⟨j, s', e, es, hk⟩ := ih (n + 1) h
      exact ⟨j + 1, s', by omega, by simpa using es, hk⟩

theorem agree_aset (M : List (Key × Nat)) (k v : Nat) : ∀ k', k' ≠ k → aget? (aset M k v) k' = aget? M k' :=
  fun _ e => wb_aget?_aset_other _ _ _ _ e
theorem agree_adel (M : List (Key × Nat)) (k : Nat) : ∀ k', k' ≠ k → aget? (adel M k) k' = aget? M k' :=
  fun _ e => wb_aget?_adel_other _ _ _ e

/-! ### one lemma per operation -/

theorem mexec_inv (cfg : MCfg) (hc : SeqCfg cfg) (ms : MSt) (M : List (Key × Nat)) (i k now : Nat) (h : MR cfg ms M) :
    MR cfg (mexec cfg ms i (.inv k) now).1 M := by
  have hst : mstart cfg ms i (.inv k) now = (ms.sweep cfg (.inv k), some .none) := rfl
  rw [mexec_one cfg ms i _ now _ _ hst]
  have sw := mr_sweep_inv hc (M' := M) k h.tiers (fun _ _ => rfl)
  exact ⟨⟨sw.1, by rw [sw.2.2]; exact h.len, by rw [sw.2.1]; exact h.backOk, h.idle⟩, h.noInfl⟩

theorem mexec_invAll (cfg : MCfg) (hc : SeqCfg cfg) (ms : MSt) (M : List (Key × Nat)) (i now : Nat) (h : MR cfg ms M) :
    MR cfg (mexec cfg ms i .invAll now).1 M := by
  have hst : mstart cfg ms i .invAll now = ({ ms.sweep cfg .invAll with acc := [] }, some .none) := rfl
  rw [mexec_one cfg ms i _ now _ _ hst]
  have sw := mr_sweep_invAll hc h.tiers
  exact ⟨⟨sw.1, by show (ms.sweep cfg .invAll).tiers.length = _; rw [sw.2.2]; exact h.len,
    by show ∀ k, aget? (ms.sweep cfg .invAll).back k = _; rw [sw.2.1]; exact h.backOk, h.idle⟩, h.noInfl⟩

theorem mexec_del (cfg : MCfg) (hrep : cfg.rep = true) (hc : SeqCfg cfg) (ms : MSt) (M : List (Key × Nat)) (i k now : Nat)
    (h : MR cfg ms M) : MR cfg (mexec cfg ms i (.del k) now).1 (adel M k) := by
  have h1 := mr0_enter h.toMR0 k
  have sw := mr_sweep_inv hc (M' := M) k h1.tiers (fun _ _ => rfl)
  generalize hX : (ms.enter cfg k).sweep cfg (.inv k) = X at sw
  have hXp : X.pend = [] := by rw [← hX]; exact h1.idle
  have hXi : X.infl = (ms.enter cfg k).infl := by rw [← hX]; rfl
  have hst : mstart cfg ms i (.del k) now = (X.setPend i (.delBack k), none) := by rw [← hX]; rfl
  -- the state after the backing delete
  generalize hX' : ({ X with back := adel X.back k, acc := adel X.acc k } : MSt) = X'
  have hX't : X'.tiers = X.tiers := by rw [← hX']
  have hX'b : X'.back = adel X.back k := by rw [← hX']
  have sw2 := mr_sweep_inv hc (ms := X') (M := M) (M' := adel M k) k (by rw [hX't]; exact sw.1) (agree_adel M k)
  have hres : mresume cfg (X.setPend i (.delBack k)) i (.delBack k) now
      = ((X'.sweep cfg (.inv k)).leave cfg k, some (.bool (!X.tiers.isEmpty || decide (k ∈ akeys X.back)))) := by
    simp only [mresume, hrep, if_true, m_clear_set X i _ hXp]
    rw [← hX']; rfl
  rw [mexec_two cfg ms i _ now X _ _ _ hst hXp hres]
  have m0 : MR0 cfg (X'.sweep cfg (.inv k)) (adel M k) := by
    refine ⟨sw2.1, by rw [sw2.2.2, hX't, sw.2.2]; exact h1.len, ?_, hXp ▸ (by rw [← hX']; rfl)⟩
    intro k'
    rw [sw2.2.1, hX'b, sw.2.1]
    by_cases e : k' = k
    · subst e; rw [sq_aget?_adel_self, sq_aget?_adel_self]
    · rw [wb_aget?_adel_other _ _ _ e, wb_aget?_adel_other _ _ _ e]; exact h1.backOk k'
  exact ⟨mr0_leave m0 k, leave_enter_infl cfg ms _ k (by rw [← hXi, ← hX']; rfl) h.noInfl⟩

theorem mexec_put (cfg : MCfg) (hrep : cfg.rep = true) (hc : SeqCfg cfg) (ms : MSt) (M : List (Key × Nat)) (i k v now : Nat)
    (h : MR cfg ms M) : MR cfg (mexec cfg ms i (.put k v) now).1 (aset M k v) := by
  have h1 := mr0_enter h.toMR0 k
  generalize hX : ms.enter cfg k = X at h1
  have hst : mstart cfg ms i (.put k v) now = (X.setPend i (.putBack k v), none) := by rw [← hX]; rfl
  -- the backing write lands, the tiers are invalidated
  generalize hW : ({ X with back := aset X.back k v } : MSt) = W
  have hWt : W.tiers = X.tiers := by rw [← hW]
  have hWb : W.back = aset X.back k v := by rw [← hW]
  have hWp : W.pend = [] := by rw [← hW]; exact h1.idle
  have sw := mr_sweep_inv hc (ms := W) (M := M) (M' := aset M k v) k (by rw [hWt]; exact h1.tiers) (agree_aset M k v)
  generalize hZ : W.sweep cfg (.inv k) = Z at sw
  have hZp : Z.pend = [] := by rw [← hZ]; exact hWp
  have z0 : MR0 cfg Z (aset M k v) := by
    refine ⟨sw.1, by rw [sw.2.2, hWt]; exact h1.len, ?_, hZp⟩
    intro k'
    rw [sw.2.1, hWb]
    by_cases e : k' = k
    · subst e; rw [wb_aget?_aset_self, wb_aget?_aset_self]
    · rw [wb_aget?_aset_other _ _ _ _ e, wb_aget?_aset_other _ _ _ _ e]; exact h1.backOk k'
  -- `tiers[0].put` starts …
  generalize hY : (onTier cfg Z 0 (fun c s => start c s i (.put k v) now)).1 = Y
  have hYp : Y.pend = [] := by rw [← hY, onTier_pend]; exact hZp
  have hres1 : mresume cfg (X.setPend i (.putBack k v)) i (.putBack k v) now = (Y.setPend i (.putL1 k), none) := by
    simp only [mresume, m_clear_set X i _ h1.idle]
    rw [← hY, ← hZ, ← hW]; rfl
  -- … and returns
  have hcomp : onTier cfg Y 0 (fun c s => step c s (.resume i now))
      = onTier cfg Z 0 (fun c s => step c (start c s i (.put k v) now).1 (.resume i now)) := by
    rw [← hY]; exact onTier_comp cfg Z 0 _ _
  have r0 : MR0 cfg (onTier cfg Z 0 (fun c s => step c (start c s i (.put k v) now).1 (.resume i now))).1 (aset M k v) :=
    mr_onTier z0 0 _ (fun c s ec es =>
      have tp := tier_put c (tierOk_at hc ec) s (aset M k v) Z.back i k v now (z0.tiers 0 c s ec es) z0.backOk
        (wb_aget?_aset_self _ _ _)
      ⟨tp.2.1, tp.2.2.1⟩)
  generalize hR : (onTier cfg Z 0 (fun c s => step c (start c s i (.put k v) now).1 (.resume i now))).1 = R at r0
  have hRi : R.infl = (ms.enter cfg k).infl := by
    rw [← hR, onTier_infl, ← hZ, ← hW, hX]; rfl
  have hres2 : mresume cfg (Y.setPend i (.putL1 k)) i (.putL1 k) now
      = ((R.sweepLow cfg (.inv k)).leave cfg k, some .none) := by
    simp only [mresume, hrep, if_true, m_clear_set Y i _ hYp]
    rw [hcomp, hR]
  rw [mexec_three cfg ms i _ now X _ Y _ _ _ hst h1.idle hres1 hYp hres2]
  have sl := mr_sweepLow_inv hc k r0.tiers
  have m0 : MR0 cfg (R.sweepLow cfg (.inv k)) (aset M k v) :=
    ⟨sl.1, by rw [sl.2.2]; exact r0.len, by rw [sl.2.1]; exact r0.backOk, r0.idle⟩
  exact ⟨mr0_leave m0 k, leave_enter_infl cfg ms _ k hRi h.noInfl⟩

theorem mexec_tget (cfg : MCfg) (hc : SeqCfg cfg) (ms : MSt) (M : List (Key × Nat)) (i t k now : Nat) (h : MR cfg ms M) :
    MR cfg (mexec cfg ms i (.tget t k) now).1 M := by
  generalize hXd : (onTier cfg ms t (fun c s => start c s i (.get k) now)).1 = X
  have hXp : X.pend = [] := by rw [← hXd, onTier_pend]; exact h.idle
  have hst : mstart cfg ms i (.tget t k) now = (X.setPend i (.direct t), none) := by rw [← hXd]; rfl
  have hcomp : onTier cfg X t (fun c s => step c s (.resume i now))
      = onTier cfg ms t (fun c s => step c (start c s i (.get k) now).1 (.resume i now)) := by
    rw [← hXd]; exact onTier_comp cfg ms t _ _
  have hres : mresume cfg (X.setPend i (.direct t)) i (.direct t) now
      = onTier cfg ms t (fun c s => step c (start c s i (.get k) now).1 (.resume i now)) := by
    simp only [mresume, m_clear_set X i _ hXp]
    exact hcomp
  have r0 : MR0 cfg (onTier cfg ms t (fun c s => step c (start c s i (.get k) now).1 (.resume i now))).1 M :=
    mr_onTier h.toMR0 t _ (fun c s ec es =>
      have tg := tier_get c (tierOk_at hc ec) s M ms.back i k now (h.tiers t c s ec es) h.backOk
      ⟨tg.2.1, tg.2.2.1⟩)
  have ri : (onTier cfg ms t (fun c s => step c (start c s i (.get k) now).1 (.resume i now))).1.infl = ms.infl :=
    onTier_infl cfg ms t _
  generalize hR : onTier cfg ms t (fun c s => step c (start c s i (.get k) now).1 (.resume i now)) = R at hres r0 ri
  have hm : MR cfg R.1 M := ⟨r0, by rw [ri]; exact h.noInfl⟩
  cases hr2 : R.2 with
  | some r =>
    have : mresume cfg (X.setPend i (.direct t)) i (.direct t) now = (R.1, some r) := by rw [hres, ← hr2]
    rw [mexec_two cfg ms i _ now X _ _ _ hst hXp this]
    exact hm
  | none =>
    -- a tier index out of range: nothing happens
    have e : (mexec cfg ms i (.tget t k) now).1 = R.1 := by
      unfold mexec; rw [hst]
      show (mresumeAll cfg 3 (X.setPend i (.direct t)) i now).1 = _
      unfold mresumeAll
      rw [m_find_set X i _ hXp]
      simp only [hres, hr2]
      unfold mresumeAll
      rw [hm.idle]; rfl
    rw [e]; exact hm

theorem mexec_get (cfg : MCfg) (hc : SeqCfg cfg) (ms : MSt) (M : List (Key × Nat)) (i k now : Nat) (h : MR cfg ms M) :
    MR cfg (mexec cfg ms i (.get k) now).1 M ∧ (mexec cfg ms i (.get k) now).2 = some (expected M k) := by
  generalize hA : ({ ms with acc := aset ms.acc k (cnt ms.acc k + 1) } : MSt) = A
  have a0 : MR0 cfg A M := by rw [← hA]; exact ⟨h.tiers, h.len, h.backOk, h.idle⟩
  have hAi : A.infl = ms.infl := by rw [← hA]
  have hAb : A.back = ms.back := by rw [← hA]
  have hAt : A.tiers = ms.tiers := by rw [← hA]
  -- promotion / miss fill keep the link
  have fill : ∀ (B : MSt) (v : Nat), MR0 cfg B M → aget? M k = some v → MR0 cfg (B.fillL1 cfg k v now) M := by
    intro B v hB hv
    exact mr_onTier hB 0 _ (fun c s ec es =>
      tr_cachePut c (tierOk_at hc ec) s M B.back k v now (hB.tiers 0 c s ec es) hB.backOk hv)
  have fillI : ∀ (B : MSt) (v : Nat), (B.fillL1 cfg k v now).infl = B.infl := fun B v => onTier_infl cfg B 0 _
  cases hfh : firstHit k ms.tiers 0 with
  | some t =>
    obtain ⟨j, s, ej, es, hk⟩ := firstHit_some k ms.tiers 0 t hfh
    have ej : t = j := by omega
    subst ej
    have hlt : t < cfg.tiers.length := by
      rw [← h.len]
      cases Nat.lt_or_ge t ms.tiers.length with
      | inl h' => exact h'
      | inr h' => rw [List.getElem?_eq_none h'] at es; cases es
    obtain ⟨c, ec⟩ : ∃ c, cfg.tiers[t]? = some c := ⟨cfg.tiers[t], List.getElem?_eq_getElem hlt⟩
    obtain ⟨v, hv⟩ := sq_some_of_mem_akeys _ _ hk
    have hMv : aget? M k = some v := (h.tiers t c s ec es).cacheOk k v hv
    have hexp : expected M k = .val v := by simp only [expected, hMv]
    generalize hXd : (onTier cfg A t (fun c s => start c s i (.get k) now)).1 = X
    have hXp : X.pend = [] := by rw [← hXd, onTier_pend]; exact a0.idle
    have hst : mstart cfg ms i (.get k) now = (X.setPend i (.tierGet t k (cnt ms.epoch k)), none) := by
      simp only [mstart, hfh]; rw [hA, hXd]
    have hcomp : onTier cfg X t (fun c s => step c s (.resume i now))
        = onTier cfg A t (fun c s => step c (start c s i (.get k) now).1 (.resume i now)) := by
      rw [← hXd]; exact onTier_comp cfg A t _ _
    have tg := tier_get c (tierOk_at hc ec) s M A.back i k now (a0.tiers t c s ec (hAt ▸ es)) a0.backOk
    have r0 : MR0 cfg (onTier cfg A t (fun c s => step c (start c s i (.get k) now).1 (.resume i now))).1 M :=
      mr_onTier a0 t _ (fun c' s' ec' es' =>
        have tg' := tier_get c' (tierOk_at hc ec') s' M A.back i k now (a0.tiers t c' s' ec' es') a0.backOk
        ⟨tg'.2.1, tg'.2.2.1⟩)
    have r2 : (onTier cfg A t (fun c s => step c (start c s i (.get k) now).1 (.resume i now))).2 = some (.val v) := by
      rw [onTier_eq cfg A t _ c s ec (hAt ▸ es)]
      show (step c (start c (plug s A.back) i (.get k) now).1 (.resume i now)).2 = _
      rw [tg.2.2.2, hexp]
    have ri : (onTier cfg A t (fun c s => step c (start c s i (.get k) now).1 (.resume i now))).1.infl = ms.infl := by
      rw [onTier_infl, hAi]
    generalize hR : onTier cfg A t (fun c s => step c (start c s i (.get k) now).1 (.resume i now)) = R at r0 r2 ri
    have hres : mresume cfg (X.setPend i (.tierGet t k (cnt ms.epoch k))) i (.tierGet t k (cnt ms.epoch k)) now
        = (afterTierGet cfg R.1 t k (cnt ms.epoch k) v now, some (.val v)) := by
      simp only [mresume, m_clear_set X i _ hXp]
      rw [hcomp, hR, r2]
    rw [mexec_two cfg ms i _ now X _ _ _ hst hXp hres, hexp]
    refine ⟨?_, rfl⟩
    unfold afterTierGet
    split
    · exact ⟨fill R.1 v r0 hMv, by rw [fillI, ri]; exact h.noInfl⟩
    · exact ⟨r0, by rw [ri]; exact h.noInfl⟩
  | none =>
    have hst : mstart cfg ms i (.get k) now = (A.setPend i (.backGet k (cnt ms.epoch k)), none) := by
      simp only [mstart, hfh]; rw [hA]
    have hb := h.backOk k
    cases hbk : aget? ms.back k with
    | none =>
      have hres : mresume cfg (A.setPend i (.backGet k (cnt ms.epoch k))) i (.backGet k (cnt ms.epoch k)) now
          = (A, some .none) := by
        simp only [mresume, m_clear_set A i _ a0.idle]
        rw [show (A.setPend i (.backGet k (cnt ms.epoch k))).back = ms.back from hAb, hbk]
      rw [mexec_two cfg ms i _ now A _ _ _ hst a0.idle hres]
      rw [hbk] at hb
      exact ⟨⟨a0, by rw [hAi]; exact h.noInfl⟩, by simp only [expected, ← hb]⟩
    | some x =>
      rw [hbk] at hb
      have hres : mresume cfg (A.setPend i (.backGet k (cnt ms.epoch k))) i (.backGet k (cnt ms.epoch k)) now
          = ((if !cfg.rep || A.fillAllowed k (cnt ms.epoch k) then A.fillL1 cfg k x now else A), some (.val x)) := by
        simp only [mresume, m_clear_set A i _ a0.idle]
        rw [show (A.setPend i (.backGet k (cnt ms.epoch k))).back = ms.back from hAb, hbk]
        simp only []
        split <;> rfl
      rw [mexec_two cfg ms i _ now A _ _ _ hst a0.idle hres]
      refine ⟨?_, by simp only [expected, ← hb]⟩
      split
      · exact ⟨fill A x a0 hb.symm, by rw [fillI, hAi]; exact h.noInfl⟩
      · exact ⟨a0, by rw [hAi]; exact h.noInfl⟩

/-! ### the script -/

theorem mexec_ok (cfg : MCfg) (hrep : cfg.rep = true) (hc : SeqCfg cfg) (ms : MSt) (M : List (Key × Nat))
    (i : Nat) (op : MOp) (now : Nat) (h : MR cfg ms M) :
    MR cfg (mexec cfg ms i op now).1 (mabs M op) ∧
      ∀ k, op = .get k → (mexec cfg ms i op now).2 = some (expected M k) := by
  cases op with
  | get k =>
    have := mexec_get cfg hc ms M i k now h
    exact ⟨this.1, fun k' e => by cases e; exact this.2⟩
  | put k v => exact ⟨mexec_put cfg hrep hc ms M i k v now h, fun _ e => by cases e⟩
  | del k => exact ⟨mexec_del cfg hrep hc ms M i k now h, fun _ e => by cases e⟩
  | inv k => exact ⟨mexec_inv cfg hc ms M i k now h, fun _ e => by cases e⟩
  | invAll => exact ⟨mexec_invAll cfg hc ms M i now h, fun _ e => by cases e⟩
  | tget t k => exact ⟨mexec_tget cfg hc ms M i t k now h, fun _ e => by cases e⟩

theorem mseqOk_of_mr (cfg : MCfg) (hrep : cfg.rep = true) (hc : SeqCfg cfg) (ms : MSt) (M : List (Key × Nat))
    (i : Nat) (ops : List (MOp × Nat)) (h : MR cfg ms M) : MSeqOk cfg ms M i ops := by
  induction ops generalizing ms M i with
  | nil => exact True.intro
  | cons a rest ih =>
    obtain ⟨op, now⟩ := a
    have key := mexec_ok cfg hrep hc ms M i op now h
    refine ⟨?_, ih _ _ _ key.1⟩
    cases op with
    | get k => exact key.2 k rfl
    | put k v => exact True.intro
    | del k => exact True.intro
    | inv k => exact True.intro
    | invAll => exact True.intro
    | tget t k => exact True.intro

theorem mr_init (cfg : MCfg) (pols : List Pol) (hp : Named pols) (hlen : pols.length = cfg.tiers.length) :
    MR cfg (MSt.init pols) [] := by
  refine ⟨⟨?_, by simp [MSt.init, hlen], fun k => rfl, rfl⟩, fun k => rfl⟩
  intro t c s _ es
  simp only [MSt.init, List.getElem?_map] at es
  cases hpt : pols[t]? with
  | none => rw [hpt] at es; cases es
  | some p =>
    rw [hpt] at es
    simp only [Option.map_some, Option.some.injEq] at es
    subst es
    obtain ⟨name, arg, hn⟩ := hp p (List.mem_of_getElem? hpt)
    exact ⟨init_inv c name arg p hn, rfl, fun k => rfl, rfl, fun k v hv => by simp [aget?] at hv⟩

end HappyModel.C16.Tier
