import HappyProofs.C16.RawResume
/-!
Read-after-write over every interleaving, part 8: every segment keeps the invariant
(`raw_resume`, `raw_step`).
-/
namespace HappyModel.C16

/-! ### which operation a continuation belongs to -/

theorem pendOf_getHit {op : OpK} {v : Nat} (h : PendOf op (.getHit v)) : ∃ k, op = .get k := by
  cases op <;> simp [PendOf] at h
  exact ⟨_, rfl⟩
theorem pendOf_getMiss {op : OpK} {k e : Nat} (h : PendOf op (.getMiss k e)) : op = .get k := by
  cases op <;> simp [PendOf] at h
  rw [h]
theorem pendOf_putWT {op : OpK} {k v : Nat} (h : PendOf op (.putWT k v)) : op = .put k v := by
  cases op <;> simp [PendOf] at h
  rw [h.1, h.2]
theorem pendOf_del {op : OpK} {k : Nat} {c : Bool} (h : PendOf op (.del k c)) : op = .del k := by
  cases op <;> simp [PendOf] at h
  rw [h]
theorem pendOf_flushRep {op : OpK} {k : Nat} {r : List Key} {n : Nat} (h : PendOf op (.flushRep k r n)) :
    ∃ order, op = .flush order := by
  cases op <;> simp [PendOf] at h
  exact ⟨_, rfl⟩
theorem pendOf_flushCur {op : OpK} {k v : Nat} {r : List Key} {n : Nat} : ¬ PendOf op (.flushCur k v r n) := by
  cases op <;> simp [PendOf]
theorem pendOf_get_iff {k : Key} {p : Pend} (h : PendOf (.get k) p) :
    (∃ v, p = .getHit v) ∨ (∃ e, p = .getMiss k e) := by
  cases p <;> simp [PendOf] at h
  · exact Or.inl ⟨_, rfl⟩
  · subst h; exact Or.inr ⟨_, rfl⟩

/-- completion of an operation that is not a `get`: nothing to show about reads -/
theorem hd_nonget {g : Gh} (gi : GI g) {i : Nat} {op : OpK} (o : Obs) (hoi : o.i = i) (hop : (i, op) ∈ g.ops)
    (hng : ∀ k, op ≠ .get k) :
    ∀ k rs, (o.i, OpK.get k) ∈ g.ops → o.res.isSome → endIdx g.evs o.i = none →
      firstIdx (g.evs ++ [o]) o.i = some rs →
      ∃ v, o.res = some (resOf v) ∧ ReadGood g.ops (g.evs ++ [o]) k rs g.evs.length v := by
  intro k rs hm
  rw [hoi] at hm
  exact absurd (ops_unique gi.nd hop hm) (hng k)

/-- completion of a `get` whose answer is fresh against the writes completed before its issue -/
theorem hd_get {g : Gh} (gi : GI g) {i : Nat} {k0 : Key} (o : Obs) (hoi : o.i = i) (hop : (i, OpK.get k0) ∈ g.ops)
    {v : Option Nat} {r : Nat} (hr : firstIdx g.evs i = some r)
    (hf : Fresh g k0 v (fun j => CompletedBefore g.evs j r)) (hres : o.res = some (resOf v)) :
    ∀ k rs, (o.i, OpK.get k) ∈ g.ops → o.res.isSome → endIdx g.evs o.i = none →
      firstIdx (g.evs ++ [o]) o.i = some rs →
      ∃ v, o.res = some (resOf v) ∧ ReadGood g.ops (g.evs ++ [o]) k rs g.evs.length v := by
  intro k rs hm _ _ hrs
  rw [hoi] at hm hrs
  have hk : OpK.get k0 = OpK.get k := ops_unique gi.nd hop hm
  cases hk
  rw [firstIdx_snoc_some o hr] at hrs
  cases hrs
  exact ⟨v, hres, readGood_of_fresh gi o (Nat.le_of_lt (firstIdx_lt hr)) hf⟩

theorem raw_finish {g : Gh} {s' : St} (h : RInvA g s') (o : Obs)
    (hres : o.res.isSome → ∀ x ∈ s'.pend, x.1 ≠ o.i) (hst : o.res.isSome → o.i ∈ g.started)
    (hd : ∀ k rs, (o.i, OpK.get k) ∈ g.ops → o.res.isSome → endIdx g.evs o.i = none →
      firstIdx (g.evs ++ [o]) o.i = some rs →
      ∃ v, o.res = some (resOf v) ∧ ReadGood g.ops (g.evs ++ [o]) k rs g.evs.length v) :
    RInvA (g.ext o []) s' := by
  obtain ⟨a, b, c⟩ := ext_same h.gi h.pi h.vi o hres hst hd
  exact ⟨a, b, c⟩

/-- no backing-store write of `k` in flight -/
theorem no_bp_of_infl {g : Gh} {s : St} (pi : PI g s) (k : Key) (h : cnt s.infl k = 0) (j : Nat) : ¬ BP s k j := by
  rintro ⟨p, hp, hk⟩
  rw [pi.infl k] at h
  unfold bwCount at h
  have : (j, p) ∈ s.pend.filter (fun x => bwKey x.2 == some k) := by
    rw [List.mem_filter]; exact ⟨hp, by simp [hk]⟩
  rw [List.length_eq_zero_iff.mp h] at this
  cases this

theorem raw_resume (cfg : Cfg) (hrep : cfg.rep = true) {g : Gh} {s0 : St} (h : RInvA g s0) (i : Nat) (p : Pend)
    (now : Nat) (hm : (i, p) ∈ s0.pend) (o : Obs) (hoi : o.i = i) (hor : o.res = (resume cfg s0 i p now).2) :
    RInvA (g.ext o []) (resume cfg s0 i p now).1 := by
  obtain ⟨his, hie⟩ := h.pi.pendS _ hm
  obtain ⟨op, hop, hpo⟩ := h.pi.pOp _ hm
  have hclr : ∀ x ∈ (s0.clearPend i).pend, x.1 ≠ o.i := fun x hx => by
    rw [hoi]; exact ((mem_clearPend s0 i x).mp hx).2
  have hst : o.res.isSome → o.i ∈ g.started := fun _ => hoi ▸ his
  cases p with
  | getHit v =>
    obtain ⟨k, rfl⟩ := pendOf_getHit hpo
    obtain ⟨r, hr, hf⟩ := h.pi.hit i v hm k hop
    exact raw_finish (clear_nbw h hm rfl) o (fun _ => hclr) hst (hd_get h.gi o hoi hop hr hf hor)
  | getMiss k e =>
    have hopk := pendOf_getMiss hpo
    subst hopk
    obtain ⟨⟨r, hr, hf⟩, _, hed⟩ := h.vi.miss i k e hm
    have hc := clear_nbw h hm (p := .getMiss k e) rfl
    unfold resume at hor ⊢
    simp only at hor ⊢
    have hback : (s0.clearPend i).back = s0.back := rfl
    cases hb : aget? (s0.clearPend i).back k with
    | none =>
      simp only [hb] at hor ⊢
      refine raw_finish hc o (fun _ => hclr) hst (hd_get h.gi o hoi hop hr (v := none) ?_ hor)
      rw [← hback, hb] at hf; exact hf
    | some x =>
      simp only [hb] at hor ⊢
      have hf' : Fresh g k (some x) (fun j => CompletedBefore g.evs j r) := by
        rw [← hback, hb] at hf; exact hf
      by_cases hfill : (!cfg.rep || (s0.clearPend i).fillAllowed k e) = true
      · rw [if_pos hfill] at hor ⊢
        simp only [hrep, Bool.not_true, Bool.false_or] at hfill
        -- the fill is allowed: same epoch, nothing in flight ⇒ the backing value is fresh against everything
        have hfa : (s0.clearPend i).fillAllowed k e = true := hfill
        unfold St.fillAllowed at hfa
        simp only [Bool.and_eq_true, beq_iff_eq] at hfa
        have hep : e = cnt s0.epoch k := hfa.1.symm
        have hin : cnt s0.infl k = 0 := hfa.2
        have hnd : k ∉ s0.dirty := hed hep
        have hall : FreshAll g k (some x) := by
          have := h.vi.b k hnd
          rw [← hback, hb] at this
          exact this.anti (fun j _ _ => no_bp_of_infl h.pi k hin j)
        have m := mut_cachePut cfg hrep (s0.clearPend i) k x now hc.vi hall
        refine raw_finish (hc.mut m) o (fun _ => by rw [m.pend]; exact hclr) hst
          (hd_get h.gi o hoi hop hr hf' hor)
      · rw [if_neg hfill] at hor ⊢
        exact raw_finish hc o (fun _ => hclr) hst (hd_get h.gi o hoi hop hr hf' hor)
  | putWT k v =>
    have hopk := pendOf_putWT hpo
    subst hopk
    unfold resume at hor ⊢
    simp only at hor ⊢
    refine raw_finish (clear_bw cfg hrep h hm (k := k) (val := some v)
      (s' := ({ (s0.clearPend i) with back := aset (s0.clearPend i).back k v } : St).inflDec cfg k)
      rfl hop rfl ?_ ?_ ?_ ?_ (by unfold St.inflDec; split <;> rfl) ?_ ?_) o ?_ hst
      (hd_nonget h.gi o hoi hop (fun k' e => by cases e))
    · exact wb_inflDec_pend _ _ _
    · rw [sq_inflDec_cache]; rfl
    · rw [wb_inflDec_dirty]; rfl
    · unfold St.inflDec; split <;> rfl
    · rw [sq_inflDec_back]; exact wb_aget?_aset_self _ _ _
    · intro x hx; rw [sq_inflDec_back]; exact wb_aget?_aset_other _ _ _ _ hx
    · intro _ x hx
      rw [wb_inflDec_pend] at hx
      exact hclr x hx
  | putWB =>
    have hng : ∀ k, op ≠ .get k := by
      intro k e; subst e; simp [PendOf] at hpo
    exact raw_finish (clear_nbw h hm rfl) o (fun _ => hclr) hst (hd_nonget h.gi o hoi hop hng)
  | del k inC =>
    have hopk := pendOf_del hpo
    subst hopk
    unfold resume at hor ⊢
    simp only at hor ⊢
    refine raw_finish (clear_bw cfg hrep h hm (k := k) (val := none)
      (s' := ({ (s0.clearPend i) with back := adel (s0.clearPend i).back k } : St).inflDec cfg k)
      rfl hop rfl ?_ ?_ ?_ ?_ (by unfold St.inflDec; split <;> rfl) ?_ ?_) o ?_ hst
      (hd_nonget h.gi o hoi hop (fun k' e => by cases e))
    · exact wb_inflDec_pend _ _ _
    · rw [sq_inflDec_cache]; rfl
    · rw [wb_inflDec_dirty]; rfl
    · unfold St.inflDec; split <;> rfl
    · rw [sq_inflDec_back]; exact sq_aget?_adel_self _ _
    · intro x hx; rw [sq_inflDec_back]; exact wb_aget?_adel_other _ _ _ hx
    · intro _ x hx
      rw [wb_inflDec_pend] at hx
      exact hclr x hx
  | flushCur k v rest n => exact absurd hpo pendOf_flushCur
  | flushRep k rest n =>
    obtain ⟨order, rfl⟩ := pendOf_flushRep hpo
    have hc := clear_nbw h hm (p := .flushRep k rest n) rfl
    have hng : ∀ k', OpK.flush order ≠ .get k' := fun k' e => by cases e
    -- the state the loop continues from
    have key : ∀ s2 m, RInvA g s2 → s2.pend = (s0.clearPend i).pend →
        o.res = (flushNext cfg s2 i rest m).2 → RInvA (g.ext o []) (flushNext cfg s2 i rest m).1 := by
      intro s2 m h2 hp2 hor2
      rcases flushNext_rep cfg hrep s2 i rest m with ⟨k', rest', n', e⟩ | ⟨n', e⟩
      · rw [e] at hor2 ⊢
        have hni : ∀ x ∈ s2.pend, x.1 ≠ i := fun x hx => by
          rw [hp2] at hx; exact ((mem_clearPend s0 i x).mp hx).2
        exact raw_finish (set_flush h2 his hie hni hop k' rest' n') o
          (fun hs => by rw [hor2] at hs; cases hs) hst (hd_nonget h.gi o hoi hop hng)
      · rw [e] at hor2 ⊢
        exact raw_finish h2 o (fun _ => by rw [hp2]; exact hclr) hst (hd_nonget h.gi o hoi hop hng)
    unfold resume at hor ⊢
    simp only at hor ⊢
    by_cases hcond : k ∈ (s0.clearPend i).dirty ∧ k ∈ akeys (s0.clearPend i).cache
    · rw [if_pos hcond] at hor ⊢
      exact key _ _ (hc.mut (mut_writeBack hc.vi k)) (wb_writeBack_pend _ _) hor
    · rw [if_neg hcond] at hor ⊢
      exact key _ _ hc rfl hor

/-! ### one segment -/

def actId : Act → Nat
  | .start i _ _ => i
  | .resume i _ => i

def newIds : Act → List Nat
  | .start i _ _ => [i]
  | .resume _ _ => []

/-- `a` may be executed in context `g`: a first segment is that of a table entry (a flush with any
iteration order) whose id has not started yet -/
def Adm (g : Gh) (a : Act) : Prop :=
  ∀ i op now, a = .start i op now →
    i ∉ g.started ∧ ∃ op', (i, op') ∈ g.ops ∧ ((∃ o1 o2, op' = .flush o1 ∧ op = .flush o2) ∨ op' = op)

theorem raw_step (cfg : Cfg) (hrep : cfg.rep = true) {g : Gh} {s : St} (h : RInvA g s) (a : Act) (hadm : Adm g a)
    (o : Obs) (hoi : o.i = actId a) (hor : o.res = (step cfg s a).2) :
    RInvA (g.ext o (newIds a)) (step cfg s a).1 := by
  cases a with
  | start i op now =>
    obtain ⟨hi, op', hop, hso⟩ := hadm i op now rfl
    show RInvA (g.ext o [i]) (start cfg s i op now).1
    have hor : o.res = (start cfg s i op now).2 := hor
    have hoi : o.i = i := hoi
    rcases hso with ⟨o1, o2, rfl, rfl⟩ | rfl
    · exact raw_start_flush cfg hrep h i o2 o1 now hi hop o hoi hor
    · cases op' with
      | get k => exact raw_start_get cfg h i k now hi hop o hoi hor
      | put k v => exact raw_start_put cfg hrep h i k v now hi hop o hoi hor
      | del k => exact raw_start_del cfg hrep h i k now hi hop o hoi hor
      | inv k => exact raw_start_inv cfg hrep h i k now hi hop o hoi hor
      | invAll => exact raw_start_invAll cfg hrep h i now hi hop o hoi hor
      | flush order => exact raw_start_flush cfg hrep h i order order now hi hop o hoi hor
  | resume i now =>
    show RInvA (g.ext o []) (step cfg s (.resume i now)).1
    have hoi : o.i = i := hoi
    unfold step at hor ⊢
    cases hf : s.pend.find? (fun x => x.1 == i) with
    | none =>
      simp only [hf] at hor ⊢
      exact raw_finish h o (fun hs => by rw [hor] at hs; cases hs) (fun hs => by rw [hor] at hs; cases hs)
        (fun _ _ _ hs => by rw [hor] at hs; cases hs)
    | some x =>
      obtain ⟨j, p⟩ := x
      simp only [hf] at hor ⊢
      have hmem := List.mem_of_find?_eq_some hf
      have hj : j = i := by
        have := List.find?_some hf
        simpa using this
      subst hj
      exact raw_resume cfg hrep h j p now hmem o hoi hor

end HappyModel.C16
