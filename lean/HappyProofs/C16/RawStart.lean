import HappyProofs.C16.RawExt
/-!
Read-after-write over every interleaving, part 5: the first segment of every operation keeps the
invariant (repaired store).
-/
namespace HappyModel.C16

/-- the whole invariant -/
structure RInvA (g : Gh) (s : St) : Prop where
  gi : GI g
  pi : PI g s
  vi : VI g s

theorem rw_mem_setAdd (l : List Key) (k x : Key) : x ∈ setAdd l k ↔ x ∈ l ∨ x = k := by
  unfold setAdd
  split
  · rename_i hk
    exact ⟨Or.inl, fun h => h.elim id (fun e => e ▸ hk)⟩
  · simp

/-! ### bookkeeping -/

theorem bump_epoch_self (cfg : Cfg) (hrep : cfg.rep = true) (s : St) (k : Key) :
    cnt (s.bump cfg k).epoch k = cnt s.epoch k + 1 := by
  simp only [St.bump, hrep, if_true]; exact sq_cnt_aset_self _ _ _

theorem bump_epoch_other (cfg : Cfg) (s : St) (k x : Key) (h : x ≠ k) :
    cnt (s.bump cfg k).epoch x = cnt s.epoch x := by
  unfold St.bump; split
  · exact sq_cnt_aset_other _ _ _ _ h
  · rfl

theorem inflInc_self (cfg : Cfg) (hrep : cfg.rep = true) (s : St) (k : Key) :
    cnt (s.inflInc cfg k).infl k = cnt s.infl k + 1 := by
  simp only [St.inflInc, hrep, if_true]; exact sq_cnt_aset_self _ _ _

theorem inflInc_other (cfg : Cfg) (s : St) (k x : Key) (h : x ≠ k) :
    cnt (s.inflInc cfg k).infl x = cnt s.infl x := by
  unfold St.inflInc; split
  · exact sq_cnt_aset_other _ _ _ _ h
  · rfl

@[simp] theorem rw_inflInc_epoch (cfg : Cfg) (s : St) (k : Key) : (s.inflInc cfg k).epoch = s.epoch := by
  unfold St.inflInc; split <;> rfl

theorem vi_bump (cfg : Cfg) {g : Gh} {s : St} (h : VI g s) (k : Key) : VI g (s.bump cfg k) where
  dsub := by rw [wb_bump_dirty, wb_bump_cache]; exact h.dsub
  c := by rw [wb_bump_cache]; exact h.c
  b := by
    intro x hx
    rw [wb_bump_dirty] at hx
    rw [sq_bump_back]
    exact (h.b x hx).anti (fun j _ hp hb => hp ((bp_of_pend (wb_bump_pend cfg s k) x j).mpr hb))
  miss := by
    intro i x e hm
    rw [wb_bump_pend] at hm
    obtain ⟨h1, h2, h3⟩ := h.miss i x e hm
    rw [sq_bump_back, wb_bump_dirty]
    have hge : cnt s.epoch x ≤ cnt (s.bump cfg k).epoch x := by
      unfold St.bump; split
      · by_cases e : x = k
        · subst e; rw [sq_cnt_aset_self]; omega
        · rw [sq_cnt_aset_other _ _ _ _ e]; exact Nat.le_refl _
      · exact Nat.le_refl _
    refine ⟨h1, Nat.le_trans h2 hge, ?_⟩
    intro he
    unfold St.bump at he
    split at he
    · by_cases e' : x = k
      · subst e'; rw [sq_cnt_aset_self] at he; omega
      · rw [sq_cnt_aset_other _ _ _ _ e'] at he; exact h3 he
    · exact h3 he

theorem pi_bump (cfg : Cfg) {g : Gh} {s : St} (h : PI g s) (k : Key) : PI g (s.bump cfg k) :=
  h.mut (wb_bump_pend cfg s k) (sq_bump_infl cfg s k)

/-! ### non-writing operations -/

/-- first segment of an operation that writes nothing; relative to `sm` only `pend` grows -/
theorem ext_start_nw {g : Gh} {sm s' : St} {i : Nat} {op : OpK} {o : Obs} {extra : List (Nat × Pend)}
    (h : RInvA g sm) (hi : i ∉ g.started) (hop : (i, op) ∈ g.ops) (hoi : o.i = i)
    (hw : wk op = none)
    (hc : s'.cache = sm.cache) (hd : s'.dirty = sm.dirty) (hb : s'.back = sm.back)
    (he : s'.epoch = sm.epoch) (hin : s'.infl = sm.infl)
    (hpend : s'.pend = sm.pend ++ extra)
    (hextra : extra = [] ∨ ∃ p, extra = [(i, p)] ∧ PendOf op p ∧ o.res = none ∧ bwKey p = none)
    (hres : o.res.isSome → ∀ k, op ≠ .get k)
    (hhit : ∀ v, (i, Pend.getHit v) ∈ extra → ∀ k, op = .get k → aget? sm.cache k = some v)
    (hmiss : ∀ k e, (i, Pend.getMiss k e) ∈ extra → k ∉ akeys sm.cache ∧ e = cnt sm.epoch k) :
    RInvA (g.ext o [i]) s' := by
  have hwn : ∀ k, wk op ≠ some k := fun k e => by rw [hw] at e; cases e
  have hbw : ∀ k, bwCount extra k = 0 := by
    intro k
    rcases hextra with e | ⟨p, e, _, _, hp⟩
    · rw [e]; rfl
    · rw [e]; simp [bwCount, hp]
  obtain ⟨a, b, c⟩ := ext_start h.gi h.pi h.vi hi hop hoi hpend
    (hextra.imp id (fun ⟨p, e, h1, h2, _⟩ => ⟨p, e, h1, h2⟩)) hres
    (fun k hk => absurd hk (hwn k))
    (fun k => by rw [hin, hbw]; rfl) (fun k => by rw [he]; exact Nat.le_refl _) hb
    (fun x hx => by rw [hd]; exact hx) (fun x _ => by rw [hc]) (fun x _ hx => by rw [← hd]; exact hx)
    (fun x _ => by rw [he]) (fun k _ hk => absurd hk (hwn k)) (fun k hk => absurd hk (hwn k))
    (fun k hk => absurd hk (hwn k)) (by rw [hd, hc]; exact h.vi.dsub) hhit hmiss
  exact ⟨a, b, c⟩

theorem flushNext_rep (cfg : Cfg) (hrep : cfg.rep = true) (s : St) (i : Nat) (l : List Key) (n : Nat) :
    (∃ k rest n', flushNext cfg s i l n = (s.setPend i (.flushRep k rest n'), none)) ∨
    (∃ n', flushNext cfg s i l n = (s, some (.count n'))) := by
  induction l generalizing n with
  | nil => exact Or.inr ⟨n, rfl⟩
  | cons k rest ih =>
    unfold flushNext
    rw [if_pos hrep]
    split
    · exact Or.inl ⟨k, rest, n, rfl⟩
    · exact ih n

/-- a state reached by a mutation, with nothing new pending -/
theorem RInvA.mut {g : Gh} {s s' : St} (h : RInvA g s) (m : Mut g s s') : RInvA g s' :=
  ⟨h.gi, h.pi.mut m.pend m.infl, h.vi.mut m⟩

theorem raw_start_get (cfg : Cfg) {g : Gh} {s : St} (h : RInvA g s) (i : Nat) (k : Key) (now : Nat)
    (hi : i ∉ g.started) (hop : (i, OpK.get k) ∈ g.ops) (o : Obs) (hoi : o.i = i)
    (hor : o.res = (start cfg s i (.get k) now).2) :
    RInvA (g.ext o [i]) (start cfg s i (.get k) now).1 := by
  unfold start at hor ⊢
  cases hv : aget? s.cache k with
  | some v =>
    simp only [hv] at hor ⊢
    refine ext_start_nw (extra := [(i, .getHit v)]) h hi hop hoi rfl rfl rfl rfl rfl rfl rfl
      (Or.inr ⟨_, rfl, trivial, hor, rfl⟩) (by rw [hor]; intro hh; cases hh) ?_ ?_
    · intro v' hm k' hk'
      simp only [List.mem_singleton, Prod.mk.injEq, Pend.getHit.injEq, true_and] at hm
      cases hk'; rw [hm]; exact hv
    · intro k' e hm
      simp at hm
  | none =>
    simp only [hv] at hor ⊢
    refine ext_start_nw (extra := [(i, .getMiss k (cnt s.epoch k))]) h hi hop hoi rfl rfl rfl rfl rfl rfl rfl
      (Or.inr ⟨_, rfl, rfl, hor, rfl⟩) (by rw [hor]; intro hh; cases hh) ?_ ?_
    · intro v' hm; simp at hm
    · intro k' e hm
      simp only [List.mem_singleton, Prod.mk.injEq, Pend.getMiss.injEq, true_and] at hm
      obtain ⟨rfl, rfl⟩ := hm
      exact ⟨(aget?_none_iff _ _).mp hv, rfl⟩

theorem raw_start_inv (cfg : Cfg) (hrep : cfg.rep = true) {g : Gh} {s : St} (h : RInvA g s) (i : Nat) (k : Key)
    (now : Nat) (hi : i ∉ g.started) (hop : (i, OpK.inv k) ∈ g.ops) (o : Obs) (hoi : o.i = i)
    (_hor : o.res = (start cfg s i (.inv k) now).2) :
    RInvA (g.ext o [i]) (start cfg s i (.inv k) now).1 := by
  unfold start
  by_cases hk : k ∈ akeys s.cache
  · simp only [hk, if_true, hrep] 
    exact ext_start_nw (extra := []) (h.mut (mut_remove h.vi k)) hi hop hoi rfl rfl rfl rfl rfl rfl
      (by simp) (Or.inl rfl) (fun _ k' e => by cases e) (fun v hm => by cases hm) (fun k' e hm => by cases hm)
  · simp only [hk, if_false] 
    exact ext_start_nw (extra := []) h hi hop hoi rfl rfl rfl rfl rfl rfl
      (by simp) (Or.inl rfl) (fun _ k' e => by cases e) (fun v hm => by cases hm) (fun k' e hm => by cases hm)

theorem raw_start_invAll (cfg : Cfg) (hrep : cfg.rep = true) {g : Gh} {s : St} (h : RInvA g s) (i : Nat)
    (now : Nat) (hi : i ∉ g.started) (hop : (i, OpK.invAll) ∈ g.ops) (o : Obs) (hoi : o.i = i)
    (_hor : o.res = (start cfg s i .invAll now).2) :
    RInvA (g.ext o [i]) (start cfg s i .invAll now).1 := by
  unfold start
  simp only [hrep, if_true] 
  have m : Mut g s { s.writeBackAll s.dirty with cache := [], dirty := [], pol := (s.writeBackAll s.dirty).pol.clear } :=
    mut_invAll h.vi rfl rfl rfl (wb_writeBackAll_pend _ _) (rw_writeBackAll_epoch _ _) (sq_writeBackAll_infl _ _)
  exact ext_start_nw (extra := []) (h.mut m) hi hop hoi rfl rfl rfl rfl rfl rfl
    (by simp) (Or.inl rfl) (fun _ k' e => by cases e) (fun v hm => by cases hm) (fun k' e hm => by cases hm)

theorem raw_start_flush (cfg : Cfg) (hrep : cfg.rep = true) {g : Gh} {s : St} (h : RInvA g s) (i : Nat)
    (order order' : List Key) (now : Nat) (hi : i ∉ g.started) (hop : (i, OpK.flush order') ∈ g.ops)
    (o : Obs) (hoi : o.i = i) (hor : o.res = (start cfg s i (.flush order) now).2) :
    RInvA (g.ext o [i]) (start cfg s i (.flush order) now).1 := by
  unfold start at hor ⊢
  simp only at hor ⊢
  rcases flushNext_rep cfg hrep s i order 0 with ⟨k, rest, n', e⟩ | ⟨n', e⟩
  · rw [e] at hor ⊢
    exact ext_start_nw (extra := [(i, .flushRep k rest n')]) h hi hop hoi rfl rfl rfl rfl rfl rfl rfl
      (Or.inr ⟨_, rfl, trivial, hor, rfl⟩) (by rw [hor]; intro hh; cases hh)
      (fun v hm => by simp at hm) (fun k' e hm => by simp at hm)
  · rw [e] at hor ⊢
    exact ext_start_nw (extra := []) h hi hop hoi rfl rfl rfl rfl rfl rfl
      (by simp) (Or.inl rfl) (fun _ k' e => by cases e) (fun v hm => by cases hm) (fun k' e hm => by cases hm)

end HappyModel.C16
