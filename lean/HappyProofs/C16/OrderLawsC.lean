import HappyProofs.C16.OrderLaws
import HappyProofs.C16.StoreWBA
/-!
The order law of sampled LRU: the policy's logical clock readings order the held keys exactly as the
history's last-touch indices do, so the minimum reading of the drawn sample is its least recently
touched key.
-/
namespace HappyModel.C16

/-- the readings in `times` order the held records like their last-touch indices -/
def SampOrd (times : List (Key × Nat)) (held : List HRec) : Prop :=
  ∀ ra ∈ held, ∀ rb ∈ held, ∀ ta tb, aget? times ra.key = some ta → aget? times rb.key = some tb →
    (ta < tb ↔ ra.last < rb.last)

def SampRel (size : Nat) (p : Pol) (sp : SpecSt) : Prop :=
  SpecInv sp ∧ ∃ s, p = .sampled s ∧ s.size = size ∧ akeys s.times = sp.keys ∧
    (∀ q ∈ s.times, q.2 ≤ s.clock) ∧ SampOrd s.times sp.held

theorem aget?_mem_pair {α} (l : List (Key × α)) (k : Key) (c : α) (h : aget? l k = some c) : (k, c) ∈ l := by
  simp only [aget?, Option.map_eq_some_iff] at h
  obtain ⟨p, hp, hc⟩ := h
  have h1 := List.mem_of_find?_eq_some hp
  have h2 := List.find?_some hp
  simp only [beq_iff_eq] at h2
  obtain ⟨a, b⟩ := p
  simp only at h2 hc
  subst h2; subst hc; exact h1

theorem aget?_of_mem_nodup {α} (l : List (Key × α)) (p : Key × α) (hn : (akeys l).Nodup) (hp : p ∈ l) :
    aget? l p.1 = some p.2 := by
  induction l with
  | nil => cases hp
  | cons a t ih =>
    simp only [akeys, List.map_cons, List.nodup_cons] at hn
    rw [wb_aget?_cons]
    rcases List.mem_cons.mp hp with rfl | hp'
    · simp
    · have : a.1 ≠ p.1 := fun e => hn.1 (e ▸ List.mem_map.mpr ⟨p, hp', rfl⟩)
      rw [if_neg this]
      exact ih hn.2 hp'

/-- giving key `k` a reading above all others and a last-touch index above all others keeps the
    two orders aligned -/
theorem sampOrd_set {times times' : List (Key × Nat)} {held held' : List HRec} {k : Key} {c tick : Nat}
    (ho : SampOrd times held) (hb : ∀ q ∈ times, q.2 ≤ c) (hl : ∀ r ∈ held, r.last < tick)
    (hn : (held'.map (·.key)).Nodup)
    (ht : ∀ x, aget? times' x = if x = k then some (c + 1) else aget? times x)
    (hh : ∀ r' ∈ held', (r'.key = k ∧ r'.last = tick) ∨ (r'.key ≠ k ∧ r' ∈ held)) :
    SampOrd times' held' := by
  intro ra hra rb hrb ta tb hta htb
  rw [ht] at hta htb
  rcases hh ra hra with ⟨ea, la⟩ | ⟨ea, ma⟩ <;> rcases hh rb hrb with ⟨eb, lb⟩ | ⟨eb, mb⟩
  · have : ra = rb := rec_unique hn hra hrb (ea.trans eb.symm)
    subst this
    simp only [ea, if_true, Option.some.injEq] at hta htb
    omega
  · simp only [ea, if_true, Option.some.injEq] at hta
    simp only [eb, if_false] at htb
    have h1 := hb _ (aget?_mem_pair _ _ _ htb)
    have h2 := hl rb mb
    simp only at h1
    omega
  · simp only [eb, if_true, Option.some.injEq] at htb
    simp only [ea, if_false] at hta
    have h1 := hb _ (aget?_mem_pair _ _ _ hta)
    have h2 := hl ra ma
    simp only at h1
    omega
  · simp only [ea, if_false] at hta
    simp only [eb, if_false] at htb
    exact ho ra ma rb mb ta tb hta htb

theorem aget?_aset_ite {α} (l : List (Key × α)) (k x : Key) (v : α) :
    aget? (aset l k v) x = if x = k then some v else aget? l x := by
  by_cases e : x = k
  · subst e; rw [if_pos rfl]; exact wb_aget?_aset_self _ _ _
  · rw [if_neg e]; exact wb_aget?_aset_other _ _ _ _ e

theorem mem_aset_bound (l : List (Key × Nat)) (k c : Nat) (hb : ∀ q ∈ l, q.2 ≤ c) :
    ∀ q ∈ aset l k (c + 1), q.2 ≤ c + 1 := by
  intro q hq
  unfold aset at hq
  split at hq
  · obtain ⟨p, hp, rfl⟩ := List.mem_map.mp hq
    split
    · exact Nat.le_refl _
    · exact Nat.le_succ_of_le (hb p hp)
  · rcases List.mem_append.mp hq with hq | hq
    · exact Nat.le_succ_of_le (hb q hq)
    · simp only [List.mem_singleton] at hq; subst hq; exact Nat.le_refl _

theorem sampRel_drop (s : SpecSt) (t : List (Key × Nat)) (k c : Nat) (ha : akeys t = s.keys)
    (hb : ∀ q ∈ t, q.2 ≤ c) (ho : SampOrd t s.held) :
    akeys (adel t k) = (s.held.filter (fun r => r.key != k)).map (·.key) ∧
      (∀ q ∈ adel t k, q.2 ≤ c) ∧ SampOrd (adel t k) (s.held.filter (fun r => r.key != k)) := by
  refine ⟨?_, ?_, ?_⟩
  · rw [akeys_adel, ha, keys_filter]; rfl
  · intro q hq; exact hb q (List.mem_filter.mp hq).1
  · intro ra hra rb hrb ta tb hta htb
    obtain ⟨ma, na⟩ := List.mem_filter.mp hra
    obtain ⟨mb, nb⟩ := List.mem_filter.mp hrb
    simp only [bne_iff_ne, ne_eq] at na nb
    rw [wb_aget?_adel_other _ _ _ na] at hta
    rw [wb_aget?_adel_other _ _ _ nb] at htb
    exact ho ra ma rb mb ta tb hta htb

theorem sampRel_step (size : Nat) (p : Pol) (s : SpecSt) (op : POp) (h : SampRel size p s)
    (hwf : (s.step op (p.step op).1).wf = true) :
    SampRel size (p.step op).2 (s.step op (p.step op).1) := by
  obtain ⟨hi, ⟨sz, t, c⟩, rfl, hs, ha, hb, ho⟩ := h
  simp only at hs ha hb ho
  have hi' := specInv_step _ _ _ hi hwf
  refine ⟨hi', ?_⟩
  cases op with
  | access k =>
    simp only [Pol.step, Pol.access, Sampled.access]
    by_cases hk : k ∈ akeys t
    · rw [if_pos hk]
      refine ⟨_, rfl, hs, ?_, mem_aset_bound t k c hb, ?_⟩
      · show akeys (aset t k (c + 1)) = _
        rw [akeys_aset_mem _ _ _ hk, step_keys_access]; exact ha
      · show SampOrd (aset t k (c + 1)) (s.step (.access k) none).held
        refine sampOrd_set ho hb hi.last_lt hi'.nodup (aget?_aset_ite t k · (c + 1)) ?_
        intro r' hr'
        rw [step_access] at hr'
        obtain ⟨r, hr, rfl⟩ := List.mem_map.mp hr'
        by_cases e : r.key = k
        · exact Or.inl ⟨by rw [touch_key]; exact e, touch_last_of_eq e⟩
        · exact Or.inr ⟨by rw [touch_key]; exact e, by rw [touch_of_ne e]; exact hr⟩
    · rw [if_neg hk]
      have hk' : k ∉ s.held.map (·.key) := by
        have : k ∉ s.keys := ha ▸ hk
        exact this
      refine ⟨_, rfl, hs, by rw [step_keys_access]; exact ha, hb, ?_⟩
      rw [step_access]
      simp only
      rw [map_touch_not_mem hk']; exact ho
  | insert k now =>
    have hh := wf_insert_not_has _ _ _ _ hwf
    have hk := not_mem_keys_of_not_has hh
    have hkt : k ∉ akeys t := ha ▸ hk
    simp only [Pol.step, Pol.insert, Sampled.insert]
    refine ⟨_, rfl, hs, ?_, mem_aset_bound t k c hb, ?_⟩
    · show akeys (aset t k (c + 1)) = _
      rw [akeys_aset_not_mem _ _ _ hkt, step_keys_insert _ _ _ _ hh, ha]
    · show SampOrd (aset t k (c + 1)) (s.step (.insert k now) none).held
      refine sampOrd_set ho hb hi.last_lt hi'.nodup (aget?_aset_ite t k · (c + 1)) ?_
      intro r' hr'
      rw [step_insert_wf _ _ _ _ hh] at hr'
      rcases List.mem_append.mp hr' with hr | hr
      · exact Or.inr ⟨fun e => hk (e ▸ mem_keys_of_mem hr), hr⟩
      · simp only [List.mem_singleton] at hr; subst hr
        exact Or.inl ⟨rfl, rfl⟩
  | remove k =>
    simp only [Pol.step, Pol.remove, Sampled.remove, step_remove]
    obtain ⟨h1, h2, h3⟩ := sampRel_drop s t k c ha hb ho
    exact ⟨_, rfl, hs, h1, h2, h3⟩
  | evict now pick =>
    simp only [Pol.step, Pol.evict, Sampled.evict]
    cases hm : argminFirst (Sampled.sample ⟨sz, t, c⟩ pick) with
    | none => exact ⟨_, rfl, hs, by simp only [step_evict_none]; exact ha, hb, by simp only [step_evict_none]; exact ho⟩
    | some q =>
      simp only [step_evict_some]
      obtain ⟨h1, h2, h3⟩ := sampRel_drop s t q.1 c ha hb ho
      exact ⟨_, rfl, hs, h1, h2, h3⟩
  | clear =>
    refine ⟨_, rfl, hs, by simp [SpecSt.step, SpecSt.keys, akeys], (by intro q hq; cases hq), ?_⟩
    intro ra hra
    simp [SpecSt.step] at hra

theorem sampRel_evict (size : Nat) (p : Pol) (s : SpecSt) (now : Nat) (pick : List Key) (k : Key)
    (h : SampRel size p s) (he : (p.evict now pick).1 = some k) :
    ∃ v, s.rec? k = some v ∧ orderOk (.sampled size) s now pick v = true := by
  obtain ⟨hi, ⟨sz, t, c⟩, rfl, hs, ha, hb, ho⟩ := h
  simp only at hs ha hb ho
  subst hs
  simp only [Pol.evict, Sampled.evict] at he
  cases hm : argminFirst (Sampled.sample ⟨sz, t, c⟩ pick) with
  | none => simp [hm] at he
  | some q =>
    simp only [hm, Option.some.injEq] at he; subst he
    have hq := argminFirst_mem _ _ hm
    have hle := argminFirst_le _ _ hm
    have hqt : q ∈ t := sampled_sample_mem _ _ _ hq
    have hqk : q.1 ∈ s.keys := ha ▸ mem_akeys_of_mem hqt
    obtain ⟨v, hv, hvk⟩ := exists_rec_of_mem_keys hqk
    refine ⟨v, by rw [← hvk]; exact rec?_of_mem hi.nodup hv, ?_⟩
    -- the Spec's sample is the model's
    have hdr : ((pick.filter fun c' => s.held.any (·.key == c')).take sz) = Sampled.drawn ⟨sz, t, c⟩ pick := by
      unfold Sampled.drawn
      simp only
      congr 1
      apply List.filter_congr
      intro x _
      rw [ha, Bool.eq_iff_iff]
      simp [SpecSt.keys, List.any_eq_true]
    simp only [orderOk, hdr]
    split
    · rfl
    · rename_i hne
      -- the drawn sample names tracked keys, so the filtered candidate list is not empty
      have hcne : (t.filter (fun p => (Sampled.drawn ⟨sz, t, c⟩ pick).contains p.1)).isEmpty = false := by
        cases hd : Sampled.drawn ⟨sz, t, c⟩ pick with
        | nil => rw [hd] at hne; simp at hne
        | cons d ds =>
          have hdm : d ∈ Sampled.drawn ⟨sz, t, c⟩ pick := by rw [hd]; exact List.mem_cons_self
          have hdt : d ∈ akeys t := by
            unfold Sampled.drawn at hdm
            have := (List.mem_filter.mp (List.mem_of_mem_take hdm)).2
            simpa [List.contains_iff_mem] using this
          obtain ⟨pd, hpd, hpe⟩ := List.mem_map.mp hdt
          rw [← hd]
          rw [Bool.eq_false_iff]
          intro hemp
          rw [List.isEmpty_iff] at hemp
          have : pd ∈ t.filter (fun p => (Sampled.drawn ⟨sz, t, c⟩ pick).contains p.1) := by
            rw [List.mem_filter]
            exact ⟨hpd, by rw [List.contains_iff_mem, hpe]; exact hdm⟩
          rw [hemp] at this; cases this
      have hsample : Sampled.sample ⟨sz, t, c⟩ pick =
          t.filter (fun p => (Sampled.drawn ⟨sz, t, c⟩ pick).contains p.1) := by
        unfold Sampled.sample
        simp only [hcne, Bool.false_eq_true, if_false]
      rw [hsample] at hq hle
      have hqd := (List.mem_filter.mp hq).2
      simp only [Bool.and_eq_true, List.all_eq_true, Bool.or_eq_true, Bool.not_eq_true',
        decide_eq_true_eq]
      refine ⟨by rw [hvk]; exact hqd, ?_⟩
      intro r hr
      by_cases hrd : (Sampled.drawn ⟨sz, t, c⟩ pick).contains r.key = true
      · right
        have hrt : r.key ∈ akeys t := ha ▸ mem_keys_of_mem hr
        obtain ⟨pr, hpr, hpre⟩ := List.mem_map.mp hrt
        have hprs : pr ∈ t.filter (fun p => (Sampled.drawn ⟨sz, t, c⟩ pick).contains p.1) := by
          rw [List.mem_filter]; exact ⟨hpr, by rw [hpre]; exact hrd⟩
        have hle' := hle pr hprs
        have hnd : (akeys t).Nodup := ha ▸ hi.nodup
        have hgq : aget? t v.key = some q.2 := by
          rw [hvk]; exact aget?_of_mem_nodup t q hnd hqt
        have hgr : aget? t r.key = some pr.2 := by
          rw [← hpre]; exact aget?_of_mem_nodup t pr hnd hpr
        have := (ho r hr v hv pr.2 q.2 hgr hgq)
        omega
      · left
        simpa using hrd

/-- sampled LRU evicts the least recently touched key of the drawn sample -/
theorem sampled_evicts_lru_of_sample (size : Nat) : OrderLaw (.sampled { size := size }) :=
  orderLaw_of_rel _ (SampRel size)
    ⟨specInv_init, _, rfl, rfl, rfl, (by intro q hq; cases hq), (by intro ra hra; cases hra)⟩
    (sampRel_step size) (sampRel_evict size)

end HappyModel.C16
