import HappyProofs.C16.RawStart
/-!
Read-after-write over every interleaving, part 6: the first segment of `put` (both write modes) and
of `delete` keeps the invariant (repaired store).
-/
namespace HappyModel.C16

theorem wk_put (k v : Nat) (x : Key) : wk (.put k v) = some x ↔ x = k := by
  simp [wk, wkv, eq_comm]

theorem wk_del (k : Nat) (x : Key) : wk (.del k) = some x ↔ x = k := by
  simp [wk, wkv, eq_comm]

theorem raw_start_put (cfg : Cfg) (hrep : cfg.rep = true) {g : Gh} {s : St} (h : RInvA g s) (i : Nat)
    (k v : Nat) (now : Nat) (hi : i ∉ g.started) (hop : (i, OpK.put k v) ∈ g.ops) (o : Obs) (hoi : o.i = i)
    (hor : o.res = (start cfg s i (.put k v) now).2) :
    RInvA (g.ext o [i]) (start cfg s i (.put k v) now).1 := by
  have vi0 : VI g (s.bump cfg k) := vi_bump cfg h.vi k
  have pi0 : PI g (s.bump cfg k) := pi_bump cfg h.pi k
  obtain ⟨pe, m, hc, hd, hb, hp, he, hin⟩ := cachePut_split cfg hrep (s.bump cfg k) k v now vi0
  have pie : PI g pe := pi0.mut m.pend m.infl
  have vie : VI g pe := vi0.mut m
  have hpe_pend : pe.pend = s.pend := m.pend.trans (wb_bump_pend cfg s k)
  have hpe_epoch : pe.epoch = (s.bump cfg k).epoch := m.epoch
  -- pending misses of `k` carry an older epoch
  have hkm : ∀ j e, (j, Pend.getMiss k e) ∈ pe.pend → e < cnt pe.epoch k := by
    intro j e hm
    rw [hpe_pend] at hm
    have := (h.vi.miss j k e hm).2.1
    rw [hpe_epoch, bump_epoch_self cfg hrep]
    omega
  have hds : ∀ x, x ∈ pe.dirty ∨ x = k → x ∈ akeys (aset pe.cache k v) := by
    intro x hx
    rcases hx with hx | hx
    · exact (sq_mem_akeys_aset _ _ _ _).mpr (Or.inr (vie.dsub x hx))
    · exact (sq_mem_akeys_aset _ _ _ _).mpr (Or.inl hx)
  unfold start at hor ⊢
  by_cases hwt : cfg.wt = true
  · simp only [hwt, if_true] at hor ⊢
    generalize hs1 : cachePut cfg (s.bump cfg k) k v now = s1 at hc hd hb hp he hin hor ⊢
    obtain ⟨a, b, c⟩ := ext_start (sm := pe) (s' := (s1.inflInc cfg k).setPend i (.putWT k v))
      (extra := [(i, .putWT k v)]) h.gi pie vie hi hop hoi
      (by show (s1.inflInc cfg k).pend ++ _ = _; rw [wb_inflInc_pend, hp])
      (Or.inr ⟨_, rfl, ⟨rfl, rfl⟩, hor⟩) (by rw [hor]; intro hh; cases hh) (fun _ _ => hor)
      (by
        intro x
        show cnt (s1.inflInc cfg k).infl x = _
        by_cases e : x = k
        · subst e; rw [inflInc_self cfg hrep, hin]; simp [bwCount, bwKey]
        · rw [inflInc_other cfg _ _ _ e, hin]
          have : ¬ k = x := fun e' => e e'.symm
          simp [bwCount, bwKey, this])
      (by intro x; show cnt pe.epoch x ≤ cnt (s1.inflInc cfg k).epoch x; rw [rw_inflInc_epoch, he]; exact Nat.le_refl _)
      (by show (s1.inflInc cfg k).back = _; rw [wb_inflInc_back, hb])
      (by intro x hx; show x ∈ (s1.inflInc cfg k).dirty; rw [wb_inflInc_dirty, hd]; exact hx)
      (by
        intro x hx
        show aget? (s1.inflInc cfg k).cache x = _
        rw [sq_inflInc_cache, hc]
        exact wb_aget?_aset_other _ _ _ _ (fun e => hx ((wk_put k v x).mpr e)))
      (by intro x _ hx; have hx : x ∈ (s1.inflInc cfg k).dirty := hx; rw [wb_inflInc_dirty, hd] at hx; exact hx)
      (by intro x _; show cnt (s1.inflInc cfg k).epoch x = _; rw [rw_inflInc_epoch, he])
      (by
        intro x w hx hw
        have hw : aget? (s1.inflInc cfg k).cache x = some w := hw
        have e := (wk_put k v x).mp hx
        subst e
        rw [sq_inflInc_cache, hc, wb_aget?_aset_self] at hw
        cases hw; rfl)
      (by
        intro x hx
        have e := (wk_put k v x).mp hx
        subst e
        exact Or.inr ⟨.putWT x v, by show _ ∈ (s1.inflInc cfg x).pend ++ _; simp, rfl⟩)
      (by
        intro x hx j e hm
        have e' := (wk_put k v x).mp hx
        subst e'
        show e < cnt (s1.inflInc cfg x).epoch x
        rw [rw_inflInc_epoch, he]; exact hkm j e hm)
      (by
        intro x hx
        have hx : x ∈ (s1.inflInc cfg k).dirty := hx
        show x ∈ akeys (s1.inflInc cfg k).cache
        rw [wb_inflInc_dirty, hd] at hx
        rw [sq_inflInc_cache, hc]
        exact hds x (Or.inl hx))
      (by intro w hm; simp at hm) (by intro x e hm; simp at hm)
    exact ⟨a, b, c⟩
  · simp only [hwt] at hor ⊢
    generalize hs1 : cachePut cfg (s.bump cfg k) k v now = s1 at hc hd hb hp he hin hor ⊢
    obtain ⟨a, b, c⟩ := ext_start (sm := pe) (s' := ({ s1 with dirty := setAdd s1.dirty k } : St).setPend i .putWB)
      (extra := [(i, .putWB)]) h.gi pie vie hi hop hoi
      (by show s1.pend ++ _ = _; rw [hp])
      (Or.inr ⟨_, rfl, trivial, hor⟩) (by rw [hor]; intro hh; cases hh) (fun _ _ => hor)
      (by intro x; show cnt s1.infl x = _; rw [hin]; simp [bwCount, bwKey])
      (by intro x; show cnt pe.epoch x ≤ cnt s1.epoch x; rw [he]; exact Nat.le_refl _)
      (by show s1.back = _; rw [hb])
      (by intro x hx; show x ∈ setAdd s1.dirty k; rw [hd]; exact (rw_mem_setAdd _ _ _).mpr (Or.inl hx))
      (by
        intro x hx
        show aget? s1.cache x = _
        rw [hc]
        exact wb_aget?_aset_other _ _ _ _ (fun e => hx ((wk_put k v x).mpr e)))
      (by
        intro x hx hxd
        have hxd : x ∈ setAdd s1.dirty k := hxd
        rw [hd] at hxd
        rcases (rw_mem_setAdd _ _ _).mp hxd with h' | h'
        · exact h'
        · exact absurd ((wk_put k v x).mpr h') hx)
      (by intro x _; show cnt s1.epoch x = _; rw [he])
      (by
        intro x w hx hw
        have hw' : aget? s1.cache x = some w := hw
        have e := (wk_put k v x).mp hx
        subst e
        rw [hc, wb_aget?_aset_self] at hw'
        cases hw'; rfl)
      (by
        intro x hx
        have e := (wk_put k v x).mp hx
        subst e
        exact Or.inl (show x ∈ setAdd s1.dirty x from (rw_mem_setAdd _ _ _).mpr (Or.inr rfl)))
      (by
        intro x hx j e hm
        have e' := (wk_put k v x).mp hx
        subst e'
        show e < cnt s1.epoch x
        rw [he]; exact hkm j e hm)
      (by
        intro x hx
        have hx : x ∈ setAdd s1.dirty k := hx
        show x ∈ akeys s1.cache
        rw [hd] at hx
        rw [hc]
        exact hds x ((rw_mem_setAdd _ _ _).mp hx))
      (by intro w hm; simp at hm) (by intro x e hm; simp at hm)
    exact ⟨a, b, c⟩

theorem raw_start_del (cfg : Cfg) (hrep : cfg.rep = true) {g : Gh} {s : St} (h : RInvA g s) (i : Nat)
    (k : Nat) (now : Nat) (hi : i ∉ g.started) (hop : (i, OpK.del k) ∈ g.ops) (o : Obs) (hoi : o.i = i)
    (hor : o.res = (start cfg s i (.del k) now).2) :
    RInvA (g.ext o [i]) (start cfg s i (.del k) now).1 := by
  have vi0 : VI g (s.bump cfg k) := vi_bump cfg h.vi k
  have pi0 : PI g (s.bump cfg k) := pi_bump cfg h.pi k
  -- the state after the optional write-back + removal
  have hmid : ∃ s1, Mut g (s.bump cfg k) s1 ∧ k ∉ akeys s1.cache ∧
      s1 = (if decide (k ∈ akeys (s.bump cfg k).cache) = true then
        cacheRemove (if cfg.rep = true then (s.bump cfg k).writeBack k else s.bump cfg k) k else s.bump cfg k) := by
    by_cases hk : k ∈ akeys (s.bump cfg k).cache
    · refine ⟨_, ?_, ?_, rfl⟩
      · simp only [hk, decide_true, if_true, hrep]
        exact mut_remove vi0 k
      · simp only [hk, decide_true, if_true, hrep]
        show k ∉ akeys (adel ((s.bump cfg k).writeBack k).cache k)
        rw [mem_akeys_adel]; exact fun hh => hh.2 rfl
    · refine ⟨_, ?_, ?_, rfl⟩
      · simp only [hk, decide_false]; exact Mut.refl vi0
      · simp only [hk, decide_false]; exact hk
  obtain ⟨s1, m, hk1, hs1⟩ := hmid
  have pie : PI g s1 := pi0.mut m.pend m.infl
  have vie : VI g s1 := vi0.mut m
  have hkm : ∀ j e, (j, Pend.getMiss k e) ∈ s1.pend → e < cnt s1.epoch k := by
    intro j e hm
    rw [m.pend, wb_bump_pend] at hm
    have := (h.vi.miss j k e hm).2.1
    rw [m.epoch, bump_epoch_self cfg hrep]
    omega
  have hor : o.res = none := hor
  unfold start
  simp only
  rw [← hs1]
  generalize decide (k ∈ akeys (s.bump cfg k).cache) = inC
  obtain ⟨a, b, c⟩ := ext_start (sm := s1) (s' := (s1.inflInc cfg k).setPend i (.del k inC))
    (extra := [(i, .del k inC)]) h.gi pie vie hi hop hoi
    (by show (s1.inflInc cfg k).pend ++ _ = _; rw [wb_inflInc_pend])
    (Or.inr ⟨_, rfl, rfl, hor⟩) (by rw [hor]; intro hh; cases hh) (fun _ _ => hor)
    (by
      intro x
      show cnt (s1.inflInc cfg k).infl x = _
      by_cases e : x = k
      · subst e; rw [inflInc_self cfg hrep]; simp [bwCount, bwKey]
      · rw [inflInc_other cfg _ _ _ e]
        have : ¬ k = x := fun e' => e e'.symm
        simp [bwCount, bwKey, this])
    (by intro x; show cnt s1.epoch x ≤ cnt (s1.inflInc cfg k).epoch x; rw [rw_inflInc_epoch]; exact Nat.le_refl _)
    (by show (s1.inflInc cfg k).back = _; rw [wb_inflInc_back])
    (by intro x hx; show x ∈ (s1.inflInc cfg k).dirty; rw [wb_inflInc_dirty]; exact hx)
    (by intro x _; show aget? (s1.inflInc cfg k).cache x = _; rw [sq_inflInc_cache])
    (by intro x _ hx; have hx : x ∈ (s1.inflInc cfg k).dirty := hx; rw [wb_inflInc_dirty] at hx; exact hx)
    (by intro x _; show cnt (s1.inflInc cfg k).epoch x = _; rw [rw_inflInc_epoch])
    (by
      intro x w hx hw
      have hw : aget? (s1.inflInc cfg k).cache x = some w := hw
      have e := (wk_del k x).mp hx
      subst e
      rw [sq_inflInc_cache] at hw
      exact absurd (sq_mem_akeys_of_some _ _ _ hw) hk1)
    (by
      intro x hx
      have e := (wk_del k x).mp hx
      subst e
      exact Or.inr ⟨.del x inC, by show _ ∈ (s1.inflInc cfg x).pend ++ _; simp, rfl⟩)
    (by
      intro x hx j e hm
      have e' := (wk_del k x).mp hx
      subst e'
      show e < cnt (s1.inflInc cfg x).epoch x
      rw [rw_inflInc_epoch]; exact hkm j e hm)
    (by
      intro x hx
      have hx : x ∈ (s1.inflInc cfg k).dirty := hx
      show x ∈ akeys (s1.inflInc cfg k).cache
      rw [wb_inflInc_dirty] at hx
      rw [sq_inflInc_cache]
      exact vie.dsub x hx)
    (by intro w hm; simp at hm) (by intro x e hm; simp at hm)
  exact ⟨a, b, c⟩

end HappyModel.C16
