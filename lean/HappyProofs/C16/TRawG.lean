import HappyProofs.C16.TRawF
/-!
Multi-tier read-after-write over every interleaving, part 7: later segments of the reads keep the
invariant (`mraw_resume_read`).
-/
namespace HappyModel.C16.Tier
open HappyModel.C16

/-- from "the read continuation is done" to the invariant in the extended context -/
theorem read_finish {g : Gh} {ms0 ms' : MSt} {i : Nat} (gi : GI g) (d : ReadDone g ms0 ms' i) (his : i ∈ g.started)
    (o : Obs) (hoi : o.i = i)
    (hd : ∀ k rs, (o.i, OpK.get k) ∈ g.ops → o.res.isSome → endIdx g.evs o.i = none →
      firstIdx (g.evs ++ [o]) o.i = some rs →
      ∃ v, o.res = some (resOf v) ∧ ReadGood g.ops (g.evs ++ [o]) k rs g.evs.length v) :
    MInv (g.ext o []) ms' := by
  refine mext_same gi d.pi d.vi o ?_ ?_ ?_ (fun _ => hoi ▸ his) hd
  · intro j op k hj hjm hk
    rcases d.lim.elim hj hjm hk with h' | h'
    · exact Or.inl h'
    · exact Or.inr (Or.inl h')
  · intro _ x hx
    rw [d.pend] at hx
    rw [hoi]; exact ((mem_mclearPend ms0 i x).mp hx).2
  · intro _ t s hs x hx hput
    rw [hoi]; exact d.noPut t s hs x hx hput

theorem mraw_resume_read (cfg : MCfg) (hrep : cfg.rep = true) {g : Gh} {ms0 : MSt} (h : MInv g ms0) (i : Nat)
    (p : MPend) (now : Nat) (hm : (i, p) ∈ ms0.pend)
    (hp : (∃ t k e, p = .tierGet t k e) ∨ (∃ k e, p = .backGet k e) ∨ (∃ t, p = .direct t))
    (o : Obs) (hoi : o.i = i) (hor : o.res = (mresume cfg ms0 i p now).2) :
    MInv (g.ext o []) (mresume cfg ms0 i p now).1 := by
  obtain ⟨his, hie⟩ := h.pi.pendS _ hm
  rcases hp with ⟨t, k, e, rfl⟩ | ⟨k, e, rfl⟩ | ⟨t, rfl⟩
  · -- a `get` that was served by tier `t`
    obtain ⟨hopk, rs, rh, hrs, hle, hrh, hee, hE, hT⟩ := h.pi.tg i t k e hm
    have hnp : ∀ k' v', (i, OpK.put k' v') ∉ g.ops := fun k' v' ho => by
      have := ops_unique h.gi.nd hopk ho; cases this
    obtain ⟨r1, r2, r3, r4, r5, r6⟩ := onTier_resume_shape cfg h i t now hnp
    have d0 : ReadDone g ms0 (onTier cfg (ms0.clearPend i) t (fun c s => step c s (.resume i now))).1 i :=
      read_done h hm rfl hnp r1 r2 r3 r4 r5
    have hget : ∀ v, Fresh g k (some v) (fun j => CompletedBefore g.evs j rh) → o.res = some (.val v) →
        ∀ k' rs', (o.i, OpK.get k') ∈ g.ops → o.res.isSome → endIdx g.evs o.i = none →
          firstIdx (g.evs ++ [o]) o.i = some rs' →
          ∃ v, o.res = some (resOf v) ∧ ReadGood g.ops (g.evs ++ [o]) k' rs' g.evs.length v := by
      intro v hf hres
      refine hd_get h.gi o hoi hopk hrs (v := some v) ?_ hres
      exact hf.anti (fun j _ ⟨e', he', hlt⟩ => ⟨e', he', Nat.lt_of_lt_of_le hlt hle⟩)
    unfold mresume at hor ⊢
    simp only at hor ⊢
    generalize onTier cfg (ms0.clearPend i) t (fun c s => step c s (.resume i now)) = R at r6 d0 hor ⊢
    rcases r6 with hr | ⟨s, hs, ⟨v, hmem, hr⟩ | ⟨k', e', hmem, _⟩⟩
    · rw [hr] at hor ⊢
      simp only at hor ⊢
      exact read_finish h.gi d0 his o hoi (fun _ _ _ hs => by rw [hor] at hs; cases hs)
    · rw [hr] at hor ⊢
      simp only at hor ⊢
      obtain ⟨v', ev, hf⟩ := hT s _ hs hmem
      cases ev
      refine read_finish (ms0 := ms0) h.gi ?_ his o hoi (hget v hf hor)
      unfold afterTierGet
      split
      · rename_i hcond
        simp only [hrep, Bool.not_true, Bool.false_or, Bool.and_eq_true] at hcond
        have hfa := hcond.2
        unfold MSt.fillAllowed at hfa
        simp only [Bool.and_eq_true, beq_iff_eq] at hfa
        rw [d0.epoch, d0.infl] at hfa
        have hall := hE hfa.1.symm
        refine fillL1_done cfg d0 k v now (Fresh.anti' ?_ hf)
        intro j op hj hjm hk _
        rcases hall j op hj hjm hk with h' | h'
        · exact h'
        · exact absurd h' (no_infl_of_count h.pi k hfa.2 j)
      · exact d0
    · obtain ⟨v', ev, _⟩ := hT s _ hs hmem
      cases ev
  · -- a `get` that was served by the backing store
    obtain ⟨hopk, rs, hrs, hf⟩ := h.pi.bg i k e hm
    have hnp : ∀ k' v', (i, OpK.put k' v') ∉ g.ops := fun k' v' ho => by
      have := ops_unique h.gi.nd hopk ho; cases this
    have d0 : ReadDone g ms0 (ms0.clearPend i) i :=
      read_done h hm rfl hnp rfl rfl rfl rfl
        (fun t s' hs' => ⟨s', hs', h.vi.d t s' hs', fun x hx => hx, fun x w hw => Or.inl hw⟩)
    unfold mresume at hor ⊢
    simp only at hor ⊢
    cases hb : aget? ms0.back k with
    | none =>
      simp only [hb] at hor ⊢
      rw [hb] at hf
      exact read_finish h.gi d0 his o hoi (hd_get h.gi o hoi hopk hrs (v := none) hf hor)
    | some x =>
      simp only [hb] at hor ⊢
      rw [hb] at hf
      have hfin := hd_get h.gi o hoi hopk hrs (v := some x) hf
      split
      · rename_i hcond
        rw [if_pos hcond] at hor
        refine read_finish h.gi (fillL1_done cfg d0 k x now ?_) his o hoi (hfin hor)
        have := d0.vi.b k
        rw [d0.back, hb] at this
        exact this
      · rename_i hcond
        rw [if_neg hcond] at hor
        exact read_finish h.gi d0 his o hoi (hfin hor)
  · -- a direct tier read
    have hng : ∀ k, (i, OpK.get k) ∉ g.ops := h.pi.dr i t hm
    -- its table entry is not a `put` either: the tier continuations of `i` are reads
    by_cases hput : ∃ k v, (i, OpK.put k v) ∈ g.ops
    · -- impossible: `direct` continuations belong to `tget` entries; we do not track that, but a
      -- `put` entry would have left a `putBack`/`putL1` continuation, not `direct`
      obtain ⟨k, v, ho⟩ := hput
      rcases h.lim.elim his ho (wk_of_wkv rfl) with ⟨q, hq, hk⟩ | hc
      · rw [mpend_unique h.pi hq hm] at hk; cases hk
      · rw [hie] at hc; cases hc
    · have hnp : ∀ k v, (i, OpK.put k v) ∉ g.ops := fun k v ho => hput ⟨k, v, ho⟩
      obtain ⟨r1, r2, r3, r4, r5, _⟩ := onTier_resume_shape cfg h i t now hnp
      have d0 : ReadDone g ms0 (onTier cfg (ms0.clearPend i) t (fun c s => step c s (.resume i now))).1 i :=
        read_done h hm rfl hnp r1 r2 r3 r4 r5
      unfold mresume at hor ⊢
      simp only at hor ⊢
      refine read_finish h.gi d0 his o hoi ?_
      intro k rs hk
      rw [hoi] at hk
      exact absurd hk (hng k)

end HappyModel.C16.Tier
