import HappyProofs.C16.PolicyLaws
/-!
Generic list / association-list lemmas, then the per-policy laws of LRU, LFU, TTL, FIFO, Random.
-/
namespace HappyModel.C16

/-! ### generic lemmas -/

theorem akeys_nil {α} : akeys ([] : List (Key × α)) = [] := rfl

theorem akeys_eq_nil {α} (l : List (Key × α)) : akeys l = [] ↔ l = [] := by
  simp [akeys]

theorem length_akeys {α} (l : List (Key × α)) : (akeys l).length = l.length := by
  simp [akeys]

theorem mem_akeys_of_mem {α} {l : List (Key × α)} {p : Key × α} (h : p ∈ l) : p.1 ∈ akeys l :=
  List.mem_map.mpr ⟨p, h, rfl⟩

theorem akeys_append {α} (l m : List (Key × α)) : akeys (l ++ m) = akeys l ++ akeys m := by
  simp [akeys]

theorem akeys_map_upd {α} (l : List (Key × α)) (k : Key) (v : α) :
    akeys (l.map (fun p => if p.1 = k then (k, v) else p)) = akeys l := by
  induction l with
  | nil => rfl
  | cons p t ih =>
    simp only [akeys, List.map_cons] at ih ⊢
    rw [ih]
    by_cases hp : p.1 = k <;> simp [hp]

theorem akeys_aset_mem {α} (l : List (Key × α)) (k : Key) (v : α) (h : k ∈ akeys l) :
    akeys (aset l k v) = akeys l := by
  simp only [aset, h, if_true]
  exact akeys_map_upd l k v

theorem akeys_aset_not_mem {α} (l : List (Key × α)) (k : Key) (v : α) (h : k ∉ akeys l) :
    akeys (aset l k v) = akeys l ++ [k] := by
  simp only [aset, h, if_false]
  simp [akeys]

theorem akeys_adel {α} (l : List (Key × α)) (k : Key) :
    akeys (adel l k) = (akeys l).filter (fun x => x != k) := by
  induction l with
  | nil => rfl
  | cons p t ih =>
    simp only [akeys, adel, List.map_cons] at ih ⊢
    by_cases hp : p.1 = k <;> simp [hp, ih]

theorem mem_akeys_adel {α} (l : List (Key × α)) (k x : Key) :
    x ∈ akeys (adel l k) ↔ x ∈ akeys l ∧ x ≠ k := by
  rw [akeys_adel, List.mem_filter]; simp

theorem nodup_akeys_adel {α} (l : List (Key × α)) (k : Key) (h : (akeys l).Nodup) :
    (akeys (adel l k)).Nodup := by
  rw [akeys_adel]; exact h.sublist List.filter_sublist

theorem nodup_append_singleton {l : List Key} {k : Key} (h : l.Nodup) (hk : k ∉ l) :
    (l ++ [k]).Nodup := by
  rw [List.nodup_append]
  refine ⟨h, by simp, ?_⟩
  intro a ha b hb
  simp only [List.mem_singleton] at hb
  subst hb
  intro e; subst e; exact hk ha

theorem nodup_erase_append {l : List Key} {k : Key} (h : l.Nodup) : (l.erase k ++ [k]).Nodup :=
  nodup_append_singleton (h.erase k) (h.not_mem_erase)

theorem mem_erase_append {l : List Key} {k : Key} (h : l.Nodup) (hk : k ∈ l) (x : Key) :
    x ∈ l.erase k ++ [k] ↔ x ∈ l := by
  rw [List.mem_append, h.mem_erase_iff, List.mem_singleton]
  constructor
  · rintro (⟨_, hx⟩ | rfl)
    · exact hx
    · exact hk
  · intro hx
    by_cases e : x = k
    · exact Or.inr e
    · exact Or.inl ⟨e, hx⟩

theorem mem_erase_iff' {l : List Key} {k : Key} (h : l.Nodup) (x : Key) :
    x ∈ l.erase k ↔ x ∈ l ∧ x ≠ k := by
  rw [h.mem_erase_iff]; exact And.comm

theorem argminFirst_eq_none (l : List (Key × Nat)) : argminFirst l = none ↔ l = [] := by
  cases l with
  | nil => simp [argminFirst]
  | cons p t =>
    simp only [argminFirst]
    split
    · simp
    · split <;> simp

theorem argminFirst_mem (l : List (Key × Nat)) (p : Key × Nat) (h : argminFirst l = some p) :
    p ∈ l := by
  induction l generalizing p with
  | nil => simp [argminFirst] at h
  | cons q t ih =>
    simp only [argminFirst] at h
    split at h
    · simp at h; subst h; simp
    · rename_i r hr
      split at h
      · simp at h; subst h; exact List.mem_cons_of_mem _ (ih _ hr)
      · simp at h; subst h; simp

theorem mem_eraseIdx_nodup {l : List Key} (h : l.Nodup) (i : Nat) (k : Key) (hi : l[i]? = some k)
    (x : Key) : x ∈ l.eraseIdx i ↔ x ∈ l ∧ x ≠ k := by
  induction l generalizing i with
  | nil => simp at hi
  | cons a t ih =>
    rw [List.nodup_cons] at h
    cases i with
    | zero =>
      simp at hi; subst hi
      simp only [List.eraseIdx_cons_zero, List.mem_cons]
      constructor
      · intro hx; exact ⟨Or.inr hx, fun e => h.1 (e ▸ hx)⟩
      · rintro ⟨hx | hx, hne⟩
        · exact absurd hx hne
        · exact hx
    | succ j =>
      simp at hi
      have hk : k ∈ t := List.mem_of_getElem? hi
      simp only [List.eraseIdx_cons_succ, List.mem_cons, ih h.2 j hi]
      constructor
      · rintro (hx | ⟨hx, hne⟩)
        · exact ⟨Or.inl hx, fun e => h.1 (hx ▸ e ▸ hk)⟩
        · exact ⟨Or.inr hx, hne⟩
      · rintro ⟨hx | hx, hne⟩
        · exact Or.inl hx
        · exact Or.inr ⟨hx, hne⟩

theorem akeys_eraseIdx {α} (l : List (Key × α)) (i : Nat) :
    akeys (l.eraseIdx i) = (akeys l).eraseIdx i := by
  induction l generalizing i with
  | nil => rfl
  | cons a t ih =>
    cases i with
    | zero => rfl
    | succ j => simp only [akeys, List.eraseIdx_cons_succ, List.map_cons] at ih ⊢; rw [ih]

theorem akeys_set_fst {α} (l : List (Key × α)) (i : Nat) (p : Key × α) (v : α) (h : l[i]? = some p) :
    akeys (l.set i (p.1, v)) = akeys l := by
  induction l generalizing i with
  | nil => rfl
  | cons a t ih =>
    cases i with
    | zero => simp at h; subst h; simp [akeys]
    | succ j =>
      simp at h
      simp only [akeys, List.set_cons_succ, List.map_cons] at ih ⊢; rw [ih j h]

theorem length_le_adel {α} (l : List (Key × α)) (k : Key) (h : (akeys l).Nodup) :
    l.length ≤ (adel l k).length + 1 := by
  induction l with
  | nil => simp
  | cons p t ih =>
    have h' : p.1 ∉ akeys t ∧ (akeys t).Nodup := by
      simpa [akeys, List.nodup_cons] using h
    by_cases hp : p.1 = k
    · have : adel (p :: t) k = t := by
        simp only [adel, List.filter_cons, hp, bne_self_eq_false, Bool.false_eq_true, if_false]
        rw [List.filter_eq_self]
        intro q hq
        have : q.1 ≠ k := fun e => h'.1 (hp ▸ e ▸ mem_akeys_of_mem hq)
        simpa using this
      rw [this]; simp
    · have : adel (p :: t) k = p :: adel t k := by
        simp [adel, hp]
      rw [this]; have := ih h'.2; simp; omega

/-! ### plain key lists -/

theorem list_insert_law {l : List Key} {k : Key} (h : l.Nodup) (hk : k ∉ l) :
    (l ++ [k]).Nodup ∧ ∀ x, x ∈ l ++ [k] ↔ x = k ∨ x ∈ l :=
  ⟨nodup_append_singleton h hk, fun x => by simp [Or.comm]⟩

theorem list_remove_law {l : List Key} (k : Key) (h : l.Nodup) :
    (l.erase k).Nodup ∧ ∀ x, x ∈ l.erase k ↔ x ∈ l ∧ x ≠ k :=
  ⟨h.erase k, mem_erase_iff' h⟩

theorem list_head_law {r : List Key} {k : Key} (h : (k :: r).Nodup) :
    r.Nodup ∧ ∀ x, x ∈ r ↔ x ∈ k :: r ∧ x ≠ k := by
  rw [List.nodup_cons] at h
  refine ⟨h.2, fun x => ?_⟩
  simp only [List.mem_cons]
  constructor
  · intro hx; exact ⟨Or.inr hx, fun e => h.1 (e ▸ hx)⟩
  · rintro ⟨hx | hx, hne⟩
    · exact absurd hx hne
    · exact hx

/-- the three facts about one `evict` call -/
def EvictOk (p : Pol) (now : Nat) (pick : List Key) : Prop :=
  ((p.evict now pick).1 = none ↔ p.tracked = []) ∧
  ((p.evict now pick).1 = none → (p.evict now pick).2 = p) ∧
  ∀ k, (p.evict now pick).1 = some k →
    k ∈ p.tracked ∧ (p.evict now pick).2.Inv ∧
      ∀ x, x ∈ (p.evict now pick).2.tracked ↔ x ∈ p.tracked ∧ x ≠ k

/-! ### LRU -/

theorem lru_access (s : LRU) (h : (Pol.lru s).Inv) (k : Key) :
    ((Pol.lru s).access k).Inv ∧
      ∀ x, x ∈ ((Pol.lru s).access k).tracked ↔ x ∈ (Pol.lru s).tracked := by
  simp only [Pol.Inv, Pol.access, Pol.tracked, LRU.access] at *
  split
  · exact ⟨nodup_erase_append h, mem_erase_append h ‹_›⟩
  · exact ⟨h, fun _ => Iff.rfl⟩

theorem lru_insert (s : LRU) (h : (Pol.lru s).Inv) (k now : Nat) (hk : k ∉ (Pol.lru s).tracked) :
    ((Pol.lru s).insert k now).Inv ∧
      ∀ x, x ∈ ((Pol.lru s).insert k now).tracked ↔ x = k ∨ x ∈ (Pol.lru s).tracked := by
  simp only [Pol.Inv, Pol.insert, Pol.tracked, LRU.insert] at *
  rw [if_neg hk]; exact list_insert_law h hk

theorem lru_remove (s : LRU) (h : (Pol.lru s).Inv) (k : Key) :
    ((Pol.lru s).remove k).Inv ∧
      ∀ x, x ∈ ((Pol.lru s).remove k).tracked ↔ x ∈ (Pol.lru s).tracked ∧ x ≠ k := by
  simp only [Pol.Inv, Pol.remove, Pol.tracked, LRU.remove] at *
  exact list_remove_law k h

theorem lru_evict (s : LRU) (h : (Pol.lru s).Inv) (now : Nat) (pick : List Key) :
    EvictOk (.lru s) now pick := by
  obtain ⟨l⟩ := s
  simp only [EvictOk, Pol.Inv, Pol.evict, Pol.tracked, LRU.evict] at *
  cases l with
  | nil => simp
  | cons a r =>
    refine ⟨by simp, by simp, ?_⟩
    intro k hk
    simp only [Option.some.injEq] at hk; subst hk
    exact ⟨List.mem_cons_self, list_head_law h⟩

/-! ### FIFO -/

theorem fifo_insert (s : FIFO) (h : (Pol.fifo s).Inv) (k now : Nat) (hk : k ∉ (Pol.fifo s).tracked) :
    ((Pol.fifo s).insert k now).Inv ∧
      ∀ x, x ∈ ((Pol.fifo s).insert k now).tracked ↔ x = k ∨ x ∈ (Pol.fifo s).tracked := by
  simp only [Pol.Inv, Pol.insert, Pol.tracked, FIFO.insert] at *
  rw [if_neg hk]; exact list_insert_law h hk

theorem fifo_remove (s : FIFO) (h : (Pol.fifo s).Inv) (k : Key) :
    ((Pol.fifo s).remove k).Inv ∧
      ∀ x, x ∈ ((Pol.fifo s).remove k).tracked ↔ x ∈ (Pol.fifo s).tracked ∧ x ≠ k := by
  simp only [Pol.Inv, Pol.remove, Pol.tracked, FIFO.remove] at *
  exact list_remove_law k h

theorem fifo_evict (s : FIFO) (h : (Pol.fifo s).Inv) (now : Nat) (pick : List Key) :
    EvictOk (.fifo s) now pick := by
  obtain ⟨l⟩ := s
  simp only [EvictOk, Pol.Inv, Pol.evict, Pol.tracked, FIFO.evict] at *
  cases l with
  | nil => simp
  | cons a r =>
    refine ⟨by simp, by simp, ?_⟩
    intro k hk
    simp only [Option.some.injEq] at hk; subst hk
    exact ⟨List.mem_cons_self, list_head_law h⟩

/-! ### Random -/

theorem rnd_insert (s : Rnd) (h : (Pol.rnd s).Inv) (k now : Nat) (hk : k ∉ (Pol.rnd s).tracked) :
    ((Pol.rnd s).insert k now).Inv ∧
      ∀ x, x ∈ ((Pol.rnd s).insert k now).tracked ↔ x = k ∨ x ∈ (Pol.rnd s).tracked := by
  simp only [Pol.Inv, Pol.insert, Pol.tracked, Rnd.insert] at *
  rw [if_neg hk]; exact list_insert_law h hk

theorem rnd_remove (s : Rnd) (h : (Pol.rnd s).Inv) (k : Key) :
    ((Pol.rnd s).remove k).Inv ∧
      ∀ x, x ∈ ((Pol.rnd s).remove k).tracked ↔ x ∈ (Pol.rnd s).tracked ∧ x ≠ k := by
  simp only [Pol.Inv, Pol.remove, Pol.tracked, Rnd.remove] at *
  exact list_remove_law k h

theorem rnd_choose_none (s : Rnd) (pick : List Key) : s.choose pick = none ↔ s.keys = [] := by
  simp only [Rnd.choose]
  split
  · rename_i c hc
    have := List.find?_some hc
    simp only [List.contains_iff_mem] at this
    constructor
    · intro e; cases e
    · intro e; rw [e] at this; cases this
  · simp [List.head?_eq_none_iff]

theorem rnd_choose_mem (s : Rnd) (pick : List Key) (c : Key) (h : s.choose pick = some c) :
    c ∈ s.keys := by
  simp only [Rnd.choose] at h
  split at h
  · rename_i c' hc
    have := List.find?_some hc
    simp only [Option.some.injEq] at h; subst h
    simpa using this
  · exact List.mem_of_mem_head? h

theorem rnd_evict (s : Rnd) (h : (Pol.rnd s).Inv) (now : Nat) (pick : List Key) :
    EvictOk (.rnd s) now pick := by
  simp only [EvictOk, Pol.Inv, Pol.evict, Pol.tracked, Rnd.evict] at *
  cases hc : s.choose pick with
  | none => simp [(rnd_choose_none s pick).mp hc]
  | some c =>
    have hm := rnd_choose_mem s pick c hc
    refine ⟨(by simp; intro e; rw [e] at hm; cases hm), by simp, ?_⟩
    intro k hk
    simp only [Option.some.injEq] at hk; subst hk
    exact ⟨hm, list_remove_law _ h⟩

/-! ### LFU -/

theorem aget?_some_mem {α} (l : List (Key × α)) (k : Key) (c : α) (h : aget? l k = some c) :
    k ∈ akeys l := by
  simp only [aget?, Option.map_eq_some_iff] at h
  obtain ⟨p, hp, _⟩ := h
  have h1 := List.mem_of_find?_eq_some hp
  have h2 := List.find?_some hp
  simp only [beq_iff_eq] at h2
  exact h2 ▸ mem_akeys_of_mem h1

theorem aset_insert_law {α} (l : List (Key × α)) (k : Key) (v : α) (h : (akeys l).Nodup)
    (hk : k ∉ akeys l) :
    (akeys (aset l k v)).Nodup ∧ ∀ x, x ∈ akeys (aset l k v) ↔ x = k ∨ x ∈ akeys l := by
  rw [akeys_aset_not_mem l k v hk]; exact list_insert_law h hk

theorem adel_remove_law {α} (l : List (Key × α)) (k : Key) (h : (akeys l).Nodup) :
    (akeys (adel l k)).Nodup ∧ ∀ x, x ∈ akeys (adel l k) ↔ x ∈ akeys l ∧ x ≠ k :=
  ⟨nodup_akeys_adel l k h, mem_akeys_adel l k⟩

theorem lfu_access (s : LFU) (h : (Pol.lfu s).Inv) (k : Key) :
    ((Pol.lfu s).access k).Inv ∧
      ∀ x, x ∈ ((Pol.lfu s).access k).tracked ↔ x ∈ (Pol.lfu s).tracked := by
  simp only [Pol.Inv, Pol.access, Pol.tracked, LFU.access] at *
  split
  · rename_i c hc
    rw [akeys_aset_mem _ _ _ (aget?_some_mem _ _ _ hc)]
    exact ⟨h, fun _ => Iff.rfl⟩
  · exact ⟨h, fun _ => Iff.rfl⟩

theorem lfu_insert (s : LFU) (h : (Pol.lfu s).Inv) (k now : Nat) (hk : k ∉ (Pol.lfu s).tracked) :
    ((Pol.lfu s).insert k now).Inv ∧
      ∀ x, x ∈ ((Pol.lfu s).insert k now).tracked ↔ x = k ∨ x ∈ (Pol.lfu s).tracked := by
  simp only [Pol.Inv, Pol.insert, Pol.tracked, LFU.insert] at *
  exact aset_insert_law _ _ _ h hk

theorem lfu_remove (s : LFU) (h : (Pol.lfu s).Inv) (k : Key) :
    ((Pol.lfu s).remove k).Inv ∧
      ∀ x, x ∈ ((Pol.lfu s).remove k).tracked ↔ x ∈ (Pol.lfu s).tracked ∧ x ≠ k := by
  simp only [Pol.Inv, Pol.remove, Pol.tracked, LFU.remove] at *
  exact adel_remove_law _ _ h

theorem lfu_evict (s : LFU) (h : (Pol.lfu s).Inv) (now : Nat) (pick : List Key) :
    EvictOk (.lfu s) now pick := by
  simp only [EvictOk, Pol.Inv, Pol.evict, Pol.tracked, LFU.evict] at *
  cases hc : argminFirst s.counts with
  | none => simp [(argminFirst_eq_none _).mp hc, akeys_nil]
  | some p =>
    have hm := argminFirst_mem _ _ hc
    refine ⟨(by simp [akeys_eq_nil]; intro e; rw [e] at hm; cases hm), by simp, ?_⟩
    intro k hk
    simp only [Option.some.injEq] at hk; subst hk
    exact ⟨mem_akeys_of_mem hm, adel_remove_law _ _ h⟩

/-! ### TTL -/

theorem ttl_insert (s : TTL) (h : (Pol.ttl s).Inv) (k now : Nat) (hk : k ∉ (Pol.ttl s).tracked) :
    ((Pol.ttl s).insert k now).Inv ∧
      ∀ x, x ∈ ((Pol.ttl s).insert k now).tracked ↔ x = k ∨ x ∈ (Pol.ttl s).tracked := by
  simp only [Pol.Inv, Pol.insert, Pol.tracked, TTL.insert] at *
  exact aset_insert_law _ _ _ h hk

theorem ttl_remove (s : TTL) (h : (Pol.ttl s).Inv) (k : Key) :
    ((Pol.ttl s).remove k).Inv ∧
      ∀ x, x ∈ ((Pol.ttl s).remove k).tracked ↔ x ∈ (Pol.ttl s).tracked ∧ x ≠ k := by
  simp only [Pol.Inv, Pol.remove, Pol.tracked, TTL.remove] at *
  exact adel_remove_law _ _ h

theorem ttl_victim_none (s : TTL) (now : Nat) : s.victim now = none ↔ s.times = [] := by
  simp only [TTL.victim]
  split
  · rename_i p hp
    have := List.mem_of_find?_eq_some hp
    constructor
    · intro e; cases e
    · intro e; rw [e] at this; cases this
  · exact argminFirst_eq_none _

theorem ttl_victim_mem (s : TTL) (now : Nat) (p : Key × Nat) (h : s.victim now = some p) :
    p ∈ s.times := by
  simp only [TTL.victim] at h
  split at h
  · rename_i q hq
    simp only [Option.some.injEq] at h; subst h
    exact List.mem_of_find?_eq_some hq
  · exact argminFirst_mem _ _ h

theorem ttl_evict (s : TTL) (h : (Pol.ttl s).Inv) (now : Nat) (pick : List Key) :
    EvictOk (.ttl s) now pick := by
  simp only [EvictOk, Pol.Inv, Pol.evict, Pol.tracked, TTL.evict] at *
  cases hc : s.victim now with
  | none => simp [(ttl_victim_none _ _).mp hc, akeys_nil]
  | some p =>
    have hm := ttl_victim_mem _ _ _ hc
    refine ⟨(by simp [akeys_eq_nil]; intro e; rw [e] at hm; cases hm), by simp, ?_⟩
    intro k hk
    simp only [Option.some.injEq] at hk; subst hk
    exact ⟨mem_akeys_of_mem hm, adel_remove_law _ _ h⟩

end HappyModel.C16
