import HappyProofs.C16.TRawH
/-!
Multi-tier read-after-write over every interleaving, part 9: every later segment keeps the
invariant (`mraw_resume`).
-/
namespace HappyModel.C16.Tier
open HappyModel.C16

/-- every tier index is covered by the configuration -/
def MLen (cfg : MCfg) (ms : MSt) : Prop := ms.tiers.length = cfg.tiers.length

theorem getElem?_lt {α} {l : List α} {t : Nat} {x : α} (h : l[t]? = some x) : t < l.length := by
  cases Nat.lt_or_ge t l.length with
  | inl h' => exact h'
  | inr h' => rw [List.getElem?_eq_none h'] at h; cases h

theorem onTier_cases' (cfg : MCfg) (ms : MSt) (t : Nat) (f : Cfg → St → St × Option Res) :
    (∃ c s, cfg.tiers[t]? = some c ∧ ms.tiers[t]? = some s ∧
      onTier cfg ms t f = ({ ms with tiers := ms.tiers.set t (f c (plug s ms.back)).1, back := (f c (plug s ms.back)).1.back }, (f c (plug s ms.back)).2)) ∨
    ((cfg.tiers[t]? = none ∨ ms.tiers[t]? = none) ∧ onTier cfg ms t f = (ms, none)) := by
  cases ec : cfg.tiers[t]? with
  | none => exact Or.inr ⟨Or.inl rfl, onTier_none cfg ms t f (Or.inl ec)⟩
  | some c =>
    cases es : ms.tiers[t]? with
    | none => exact Or.inr ⟨Or.inr rfl, onTier_none cfg ms t f (Or.inr es)⟩
    | some s => exact Or.inl ⟨c, s, rfl, rfl, onTier_eq cfg ms t f c s ec es⟩

/-- the backing-store write of a `put` -/
theorem mraw_resume_putBack (cfg : MCfg) (hc : SeqCfg cfg) {g : Gh} {ms0 : MSt} (h : MInv g ms0)
    (hlen : MLen cfg ms0) (i k v now : Nat) (hm : (i, MPend.putBack k v) ∈ ms0.pend)
    (o : Obs) (hoi : o.i = i) (hor : o.res = (mresume cfg ms0 i (.putBack k v) now).2) :
    MInv (g.ext o []) (mresume cfg ms0 i (.putBack k v) now).1 := by
  obtain ⟨his, hie⟩ := h.pi.pendS _ hm
  have hop := h.pi.pb i k v hm
  have hself : ∀ P, Fresh g k (some v) P := fun P => Fresh.self P his hop rfl hie
  have hor : o.res = none := hor
  -- the state after the backing write and the sweep
  let msA : MSt := { ms0.clearPend i with back := aset ms0.back k v }
  have hdA : ∀ (t : Nat) (s : St), msA.tiers[t]? = some s → s.dirty = [] := h.vi.d
  obtain ⟨hbB, hsw⟩ := sweep_nb cfg msA (.inv k) (Or.inl ⟨k, rfl⟩) hdA
  -- tier 0 after `tiers[0].put`
  have shape : ∃ ms' : MSt, (mresume cfg ms0 i (.putBack k v) now).1 = ms' ∧
      ms'.pend = (ms0.clearPend i).pend ++ [(i, .putL1 k)] ∧ ms'.epoch = ms0.epoch ∧ ms'.infl = ms0.infl ∧
      ms'.back = aset ms0.back k v ∧
      ∀ (t : Nat) (s' : St), ms'.tiers[t]? = some s' → ∃ s : St, ms0.tiers[t]? = some s ∧ s'.dirty = [] ∧
        (∀ x ∈ s'.pend, x ∈ s.pend ∨ (x = (i, Pend.putWT k v) ∧ t = 0)) ∧
        ∀ x w, aget? s'.cache x = some w → (x ≠ k ∧ aget? s.cache x = some w) ∨ (x = k ∧ w = v) := by
    have e0 : (mresume cfg ms0 i (.putBack k v) now).1 =
        (onTier cfg (msA.sweep cfg (.inv k)) 0 (fun c s => start c s i (.put k v) now)).1.setPend i (.putL1 k) := rfl
    have swept : ∀ (t : Nat) (s' : St), (msA.sweep cfg (.inv k)).tiers[t]? = some s' → ∃ s : St,
        ms0.tiers[t]? = some s ∧ s'.dirty = [] ∧ s'.pend = s.pend ∧ k ∉ akeys s'.cache ∧
        ∀ x w, aget? s'.cache x = some w → aget? s.cache x = some w := by
      intro t s' hs'
      obtain ⟨s, hs, a1, a2, a3, a4⟩ := hsw.at_ t s' hs'
      have hlt : t < cfg.tiers.length := by
        have := getElem?_lt hs
        have hl : msA.tiers.length = cfg.tiers.length := hlen
        omega
      exact ⟨s, hs, a1, a2, (a4 (Nat.zero_le _) hlt).1 k rfl, a3⟩
    have sweptC : ∀ (t : Nat) (s' : St), (msA.sweep cfg (.inv k)).tiers[t]? = some s' → ∃ s : St,
        ms0.tiers[t]? = some s ∧ s'.dirty = [] ∧
        (∀ x ∈ s'.pend, x ∈ s.pend ∨ (x = (i, Pend.putWT k v) ∧ t = 0)) ∧
        ∀ x w, aget? s'.cache x = some w → (x ≠ k ∧ aget? s.cache x = some w) ∨ (x = k ∧ w = v) := by
      intro t s' hs'
      obtain ⟨s, hs, a1, a2, a3, a4⟩ := swept t s' hs'
      refine ⟨s, hs, a1, fun x hx => Or.inl (a2 ▸ hx), ?_⟩
      intro x w hw
      have hxk : x ≠ k := fun e => a3 (e ▸ sq_mem_akeys_of_some _ _ _ hw)
      exact Or.inl ⟨hxk, a4 x w hw⟩
    rcases onTier_cases cfg (msA.sweep cfg (.inv k)) 0 (fun c s => start c s i (.put k v) now) with
      ⟨c, sB, hcc, hsB, e⟩ | e
    · refine ⟨_, e0, ?_⟩
      rw [e]
      have hwt : c.wt = true := (hc c (List.mem_of_getElem? hcc)).2.1
      obtain ⟨s, hs, a1, a2, a3, a4⟩ := swept 0 sB hsB
      obtain ⟨ts, tp, tg⟩ := startPut_nb c hwt (plug sB (msA.sweep cfg (.inv k)).back) i k v now a1
      refine ⟨rfl, rfl, rfl, ?_, ?_⟩
      · show (start c (plug sB (msA.sweep cfg (.inv k)).back) i (.put k v) now).1.back = _
        rw [ts.back]; exact hbB
      · intro t s' hs'
        have hs' : ((msA.sweep cfg (.inv k)).tiers.set 0
          (start c (plug sB (msA.sweep cfg (.inv k)).back) i (.put k v) now).1)[t]? = some s' := hs'
        rcases getElem?_set_cases hs' with ⟨et, es⟩ | ⟨_, hold⟩
        · subst et; subst es
          refine ⟨s, hs, ts.dirty, ?_, ?_⟩
          · intro x hx
            rw [tp] at hx
            rcases List.mem_append.mp hx with hx | hx
            · exact Or.inl (a2 ▸ hx)
            · simp only [List.mem_singleton] at hx; exact Or.inr ⟨hx, rfl⟩
          · intro x w hw
            rcases ts.cache x w hw with h' | h'
            · have hxk : x ≠ k := fun e' => a3 (e' ▸ sq_mem_akeys_of_some _ _ _ h')
              exact Or.inl ⟨hxk, a4 x w h'⟩
            · cases h'; exact Or.inr ⟨rfl, rfl⟩
        · exact sweptC t s' hold
    · refine ⟨_, e0, ?_⟩
      rw [e]
      exact ⟨rfl, rfl, rfl, hbB, sweptC⟩
  obtain ⟨ms', e0, hp, he, hi, hb, ht⟩ := shape
  rw [e0]
  have hkeyI : ∀ x j, InFl ms0 x j → j = i → x = k := by
    rintro x j ⟨q, hq, hk⟩ e
    subst e
    rw [mpend_unique h.pi hq hm] at hk
    exact (Option.some.inj hk).symm
  have hinfl' : ∀ x j, InFl ms0 x j → InFl ms' x j := by
    intro x j hj
    by_cases e : j = i
    · have := hkeyI x j hj e
      subst this; subst e
      exact ⟨.putL1 x, by rw [hp]; simp, rfl⟩
    · exact infl_clear hp e hj
  have hcnt := fun x => inflCount_clear ms0.pend i (.putBack k v) x h.pi.pendND hm
  have pi' : MPI g ms' := by
    refine mpi_clear h.pi hm hp (Or.inr ⟨k, v, rfl, hop⟩) ?_ (fun x => by rw [he]; exact Nat.le_refl _)
      (fun x j _ hj => hinfl' x j hj) ?_ ?_
    · intro x
      have e1 : inflCount [(i, MPend.putL1 k)] x = if k = x then 1 else 0 := by
        by_cases e : k = x <;> simp [inflCount, inflKey, e]
      have e2 : (if inflKey (MPend.putBack k v) = some x then 1 else 0) = if k = x then 1 else 0 := by
        simp [inflKey]
      rw [hi, hp, inflCount_append, h.pi.infl x, hcnt x, e1, e2]
      rfl
    · intro x
      rw [hb]
      by_cases e : x = k
      · subst e; right; intro P; rw [wb_aget?_aset_self]; exact hself P
      · exact Or.inl (wb_aget?_aset_other _ _ _ _ e)
    · intro t s' hs'
      obtain ⟨s, hs, _, hsub, _⟩ := ht t s' hs'
      refine ⟨s, hs, fun x hx => ?_⟩
      rcases hsub x hx with h' | ⟨h', _⟩
      · exact Or.inl h'
      · exact Or.inr (by rw [h'])
  have vi' : MVI g ms' := by
    refine mvi_update h.vi (some k) ?_ ?_ ?_ (fun t s' hs' => (ht t s' hs').choose_spec.2.1) ?_
    · intro x j hx hbj
      have hji : j ≠ i := by
        intro e
        have := hkeyI x j ⟨hbj.choose, hbj.choose_spec.1, inflKey_of_mbwKey hbj.choose_spec.2⟩ e
        exact hx (by rw [this])
      exact bpm_clear hp hji hbj
    · intro t s' x w hs' hw
      obtain ⟨s, hs, _, _, hcache⟩ := ht t s' hs'
      rcases hcache x w hw with ⟨hxk, h'⟩ | ⟨rfl, rfl⟩
      · exact Or.inl ⟨fun e => hxk (Option.some.inj e).symm, t, s, hs, h'⟩
      · exact Or.inr (Or.inr (hself _))
    · intro x
      rw [hb]
      by_cases e : x = k
      · subst e; right; rw [wb_aget?_aset_self]; exact hself _
      · exact Or.inl ⟨fun e' => e (Option.some.inj e').symm, wb_aget?_aset_other _ _ _ _ e⟩
    · intro t s' hs' x hx
      obtain ⟨s, hs, _, hsub, _⟩ := ht t s' hs'
      rcases hsub x hx with h' | ⟨h', h0⟩
      · exact h.vi.tp t s hs x h'
      · subst h'
        exact ⟨his, Or.inr (Or.inr ⟨k, v, rfl, h0, hop, hie⟩)⟩
  refine mext_same h.gi pi' vi' o ?_ (fun hs => by rw [hor] at hs; cases hs)
    (fun hs => by rw [hor] at hs; cases hs) (fun hs => by rw [hor] at hs; cases hs)
    (fun _ _ _ hs => by rw [hor] at hs; cases hs)
  intro j op' k' hj hjm hk
  rcases h.lim.elim hj hjm hk with h' | h'
  · exact Or.inl (hinfl' k' j h')
  · exact Or.inr (Or.inl h')

/-- the completion of a `put`: `tiers[0].put` returns, the lower tiers are invalidated again -/
theorem mraw_resume_putL1 (cfg : MCfg) (hrep : cfg.rep = true) {g : Gh} {ms0 : MSt} (h : MInv g ms0)
    (hlen : MLen cfg ms0) (i k now : Nat) (hm : (i, MPend.putL1 k) ∈ ms0.pend)
    (o : Obs) (hoi : o.i = i) (hor : o.res = (mresume cfg ms0 i (.putL1 k) now).2) :
    MInv (g.ext o []) (mresume cfg ms0 i (.putL1 k) now).1 := by
  obtain ⟨his, hie⟩ := h.pi.pendS _ hm
  obtain ⟨v, hop⟩ := h.pi.pl i k hm
  have hres : o.res.isSome := by rw [hor]; rfl
  have e0 : (mresume cfg ms0 i (.putL1 k) now).1 =
      ((onTier cfg (ms0.clearPend i) 0 (fun c s => step c s (.resume i now))).1.sweepLow cfg (.inv k)).leave cfg k := by
    unfold mresume; simp only [hrep, if_true]
  rw [e0]
  -- tier 0 after the tier-level later segment
  have shape : ∃ msR : MSt, (onTier cfg (ms0.clearPend i) 0 (fun c s => step c s (.resume i now))).1 = msR ∧
      msR.pend = (ms0.clearPend i).pend ∧ msR.epoch = ms0.epoch ∧ msR.infl = ms0.infl ∧
      (∀ x, aget? msR.back x = aget? ms0.back x ∨ (x = k ∧ aget? msR.back k = some v)) ∧
      ∀ (t : Nat) (s' : St), msR.tiers[t]? = some s' → ∃ s : St, ms0.tiers[t]? = some s ∧ s'.dirty = [] ∧
        (∀ x ∈ s'.pend, x ∈ s.pend) ∧ (∀ x ∈ s'.pend, (∃ k v, x.2 = Pend.putWT k v) → x.1 ≠ i) ∧
        ∀ x w, aget? s'.cache x = some w → aget? s.cache x = some w ∨ aget? ms0.back x = some w := by
    have same : ∀ (t : Nat) (s' : St), t ≠ 0 → ms0.tiers[t]? = some s' → ∃ s : St, ms0.tiers[t]? = some s ∧
        s'.dirty = [] ∧ (∀ x ∈ s'.pend, x ∈ s.pend) ∧
        (∀ x ∈ s'.pend, (∃ k v, x.2 = Pend.putWT k v) → x.1 ≠ i) ∧
        ∀ x w, aget? s'.cache x = some w → aget? s.cache x = some w ∨ aget? ms0.back x = some w := by
      intro t s' ht0 hs'
      refine ⟨s', hs', h.vi.d t s' hs', fun x hx => hx, ?_, fun x w hw => Or.inl hw⟩
      intro x hx ⟨k', v', e⟩
      rcases (h.vi.tp t s' hs' x hx).2 with ⟨_, e'⟩ | ⟨_, _, e'⟩ | ⟨_, _, _, e0', _⟩
      · rw [e] at e'; cases e'
      · rw [e] at e'; cases e'
      · exact absurd e0' ht0
    rcases onTier_cases' cfg (ms0.clearPend i) 0 (fun c s => step c s (.resume i now)) with
      ⟨c, s, hcc, hs, e⟩ | ⟨hwhy, e⟩
    · refine ⟨_, rfl, ?_⟩
      rw [e]
      have hs0 : ms0.tiers[0]? = some s := hs
      have tr := tier_resume (g := g) (t := 0) c s (ms0.clearPend i).back i now (h.vi.d 0 s hs0) (h.vi.tp 0 s hs0)
      refine ⟨rfl, rfl, rfl, ?_, ?_⟩
      · intro x
        show aget? (step c (plug s (ms0.clearPend i).back) (.resume i now)).1.back x = _ ∨ _
        rcases tr.back with hb | ⟨k', v', hmem, hb⟩
        · rw [hb]; exact Or.inl rfl
        · rcases (h.vi.tp 0 s hs0 _ hmem).2 with ⟨_, e'⟩ | ⟨_, _, e'⟩ | ⟨k'', v'', e', _, ho, _⟩
          · cases e'
          · cases e'
          · cases e'
            have := ops_unique h.gi.nd hop ho
            cases this
            rw [hb]
            by_cases ex : x = k
            · subst ex; exact Or.inr ⟨rfl, wb_aget?_aset_self _ _ _⟩
            · exact Or.inl (wb_aget?_aset_other _ _ _ _ ex)
      · intro t s' hs'
        have hs' : ((ms0.clearPend i).tiers.set 0 (step c (plug s (ms0.clearPend i).back) (.resume i now)).1)[t]? = some s' := hs'
        rcases getElem?_set_cases hs' with ⟨et, es⟩ | ⟨hne, hold⟩
        · subst et; subst es
          exact ⟨s, hs0, tr.dirty, tr.pendSub, fun x hx _ => tr.pendNo x hx, tr.cache⟩
        · exact same t s' hne hold
    · refine ⟨_, rfl, ?_⟩
      rw [e]
      refine ⟨rfl, rfl, rfl, fun x => Or.inl rfl, ?_⟩
      intro t s' hs'
      have hs' : ms0.tiers[t]? = some s' := hs'
      by_cases ht0 : t = 0
      · -- tier 0 does not exist (the tier lists have the same length), so this cannot be
        subst ht0
        exfalso
        have hl : ms0.tiers.length = cfg.tiers.length := hlen
        have hlt := getElem?_lt hs'
        rcases hwhy with hw | hw
        · rw [List.getElem?_eq_none_iff] at hw; omega
        · have hw : ms0.tiers[0]? = none := hw
          rw [hw] at hs'; cases hs'
      · exact same t s' ht0 hs'
  obtain ⟨msR, eR, hp, he, hi, hb, ht⟩ := shape
  rw [eR]
  have hdR : ∀ (t : Nat) (s : St), msR.tiers[t]? = some s → s.dirty = [] :=
    fun t s hs => (ht t s hs).choose_spec.2.1
  obtain ⟨hbL, hsw⟩ := sweepLow_nb cfg msR (.inv k) (Or.inl ⟨k, rfl⟩) hdR
  refine write_complete (msC := msR.sweepLow cfg (.inv k)) cfg hrep h hm rfl hop rfl none (Or.inl ⟨rfl, rfl⟩)
    (show (msR.sweepLow cfg (.inv k)).pend = _ from hp) (show (msR.sweepLow cfg (.inv k)).epoch = _ from he)
    (show (msR.sweepLow cfg (.inv k)).infl = _ from hi) ?_ (fun e => by cases e) ?_ o hoi hres
  · intro x
    show aget? (msR.sweepLow cfg (.inv k)).back x = _ ∨ _
    rw [hbL]
    rcases hb x with h' | ⟨e, h'⟩
    · exact Or.inl h'
    · exact Or.inr ⟨e, h'⟩
  · intro t s' hs'
    obtain ⟨s1, hs1, a1, a2, a3, _⟩ := hsw.at_ t s' hs'
    obtain ⟨s, hs, _, b2, b3, b4⟩ := ht t s1 hs1
    exact ⟨s, hs, a1, fun x hx => b2 x (a2 ▸ hx), fun x hx => b3 x (a2 ▸ hx),
      fun x w hw => ⟨by simp, b4 x w (a3 x w hw)⟩⟩

end HappyModel.C16.Tier
